(* C05 — proofs about the symbolic wire model (Model/Wire.v). *)
From FRP Require Import Model.Wire.
From Coq Require Import Lia.
Open Scope Z_scope.
Import TlsPolicy Wire.

Lemma visible_msg knows n fs : visible knows (TMsg n fs) = flat_map (visible knows) fs.
Proof. cbn. induction fs as [|x r IH]; [reflexivity|]. cbn. now rewrite IH. Qed.

Lemma visible_all_app knows a b : visible_all knows (a ++ b) = visible_all knows a ++ visible_all knows b.
Proof. apply flat_map_app. Qed.

Lemma visible_tls knows t : visible knows (TTls t) = [].
Proof. reflexivity. Qed.

(* ---------- what a field can show ---------- *)
Lemma field_term_atoms knows ctx meta ts f a :
  In a (visible knows (field_term ctx meta ts f)) ->
  (exists k, snd f = XSecret k /\ a = ctx k) \/ meta (fst f) = Some a.
Proof.
  unfold field_term. destruct (snd f) eqn:E; cbn; try contradiction.
  - intros [<-|[]]. left. eauto.
  - destruct (meta (fst f)) eqn:M; cbn; [intros [<-|[]]; now right|contradiction].
Qed.

Definition meta_plain (meta : string -> option atom) : Prop :=
  forall s a, meta s = Some a -> is_secret a = false /\ is_payload a = false.
Definition ctx_secret (ctx : skind -> atom) : Prop := forall k, is_payload (ctx k) = false.

Lemma fields_no_secret knows ctx meta ts fs a :
  fields_safe fs = true -> meta_plain meta ->
  In a (flat_map (visible knows) (map (field_term ctx meta ts) fs)) -> is_secret a = false.
Proof.
  intros Hs Hm Hin. apply in_flat_map in Hin. destruct Hin as [t [Ht Ha]].
  apply in_map_iff in Ht. destruct Ht as [f [<- Hf]].
  unfold fields_safe in Hs. rewrite forallb_forall in Hs. specialize (Hs f Hf).
  apply field_term_atoms in Ha. destruct Ha as [[k [E _]]|M].
  - rewrite E in Hs. discriminate.
  - apply (Hm _ _ M).
Qed.

Lemma fields_no_payload knows ctx meta ts fs a :
  ctx_secret ctx -> meta_plain meta ->
  In a (flat_map (visible knows) (map (field_term ctx meta ts) fs)) -> is_payload a = false.
Proof.
  intros Hc Hm Hin. apply in_flat_map in Hin. destruct Hin as [t [Ht Ha]].
  apply in_map_iff in Ht. destruct Ht as [f [<- Hf]].
  apply field_term_atoms in Ha. destruct Ha as [[k [_ ->]]|M]; [apply Hc|apply (Hm _ _ M)].
Qed.

Lemma fields_safe_app a b : fields_safe (a ++ b) = fields_safe a && fields_safe b.
Proof. apply forallb_app. Qed.

Lemma msg_of_no_secret knows n o ctx meta ts a :
  (forall fs, o = Some fs -> fields_safe fs = true) -> meta_plain meta ->
  In a (visible knows (msg_of n o ctx meta ts)) -> is_secret a = false.
Proof.
  intros Ho Hm. unfold msg_of. destruct o as [fs|]; [|cbn; contradiction].
  rewrite visible_msg. apply fields_no_secret; auto.
Qed.

Lemma msg_of_no_payload knows n o ctx meta ts a :
  ctx_secret ctx -> meta_plain meta ->
  In a (visible knows (msg_of n o ctx meta ts)) -> is_payload a = false.
Proof.
  intros Hc Hm. unfold msg_of. destruct o as [fs|]; [|cbn; contradiction].
  rewrite visible_msg. apply fields_no_payload; auto.
Qed.

(* ---------- facts ---------- *)
Lemma lit_fields_safe T file func typ fs :
  lits_ok T = true -> lit_fields T file func typ = Some fs -> fields_safe fs = true.
Proof.
  unfold lits_ok, lit_fields, find_lit. intros H. destruct (find _ _) as [l|] eqn:F; [|discriminate].
  intros [= <-]. apply find_some in F. rewrite forallb_forall in H. apply H, F.
Qed.

Lemma auth_fields_safe T func : auth_ok T = true -> fields_safe (auth_fields T func) = true.
Proof.
  unfold auth_ok. intros H. apply andb_true_iff in H. destruct H as [H _].
  unfold fields_safe, auth_fields. rewrite forallb_forall in *. intros f Hf.
  apply in_map_iff in Hf. destruct Hf as [a [<- Ha]]. apply filter_In in Ha. cbn. apply H, Ha.
Qed.

Lemma facts_parts T : facts_ok T = true ->
  auth_ok T = true /\ lits_ok T = true /\ writes_ok T = true /\ ctl_ok T = true /\ flows_ok T = true /\ enc_ok T = true.
Proof. unfold facts_ok. rewrite !andb_true_iff. tauto. Qed.

Lemma facts_sniff T : facts_ok T = true -> sniff_ok T = true.
Proof. unfold facts_ok. rewrite !andb_true_iff. tauto. Qed.

Lemma facts_enc T : facts_ok T = true -> enc_ok T = true.
Proof. intros H. apply facts_parts in H. tauto. Qed.

Lemma ctx0_secret : ctx_secret ctx0. Proof. intros []; reflexivity. Qed.
Lemma ctxp_secret p : ctx_secret (ctxp p). Proof. intros []; reflexivity. Qed.
Lemma no_meta_plain : meta_plain no_meta. Proof. intros s a; discriminate. Qed.

Ltac meta_tac :=
  let s := fresh in let a := fresh in let H := fresh in
  intros s a H; repeat (destruct (String.eqb _ _) in H); try discriminate; injection H as <-; split; reflexivity.

(* ---------- control channel ---------- *)
(* the control cipher is installed for every key value: no dependence on the token's content *)
Lemma ctl_layer_spec T file c t s :
  find_ctl T file = Some s -> ctl_site_ok s = true -> tb_crw T = CrwAlways -> w_internal c = false ->
  ctl_layer T file c t = TCipher ATok t.
Proof.
  intros F Hs Hc Hi. unfold ctl_layer. rewrite F. unfold ctl_site_ok in Hs.
  destruct (cs_guard s); try discriminate. destruct (cs_key s) as [| [] | | | |]; try discriminate.
  apply andb_true_iff in Hs. destruct Hs as [H1 _]. rewrite Hi. cbn. rewrite H1, Hc. reflexivity.
Qed.

Lemma ctl_spec T c t :
  ctl_ok T = true -> w_internal c = false ->
  c2s T c t = TCipher ATok t /\ s2c T c t = TCipher ATok t.
Proof.
  unfold ctl_ok. intros H Hi. rewrite !andb_true_iff in H. destruct H as [[H _] Hc].
  destruct (tb_crw T) eqn:Ec; [|discriminate].
  destruct (find_ctl T "client/control.go") as [a|] eqn:Fa; [|discriminate].
  destruct (find_ctl T "server/control.go") as [b|] eqn:Fb; [|discriminate].
  apply andb_true_iff in H. destruct H as [Ha Hb].
  split; [exact (ctl_layer_spec _ _ _ _ _ Fa Ha Ec Hi)|exact (ctl_layer_spec _ _ _ _ _ Fb Hb Ec Hi)].
Qed.

Lemma ctl_hidden T c knows t :
  ctl_ok T = true -> w_internal c = false -> knows ATok = false ->
  visible knows (c2s T c t) = [] /\ visible knows (s2c T c t) = [].
Proof.
  intros H Hi Hk. destruct (ctl_spec T c t H Hi) as [-> ->]. cbn. rewrite Hk. auto.
Qed.

(* ---------- payload layers ---------- *)
Section TermInd.
  Variable P : term -> Prop.
  Hypothesis HA : forall a, P (TAtom a).
  Hypothesis HT : forall ts, P (TTs ts).
  Hypothesis HR : forall l, P (TRaw l).
  Hypothesis HH : forall l, P (THash l).
  Hypothesis HC : forall k t, P t -> P (TCipher k t).
  Hypothesis HCo : forall t, P t -> P (TComp t).
  Hypothesis HTl : forall t, P (TTls t).
  Hypothesis HM : forall n fs, Forall P fs -> P (TMsg n fs).
  Hypothesis HB : forall w, P (TBad w).
  Fixpoint term_ind' (t : term) : P t :=
    match t with
    | TAtom a => HA a | TTs ts => HT ts | TRaw l => HR l | THash l => HH l
    | TCipher k t' => HC k t' (term_ind' t') | TComp t' => HCo t' (term_ind' t')
    | TTls t' => HTl t'
    | TMsg n fs => HM n fs ((fix go (l : list term) : Forall P l :=
                               match l with [] => Forall_nil P | x :: r => Forall_cons x (term_ind' x) (go r) end) fs)
    | TBad w => HB w
    end.
End TermInd.

(* an observer who knows every key sees at least what any other observer sees *)
Lemma visible_sub knows t : forall a, In a (visible knows t) -> In a (visible (fun _ => true) t).
Proof.
  induction t using term_ind'; intros x0; try (cbn [visible]; auto; fail).
  - cbn [visible]. destruct (knows k); [auto|contradiction].
  - rewrite !visible_msg.
    rewrite !in_flat_map. intros [x [Hx Hin]]. exists x. split; [assumption|].
    rewrite Forall_forall in H. now apply H.
Qed.

Lemma enc_layer_atoms knows T file func cf cfn ctx enc comp t a :
  In a (visible knows (enc_layer T file func cf cfn ctx enc comp t)) -> In a (visible (fun _ => true) t).
Proof.
  unfold enc_layer. destruct (find_enc T file func) as [s|]; [|cbn; contradiction].
  destruct (guard_on (es_guard s) enc comp) as [[]|]; destruct (key_atom ctx (resolve_key T s cf cfn)) as [k|];
    cbn [visible]; try contradiction.
  - destruct (knows k); [apply visible_sub|contradiction].
  - apply visible_sub.
Qed.

Lemma comp_payload_atoms comp x a : In a (visible (fun _ => true) (comp_layer comp (TAtom (APayload x)))) -> a = APayload x.
Proof. destruct comp; cbn; intros [<-|[]]; reflexivity. Qed.

Lemma payload_term_atoms knows T p d x a : In a (visible knows (payload_term T p d x)) -> a = APayload x.
Proof.
  unfold payload_term. destruct d; destruct (p_kind p); intros H; apply enc_layer_atoms in H;
    now apply comp_payload_atoms in H.
Qed.

Lemma vpayload_term_atoms knows T v d x a : In a (visible knows (vpayload_term T v d x)) -> a = APayload x.
Proof.
  unfold vpayload_term. destruct d; [|destruct (v_kind v)]; intros H; apply enc_layer_atoms in H;
    now apply comp_payload_atoms in H.
Qed.

Lemma same_key_inv a b k : same_key a b k = true -> a = Some (XSecret k) /\ b = Some (XSecret k).
Proof.
  unfold same_key. destruct a as [[]|]; try discriminate. destruct b as [[]|]; try discriminate.
  destruct k0, k1, k; try discriminate; auto.
Qed.

Lemma enc_layer_spec T file func cf cfn ctx enc comp t k :
  forallb (enc_site_ok T) (tb_enc T) = true ->
  site_key T file func cf cfn = Some (XSecret k) ->
  enc_layer T file func cf cfn ctx enc comp t = if enc then TCipher (ctx k) t else t.
Proof.
  intros Hall. unfold site_key, enc_layer. destruct (find_enc T file func) as [s|] eqn:F; [|discriminate].
  intros [= Hk]. rewrite Hk. unfold find_enc in F. apply find_some in F. destruct F as [Hin _].
  rewrite forallb_forall in Hall. specialize (Hall s Hin). unfold enc_site_ok in Hall.
  destruct (es_guard s); try discriminate. cbn. destruct enc; reflexivity.
Qed.

Lemma enc_parts T : enc_ok T = true -> forallb (enc_site_ok T) (tb_enc T) = true /\ pairs_ok T = true.
Proof. unfold enc_ok. rewrite !andb_true_iff. tauto. Qed.

(* UseEncryption guards a cipher layer keyed by the token on both ends of a work connection ... *)
Lemma payload_term_spec T p d x :
  enc_ok T = true ->
  payload_term T p d x =
  let inner := comp_layer (p_comp p) (TAtom (APayload x)) in
  if p_enc p then TCipher ATok inner else inner.
Proof.
  intros H. apply enc_parts in H. destruct H as [Hall Hp]. unfold pairs_ok in Hp.
  rewrite !andb_true_iff in Hp. destruct Hp as [[[[H1 H2] H3] H4] H5].
  apply same_key_inv in H1, H2, H4. destruct H1 as [S1 C1], H2 as [S2 _], H4 as [_ C4].
  unfold payload_term. cbv zeta.
  destruct d; destruct (p_kind p);
    rewrite (enc_layer_spec _ _ _ _ _ _ _ _ _ KTok Hall) by assumption; reflexivity.
Qed.

(* ... and by the proxy's secret key on both ends of a visitor connection *)
Lemma vpayload_term_spec T v d x :
  enc_ok T = true ->
  vpayload_term T v d x =
  let inner := comp_layer (v_comp v) (TAtom (APayload x)) in
  if v_enc v then TCipher (ASk (v_sk v)) inner else inner.
Proof.
  intros H. apply enc_parts in H. destruct H as [Hall Hp]. unfold pairs_ok in Hp.
  rewrite !andb_true_iff in Hp. destruct Hp as [[[_ H3] _] H5].
  apply same_key_inv in H3, H5. destruct H3 as [S1 C1], H5 as [_ C5].
  unfold vpayload_term. cbv zeta.
  destruct d; [|destruct (v_kind v)]; rewrite (enc_layer_spec _ _ _ _ _ _ _ _ _ KSk Hall) by assumption; reflexivity.
Qed.

(* every WithEncryption site of today's tree is guarded by the encryption flag and keyed by the
   token or the secret key (directly, or through a key parameter all of whose callers pass one) *)
Lemma enc_sites_sound T s :
  enc_ok T = true -> In s (tb_enc T) ->
  es_guard s = GUseEnc /\
  (es_key s = XSecret KTok \/ es_key s = XSecret KSk \/
   (exists n, es_key s = XParam n) /\
   (exists c, In c (tb_calls T) /\ ck_callee c = es_func s) /\
   forall c, In c (tb_calls T) -> ck_callee c = es_func s -> ck_key c = XSecret KTok \/ ck_key c = XSecret KSk).
Proof.
  intros H Hin. apply enc_parts in H. destruct H as [Hall _]. rewrite forallb_forall in Hall.
  specialize (Hall s Hin). unfold enc_site_ok in Hall.
  destruct (es_guard s); try discriminate. split; [reflexivity|].
  destruct (es_key s) as [| [] | | n | |]; try discriminate; auto.
  right; right. apply andb_true_iff in Hall. destruct Hall as [Hne Hf]. split; [eauto|]. split.
  - destruct (filter _ _) as [|c r] eqn:E; [discriminate|].
    assert (Hc : In c (filter (fun c => String.eqb (ck_callee c) (es_func s)) (tb_calls T))) by (rewrite E; now left).
    apply filter_In in Hc. destruct Hc as [Hc1 Hc2]. apply String.eqb_eq in Hc2. eauto.
  - intros c Hc Hcal. rewrite forallb_forall in Hf.
    assert (Hc' : In c (filter (fun c => String.eqb (ck_callee c) (es_func s)) (tb_calls T))).
    { apply filter_In. split; [assumption|]. now apply String.eqb_eq. }
    specialize (Hf c Hc'). destruct (ck_key c) as [| [] | | | |]; try discriminate; auto.
Qed.

(* ---------- connection opening ---------- *)
Lemma open_items_silent knows ls u : visible_all knows (open_items ls u) = [].
Proof.
  revert u. induction ls as [|l r IH]; intros u; [reflexivity|].
  destruct l; cbn [open_items]; try apply IH; unfold visible_all in *; cbn [flat_map];
    rewrite IH; destruct u; reflexivity.
Qed.

Lemma conn_open_silent knows c : visible_all knows (conn_open c) = [].
Proof. apply open_items_silent. Qed.

Lemma tr_tls knows c t : conn_tls c = true -> visible knows (tr c t) = [].
Proof. intros H. unfold tr. now rewrite H. Qed.

Lemma tr_sub knows c t a : In a (visible knows (tr c t)) -> conn_tls c = false /\ In a (visible knows t).
Proof. unfold tr. destruct (conn_tls c); cbn; [contradiction|auto]. Qed.

(* ---------- the step relation ---------- *)
Definition plain_set (knows : atom -> bool) (P : atom -> bool) (l : list term) : Prop :=
  forall a, In a (visible_all knows l) -> P a = false.

Lemma plain_set_app knows P a b : plain_set knows P a -> plain_set knows P b -> plain_set knows P (a ++ b).
Proof.
  intros Ha Hb x Hx. rewrite visible_all_app in Hx. apply in_app_or in Hx. destruct Hx; auto.
Qed.

Lemma plain_set_open knows P c : plain_set knows P (conn_open c).
Proof. intros a H. rewrite conn_open_silent in H. contradiction. Qed.

Lemma plain_set_one knows P t : (forall a, In a (visible knows t) -> P a = false) -> plain_set knows P [t].
Proof. intros H a Ha. unfold visible_all in Ha. cbn in Ha. rewrite app_nil_r in Ha. auto. Qed.

Lemma plain_set_cons knows P t l :
  (forall a, In a (visible knows t) -> P a = false) -> plain_set knows P l -> plain_set knows P (t :: l).
Proof. intros H Hl. change (t :: l) with ([t] ++ l). apply plain_set_app; [now apply plain_set_one|assumption]. Qed.

Lemma plain_set_nil knows P : plain_set knows P [].
Proof. intros a []. Qed.

Section Secrets.
  Variable T : tables.
  Variable c : wcfg.
  Variable knows : atom -> bool.
  Hypothesis Hfacts : facts_ok T = true.
  Hypothesis Hnet : w_internal c = false.
  Hypothesis Hknows : forall a, is_secret a = true -> knows a = false.

  Let Hauth := proj1 (facts_parts T Hfacts).
  Let Hlits := proj1 (proj2 (facts_parts T Hfacts)).
  Let Hctl := proj1 (proj2 (proj2 (proj2 (facts_parts T Hfacts)))).

  Lemma login_no_secret ts a : In a (visible knows (tr c (login_msg T ts))) -> is_secret a = false.
  Proof.
    intros H. apply tr_sub in H. destruct H as [_ H]. revert H. unfold login_msg.
    apply msg_of_no_secret; [|meta_tac].
    intros fs. destruct (lit_fields T _ _ _) as [l|] eqn:E; [|discriminate]. intros [= <-].
    rewrite fields_safe_app, (lit_fields_safe _ _ _ _ _ Hlits E), (auth_fields_safe _ _ Hauth). reflexivity.
  Qed.

  Lemma nwc_no_secret ts a : In a (visible knows (tr c (nwc_msg T c ts))) -> is_secret a = false.
  Proof.
    intros H. apply tr_sub in H. destruct H as [_ H]. revert H. unfold nwc_msg.
    apply msg_of_no_secret; [|apply no_meta_plain].
    intros fs. destruct (lit_fields T _ _ _) as [l|] eqn:E; [|discriminate]. intros [= <-].
    rewrite fields_safe_app, (lit_fields_safe _ _ _ _ _ Hlits E).
    destruct (w_scope_nwc c); [now rewrite (auth_fields_safe _ _ Hauth)|reflexivity].
  Qed.

  Lemma nvc_no_secret v ts a : In a (visible knows (tr c (nvc_msg T v ts))) -> is_secret a = false.
  Proof.
    intros H. apply tr_sub in H. destruct H as [_ H]. revert H. unfold nvc_msg.
    apply msg_of_no_secret; [|meta_tac]. intros fs E. destruct (v_kind v); exact (lit_fields_safe _ _ _ _ _ Hlits E).
  Qed.

  Lemma swc_no_secret p a : In a (visible knows (tr c (swc_msg T p))) -> is_secret a = false.
  Proof.
    intros H. apply tr_sub in H. destruct H as [_ H]. revert H. unfold swc_msg.
    apply msg_of_no_secret; [|meta_tac]. intros fs E. exact (lit_fields_safe _ _ _ _ _ Hlits E).
  Qed.

  Lemma c2s_silent t : visible knows (tr c (c2s T c t)) = [].
  Proof.
    unfold tr. destruct (conn_tls c); [reflexivity|].
    apply (ctl_hidden T c knows t Hctl Hnet). now apply Hknows.
  Qed.
  Lemma s2c_silent t : visible knows (tr c (s2c T c t)) = [].
  Proof.
    unfold tr. destruct (conn_tls c); [reflexivity|].
    apply (ctl_hidden T c knows t Hctl Hnet). now apply Hknows.
  Qed.

  Lemma step_no_secret s e : plain_set knows is_secret (snd (step T c s e)).
  Proof.
    assert (Hpay : forall x a, a = APayload x -> is_secret a = false) by (intros x a ->; reflexivity).
    destruct e; cbn [step].
    - destruct (ws_up s); [apply plain_set_nil|]. destruct (plan c); [apply plain_set_nil|].
      destruct (accepted c); cbn [snd]; (apply plain_set_app; [apply plain_set_open|]).
      + apply plain_set_cons; [apply login_no_secret|]. apply plain_set_one.
        intros a H. apply tr_sub in H. destruct H as [_ H]. cbn in H. contradiction.
      + apply plain_set_one, login_no_secret.
    - destruct (ws_up s); cbn [negb snd]; [|apply plain_set_nil].
      apply plain_set_cons; [intros a; rewrite c2s_silent; contradiction|].
      apply plain_set_one. intros a; rewrite s2c_silent; contradiction.
    - destruct (ws_up s); cbn [negb snd]; [|apply plain_set_nil].
      apply plain_set_cons; [intros a; rewrite c2s_silent; contradiction|].
      apply plain_set_one. intros a; rewrite s2c_silent; contradiction.
    - destruct (ws_up s); cbn [negb snd]; [|apply plain_set_nil].
      apply plain_set_app; [apply plain_set_one; intros a; rewrite s2c_silent; contradiction|].
      apply plain_set_app; [apply plain_set_open|].
      apply plain_set_cons; [apply nwc_no_secret|]. apply plain_set_one, swc_no_secret.
    - destruct (ws_up s); cbn [negb snd]; [|apply plain_set_nil].
      apply plain_set_one. intros a H. apply tr_sub in H. destruct H as [_ H].
      apply payload_term_atoms in H. eauto.
    - destruct (ws_up s); cbn [negb snd]; [|apply plain_set_nil].
      apply plain_set_app; [apply plain_set_open|].
      apply plain_set_cons; [apply nvc_no_secret|]. apply plain_set_one.
      intros a H. apply tr_sub in H. destruct H as [_ H]. cbn in H. destruct H as [<-|[]]. reflexivity.
    - destruct (ws_up s); cbn [negb snd]; [|apply plain_set_nil].
      apply plain_set_one. intros a H. apply tr_sub in H. destruct H as [_ H].
      apply vpayload_term_atoms in H. eauto.
  Qed.

  Lemma run_no_secret h : forall s, plain_set knows is_secret (snd (run T c s h)).
  Proof.
    induction h as [|e r IH]; intros s; [apply plain_set_nil|].
    cbn [run]. pose proof (step_no_secret s e) as Hs. destruct (step T c s e) as [s1 o1].
    specialize (IH s1). destruct (run T c s1 r) as [s2 o2]. cbn [snd] in *. now apply plain_set_app.
  Qed.

  Theorem secrets_never_clear h a : In a (visible_all knows (wire T c h)) -> is_secret a = false.
  Proof. apply run_no_secret. Qed.
End Secrets.

Lemma atom_eq_dec (a b : atom) : {a = b} + {a <> b}.
Proof. decide equality; apply Z.eq_dec. Defined.

(* ---------- TLS hides everything ---------- *)
Lemma step_tls_silent T c knows s e : conn_tls c = true -> visible_all knows (snd (step T c s e)) = [].
Proof.
  intros Ht.
  assert (Ho := conn_open_silent knows c).
  destruct e; cbn [step]; repeat match goal with |- context [if ?b then _ else _] => destruct b end;
    try destruct (plan c); cbn [snd]; rewrite ?visible_all_app, ?Ho; unfold visible_all; cbn [flat_map app];
    rewrite ?tr_tls by assumption; reflexivity.
Qed.

Theorem tls_hides_everything T c knows h : conn_tls c = true -> visible_all knows (wire T c h) = [].
Proof.
  intros Ht. unfold wire. generalize init. induction h as [|e r IH]; intros s; [reflexivity|].
  cbn [run]. pose proof (step_tls_silent T c knows s e Ht) as Hs. destruct (step T c s e) as [s1 o1].
  specialize (IH s1). destruct (run T c s1 r) as [s2 o2]. cbn [snd] in *.
  now rewrite visible_all_app, Hs, IH.
Qed.

(* ---------- payload ---------- *)
Section Payload.
  Variable T : tables.
  Variable c : wcfg.
  Hypothesis Henc : enc_ok T = true.

  (* events of a history that carry payload x without a cipher layer *)
  Definition carries_clear (x : Z) (e : wevent) : Prop :=
    match e with
    | EPayload p _ y => y = x /\ p_enc p = false
    | EVisitorPayload v _ y => y = x /\ v_enc v = false
    | _ => False
    end.

  Lemma payload_item_visible p d x a :
    In a (visible nobody (tr c (payload_term T p d x))) -> a = APayload x /\ conn_tls c = false /\ p_enc p = false.
  Proof.
    intros H. apply tr_sub in H. destruct H as [Ht H]. rewrite (payload_term_spec T p d x Henc) in H.
    cbv zeta in H. destruct (p_enc p); [cbn in H; contradiction|].
    split; [|auto]. destruct (p_comp p); cbn in H; destruct H as [<-|[]]; reflexivity.
  Qed.

  Lemma vpayload_item_visible v d x a :
    In a (visible nobody (tr c (vpayload_term T v d x))) -> a = APayload x /\ conn_tls c = false /\ v_enc v = false.
  Proof.
    intros H. apply tr_sub in H. destruct H as [Ht H]. rewrite (vpayload_term_spec T v d x Henc) in H.
    cbv zeta in H. destruct (v_enc v); [cbn in H; contradiction|].
    split; [|auto]. destruct (v_comp v); cbn in H; destruct H as [<-|[]]; reflexivity.
  Qed.

  Lemma msg_no_payload n o ctx meta ts x :
    ctx_secret ctx -> meta_plain meta -> ~ In (APayload x) (visible nobody (tr c (msg_of n o ctx meta ts))).
  Proof.
    intros Hc Hm H. apply tr_sub in H. destruct H as [_ H].
    apply (msg_of_no_payload nobody n o ctx meta ts _ Hc Hm) in H. discriminate.
  Qed.

  Lemma ctl_no_payload file t x : ~ In (APayload x) (visible nobody (tr c (ctl_layer T file c t))) \/
                                   In (APayload x) (visible nobody t).
  Proof.
    unfold tr, ctl_layer. destruct (conn_tls c); [left; cbn; tauto|].
    destruct (find_ctl T file) as [s|]; [|left; cbn; tauto].
    destruct (match cs_guard s with GConnEnc => _ | GAlways => _ | _ => _ end) as [[]|];
      destruct (key_atom ctx0 (cs_key s)); try (left; cbn; tauto).
    - destruct (String.eqb _ _); [destruct (tb_crw T); left; cbn; tauto|]. destruct (in_dec atom_eq_dec (APayload x) (visible nobody t)); tauto.
    - destruct (String.eqb _ _); [left; cbn; tauto|]. destruct (in_dec atom_eq_dec (APayload x) (visible nobody t)); tauto.
  Qed.

  Lemma step_payload_visible s e x :
    In (APayload x) (visible_all nobody (snd (step T c s e))) -> conn_tls c = false /\ carries_clear x e.
  Proof.
    assert (Hopen := conn_open_silent nobody c).
    assert (Hmeta1 : meta_plain (fun f => if String.eqb f "User" then Some AUser else None)) by meta_tac.
    destruct e; cbn [step].
    - destruct (ws_up s); [cbn; contradiction|]. destruct (plan c); [cbn; contradiction|].
      destruct (accepted c); cbn [snd]; rewrite visible_all_app, Hopen; unfold visible_all; cbn [flat_map app];
        rewrite ?app_nil_r; intros H; try apply in_app_or in H; exfalso.
      + destruct H as [H|H]; [revert H; apply msg_no_payload; [apply ctx0_secret|assumption]|].
        apply tr_sub in H. destruct H as [_ H]. cbn in H. contradiction.
      + revert H; apply msg_no_payload; [apply ctx0_secret|assumption].
    - destruct (ws_up s); cbn [negb snd]; [|cbn; contradiction].
      unfold visible_all; cbn [flat_map app]. rewrite app_nil_r. intros H. apply in_app_or in H. exfalso.
      destruct H as [H|H].
      + destruct (ctl_no_payload "client/control.go" (newproxy_msg T p) x) as [N|N]; [now apply N|].
        unfold newproxy_msg in N. rewrite visible_msg in N.
        apply (fields_no_payload nobody _ _ _ _ _ (ctxp_secret (p_id p))) in N; [discriminate|meta_tac].
      + destruct (ctl_no_payload "server/control.go" (TMsg "NewProxyResp" [TAtom (AProxyName (p_id p)); TRaw "remote_addr"]) x) as [N|N];
          [now apply N|]. cbn in N. destruct N as [N|[]]. discriminate.
    - destruct (ws_up s); cbn [negb snd]; [|cbn; contradiction].
      unfold visible_all; cbn [flat_map app]. rewrite app_nil_r. intros H. apply in_app_or in H. exfalso.
      destruct H as [H|H].
      + destruct (ctl_no_payload "client/control.go" (ping_msg T c ts) x) as [N|N]; [now apply N|].
        unfold ping_msg in N. rewrite visible_msg in N.
        apply (fields_no_payload nobody _ _ _ _ _ ctx0_secret no_meta_plain) in N. discriminate.
      + destruct (ctl_no_payload "server/control.go" (TMsg "Pong" []) x) as [N|N]; [now apply N|]. cbn in N. contradiction.
    - destruct (ws_up s); cbn [negb snd]; [|cbn; contradiction].
      rewrite !visible_all_app, Hopen. unfold visible_all; cbn [flat_map app]. rewrite !app_nil_r.
      intros H. exfalso. apply in_app_or in H. destruct H as [H|H].
      + destruct (ctl_no_payload "server/control.go" (TMsg "ReqWorkConn" []) x) as [N|N]; [now apply N|]. cbn in N. contradiction.
      + apply in_app_or in H. destruct H as [H|H]; revert H.
        * unfold nwc_msg. apply msg_no_payload; [apply ctx0_secret|apply no_meta_plain].
        * unfold swc_msg. apply msg_no_payload; [apply ctxp_secret|meta_tac].
    - destruct (ws_up s); cbn [negb snd]; [|cbn; contradiction].
      unfold visible_all; cbn [flat_map]. rewrite app_nil_r. intros H.
      apply payload_item_visible in H. destruct H as [[= ->] [H1 H2]]. cbn. auto.
    - destruct (ws_up s); cbn [negb snd]; [|cbn; contradiction].
      rewrite visible_all_app, Hopen. unfold visible_all; cbn [flat_map app]. rewrite app_nil_r.
      intros H. exfalso. apply in_app_or in H. destruct H as [H|H].
      + revert H. apply msg_no_payload; [apply ctxp_secret|meta_tac].
      + apply tr_sub in H. destruct H as [_ H]. cbn in H. destruct H as [H|[]]. discriminate.
    - destruct (ws_up s); cbn [negb snd]; [|cbn; contradiction].
      unfold visible_all; cbn [flat_map]. rewrite app_nil_r. intros H.
      apply vpayload_item_visible in H. destruct H as [[= ->] [H1 H2]]. cbn. auto.
  Qed.

  Lemma run_payload_visible h x : forall s,
    In (APayload x) (visible_all nobody (snd (run T c s h))) ->
    conn_tls c = false /\ exists e, In e h /\ carries_clear x e.
  Proof.
    induction h as [|e r IH]; intros s; [cbn; contradiction|].
    cbn [run]. pose proof (step_payload_visible s e x) as Hs. destruct (step T c s e) as [s1 o1].
    specialize (IH s1). destruct (run T c s1 r) as [s2 o2]. cbn [snd] in *.
    rewrite visible_all_app. intros H. apply in_app_or in H. destruct H as [H|H].
    - destruct (Hs H) as [H1 H2]. split; [assumption|]. exists e. split; [now left|assumption].
    - destruct (IH H) as [H1 [e' [H2 H3]]]. split; [assumption|]. exists e'. split; [now right|assumption].
  Qed.

  (* only if: a payload readable on the wire was carried with TLS off and the encryption flag off *)
  Theorem payload_clear_only_if h x :
    In (APayload x) (visible_all nobody (wire T c h)) ->
    conn_tls c = false /\ exists e, In e h /\ carries_clear x e.
  Proof. apply run_payload_visible. Qed.

  Lemma step_up_stays s e : ws_up s = true -> ws_up (fst (step T c s e)) = true.
  Proof. intros H. destruct e; cbn [step]; rewrite H; cbn; assumption. Qed.

  Lemma run_payload_if h x : forall s e,
    ws_up s = true -> conn_tls c = false -> In e h -> carries_clear x e ->
    In (APayload x) (visible_all nobody (snd (run T c s h))).
  Proof.
    induction h as [|e0 r IH]; intros s e Hup Ht Hin Hc; [contradiction|].
    cbn [run]. pose proof (step_up_stays s e0 Hup) as Hup1.
    destruct (step T c s e0) as [s1 o1] eqn:Es. cbn [fst] in Hup1.
    specialize (IH s1 e Hup1 Ht). destruct (run T c s1 r) as [s2 o2]. cbn [snd] in *.
    rewrite visible_all_app. apply in_or_app. destruct Hin as [->|Hin]; [left|right; auto].
    destruct e; cbn in Hc; try contradiction; destruct Hc as [-> He]; cbn [step] in Es; rewrite Hup in Es;
      cbn [negb] in Es; injection Es as _ <-; unfold visible_all; cbn [flat_map]; rewrite app_nil_r;
      unfold tr; rewrite Ht.
    - rewrite (payload_term_spec T p d x Henc). cbv zeta. rewrite He. destruct (p_comp p); cbn; auto.
    - rewrite (vpayload_term_spec T v d x Henc). cbv zeta. rewrite He. destruct (v_comp v); cbn; auto.
  Qed.

  (* if: after an accepted login, with TLS off, a payload carried with the encryption flag off is readable
     (by an observer able to undo compression, which the model does not claim to hide anything) *)
  Theorem payload_clear_if ts h x e :
    accepted c = true -> conn_tls c = false -> In e h -> carries_clear x e ->
    In (APayload x) (visible_all nobody (wire T c (ELogin ts :: h))).
  Proof.
    intros Ha Ht Hin Hc. unfold wire. cbn [run step init ws_up].
    unfold accepted in Ha. destruct (plan c) eqn:Ep; [discriminate|].
    assert (Ha' : accepted c = true) by (unfold accepted; now rewrite Ep). rewrite Ha'.
    pose proof (run_payload_if h x {| ws_up := true |} e eq_refl Ht Hin Hc) as H.
    destruct (run T c {| ws_up := true |} h) as [s2 o2]. cbn [snd] in *.
    rewrite visible_all_app. apply in_or_app. now right.
  Qed.
End Payload.

(* a peer the sniff rejects gets no session: nothing but its own first message is ever on the wire,
   and no later event produces anything *)
Lemma rejected_no_session T c h : accepted c = false -> ws_up (fst (run T c init h)) = false.
Proof.
  intros Ha. generalize (eq_refl : ws_up init = false). generalize init.
  induction h as [|e r IH]; intros s Hs; [assumption|].
  cbn [run]. assert (H1 : ws_up (fst (step T c s e)) = false).
  { destruct e; cbn [step]; rewrite Hs; cbn [negb fst]; try assumption.
    destruct (plan c); [assumption|]. rewrite Ha. assumption. }
  destruct (step T c s e) as [s1 o1]. cbn [fst] in H1. specialize (IH s1 H1).
  destruct (run T c s1 r) as [s2 o2]. assumption.
Qed.

(* forced TLS against a client without TLS: the sniff rejects *)
Lemma forced_plain_client_rejected c :
  w_force c = true -> conn_tls c = false -> accepted c = false.
Proof.
  intros Hf Ht. unfold accepted. destruct (plan c) as [|tls proto ls] eqn:Ep; [reflexivity|].
  unfold conn_tls in Ht. rewrite Ep in Ht. cbn in Ht. destruct tls; [discriminate|].
  unfold sniffed, first_byte. rewrite Ep. cbn [plan_layers].
  unfold plan in Ep. destruct (is_quic c) eqn:Eq.
  - (* quic always carries a TLS configuration *)
    unfold open_quic in Ep.
    destruct (if from_ptr (ct_tls_enable (w_client c)) then _ else _); discriminate.
  - (* without a TLS policy the plan has neither head byte nor TLS layer *)
    unfold real_connect in Ep.
    destruct (from_ptr (ct_tls_enable (w_client c)) || String.eqb (ct_protocol (w_client c)) "wss") eqn:E.
    + destruct (new_client_tls _ _ _ _ _ _); [|discriminate].
      destruct (String.eqb _ "websocket"); [|destruct (String.eqb _ "wss")]; discriminate.
    + cbn in Ep. destruct (String.eqb _ "websocket"); [|destruct (String.eqb _ "wss")]; injection Ep as _ <-;
        cbn; rewrite Hf; destruct (from_ptr (ct_tcp_mux (w_client c))); reflexivity.
Qed.

(* quic: the connection always carries TLS, whatever tls.enable says *)
Lemma quic_always_tls c : is_quic c = true -> plan c = DialErr \/ conn_tls c = true.
Proof.
  intros Hq. unfold conn_tls, plan. rewrite Hq. unfold open_quic.
  destruct (if from_ptr (ct_tls_enable (w_client c)) then _ else _); [right; reflexivity|left; reflexivity].
Qed.

(* what everybody knows contains no secret unless the token is the empty string *)
Lemma public_no_secret c : w_token_empty c = false -> forall a, is_secret a = true -> public c a = false.
Proof. intros H [] Hs; cbn in *; try reflexivity; try discriminate. assumption. Qed.

(* every network listener served by HandleListener hands exactly the configured force flag to the sniff *)
Lemma sniff_force_configured T configured l :
  sniff_ok T = true -> In l sniffing_kinds -> sniff_force T configured l = ForceIs configured.
Proof.
  unfold sniff_ok. rewrite !andb_true_iff. intros [[[H _] _] _] Hin. rewrite forallb_forall in H. specialize (H l Hin).
  destruct l; cbn in Hin; try (exfalso; intuition discriminate); unfold sniff_force in *;
    destruct (listener_internal T _) as [[]|]; destruct (tb_sniff T) as [|s [|]]; try discriminate;
    destruct (ss_guard s); try discriminate; destruct (ss_force s); try discriminate; destruct configured; reflexivity.
Qed.

(* whatever listener the peer arrives on: if the configured flag is on and the peer does not speak TLS,
   the flag handed to the sniff is on and no session ever comes up *)
Lemma forced_no_session_any_listener T c h l configured :
  sniff_ok T = true -> In l sniffing_kinds ->
  sniff_force T configured l = ForceIs (w_force c) -> configured = true -> conn_tls c = false ->
  ws_up (fst (run T c init h)) = false.
Proof.
  intros Hok Hin Hf Hc Ht. rewrite (sniff_force_configured T configured l Hok Hin) in Hf. injection Hf as Hf.
  apply rejected_no_session, forced_plain_client_rejected; [congruence|assumption].
Qed.

Lemma facts_tlscfg T : facts_ok T = true -> tlscfg_ok T = true.
Proof. unfold facts_ok. rewrite !andb_true_iff. tauto. Qed.

(* on every listener frps opens on the network the TLS policy in force is the configured one *)
Lemma listener_policy_configured T p l :
  tlscfg_ok T = true -> In l network_kinds -> listener_policy T p l = Some p.
Proof.
  unfold tlscfg_ok. rewrite !andb_true_iff. intros [[[[Hall Hone] Hcalls] _] _] Hin.
  rewrite forallb_forall in Hone. specialize (Hone l Hin).
  unfold listener_policy. destruct (tls_consumer l) as [cns|]; [|discriminate].
  destruct (filter _ (tb_tls_uses T)) as [|u [|]] eqn:F; try discriminate.
  assert (Hu : In u (tb_tls_uses T)).
  { assert (In u (filter (fun u0 => String.eqb (tu_consumer u0) cns) (tb_tls_uses T))) by (rewrite F; now left).
    now apply filter_In in H. }
  rewrite forallb_forall in Hall. specialize (Hall u Hu). apply andb_true_iff in Hall. destruct Hall as [_ Hp].
  rewrite Hp, Hcalls. destruct l; reflexivity.
Qed.

(* a peer that sends nothing within the sniff's wait (or closes) is an error of the sniff for either force
   value: nothing is handed to any reader *)
Lemma silent_peer_gets_nothing f : Sniff.sniff_stream f [] = (Sniff.ReadErr, []) /\ Sniff.is_err Sniff.ReadErr = true.
Proof. split; reflexivity. Qed.
