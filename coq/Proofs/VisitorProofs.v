(* C08 proofs about Model/Visitor.v *)
From FRP Require Import Model.Visitor.
From Coq Require Import Lia.
Open Scope Z_scope.

(* ---------- byte strings, membership, association lists ---------- *)
Lemma v_bytes_eqb_eq a : forall b, bytes_eqb a b = true <-> a = b.
Proof.
  induction a as [|x a IH]; intros [|y b]; cbn; split; intros H; try easy.
  - apply andb_prop in H as [H1 H2]. apply Byte.byte_dec_bl in H1. apply IH in H2. now subst.
  - injection H as -> ->. rewrite (proj2 (IH b) eq_refl), andb_true_r. apply Byte.byte_dec_lb. reflexivity.
Qed.

Lemma v_bytes_eqb_refl a : bytes_eqb a a = true.
Proof. now apply v_bytes_eqb_eq. Qed.

Lemma v_bytes_eqb_neq a b : a <> b -> bytes_eqb a b = false.
Proof. intros H. destruct (bytes_eqb a b) eqn:E; [|reflexivity]. apply v_bytes_eqb_eq in E. contradiction. Qed.

Lemma v_bytes_eqb_sym a b : bytes_eqb a b = bytes_eqb b a.
Proof.
  destruct (bytes_eqb a b) eqn:E.
  - apply v_bytes_eqb_eq in E. subst. now rewrite v_bytes_eqb_refl.
  - destruct (bytes_eqb b a) eqn:E2; [|reflexivity]. apply v_bytes_eqb_eq in E2. subst. now rewrite v_bytes_eqb_refl in E.
Qed.

Lemma v_bytes_dec (a b : bytes) : {a = b} + {a <> b}.
Proof. destruct (bytes_eqb a b) eqn:E; [left; now apply v_bytes_eqb_eq|right; intros ->; now rewrite v_bytes_eqb_refl in E]. Qed.

Lemma vmem_In x l : vmem x l = true <-> In x l.
Proof.
  unfold vmem. rewrite existsb_exists. split.
  - intros (y & Hy & E). apply v_bytes_eqb_eq in E. now subst.
  - intros H. exists x. split; [assumption|apply v_bytes_eqb_refl].
Qed.

Lemma vallowed_spec allow user : vallowed allow user = true <-> In user allow \/ In vstar allow.
Proof. unfold vallowed. rewrite orb_true_iff, !vmem_In. reflexivity. Qed.

(* the refusal test of the code is the negation of [vallowed] *)
Lemma refusal_test allow user :
  negb (vmem user allow) && negb (vmem vstar allow) = negb (vallowed allow user).
Proof. unfold vallowed. now rewrite negb_orb. Qed.

Section Maps.
  Context {A : Type}.
  Implicit Types m : list (bytes * A).

  Lemma vget_vdel_same k m : vget k (vdel k m) = None.
  Proof.
    induction m as [|[k' v] m IH]; cbn; [reflexivity|].
    destruct (bytes_eqb k k') eqn:E; [exact IH|]. cbn. now rewrite E.
  Qed.

  Lemma vget_vdel_other k k' m : k <> k' -> vget k (vdel k' m) = vget k m.
  Proof.
    intros Hne. induction m as [|[k2 v] m IH]; cbn; [reflexivity|].
    destruct (bytes_eqb k' k2) eqn:E.
    - apply v_bytes_eqb_eq in E. subst k2. now rewrite (v_bytes_eqb_neq k k' Hne).
    - cbn. destruct (bytes_eqb k k2); [reflexivity|exact IH].
  Qed.

  Lemma vget_vset_same k v m : vget k (vset k v m) = Some v.
  Proof. unfold vset. cbn. now rewrite v_bytes_eqb_refl. Qed.

  Lemma vget_vset_other k k' v m : k <> k' -> vget k (vset k' v m) = vget k m.
  Proof. intros Hne. unfold vset. cbn. rewrite (v_bytes_eqb_neq k k' Hne). now apply vget_vdel_other. Qed.

  Lemma vget_cons_same k v m : vget k ((k, v) :: m) = Some v.
  Proof. cbn. now rewrite v_bytes_eqb_refl. Qed.

  Lemma vget_cons_other k k' v m : k <> k' -> vget k ((k', v) :: m) = vget k m.
  Proof. intros Hne. cbn. now rewrite (v_bytes_eqb_neq k k' Hne). Qed.

  Lemma vget_none_notin k m : vget k m = None -> ~ In k (map fst m).
  Proof.
    induction m as [|[k' v] m IH]; cbn; [tauto|].
    destruct (bytes_eqb k k') eqn:E; [discriminate|].
    intros H [Hk|Hin]; [subst; now rewrite v_bytes_eqb_refl in E|now apply IH].
  Qed.

  Lemma vget_In k v m : vget k m = Some v -> In (k, v) m.
  Proof.
    induction m as [|[k' v'] m IH]; cbn; [discriminate|].
    destruct (bytes_eqb k k') eqn:E.
    - apply v_bytes_eqb_eq in E. subst. intros [= ->]. now left.
    - intros H. right. now apply IH.
  Qed.

  Lemma In_vget_nodup k v m : NoDup (map fst m) -> In (k, v) m -> vget k m = Some v.
  Proof.
    induction m as [|[k' v'] m IH]; cbn; [tauto|].
    intros Hnd [Heq|Hin].
    - injection Heq as -> ->. now rewrite v_bytes_eqb_refl.
    - inversion Hnd as [|? ? Hnotin Hnd']; subst.
      destruct (bytes_eqb k k') eqn:E.
      + apply v_bytes_eqb_eq in E. subst. exfalso. apply Hnotin. change k' with (fst (k', v)). now apply in_map.
      + now apply IH.
  Qed.

  Lemma vdel_keys_incl k m : forall x, In x (map fst (vdel k m)) -> In x (map fst m).
  Proof.
    induction m as [|[k' v] m IH]; cbn; [tauto|]. intros x.
    destruct (bytes_eqb k k'); cbn; [intros H; right; now apply IH|].
    intros [H|H]; [now left|right; now apply IH].
  Qed.

  Lemma vdel_nodup k m : NoDup (map fst m) -> NoDup (map fst (vdel k m)).
  Proof.
    induction m as [|[k' v] m IH]; cbn; [trivial|]. intros Hnd.
    inversion Hnd as [|? ? Hnotin Hnd']; subst.
    destruct (bytes_eqb k k'); [now apply IH|]. cbn. constructor; [|now apply IH].
    intros Hin. apply Hnotin. now apply (vdel_keys_incl k).
  Qed.
End Maps.

(* ---------- component steps ---------- *)
Section Steps.
  Variable hash : bytes -> Z -> bytes.

  (* NewConn queues a connection only under a live bundle whose key signs the request and whose
     allowed users contain the visitor's user or "*" *)
  Lemma vm_new_conn_ok_inv t name cid ts sign ue uc user eok t' :
    vm_new_conn hash t name cid ts sign ue uc user eok = (t', VOk) ->
    exists b, vget name t = Some b /\ sign = hash (vb_sk b) ts /\ vallowed (vb_allow b) user = true /\
              vb_closed b = false /\
              t' = vset name {| vb_sk := vb_sk b; vb_allow := vb_allow b;
                                vb_queue := vb_queue b ++ [{| vc_id := cid; vc_stack := vstack ue uc (vb_sk b) |}];
                                vb_closed := false |} t.
  Proof.
    unfold vm_new_conn. destruct (vget name t) as [b|] eqn:G; [|discriminate].
    destruct (bytes_eqb (hash (vb_sk b) ts) sign) eqn:Hs; cbn [negb]; [|discriminate].
    rewrite refusal_test. destruct (vallowed (vb_allow b) user) eqn:Ha; cbn [negb]; [|discriminate].
    destruct (ue && negb eok); [discriminate|].
    destruct (vb_closed b) eqn:Hc; [discriminate|].
    destruct (Nat.ltb _ _); [|discriminate].
    intros [= <-]. exists b. apply v_bytes_eqb_eq in Hs. now repeat split.
  Qed.

  Lemma vm_new_conn_not_ok_same t name cid ts sign ue uc user eok t' o :
    vm_new_conn hash t name cid ts sign ue uc user eok = (t', o) -> o <> VOk -> t' = t.
  Proof.
    unfold vm_new_conn. destruct (vget name t) as [b|]; [|now intros [= <- <-]].
    destruct (negb _); [now intros [= <- <-]|].
    destruct (_ && _); [now intros [= <- <-]|].
    destruct (_ && _); [now intros [= <- <-]|].
    destruct (vb_closed b); [now intros [= <- <-]|].
    destruct (Nat.ltb _ _); [intros [= <- <-]; congruence|now intros [= <- <-]].
  Qed.

  Lemma vm_new_conn_no_listener t name cid ts sign ue uc user eok :
    vget name t = None -> vm_new_conn hash t name cid ts sign ue uc user eok = (t, VErrNoListener).
  Proof. unfold vm_new_conn. now intros ->. Qed.

  Lemma vnh_notified_inv s name ts sign pre user sid dl s' n sid' :
    vnh_handle_visitor hash s name ts sign pre user sid dl = (s', NhNotified n sid') ->
    pre = false /\ dl = true /\ n = name /\ sid' = sid /\
    exists cfg, vget name (nh_cfgs s) = Some cfg /\ sign = hash (nc_sk cfg) ts /\ vallowed (nc_allow cfg) user = true /\
                s' = {| nh_cfgs := nh_cfgs s; nh_sessions := vset sid name (nh_sessions s) |}.
  Proof.
    unfold vnh_handle_visitor. destruct pre.
    - destruct (vget name (nh_cfgs s)) as [cfg|]; [|discriminate].
      destruct (_ && _); discriminate.
    - destruct (vget name (nh_cfgs s)) as [cfg|] eqn:G; [|discriminate].
      destruct (bytes_eqb sign (hash (nc_sk cfg) ts)) eqn:Hs; cbn [negb]; [|discriminate].
      rewrite refusal_test. destruct (vallowed (nc_allow cfg) user) eqn:Ha; cbn [negb]; [|discriminate].
      destruct dl; [|discriminate].
      intros [= <- <- <-]. apply v_bytes_eqb_eq in Hs. repeat split. exists cfg. now repeat split.
  Qed.

  Lemma vnh_not_notified_same s name ts sign pre user sid dl s' o :
    vnh_handle_visitor hash s name ts sign pre user sid dl = (s', o) ->
    (forall n x, o <> NhNotified n x) -> s' = s.
  Proof.
    unfold vnh_handle_visitor. destruct pre.
    - destruct (vget name (nh_cfgs s)) as [cfg|]; [|now intros [= <- <-]].
      destruct (_ && _); now intros [= <- <-].
    - destruct (vget name (nh_cfgs s)) as [cfg|]; [|now intros [= <- <-]].
      destruct (negb _); [now intros [= <- <-]|].
      destruct (_ && _); [now intros [= <- <-]|].
      destruct dl; [|now intros [= <- <-]].
      intros [= <- <-] H. exfalso. now apply (H name sid).
  Qed.

  Lemma vnh_precheck s name ts sign user sid dl :
    exists o, vnh_handle_visitor hash s name ts sign true user sid dl = (s, o) /\
              (o = NhPreOk \/ o = NhErrNoServer \/ o = NhErrUser).
  Proof.
    unfold vnh_handle_visitor. destruct (vget name (nh_cfgs s)) as [cfg|]; [|eauto].
    destruct (_ && _); eauto.
  Qed.

  Lemma vnh_precheck_ok_inv s name ts sign user sid dl s' :
    vnh_handle_visitor hash s name ts sign true user sid dl = (s', NhPreOk) ->
    exists cfg, vget name (nh_cfgs s) = Some cfg /\ vallowed (nc_allow cfg) user = true.
  Proof.
    unfold vnh_handle_visitor. destruct (vget name (nh_cfgs s)) as [cfg|]; [|discriminate].
    rewrite refusal_test. destruct (vallowed (nc_allow cfg) user) eqn:Ha; cbn [negb]; [|discriminate].
    intros _. now exists cfg.
  Qed.

  Lemma vnh_no_server s name ts sign pre user sid dl :
    vget name (nh_cfgs s) = None -> vnh_handle_visitor hash s name ts sign pre user sid dl = (s, NhErrNoServer).
  Proof. unfold vnh_handle_visitor. intros ->. now destruct pre. Qed.
End Steps.

(* ---------- the server state against the specification ---------- *)
Definition sys_reg (s : sys) (name : bytes) : option vreg :=
  match vget name (s_pxys s) with
  | Some (o, k) =>
      if is_hole k then
        match vget name (nh_cfgs (s_nh s)) with
        | Some c => Some {| vr_owner := o; vr_kind := k; vr_sk := nc_sk c; vr_allow := nc_allow c |}
        | None => None
        end
      else
        match vget name (s_vm s) with
        | Some b => Some {| vr_owner := o; vr_kind := k; vr_sk := vb_sk b; vr_allow := vb_allow b |}
        | None => None
        end
  | None => None
  end.

(* the visitor table and the NAT-hole table hold exactly the names the proxy manager says, by kind *)
Definition sys_tables_ok (s : sys) : Prop :=
  forall name,
    match vget name (s_pxys s) with
    | Some (o, k) =>
        if is_hole k then vget name (s_vm s) = None /\ vget name (nh_cfgs (s_nh s)) <> None
        else vget name (nh_cfgs (s_nh s)) = None /\ vget name (s_vm s) <> None
    | None => vget name (s_vm s) = None /\ vget name (nh_cfgs (s_nh s)) = None
    end.

Definition sys_inv (s : sys) : Prop := NoDup (map fst (s_pxys s)) /\ sys_tables_ok s.

Definition sys_abs (s : sys) (sp : vspec) : Prop :=
  (forall rid, vget rid (s_users s) = sp_user sp rid) /\ (forall name, sys_reg s name = sp_reg sp name).

Lemma vget_listener_close_other t name n : n <> name -> vget n (vm_listener_close t name) = vget n t.
Proof.
  intros Hne. unfold vm_listener_close. destruct (vget name t); [|reflexivity]. now apply vget_vset_other.
Qed.

Lemma vget_listener_close_same t name :
  vget name (vm_listener_close t name) =
  match vget name t with
  | Some b => Some {| vb_sk := vb_sk b; vb_allow := vb_allow b; vb_queue := vb_queue b; vb_closed := true |}
  | None => None
  end.
Proof. unfold vm_listener_close. destruct (vget name t) eqn:G; [apply vget_vset_same|exact G]. Qed.

(* lookups after closing one proxy *)
Lemma close_one_lookups s name k :
  let s' := sys_close_one s name k in
  s_users s' = s_users s /\ nh_sessions (s_nh s') = nh_sessions (s_nh s) /\
  vget name (s_pxys s') = None /\
  (forall n, n <> name -> vget n (s_pxys s') = vget n (s_pxys s) /\ vget n (s_vm s') = vget n (s_vm s) /\
                         vget n (nh_cfgs (s_nh s')) = vget n (nh_cfgs (s_nh s))) /\
  (if is_hole k then vget name (nh_cfgs (s_nh s')) = None /\ s_vm s' = s_vm s
   else vget name (s_vm s') = None /\ s_nh s' = s_nh s).
Proof.
  unfold sys_close_one. destruct (is_hole k); cbn.
  - repeat split; try apply vget_vdel_same; try (now apply vget_vdel_other).
  - repeat split; try apply vget_vdel_same; try (now apply vget_vdel_other).
    unfold vm_close_listener. rewrite vget_vdel_other by assumption. now apply vget_listener_close_other.
Qed.

Lemma close_one_nodup s name k : NoDup (map fst (s_pxys s)) -> NoDup (map fst (s_pxys (sys_close_one s name k))).
Proof. unfold sys_close_one. destruct (is_hole k); cbn; apply vdel_nodup. Qed.

Lemma close_one_keys s name k x :
  In x (map fst (s_pxys (sys_close_one s name k))) -> In x (map fst (s_pxys s)).
Proof. unfold sys_close_one. destruct (is_hole k); cbn; apply vdel_keys_incl. Qed.

(* closing the proxy registered under [name] (or a name that is not registered) keeps the tables exact *)
Lemma close_one_tables s name o k :
  sys_tables_ok s ->
  vget name (s_pxys s) = Some (o, k) \/ vget name (s_pxys s) = None ->
  sys_tables_ok (sys_close_one s name k).
Proof.
  intros Hok Hreg n.
  destruct (close_one_lookups s name k) as (_ & _ & Hp & Hoth & Hk).
  destruct (v_bytes_dec n name) as [->|Hne].
  - rewrite Hp. specialize (Hok name).
    destruct Hreg as [Hreg|Hreg]; rewrite Hreg in Hok.
    + destruct (is_hole k); destruct Hk as [Hk1 Hk2]; [rewrite Hk2|rewrite Hk2]; tauto.
    + destruct (is_hole k); destruct Hk as [Hk1 Hk2]; [rewrite Hk2|rewrite Hk2]; tauto.
  - destruct (Hoth n Hne) as (-> & -> & ->). apply Hok.
Qed.

Definition owned_in (l : list (bytes * (bytes * pkind))) (rid n : bytes) : bool :=
  existsb (fun e => bytes_eqb (fst e) n && bytes_eqb (fst (snd e)) rid) l.

Lemma close_owned_spec rid : forall l s,
  sys_tables_ok s ->
  (forall name o k, In (name, (o, k)) l -> vget name (s_pxys s) = Some (o, k) \/ vget name (s_pxys s) = None) ->
  let s' := sys_close_owned s rid l in
  s_users s' = s_users s /\ nh_sessions (s_nh s') = nh_sessions (s_nh s) /\ sys_tables_ok s' /\
  (forall x, In x (map fst (s_pxys s')) -> In x (map fst (s_pxys s))) /\
  (NoDup (map fst (s_pxys s)) -> NoDup (map fst (s_pxys s'))) /\
  forall n, (owned_in l rid n = true -> vget n (s_pxys s') = None) /\
            (owned_in l rid n = false -> vget n (s_pxys s') = vget n (s_pxys s) /\ vget n (s_vm s') = vget n (s_vm s) /\
                                          vget n (nh_cfgs (s_nh s')) = vget n (nh_cfgs (s_nh s))).
Proof.
  induction l as [|[name [o k]] l IH]; intros s Hok Hl; cbn [sys_close_owned].
  - cbn. repeat split; auto; discriminate.
  - destruct (bytes_eqb o rid) eqn:Eo.
    + (* this proxy is closed *)
      assert (Hreg : vget name (s_pxys s) = Some (o, k) \/ vget name (s_pxys s) = None) by (apply Hl; now left).
      pose proof (close_one_tables s name o k Hok Hreg) as Hok1.
      destruct (close_one_lookups s name k) as (Hu & Hs & Hp & Hoth & Hk).
      assert (Hl1 : forall name' o' k', In (name', (o', k')) l ->
                 vget name' (s_pxys (sys_close_one s name k)) = Some (o', k') \/
                 vget name' (s_pxys (sys_close_one s name k)) = None).
      { intros name' o' k' Hin. destruct (v_bytes_dec name' name) as [->|Hne]; [now right|].
        destruct (Hoth name' Hne) as (-> & _). apply Hl. now right. }
      destruct (IH _ Hok1 Hl1) as (Hu' & Hs' & Hok' & Hkeys & Hnd & Hn).
      split; [congruence|]. split; [congruence|]. split; [exact Hok'|].
      split; [intros x Hx; apply (close_one_keys s name k); now apply Hkeys|].
      split; [intros H; apply Hnd; now apply close_one_nodup|].
      intros n. destruct (Hn n) as [Hn1 Hn2]. cbn [owned_in existsb fst snd].
      destruct (v_bytes_dec n name) as [->|Hne].
      * rewrite v_bytes_eqb_refl, Eo. cbn. split; [|discriminate]. intros _.
        destruct (owned_in l rid name) eqn:Eow; [now apply Hn1|]. destruct (Hn2 eq_refl) as (-> & _). exact Hp.
      * rewrite (v_bytes_eqb_neq name n) by congruence. cbn. split; [exact Hn1|].
        intros Hf. destruct (Hn2 Hf) as (-> & -> & ->). now apply Hoth.
    + assert (Hl1 : forall name' o' k', In (name', (o', k')) l ->
                 vget name' (s_pxys s) = Some (o', k') \/ vget name' (s_pxys s) = None)
        by (intros; apply Hl; now right).
      destruct (IH _ Hok Hl1) as (Hu' & Hs' & Hok' & Hkeys & Hnd & Hn).
      repeat (split; [assumption|]).
      intros n. cbn [owned_in existsb fst snd]. rewrite Eo, andb_false_r. cbn. apply Hn.
Qed.

Lemma owned_in_self s rid n :
  NoDup (map fst (s_pxys s)) ->
  owned_in (s_pxys s) rid n = match vget n (s_pxys s) with Some (o, _) => bytes_eqb o rid | None => false end.
Proof.
  intros Hnd. destruct (owned_in (s_pxys s) rid n) eqn:E.
  - unfold owned_in in E. apply existsb_exists in E as ([n' [o k]] & Hin & Hb). cbn in Hb.
    apply andb_prop in Hb as [H1 H2]. apply v_bytes_eqb_eq in H1. subst n'.
    now rewrite (In_vget_nodup _ _ _ Hnd Hin).
  - destruct (vget n (s_pxys s)) as [[o k]|] eqn:G; [|reflexivity].
    destruct (bytes_eqb o rid) eqn:Eo; [|reflexivity].
    apply vget_In in G. assert (owned_in (s_pxys s) rid n = true); [|congruence].
    unfold owned_in. apply existsb_exists. exists (n, (o, k)). split; [assumption|]. cbn. now rewrite v_bytes_eqb_refl.
Qed.

Lemma sys_reg_ext s s' n :
  vget n (s_pxys s') = vget n (s_pxys s) -> vget n (s_vm s') = vget n (s_vm s) ->
  vget n (nh_cfgs (s_nh s')) = vget n (nh_cfgs (s_nh s)) -> sys_reg s' n = sys_reg s n.
Proof. unfold sys_reg. now intros -> -> ->. Qed.

(* session teardown against the specification *)
Lemma logout_refines s sp rid :
  sys_inv s -> sys_abs s sp ->
  let s' := sys_logout s rid in
  sys_inv s' /\ nh_sessions (s_nh s') = nh_sessions (s_nh s) /\
  (forall r, vget r (s_users s') = vupd (sp_user sp) rid None r) /\
  (forall n, sys_reg s' n = spec_drop_owner rid (sp_reg sp) n).
Proof.
  intros [Hnd Hok] [Hau Har]. unfold sys_logout.
  assert (Hl : forall name o k, In (name, (o, k)) (s_pxys s) ->
                 vget name (s_pxys s) = Some (o, k) \/ vget name (s_pxys s) = None)
    by (intros; left; now apply In_vget_nodup).
  destruct (close_owned_spec rid (s_pxys s) s Hok Hl) as (Hu & Hs & Hok' & Hkeys & Hnd' & Hn).
  set (s1 := sys_close_owned s rid (s_pxys s)) in *.
  split; [split; [now apply Hnd'|exact Hok']|]. cbn. split; [exact Hs|]. split.
  - intros r. unfold vupd. rewrite Hu. destruct (v_bytes_dec r rid) as [->|Hne].
    + now rewrite v_bytes_eqb_refl, vget_vdel_same.
    + rewrite (v_bytes_eqb_neq r rid Hne), vget_vdel_other by assumption. apply Hau.
  - intros n. unfold spec_drop_owner. rewrite <- Har.
    destruct (Hn n) as [Hn1 Hn2]. rewrite (owned_in_self s rid n Hnd) in Hn1, Hn2.
    change (sys_reg {| s_users := vdel rid (s_users s1); s_pxys := s_pxys s1; s_vm := s_vm s1; s_nh := s_nh s1 |} n)
      with (sys_reg s1 n).
    unfold sys_reg at 2. destruct (vget n (s_pxys s)) as [[o k]|] eqn:G.
    + destruct (bytes_eqb o rid) eqn:Eo.
      * assert (Hnone : sys_reg s1 n = None) by (unfold sys_reg; now rewrite (Hn1 eq_refl)).
        rewrite Hnone. destruct (is_hole k).
        -- destruct (vget n (nh_cfgs (s_nh s))); cbn; [now rewrite Eo|reflexivity].
        -- destruct (vget n (s_vm s)); cbn; [now rewrite Eo|reflexivity].
      * destruct (Hn2 eq_refl) as (H1 & H2 & H3).
        assert (H1' : vget n (s_pxys s1) = vget n (s_pxys s)) by congruence.
        rewrite (sys_reg_ext s s1 n H1' H2 H3).
        unfold sys_reg. rewrite G. destruct (is_hole k).
        -- destruct (vget n (nh_cfgs (s_nh s))); cbn; [now rewrite Eo|reflexivity].
        -- destruct (vget n (s_vm s)); cbn; [now rewrite Eo|reflexivity].
    + destruct (Hn2 eq_refl) as (H1 & H2 & H3).
      assert (H1' : vget n (s_pxys s1) = vget n (s_pxys s)) by congruence.
      rewrite (sys_reg_ext s s1 n H1' H2 H3).
      unfold sys_reg. now rewrite G.
Qed.

(* operations on the queues do not touch keys and allowed users *)
Definition vm_sig (t : vtable) (n : bytes) : option (bytes * list bytes) :=
  option_map (fun b => (vb_sk b, vb_allow b)) (vget n t).

Lemma vm_sig_vset t name b b' n :
  vget name t = Some b -> vb_sk b' = vb_sk b -> vb_allow b' = vb_allow b ->
  vm_sig (vset name b' t) n = vm_sig t n.
Proof.
  intros G H1 H2. unfold vm_sig. destruct (v_bytes_dec n name) as [->|Hne].
  - rewrite vget_vset_same, G. cbn. now rewrite H1, H2.
  - now rewrite vget_vset_other.
Qed.

Lemma vm_new_conn_sig hash t name cid ts sign ue uc user eok n :
  vm_sig (fst (vm_new_conn hash t name cid ts sign ue uc user eok)) n = vm_sig t n.
Proof.
  unfold vm_new_conn. destruct (vget name t) as [b|] eqn:G; [|reflexivity].
  destruct (negb _); [reflexivity|]. destruct (_ && _); [reflexivity|]. destruct (_ && _); [reflexivity|].
  destruct (vb_closed b); [reflexivity|]. destruct (Nat.ltb _ _); [|reflexivity].
  cbn [fst]. now apply (vm_sig_vset t name b).
Qed.

Lemma vm_accept_sig t name n : vm_sig (fst (vm_accept t name)) n = vm_sig t n.
Proof.
  unfold vm_accept. destruct (vget name t) as [b|] eqn:G; [|reflexivity].
  destruct (vb_queue b); [reflexivity|]. cbn [fst]. now apply (vm_sig_vset t name b).
Qed.

Lemma same_sig_refines s s' sp :
  s_users s' = s_users s -> s_pxys s' = s_pxys s -> nh_cfgs (s_nh s') = nh_cfgs (s_nh s) ->
  (forall n, vm_sig (s_vm s') n = vm_sig (s_vm s) n) ->
  sys_inv s -> sys_abs s sp -> sys_inv s' /\ sys_abs s' sp.
Proof.
  intros Hu Hp Hc Hv [Hnd Hok] [Hau Har].
  assert (Hnone : forall n, vget n (s_vm s') = None <-> vget n (s_vm s) = None).
  { intros n. specialize (Hv n). unfold vm_sig in Hv.
    destruct (vget n (s_vm s')), (vget n (s_vm s)); cbn in Hv; split; congruence. }
  split; [split|split].
  - now rewrite Hp.
  - intros n. specialize (Hok n). rewrite Hp, Hc. destruct (vget n (s_pxys s)) as [[o k]|].
    + destruct (is_hole k); [now rewrite Hnone|]. destruct Hok as [H1 H2]. split; [exact H1|]. now rewrite Hnone.
    + now rewrite Hnone.
  - intros r. now rewrite Hu.
  - intros n. rewrite <- Har. unfold sys_reg. rewrite Hp, Hc. destruct (vget n (s_pxys s)) as [[o k]|]; [|reflexivity].
    destruct (is_hole k); [reflexivity|]. specialize (Hv n). unfold vm_sig in Hv.
    destruct (vget n (s_vm s')), (vget n (s_vm s)); cbn in Hv; congruence.
Qed.

Lemma vnh_handle_visitor_cfgs hash s name ts sign pre user sid dl :
  nh_cfgs (fst (vnh_handle_visitor hash s name ts sign pre user sid dl)) = nh_cfgs s.
Proof.
  unfold vnh_handle_visitor. destruct pre; destruct (vget name (nh_cfgs s)); try reflexivity.
  - destruct (_ && _); reflexivity.
  - destruct (negb _); [reflexivity|]. destruct (_ && _); [reflexivity|]. destruct dl; reflexivity.
Qed.

Lemma sys_reg_none_iff s name : sys_tables_ok s -> (sys_reg s name = None <-> vget name (s_pxys s) = None).
Proof.
  intros Hok. specialize (Hok name). unfold sys_reg. destruct (vget name (s_pxys s)) as [[o k]|]; [|tauto].
  destruct (is_hole k).
  - destruct Hok as [_ H]. destruct (vget name (nh_cfgs (s_nh s))); [split; discriminate|congruence].
  - destruct Hok as [_ H]. destruct (vget name (s_vm s)); [split; discriminate|congruence].
Qed.

Lemma sys_reg_owner s name r : sys_reg s name = Some r ->
  exists k, vget name (s_pxys s) = Some (vr_owner r, k) /\ vr_kind r = k.
Proof.
  unfold sys_reg. destruct (vget name (s_pxys s)) as [[o k]|]; [|discriminate].
  destruct (is_hole k).
  - destruct (vget name (nh_cfgs (s_nh s))); [|discriminate]. intros [= <-]. now exists k.
  - destruct (vget name (s_vm s)); [|discriminate]. intros [= <-]. now exists k.
Qed.


Lemma vdel_notin {A} k (m : list (bytes * A)) : vget k m = None -> vdel k m = m.
Proof.
  induction m as [|[k' v] m IH]; cbn; [reflexivity|].
  destruct (bytes_eqb k k'); [discriminate|]. intros H. now rewrite IH.
Qed.

Lemma sys_eta s : {| s_users := s_users s; s_pxys := s_pxys s; s_vm := s_vm s; s_nh := s_nh s |} = s.
Proof. now destruct s. Qed.

Lemma nh_eta n : {| nh_cfgs := nh_cfgs n; nh_sessions := nh_sessions n |} = n.
Proof. now destruct n. Qed.

(* the state a successful Run + Add leaves *)
Definition reg_state (s : sys) (rid : bytes) (k : pkind) (name sk : bytes) (eff : list bytes) : sys :=
  if is_hole k then
    {| s_users := s_users s; s_pxys := (name, (rid, k)) :: s_pxys s; s_vm := s_vm s;
       s_nh := {| nh_cfgs := (name, {| nc_sk := sk; nc_allow := eff |}) :: nh_cfgs (s_nh s);
                  nh_sessions := nh_sessions (s_nh s) |} |}
  else
    {| s_users := s_users s; s_pxys := (name, (rid, k)) :: s_pxys s;
       s_vm := (name, {| vb_sk := sk; vb_allow := eff; vb_queue := []; vb_closed := false |}) :: s_vm s;
       s_nh := s_nh s |}.

(* Run + Add either registers a free name, or - the name being taken, by a proxy of the same table (Run fails:
   "repeated") or of the other table (Run succeeds, Add fails, Close removes what Run set up) - leaves the state as it was *)
Lemma run_add_cases s rid k name sk eff :
  sys_tables_ok s ->
  (vget name (s_pxys s) = None /\ sys_run_add s rid k name sk eff = (reg_state s rid k name sk eff, OReg VLOk)) \/
  (vget name (s_pxys s) <> None /\ fst (sys_run_add s rid k name sk eff) = s /\
   (snd (sys_run_add s rid k name sk eff) = OReg VLErrRepeated \/ snd (sys_run_add s rid k name sk eff) = ORegErrInUse)).
Proof.
  intros Hok. pose proof (Hok name) as Hn. unfold sys_run_add, reg_state.
  destruct (vget name (s_pxys s)) as [[o' k']|] eqn:Gp.
  - right. split; [discriminate|]. destruct (is_hole k) eqn:Ek.
    + unfold vnh_listen_client. destruct (vget name (nh_cfgs (s_nh s))) as [c|] eqn:Gc; cbn [fst snd]; [tauto|].
      split; [|tauto]. unfold vnh_close_client. cbn [nh_cfgs nh_sessions vdel]. rewrite v_bytes_eqb_refl.
      rewrite (vdel_notin _ _ Gc), nh_eta. apply sys_eta.
    + unfold vm_listen. destruct (vget name (s_vm s)) as [b|] eqn:Gv; cbn [fst snd]; [tauto|].
      split; [|tauto]. unfold vm_close_listener, vm_listener_close. rewrite vget_cons_same.
      unfold vset. cbn [vdel]. rewrite !v_bytes_eqb_refl. rewrite !(vdel_notin _ _ Gv). apply sys_eta.
  - left. split; [reflexivity|]. destruct Hn as [Hvm Hnh]. destruct (is_hole k).
    + unfold vnh_listen_client. now rewrite Hnh.
    + unfold vm_listen. now rewrite Hvm.
Qed.

Lemma run_add_refines s sp rid k name sk eff :
  sys_inv s -> sys_abs s sp ->
  sys_inv (fst (sys_run_add s rid k name sk eff)) /\
  sys_abs (fst (sys_run_add s rid k name sk eff))
          (match sp_reg sp name with
           | None => {| sp_user := sp_user sp;
                        sp_reg := vupd (sp_reg sp) name
                                       (Some {| vr_owner := rid; vr_kind := k; vr_sk := sk; vr_allow := eff |}) |}
           | Some _ => sp
           end).
Proof.
  intros [Hnd Hok] [Hau Har].
  destruct (run_add_cases s rid k name sk eff Hok) as [[Gp E]|[Gp [E _]]].
  - rewrite E. cbn [fst]. rewrite <- Har, (proj2 (sys_reg_none_iff s name Hok) Gp).
    pose proof (Hok name) as Hname. rewrite Gp in Hname. destruct Hname as [Hvm Hnh].
    unfold reg_state. destruct (is_hole k) eqn:Ek.
    + split; [split|split].
      * cbn. constructor; [now apply vget_none_notin|exact Hnd].
      * intros n. cbn [s_pxys s_vm s_nh nh_cfgs]. destruct (v_bytes_dec n name) as [->|Hne].
        -- rewrite !vget_cons_same, Ek. split; [exact Hvm|discriminate].
        -- rewrite !vget_cons_other by assumption. apply Hok.
      * exact Hau.
      * intros n. cbn [sp_reg]. unfold vupd, sys_reg. cbn [s_pxys s_vm s_nh nh_cfgs].
        destruct (v_bytes_dec n name) as [->|Hne].
        -- rewrite v_bytes_eqb_refl, !vget_cons_same, Ek. reflexivity.
        -- rewrite (v_bytes_eqb_neq n name Hne), !vget_cons_other by assumption. apply Har.
    + split; [split|split].
      * cbn. constructor; [now apply vget_none_notin|exact Hnd].
      * intros n. cbn [s_pxys s_vm s_nh nh_cfgs]. destruct (v_bytes_dec n name) as [->|Hne].
        -- rewrite !vget_cons_same, Ek. split; [exact Hnh|discriminate].
        -- rewrite !vget_cons_other by assumption. apply Hok.
      * exact Hau.
      * intros n. cbn [sp_reg]. unfold vupd, sys_reg. cbn [s_pxys s_vm s_nh nh_cfgs].
        destruct (v_bytes_dec n name) as [->|Hne].
        -- rewrite v_bytes_eqb_refl, !vget_cons_same, Ek. reflexivity.
        -- rewrite (v_bytes_eqb_neq n name Hne), !vget_cons_other by assumption. apply Har.
  - rewrite E. rewrite <- Har.
    assert (Hsome : sys_reg s name <> None) by (rewrite sys_reg_none_iff by assumption; exact Gp).
    destruct (sys_reg s name); [|congruence]. repeat split; assumption.
Qed.

Lemma run_add_out s rid k name sk eff :
  sout_refused (snd (sys_run_add s rid k name sk eff)) = false.
Proof.
  unfold sys_run_add. destruct (is_hole k).
  - destruct (vnh_listen_client _ _ _ _) as [nh' [|]]; [|reflexivity]. now destruct (vget name (s_pxys s)).
  - destruct (vm_listen _ _ _ _) as [vm' [|]]; [|reflexivity]. now destruct (vget name (s_pxys s)).
Qed.

Section Refinement.
  Variable hash : bytes -> Z -> bytes.

  Lemma login_refines s sp rid user :
    sys_inv s -> sys_abs s sp ->
    sys_inv (sys_login s rid user) /\
    sys_abs (sys_login s rid user)
            {| sp_user := vupd (sp_user sp) rid (Some user); sp_reg := spec_drop_owner rid (sp_reg sp) |}.
  Proof.
    intros Hinv Habs. destruct (logout_refines s sp rid Hinv Habs) as ([Hnd Hok] & _ & Hu & Hr). unfold sys_login.
    split; [split; [exact Hnd|exact Hok]|]. split.
    + intros r. cbn [s_users sp_user]. unfold vupd. destruct (v_bytes_dec r rid) as [->|Hne].
      * now rewrite vget_cons_same, v_bytes_eqb_refl.
      * rewrite vget_cons_other by assumption. rewrite Hu. unfold vupd.
        now rewrite (v_bytes_eqb_neq r rid Hne).
    + intros n. cbn [sp_reg]. rewrite <- Hr. reflexivity.
  Qed.

  Lemma step_refines s sp op :
    sys_inv s -> sys_abs s sp ->
    sys_inv (fst (sys_step hash s op)) /\ sys_abs (fst (sys_step hash s op)) (spec_step sp op).
  Proof.
    intros Hinv Habs. destruct op as [rid user|rid|rid k name sk allow|rid k name sk allow|rid name|rid name ts sign ue uc cid eok|rid name ts sign pre sid dl|sid|name|rid claimed answers].
    - (* SLogin *)
      cbn [sys_step fst spec_step]. now apply login_refines.
    - (* SLogout *)
      destruct (logout_refines s sp rid Hinv Habs) as (Hi & _ & Hu & Hr). cbn [sys_step fst spec_step].
      split; [exact Hi|]. split; [exact Hu|exact Hr].
    - (* SRegister *)
      cbn [sys_step spec_step]. destruct Habs as [Hau Har]. rewrite <- Hau.
      destruct (vget rid (s_users s)) as [u|]; [|cbn; split; [assumption|now split]].
      destruct (vget name (s_pxys s)) as [[o' k']|] eqn:Gp.
      + destruct Hinv as [Hnd Hok]. rewrite <- Har.
        assert (Hsome : sys_reg s name <> None) by (rewrite sys_reg_none_iff by assumption; congruence).
        destruct (sys_reg s name); [|congruence]. cbn. repeat split; assumption.
      + apply run_add_refines; [assumption|now split].
    - (* SRegisterLate *)
      cbn [sys_step spec_step]. destruct Habs as [Hau Har]. rewrite <- Hau.
      destruct (vget rid (s_users s)) as [u|]; [|cbn; split; [assumption|now split]].
      apply run_add_refines; [assumption|now split].
    - (* SClose *)
      destruct Hinv as [Hnd Hok]. destruct Habs as [Hau Har]. cbn [sys_step spec_step].
      rewrite <- Har. destruct (vget name (s_pxys s)) as [[o k]|] eqn:Gp.
      + assert (Hsome : sys_reg s name <> None) by (rewrite sys_reg_none_iff by assumption; congruence).
        destruct (sys_reg s name) as [r|] eqn:Gr; [|congruence].
        destruct (sys_reg_owner s name r Gr) as (k0 & Gp' & _). rewrite Gp in Gp'. injection Gp' as Ho Hk0. subst o k.
        destruct (bytes_eqb (vr_owner r) rid); [|cbn; repeat split; assumption].
        cbn [fst]. destruct (close_one_lookups s name k0) as (Hu & _ & Hp & Hoth & Hk).
        split; [split|split].
        * now apply close_one_nodup.
        * apply (close_one_tables s name (vr_owner r)); [assumption|now left].
        * intros r'. cbn [sp_user]. rewrite Hu. apply Hau.
        * intros n. cbn [sp_reg]. unfold vupd. destruct (v_bytes_dec n name) as [->|Hne].
          -- rewrite v_bytes_eqb_refl. unfold sys_reg. now rewrite Hp.
          -- rewrite (v_bytes_eqb_neq n name Hne). destruct (Hoth n Hne) as (H1 & H2 & H3).
             rewrite (sys_reg_ext _ _ n H1 H2 H3). apply Har.
      + rewrite (proj2 (sys_reg_none_iff s name Hok) Gp). cbn. repeat split; assumption.
    - (* SVisitorConn *)
      cbn [sys_step spec_step]. destruct (sys_resolve_user s rid) as [user|]; [|cbn; now split].
      destruct (vm_new_conn hash (s_vm s) name cid ts sign ue uc user eok) as [vm' o] eqn:E. cbn [fst].
      apply (same_sig_refines s); try reflexivity; try assumption.
      intros n. cbn [s_vm]. replace vm' with (fst (vm_new_conn hash (s_vm s) name cid ts sign ue uc user eok)) by now rewrite E.
      apply vm_new_conn_sig.
    - (* SNatHole *)
      cbn [sys_step spec_step]. destruct (vget rid (s_users s)) as [b|]; [|cbn; now split].
      destruct (vnh_handle_visitor hash (s_nh s) name ts sign pre b sid dl) as [nh' o] eqn:E. cbn [fst].
      apply (same_sig_refines s); try reflexivity; try assumption.
      cbn [s_nh]. replace nh' with (fst (vnh_handle_visitor hash (s_nh s) name ts sign pre b sid dl)) by now rewrite E.
      apply vnh_handle_visitor_cfgs.
    - (* SSessionEnd *)
      cbn [sys_step spec_step fst]. apply (same_sig_refines s); try reflexivity; assumption.
    - (* SAccept *)
      cbn [sys_step spec_step]. destruct (vm_accept (s_vm s) name) as [vm' oc] eqn:E. cbn [fst].
      apply (same_sig_refines s); try reflexivity; try assumption.
      intros n. cbn [s_vm]. replace vm' with (fst (vm_accept (s_vm s) name)) by now rewrite E.
      apply vm_accept_sig.
    - (* SLoginVia *)
      cbn [sys_step spec_step]. destruct (plugin_login claimed answers) as [user|]; cbn [fst].
      + now apply login_refines.
      + now split.
  Qed.

  Lemma init_refines : sys_inv sys_init /\ sys_abs sys_init spec_init.
  Proof. repeat split; cbn; try constructor; reflexivity. Qed.

  Lemma run_refines_from : forall h s sp, sys_inv s -> sys_abs s sp ->
    sys_inv (fold_left (fun s op => fst (sys_step hash s op)) h s) /\
    sys_abs (fold_left (fun s op => fst (sys_step hash s op)) h s) (fold_left spec_step h sp).
  Proof.
    induction h as [|op h IH]; intros s sp Hi Ha; cbn [fold_left]; [now split|].
    destruct (step_refines s sp op Hi Ha) as [Hi' Ha']. now apply IH.
  Qed.

  (* for every history: the tables of the server hold exactly what the specification says is live *)
  Theorem state_refines_spec h : sys_inv (sys_state hash h) /\ sys_abs (sys_state hash h) (spec_of h).
  Proof. unfold sys_state, spec_of. destruct init_refines. now apply run_refines_from. Qed.
End Refinement.

(* ---------- the clauses of the property ---------- *)
Lemma vm_entry_reg s name b :
  sys_tables_ok s -> vget name (s_vm s) = Some b ->
  exists o k, sys_reg s name = Some {| vr_owner := o; vr_kind := k; vr_sk := vb_sk b; vr_allow := vb_allow b |} /\
              is_hole k = false.
Proof.
  intros Hok G. specialize (Hok name). unfold sys_reg. destruct (vget name (s_pxys s)) as [[o k]|].
  - destruct (is_hole k) eqn:Ek; [destruct Hok; congruence|]. exists o, k. now rewrite G.
  - destruct Hok; congruence.
Qed.

Lemma nh_entry_reg s name c :
  sys_tables_ok s -> vget name (nh_cfgs (s_nh s)) = Some c ->
  exists o k, sys_reg s name = Some {| vr_owner := o; vr_kind := k; vr_sk := nc_sk c; vr_allow := nc_allow c |} /\
              is_hole k = true.
Proof.
  intros Hok G. specialize (Hok name). unfold sys_reg. destruct (vget name (s_pxys s)) as [[o k]|].
  - destruct (is_hole k) eqn:Ek; [|destruct Hok; congruence]. exists o, k. now rewrite G.
  - destruct Hok; congruence.
Qed.

Lemma reg_none_tables s name :
  sys_tables_ok s -> sys_reg s name = None ->
  vget name (s_vm s) = None /\ vget name (nh_cfgs (s_nh s)) = None.
Proof.
  intros Hok Hr. apply (sys_reg_none_iff s name Hok) in Hr. specialize (Hok name). now rewrite Hr in Hok.
Qed.


(* every answer that is not an admission is an error or a plain pre-check answer: the owner's queue and
   sid channel receive something only on VOk / NhNotified *)
Theorem owner_event_only_on_admission op o e :
  In e (sys_events op o) ->
  match e with
  | EvQueued name cid => exists rid ts sign ue uc eok, op = SVisitorConn rid name ts sign ue uc cid eok /\ o = OVis VOk
  | EvSid name sid => exists rid n ts sign pre x dl, op = SNatHole rid n ts sign pre x dl /\ o = ONh (NhNotified name sid)
  | EvBackend name cid => exists c, op = SAccept name /\ o = OAccepted c /\ vc_id c = cid
  end.
Proof.
  destruct op, o; cbn; try tauto.
  - destruct o; cbn; try tauto. intros [<-|[]]. now repeat eexists.
  - destruct o; cbn; try tauto. intros [<-|[]]. now repeat eexists.
  - intros [<-|[]]. now repeat eexists.
Qed.


Section Clauses.
  Variable hash : bytes -> Z -> bytes.
  Notation St h := (sys_state hash h).

  Lemma resolve_user_spec h rid : sys_resolve_user (St h) rid = spec_visitor_user (spec_of h) rid.
  Proof.
    destruct (state_refines_spec hash h) as [_ [Hau _]]. unfold sys_resolve_user, spec_visitor_user.
    destruct rid; [reflexivity|apply Hau].
  Qed.

  (* stream visitors *)
  Theorem bridged_implies_key_and_user h rid name ts sign ue uc cid eok s' :
    sys_step hash (St h) (SVisitorConn rid name ts sign ue uc cid eok) = (s', OVis VOk) ->
    exists r user,
      sp_reg (spec_of h) name = Some r /\ is_hole (vr_kind r) = false /\
      spec_visitor_user (spec_of h) rid = Some user /\ key_and_user hash r ts sign user.
  Proof.
    destruct (state_refines_spec hash h) as [[_ Hok] [Hau Har]].
    cbn [sys_step]. rewrite resolve_user_spec. destruct (spec_visitor_user (spec_of h) rid) as [user|]; [|discriminate].
    destruct (vm_new_conn hash (s_vm (St h)) name cid ts sign ue uc user eok) as [vm' o] eqn:E.
    intros [= <- ->]. apply vm_new_conn_ok_inv in E as (b & G & Hs & Ha & _).
    destruct (vm_entry_reg _ _ _ Hok G) as (o & k & Hr & Hk). rewrite Har in Hr.
    eexists _, user. split; [exact Hr|]. split; [exact Hk|]. split; [reflexivity|].
    split; [exact Hs|]. now apply vallowed_spec.
  Qed.

  (* the NAT-hole request proper *)
  Theorem natole_session_implies_key_and_user h rid name ts sign pre sid dl s' n sid' :
    sys_step hash (St h) (SNatHole rid name ts sign pre sid dl) = (s', ONh (NhNotified n sid')) ->
    pre = false /\ n = name /\ sid' = sid /\
    exists r user,
      sp_reg (spec_of h) name = Some r /\ is_hole (vr_kind r) = true /\
      sp_user (spec_of h) rid = Some user /\ key_and_user hash r ts sign user.
  Proof.
    destruct (state_refines_spec hash h) as [[_ Hok] [Hau Har]].
    cbn [sys_step]. rewrite Hau. destruct (sp_user (spec_of h) rid) as [user|]; [|discriminate].
    destruct (vnh_handle_visitor hash (s_nh (St h)) name ts sign pre user sid dl) as [nh' o] eqn:E.
    intros [= <- ->]. apply vnh_notified_inv in E as (-> & _ & -> & -> & cfg & G & Hs & Ha & _).
    repeat split. destruct (nh_entry_reg _ _ _ Hok G) as (o & k & Hr & Hk). rewrite Har in Hr.
    eexists _, user. split; [exact Hr|]. split; [exact Hk|]. split; [reflexivity|].
    split; [exact Hs|]. now apply vallowed_spec.
  Qed.

  (* a pre-check changes nothing and notifies nobody, whatever it carries *)
  Theorem precheck_never_bridges h rid name ts sign sid dl :
    exists o, sys_step hash (St h) (SNatHole rid name ts sign true sid dl) = (St h, o) /\
              sys_events (SNatHole rid name ts sign true sid dl) o = [] /\
              (o = ONoSession \/ o = ONh NhPreOk \/ o = ONh NhErrNoServer \/ o = ONh NhErrUser).
  Proof.
    cbn [sys_step]. destruct (vget rid (s_users (St h))) as [user|]; [|exists ONoSession; repeat split; tauto].
    destruct (vnh_precheck hash (s_nh (St h)) name ts sign user sid dl) as (o & -> & Ho).
    exists (ONh o). rewrite sys_eta. split; [reflexivity|].
    destruct Ho as [->|[->| ->]]; cbn; split; tauto.
  Qed.

  (* a positive pre-check answer is given only to an allowed user of a live xtcp proxy *)
  Theorem precheck_ok_implies_user h rid name ts sign sid dl s' :
    sys_step hash (St h) (SNatHole rid name ts sign true sid dl) = (s', ONh NhPreOk) ->
    exists r user, sp_reg (spec_of h) name = Some r /\ is_hole (vr_kind r) = true /\
                   sp_user (spec_of h) rid = Some user /\ (In user (vr_allow r) \/ In vstar (vr_allow r)).
  Proof.
    destruct (state_refines_spec hash h) as [[_ Hok] [Hau Har]].
    cbn [sys_step]. rewrite Hau. destruct (sp_user (spec_of h) rid) as [user|]; [|discriminate].
    destruct (vnh_handle_visitor hash (s_nh (St h)) name ts sign true user sid dl) as [nh' o] eqn:E.
    intros [= <- ->]. apply vnh_precheck_ok_inv in E as (cfg & G & Ha).
    destruct (nh_entry_reg _ _ _ Hok G) as (o & k & Hr & Hk). rewrite Har in Hr.
    eexists _, user. split; [exact Hr|]. split; [exact Hk|]. split; [reflexivity|]. now apply vallowed_spec.
  Qed.

  (* any request answered with an error leaves the whole server state as it was and produces no event
     at the owner or the backend; holds from every state, reachable or not *)
  Theorem refused_leaves_no_state s op s' o :
    sys_step hash s op = (s', o) -> sout_refused o = true -> s' = s.
  Proof.
    destruct op as [rid user|rid|rid k name sk allow|rid k name sk allow|rid name|rid name ts sign ue uc cid eok|rid name ts sign pre sid dl|sid|name|rid claimed answers];
      cbn [sys_step].
    - intros [= <- <-]. discriminate.
    - intros [= <- <-]. discriminate.
    - destruct (vget rid (s_users s)) as [u|]; [|now intros [= <- <-]].
      destruct (vget name (s_pxys s)); [now intros [= <- <-]|].
      intros E Hr. pose proof (run_add_out s rid k name sk (vdefault_allow allow u)) as Ho.
      rewrite E in Ho. cbn [snd] in Ho. congruence.
    - destruct (vget rid (s_users s)) as [u|]; [|now intros [= <- <-]].
      intros E Hr. pose proof (run_add_out s rid k name sk (vdefault_allow allow u)) as Ho.
      rewrite E in Ho. cbn [snd] in Ho. congruence.
    - destruct (vget name (s_pxys s)) as [[o' k]|]; [destruct (bytes_eqb o' rid)|]; intros [= <- <-]; discriminate.
    - destruct (sys_resolve_user s rid) as [user|]; [|now intros [= <- <-]].
      destruct (vm_new_conn hash (s_vm s) name cid ts sign ue uc user eok) as [vm' v] eqn:E.
      intros [= <- <-] Hr. cbn in Hr. apply vm_new_conn_not_ok_same in E; [|intros ->; discriminate].
      subst vm'. apply sys_eta.
    - destruct (vget rid (s_users s)) as [user|]; [|now intros [= <- <-]].
      destruct (vnh_handle_visitor hash (s_nh s) name ts sign pre user sid dl) as [nh' v] eqn:E.
      intros [= <- <-] Hr. cbn in Hr. apply vnh_not_notified_same in E; [|intros n x ->; discriminate].
      subst nh'. apply sys_eta.
    - intros [= <- <-]. discriminate.
    - destruct (vm_accept (s_vm s) name) as [vm' [c|]]; intros [= <- <-]; discriminate.
    - destruct (plugin_login claimed answers); intros [= <- <-]; discriminate.
  Qed.

  Theorem refused_reaches_neither_owner_nor_backend s op s' o :
    sys_step hash s op = (s', o) -> sout_refused o = true -> sys_events op o = [] /\ s_vm s' = s_vm s /\ s_nh s' = s_nh s.
  Proof.
    intros E Hr. rewrite (refused_leaves_no_state s op s' o E Hr). split; [|split; reflexivity].
    destruct op, o; try reflexivity; try discriminate.
    - destruct o; try reflexivity; discriminate.
    - destruct o; try reflexivity; discriminate.
  Qed.

  (* nothing is admitted on a name that has no live registration *)
  Theorem closed_proxy_admits_nobody h name :
    sp_reg (spec_of h) name = None ->
    (forall rid ts sign ue uc cid eok,
        exists o, sys_step hash (St h) (SVisitorConn rid name ts sign ue uc cid eok) = (St h, o) /\
                  (o = OVis VErrNoListener \/ o = OVisErrNoControl)) /\
    (forall rid ts sign pre sid dl,
        exists o, sys_step hash (St h) (SNatHole rid name ts sign pre sid dl) = (St h, o) /\
                  (o = ONh NhErrNoServer \/ o = ONoSession)).
  Proof.
    destruct (state_refines_spec hash h) as [[_ Hok] [Hau Har]]. intros Hnone. rewrite <- Har in Hnone.
    destruct (reg_none_tables _ _ Hok Hnone) as [Hvm Hnh]. split.
    - intros. cbn [sys_step]. destruct (sys_resolve_user (St h) rid) as [user|]; [|eauto].
      rewrite vm_new_conn_no_listener by assumption. rewrite sys_eta. eauto.
    - intros. cbn [sys_step]. destruct (vget rid (s_users (St h))) as [user|]; [|eauto].
      rewrite vnh_no_server by assumption. rewrite sys_eta. eauto.
  Qed.

  (* the specification side of closure: the owner's CloseProxy, or the end of the owner's session, removes
     the registration, and it stays removed until somebody registers that name again *)
  Fixpoint no_register (name : bytes) (h : list sop) : Prop :=
    match h with
    | [] => True
    | SRegister _ _ n _ _ :: r => n <> name /\ no_register name r
    | SRegisterLate _ _ n _ _ :: r => n <> name /\ no_register name r
    | _ :: r => no_register name r
    end.

  Lemma spec_none_stays : forall h2 sp name,
    sp_reg sp name = None -> no_register name h2 -> sp_reg (fold_left spec_step h2 sp) name = None.
  Proof.
    induction h2 as [|op h2 IH]; intros sp name Hn Hnr; cbn [fold_left]; [exact Hn|].
    assert (Hstep : sp_reg (spec_step sp op) name = None /\ no_register name h2).
    { destruct op; cbn [no_register] in Hnr; cbn [spec_step]; try (split; [exact Hn|exact Hnr]).
      - split; [|exact Hnr]. cbn. unfold spec_drop_owner. now rewrite Hn.
      - split; [|exact Hnr]. cbn. unfold spec_drop_owner. now rewrite Hn.
      - destruct Hnr as [Hne Hnr]. split; [|exact Hnr].
        destruct (sp_user sp rid); [|exact Hn]. destruct (sp_reg sp name0); [exact Hn|].
        cbn. unfold vupd. rewrite (v_bytes_eqb_neq name name0) by congruence. exact Hn.
      - destruct Hnr as [Hne Hnr]. split; [|exact Hnr].
        destruct (sp_user sp rid); [|exact Hn]. destruct (sp_reg sp name0); [exact Hn|].
        cbn. unfold vupd. rewrite (v_bytes_eqb_neq name name0) by congruence. exact Hn.
      - split; [|exact Hnr]. destruct (sp_reg sp name0) as [r|]; [|exact Hn].
        destruct (bytes_eqb (vr_owner r) rid); [|exact Hn]. cbn. unfold vupd.
        destruct (bytes_eqb name name0); [reflexivity|exact Hn].
      - split; [|exact Hnr]. destruct (plugin_login claimed answers); [|exact Hn].
        cbn. unfold spec_drop_owner. now rewrite Hn. }
    destruct Hstep. now apply IH.
  Qed.

  Lemma spec_of_app h1 h2 : spec_of (h1 ++ h2) = fold_left spec_step h2 (spec_of h1).
  Proof. unfold spec_of. apply fold_left_app. Qed.

  Theorem close_removes_until_reregistered h rid name r h2 :
    sp_reg (spec_of h) name = Some r -> vr_owner r = rid -> no_register name h2 ->
    sp_reg (spec_of (h ++ SClose rid name :: h2)) name = None /\
    sp_reg (spec_of (h ++ SLogout rid :: h2)) name = None.
  Proof.
    intros Hr Ho Hnr. rewrite !spec_of_app. cbn [fold_left]. split; apply spec_none_stays; try assumption.
    - cbn [spec_step]. rewrite Hr, Ho, v_bytes_eqb_refl. cbn. unfold vupd. now rewrite v_bytes_eqb_refl.
    - cbn. unfold spec_drop_owner. now rewrite Hr, Ho, v_bytes_eqb_refl.
  Qed.

  (* nobody but the owner's session can remove a registration by CloseProxy *)
  Theorem foreign_close_is_noop h rid name r :
    sp_reg (spec_of h) name = Some r -> vr_owner r <> rid ->
    sp_reg (spec_of (h ++ [SClose rid name])) name = Some r.
  Proof.
    intros Hr Ho. rewrite spec_of_app. cbn. rewrite Hr, (v_bytes_eqb_neq _ _ Ho). exact Hr.
  Qed.

  (* default allowed users = the owner's user, and nothing else *)
  Theorem default_allow_is_owner_only h rid k name sk u :
    sp_user (spec_of h) rid = Some u -> sp_reg (spec_of h) name = None ->
    sp_reg (spec_of (h ++ [SRegister rid k name sk []])) name =
      Some {| vr_owner := rid; vr_kind := k; vr_sk := sk; vr_allow := [u] |} /\
    forall ts sign user,
      key_and_user hash {| vr_owner := rid; vr_kind := k; vr_sk := sk; vr_allow := [u] |} ts sign user ->
      user = u \/ u = vstar.
  Proof.
    intros Hu Hn. split.
    - rewrite spec_of_app. cbn. rewrite Hu, Hn. cbn. unfold vupd. now rewrite v_bytes_eqb_refl.
    - intros ts sign user [_ [[H|[]]|[H|[]]]]; cbn in *; auto.
  Qed.

  (* a configured list is taken as it is *)
  Theorem configured_allow_is_kept h rid k name sk u a l :
    sp_user (spec_of h) rid = Some u -> sp_reg (spec_of h) name = None ->
    sp_reg (spec_of (h ++ [SRegister rid k name sk (a :: l)])) name =
      Some {| vr_owner := rid; vr_kind := k; vr_sk := sk; vr_allow := a :: l |}.
  Proof.
    intros Hu Hn. rewrite spec_of_app. cbn. rewrite Hu, Hn. cbn. unfold vupd. now rewrite v_bytes_eqb_refl.
  Qed.

  (* "*" admits any user that holds the key (stream: unless the accept queue is closed or full) *)
  Theorem star_admits_any_user_with_key_stream t name b cid ts ue uc user :
    vget name t = Some b -> In vstar (vb_allow b) -> vb_closed b = false ->
    (length (vb_queue b) < vq_cap)%nat ->
    exists t', vm_new_conn hash t name cid ts (hash (vb_sk b) ts) ue uc user true = (t', VOk).
  Proof.
    intros G Hs Hc Hq. unfold vm_new_conn. rewrite G, v_bytes_eqb_refl. cbn [negb].
    rewrite refusal_test. rewrite (proj2 (vallowed_spec _ _) (or_intror Hs)). cbn [negb].
    rewrite andb_false_r, Hc. apply Nat.ltb_lt in Hq. rewrite Hq. eauto.
  Qed.

  Theorem star_admits_any_user_with_key_hole s name cfg ts user sid :
    vget name (nh_cfgs s) = Some cfg -> In vstar (nc_allow cfg) ->
    (exists s', vnh_handle_visitor hash s name ts (hash (nc_sk cfg) ts) false user sid true = (s', NhNotified name sid)) /\
    (forall dl, vnh_handle_visitor hash s name ts (hash (nc_sk cfg) ts) true user sid dl = (s, NhPreOk)).
  Proof.
    intros G Hs. unfold vnh_handle_visitor. rewrite G, v_bytes_eqb_refl. cbn [negb].
    rewrite refusal_test. rewrite (proj2 (vallowed_spec _ _) (or_intror Hs)). cbn [negb]. eauto.
  Qed.

  (* and, more generally, key + allowed user is also sufficient (the checks refuse nothing else) *)
  Theorem key_and_user_admitted_hole s name cfg ts user sid :
    vget name (nh_cfgs s) = Some cfg -> vallowed (nc_allow cfg) user = true ->
    exists s', vnh_handle_visitor hash s name ts (hash (nc_sk cfg) ts) false user sid true = (s', NhNotified name sid).
  Proof.
    intros G Ha. unfold vnh_handle_visitor. rewrite G, v_bytes_eqb_refl. cbn [negb].
    rewrite refusal_test, Ha. cbn [negb]. eauto.
  Qed.
End Clauses.

Lemma sys_run_from_state hash : forall h s,
  fst (sys_run_from hash s h) = fold_left (fun s op => fst (sys_step hash s op)) h s.
Proof.
  induction h as [|op h IH]; intros s; cbn [sys_run_from fold_left]; [reflexivity|].
  destruct (sys_step hash s op) as [s1 o] eqn:E. specialize (IH s1).
  destruct (sys_run_from hash s1 h) as [s2 os]. cbn [fst] in *. exact IH.
Qed.

Lemma sys_run_state hash h : fst (sys_run hash h) = sys_state hash h.
Proof. apply sys_run_from_state. Qed.

(* ---------- byte transparency ---------- *)
Section Transparency.
  Variable enc_wr : bytes -> list bytes -> list bytes.
  Variable enc_rd : bytes -> bytes -> bytes.
  Variable comp_wr : list bytes -> list bytes.
  Variable comp_rd : bytes -> bytes.
  (* lawful codecs: reading back what was written, however it was chunked, gives the written bytes *)
  Hypothesis enc_law : forall k cs, enc_rd k (List.concat (enc_wr k cs)) = List.concat cs.
  Hypothesis comp_law : forall cs, comp_rd (List.concat (comp_wr cs)) = List.concat cs.

  Notation swr := (stack_wr enc_wr comp_wr).
  Notation srd := (stack_rd enc_rd comp_rd).

  Lemma stack_law : forall st cs, srd st (List.concat (swr st cs)) = List.concat cs.
  Proof.
    induction st as [|l st IH]; intros cs; cbn [stack_wr stack_rd]; [reflexivity|].
    destruct l; cbn [layer_wr layer_rd]; [rewrite enc_law|rewrite comp_law]; apply IH.
  Qed.

  (* mirrored stacks at both ends of both legs: whatever the re-chunking in between *)
  Theorem tunnel_transparent vs ps rechunk chunks :
    (forall s, List.concat (rechunk s) = s) ->
    tunnel_deliver enc_wr enc_rd comp_wr comp_rd vs vs ps ps rechunk chunks = List.concat chunks.
  Proof.
    intros Hre. unfold tunnel_deliver. rewrite stack_law. rewrite stack_law. apply Hre.
  Qed.

  Theorem visitor_stream_transparent vue vuc pue puc sk token rechunk chunks :
    (forall s, List.concat (rechunk s) = s) ->
    (* visitor -> backend *)
    tunnel_deliver enc_wr enc_rd comp_wr comp_rd
      (vstack vue vuc sk) (vstack vue vuc sk) (vstack pue puc token) (vstack pue puc token) rechunk chunks
      = List.concat chunks /\
    (* backend -> visitor *)
    tunnel_deliver enc_wr enc_rd comp_wr comp_rd
      (vstack pue puc token) (vstack pue puc token) (vstack vue vuc sk) (vstack vue vuc sk) rechunk chunks
      = List.concat chunks.
  Proof. intros Hre. split; now apply tunnel_transparent. Qed.
End Transparency.

(* the stack the server puts on an admitted visitor connection is the one the message declares, keyed by the
   proxy's secret key; the owner's accept loop receives exactly that connection *)
Theorem admitted_stack_is_declared hash t name cid ts sign ue uc user eok t' :
  vm_new_conn hash t name cid ts sign ue uc user eok = (t', VOk) ->
  exists b, vget name t = Some b /\
            vget name t' = Some {| vb_sk := vb_sk b; vb_allow := vb_allow b;
                                   vb_queue := vb_queue b ++ [{| vc_id := cid; vc_stack := vstack ue uc (vb_sk b) |}];
                                   vb_closed := false |}.
Proof.
  intros E. apply vm_new_conn_ok_inv in E as (b & G & _ & _ & _ & ->). exists b. split; [exact G|apply vget_vset_same].
Qed.

(* ---------- backend contacts are backed by admissions ---------- *)
Definition queued_in (t : vtable) (n : bytes) (c : vconn) : Prop :=
  exists b, vget n t = Some b /\ In c (vb_queue b).

Lemma run_add_queued s rid k name sk eff n c :
  sys_tables_ok s -> queued_in (s_vm (fst (sys_run_add s rid k name sk eff))) n c -> queued_in (s_vm s) n c.
Proof.
  intros Hok. destruct (run_add_cases s rid k name sk eff Hok) as [[_ E]|[_ [E _]]]; rewrite E; [|trivial].
  cbn [fst]. unfold reg_state. destruct (is_hole k); [trivial|]. cbn [s_vm]. intros [b [G Hin]].
  destruct (v_bytes_dec n name) as [->|Hne].
  - rewrite vget_cons_same in G. injection G as <-. destruct Hin.
  - rewrite vget_cons_other in G by assumption. now exists b.
Qed.

Section Trace.
  Variable hash : bytes -> Z -> bytes.

  Lemma queued_step s op s' o :
    sys_inv s -> sys_step hash s op = (s', o) ->
    forall n c, queued_in (s_vm s') n c -> queued_in (s_vm s) n c \/ In (EvQueued n (vc_id c)) (sys_events op o).
  Proof.
    intros [Hnd Hok] E n c [b' [G' Hin]].
    assert (Hlogout : forall rid, vget n (s_vm (sys_logout s rid)) = Some b' -> queued_in (s_vm s) n c).
    { intros rid G. unfold sys_logout in G. cbn [s_vm] in G.
      assert (Hl : forall name o k, In (name, (o, k)) (s_pxys s) ->
                     vget name (s_pxys s) = Some (o, k) \/ vget name (s_pxys s) = None)
        by (intros; left; now apply In_vget_nodup).
      destruct (close_owned_spec rid (s_pxys s) s Hok Hl) as (_ & _ & Hok' & _ & _ & Hn).
      destruct (Hn n) as [Hn1 Hn2]. destruct (owned_in (s_pxys s) rid n).
      - specialize (Hok' n). rewrite (Hn1 eq_refl) in Hok'. destruct Hok'; congruence.
      - destruct (Hn2 eq_refl) as (_ & Hv & _). rewrite Hv in G. now exists b'. }
    destruct op as [rid user|rid|rid k name sk allow|rid k name sk allow|rid name|rid name ts sign ue uc cid eok|rid name ts sign pre sid dl|sid|name|rid claimed answers];
      cbn [sys_step] in E.
    - injection E as <- <-. left. unfold sys_login in G'. cbn [s_vm] in G'. now apply (Hlogout rid).
    - injection E as <- <-. left. now apply (Hlogout rid).
    - left. destruct (vget rid (s_users s)) as [u|]; [|injection E as <- <-; now exists b'].
      destruct (vget name (s_pxys s)); [injection E as <- <-; now exists b'|].
      apply (run_add_queued s rid k name sk (vdefault_allow allow u) n c Hok). rewrite E. now exists b'.
    - left. destruct (vget rid (s_users s)) as [u|]; [|injection E as <- <-; now exists b'].
      apply (run_add_queued s rid k name sk (vdefault_allow allow u) n c Hok). rewrite E. now exists b'.
    - left. destruct (vget name (s_pxys s)) as [[o' k]|]; [destruct (bytes_eqb o' rid)|]; injection E as <- <-;
        try (now exists b').
      destruct (close_one_lookups s name k) as (_ & _ & _ & Hoth & Hk).
      destruct (v_bytes_dec n name) as [->|Hne].
      * destruct (is_hole k); destruct Hk as [Hk1 Hk2]; [rewrite Hk2 in G'; now exists b'|congruence].
      * destruct (Hoth n Hne) as (_ & Hv & _). rewrite Hv in G'. now exists b'.
    - destruct (sys_resolve_user s rid) as [user|]; [|injection E as <- <-; left; now exists b'].
      destruct (vm_new_conn hash (s_vm s) name cid ts sign ue uc user eok) as [vm' v] eqn:Ev.
      injection E as <- <-. cbn [s_vm] in G'.
      destruct v; try (apply vm_new_conn_not_ok_same in Ev; [subst vm'; left; now exists b'|discriminate]).
      apply vm_new_conn_ok_inv in Ev as (b & G & _ & _ & _ & ->).
      destruct (v_bytes_dec n name) as [->|Hne].
      * rewrite vget_vset_same in G'. injection G' as <-. cbn [vb_queue] in Hin. apply in_app_or in Hin as [Hin|[<-|[]]].
        -- left. now exists b.
        -- right. cbn. now left.
      * rewrite vget_vset_other in G' by assumption. left. now exists b'.
    - left. destruct (vget rid (s_users s)) as [user|]; [|injection E as <- <-; now exists b'].
      destruct (vnh_handle_visitor _ _ _ _ _ _ _ _) as [nh' v]. injection E as <- <-. now exists b'.
    - left. injection E as <- <-. now exists b'.
    - left. unfold vm_accept in E. destruct (vget name (s_vm s)) as [b|] eqn:G; [|injection E as <- <-; now exists b'].
      destruct (vb_queue b) as [|c0 q] eqn:Q; injection E as <- <-; [now exists b'|]. cbn [s_vm] in G'.
      destruct (v_bytes_dec n name) as [->|Hne].
      * rewrite vget_vset_same in G'. injection G' as <-. cbn [vb_queue] in Hin. exists b. split; [exact G|].
        rewrite Q. now right.
      * rewrite vget_vset_other in G' by assumption. now exists b'.
    - left. destruct (plugin_login claimed answers) as [user|]; injection E as <- <-; [|now exists b'].
      unfold sys_login in G'. cbn [s_vm] in G'. now apply (Hlogout rid).
  Qed.

  Definition trace_inv (st : sys * list vevent) : Prop :=
    sys_inv (fst st) /\ (exists sp, sys_abs (fst st) sp) /\
    (forall n c, queued_in (s_vm (fst st)) n c -> In (EvQueued n (vc_id c)) (snd st)) /\
    (forall n cid, In (EvBackend n cid) (snd st) -> In (EvQueued n cid) (snd st)).

  Lemma trace_inv_step st op : trace_inv st -> trace_inv (sys_trace_step hash st op).
  Proof.
    destruct st as [s tr]. intros (Hinv & [sp Habs] & Hq & Hb). unfold sys_trace_step. cbn [fst snd] in *.
    destruct (sys_step hash s op) as [s1 o] eqn:E.
    destruct (step_refines hash s sp op Hinv Habs) as [Hinv1 Habs1]. rewrite E in Hinv1, Habs1. cbn [fst] in *.
    split; [exact Hinv1|]. split; [eauto|]. cbn [fst snd]. split.
    - intros n c Hin. apply in_or_app. destruct (queued_step s op s1 o Hinv E n c Hin) as [H|H]; [left; now apply Hq|now right].
    - intros n cid Hin. apply in_or_app. apply in_app_or in Hin as [Hin|Hin]; [left; now apply Hb|].
      left. apply owner_event_only_on_admission in Hin as (c & -> & -> & <-).
      cbn [sys_step] in E. unfold vm_accept in E. destruct (vget n (s_vm s)) as [b|] eqn:G; [|discriminate].
      destruct (vb_queue b) as [|c0 q] eqn:Q; [discriminate|]. injection E as _ <-.
      apply Hq. exists b. split; [exact G|]. rewrite Q. now left.
  Qed.

  Lemma trace_inv_run : forall h st, trace_inv st -> trace_inv (fold_left (sys_trace_step hash) h st).
  Proof. induction h as [|op h IH]; intros st H; cbn [fold_left]; [exact H|]. apply IH. now apply trace_inv_step. Qed.

  Theorem backend_only_after_admission h name cid :
    In (EvBackend name cid) (sys_trace hash h) -> In (EvQueued name cid) (sys_trace hash h).
  Proof.
    unfold sys_trace. assert (H0 : trace_inv (sys_init, [])).
    { destruct (init_refines) as [Hi Ha]. split; [exact Hi|]. split; [eauto|]. split.
      - intros n c [b [G _]]. discriminate.
      - intros n c []. }
    destruct (trace_inv_run h _ H0) as (_ & _ & _ & Hb). apply Hb.
  Qed.
End Trace.

(* a NAT-hole request leaves a session behind only when the owner was notified: refusals, pre-checks and
   hand-overs nobody received (owner gone, NatHoleTimeout elapsed) return the state unchanged *)
Theorem nathole_no_session_unless_notified hash s rid name ts sign pre sid dl s' o :
  sys_step hash s (SNatHole rid name ts sign pre sid dl) = (s', o) ->
  (forall n x, o <> ONh (NhNotified n x)) -> s' = s /\ sys_events (SNatHole rid name ts sign pre sid dl) o = [].
Proof.
  cbn [sys_step]. destruct (vget rid (s_users s)) as [user|]; [|now intros [= <- <-]].
  destruct (vnh_handle_visitor hash (s_nh s) name ts sign pre user sid dl) as [nh' v] eqn:E.
  intros [= <- <-] H. apply vnh_not_notified_same in E; [|intros n x ->; now apply (H n x)].
  subst nh'. split; [apply sys_eta|]. destruct v; try reflexivity. exfalso. now apply (H name0 sid0).
Qed.
