package main

import "verifharness/hx"

func runFwd(cfg *hx.RunCfg, g *hx.Gen, dist map[string]int, fails *[]failure) []string  { return nil }
func runSys(cfg *hx.RunCfg, g *hx.Gen, dist map[string]int, fails *[]failure) []string  { return nil }
func runIdle(cfg *hx.RunCfg, g *hx.Gen, dist map[string]int, fails *[]failure) []string { return nil }
