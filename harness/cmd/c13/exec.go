package main

// Executes one case (requests + schedule) against the real group controllers.  Thread i runs
// request i; every schedule entry lets one thread take its next atomic step (the same steps as
// Model/Group.v: join = lookup | mutate, separated by the after_lookup gate; connection =
// accept by the worker | hand-off send, separated by the before_handoff gate).

import (
	"bufio"
	"context"
	"encoding/base64"
	"errors"
	"fmt"
	"net"
	"net/http"
	"sort"
	"strings"
	"sync"
	"sync/atomic"
	"time"

	"github.com/fatedier/frp/pkg/config/types"
	"github.com/fatedier/frp/pkg/util/tcpmux"
	"github.com/fatedier/frp/pkg/util/verifhook"
	"github.com/fatedier/frp/pkg/util/vhost"
	"github.com/fatedier/frp/server/group"
	"github.com/fatedier/frp/server/ports"
)

const (
	addr1 = "127.0.13.1"
	addr2 = "127.0.13.2"
)

type Req struct {
	Op    string `json:"op"` // join leave conn take free
	M     int    `json:"m,omitempty"`
	Group int    `json:"g,omitempty"`
	Key   int    `json:"k,omitempty"`
	Par   []int  `json:"par,omitempty"`
	Port  int    `json:"port,omitempty"`
	Mux   bool   `json:"mux,omitempty"`
	JT    int    `json:"jt,omitempty"`
	R     []int  `json:"r,omitempty"`
	// observed oracle values
	Who  int  `json:"who,omitempty"`
	Pick int  `json:"pick,omitempty"`
	OS   bool `json:"os,omitempty"`
	Lis  bool `json:"lis,omitempty"`
}

type Case struct {
	Kind    int      `json:"kind"` // 0 tcp 1 http 2 tcpmux
	Lo      int      `json:"lo"`
	Hi      int      `json:"hi"`
	Reqs    []Req    `json:"reqs"`
	Sched   []int    `json:"sched"`
	Foreign [][2]int `json:"foreign,omitempty"` // (addr id, port) bound by somebody else
	Probe   [][]int  `json:"probe"`             // resources whose state is observed at the end
	Isolate bool     `json:"isolate,omitempty"`
	Tag     string   `json:"tag,omitempty"`
}

type ResB struct {
	R []int `json:"r"`
	B bool  `json:"b"`
}

type Obs struct {
	Crashed bool     `json:"crashed"`
	Panic   string   `json:"panic,omitempty"`
	Reqs    []Req    `json:"reqs"`
	Thr     [][2]int `json:"thr"`
	Tab     [][2]int `json:"tab"`
	Used    []ResB   `json:"used"`
	Eps     []ResB   `json:"eps"`
	Dead    []int    `json:"dead"`
	Accepts int      `json:"accepts"` // connections returned by all members' Accept calls together
	// property monitors evaluated on the Go side
	Eff       []int  `json:"eff"`               // effective schedule: one entry per atomic step actually taken, in order
	Overlap   bool   `json:"overlap,omitempty"` // a leave ran to completion while a join was parked between lookup and mutation
	Blocked   int    `json:"blocked,omitempty"` // joins/leaves that had to wait for a parked join (controller lock held)
	LostLive  bool   `json:"lost_live,omitempty"`
	WrongRecv bool   `json:"wrong_recv,omitempty"` // an http request was answered by the backend of somebody who is not a member of the group on that route
	Orphan    bool   `json:"orphan,omitempty"`
	Note      string `json:"note,omitempty"`
}

// thread states (codes as Corr/C13.v tcode)
const (
	sInit = iota
	sLooked
	sMember
	sRefused
	sLeft
	sHeld
	sCRefused
	sCTo
	sCStranded
	sCNoFunc
	sDone
	sLeaving // 11: leave thread between close(closeCh) and CloseListener
)

type joinRes struct {
	code, real int
	ln         net.Listener
}

type thread struct {
	st      int
	val     int
	arrived chan struct{}
	release chan struct{}
	done    chan joinRes
	ln      net.Listener
	res     []int // resource of a successful join
	// connection thread
	cc      net.Conn
	rd      *bufio.Reader
	held    *heldWorker
	incAt   int // connection thread: incarnation of the group on its endpoint when the worker accepted it
	loopEnd bool
}

type heldWorker struct{ release chan struct{} }

// ---- gate controller ----
var (
	gmu        sync.Mutex
	curJoin    *thread
	connWaiter chan *heldWorker
)

func controller(point, key string) {
	switch point {
	case "group.tcp.after_lookup", "group.http.after_lookup", "group.tcpmux.after_lookup":
		gmu.Lock()
		t := curJoin
		curJoin = nil
		gmu.Unlock()
		if t == nil {
			return
		}
		t.arrived <- struct{}{}
		<-t.release
	case "group.tcp.before_handoff", "group.tcpmux.before_handoff":
		gmu.Lock()
		w := connWaiter
		connWaiter = nil
		gmu.Unlock()
		if w == nil {
			return
		}
		h := &heldWorker{release: make(chan struct{})}
		w <- h
		<-h.release
	}
}

// ---- names ----
func gname(n int) string { return fmt.Sprintf("g%d", n) }
func kname(n int) string { return fmt.Sprintf("k%d", n) }
func mname(n int) string { return fmt.Sprintf("m%d", n) }
func sname(prefix string, n int) string {
	if n == 0 {
		return ""
	}
	return fmt.Sprintf("%s%d", prefix, n)
}
func aname(n int) string {
	if n == 2 {
		return addr2
	}
	return addr1
}
func dname(n int) string { return fmt.Sprintf("d%d.example.com", n) }
func lname(n int) string { return sname("/l", n) }

func at(p []int, i int) int {
	if i < len(p) {
		return p[i]
	}
	return 0
}

// ---- one labelled fake connection for the http kind ----
type lblConn struct {
	net.Conn
	label int
}

type world struct {
	c    *Case
	th   []*thread
	mu   sync.Mutex
	env  map[string]bool
	envL map[string]net.Listener // tcpmux: listeners taken by the environment

	pm     *ports.Manager
	tcp    *group.TCPGroupCtl
	rt     *vhost.Routers
	rp     *vhost.HTTPReverseProxy
	httpc  *group.HTTPGroupController
	muxLn  net.Listener
	muxer  *tcpmux.HTTPConnectTCPMuxer
	muxc   *group.TCPMuxGroupCtl
	nReq   int
	closer []func()

	httpLn      net.Listener          // kind http: a real http.Server in front of the HTTPReverseProxy
	backends    map[int]net.Listener  // kind http: the labelled backend of member m
	stall       map[int]chan struct{} // kind http: members whose CreateConnFn waits for this channel
	dialed      []int                 // kind http: members whose CreateConnFn has been called, in order
	accepts     int32                 // connections returned by members' Accept (atomic)
	inc         map[string]int        // per endpoint: how many times a group on it has lost its last member
	client      *http.Client          // kind http: keep-alive client towards the reverse proxy
	lastBackend int                   // kind http: join thread of the backend that answered the last request
	manual      bool                  // members' Accept is called by the choreography, not by a loop
	parked      []int                 // join threads parked at the after_lookup gate, in arrival order
	obs         *Obs
	progress    func(tid int)
}

func (w *world) took(tid int) {
	w.obs.Eff = append(w.obs.Eff, tid)
	if w.progress != nil {
		w.progress(tid)
	}
}

func (w *world) unpark(tid int) {
	for i, x := range w.parked {
		if x == tid {
			w.parked = append(w.parked[:i], w.parked[i+1:]...)
			return
		}
	}
}

// completes the parked join tid (its mutation step)
func (w *world) finishParked(tid int) error {
	t, r := w.th[tid], &w.c.Reqs[tid]
	t.release <- struct{}{}
	select {
	case jr := <-t.done:
		w.finishJoin(tid, t, r, jr)
	case <-time.After(10 * time.Second):
		return errStuck
	}
	w.unpark(tid)
	w.took(tid)
	return nil
}

func (w *world) finishAllParked() error {
	for len(w.parked) > 0 {
		if err := w.finishParked(w.parked[0]); err != nil {
			return err
		}
	}
	return nil
}

const blockWait = 80 * time.Millisecond

func rkey(r []int) string { return fmt.Sprint(r) }

func newWorld(c *Case) (*world, error) {
	w := &world{c: c, env: map[string]bool{}, envL: map[string]net.Listener{}, inc: map[string]int{}}
	for range c.Reqs {
		w.th = append(w.th, &thread{arrived: make(chan struct{}, 1), release: make(chan struct{}), done: make(chan joinRes, 1)})
	}
	for _, f := range c.Foreign {
		l, err := net.Listen("tcp", net.JoinHostPort(aname(f[0]), fmt.Sprint(f[1])))
		if err != nil {
			return nil, fmt.Errorf("foreign listener: %v", err)
		}
		w.closer = append(w.closer, func() { l.Close() })
	}
	switch c.Kind {
	case 0:
		w.pm = ports.NewManager("tcp", addr1, []types.PortsRange{{Start: c.Lo, End: c.Hi}})
		w.tcp = group.NewTCPGroupCtl(w.pm)
	case 1:
		w.rt = vhost.NewRouters()
		w.rp = vhost.NewHTTPReverseProxy(vhost.HTTPReverseProxyOptions{}, w.rt)
		w.httpc = group.NewHTTPGroupController(w.rt)
		w.backends, w.stall = map[int]net.Listener{}, map[int]chan struct{}{}
		l, err := net.Listen("tcp", addr1+":0")
		if err != nil {
			return nil, err
		}
		w.httpLn = l
		go func() { _ = (&http.Server{Handler: w.rp}).Serve(l) }()
		w.closer = append(w.closer, func() { l.Close() })
	case 2:
		l, err := net.Listen("tcp", addr1+":0")
		if err != nil {
			return nil, err
		}
		w.muxLn = l
		m, err := tcpmux.NewHTTPConnectTCPMuxer(l, false, 5*time.Second)
		if err != nil {
			return nil, err
		}
		w.muxer = m
		w.muxc = group.NewTCPMuxGroupCtl(m)
		w.closer = append(w.closer, func() { l.Close() })
	}
	return w, nil
}

func (w *world) routeCfg(r *Req, tid int) vhost.RouteConfig {
	if w.c.Kind == 1 {
		return vhost.RouteConfig{
			Domain: dname(at(r.Par, 0)), Location: lname(at(r.Par, 1)), RouteByHTTPUser: sname("u", at(r.Par, 2)),
			Username: sname("n", at(r.Par, 3)), Password: sname("p", at(r.Par, 4)),
			CreateConnFn: w.memberDial(tid, r.M),
		}
	}
	return vhost.RouteConfig{
		Domain: dname(at(r.Par, 0)), RouteByHTTPUser: sname("u", at(r.Par, 1)),
		Username: sname("n", at(r.Par, 2)), Password: sname("p", at(r.Par, 3)),
	}
}

// the backend of http member m: answers every request on a connection (keep-alive) with its label
func (w *world) backend(tid, m int) (net.Listener, error) {
	w.mu.Lock()
	defer w.mu.Unlock()
	if l, ok := w.backends[tid]; ok {
		return l, nil
	}
	l, err := net.Listen("tcp", addr1+":0")
	if err != nil {
		return nil, err
	}
	w.backends[tid] = l
	w.closer = append(w.closer, func() { l.Close() })
	body := fmt.Sprintf("M%d.%d;", m, tid) // member name and the join (thread) this backend belongs to
	go func() {
		for {
			c, err := l.Accept()
			if err != nil {
				return
			}
			go func() {
				defer c.Close()
				rd := bufio.NewReader(c)
				for {
					for { // one request head
						line, err := rd.ReadString('\n')
						if err != nil {
							return
						}
						if line == "\r\n" || line == "\n" {
							break
						}
					}
					if _, err := fmt.Fprintf(c, "HTTP/1.1 200 OK\r\nContent-Length: %d\r\n\r\n%s", len(body), body); err != nil {
						return
					}
				}
			}()
		}
	}()
	return l, nil
}

// CreateConnFn of http member m: a real connection to its backend; may be frozen by the choreography
func (w *world) memberDial(tid, m int) func(string) (net.Conn, error) {
	return func(string) (net.Conn, error) {
		w.mu.Lock()
		w.dialed = append(w.dialed, m)
		st := w.stall[m]
		l := w.backends[tid]
		w.mu.Unlock()
		if st != nil {
			<-st
		}
		if l == nil {
			return nil, errors.New("no backend")
		}
		return net.DialTimeout("tcp", l.Addr().String(), time.Second)
	}
}

// one request through the real reverse proxy: GET, or CONNECT when connect is set.
// returns the thread state and the label of the answering backend
func (w *world) httpRequest(r *Req, connect bool, timeout time.Duration) (int, int) {
	st, m, tid := w.httpRequest3(r, connect, timeout)
	w.mu.Lock()
	w.lastBackend = tid
	w.mu.Unlock()
	return st, m
}

func (w *world) httpRequest3(r *Req, connect bool, timeout time.Duration) (int, int, int) {
	dom, loc, usr := dname(at(r.R, 0)), lname(at(r.R, 1)), sname("u", at(r.R, 2))
	cfg := w.rp.GetRouteConfig(dom, loc, usr)
	isGroup := cfg != nil && cfg.Location == loc && cfg.RouteByHTTPUser == usr && cfg.ChooseEndpointFn != nil
	parse := func(body string) (int, int, int) {
		var m, tid int
		if _, err := fmt.Sscanf(body, "M%d.%d;", &m, &tid); err != nil {
			return sCStranded, 0, -1
		}
		return sCTo, m, tid
	}
	status, body := 0, ""
	if connect {
		c, err := net.DialTimeout("tcp", w.httpLn.Addr().String(), time.Second)
		if err != nil {
			return sCStranded, 0, -1
		}
		defer c.Close()
		_ = c.SetDeadline(time.Now().Add(timeout))
		head := "CONNECT " + dom + ":80 HTTP/1.1\r\nHost: " + dom + "\r\n"
		if usr != "" {
			head += "Authorization: Basic " + base64.StdEncoding.EncodeToString([]byte(usr+":")) + "\r\n"
		}
		if _, err := c.Write([]byte(head + "\r\n")); err != nil {
			return sCStranded, 0, -1
		}
		resp, err := http.ReadResponse(bufio.NewReader(c), nil)
		if err != nil {
			return sCStranded, 0, -1
		}
		b := make([]byte, 32)
		n, _ := resp.Body.Read(b)
		status, body = resp.StatusCode, string(b[:n])
	} else {
		path := loc
		if path == "" {
			path = "/"
		}
		req, err := http.NewRequest("GET", "http://"+w.httpLn.Addr().String()+path, nil)
		if err != nil {
			return sCStranded, 0, -1
		}
		req.Host = dom
		if usr != "" {
			req.SetBasicAuth(usr, "")
		}
		// one keep-alive client connection to the proxy is held across the requests of a case
		w.mu.Lock()
		if w.client == nil {
			w.client = &http.Client{Transport: &http.Transport{MaxIdleConnsPerHost: 2}}
		}
		cl := *w.client
		w.mu.Unlock()
		cl.Timeout = timeout
		resp, err := cl.Do(req)
		if err != nil {
			return sCStranded, 0, -1
		}
		b := make([]byte, 32)
		n, _ := resp.Body.Read(b)
		resp.Body.Close()
		status, body = resp.StatusCode, string(b[:n])
	}
	switch {
	case status == 200:
		return parse(body)
	case status == 404 && !isGroup:
		return sCRefused, 0, -1
	case status == 404:
		return sCNoFunc, 0, -1 // the route of a group is there, but nobody could be dialled
	}
	return sCStranded, 0, -1
}

func classify(err error) int {
	switch {
	case err == nil:
		return 0
	case errors.Is(err, group.ErrGroupParamsInvalid):
		return 1
	case errors.Is(err, group.ErrGroupDifferentPort):
		return 2
	case errors.Is(err, group.ErrGroupAuthFailed):
		return 3
	case errors.Is(err, group.ErrProxyRepeated):
		return 4
	case errors.Is(err, ports.ErrPortAlreadyUsed):
		return 5
	case errors.Is(err, ports.ErrPortNotAllowed):
		return 6
	case errors.Is(err, ports.ErrPortUnAvailable):
		return 7
	case errors.Is(err, ports.ErrNoAvailablePort):
		return 8
	case errors.Is(err, vhost.ErrRouterConfigConflict):
		return 10
	case strings.Contains(err.Error(), "unknown multiplexer"):
		return 11
	}
	return 9 // net.Listen failed
}

// the whole join call of the implementation; blocks at the after_lookup gate in between
func (w *world) doJoin(tid int, r *Req) joinRes {
	switch w.c.Kind {
	case 0:
		l, real, err := w.tcp.Listen(mname(r.M), gname(r.Group), kname(r.Key), aname(at(r.Par, 0)), r.Port)
		if err != nil {
			return joinRes{code: classify(err)}
		}
		return joinRes{real: real, ln: l}
	case 1:
		if _, err := w.backend(tid, r.M); err != nil {
			return joinRes{code: 9}
		}
		err := w.httpc.Register(mname(r.M), gname(r.Group), kname(r.Key), w.routeCfg(r, tid))
		return joinRes{code: classify(err)}
	default:
		mx := "httpconnect"
		if !r.Mux {
			mx = "bogus"
		}
		l, err := w.muxc.Listen(context.Background(), mx, gname(r.Group), kname(r.Key), w.routeCfg(r, tid))
		if err != nil {
			return joinRes{code: classify(err)}
		}
		return joinRes{ln: l}
	}
}

func (w *world) acceptLoop(tid int, t *thread) {
	for {
		c, err := t.ln.Accept()
		if err != nil {
			w.mu.Lock()
			t.loopEnd = true
			w.mu.Unlock()
			return
		}
		atomic.AddInt32(&w.accepts, 1)
		_, _ = c.Write([]byte{byte(tid)})
		_ = c.Close()
	}
}

func (w *world) finishJoin(tid int, t *thread, r *Req, jr joinRes) {
	r.OS, r.Lis, r.Pick = true, true, 0
	if jr.code != 0 {
		t.st, t.val = sRefused, jr.code
		if jr.code == 7 {
			r.OS = false
		}
		if jr.code == 9 {
			r.Lis = false
		}
		return
	}
	t.st, t.val = sMember, jr.real
	if w.c.Kind == 0 && r.Port == 0 {
		r.Pick = jr.real
	}
	switch w.c.Kind {
	case 0:
		t.res = []int{jr.real}
	case 1:
		t.res = []int{at(r.Par, 0), at(r.Par, 1), at(r.Par, 2)}
	default:
		t.res = []int{at(r.Par, 0), at(r.Par, 1)}
	}
	if jr.ln != nil {
		t.ln = jr.ln
		if !w.manual {
			go w.acceptLoop(tid, t)
		}
	}
}

var errStuck = errors.New("thread neither reached its gate nor finished")

func (w *world) stepJoin(tid int, t *thread, r *Req) error {
	switch t.st {
	case sInit:
		gmu.Lock()
		curJoin = t
		gmu.Unlock()
		go func() { t.done <- w.doJoin(tid, r) }()
		wait := 3 * time.Second
		if len(w.parked) > 0 {
			wait = blockWait
		}
		select {
		case <-t.arrived:
			t.st = sLooked
			w.parked = append(w.parked, tid)
			return nil
		case jr := <-t.done: // no gate on this path (should not happen)
			w.finishJoin(tid, t, r, jr)
			w.took(tid)
			return nil
		case <-time.After(wait):
		}
		if len(w.parked) == 0 {
			return errStuck
		}
		// the controller lock is held by a parked join: that join goes first
		w.obs.Blocked++
		if err := w.finishAllParked(); err != nil {
			return err
		}
		select {
		case <-t.arrived:
			t.st = sLooked
			w.parked = append(w.parked, tid)
		case jr := <-t.done:
			w.finishJoin(tid, t, r, jr)
			w.took(tid)
		case <-time.After(10 * time.Second):
			return errStuck
		}
	case sLooked:
		return w.finishParked(tid)
	}
	return nil
}

func (w *world) stepLeave(tid int, t *thread, r *Req) error {
	if t.st != sInit || r.JT < 0 || r.JT >= len(w.th) || w.c.Reqs[r.JT].Op != "join" {
		return nil
	}
	j := w.th[r.JT]
	if j.st != sMember {
		return nil
	}
	jr := &w.c.Reqs[r.JT]
	done := make(chan struct{})
	go func() {
		if w.c.Kind == 1 {
			w.httpc.UnRegister(mname(jr.M), gname(jr.Group), w.routeCfg(jr, r.JT))
		} else {
			j.ln.Close()
		}
		close(done)
	}()
	wait := 3 * time.Second
	if len(w.parked) > 0 {
		wait = blockWait
	}
	select {
	case <-done:
		for _, p := range w.parked {
			if w.c.Reqs[p].Group == jr.Group {
				w.obs.Overlap = true
			}
		}
	case <-time.After(wait):
		if len(w.parked) == 0 {
			return errStuck
		}
		// the leave waits for the controller lock held by a parked join: that join goes first
		w.obs.Blocked++
		if err := w.finishAllParked(); err != nil {
			return err
		}
		select {
		case <-done:
		case <-time.After(10 * time.Second):
			return errStuck
		}
	}
	j.st, j.val = sLeft, 0
	t.st = sDone
	if !w.liveMemberOn(j.res) {
		// that was the last member: whatever group appears on this endpoint later is another group
		w.inc[rkey(j.res)]++
	}
	w.took(tid)
	if w.c.Kind != 1 {
		w.took(tid) // close(closeCh), then CloseListener
	}
	return nil
}

func sameRes(a, b []int) bool {
	if len(a) != len(b) {
		return false
	}
	for i := range a {
		if a[i] != b[i] {
			return false
		}
	}
	return true
}

// is some join thread currently a member of a group whose endpoint is r?
func (w *world) liveMemberOn(r []int) bool {
	for _, t := range w.th {
		if t.st == sMember && sameRes(t.res, r) {
			return true
		}
	}
	return false
}

func (w *world) stepConn(tid int, t *thread, r *Req, o *Obs) error {
	switch w.c.Kind {
	case 1:
		if t.st != sInit {
			return nil
		}
		// through the real HTTPReverseProxy; a CONNECT every other time where the route allows it (a
		// CONNECT has no path, so it only matches a route without location)
		w.nReq++
		connect := at(r.R, 1) == 0 && w.nReq%2 == 0
		t.st, t.val = w.httpRequest(r, connect, 3*time.Second)
		w.judgeHTTP(t, r, o)
		return nil
	}
	switch t.st {
	case sInit:
		if w.c.Kind == 2 && w.env[rkey(r.R)] {
			// the route belongs to a listener outside any group: not a group endpoint
			t.st = sCRefused
			return nil
		}
		ch := make(chan *heldWorker, 1)
		gmu.Lock()
		connWaiter = ch
		gmu.Unlock()
		unwait := func() {
			gmu.Lock()
			if connWaiter == ch {
				connWaiter = nil
			}
			gmu.Unlock()
		}
		var target string
		if w.c.Kind == 0 {
			target = net.JoinHostPort(addr1, fmt.Sprint(at(r.R, 0)))
		} else {
			target = w.muxLn.Addr().String()
		}
		cc, err := net.DialTimeout("tcp", target, time.Second)
		if err != nil {
			unwait()
			t.st = sCRefused
			return nil
		}
		t.cc, t.rd = cc, bufio.NewReader(cc)
		if w.c.Kind == 2 {
			host := dname(at(r.R, 0))
			req := "CONNECT " + host + ":80 HTTP/1.1\r\nHost: " + host + ":80\r\n"
			if u := sname("u", at(r.R, 1)); u != "" {
				req += "Proxy-Authorization: Basic " + base64.StdEncoding.EncodeToString([]byte(u+":")) + "\r\n"
			}
			_, _ = cc.Write([]byte(req + "\r\n"))
			_ = cc.SetReadDeadline(time.Now().Add(2 * time.Second))
			resp, err := http.ReadResponse(t.rd, nil)
			if err != nil || resp.StatusCode != 200 {
				unwait()
				cc.Close()
				t.st = sCRefused
				if w.liveMemberOn(r.R) {
					o.LostLive = true // the muxer has no route for a group with members
				}
				return nil
			}
		}
		select {
		case h := <-ch:
			t.held = h
			t.st = sHeld
			t.incAt = w.inc[rkey(r.R)]
		case <-time.After(1200 * time.Millisecond):
			unwait()
			select {
			case h := <-ch:
				t.held = h
				t.st = sHeld
				t.incAt = w.inc[rkey(r.R)]
			default:
				// nobody accepts on the real listener
				t.st = sCStranded
				if w.liveMemberOn(r.R) {
					o.LostLive = true
				}
				cc.Close()
			}
		}
	case sHeld:
		close(t.held.release)
		_ = t.cc.SetReadDeadline(time.Now().Add(1500 * time.Millisecond))
		b, err := t.rd.ReadByte()
		if err != nil {
			// (a leaked connection is closed by the finalizer of its descriptor at some point, so
			// "closed without a label" and "nothing within the deadline" are the same observation)
			t.st = sCStranded
			r.Who = -1
			// lost while a member is live: a member of the SAME group that accepted the connection (if that
			// group lost its last member in between, its endpoint went away with the connection in hand; a
			// group created on the endpoint afterwards is another group — the model's c_lost looks at the
			// member list of the object that holds the connection, too)
			if w.liveMemberOn(r.R) && w.inc[rkey(r.R)] == t.incAt {
				o.LostLive = true
			}
		} else {
			t.st, t.val = sCTo, int(b)
			r.Who = int(b)
		}
		t.cc.Close()
	}
	return nil
}

func (w *world) stepEnv(tid int, t *thread, r *Req) error {
	if t.st != sInit {
		return nil
	}
	t.st = sDone
	k := rkey(r.R)
	switch w.c.Kind {
	case 0:
		if r.Op == "take" {
			if _, err := w.pm.Acquire("env", at(r.R, 0)); err == nil {
				w.env[k] = true
			}
		} else if w.env[k] {
			w.pm.Release(at(r.R, 0))
			delete(w.env, k)
		}
	case 1:
		dom, loc, usr := dname(at(r.R, 0)), lname(at(r.R, 1)), sname("u", at(r.R, 2))
		if r.Op == "take" {
			if err := w.rt.Add(dom, loc, usr, &vhost.RouteConfig{Domain: dom, Location: loc, RouteByHTTPUser: usr}); err == nil {
				w.env[k] = true
			}
		} else if w.env[k] {
			w.rt.Del(dom, loc, usr)
			delete(w.env, k)
		}
	default:
		rc := vhost.RouteConfig{Domain: dname(at(r.R, 0)), RouteByHTTPUser: sname("u", at(r.R, 1))}
		if r.Op == "take" {
			if l, err := w.muxer.Listen(context.Background(), &rc); err == nil {
				w.env[k] = true
				w.envL[k] = l
			}
		} else if w.env[k] {
			w.envL[k].Close()
			delete(w.env, k)
			delete(w.envL, k)
		}
	}
	return nil
}

func (w *world) table() map[string]int {
	switch w.c.Kind {
	case 0:
		return w.tcp.VerifC13Table()
	case 1:
		return w.httpc.VerifC13Table()
	}
	return w.muxc.VerifC13Table()
}

func (w *world) probeUsed(r []int) bool {
	switch w.c.Kind {
	case 0:
		p := at(r, 0)
		_, err := w.pm.Acquire("probe", p)
		if err == nil {
			w.pm.Release(p)
			return false
		}
		return errors.Is(err, ports.ErrPortAlreadyUsed)
	case 1:
		dom, loc, usr := dname(at(r, 0)), lname(at(r, 1)), sname("u", at(r, 2))
		cfg := w.rp.GetRouteConfig(dom, loc, usr)
		return cfg != nil && cfg.Location == loc && cfg.RouteByHTTPUser == usr
	}
	rc := vhost.RouteConfig{Domain: dname(at(r, 0)), RouteByHTTPUser: sname("u", at(r, 1))}
	l, err := w.muxer.Listen(context.Background(), &rc)
	if err != nil {
		return true
	}
	l.Close()
	return false
}

func (w *world) probeEp(r []int) bool {
	if w.c.Kind == 0 {
		l, err := net.Listen("tcp", net.JoinHostPort(addr1, fmt.Sprint(at(r, 0))))
		if err != nil {
			return true
		}
		l.Close()
		return false
	}
	return w.probeUsed(r) && !w.env[rkey(r)]
}

func gnum(s string) int {
	n := 0
	fmt.Sscanf(s, "g%d", &n)
	return n
}

// runCase executes the schedule.  progress(obs) is called after every step so that a parent
// process still has the observations made before a crash.
func runCase(c *Case, progress func(tid int)) (*Obs, error) {
	o := &Obs{}
	w, err := newWorld(c)
	if err != nil {
		return nil, err
	}
	w.obs, w.progress = o, progress
	verifhook.Install(controller)
	defer verifhook.Install(nil)
	switch c.Tag {
	case "closerace":
		w.manual = true
		if err := w.closeRace(o); err != nil {
			return nil, err
		}
		c.Sched = nil
	case "leavewin":
		if err := w.leaveWindow(o); err != nil {
			return nil, err
		}
		c.Sched = nil
	case "stall":
		if err := w.stallDial(o); err != nil {
			return nil, err
		}
		c.Sched = nil
	}
	for _, tid := range c.Sched {
		if tid < 0 || tid >= len(c.Reqs) {
			continue
		}
		t, r := w.th[tid], &c.Reqs[tid]
		if r.Op == "conn" && len(r.R) == 1 && r.R[0] == -1 {
			// "the port the server chose for join thread 0"
			r.R = []int{at(w.th[0].res, 0)}
		}
		var err error
		switch r.Op {
		case "join":
			err = w.stepJoin(tid, t, r)
		case "leave":
			err = w.stepLeave(tid, t, r)
		case "conn":
			before := t.st
			err = w.stepConn(tid, t, r, o)
			if t.st != before {
				w.took(tid)
			}
		case "take", "free":
			before := t.st
			err = w.stepEnv(tid, t, r)
			if t.st != before {
				w.took(tid)
			}
		}
		if err != nil {
			return nil, fmt.Errorf("step of thread %d (%s): %v", tid, r.Op, err)
		}
	}
	// a join still parked at its gate completes now (its single atomic step in the model)
	if err := w.finishAllParked(); err != nil {
		return nil, err
	}
	// observations
	time.Sleep(15 * time.Millisecond)
	for i, t := range w.th {
		o.Thr = append(o.Thr, [2]int{t.st, t.val})
		w.mu.Lock()
		if t.st == sMember && t.loopEnd {
			o.Dead = append(o.Dead, i)
		}
		w.mu.Unlock()
	}
	// server-chosen ports are part of what is observed
	for i, t := range w.th {
		if c.Kind == 0 && c.Reqs[i].Op == "join" && c.Reqs[i].Port == 0 && t.st == sMember {
			dup := false
			for _, r := range c.Probe {
				dup = dup || sameRes(r, []int{t.val})
			}
			if !dup {
				c.Probe = append(c.Probe, []int{t.val})
			}
		}
	}
	o.Accepts = int(atomic.LoadInt32(&w.accepts))
	tab := w.table()
	names := make([]string, 0, len(tab))
	for n := range tab {
		names = append(names, n)
	}
	sort.Strings(names)
	live := 0
	for _, n := range names {
		o.Tab = append(o.Tab, [2]int{gnum(n), tab[n]})
		if tab[n] > 0 {
			live++
		}
	}
	held := 0
	for _, r := range c.Probe {
		u := w.probeUsed(r)
		o.Used = append(o.Used, ResB{r, u})
		if u && !w.env[rkey(r)] {
			held++
		}
	}
	for _, r := range c.Probe {
		o.Eps = append(o.Eps, ResB{r, w.probeEp(r)})
	}
	if held > live {
		o.Orphan = true
	}
	o.Reqs = c.Reqs
	// cleanup: let every parked goroutine go, close what is still open
	verifhook.Install(nil)
	for _, t := range w.th {
		if t.st == sLooked {
			close(t.release)
		}
		if t.st == sHeld {
			close(t.held.release)
			t.cc.Close()
		}
	}
	if !c.Isolate {
		for i, t := range w.th {
			if t.st == sMember {
				if c.Kind == 1 {
					jr := &c.Reqs[i]
					w.httpc.UnRegister(mname(jr.M), gname(jr.Group), w.routeCfg(jr, i))
				} else if t.ln != nil {
					t.ln.Close()
				}
			}
		}
		for k, l := range w.envL {
			_ = k
			l.Close()
		}
	}
	for _, f := range w.closer {
		f()
	}
	return o, nil
}

func (w *world) judgeHTTP(t *thread, r *Req, o *Obs) {
	if t.st != sCTo {
		if w.liveMemberOn(r.R) {
			o.LostLive = true // no answer from a group with members
		}
		return
	}
	w.mu.Lock()
	bt := w.lastBackend
	w.mu.Unlock()
	for i, x := range w.th {
		// the backend that answered must be the one of the join that currently holds this member name
		if x.st == sMember && w.c.Reqs[i].M == t.val && sameRes(x.res, r.R) && i == bt {
			return
		}
	}
	o.WrongRecv = true
}

// stall: requests [join A; join B; join C; conn; leave C; conn], http.  The dial of member B is frozen;
// the first request is rotated to B and waits in B's CreateConnFn; meanwhile C leaves (a writer on the
// group's lock) and a second request arrives: it must be answered by A at once.
func (w *world) stallDial(o *Obs) error {
	if w.c.Kind != 1 || len(w.c.Reqs) != 6 {
		return errors.New("stall: bad case")
	}
	for _, tid := range []int{0, 1, 2} {
		if err := w.seqStep(tid, o); err != nil {
			return err
		}
		if w.th[tid].st != sMember {
			return errors.New("stall: join refused")
		}
	}
	frozen := w.c.Reqs[1].M
	gate := make(chan struct{})
	w.mu.Lock()
	w.stall[frozen] = gate
	w.mu.Unlock()
	type res struct{ st, val int }
	first := make(chan res, 1)
	go func() {
		st, val := w.httpRequest(&w.c.Reqs[3], false, 8*time.Second)
		first <- res{st, val}
	}()
	reached := false
	for i := 0; i < 200 && !reached; i++ {
		time.Sleep(5 * time.Millisecond)
		w.mu.Lock()
		for _, m := range w.dialed {
			reached = reached || m == frozen
		}
		w.mu.Unlock()
	}
	if !reached {
		close(gate)
		return errors.New("stall: the first request was not rotated to the frozen member")
	}
	w.took(3)
	left := make(chan struct{})
	jr := &w.c.Reqs[2]
	go func() {
		w.httpc.UnRegister(mname(jr.M), gname(jr.Group), w.routeCfg(jr, 2))
		close(left)
	}()
	select {
	case <-left:
	case <-time.After(300 * time.Millisecond): // (still waiting: recorded below)
	}
	w.th[2].st, w.th[2].val = sLeft, 0
	w.th[4].st = sDone
	w.took(4)
	t5 := w.th[5]
	t5.st, t5.val = w.httpRequest(&w.c.Reqs[5], false, 2*time.Second)
	w.judgeHTTP(t5, &w.c.Reqs[5], o)
	w.took(5)
	close(gate)
	select {
	case r := <-first:
		w.th[3].st, w.th[3].val = r.st, r.val
	case <-time.After(10 * time.Second):
		return errStuck
	}
	select {
	case <-left:
	case <-time.After(10 * time.Second):
		return errStuck
	}
	return nil
}

// ---- choreographies that need more than the two gates ----

func (w *world) holdGroup(n int) (func(), bool) {
	switch w.c.Kind {
	case 0:
		return w.tcp.VerifC13HoldGroup(gname(n))
	case 1:
		return w.httpc.VerifC13HoldGroup(gname(n))
	}
	return w.muxc.VerifC13HoldGroup(gname(n))
}

func (w *world) seqStep(tid int, o *Obs) error {
	t, r := w.th[tid], &w.c.Reqs[tid]
	switch r.Op {
	case "join":
		if err := w.stepJoin(tid, t, r); err != nil {
			return err
		}
		return w.stepJoin(tid, t, r)
	case "leave":
		return w.stepLeave(tid, t, r)
	case "conn":
		for k := 0; k < 2; k++ {
			before := t.st
			if err := w.stepConn(tid, t, r, o); err != nil {
				return err
			}
			if t.st != before {
				w.took(tid)
			}
		}
	}
	return nil
}

type accRes struct {
	c   net.Conn
	err error
}

// one Accept() call on the listener of join thread tid
func (w *world) acceptOnce(tid int, d time.Duration) (accRes, bool) {
	ch := make(chan accRes, 1)
	go func() {
		c, err := w.th[tid].ln.Accept()
		ch <- accRes{c, err}
	}()
	select {
	case r := <-ch:
		return r, true
	case <-time.After(d):
		return accRes{}, false
	}
}

// closeRace: requests [join A; join B; conn; leave A], tcp / tcpmux.  A user connection sits at the
// hand-off (the worker is blocked in the send, nobody is in Accept); member A starts leaving
// (close(closeCh) done, CloseListener kept waiting through the group lock); A's accept loop runs once
// (both select cases ready); the leave completes; if the connection is still there B takes it.
func (w *world) closeRace(o *Obs) error {
	if w.c.Kind == 1 || len(w.c.Reqs) != 4 {
		return errors.New("closerace: bad case")
	}
	for _, tid := range []int{0, 1} {
		if err := w.seqStep(tid, o); err != nil {
			return err
		}
		if w.th[tid].st != sMember {
			return errors.New("closerace: join refused")
		}
	}
	ct, cr := w.th[2], &w.c.Reqs[2]
	if err := w.stepConn(2, ct, cr, o); err != nil {
		return err
	}
	if ct.st != sHeld {
		return fmt.Errorf("closerace: connection not at the hand-off (state %d)", ct.st)
	}
	w.took(2)
	close(ct.held.release) // the worker goes on to the (blocking) send
	time.Sleep(10 * time.Millisecond)
	release, ok := w.holdGroup(w.c.Reqs[0].Group)
	if !ok {
		return errors.New("closerace: group not found")
	}
	closed := make(chan struct{})
	go func() { w.th[0].ln.Close(); close(closed) }()
	time.Sleep(30 * time.Millisecond)
	w.th[3].st = sLeaving
	w.took(3) // close(closeCh)
	deliver := func(tid int, c net.Conn) {
		atomic.AddInt32(&w.accepts, 1)
		_, _ = c.Write([]byte{byte(tid)})
		_ = c.Close()
		w.took(2)
	}
	ra, done := w.acceptOnce(0, 2*time.Second)
	if !done {
		release()
		return errors.New("closerace: Accept of the closing member blocked")
	}
	delivered := false
	if ra.c != nil {
		deliver(0, ra.c)
		delivered = true
	} else {
		w.took(0) // A's loop saw closeCh and returned
	}
	release()
	select {
	case <-closed:
	case <-time.After(10 * time.Second):
		return errStuck
	}
	w.th[0].st, w.th[0].val = sLeft, 0
	w.th[3].st = sDone
	w.took(3) // CloseListener
	if !delivered {
		if rb, done := w.acceptOnce(1, 400*time.Millisecond); done && rb.c != nil {
			deliver(1, rb.c)
		}
	}
	_ = ct.cc.SetReadDeadline(time.Now().Add(600 * time.Millisecond))
	b, err := ct.rd.ReadByte()
	switch {
	case err == nil:
		ct.st, ct.val, cr.Who = sCTo, int(b), int(b)
	default: // closed by frps without a label, or nothing at all; member B was live all the time
		ct.st, cr.Who = sCStranded, -1
		o.LostLive = true
	}
	ct.cc.Close()
	return nil
}

// leaveWindow: requests [join p1; leave p1; join p2; join p3; leave p2; leave p3; join p4].  The last
// leave (of p1) is kept inside its critical section by holding the group's own lock; the join of p2 is
// started meanwhile; then the lock is released.  With the locks as they are the join waits for the
// controller lock until the leave is complete.  Everything else runs sequentially.
func (w *world) leaveWindow(o *Obs) error {
	if len(w.c.Reqs) != 7 {
		return errors.New("leavewin: bad case")
	}
	if err := w.seqStep(0, o); err != nil {
		return err
	}
	if w.th[0].st != sMember {
		return errors.New("leavewin: first join refused")
	}
	release, ok := w.holdGroup(w.c.Reqs[0].Group)
	if !ok {
		return errors.New("leavewin: group not found")
	}
	jr := &w.c.Reqs[0]
	left := make(chan struct{})
	go func() {
		if w.c.Kind == 1 {
			w.httpc.UnRegister(mname(jr.M), gname(jr.Group), w.routeCfg(jr, 0))
		} else {
			w.th[0].ln.Close()
		}
		close(left)
	}()
	time.Sleep(40 * time.Millisecond)
	joined := make(chan joinRes, 1)
	go func() { joined <- w.doJoin(2, &w.c.Reqs[2]) }()
	time.Sleep(40 * time.Millisecond)
	release()
	select {
	case <-left:
	case <-time.After(10 * time.Second):
		return errStuck
	}
	w.th[0].st, w.th[0].val = sLeft, 0
	w.th[1].st = sDone
	w.took(1)
	if w.c.Kind != 1 {
		w.took(1)
	}
	select {
	case r := <-joined:
		w.finishJoin(2, w.th[2], &w.c.Reqs[2], r)
		w.took(2)
	case <-time.After(10 * time.Second):
		return errStuck
	}
	for _, tid := range []int{3, 4, 5, 6} {
		if err := w.seqStep(tid, o); err != nil {
			return err
		}
	}
	return nil
}
