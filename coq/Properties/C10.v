(* C10 — everything a proxy or session held is released on every termination path.
   Statements only; proofs are in Proofs/SrvResProofs.v, Proofs/SrvResThms.v, Proofs/ConnWrapProofs.v.

   Model/SrvRes.v is the server's resource accounting as one state (port tables, sockets, the three
   route tables, visitor and NAT-hole tables, group tables, name table, session table) with the
   handlers' sequential semantics as steps; external behaviour (random port choice, outcome of
   net.Listen, a concurrent registration winning pxyManager.Add) enters as oracle fields of the
   request, and every statement quantifies over all their values.
   [reach ranges maxp maxpool s] = s is the result of SOME history (fold of sr_step over any list of
   operations: logins, registrations succeeding or failing at any step, closes, session ends, work
   connections, foreign processes binding ports) without load-balancing groups, from the initial state.
   [fp s n] = the set of resource atoms recorded under proxy name n in any table of s.
   The grouped paths (tcp / http / tcpmux groups) have their own theorems below (the C10_grouped_ family), stated for
   states reachable by ANY history; the invariant-based theorems above are for group-free histories. *)
From FRP Require Import Model.SrvRes Model.ConnWrap Proofs.PortsProofs Proofs.SrvResBase Proofs.SrvResProofs Proofs.SrvResThms
  Proofs.ConnWrapProofs Model.StackTypes Model.ConnWrapSites Proofs.ConnWrapSitesProofs gen.GenStacks
  Model.UdpLoop Proofs.UdpLoopProofs Proofs.SrvResGroups Model.RelTypes Proofs.RelMirror gen.GenRelease.
Open Scope Z_scope.

(* "all histories" is literally a fold_left of the step function *)
Theorem C10_history_is_a_fold : forall maxp maxpool ops s, sr_run maxp maxpool ops s = sr_fold maxp maxpool ops s.
Proof. exact sr_run_fold. Qed.
Print Assumptions C10_history_is_a_fold.

(* no leak, ever: in every reachable state every entry of every keyed table (socket, route of the three
   route tables, visitor listener, NAT-hole client) is recorded by the object of a proxy that is
   registered right now in the name table and in its session *)
Theorem C10_every_entry_has_a_live_holder : forall ranges maxp maxpool s k ow,
  reach ranges maxp maxpool s -> In (k, ow) (sr_res s) ->
  exists n c ct o, ow = OPxy n /\ nm_get n (sr_names s) = Some c /\ ss_get c (sr_sess s) = Some ct /\
                   nm_get n (ss_pxys ct) = Some o /\ In k (po_slots o).
Proof. exact every_entry_has_a_live_holder. Qed.
Print Assumptions C10_every_entry_has_a_live_holder.

(* ... and every port recorded as used in a port manager is bound by a socket of the registered proxy
   whose name the manager recorded *)
Theorem C10_every_used_port_has_a_live_holder : forall ranges maxp maxpool s proto p n,
  reach ranges maxp maxpool s -> (proto = 0 \/ proto = 1) -> uget p (pm_used (get_pm proto s)) = Some n ->
  exists c ct o, nm_get n (sr_names s) = Some c /\ ss_get c (sr_sess s) = Some ct /\ nm_get n (ss_pxys ct) = Some o /\
                 In (SSock proto p) (po_slots o) /\ al_get slot_eqb (SSock proto p) (sr_res s) = Some (OPxy n).
Proof. exact every_used_port_has_a_live_holder. Qed.
Print Assumptions C10_every_used_port_has_a_live_holder.

(* stop_releases_footprint, path 1: CloseProxy *)
Theorem C10_stop_releases_footprint_close : forall ranges maxp maxpool s c n s' ct,
  reach ranges maxp maxpool s -> ss_get c (sr_sess s) = Some ct -> nm_get n (ss_pxys ct) <> None ->
  y_close maxp s c n = Some s' -> fp s' n = [].
Proof. exact close_releases_footprint. Qed.
Print Assumptions C10_stop_releases_footprint_close.

(* stop_releases_footprint with the state equivalence spelled out: a registration followed by its
   CloseProxy leaves every table exactly as before the registration; the port managers are equal up to
   the declared monotone memories (order of the free table, reserved-port memory: pm_eqv compares the
   used table and the free SET); the session entries (proxies, quota counter, pool) are equal:
   quota_returned is the seventh conjunct *)
Theorem C10_register_then_close_restores_state : forall ranges maxp maxpool s c q s1 real s2,
  reach ranges maxp maxpool s -> group_free_req q ->
  y_register maxp s c q = Some (s1, ROk real) -> y_close maxp s1 c (q_name q) = Some s2 ->
  sr_res s2 = sr_res s /\ sr_grp s2 = sr_grp s /\ sr_names s2 = sr_names s /\ sr_squat s2 = sr_squat s /\
  pm_eqv (sr_tcp s) (sr_tcp s2) /\ pm_eqv (sr_udp s) (sr_udp s2) /\
  (forall c0, ss_get c0 (sr_sess s2) = ss_get c0 (sr_sess s)) /\ fp s2 (q_name q) = [].
Proof. exact register_then_close_restores. Qed.
Print Assumptions C10_register_then_close_restores_state.

(* stop_releases_footprint, paths 2-4 (connection drop, replacement by re-login, heartbeat timeout reach
   the same teardown) = session_end_releases_all_of_its_proxies: the session leaves the table, exactly its
   pooled work connections are closed, every proxy it owned has an empty footprint and a free name *)
Theorem C10_session_end_releases_all_of_its_proxies : forall ranges maxp maxpool s c s' k ct,
  reach ranges maxp maxpool s -> ss_get c (sr_sess s) = Some ct -> y_end s c = Some (s', k) ->
  ss_get c (sr_sess s') = None /\ k = ss_pool ct /\
  (forall n, nm_get n (ss_pxys ct) <> None -> nm_get n (sr_names s') = None /\ fp s' n = []).
Proof. exact session_end_releases_all. Qed.
Print Assumptions C10_session_end_releases_all_of_its_proxies.

(* failed_registration_rolls_back_everything_it_acquired, for EVERY failure point e (quota, name taken,
   port refused, listen failed after the acquisition, a later route conflicting after earlier ones were
   added, the name taken by a concurrent registration after Run succeeded): every table is what it was,
   the port managers up to the order of the free table and the reserved-port memory, the quota counter
   included (the session entries are equal) *)
Theorem C10_failed_registration_rolls_back_everything_it_acquired : forall ranges maxp maxpool s c q s' e,
  reach ranges maxp maxpool s -> group_free_req q -> y_register maxp s c q = Some (s', RErr e) ->
  sr_res s' = sr_res s /\ sr_grp s' = sr_grp s /\ sr_names s' = sr_names s /\ sr_squat s' = sr_squat s /\
  pm_eqv (sr_tcp s) (sr_tcp s') /\ pm_eqv (sr_udp s) (sr_udp s') /\
  (forall c0, ss_get c0 (sr_sess s') = ss_get c0 (sr_sess s)).
Proof. exact failed_registration_restores. Qed.
Print Assumptions C10_failed_registration_rolls_back_everything_it_acquired.

Theorem C10_stop_releases_footprint_failed_registration : forall ranges maxp maxpool s c q s' e,
  reach ranges maxp maxpool s -> group_free_req q -> y_register maxp s c q = Some (s', RErr e) ->
  nm_get (q_name q) (sr_names s) = None -> fp s' (q_name q) = [].
Proof. exact failed_registration_releases_footprint. Qed.
Print Assumptions C10_stop_releases_footprint_failed_registration.

(* reregister_after_stop_succeeds: register p, stop it by CloseProxy, submit the identical request on the
   same session: it succeeds (explicit remote port, or a type that uses no port; the oracles of the request
   are those of the first registration) *)
Theorem C10_reregister_after_stop_succeeds : forall ranges maxp maxpool s c q s1 real s2,
  reach ranges maxp maxpool s -> group_free_req q -> (weight (q_type q) = 1 -> q_port q <> 0) ->
  y_register maxp s c q = Some (s1, ROk real) -> y_close maxp s1 c (q_name q) = Some s2 ->
  exists s3 real', y_register maxp s2 c q = Some (s3, ROk real').
Proof. exact reregister_after_close_succeeds. Qed.
Print Assumptions C10_reregister_after_stop_succeeds.

(* a failed registration leaves nothing behind that could make a later registration fail: any request
   that would succeed from the state before the failure succeeds from the state after it *)
Theorem C10_failed_registration_can_be_retried : forall ranges maxp maxpool s c q s' e sa real,
  reach ranges maxp maxpool s -> group_free_req q -> (weight (q_type q) = 1 -> q_port q <> 0 /\ q_lok q = true) ->
  y_register maxp s c q = Some (s', RErr e) ->
  forall q', q_group q' = ""%string -> (weight (q_type q') = 1 -> q_port q' <> 0 /\ q_lok q' = true) ->
  y_register maxp s c q' = Some (sa, ROk real) -> exists sb real', y_register maxp s' c q' = Some (sb, ROk real').
Proof. exact failed_registration_can_be_retried. Qed.
Print Assumptions C10_failed_registration_can_be_retried.

(* quota_returned, global form: on every history the counter of a session equals the summed weight of the
   proxies it holds right now (so every stop and every failed registration has returned what it took) *)
Theorem C10_quota_equals_live_weight : forall ranges maxp maxpool s c ct,
  reach ranges maxp maxpool s -> 0 < maxp -> ss_get c (sr_sess s) = Some ct -> ss_used ct = wsum (ss_pxys ct).
Proof. exact quota_equals_live_weight. Qed.
Print Assumptions C10_quota_equals_live_weight.

(* the release theorem over the FULL vector of keyed entries — sockets, routes of the three route tables
   (other proxies' routes on the same domain with another routeByHTTPUser included), visitor listeners,
   NAT-hole clients — for proxy names that are arbitrary strings: after CloseProxy of n every slot k holds
   exactly what it held before unless n held it, in which case it is free ("held by nobody it should not be,
   and nothing of anybody else released"); every other name stays registered, n's name is free, groups and
   foreign sockets untouched *)
Theorem C10_close_changes_exactly_own_entries : forall ranges maxp maxpool s c n s' ct o,
  reach ranges maxp maxpool s -> ss_get c (sr_sess s) = Some ct -> nm_get n (ss_pxys ct) = Some o ->
  y_close maxp s c n = Some s' ->
  (forall k, al_get slot_eqb k (sr_res s') = after_stop_of n (al_get slot_eqb k (sr_res s))) /\
  (forall m, m <> n -> nm_get m (sr_names s') = nm_get m (sr_names s)) /\ nm_get n (sr_names s') = None /\
  sr_grp s' = sr_grp s /\ sr_squat s' = sr_squat s.
Proof. exact close_changes_exactly_own_entries. Qed.
Print Assumptions C10_close_changes_exactly_own_entries.

(* others_untouched: in every reachable state a registered proxy has every resource its object recorded,
   under its own name; and stopping ANOTHER proxy (CloseProxy), ending ANOTHER session, or any registration
   whatever its outcome keeps it registered with the same object, hence with all its resources *)
Theorem C10_live_proxy_keeps_its_resources : forall ranges maxp maxpool s c ct m o k,
  reach ranges maxp maxpool s -> ss_get c (sr_sess s) = Some ct -> nm_get m (ss_pxys ct) = Some o -> In k (po_slots o) ->
  al_get slot_eqb k (sr_res s) = Some (OPxy m) /\ nm_get m (sr_names s) = Some c.
Proof. exact live_proxy_keeps_its_resources. Qed.
Print Assumptions C10_live_proxy_keeps_its_resources.

Theorem C10_others_untouched_by_close : forall ranges maxp maxpool s c n s' c' ct' m o,
  reach ranges maxp maxpool s -> y_close maxp s c n = Some s' -> m <> n ->
  ss_get c' (sr_sess s) = Some ct' -> nm_get m (ss_pxys ct') = Some o ->
  (exists ct2, ss_get c' (sr_sess s') = Some ct2 /\ nm_get m (ss_pxys ct2) = Some o) /\
  (forall k, In k (po_slots o) -> al_get slot_eqb k (sr_res s') = Some (OPxy m)).
Proof. exact others_untouched_by_close. Qed.
Print Assumptions C10_others_untouched_by_close.

Theorem C10_others_untouched_by_session_end : forall ranges maxp maxpool s c s' k0 c' ct' m o,
  reach ranges maxp maxpool s -> y_end s c = Some (s', k0) -> c' <> c ->
  ss_get c' (sr_sess s) = Some ct' -> nm_get m (ss_pxys ct') = Some o ->
  ss_get c' (sr_sess s') = Some ct' /\ (forall k, In k (po_slots o) -> al_get slot_eqb k (sr_res s') = Some (OPxy m)).
Proof. exact others_untouched_by_session_end. Qed.
Print Assumptions C10_others_untouched_by_session_end.

Theorem C10_others_untouched_by_registration : forall ranges maxp maxpool s c q s' r c' ct' m o,
  reach ranges maxp maxpool s -> group_free_req q -> y_register maxp s c q = Some (s', r) ->
  ss_get c' (sr_sess s) = Some ct' -> nm_get m (ss_pxys ct') = Some o ->
  (exists ct2, ss_get c' (sr_sess s') = Some ct2 /\ nm_get m (ss_pxys ct2) = Some o) /\
  (forall k, In k (po_slots o) -> al_get slot_eqb k (sr_res s') = Some (OPxy m)).
Proof. exact others_untouched_by_registration. Qed.
Print Assumptions C10_others_untouched_by_registration.

(* ---------- load-balancing groups (tcp / http / tcpmux) ----------
   [any_reach] = reachable by ANY history, grouped requests included.  The statements are about the group
   operations the grouped proxies' Run / Close consist of (grp_join = XxxGroupCtl.Listen / Register,
   grp_leave = CloseListener / UnRegister); [live_group s id] = the group id if it has members (an empty
   group object left by a refused first join, F-C10c, is not a live group: declared memory). *)
Definition any_reach (ranges : list prange) (maxp maxpool : Z) (s : sr) : Prop :=
  exists ops, sr_run maxp maxpool ops (sr_new ranges) = Some s.

Theorem C10_ports_partition_on_every_history : forall ranges maxp maxpool s,
  any_reach ranges maxp maxpool s -> PInv (pm_allowed ranges) (sr_tcp s) /\ PInv (pm_allowed ranges) (sr_udp s).
Proof. intros ranges maxp maxpool s [ops H]. exact (ports_partition_on_every_history ranges maxp maxpool ops s H). Qed.
Print Assumptions C10_ports_partition_on_every_history.

(* a refused join, for whatever reason, changes no keyed table, no used port, no live group and no member
   list; at most an empty group object appears *)
Theorem C10_grouped_refused_join_changes_nothing : forall ranges maxp maxpool s j s' e,
  any_reach ranges maxp maxpool s -> grp_join s j = Some (s', inr e) -> refused_post (pm_allowed ranges) s j s'.
Proof.
  intros ranges maxp maxpool s j s' e [ops H] J.
  exact (refused_join_changes_nothing _ s j s' e (proj1 (ports_partition_on_every_history ranges maxp maxpool ops s H)) (allowed_no0 ranges) J).
Qed.
Print Assumptions C10_grouped_refused_join_changes_nothing.

(* the last member leaves: group gone, shared socket + port (or route) released, nothing else touched *)
Theorem C10_grouped_last_leave_releases : forall ranges maxp maxpool s id n g,
  any_reach ranges maxp maxpool s -> grp_get id (sr_grp s) = Some g -> str_rem1 n (g_mem g) = [] ->
  let s' := grp_leave s id n in
  grp_get id (sr_grp s') = None /\ al_get slot_eqb (g_slot g) (sr_res s') = None /\
  (forall p, g_slot g = SSock 0 p -> uget p (pm_used (sr_tcp s')) = None /\ In p (pm_free (sr_tcp s')) \/ uget p (pm_used (sr_tcp s)) = None) /\
  (forall k, k <> g_slot g -> al_get slot_eqb k (sr_res s') = al_get slot_eqb k (sr_res s)) /\
  (forall id0, id0 <> id -> grp_get id0 (sr_grp s') = grp_get id0 (sr_grp s)) /\
  sr_names s' = sr_names s /\ sr_sess s' = sr_sess s /\ PInv (pm_allowed ranges) (sr_tcp s') /\ PInv (pm_allowed ranges) (sr_udp s').
Proof.
  intros ranges maxp maxpool s id n g [ops H] GG RM.
  destruct (ports_partition_on_every_history ranges maxp maxpool ops s H) as [Pt Pu].
  exact (last_leave_releases _ s id n g Pt Pu GG RM).
Qed.
Print Assumptions C10_grouped_last_leave_releases.

Theorem C10_grouped_leave_keeps_the_group_for_the_others : forall s id n g m r,
  grp_get id (sr_grp s) = Some g -> str_rem1 n (g_mem g) = m :: r ->
  let s' := grp_leave s id n in
  grp_get id (sr_grp s') = Some (g_with_mem g (m :: r)) /\ sr_res s' = sr_res s /\ sr_tcp s' = sr_tcp s /\ sr_udp s' = sr_udp s /\
  sr_names s' = sr_names s /\ sr_sess s' = sr_sess s /\
  (forall id0, id0 <> id -> grp_get id0 (sr_grp s') = grp_get id0 (sr_grp s)).
Proof. exact leave_keeps_the_group_for_the_others. Qed.
Print Assumptions C10_grouped_leave_keeps_the_group_for_the_others.

(* join, then leave: keyed tables equal, port manager equal up to the declared memories, every live group
   as before (first member of a new group, or one more member of an existing one) *)
Theorem C10_grouped_join_then_leave_restores : forall ranges maxp maxpool s j s1 rp,
  any_reach ranges maxp maxpool s -> slot_ok j -> grp_join s j = Some (s1, inl rp) ->
  (forall g, live_group s (j_gid j) = Some g -> str_mem (j_name j) (g_mem g) = false) ->
  grp_eqv s (grp_leave s1 (j_gid j) (j_name j)).
Proof.
  intros ranges maxp maxpool s j s1 rp [ops H] SK J NM.
  exact (join_then_leave_restores _ s j s1 rp (proj1 (ports_partition_on_every_history ranges maxp maxpool ops s H)) (allowed_no0 ranges) SK J NM).
Qed.
Print Assumptions C10_grouped_join_then_leave_restores.

(* reregister_after_stop_succeeds for grouped proxies: join, leave, the identical join succeeds *)
Theorem C10_grouped_reregister_after_stop_succeeds : forall ranges maxp maxpool s j s1 rp,
  any_reach ranges maxp maxpool s -> slot_ok j -> (fst (j_gid j) = GTcp -> j_port j <> 0) ->
  (forall g, live_group s (j_gid j) = Some g -> str_mem (j_name j) (g_mem g) = false) ->
  grp_join s j = Some (s1, inl rp) ->
  exists s3 rp', grp_join (grp_leave s1 (j_gid j) (j_name j)) j = Some (s3, inl rp').
Proof.
  intros ranges maxp maxpool s j s1 rp [ops H] SK NP NM J.
  exact (grouped_rejoin_after_leave _ s j s1 rp (proj1 (ports_partition_on_every_history ranges maxp maxpool ops s H)) (allowed_no0 ranges) SK NP NM J).
Qed.
Print Assumptions C10_grouped_reregister_after_stop_succeeds.

(* a refused join leaves nothing behind that could make a later join fail *)
Theorem C10_grouped_join_after_refused_join : forall ranges maxp maxpool s j s' e j' s1 rp,
  any_reach ranges maxp maxpool s -> grp_join s j = Some (s', inr e) ->
  (fst (j_gid j') = GTcp -> j_port j' <> 0) ->
  grp_join s j' = Some (s1, inl rp) -> exists s3 rp', grp_join s' j' = Some (s3, inl rp').
Proof.
  intros ranges maxp maxpool s j s' e j' s1 rp [ops H] J NP J'.
  exact (join_after_refused_join _ s j s' e j' s1 rp (proj1 (ports_partition_on_every_history ranges maxp maxpool ops s H)) (allowed_no0 ranges) J NP J').
Qed.
Print Assumptions C10_grouped_join_after_refused_join.

(* the same at the level of TCPProxy.Run / Close for a grouped tcp proxy *)
Theorem C10_grouped_tcp_run_close_run : forall ranges maxp maxpool s q s1 o,
  any_reach ranges maxp maxpool s -> q_type q = TTcp -> q_group q <> ""%string -> q_port q <> 0 ->
  (forall g, live_group s (GTcp, q_group q) = Some g -> str_mem (q_name q) (g_mem g) = false) ->
  px_run s q = Some (s1, inl o) ->
  grp_eqv s (px_close s1 o) /\ exists s3 o', px_run (px_close s1 o) q = Some (s3, inl o').
Proof.
  intros ranges maxp maxpool s q s1 o [ops H] T G NP NM R.
  exact (grouped_tcp_run_close_run _ s q s1 o (proj1 (ports_partition_on_every_history ranges maxp maxpool ops s H)) (allowed_no0 ranges) T G NP NM R).
Qed.
Print Assumptions C10_grouped_tcp_run_close_run.

(* cycles_do_not_grow: whatever happened before — any number of register/stop cycles, failures, session
   ends — once no proxy is registered every resource table is EMPTY (so its size after n cycles equals
   its size after one, namely 0), only the session table keeps the live sessions *)
Theorem C10_cycles_do_not_grow : forall ranges maxp maxpool s,
  reach ranges maxp maxpool s -> sr_names s = [] ->
  sr_res s = [] /\ pm_used (sr_tcp s) = [] /\ pm_used (sr_udp s) = [] /\ sr_grp s = [] /\
  (forall c ct, ss_get c (sr_sess s) = Some ct -> ss_pxys ct = []).
Proof. exact quiescent_state_is_empty. Qed.
Print Assumptions C10_cycles_do_not_grow.

Theorem C10_cycles_table_sizes : forall ranges maxp maxpool s,
  reach ranges maxp maxpool s -> sr_names s = [] ->
  firstn 13 (sizes s) = [0; 0; 0; 0; 0; 0; 0; 0; 0; 0; 0; 0; 0].
Proof. exact quiescent_sizes. Qed.
Print Assumptions C10_cycles_table_sizes.

(* wrapper_closes_underlying_exactly_once: for every wrapper shape (ContextConn, WrapReadWriteCloserConn,
   CloseNotifyConn, StatsConn, golib ReadWriteCloser, and the stacks built at the three server sites with
   every combination of encryption / compression / limiter) and every number k of Close calls on the top,
   the transport is closed cw_spec times: 0 if k = 0, exactly once if the stack contains a once-guard,
   k times (every call forwarded) otherwise *)
Theorem C10_wrapper_close_count : forall s k, cw_observe s k = Some (cw_spec s k).
Proof. exact cw_observe_spec. Qed.
Print Assumptions C10_wrapper_close_count.

Theorem C10_wrapper_closes_underlying_exactly_once : forall s k,
  cw_guarded s = true -> (k <> 0)%nat -> cw_observe s k = Some 1.
Proof. exact cw_exactly_once. Qed.
Print Assumptions C10_wrapper_closes_underlying_exactly_once.

Theorem C10_wrapper_propagates_close : forall s k, (k <> 0)%nat -> exists m, cw_observe s k = Some m /\ 1 <= m.
Proof. exact cw_at_least_once. Qed.
Print Assumptions C10_wrapper_propagates_close.

Theorem C10_wrapper_callback_once : forall k, (k <> 0)%nat ->
  forall s, s = ShCloseNotify \/ s = ShStats ->
  exists st, cw_close_n k (cw_heap s) (cw_top s) cw_init = Some st /\ cw_calls st = [1%nat].
Proof. exact cw_callback_once. Qed.
Print Assumptions C10_wrapper_callback_once.

(* the wrapper stacks as the SOURCE has them today: translator unit t5 regenerates gen/GenStacks.v from the ten
   tunnel sites (server proxy.go / http.go / udp.go / visitor.go, client proxy.go / udp.go / sudp.go and the three
   visitors) on every run; for every site and every combination of encryption / compression / limiter the
   first Close of the outermost value closes the transport exactly once, and either every further Close
   changes nothing (any number of calls) or the stack is pure pass-through.  The proof is reflective
   (cw_sites_ok_sound applied to today's table): a limiter closure that names the re-assigned variable
   (CtSelf / CtReassigned), a layer that no longer wraps the top, or a construct the translator does not
   recognise makes the check false and this theorem fail *)
Theorem C10_every_source_site_closes_its_transport :
  stack_sites <> [] /\
  forall s, In s stack_sites -> forall e c l,
  exists st1, cw_close (cw_fuel (cw_site_heap s e c l)) (cw_site_heap s e c l) (pred (length (cw_site_heap s e c l))) cw_init = Some st1 /\
              cw_base_closes st1 = 1 /\
              ((forall k, cw_close_n (S k) (cw_site_heap s e c l) (pred (length (cw_site_heap s e c l))) cw_init = Some st1) \/
               (exists st2, cw_close (cw_fuel (cw_site_heap s e c l)) (cw_site_heap s e c l) (pred (length (cw_site_heap s e c l))) st1 = Some st2 /\
                            cw_base_closes st2 = 2 /\ cw_flags st2 = [])).
Proof. exact (cw_sites_ok_sound stack_sites (eq_refl true)). Qed.
Print Assumptions C10_every_source_site_closes_its_transport.

(* UDPProxy.Close against the goroutines of UDPProxy.Run (Model/UdpLoop.v; repaired F-C10d), for EVERY
   schedule of loop / readers / the two halves of Close / peers closing connections and every outcome of
   GetWorkConnFromPool: once Close has returned and the loop has ended no connection the proxy was ever
   given is open; after the first half of Close the loop's next step is its last; a connection fetched
   while the proxy was being closed is closed on the spot *)
Theorem C10_udp_close_leaves_no_connection_open : forall sched,
  let s := urun true sched u_init in
  u_close s = CDone -> u_loop s = LDone -> u_open s = [].
Proof. exact udp_close_leaves_no_connection_open. Qed.
Print Assumptions C10_udp_close_leaves_no_connection_open.

Theorem C10_udp_loop_ends_after_close : forall sched,
  let s := urun true sched u_init in
  u_close s <> CIdle -> u_loop s <> LDone -> exists a, u_loop (ustep true s a) = LDone.
Proof. exact udp_loop_ends_after_close. Qed.
Print Assumptions C10_udp_loop_ends_after_close.

Theorem C10_udp_fetched_during_close_is_closed : forall sched c,
  let s := urun true sched u_init in
  u_loop s = LGot c -> u_close s <> CIdle -> ~ In c (u_open (ustep true s AStore)) /\ u_loop (ustep true s AStore) = LDone.
Proof. exact udp_fetched_during_close_is_closed. Qed.
Print Assumptions C10_udp_fetched_during_close_is_closed.

(* the Close order before the repair: the schedule of F-C10d (driver udprace replays it on the real server)
   leaves a connection open although Close has returned and the loop has ended *)
Theorem C10_udp_old_close_order_refuted :
  let s := urun false u_witness u_init in
  u_close s = CDone /\ u_loop s = LDone /\ u_open s = [1%nat].
Proof. exact udp_old_close_order_refuted. Qed.
Print Assumptions C10_udp_old_close_order_refuted.

(* the helpers the model mirrors are, in TODAY's source, what they were when the model was written: translator unit
   t10rel regenerates gen/GenRelease.v (effect digests: table writes, deletes, calls, defers, guards in source
   order; renames, comments and log texts do not matter) and this reflective obligation compares it with the
   digests pinned in Proofs/RelMirror.v beside the model function each one is mirrored by.  Routers.Del that also
   deletes the domain entry, an stcp / sudp Run that closes on its error path, an xtcp Close without the
   synchronous CloseClient, a configured name that is not the wire name: each makes this theorem fail *)
Theorem C10_helpers_are_what_the_model_mirrors : rel_check rel_pinned rel_funcs = true.
Proof. vm_compute. reflexivity. Qed.
Print Assumptions C10_helpers_are_what_the_model_mirrors.

(* the shapes before the two repairs never reached the transport (what regress/revert_8f52e6b and
   revert_ff68771 restore) *)
Theorem C10_old_closenotify_never_closes : forall k,
  exists st, cw_close_n k cw_old_closenotify 1%nat cw_init = Some st /\ cw_base_closes st = 0.
Proof. exact cw_old_closenotify_never_closes. Qed.
Print Assumptions C10_old_closenotify_never_closes.

(* ---------- the hypotheses are satisfiable: a concrete non-trivial history ---------- *)
Local Open Scope string_scope.
Definition ex_req (t : ptype) (n : string) (port : Z) (doms : list string) : req :=
  {| q_type := t; q_name := n; q_port := port; q_group := ""; q_gkey := ""; q_domains := doms; q_locs := []; q_user := "";
     q_cred := ""; q_choice := None; q_lok := true; q_addok := true |}.

Definition ex_ops : list sop :=
  [ SLogin 1 0; SNewProxy 1 (ex_req TTcp "a" 21001 []); SNewProxy 1 (ex_req THttp "h" 0 ["x.test"; "y.test"]);
    SLogin 2 0; SNewProxy 2 (ex_req THttp "g" 0 ["z.test"; "y.test"]);      (* fails at the second domain *)
    SNewProxy 2 (ex_req TStcp "v" 0 []); SCloseProxy 1 "a"; SEnd 2 CDrop ].

Example C10_example_reachable :
  exists s, sr_run 0 5 ex_ops (sr_new [(21000, 21003, 0)]) = Some s /\ Forall group_free_op ex_ops /\
            map fst (sr_names s) = ["h"] /\ nlen (sr_res s) = 2.
Proof. eexists. split; [vm_compute; reflexivity|]. split; [repeat constructor|split; reflexivity]. Qed.
