from vlib import Check

PID = "C06"
GROUP_KEY = "server/group/http.go:HTTPGroup.Register-route-without-registration-id"

MANIFEST = dict(
    text="Machine-checked theorems (Coq 8.16.1) over an executable model of pkg/util/vhost/router.go (per-domain, per-user slices "
         "re-sorted descending by location, first HasPrefix hit), of the getVhost/getListener walk (exact host, wildcard walk, '*', "
         "at each step the request's user then ''), of CanonicalHost/SplitHostPort and of the HTTP layer with its backend connection "
         "pool (pool key incl. registration id, idle reuse before dial, in-flight connections across Register/UnRegister). Central "
         "theorem: for ALL histories get_vhost (run hist) = best_match (abs (run hist)) against a mechanism-free specification, with one "
         "corollary per clause of the property text; at the HTTP layer every request of every history reaches exactly the owner of "
         "the current most specific route, whatever the Transport reuses. The model is tied to the code on every run by differential "
         "drivers on the real Routers, HTTPReverseProxy, HTTPSMuxer, HTTPConnectTCPMuxer and ServeHTTP with labelled backends.",
    note="Trusted: Coq kernel+VM; harness transcription. Observed, not proved: net/http request parsing, crypto/tls ClientHello parsing, "
         "http.Transport's pool (its reuse decisions enter the model as an oracle), h2c framing, non-ASCII host names (model lower-cases "
         "ASCII only). Routes registered through server/group/http.go get no registration id (known finding, see KNOWN_FINDINGS/design/C06.md).",
    technique="Coq proof (invariant + refinement to a minimal spec, all histories) + differential correspondence via vm_compute + spec-only monitor on implementation traces",
    design="4/C06")


def q(tier, quick, thorough):
    return quick if tier == "quick" else thorough


def need(c, driver, counters, names):
    """sanity: the branches the property names must have been reached by the generated cases"""
    for n in names:
        if counters.get(n, 0) <= 0:
            c.broken.append(dict(kind="coverage", name="driver %s never reached branch %s" % (driver, n),
                                 detail="counter %s = %s" % (n, counters.get(n))))


def recipe(c: Check):
    c.build(["Properties/C06.vo", "Corr/C06.vo"], harness=["c06"])
    c.obligations("C06")
    st = c.run_driver("router", q(c.tier, 240, 6000), shards=q(c.tier, 8, 16))
    if st:
        need(c, "router", c.cov.get("coq_counters", {}).get("router", {}),
             ["NCONFLICT", "NREFUSED", "NEXACT", "NWILDCARD", "NCATCHALL", "NUSERSPECIFIC", "NUSERFALLBACK", "NLONGLOC"])
    st = c.run_driver("router_http", q(c.tier, 60, 1500), shards=q(c.tier, 8, 16), timeout=1500)
    if st:
        need(c, "router_http", c.cov.get("coq_counters", {}).get("router_http", {}),
             ["NREUSED", "NNOTFOUND", "NH2C", "NSTALE"])
    # routes registered through server/group/http.go: the model reproduces a genuine defect
    # (theorem C06_group_reregistered_route_reaches_old_owner_refuted); the driver replays the witness
    # on the real code.  M compares model and implementation only; NGROUPVIOL counts histories on which
    # the implementation violates the property.
    st = c.run_driver("group", q(c.tier, 30, 600), shards=q(c.tier, 4, 8), timeout=900)
    if st:
        nv = c.cov.get("coq_counters", {}).get("group", {}).get("NGROUPVIOL", 0)
        c.cov["group_route_finding_reproduced"] = nv
        if nv > 0:
            if any(k["key"] == GROUP_KEY for k in c.known_findings() if k["property"] == PID):
                c.failures.append(dict(key=GROUP_KEY, driver="group", case=st.get("witness_case"),
                                       what="a route re-registered through a load-balancing group reaches the former member's backend over a reused connection"))
            else:
                c.notes.append("FINDING (reported to the lead, not yet in KNOWN_FINDINGS.txt): %s reproduced on %d group histories; witness: %s"
                               % (GROUP_KEY, nv, st.get("witness_case")))
                c.say("FINDING-CANDIDATE property=C06 %s reproduced on %d histories (proposed-fixes/C06_group_route_pool_key.diff)" % (GROUP_KEY, nv))
        else:
            c.notes.append("the group-route finding (%s) did not reproduce on this run" % GROUP_KEY)
    return c.finish(
        rule="router driver: random histories (8-30 ops) of Add/Del/Get over an adversarial alphabet (shared suffixes, nested wildcards, "
             "'*', mixed case, locations ''//a//ab//a/b, users) on real vhost.Routers + HTTPReverseProxy.Register/UnRegister/GetRouteConfig, "
             "and on real HTTPSMuxer / HTTPConnectTCPMuxer over loopback (which Listener accepts a ClientHello / CONNECT, or 404 / failed "
             "handshake); CanonicalHost on adversarial strings. router_http driver: real HTTPReverseProxy.ServeHTTP behind a listener, "
             "labelled blocking backends, keep-alive and h2c client connections, register/unregister/re-register between and during "
             "requests; observable = which backend received the request. Every observation is compared with the model (Model/Router.v, "
             "Model/HttpPool.v) and, separately, with the specification alone (C06_holds). distinct = distinct case text; non-trivial = "
             "history with >= 3 operations / non-fixed host string",
        assumptions=["http.Transport's connection reuse is an oracle (observed per request: was CreateConnFn called); the theorems quantify over all its choices",
                     "net/http and crypto/tls parsing of Host / request line / SNI are exercised by the drivers, not modelled",
                     "host names are ASCII (the model's lower-casing is ASCII-only; Go's strings.ToLower also maps non-ASCII letters)"])
