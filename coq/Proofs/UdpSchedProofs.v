(* C03: proofs about Model/UdpSched.v (udp.Forwarder at lock granularity). *)
From FRP Require Import Model.UdpSched Proofs.FrameProofs Proofs.MsgObjProofs Proofs.Base64Proofs Proofs.UdpProofs.
From Coq Require Import Lia.
Open Scope Z_scope.

(* no visited state has the writer's lookup..Write section overlapping the exit section
   (deadline error .. Close) of the reader of the same socket *)
Fixpoint gsafe (c : ucfg) (st : gst) (sched : list gtid) : bool :=
  match sched with
  | [] => negb (goverlap st)
  | t :: r => negb (goverlap st) && gsafe c (fst (gstep c st t)) r
  end.

(* a closed socket's reader has finished *)
Definition closed_done (st : gst) : Prop :=
  forall s, In s (g_closed st) -> exists ra, grd_get s (g_readers st) = Some (ra, GRDone).

Lemma grd_get_set_other s s' pc l : s <> s' -> grd_get s (grd_set s' pc l) = grd_get s l.
Proof.
  intros Hne. induction l as [|[s2 [ra pc2]] l IH]; cbn [grd_set grd_get]; [reflexivity|].
  destruct (N.eqb_spec s' s2) as [->|Hn2]; cbn [grd_get].
  - destruct (N.eqb_spec s s2); [congruence|reflexivity].
  - destruct (N.eqb_spec s s2); [reflexivity|exact IH].
Qed.

Lemma grd_get_set_same s pc l ra pc0 : grd_get s l = Some (ra, pc0) -> grd_get s (grd_set s pc l) = Some (ra, pc).
Proof.
  induction l as [|[s2 [ra2 pc2]] l IH]; cbn [grd_set grd_get]; [discriminate|].
  destruct (N.eqb_spec s s2) as [->|Hn].
  - intros [= -> ->]. cbn [grd_get]. now rewrite N.eqb_refl.
  - intros H. cbn [grd_get]. destruct (N.eqb_spec s s2); [congruence|auto].
Qed.

Lemma gis_closed_In s st : gis_closed s st = true <-> In s (g_closed st).
Proof.
  unfold gis_closed. rewrite existsb_exists. split.
  - intros (x & Hx & E). apply N.eqb_eq in E. now subst.
  - intros H. exists s. split; [exact H|apply N.eqb_refl].
Qed.

(* setting the pc of a reader that is not finished keeps [closed_done] *)
Lemma closed_done_set st s pc ra pc0 rd :
  closed_done st -> grd_get s (g_readers st) = Some (ra, pc0) -> pc0 <> GRDone ->
  rd = grd_set s pc (g_readers st) ->
  forall s0, In s0 (g_closed st) -> exists ra0, grd_get s0 rd = Some (ra0, GRDone).
Proof.
  intros Hc Hg Hne -> s0 Hin. destruct (Hc s0 Hin) as (ra0 & H0).
  destruct (N.eq_dec s0 s) as [->|Hn]; [rewrite Hg in H0; congruence|].
  exists ra0. now rewrite grd_get_set_other.
Qed.

Lemma closed_done_step c st t :
  closed_done st -> goverlap st = false -> closed_done (fst (gstep c st t)).
Proof.
  intros Hc Hov. destruct t as [|s|s|s d]; cbn [gstep].
  - (* writer *)
    destruct (g_wpc st) as [|p buf|p buf s fresh|p buf s fresh] eqn:Ew.
    + destruct (g_readq st) as [|p q]; [exact Hc|]. destruct (get_content p); [|exact Hc].
      destruct (g_lock st); exact Hc.
    + destruct (umap_get _ _); exact Hc.
    + exact Hc.
    + unfold goverlap in Hov. rewrite Ew in Hov. unfold gr_exiting in Hov.
      assert (Hns : ~ In s (g_closed st)).
      { intros Hin. destruct (Hc s Hin) as (ra & Hg). rewrite Hg in Hov. discriminate. }
      assert (Hgoal : closed_done (gset st (g_readq st) (g_map st)
                 (if fresh then (s, (up_raddr p, GRReading)) :: g_readers st else g_readers st)
                 (g_closed st) (g_lock st) GWIdle (g_next st))).
      { intros s0 Hin. cbn [gset g_closed g_readers] in *. destruct (Hc s0 Hin) as (ra0 & H0).
        exists ra0. destruct fresh; [|exact H0]. cbn [grd_get].
        destruct (N.eqb_spec s0 s) as [->|]; [contradiction|exact H0]. }
      destruct (gis_closed s st); exact Hgoal.
  - (* reader exit steps *)
    destruct (grd_get s (g_readers st)) as [[ra pc]|] eqn:Eg; [|exact Hc].
    destruct pc; try exact Hc.
    + destruct (g_lock st); [exact Hc|]. intros s0 Hin. cbn [gset fst g_closed g_readers] in *.
      eapply closed_done_set; eauto. discriminate.
    + intros s0 Hin. cbn [gset fst g_closed g_readers] in *. eapply closed_done_set; eauto. discriminate.
    + intros s0 Hin. cbn [gset fst g_closed g_readers] in *. eapply closed_done_set; eauto. discriminate.
    + intros s0 Hin. cbn [gset fst g_closed g_readers] in *. destruct Hin as [<-|Hin].
      * exists ra. eapply grd_get_set_same; eauto.
      * eapply closed_done_set; eauto. discriminate.
  - (* deadline *)
    destruct (grd_get s (g_readers st)) as [[ra pc]|] eqn:Eg; [|exact Hc].
    destruct pc; try exact Hc.
    intros s0 Hin. cbn [gset fst g_closed g_readers] in *. eapply closed_done_set; eauto. discriminate.
  - (* reply *)
    destruct (grd_get s (g_readers st)) as [[ra pc]|]; [|exact Hc].
    destruct pc; try exact Hc. destruct (gis_closed s st); exact Hc.
Qed.

Lemma no_loss_step c st t :
  closed_done st -> goverlap st = false -> forallb (fun o => negb (gout_lost o)) (snd (gstep c st t)) = true.
Proof.
  intros Hc Hov. destruct t as [|s|s|s d]; cbn [gstep].
  - destruct (g_wpc st) as [|p buf|p buf s fresh|p buf s fresh] eqn:Ew.
    + destruct (g_readq st) as [|p q]; [reflexivity|]. destruct (get_content p); [|reflexivity].
      destruct (g_lock st); reflexivity.
    + destruct (umap_get _ _); reflexivity.
    + reflexivity.
    + destruct (gis_closed s st) eqn:Ecl; [|reflexivity]. exfalso.
      apply gis_closed_In in Ecl. destruct (Hc s Ecl) as (ra & Hg).
      unfold goverlap in Hov. rewrite Ew in Hov. unfold gr_exiting in Hov. rewrite Hg in Hov. discriminate.
  - destruct (grd_get s (g_readers st)) as [[ra pc]|]; [|reflexivity].
    destruct pc; try reflexivity. destruct (g_lock st); reflexivity.
  - destruct (grd_get s (g_readers st)) as [[ra pc]|]; [|reflexivity]. destruct pc; reflexivity.
  - destruct (grd_get s (g_readers st)) as [[ra pc]|]; [|reflexivity].
    destruct pc; try reflexivity. destruct (gis_closed s st); reflexivity.
Qed.

(* PARTIAL: on every schedule whose visited states never have the two critical sections overlap,
   no datagram is lost by the Forwarder (any number of users, deadlines, replies) *)
Theorem no_loss_without_overlap c : forall sched st,
  closed_done st -> gsafe c st sched = true ->
  forallb (fun o => negb (gout_lost o)) (snd (grun c st sched)) = true.
Proof.
  induction sched as [|t r IH]; intros st Hc Hs; cbn [grun gsafe] in *; [reflexivity|].
  apply andb_true_iff in Hs. destruct Hs as [Hov Hs]. apply negb_true_iff in Hov.
  pose proof (closed_done_step c st t Hc Hov) as Hc'. pose proof (no_loss_step c st t Hc Hov) as Hn.
  destruct (gstep c st t) as [st1 o1]. cbn [fst snd] in *.
  specialize (IH st1 Hc' Hs). destruct (grun c st1 r) as [st2 o2]. cbn [snd] in *.
  rewrite forallb_app. now rewrite Hn, IH.
Qed.

Lemma closed_done_init q : closed_done (ginit q).
Proof. intros s []. Qed.

(* REFUTED: the witness.  User a sends "one" (socket 0 is created, written to, its reader starts),
   then "two": the loop looks socket 0 up and releases the mutex; the reader's 30 s deadline fires,
   it locks, deletes the entry, unlocks and closes; the loop's Write hits the closed socket. *)
Definition race_user : uaddr := {| ua_ip := bs "127.0.3.10"; ua_port := 40001; ua_zone := [] |}.
Definition race_queue : list upacket :=
  [new_udp_packet (bs "one") None (Some race_user); new_udp_packet (bs "two") None (Some race_user)].
Definition race_sched : list gtid :=
  [TWriter; TWriter; TWriter; TWriter;            (* "one": lock, create 0, unlock, write + go reader *)
   TWriter; TWriter; TWriter;                     (* "two": lock, lookup -> 0, unlock *)
   TDeadline 0; TReader 0; TReader 0; TReader 0; TReader 0;   (* deadline; lock; delete; unlock; close *)
   TWriter].                                      (* Write on the closed socket *)

Lemma race_witness :
  snd (grun {| uc_buf := 1500 |} (ginit race_queue) race_sched) =
  [GNew 0 (Some race_user); GWrote 0 (Some race_user) (bs "one"); GClosed 0; GWriteErr 0 (Some race_user) (bs "two")]
  /\ gsafe {| uc_buf := 1500 |} (ginit race_queue) race_sched = false.
Proof. vm_compute. split; reflexivity. Qed.

(* the second window: the deadline error has been returned but the entry is not yet deleted; the
   datagram is written to the dying socket (delivered), the reply to it is lost *)
Definition race_sched2 : list gtid :=
  [TWriter; TWriter; TWriter; TWriter; TDeadline 0;
   TWriter; TWriter; TWriter; TWriter;
   TReader 0; TReader 0; TReader 0; TReader 0; TReply 0 (bs "TWO")].

Lemma race_witness2 :
  snd (grun {| uc_buf := 1500 |} (ginit race_queue) race_sched2) =
  [GNew 0 (Some race_user); GWrote 0 (Some race_user) (bs "one"); GWrote 0 (Some race_user) (bs "two");
   GClosed 0; GLate 0 (bs "TWO")].
Proof. vm_compute. reflexivity. Qed.
