package main

// Sub-driver "nullcrash" (run in a sacrificial child process by driver "plugins"): an in-process
// frps with one HTTP plugin registered for Login that answers
//     {"reject":false,"unchange":false,"content":null}
// A scripted peer logs in.  The manager's `content = retContent.(*LoginContent)` then asserts a nil
// interface: the panic is in a connection goroutine without recover, so the whole server dies.
// The child prints ALIVE and exits 0 if the server survived.

import (
	"bytes"
	"encoding/json"
	"fmt"
	"os"
	"os/exec"
	"strings"
	"time"

	"verifharness/hx"
)

func init() { drivers["nullcrash"] = runNullCrash }

func runNullCrash(cfg *runCfg) error {
	hx.Quiet()
	rec := &recorder{}
	st, err := newHTTPStubAt(1, 31, rec)
	if err != nil {
		return err
	}
	op := cfg.Extra
	if op == "" {
		op = "Login"
	}
	st.set(&script{http: true, status: 200, body: `{"reject":false,"unchange":false,"content":null}`})
	st.mu.Lock()
	st.onlyOp, st.token = op, "crash"
	st.mu.Unlock()
	srv, err := startFromConfigFile("127.0.15.2", []cfgEntry{{name: "p1", addr: "http://" + st.addr, path: "/handler/crash", ops: []string{op}}}, false, false)
	if err != nil {
		return err
	}
	g := newGen(1)
	peer, resp, _, _ := sysLogin(srv, baseLogin(g, 1, true))
	time.Sleep(300 * time.Millisecond)
	refused := peer == nil && resp != nil && resp.Error != ""
	// the server must still serve a login that no plugin objects to
	st.set(&script{http: true, status: 200, body: `{"reject":false,"unchange":true}`})
	p2, _, _, _ := sysLogin(srv, baseLogin(g, 2, true))
	fmt.Printf("ALIVE refused=%v serves=%v\n", refused, p2 != nil)
	return nil
}

// nullContentCrashProbe re-executes this binary with the nullcrash sub-driver.
func nullContentCrashProbe() (crashed bool, detail string) {
	cmd := exec.Command(os.Args[0], "nullcrash", "-extra", "Login")
	var out bytes.Buffer
	cmd.Stdout, cmd.Stderr = &out, &out
	done := make(chan error, 1)
	if err := cmd.Start(); err != nil {
		return false, "could not start child: " + err.Error()
	}
	go func() { done <- cmd.Wait() }()
	select {
	case err := <-done:
		s := out.String()
		if err != nil && strings.Contains(s, "interface conversion") {
			i := strings.Index(s, "panic:")
			if i < 0 {
				i = 0
			}
			e := i + 400
			if e > len(s) {
				e = len(s)
			}
			return true, s[i:e]
		}
		if strings.Contains(s, "ALIVE refused=true serves=true") {
			return false, "server survived, the login was refused, the next login was served"
		}
		if strings.Contains(s, "ALIVE") {
			return true, "server survived but: " + strings.TrimSpace(s)
		}
		return false, "child ended without verdict: " + s[:min(len(s), 300)]
	case <-time.After(15 * time.Second):
		_ = cmd.Process.Kill()
		return false, "child timed out"
	}
}

// ---- level 3 runs in a sacrificial child: a panic in a goroutine of the in-process frps ends the
// process, and the parent must survive to report it together with the other levels' cases.

func init() { drivers["syschild"] = runSysChild }

type sysResult struct {
	Cases []string            `json:"cases"`
	Dist  map[string]int      `json:"dist"`
	Fails []map[string]string `json:"fails"`
}

func runSysChild(cfg *runCfg) error {
	hx.Quiet()
	g := newGen(cfg.Seed*7919 + 15)
	cases, dist, fails, err := runSys(cfg, g, cfg.N)
	if err != nil {
		return err
	}
	b, _ := json.Marshal(sysResult{cases, dist, fails})
	return os.WriteFile(cfg.Out, b, 0o644)
}

func runSysInChild(cfg *runCfg, n int) ([]string, map[string]int, []map[string]string, error) {
	if n <= 0 {
		return nil, map[string]int{}, nil, nil
	}
	tmp, err := os.CreateTemp("", "c15sys*.json")
	if err != nil {
		return nil, nil, nil, err
	}
	tmp.Close()
	defer os.Remove(tmp.Name())
	args := []string{"syschild", "-seed", fmt.Sprint(cfg.Seed), "-n", fmt.Sprint(n), "-out", tmp.Name(), "-tier", cfg.Tier}
	cmd := exec.Command(os.Args[0], args...)
	var out bytes.Buffer
	cmd.Stdout, cmd.Stderr = &out, &out
	runErr := cmd.Run()
	var res sysResult
	if runErr == nil {
		b, e := os.ReadFile(tmp.Name())
		if e == nil {
			e = json.Unmarshal(b, &res)
		}
		if e != nil {
			return nil, nil, nil, fmt.Errorf("syschild result: %v", e)
		}
		return res.Cases, res.Dist, res.Fails, nil
	}
	s := out.String()
	if i := strings.Index(s, "panic:"); i >= 0 || strings.Contains(s, "fatal error:") {
		if i < 0 {
			i = strings.Index(s, "fatal error:")
		}
		e := i + 900
		if e > len(s) {
			e = len(s)
		}
		return nil, map[string]int{"sys-child-crashed": 1}, []map[string]string{{
			"key":  "impl:frps-crashed-under-scripted-plugin-replies",
			"what": "the in-process frps of the system level died: " + s[i:e],
			"case": "rerun: work/h_c15 " + strings.Join(args, " "),
		}}, nil
	}
	return nil, nil, nil, fmt.Errorf("syschild failed: %v: %s", runErr, s[max(0, len(s)-600):])
}
