// Correspondence drivers of property C06 (virtual-host routing picks the most specific route).
package main

import (
	"verifharness/hx"

)

var drivers = map[string]hx.DriverFn{}

func main() {
	hx.Quiet()
	hx.Main(drivers)
}
