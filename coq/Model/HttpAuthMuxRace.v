(* C07 — vhost.Muxer.handle as steps, with listener close / register / accept as concurrent actions
   (pkg/util/vhost/vhost.go: Muxer.handle, Listener.Accept, Listener.Close, Muxer.Listen).
   handle does ONE lookup, the success hook, the credential check against the listener found, and then the blocking
   hand-over `l.accept <- c` to that same listener; if the listener is closed in the meantime the send panics, the panic
   is recovered and the connection is closed.  Model only. *)
From FRP Require Export Model.HttpAuth.
Open Scope Z_scope.

Inductive ha_mconn :=
| MCNew (rq : ha_req)                         (* accepted by the muxer, nothing decided yet *)
| MCHandover (l : ha_route) (ok_sent : bool)  (* looked up, hook done, credentials checked against l; blocked in l.accept <- c *)
| MCDelivered (l : ha_route)                  (* l's owner took it from l.accept *)
| MCClosed                                    (* hand-over failed: listener closed; connection closed *)
| MCRefused (o : ha_mux_out).                 (* closed / 404 / 407 by handle itself *)

Inductive ha_mact :=
| MAHandle                  (* the muxer goroutine runs handle up to the blocking send *)
| MAAccept (id : Z)         (* the owner of listener id receives from its accept channel *)
| MACloseListener (id : Z)  (* Listener.Close: route removed, accept channel closed *)
| MARegister (r : ha_route).  (* Muxer.Listen *)

Record ha_mstate := { ms_tbl : list ha_route; ms_conn : ha_mconn }.

Definition ha_mrace_conflict (tbl : list ha_route) (r : ha_route) : bool :=
  existsb (fun x => bytes_eqb (lower (rt_domain x)) (lower (rt_domain r)) && bytes_eqb (rt_location x) (rt_location r) &&
                    bytes_eqb (rt_by_user x) (rt_by_user r)) tbl.

Definition ha_mrace_step (canon : bytes -> bytes) (pt : bool) (s : ha_mstate) (a : ha_mact) : ha_mstate :=
  match a with
  | MAHandle =>
      match ms_conn s with
      | MCNew rq =>
          match ha_mux_handle (ha_tbl_get (ms_tbl s)) canon pt rq with
          | MForward l ok => {| ms_tbl := ms_tbl s; ms_conn := MCHandover l ok |}
          | o => {| ms_tbl := ms_tbl s; ms_conn := MCRefused o |}
          end
      | _ => s
      end
  | MAAccept id =>
      match ms_conn s with
      | MCHandover l _ => if rt_id l =? id then {| ms_tbl := ms_tbl s; ms_conn := MCDelivered l |} else s
      | _ => s
      end
  | MACloseListener id =>
      {| ms_tbl := filter (fun r => negb (rt_id r =? id)) (ms_tbl s);
         ms_conn := match ms_conn s with
                    | MCHandover l _ => if rt_id l =? id then MCClosed else ms_conn s   (* send on closed channel: recovered, closed *)
                    | c => c
                    end |}
  | MARegister r =>
      if ha_mrace_conflict (ms_tbl s) r then s else {| ms_tbl := ms_tbl s ++ [r]; ms_conn := ms_conn s |}
  end.

Definition ha_mrace_run (canon : bytes -> bytes) (pt : bool) (s : ha_mstate) (sched : list ha_mact) : ha_mstate :=
  fold_left (ha_mrace_step canon pt) sched s.
