(* C17: extraction of the frame codec, the object codec and the correspondence check to OCaml.
   Only ExtrOcamlBasic (bool, option, unit, list, prod, sumbool -> the OCaml types of the same name);
   Z, N, positive, nat, byte, ascii, string stay extracted inductives; no Extract Constant, no
   Extract Inductive beyond ExtrOcamlBasic.  Compiled OUTSIDE coq/ by lib/recipes/c17.py
   (cwd = work/C17/ocaml), so that the generated files land there. *)
From FRP Require Import Corr.C17.
From Coq Require Import ExtrOcamlBasic.
Extraction Language OCaml.
Set Extraction Optimize.
Extraction "c17model.ml" check_case is_msg byte_of_Z Z_of_byte.
