package main

import (
	"bytes"
	"crypto/tls"
	"encoding/binary"
	"fmt"
	"io"
	"net"
	"sync"
	"time"

	libnet "github.com/fatedier/golib/net"
	"golang.org/x/net/websocket"

	v1 "github.com/fatedier/frp/pkg/config/v1"
	"github.com/fatedier/frp/pkg/msg"
	"github.com/fatedier/frp/pkg/transport"
	netpkg "github.com/fatedier/frp/pkg/util/net"
	"github.com/fatedier/frp/pkg/util/util"
	"verifharness/hx"
)

// captureClientHello returns the bytes a crypto/tls client writes first.
func captureClientHello() []byte {
	a, b := net.Pipe()
	go func() {
		c := tls.Client(a, &tls.Config{InsecureSkipVerify: true})
		_ = c.SetDeadline(time.Now().Add(300 * time.Millisecond))
		_ = c.Handshake()
		a.Close()
	}()
	hdr := make([]byte, 5)
	_ = b.SetReadDeadline(time.Now().Add(time.Second))
	if _, err := io.ReadFull(b, hdr); err != nil {
		return nil
	}
	body := make([]byte, int(hdr[3])<<8|int(hdr[4]))
	if _, err := io.ReadFull(b, body); err != nil {
		return nil
	}
	b.Close()
	return append(hdr, body...)
}

type prefixConn struct {
	net.Conn
	prefix []byte
	sent   bool
}

func (p *prefixConn) Write(b []byte) (int, error) {
	if !p.sent {
		p.sent = true
		if len(p.prefix) > 0 {
			if _, err := p.Conn.Write(p.prefix); err != nil {
				return 0, err
			}
		}
	}
	return p.Conn.Write(b)
}

func frame(t byte, body string) []byte {
	var b bytes.Buffer
	b.WriteByte(t)
	_ = binary.Write(&b, binary.BigEndian, int64(len(body)))
	b.WriteString(body)
	return b.Bytes()
}

func msgBytes(m msg.Message) []byte {
	var b bytes.Buffer
	_ = msg.WriteMsg(&b, m)
	return b.Bytes()
}

// wsDial: a raw websocket client on frps' websocket path; what is written afterwards are the first
// bytes the server-side sniff sees on the websocket listener.
func wsDial(s *hx.Server) (net.Conn, error) {
	addr := fmt.Sprintf("%s:%d", s.Addr, s.Port)
	raw, err := net.DialTimeout("tcp", addr, 2*time.Second)
	if err != nil {
		return nil, err
	}
	wc, err := websocket.NewConfig("ws://"+addr+netpkg.FrpWebsocketPath, "http://"+addr)
	if err != nil {
		raw.Close()
		return nil, err
	}
	_ = raw.SetDeadline(time.Now().Add(3 * time.Second))
	ws, err := websocket.NewClient(wc, raw)
	if err != nil {
		raw.Close()
		return nil, err
	}
	_ = raw.SetDeadline(time.Time{})
	ws.PayloadType = websocket.BinaryFrame
	return ws, nil
}

func runSniff(cfg *hx.RunCfg) error {
	hx.Quiet()
	cf := &hx.CaseFile{Imports: caseImports, Typ: "case", Tail: caseTail +
		"Definition NSYSTLS := Eval vm_compute in count_if (fun c => match c with CSniffSys _ _ 0 => true | _ => false end) cases.\nPrint NSYSTLS.\n" +
		"Definition NSYSPROTO := Eval vm_compute in count_if (fun c => match c with CSniffSys _ _ 1 => true | _ => false end) cases.\nPrint NSYSPROTO.\n" +
		"Definition NWSTLS := Eval vm_compute in count_if (fun c => match c with CSniffSysL 1 _ _ 0 => true | _ => false end) cases.\nPrint NWSTLS.\n" +
		"Definition NWSPROTO := Eval vm_compute in count_if (fun c => match c with CSniffSysL 1 false _ 1 => true | _ => false end) cases.\nPrint NWSPROTO.\n" +
		"Definition NKCPTLS := Eval vm_compute in count_if (fun c => match c with CSniffSysL 2 _ _ 0 => true | _ => false end) cases.\nPrint NKCPTLS.\n" +
		"Definition NKCPPROTO := Eval vm_compute in count_if (fun c => match c with CSniffSysL 2 false _ 1 => true | _ => false end) cases.\nPrint NKCPPROTO.\n" +
		"Definition NFNREJECT := Eval vm_compute in count_if (fun c => match c with CSniffFn true _ false _ true _ => true | _ => false end) cases.\nPrint NFNREJECT.\n"}
	implFail := []map[string]string{}
	dist := map[string]int{}
	tlsCfg, err := transport.NewServerTLSConfig("", "", "")
	if err != nil {
		return err
	}
	// ---- function level: the real CheckAndEnableTLSServerConnWithTimeout, every first byte ----
	for _, force := range []bool{false, true} {
		for b := 0; b < 256; b++ {
			srv, cli := net.Pipe()
			type res struct {
				out          net.Conn
				isTLS, cust  bool
				err          error
			}
			ch := make(chan res, 1)
			go func() {
				o, t, c, e := netpkg.CheckAndEnableTLSServerConnWithTimeout(srv, tlsCfg, force, 2*time.Second)
				ch <- res{o, t, c, e}
			}()
			kept := -1
			hsDone := make(chan error, 1)
			switch b {
			case 0x16:
				go func() {
					c := tls.Client(cli, &tls.Config{InsecureSkipVerify: true})
					_ = c.SetDeadline(time.Now().Add(3 * time.Second))
					hsDone <- c.Handshake()
				}()
			case 0x17:
				go func() {
					c := tls.Client(&prefixConn{Conn: cli, prefix: []byte{0x17}}, &tls.Config{InsecureSkipVerify: true})
					_ = c.SetDeadline(time.Now().Add(3 * time.Second))
					hsDone <- c.Handshake()
				}()
			default:
				go func() {
					_ = cli.SetWriteDeadline(time.Now().Add(2 * time.Second))
					_, _ = cli.Write([]byte{byte(b), 'T', 'A', 'I', 'L'})
				}()
			}
			r := <-ch
			if r.err == nil && r.out != nil {
				if r.isTLS {
					tc, ok := r.out.(*tls.Conn)
					if ok {
						_ = tc.SetDeadline(time.Now().Add(3 * time.Second))
						herr := tc.Handshake()
						cerr := <-hsDone
						if herr == nil && cerr == nil {
							// the handshake completed: the TLS server saw a well-formed ClientHello, i.e. the byte
							// was replayed (0x16) resp. consumed (custom head byte)
							if b == 0x16 {
								kept = 1
							} else {
								kept = 0
							}
						} else {
							if b == 0x16 {
								kept = 0
							} else {
								kept = 1
							}
						}
					}
				} else {
					one := make([]byte, 1)
					_ = r.out.SetReadDeadline(time.Now().Add(2 * time.Second))
					if _, err := io.ReadFull(r.out, one); err == nil && one[0] == byte(b) {
						kept = 1
					} else {
						kept = 0
					}
				}
			}
			srv.Close()
			cli.Close()
			cf.Cases = append(cf.Cases, fmt.Sprintf("CSniffFn %s %d %s %s %s %s", hx.Bool(force), b, hx.Bool(r.isTLS), hx.Bool(r.cust), hx.Bool(r.err != nil), hx.Z(int64(kept))))
			dist[fmt.Sprintf("fn force=%v tls=%v custom=%v err=%v", force, r.isTLS, r.cust, r.err != nil)]++
		}
		// peer closes before sending anything
		srv, cli := net.Pipe()
		go cli.Close()
		_, _, _, e := netpkg.CheckAndEnableTLSServerConnWithTimeout(srv, tlsCfg, force, time.Second)
		srv.Close()
		cf.Cases = append(cf.Cases, fmt.Sprintf("CSniffEof %s %s", hx.Bool(force), hx.Bool(e != nil)))
		// peer silent past the wait of the sniff, then speaking plain frp
		{
			srv, cli := net.Pipe()
			o, _, _, e := netpkg.CheckAndEnableTLSServerConnWithTimeout(srv, tlsCfg, force, 150*time.Millisecond)
			delivered := false
			if e == nil && o != nil {
				ts := time.Now().Unix()
				late := msgBytes(&msg.Login{Version: "0.61.0", PrivilegeKey: util.GetAuthKey(hx.DefaultToken, ts), Timestamp: ts})
				go func() {
					_ = cli.SetWriteDeadline(time.Now().Add(time.Second))
					_, _ = cli.Write(late)
				}()
				_ = o.SetReadDeadline(time.Now().Add(time.Second))
				if m, rerr := msg.ReadMsg(o); rerr == nil {
					_, delivered = m.(*msg.Login)
				}
			}
			srv.Close()
			cli.Close()
			cf.Cases = append(cf.Cases, fmt.Sprintf("CSniffSilent %s %s %s", hx.Bool(force), hx.Bool(e != nil), hx.Bool(delivered)))
			dist[fmt.Sprintf("fn silent force=%v err=%v delivered=%v", force, e != nil, delivered)]++
			if force && delivered {
				implFail = append(implFail, map[string]string{"key": "forced-sniff-passes-silent-peer",
					"what": "with tlsOnly=true the first-byte check returned a usable non-TLS connection for a peer that stayed silent past its wait; the peer's later clear-text Login was read from it",
					"case": "CheckAndEnableTLSServerConnWithTimeout(conn, cfg, tlsOnly=true, 150ms); peer silent for 150 ms, then a plain Login frame"})
			}
		}
	}

	// ---- system level: a running frps, forcing and not forcing ----
	hello := captureClientHello()
	if len(hello) == 0 || hello[0] != 0x16 {
		return fmt.Errorf("could not capture a ClientHello")
	}
	for _, force := range []bool{false, true} {
		kcpPort := hx.FreeUDPPort(addrServer)
		s, err := hx.StartServer(addrServer, func(c *v1.ServerConfig) { c.Transport.TLS.Force = force; c.KCPBindPort = kcpPort })
		if err != nil {
			return err
		}
		probe := func(b int) []byte {
			var payload []byte
			ts := time.Now().Unix()
			switch byte(b) {
			case 0x16:
				payload = hello
			case 0x17:
				payload = append([]byte{0x17}, hello...)
			case msg.TypeLogin:
				payload = msgBytes(&msg.Login{Version: "0.61.0", PrivilegeKey: util.GetAuthKey(hx.DefaultToken, ts), Timestamp: ts, RunID: fmt.Sprintf("sn%d%v", b, force)})
			case msg.TypeNewVisitorConn:
				payload = msgBytes(&msg.NewVisitorConn{ProxyName: "none", SignKey: "x", Timestamp: ts})
			case msg.TypeNewWorkConn:
				payload = msgBytes(&msg.NewWorkConn{RunID: "nobody", PrivilegeKey: util.GetAuthKey(hx.DefaultToken, ts), Timestamp: ts})
			default:
				payload = frame(byte(b), "{}")
				payload = append(payload, []byte("PADDINGPADDING")...)
			}
			return payload
		}
		classify := func(conn net.Conn, payload []byte, wait time.Duration) int {
			cls := 3
			_, _ = conn.Write(payload)
			one := make([]byte, 1)
			_ = conn.SetReadDeadline(time.Now().Add(wait))
			n, rerr := conn.Read(one)
			switch {
			case n == 1 && one[0] == 0x16:
				cls = 0
			case n == 1 && (one[0] == msg.TypeLoginResp || one[0] == msg.TypeNewVisitorConnResp):
				cls = 1
			case n == 1:
				cls = 4
			case rerr != nil:
				if ne, ok := rerr.(net.Error); ok && ne.Timeout() {
					cls = 3
				} else {
					cls = 2
				}
			}
			return cls
		}
		for b := 0; b < 256; b++ {
			payload := probe(b)
			conn, err := s.Dial()
			if err != nil {
				s.Close()
				return err
			}
			cls := classify(conn, payload, 3*time.Second)
			conn.Close()
			cf.Cases = append(cf.Cases, fmt.Sprintf("CSniffSys %s %d %d", hx.Bool(force), b, cls))
			dist[fmt.Sprintf("sys force=%v cls=%d", force, cls)]++
			if force && cls == 1 {
				implFail = append(implFail, map[string]string{"key": "forced-server-answered-plain-peer",
					"what": fmt.Sprintf("a server with transport.tls.force=true interpreted a protocol message from a peer without TLS (first byte %d) and answered it", b),
					"case": fmt.Sprintf("first byte %d (0x%02x) followed by %d bytes of a well-formed plain message to a forcing frps", b, b, len(payload)-1)})
			}
		}
		// ---- the same sweep through the websocket listener (raw websocket client, then the bytes) ----
		for b := 0; b < 256; b++ {
			payload := probe(b)
			ws, err := wsDial(s)
			if err != nil {
				s.Close()
				return fmt.Errorf("websocket dial: %v", err)
			}
			cls := classify(ws, payload, 3*time.Second)
			ws.Close()
			cf.Cases = append(cf.Cases, fmt.Sprintf("CSniffSysL 1 %s %d %d", hx.Bool(force), b, cls))
			dist[fmt.Sprintf("sys-websocket force=%v cls=%d", force, cls)]++
			if force && cls == 1 {
				implFail = append(implFail, map[string]string{"key": "forced-server-answered-plain-peer:websocket",
					"what": fmt.Sprintf("a server with transport.tls.force=true interpreted a protocol message from a websocket peer without TLS (first byte %d) and answered it", b),
					"case": fmt.Sprintf("websocket upgrade on %s, then first byte %d (0x%02x) followed by %d bytes of a well-formed plain message, to a forcing frps", netpkg.FrpWebsocketPath, b, b, len(payload)-1)})
			}
		}
		// ---- and through the kcp listener (a close is not observable on kcp: all 256 probes wait together) ----
		kcls := make([]int, 256)
		var wg sync.WaitGroup
		for b := 0; b < 256; b++ {
			b := b
			wg.Add(1)
			go func() {
				defer wg.Done()
				kcls[b] = 3
				conn, err := libnet.Dial(net.JoinHostPort(s.Addr, fmt.Sprint(s.Cfg.KCPBindPort)), libnet.WithProtocol("kcp"))
				if err != nil {
					return
				}
				defer conn.Close()
				kcls[b] = classify(conn, probe(b), 1500*time.Millisecond)
			}()
		}
		wg.Wait()
		for b := 0; b < 256; b++ {
			cls := kcls[b]
			if cls == 3 {
				cls = 2
			}
			cf.Cases = append(cf.Cases, fmt.Sprintf("CSniffSysL 2 %s %d %d", hx.Bool(force), b, cls))
			dist[fmt.Sprintf("sys-kcp force=%v cls=%d", force, cls)]++
			if force && cls == 1 {
				implFail = append(implFail, map[string]string{"key": "forced-server-answered-plain-peer:kcp",
					"what": fmt.Sprintf("a server with transport.tls.force=true interpreted a protocol message from a kcp peer without TLS (first byte %d) and answered it", b),
					"case": fmt.Sprintf("kcp, first byte %d (0x%02x) followed by a well-formed plain message, to a forcing frps", b, b)})
			}
		}
		s.Close()
	}
	if err := cf.Write(cfg.Out); err != nil {
		return err
	}
	cfg.St["cases"] = len(cf.Cases)
	cfg.St["distinct_nontrivial"] = len(cf.Cases) - 4
	cfg.St["samples"] = []string{cf.Cases[0x16], cf.Cases[0x17], cf.Cases[256+1+int('o')], cf.Cases[len(cf.Cases)-512+int('o')], cf.Cases[len(cf.Cases)-256+int('o')]}
	cfg.St["distribution"] = dist
	cfg.St["impl_failures"] = implFail
	return nil
}
