(* C04 — types of what translator unit t4auth emits (coq/gen/GenAuth.v), an interpreter that gives the emitted
   statement lists of pkg/auth/token.go their meaning, and boolean checkers for the emitted shape of
   util.ConstantTimeEqString and of server/service.go RegisterControl.  Model only: no proofs here. *)
From FRP Require Export Model.Auth.
Open Scope Z_scope.

(* one statement of TokenAuthSetterVerifier.Verify* as the translator recognises it *)
Inductive ga_stmt :=
| GaIfNoScopeRetNil (scope : string)
      (* if !slices.Contains(auth.additionalAuthScopes, v1.<scope>) { return nil } *)
| GaIfKeyMismatchRetErr (tok ts key : string)
      (* if !util.ConstantTimeEqString(util.GetAuthKey(<tok>, <ts>), <key>) { return <error> } — that argument order *)
| GaRetNil
| GaUnknown (src : string).

Inductive ga_cteq :=
| GaCtFull (x y : string)   (* return subtle.ConstantTimeCompare([]byte(<x>), []byte(<y>)) == 1, x y parameters (as a, b) *)
| GaCtUnknown (src : string).

Record ga_regctl := {
  rc_bypass : list (list string * string * bool);
      (* every `if C { L = auth.AlwaysPassVerifier }`: sorted conjuncts of C, L (alias-resolved), L is a local variable *)
  rc_bypass_mentions : Z;        (* occurrences of AlwaysPassVerifier in RegisterControl *)
  rc_verify_recv : string;       (* X in `if err := X.VerifyLogin(loginMsg); err != nil { return err }` *)
  rc_verify_returns : bool;      (* that statement has exactly this return-on-error form *)
  rc_newcontrol_arg : string;    (* 5th argument of NewControl *)
  rc_root_init : string;         (* initialiser of the local X *)
  rc_order : list string;        (* source order of verify / newcontrol / add / start *)
  rc_field_assigns : Z           (* assignments `<e>.authVerifier = …` in server/service.go *)
}.

Definition ga_scope_of (s : string) : option au_scope :=
  if String.eqb s "AuthScopeHeartBeats" then Some AuScHeartBeats
  else if String.eqb s "AuthScopeNewWorkConns" then Some AuScNewWorkConns
  else None.

(* meaning of a translated Verify* body: None = the body is not of the modelled shape (unknown statement, wrong
   operands, falls off the end); Some r = it returns r (None = nil error) *)
Fixpoint ga_run (H : bytes -> Z -> bytes) (c : au_cfg) (err : au_verr) (body : list ga_stmt) (ts : Z) (k : bytes)
  : option (option au_verr) :=
  match body with
  | [] => None
  | GaRetNil :: _ => Some None
  | GaIfNoScopeRetNil s :: r =>
      match ga_scope_of s with
      | None => None
      | Some sc => if negb (au_has_scope sc (ac_scopes c)) then Some None else ga_run H c err r ts k
      end
  | GaIfKeyMismatchRetErr t tsn kn :: r =>
      if String.eqb t "auth.token" && String.eqb tsn "m.Timestamp" && String.eqb kn "m.PrivilegeKey" then
        if negb (au_ct_eq (au_key H (ac_token c) ts) k) then Some (Some err) else ga_run H c err r ts k
      else None
  | GaUnknown _ :: _ => None
  end.

Definition ga_cteq_ok (g : ga_cteq) : bool :=
  match g with
  | GaCtFull x y => (String.eqb x "a" && String.eqb y "b") || (String.eqb x "b" && String.eqb y "a")
  | GaCtUnknown _ => false
  end.

Fixpoint ga_strs_eqb (a b : list string) : bool :=
  match a, b with
  | [], [] => true
  | x :: a', y :: b' => String.eqb x y && ga_strs_eqb a' b'
  | _, _ => false
  end.

Definition ga_regctl_ok (r : ga_regctl) : bool :=
  match rc_bypass r with
  | [(conds, lhs, loc)] =>
      ga_strs_eqb conds ["internal"; "loginMsg.ClientSpec.AlwaysAuthPass"]%string && loc &&
      String.eqb lhs (rc_verify_recv r) && String.eqb lhs (rc_newcontrol_arg r)
  | _ => false
  end &&
  (rc_bypass_mentions r =? 1) && rc_verify_returns r && String.eqb (rc_root_init r) "svr.authVerifier" &&
  ga_strs_eqb (rc_order r) ["verify"; "newcontrol"; "add"; "start"]%string && (rc_field_assigns r =? 0).

(* is the always-pass verifier selected, according to the translated conditions? *)
Definition ga_cond_eval (internal flag : bool) (cond : string) : bool :=
  if String.eqb cond "internal" then internal
  else if String.eqb cond "loginMsg.ClientSpec.AlwaysAuthPass" then flag
  else false.
Definition ga_bypass_selected (r : ga_regctl) (internal flag : bool) : bool :=
  existsb (fun e : list string * string * bool => forallb (ga_cond_eval internal flag) (fst (fst e))) (rc_bypass r).

(* ---- ssh tunnel gateway (pkg/ssh/gateway.go NewGateway, pkg/ssh/server.go TunnelServer.Run) ---------------- *)
Record ga_sshgw := {
  sgw_no_client_auth : list string;          (* right-hand sides of `sshConfig.NoClientAuth = …` *)
  sgw_callback : list string;                (* classified top-level statements of the PublicKeyCallback literal *)
  sgw_callback_success_returns : Z;          (* `return <perms>, nil` anywhere in it *)
  sgw_other_callbacks : list string;         (* other *Callback fields of the ssh ServerConfig that get assigned *)
  sgw_always_auth_pass : list string         (* values given to ClientSpec.AlwaysAuthPass in pkg/ssh/server.go *)
}.

(* the shape Model/SshGate.v mirrors: NoClientAuth iff no file; the callback loads the file, fails on error, looks the
   key blob up, fails when absent, and only then succeeds (one success return, the last statement); nothing else can
   authenticate; AlwaysAuthPass is the negation of NoClientAuth *)
Definition ga_sshgw_ok (g : ga_sshgw) : bool :=
  ga_strs_eqb (sgw_no_client_auth g) ["cfg.AuthorizedKeysFile == """""]%string &&
  ga_strs_eqb (sgw_callback g)
    ["authorizedKeysMap, err := loadAuthorizedKeysFromFile(cfg.AuthorizedKeysFile)";
     "if err != nil fail";
     "user, ok := authorizedKeysMap[string(key.Marshal())]";
     "if !ok fail";
     "return success"]%string &&
  (sgw_callback_success_returns g =? 1) &&
  ga_strs_eqb (sgw_other_callbacks g) [] &&
  ga_strs_eqb (sgw_always_auth_pass g) ["!s.sc.NoClientAuth"]%string.

(* ---- pkg/auth/auth.go NewAuthVerifier: the configured verifier is the token verifier built from (scopes, token) or the
   OIDC consumer — never the always-pass verifier, whatever the token is (an empty token is a credential like any other) *)
Record ga_newverifier := {
  nav_cases : list (string * list string);
  nav_other_statements : Z;
  nav_always_pass_mentions : Z
}.

Fixpoint ga_cases_eqb (a b : list (string * list string)) : bool :=
  match a, b with
  | [], [] => true
  | (x, xs) :: a', (y, ys) :: b' => String.eqb x y && ga_strs_eqb xs ys && ga_cases_eqb a' b'
  | _, _ => false
  end.

Definition ga_newverifier_ok (g : ga_newverifier) : bool :=
  ga_cases_eqb (nav_cases g)
    [("cfg.Method: v1.AuthMethodToken", ["authVerifier = NewTokenAuth(cfg.AdditionalScopes, cfg.Token)"]);
     ("cfg.Method: v1.AuthMethodOIDC", ["tokenVerifier := NewTokenVerifier(cfg.OIDC)";
                                        "authVerifier = NewOidcAuthVerifier(cfg.AdditionalScopes, tokenVerifier)"])]%string &&
  (nav_other_statements g =? 0) && (nav_always_pass_mentions g =? 0).

(* ---- legacy ini conversion, Login plugin hook ---------------------------------------------------------------- *)
Fixpoint ga_pairs_eqb (a b : list (string * string)) : bool :=
  match a, b with
  | [], [] => true
  | (x, u) :: a', (y, v) :: b' => String.eqb x y && String.eqb u v && ga_pairs_eqb a' b'
  | _, _ => false
  end.

(* Convert_ServerCommonConf_To_v1: every authentication key of the legacy file lands in the v1 field of the same meaning *)
Definition ga_legacy_auth_ok (g : list (string * string)) : bool :=
  ga_pairs_eqb g
    [("Auth.Method", "v1.AuthMethod(conf.ServerConfig.AuthenticationMethod)");
     ("Auth.OIDC.Audience", "conf.ServerConfig.OidcAudience");
     ("Auth.OIDC.Issuer", "conf.ServerConfig.OidcIssuer");
     ("Auth.OIDC.SkipExpiryCheck", "conf.ServerConfig.OidcSkipExpiryCheck");
     ("Auth.OIDC.SkipIssuerCheck", "conf.ServerConfig.OidcSkipIssuerCheck");
     ("Auth.Token", "conf.ServerConfig.Token");
     ("scope:v1.AuthScopeHeartBeats", "conf.ServerConfig.AuthenticateHeartBeats");
     ("scope:v1.AuthScopeNewWorkConns", "conf.ServerConfig.AuthenticateNewWorkConns")]%string.

Record ga_loginhook := {
  lh_calls : Z;                  (* calls of pluginManager.Login in `case *msg.Login:` *)
  lh_toplevel : bool;            (* ... as an unguarded top-level statement of the case *)
  lh_m_from_ret : bool;          (* `m = &retContent.Login` *)
  lh_regctl_args : list string   (* arguments of RegisterControl *)
}.
Definition ga_loginhook_ok (g : ga_loginhook) : bool :=
  (lh_calls g =? 1) && lh_toplevel g && lh_m_from_ret g && ga_strs_eqb (lh_regctl_args g) ["conn"; "m"; "internal"]%string.

(* Manager.Login adopts a plugin's rewritten content by plain assignment to the variable it returns *)
Definition ga_manager_login_adopt_ok (g : list string) : bool :=
  ga_strs_eqb g ["content = retContent.(*LoginContent)"]%string.
