package main

// Driver "xtcp" (C20): the REAL server/proxy.XTCPProxy (Run's hand-over goroutine, Close) on a real nathole.Controller.
// The proxy's GetWorkConnFn is the harness's control point: it reports that the goroutine has taken a sid and is inside
// GetWorkConnFromPool (empty pool: up to 10 s in production) and keeps it there until released.  Scenarios close the proxy
// while it is idle, while a hand-over is blocked, while a second visitor is queued behind the blocked hand-over, and
// re-register the same name while the old goroutine is still blocked; after Close has returned a pre-check and a correctly
// signed request naming the closed proxy are sent.  Written as model events (EvListen, EvProxyClose, EvDeliver,
// EvHandoverDone, EvLoopExit, ...) plus observations of the session table, the inboxes and the registered names.

import (
	"context"
	"errors"
	"fmt"
	"net"
	"sort"
	"strings"
	"sync"
	"time"

	v1 "github.com/fatedier/frp/pkg/config/v1"
	"github.com/fatedier/frp/pkg/msg"
	"github.com/fatedier/frp/pkg/nathole"
	plugin "github.com/fatedier/frp/pkg/plugin/server"
	"github.com/fatedier/frp/pkg/util/util"
	"github.com/fatedier/frp/server/controller"
	"github.com/fatedier/frp/server/proxy"

	"verifharness/hx"
)

func init() { drivers["xtcp"] = runXTCP }

type xtcpStub struct {
	pxy     proxy.Proxy
	name    string
	chIdx   int
	entered chan struct{}
	release chan bool // true: hand a work connection out, false: "no work connection"
	sids    chan string
}

func (s *scenario) newXTCP(name, sk string, allow []string) *xtcpStub {
	x := &xtcpStub{name: name, entered: make(chan struct{}, 16), release: make(chan bool, 16), sids: make(chan string, 16)}
	fn := func() (net.Conn, error) {
		x.entered <- struct{}{}
		if ok := <-x.release; !ok {
			return nil, errors.New("no work connection (empty pool)")
		}
		a, b := net.Pipe()
		go func() { // the owner's end: StartWorkConn, then the NatHoleSid
			defer b.Close()
			for {
				m, err := msg.ReadMsg(b)
				if err != nil {
					return
				}
				if sm, ok := m.(*msg.NatHoleSid); ok {
					x.sids <- sm.Sid
				}
			}
		}()
		return a, nil
	}
	cfg := &v1.XTCPProxyConfig{ProxyBaseConfig: v1.ProxyBaseConfig{Name: name, Type: "xtcp"}, Secretkey: sk, AllowUsers: allow}
	p, err := proxy.NewProxy(context.Background(), &proxy.Options{UserInfo: plugin.UserInfo{User: "alice"}, LoginMsg: &msg.Login{},
		PoolCount: 0, ResourceController: &controller.ResourceController{NatHoleController: s.c}, GetWorkConnFn: fn,
		Configurer: cfg, ServerCfg: &v1.ServerConfig{}})
	if err != nil {
		s.fails = append(s.fails, map[string]string{"key": "xtcp-new-proxy", "what": err.Error(), "case": ""})
		return nil
	}
	x.pxy = p
	_, err = p.Run()
	s.ev("EvListen %s %s %s", hx.HxS(name), hx.HxS(sk), coqStrs(allow))
	s.sks[sk] = true
	if err != nil {
		s.count("xtcp_run_refused")
		s.lastRunErr = err.Error()
		return nil
	}
	s.lastRunErr = ""
	x.chIdx = s.nextCh
	s.nextCh++
	s.count("xtcp_run_ok")
	// for s.visitor(): the session's proxy stub (only the fields deliver() does not use here)
	s.proxies[name] = &proxyStub{name: name, sk: sk, chIdx: x.chIdx, alive: true}
	return x
}

func (s *scenario) observeNames() {
	names := s.c.VerifClientNames()
	sort.Strings(names)
	s.evs = append(s.evs, fmt.Sprintf("OC %s", coqStrs(names)))
}

// the goroutine of x has taken a sid and sits in GetWorkConnFromPool
func (s *scenario) waitEntered(x *xtcpStub, sess *sessInfo, d time.Duration) bool {
	sess.base = nil
	for _, t := range s.trs {
		sess.base = append(sess.base, t.count())
	}
	select {
	case <-x.entered:
		sess.state = "wait"
		sess.deliveredAt = time.Now()
		s.ev("EvDeliver %d", sess.idx)
		s.count("xtcp_sid_taken")
		return true
	case <-time.After(d):
		return false
	}
}

func (s *scenario) releaseHandover(x *xtcpStub, withConn bool, sess *sessInfo) {
	x.release <- withConn
	if withConn {
		select {
		case sid := <-x.sids:
			if sess != nil && sid != sess.real {
				s.fails = append(s.fails, map[string]string{"key": "xtcp-wrong-sid", "what": "the owner received a sid of another session", "case": strings.Join(s.evs, "; ")})
			}
		case <-time.After(2 * time.Second):
			s.fails = append(s.fails, map[string]string{"key": "xtcp-no-sid-message", "what": "no NatHoleSid on the work connection within 2 s", "case": strings.Join(s.evs, "; ")})
		}
	}
	time.Sleep(20 * time.Millisecond) // back in the select
	s.ev("EvHandoverDone %d", x.chIdx)
}

func (s *scenario) closeXTCP(x *xtcpStub) {
	x.pxy.Close() // returns at once; from here on the proxy is gone for the rest of frps
	s.ev("EvProxyClose %s", hx.HxS(x.name))
	delete(s.proxies, x.name)
	s.count("xtcp_close")
}

func (s *scenario) timeoutAt(x *sessInfo) {
	if x == nil || x.state != "wait" {
		return
	}
	time.Sleep(time.Until(x.deliveredAt.Add(time.Duration(nathole.NatHoleTimeout)*time.Second + 250*time.Millisecond)))
	s.ev("EvTimeout %d", x.idx)
	x.state = "done"
	s.count("timeout")
}

// after Close has returned: a pre-check and a correctly signed request naming the closed proxy
func (s *scenario) requestsForClosedProxy(name string, sk string) {
	ts := int64(1700000000)
	s.tss[ts] = true
	pre := &msg.NatHoleVisitor{TransactionID: "tv-pre", ProxyName: name, PreCheck: true, Timestamp: ts}
	n0 := s.trs[1].count()
	s.visitor(pre, s.trs[1], "alice")
	if in := s.trs[1].snapshot(); len(in) > n0 && in[len(in)-1].m.Error == "" {
		s.fails = append(s.fails, map[string]string{"key": "precheck-ok-for-closed-proxy",
			"what": fmt.Sprintf("XTCPProxy.Close() has returned, yet the pre-check for %q is answered \"ok\": the controller still lists the proxy", name),
			"case": strings.Join(s.evs, "; ")})
	}
	signed := &msg.NatHoleVisitor{TransactionID: "tv-signed", ProxyName: name, Protocol: "quic", SignKey: util.GetAuthKey(sk, ts), Timestamp: ts,
		MappedAddrs: []string{"1.2.3.4:4000", "1.2.3.4:4000"}}
	if x := s.visitor(signed, s.trs[1], "alice"); x != nil {
		s.fails = append(s.fails, map[string]string{"key": "session-for-closed-proxy",
			"what": fmt.Sprintf("XTCPProxy.Close() has returned, yet a correctly signed NatHoleVisitor naming %q created session %s", name, x.real),
			"case": strings.Join(s.evs, "; ")})
		x.state = "done" // keeps the footprint monitor from piling up; the model disagrees from here on anyway
	}
	s.count("requests_for_closed_proxy")
}

func (s *scenario) signedVisitor(name, sk string) *sessInfo {
	ts := int64(1700000001)
	s.tss[ts] = true
	m := &msg.NatHoleVisitor{TransactionID: fmt.Sprintf("tv%d", s.g.Intn(1000)), ProxyName: name, Protocol: "quic", SignKey: util.GetAuthKey(sk, ts),
		Timestamp: ts, MappedAddrs: cp(scnAddrs[s.g.Intn(9)])}
	return s.visitor(m, s.trs[0], "alice")
}

func (s *scenario) runXTCPVariant(v int) {
	const name, sk = "alice.p2p", "s3cret"
	allow := []string{"alice"}
	x := s.newXTCP(name, sk, allow)
	if x == nil {
		return
	}
	s.observeNames()
	switch v {
	case 0: // close while the hand-over of an earlier visitor's sid is blocked (empty pool), then requests for the closed proxy
		a := s.signedVisitor(name, sk)
		if a == nil || !s.waitEntered(x, a, 2*time.Second) {
			s.fails = append(s.fails, map[string]string{"key": "xtcp-sid-not-taken", "what": "the proxy's goroutine did not take the sid", "case": strings.Join(s.evs, "; ")})
			return
		}
		s.closeXTCP(x)
		s.observeNames()
		s.requestsForClosedProxy(name, sk)
		s.observe()
		s.releaseHandover(x, false, nil)
		s.ev("EvLoopExit %d", x.chIdx)
		s.timeoutAt(a)
		s.observe()
	case 1: // close while idle, requests, then a new proxy of the same name works
		s.closeXTCP(x)
		s.observeNames()
		s.requestsForClosedProxy(name, sk)
		time.Sleep(20 * time.Millisecond)
		s.ev("EvLoopExit %d", x.chIdx)
		y := s.newXTCP(name, sk, allow)
		s.observeNames()
		if y == nil {
			s.fails = append(s.fails, map[string]string{"key": "re-registration-refused", "what": "a new proxy of the closed name is refused: " + s.lastRunErr, "case": strings.Join(s.evs, "; ")})
			return
		}
		b := s.signedVisitor(name, sk)
		if b != nil && s.waitEntered(y, b, 2*time.Second) {
			s.releaseHandover(y, true, b)
			s.clientWith(b.real, b, s.trs[2], []string{"5.6.7.8:80", "5.6.7.8:80"})
			s.complete(b)
		}
		s.observe()
	case 2: // close during a blocked hand-over, re-register the name at once (frpc reload), the new proxy serves a visitor
		a := s.signedVisitor(name, sk)
		if a == nil || !s.waitEntered(x, a, 2*time.Second) {
			return
		}
		s.closeXTCP(x)
		y := s.newXTCP(name, sk, allow)
		s.observeNames()
		if y == nil {
			s.fails = append(s.fails, map[string]string{"key": "re-registration-refused",
				"what": "XTCPProxy.Close() has returned, yet a new proxy of the same name is refused: " + s.lastRunErr, "case": strings.Join(s.evs, "; ")})
			s.releaseHandover(x, false, nil)
			return
		}
		b := s.signedVisitor(name, sk)
		if b != nil && s.waitEntered(y, b, 2*time.Second) {
			s.releaseHandover(y, true, b)
			s.clientWith(b.real, b, s.trs[2], []string{"5.6.7.8:80", "5.6.7.8:80"})
			s.complete(b)
		}
		s.releaseHandover(x, false, nil)
		s.ev("EvLoopExit %d", x.chIdx)
		s.timeoutAt(a)
		s.observe()
	default: // a second visitor is queued behind the blocked hand-over when the proxy closes
		a := s.signedVisitor(name, sk)
		if a == nil || !s.waitEntered(x, a, 2*time.Second) {
			return
		}
		b := s.signedVisitor(name, sk)
		tB := time.Now()
		s.closeXTCP(x)
		s.observeNames()
		s.requestsForClosedProxy(name, sk)
		s.releaseHandover(x, false, nil)
		// the select of the loop now sees closeCh closed AND b's pending send: either may win
		if b != nil && s.waitEntered(x, b, 150*time.Millisecond) {
			s.count("xtcp_queued_sid_taken_after_close")
			s.releaseHandover(x, false, nil)
			s.ev("EvLoopExit %d", x.chIdx)
			s.timeoutAt(a)
			s.timeoutAt(b)
		} else {
			s.ev("EvLoopExit %d", x.chIdx)
			s.count("xtcp_loop_exit_with_queued_sid")
			s.timeoutAt(a)
			if b != nil {
				time.Sleep(time.Until(tB.Add(time.Duration(nathole.NatHoleTimeout)*time.Second + 250*time.Millisecond)))
				s.ev("EvGiveUp %d", b.idx)
				b.state = "done"
			}
		}
		s.observe()
	}
}

const xtcpTail = `
Definition M := Eval vm_compute in mismatches check_case cases.
Print M.
Definition NXPROXYCLOSE := Eval vm_compute in count_ev 13 cases.
Print NXPROXYCLOSE.
Definition NXHANDOVERDONE := Eval vm_compute in count_ev 14 cases.
Print NXHANDOVERDONE.
Definition NXLOOPEXIT := Eval vm_compute in count_ev 15 cases.
Print NXLOOPEXIT.
Definition NXDELIVER := Eval vm_compute in count_ev 1 cases.
Print NXDELIVER.
`

func runXTCP(cfg *hx.RunCfg) error {
	hx.Quiet()
	nathole.NatHoleTimeout = 1
	dist := map[string]int{}
	var mu sync.Mutex
	n := cfg.N
	scs := make([]*scenario, n)
	var wg sync.WaitGroup
	for i := 0; i < n; i++ {
		c, _ := nathole.NewController(time.Hour)
		s := &scenario{g: hx.NewGen(cfg.Seed*7919 + int64(i)), c: c, proxies: map[string]*proxyStub{}, auth: map[string]string{},
			sks: map[string]bool{}, tss: map[int64]bool{}, dist: dist, mu: &mu}
		for k := 0; k < 3; k++ {
			s.trs = append(s.trs, &stubTr{id: k})
		}
		scs[i] = s
		wg.Add(1)
		go func(i int) {
			defer wg.Done()
			s.runXTCPVariant(i % 4)
		}(i)
	}
	wg.Wait()
	var cases []string
	var fails []map[string]string
	for _, s := range scs {
		var auth []string
		for sk := range s.sks {
			for ts := range s.tss {
				auth = append(auth, fmt.Sprintf("(%s, %s, %s)", hx.HxS(sk), hx.Z(ts), hx.HxS(util.GetAuthKey(sk, ts))))
			}
		}
		sort.Strings(auth)
		cases = append(cases, fmt.Sprintf("CCtl %s %s", hx.List(auth), hx.List(s.evs)))
		fails = append(fails, s.fails...)
	}
	cf := &hx.CaseFile{Imports: "From FRP Require Import Corr.C20.\nOpen Scope Z_scope.\n", Typ: "case", Cases: cases, Tail: xtcpTail}
	if err := cf.Write(cfg.Out); err != nil {
		return err
	}
	cfg.St["cases"] = len(cases)
	cfg.St["distinct_nontrivial"] = len(cases)
	cfg.St["distribution"] = dist
	samples := []map[string]string{}
	if len(cases) > 0 {
		c := cases[0]
		if len(c) > 1200 {
			c = c[:1200] + "..."
		}
		samples = append(samples, map[string]string{"case": c})
	}
	cfg.St["samples"] = samples
	if fails == nil {
		fails = []map[string]string{}
	}
	cfg.St["impl_failures"] = fails
	return nil
}
