(* C09 — ownership of bound ports (plain tcp proxies and tcp groups hold pairwise distinct ports, each
   bound), membership of grouped proxies, and progress of Close at the resource-controller level. *)
From Coq Require Import Lia.
From FRP Require Import Model.Ports Model.PortSrv Proofs.PortsProofs Proofs.PortSrvProofs.
Open Scope Z_scope.

Definition live_plain (r : rcst) (id : Z) (o : pobj) : Prop :=
  aget id (rc_objs r) = Some o /\ po_kind o = KTcp /\ po_group o = ""%string /\ po_closed o = false.
Definition live_member (r : rcst) (id : Z) (o : pobj) : Prop :=
  aget id (rc_objs r) = Some o /\ po_kind o = KTcp /\ po_group o <> ""%string /\ po_closed o = false.
Definition live_group (r : rcst) (g : string) (tg : tgrp) : Prop :=
  sget g (rc_groups r) = Some tg /\ tg_lns tg <> [].

(* who claims a tcp port: a live plain proxy (by object id) or a live group (by name) *)
Definition claim (r : rcst) (k : Z + string) (p : Z) : Prop :=
  match k with
  | inl id => exists o, live_plain r id o /\ po_real o = p
  | inr g => exists tg, live_group r g tg /\ tg_real tg = p
  end.

Record OInv (r : rcst) : Prop := {
  oi_fresh : forall id o, aget id (rc_objs r) = Some o -> id < rc_next r;
  oi_bound : forall k p, claim r k p -> In (0, p) (rc_bound r);
  oi_excl : forall k k' p, claim r k p -> claim r k' p -> k = k';
  oi_member : forall id o, live_member r id o ->
     exists tg, sget (po_group o) (rc_groups r) = Some tg /\ In id (tg_lns tg) /\ tg_real tg = po_real o
}.

(* ---- three generic ways the claims and the tcp bindings move together ---- *)
Lemma claims_same : forall r r',
  OInv r ->
  (forall k p, claim r' k p -> claim r k p) ->
  (forall p, In (0, p) (rc_bound r) -> In (0, p) (rc_bound r')) ->
  (forall k p, claim r' k p -> In (0, p) (rc_bound r')) /\
  (forall k k' p, claim r' k p -> claim r' k' p -> k = k').
Proof.
  intros r r' [F B E M] HC HB. split.
  - intros k p H. apply HB. eapply B. eauto.
  - intros k k' p H H'. eapply E; eauto.
Qed.

Lemma claims_add : forall r r' k0 p0,
  OInv r ->
  (forall k p, claim r' k p -> claim r k p \/ (k = k0 /\ p = p0)) ->
  rc_bound r' = (0, p0) :: rc_bound r -> ~ In (0, p0) (rc_bound r) ->
  (forall k p, claim r' k p -> In (0, p) (rc_bound r')) /\
  (forall k k' p, claim r' k p -> claim r' k' p -> k = k').
Proof.
  intros r r' k0 p0 [F B E M] HC HB N. rewrite HB. split.
  - intros k p H. destruct (HC _ _ H) as [X|[-> ->]]; [right; eapply B; eauto|left; reflexivity].
  - intros k k' p H H'. destruct (HC _ _ H) as [X|[-> ->]]; destruct (HC _ _ H') as [X'|[-> E']].
    + eapply E; eauto.
    + subst. exfalso. apply N. eapply B; eauto.
    + exfalso. apply N. eapply B; eauto.
    + reflexivity.
Qed.

Lemma claims_remove : forall r r' k0 p0,
  OInv r -> claim r k0 p0 ->
  (forall k p, claim r' k p -> claim r k p /\ k <> k0) ->
  rc_bound r' = unbind 0 p0 (rc_bound r) ->
  (forall k p, claim r' k p -> In (0, p) (rc_bound r')) /\
  (forall k k' p, claim r' k p -> claim r' k' p -> k = k').
Proof.
  intros r r' k0 p0 [F B E M] H0 HC HB. rewrite HB. split.
  - intros k p H. destruct (HC _ _ H) as [X Nk]. apply unbind_In. split; [eapply B; eauto|].
    intros Eq. inversion Eq; subst. apply Nk. eapply E; eauto.
  - intros k k' p H H'. destruct (HC _ _ H) as [X _]. destruct (HC _ _ H') as [X' _]. eapply E; eauto.
Qed.

Lemma unbind_other_proto : forall p q b, In (0, q) b -> In (0, q) (unbind 1 p b).
Proof. intros p q b H. apply unbind_In. split; [assumption|]. intros E. inversion E. Qed.

(* ---- Run ---- *)
Ltac rsimpl := cbn [rc_tcp rc_udp rc_groups rc_bound rc_squat rc_objs rc_next rc_set_tcp rc_set_udp rc_set_groups
                    rc_set_bound rc_set_squat rc_set_objs rc_set_next mark_closed].
Tactic Notation "rsimpl" "in" hyp(H) :=
  cbn [rc_tcp rc_udp rc_groups rc_bound rc_squat rc_objs rc_next rc_set_tcp rc_set_udp rc_set_groups
       rc_set_bound rc_set_squat rc_set_objs rc_set_next mark_closed] in H.
Tactic Notation "rsimpl" "in" "*" :=
  cbn [rc_tcp rc_udp rc_groups rc_bound rc_squat rc_objs rc_next rc_set_tcp rc_set_udp rc_set_groups
       rc_set_bound rc_set_squat rc_set_objs rc_set_next mark_closed] in *.

(* OInv looks only at objects, groups, bindings and the id counter *)
Lemma oinv_ext : forall r r',
  rc_objs r' = rc_objs r -> rc_groups r' = rc_groups r -> rc_bound r' = rc_bound r -> rc_next r' = rc_next r ->
  OInv r -> OInv r'.
Proof.
  intros r r' Eo Eg Eb En [F B E M].
  assert (C : forall k p, claim r' k p <-> claim r k p).
  { intros [id|g] p; unfold claim, live_plain, live_group; rewrite ?Eo, ?Eg; tauto. }
  constructor.
  - rewrite Eo, En. assumption.
  - intros k p H. rewrite Eb. apply (B k p). apply C. assumption.
  - intros k k' p H H'. apply (E k k' p); apply C; assumption.
  - intros id o H. unfold live_member in H. rewrite Eo in H. rewrite Eg. apply M. assumption.
Qed.

(* a new object under a fresh id that is not a live plain tcp proxy: udp, port-less kinds *)
Lemma oinv_add_nontcp : forall r r' o b,
  OInv r -> po_kind o <> KTcp ->
  rc_objs r' = aset (rc_next r) o (rc_objs r) -> rc_groups r' = rc_groups r ->
  rc_bound r' = b ++ rc_bound r -> rc_next r' = rc_next r + 1 ->
  OInv r'.
Proof.
  intros r r' o b HI Nk Eo Eg Eb En. pose proof HI as [F B E M].
  assert (old : forall id x, aget id (rc_objs r') = Some x -> po_kind x = KTcp -> aget id (rc_objs r) = Some x).
  { intros id x H K. rewrite Eo in H. destruct (Z.eq_dec id (rc_next r)) as [->|N].
    - rewrite aget_aset_eq in H. inversion H; subst. contradiction.
    - rewrite aget_aset_neq in H by assumption. assumption. }
  assert (C : forall k p, claim r' k p -> claim r k p).
  { intros [id|g] p; unfold claim, live_plain, live_group.
    - intros [x [[H [K R]] P]]. exists x. split; [split; [apply old; assumption|tauto]|assumption].
    - rewrite Eg. tauto. }
  destruct (claims_same r r' HI C) as [B' E'].
  { intros p H. rewrite Eb. apply in_or_app. right. assumption. }
  constructor; try assumption.
  - intros id x H. rewrite Eo in H. rewrite En. destruct (Z.eq_dec id (rc_next r)) as [->|N]; [lia|].
    rewrite aget_aset_neq in H by assumption. apply F in H. lia.
  - intros id x [H [K R]]. rewrite Eg. apply M. split; [|tauto]. apply old; assumption.
Qed.

Lemma oinv_add_plain : forall r r' o p,
  OInv r -> po_kind o = KTcp -> po_group o = ""%string -> po_real o = p ->
  ~ In (0, p) (rc_bound r) ->
  rc_objs r' = aset (rc_next r) o (rc_objs r) -> rc_groups r' = rc_groups r ->
  rc_bound r' = (0, p) :: rc_bound r -> rc_next r' = rc_next r + 1 ->
  OInv r'.
Proof.
  intros r r' o p HI K G P Nb Eo Eg Eb En. pose proof HI as [F B E M].
  assert (C : forall k q, claim r' k q -> claim r k q \/ (k = inl (rc_next r) /\ q = p)).
  { intros [id|g] q; unfold claim, live_plain, live_group.
    - intros [x [[H R] Q]]. rewrite Eo in H. destruct (Z.eq_dec id (rc_next r)) as [->|N].
      + rewrite aget_aset_eq in H. inversion H; subst. right. auto.
      + rewrite aget_aset_neq in H by assumption. left. exists x. auto.
    - rewrite Eg. intros H. left. assumption. }
  destruct (claims_add r r' _ _ HI C Eb Nb) as [B' E'].
  constructor; try assumption.
  - intros id x H. rewrite Eo in H. rewrite En. destruct (Z.eq_dec id (rc_next r)) as [->|N]; [lia|].
    rewrite aget_aset_neq in H by assumption. apply F in H. lia.
  - intros id x [H [K' [G' R]]]. rewrite Eo in H. rewrite Eg. destruct (Z.eq_dec id (rc_next r)) as [->|N].
    + rewrite aget_aset_eq in H. inversion H; subst. contradiction.
    + rewrite aget_aset_neq in H by assumption. apply M. repeat split; assumption.
Qed.

(* the controller creates an empty group entry for an unknown group name *)
Lemma oinv_empty_group : forall r g,
  OInv r -> sget g (rc_groups r) = None -> OInv (rc_set_groups (sset g empty_grp (rc_groups r)) r).
Proof.
  intros r g HI Hn. pose proof HI as [F B E M].
  set (r' := rc_set_groups (sset g empty_grp (rc_groups r)) r).
  assert (C : forall k q, claim r' k q -> claim r k q).
  { intros [id|g'] q; unfold claim, live_plain, live_group, r'; rsimpl; [tauto|].
    intros [tg [[H L] Q]]. destruct (String.eqb_spec g' g) as [->|N].
    - rewrite sget_sset_eq in H. inversion H; subst. simpl in L. congruence.
    - rewrite sget_sset_neq in H by assumption. exists tg. auto. }
  destruct (claims_same r r' HI C) as [B' E']; [auto|].
  constructor; try assumption.
  intros id x [H [K [G R]]]. unfold r' in *. rsimpl in *.
  destruct (M id x) as [tg [S [I T]]]; [repeat split; assumption|].
  exists tg. split; [|auto]. rewrite sget_sset_neq; [assumption|]. intros Eq. rewrite Eq in S. congruence.
Qed.

(* first member of a group: the entry for g is dead (no members), a fresh listener is bound on p *)
Lemma oinv_group_first : forall r r' g tg0 o p key addr port,
  OInv r -> sget g (rc_groups r) = Some tg0 -> tg_lns tg0 = [] -> g <> ""%string ->
  po_kind o = KTcp -> po_group o = g -> po_real o = p -> po_closed o = false ->
  ~ In (0, p) (rc_bound r) ->
  rc_objs r' = aset (rc_next r) o (rc_objs r) ->
  rc_groups r' = sset g {| tg_key := key; tg_addr := addr; tg_port := port; tg_real := p; tg_lns := [rc_next r] |} (rc_groups r) ->
  rc_bound r' = (0, p) :: rc_bound r -> rc_next r' = rc_next r + 1 ->
  OInv r'.
Proof.
  intros r r' g tg0 o p key addr port HI Hg L0 Ng K G P Cl Nb Eo Eg Eb En. pose proof HI as [F B E M].
  assert (C : forall k q, claim r' k q -> claim r k q \/ (k = inr g /\ q = p)).
  { intros [id|g'] q; unfold claim, live_plain, live_group.
    - intros [x [[H [K' [G' R]]] Q]]. rewrite Eo in H. destruct (Z.eq_dec id (rc_next r)) as [->|N].
      + rewrite aget_aset_eq in H. inversion H; subst. congruence.
      + rewrite aget_aset_neq in H by assumption. left. exists x. auto.
    - rewrite Eg. intros [tg [[H L] Q]]. destruct (String.eqb_spec g' g) as [->|N].
      + rewrite sget_sset_eq in H. inversion H; subst. right. auto.
      + rewrite sget_sset_neq in H by assumption. left. exists tg. auto. }
  destruct (claims_add r r' _ _ HI C Eb Nb) as [B' E'].
  constructor; try assumption.
  - intros id x H. rewrite Eo in H. rewrite En. destruct (Z.eq_dec id (rc_next r)) as [->|N]; [lia|].
    rewrite aget_aset_neq in H by assumption. apply F in H. lia.
  - intros id x [H [K' [G' R]]]. rewrite Eo in H. rewrite Eg. destruct (Z.eq_dec id (rc_next r)) as [->|N].
    + rewrite aget_aset_eq in H. inversion H; subst. rewrite sget_sset_eq. eexists. split; [reflexivity|].
      simpl. auto.
    + rewrite aget_aset_neq in H by assumption.
      destruct (M id x) as [tg [S [I T]]]; [repeat split; assumption|].
      destruct (String.eqb_spec (po_group x) g) as [Eq|Ne].
      * rewrite Eq in S. rewrite Hg in S. inversion S; subst. rewrite L0 in I. destruct I.
      * rewrite sget_sset_neq by assumption. exists tg. auto.
Qed.

Lemma oinv_group_join : forall r r' g tg o,
  OInv r -> sget g (rc_groups r) = Some tg -> tg_lns tg <> [] -> g <> ""%string ->
  po_kind o = KTcp -> po_group o = g -> po_real o = tg_real tg ->
  rc_objs r' = aset (rc_next r) o (rc_objs r) ->
  rc_groups r' = sset g {| tg_key := tg_key tg; tg_addr := tg_addr tg; tg_port := tg_port tg; tg_real := tg_real tg;
                           tg_lns := tg_lns tg ++ [rc_next r] |} (rc_groups r) ->
  rc_bound r' = rc_bound r -> rc_next r' = rc_next r + 1 ->
  OInv r'.
Proof.
  intros r r' g tg o HI Hg L Ng K G P Eo Eg Eb En. pose proof HI as [F B E M].
  assert (C : forall k q, claim r' k q -> claim r k q).
  { intros [id|g'] q; unfold claim, live_plain, live_group.
    - intros [x [[H [K' [G' R]]] Q]]. rewrite Eo in H. destruct (Z.eq_dec id (rc_next r)) as [->|N].
      + rewrite aget_aset_eq in H. inversion H; subst. congruence.
      + rewrite aget_aset_neq in H by assumption. exists x. auto.
    - rewrite Eg. intros [tg' [[H L'] Q]]. destruct (String.eqb_spec g' g) as [->|N].
      + rewrite sget_sset_eq in H. inversion H; subst. simpl. exists tg. auto.
      + rewrite sget_sset_neq in H by assumption. exists tg'. auto. }
  destruct (claims_same r r' HI C) as [B' E']; [rewrite Eb; auto|].
  constructor; try assumption.
  - intros id x H. rewrite Eo in H. rewrite En. destruct (Z.eq_dec id (rc_next r)) as [->|N]; [lia|].
    rewrite aget_aset_neq in H by assumption. apply F in H. lia.
  - intros id x [H [K' [G' R]]]. rewrite Eo in H. rewrite Eg. destruct (Z.eq_dec id (rc_next r)) as [->|N].
    + rewrite aget_aset_eq in H. inversion H; subst. rewrite sget_sset_eq. eexists. split; [reflexivity|].
      simpl. split; [apply in_or_app; right; left; reflexivity|congruence].
    + rewrite aget_aset_neq in H by assumption.
      destruct (M id x) as [tg' [S [I T]]]; [repeat split; assumption|].
      destruct (String.eqb_spec (po_group x) g) as [Eq|Ne].
      * rewrite Eq in S. rewrite Hg in S. inversion S; subst. rewrite Eq, sget_sset_eq. eexists. split; [reflexivity|].
        simpl. split; [apply in_or_app; left; assumption|assumption].
      * rewrite sget_sset_neq by assumption. exists tg'. auto.
Qed.

Lemma mk_obj_fields : forall q rp,
  po_kind (mk_obj q rp) = xq_kind q /\ po_group (mk_obj q rp) = xq_group q /\ po_real (mk_obj q rp) = rp /\
  po_closed (mk_obj q rp) = false.
Proof. intros. repeat split. Qed.

Ltac fin := rsimpl; cbn [po_kind po_group po_real po_closed mk_obj]; try reflexivity; try eassumption.

Lemma oinv_run : forall r q r' res, OInv r -> px_run r q = Some (r', res) -> OInv r'.
Proof.
  intros r q r' res HI H. unfold px_run in H. destruct (xq_kind q) eqn:EK.
  - destruct (String.eqb_spec (xq_group q) "") as [EG|NG].
    + unfold tcp_run in H.
      destruct (pm_acquire (rc_probe r 0) (xq_choice q) (rc_tcp r) (xq_name q) (xq_port q)) as [[t' [rp|e]]|] eqn:E;
        [| |discriminate].
      * destruct (acquire_ok_shape _ _ _ _ _ _ _ E) as [_ P]. apply probe_bound in P.
        destruct (xq_lok q); inversion H; subst.
        -- eapply (oinv_add_plain r _ (mk_obj q rp) rp HI); fin.
        -- eapply oinv_ext; [| | | |exact HI]; reflexivity.
      * inversion H; subst. eapply oinv_ext; [| | | |exact HI]; reflexivity.
    + unfold group_listen in H.
      destruct (sget (xq_group q) (rc_groups r)) as [tg|] eqn:EGr.
      * destruct (tg_lns tg) as [|l0 ls] eqn:EL.
        -- destruct (pm_acquire (rc_probe r 0) (xq_choice q) (rc_tcp r) (xq_name q) (xq_port q)) as [[t' [rp|e]]|] eqn:E;
             [| |discriminate].
           ++ destruct (acquire_ok_shape _ _ _ _ _ _ _ E) as [_ P]. apply probe_bound in P.
              destruct (xq_lok q); inversion H; subst.
              ** eapply (oinv_group_first r _ (xq_group q) tg (mk_obj q rp) rp); try exact HI; fin.
              ** eapply oinv_ext; [| | | |exact HI]; reflexivity.
           ++ inversion H; subst. eapply oinv_ext; [| | | |exact HI]; reflexivity.
        -- assert (NE : tg_lns tg <> []) by (rewrite EL; discriminate).
           destruct (negb (tg_addr tg =? xq_addr q)); [inversion H; subst; assumption|].
           destruct (negb (tg_port tg =? xq_port q)); [inversion H; subst; assumption|].
           destruct (negb (String.eqb (tg_key tg) (xq_gkey q))); [inversion H; subst; assumption|].
           inversion H; subst.
           eapply (oinv_group_join r _ (xq_group q) tg (mk_obj q (tg_real tg))); try exact HI; fin.
           rewrite EL. reflexivity.
      * cbn [tg_lns empty_grp] in H.
        pose proof (oinv_empty_group r (xq_group q) HI EGr) as HI1.
        set (r1 := rc_set_groups (sset (xq_group q) empty_grp (rc_groups r)) r) in *.
        destruct (pm_acquire (rc_probe r1 0) (xq_choice q) (rc_tcp r1) (xq_name q) (xq_port q)) as [[t' [rp|e]]|] eqn:E;
          [| |discriminate].
        -- destruct (acquire_ok_shape _ _ _ _ _ _ _ E) as [_ P]. apply probe_bound in P.
           destruct (xq_lok q); inversion H; subst.
           ++ eapply (oinv_group_first r1 _ (xq_group q) empty_grp (mk_obj q rp) rp); try exact HI1; unfold r1; fin.
              apply sget_sset_eq.
           ++ eapply oinv_ext; [| | | |exact HI1]; reflexivity.
        -- inversion H; subst. eapply oinv_ext; [| | | |exact HI1]; reflexivity.
  - unfold udp_run in H.
    destruct (pm_acquire (rc_probe r 1) (xq_choice q) (rc_udp r) (xq_name q) (xq_port q)) as [[u' [rp|e]]|] eqn:E;
      [| |discriminate].
    + destruct (xq_lok q); inversion H; subst.
      * eapply (oinv_add_nontcp r _ (mk_obj q rp) [(1, rp)] HI); rsimpl; try reflexivity.
        simpl. rewrite EK. discriminate.
      * eapply oinv_ext; [| | | |exact HI]; reflexivity.
    + inversion H; subst. eapply oinv_ext; [| | | |exact HI]; reflexivity.
  - unfold other_run in H. inversion H; subst.
    eapply (oinv_add_nontcp r _ (mk_obj q 0) [] HI); rsimpl; try reflexivity.
    simpl. rewrite EK. discriminate.
Qed.

(* ---- Close ---- *)
Definition closed_of (o : pobj) : pobj :=
  {| po_kind := po_kind o; po_group := po_group o; po_real := po_real o; po_closed := true |}.

(* marking an object closed and (possibly) removing bindings that no remaining claim needs *)
Lemma oinv_mark_nonclaim : forall r r' id o,
  OInv r -> aget id (rc_objs r) = Some o ->
  (po_kind o = KTcp -> po_group o = ""%string -> po_closed o = true) ->
  (po_kind o = KTcp -> po_group o <> ""%string -> po_closed o = false ->
     forall tg, sget (po_group o) (rc_groups r') = Some tg -> True) ->
  rc_objs r' = aset id (closed_of o) (rc_objs r) -> rc_groups r' = rc_groups r ->
  (forall p, In (0, p) (rc_bound r) -> In (0, p) (rc_bound r')) -> rc_next r' = rc_next r ->
  (po_kind o = KTcp -> po_group o <> ""%string -> po_closed o = true) ->
  OInv r'.
Proof.
  intros r r' id o HI Ho Hp _ Eo Eg Eb En Hm. pose proof HI as [F B E M].
  assert (C : forall k q, claim r' k q -> claim r k q).
  { intros [id'|g] q; unfold claim, live_plain, live_group.
    - intros [x [[H [K [G R]]] Q]]. rewrite Eo in H. destruct (Z.eq_dec id' id) as [->|N].
      + rewrite aget_aset_eq in H. inversion H; subst. simpl in R. discriminate.
      + rewrite aget_aset_neq in H by assumption. exists x. auto.
    - rewrite Eg. tauto. }
  destruct (claims_same r r' HI C Eb) as [B' E'].
  constructor; try assumption.
  - intros id' x H. rewrite Eo in H. rewrite En. destruct (Z.eq_dec id' id) as [->|N]; [eauto|].
    rewrite aget_aset_neq in H by assumption. eauto.
  - intros id' x [H [K [G R]]]. rewrite Eo in H. rewrite Eg. destruct (Z.eq_dec id' id) as [->|N].
    + rewrite aget_aset_eq in H. inversion H; subst. simpl in R. discriminate.
    + rewrite aget_aset_neq in H by assumption. apply M. repeat split; assumption.
Qed.

Lemma oinv_close : forall r id r', OInv r -> px_close r id = Some r' -> OInv r'.
Proof.
  intros r id r' HI H. pose proof HI as [F B E M]. unfold px_close in H.
  destruct (aget id (rc_objs r)) as [o|] eqn:Ho; [|discriminate].
  destruct (po_kind o) eqn:EK.
  - destruct (po_closed o) eqn:EC; [discriminate|].
    destruct (String.eqb_spec (po_group o) "") as [EG|NG].
    + (* plain tcp proxy: its claim goes, its binding goes *)
      inversion H; subst. clear H.
      set (r' := mark_closed id o (rc_set_tcp (pm_release (rc_tcp r) (po_real o)) (rc_set_bound (unbind 0 (po_real o) (rc_bound r)) r))).
      assert (C0 : claim r (inl id) (po_real o)) by (exists o; repeat split; assumption).
      assert (C : forall k q, claim r' k q -> claim r k q /\ k <> inl id).
      { intros [id'|g] q; unfold claim, live_plain, live_group, r'; rsimpl.
        - intros [x [[H1 [K [G R]]] Q]]. destruct (Z.eq_dec id' id) as [->|N].
          + rewrite aget_aset_eq in H1. inversion H1; subst. simpl in R. discriminate.
          + rewrite aget_aset_neq in H1 by assumption. split; [exists x; auto|congruence].
        - intros X. split; [assumption|discriminate]. }
      destruct (claims_remove r r' _ _ HI C0 C) as [B' E']; [reflexivity|].
      constructor; try assumption.
      * intros id' x H1. unfold r' in *. rsimpl in *. destruct (Z.eq_dec id' id) as [->|N]; [eauto|].
        rewrite aget_aset_neq in H1 by assumption. eauto.
      * intros id' x [H1 [K [G R]]]. unfold r' in *. rsimpl in *. destruct (Z.eq_dec id' id) as [->|N].
        -- rewrite aget_aset_eq in H1. inversion H1; subst. simpl in R. discriminate.
        -- rewrite aget_aset_neq in H1 by assumption. apply M. repeat split; assumption.
    + destruct (close_group_listener r (po_group o) id) as [r1|] eqn:ECG; [|discriminate].
      inversion H; subst. clear H. unfold close_group_listener in ECG.
      destruct (sget (po_group o) (rc_groups r)) as [tg|] eqn:EGr; [|discriminate].
      destruct (zmem id (tg_lns tg)) eqn:EM; [|discriminate]. simpl in ECG. apply zmem_In in EM.
      assert (NE : tg_lns tg <> []) by (intros X; rewrite X in EM; destruct EM).
      destruct (zrem id (tg_lns tg)) as [|l0 ls] eqn:EZ; inversion ECG; subst; clear ECG.
      * (* last member: the group's claim and binding go, the entry is removed *)
        set (r' := mark_closed id o (rc_set_groups (sdel (po_group o) (rc_groups r))
                     (rc_set_tcp (pm_release (rc_tcp r) (tg_real tg)) (rc_set_bound (unbind 0 (tg_real tg) (rc_bound r)) r)))).
        assert (C0 : claim r (inr (po_group o)) (tg_real tg)) by (exists tg; repeat split; assumption).
        assert (C : forall k q, claim r' k q -> claim r k q /\ k <> inr (po_group o)).
        { intros [id'|g] q; unfold claim, live_plain, live_group, r'; rsimpl.
          - intros [x [[H1 [K [G R]]] Q]]. destruct (Z.eq_dec id' id) as [->|N].
            + rewrite aget_aset_eq in H1. inversion H1; subst. simpl in R. discriminate.
            + rewrite aget_aset_neq in H1 by assumption. split; [exists x; auto|discriminate].
          - intros [tg' [[H1 L] Q]]. destruct (String.eqb_spec g (po_group o)) as [->|N].
            + rewrite sget_sdel_eq in H1. discriminate.
            + rewrite sget_sdel_neq in H1 by assumption. split; [exists tg'; auto|congruence]. }
        destruct (claims_remove r r' _ _ HI C0 C) as [B' E']; [reflexivity|].
        constructor; try assumption.
        -- intros id' x H1. unfold r' in *. rsimpl in *. destruct (Z.eq_dec id' id) as [->|N]; [eauto|].
           rewrite aget_aset_neq in H1 by assumption. eauto.
        -- intros id' x [H1 [K [G R]]]. unfold r' in *. rsimpl in *. destruct (Z.eq_dec id' id) as [->|N].
           ++ rewrite aget_aset_eq in H1. inversion H1; subst. simpl in R. discriminate.
           ++ rewrite aget_aset_neq in H1 by assumption.
              destruct (M id' x) as [tg' [S [I T]]]; [repeat split; assumption|].
              destruct (String.eqb_spec (po_group x) (po_group o)) as [Eq|Ne].
              ** exfalso. rewrite Eq in S. rewrite EGr in S. inversion S; subst.
                 assert (X : In id' (zrem id (tg_lns tg'))) by (apply zrem_In; auto).
                 rewrite EZ in X. destruct X.
              ** rewrite sget_sdel_neq by assumption. exists tg'. auto.
      * (* another member remains: nothing but the member list changes *)
        set (tg1 := {| tg_key := tg_key tg; tg_addr := tg_addr tg; tg_port := tg_port tg; tg_real := tg_real tg; tg_lns := l0 :: ls |}).
        set (r' := mark_closed id o (rc_set_groups (sset (po_group o) tg1 (rc_groups r)) r)).
        assert (C : forall k q, claim r' k q -> claim r k q).
        { intros [id'|g] q; unfold claim, live_plain, live_group, r'; rsimpl.
          - intros [x [[H1 [K [G R]]] Q]]. destruct (Z.eq_dec id' id) as [->|N].
            + rewrite aget_aset_eq in H1. inversion H1; subst. simpl in R. discriminate.
            + rewrite aget_aset_neq in H1 by assumption. exists x; auto.
          - intros [tg' [[H1 L] Q]]. destruct (String.eqb_spec g (po_group o)) as [->|N].
            + rewrite sget_sset_eq in H1. inversion H1; subst. exists tg. auto.
            + rewrite sget_sset_neq in H1 by assumption. exists tg'; auto. }
        destruct (claims_same r r' HI C) as [B' E']; [auto|].
        constructor; try assumption.
        -- intros id' x H1. unfold r' in *. rsimpl in *. destruct (Z.eq_dec id' id) as [->|N]; [eauto|].
           rewrite aget_aset_neq in H1 by assumption. eauto.
        -- intros id' x [H1 [K [G R]]]. unfold r' in *. rsimpl in *. destruct (Z.eq_dec id' id) as [->|N].
           ++ rewrite aget_aset_eq in H1. inversion H1; subst. simpl in R. discriminate.
           ++ rewrite aget_aset_neq in H1 by assumption.
              destruct (M id' x) as [tg' [S [I T]]]; [repeat split; assumption|].
              destruct (String.eqb_spec (po_group x) (po_group o)) as [Eq|Ne].
              ** rewrite Eq in S. rewrite EGr in S. inversion S; subst. rewrite Eq, sget_sset_eq.
                 exists tg1. split; [reflexivity|]. unfold tg1. cbn [tg_lns tg_real]. split; [|assumption].
                 rewrite <- EZ. apply zrem_In. auto.
              ** rewrite sget_sset_neq by assumption. exists tg'. auto.
  - destruct (po_closed o) eqn:EC; inversion H; subst; [assumption|].
    eapply (oinv_mark_nonclaim r _ id o HI Ho); rsimpl; try reflexivity; try (intros; congruence); try (intros; exact I).
    intros p X. apply unbind_other_proto. assumption.
  - destruct (po_closed o) eqn:EC; [discriminate|]. inversion H; subst.
    eapply (oinv_mark_nonclaim r _ id o HI Ho); rsimpl; try reflexivity; try (intros; congruence); try (intros; exact I); auto.
Qed.

Lemma oinv_new : forall ranges, OInv (rc_new ranges).
Proof.
  intros. constructor; unfold rc_new; rsimpl.
  - discriminate.
  - intros [id|g] p; unfold claim, live_plain, live_group; rsimpl; intros [x [[H _] _]]; discriminate.
  - intros [id|g] k' p; unfold claim, live_plain, live_group; rsimpl; intros [x [[H _] _]]; discriminate.
  - intros id o [H _]. discriminate.
Qed.

Lemma oinv_xstep : forall r o r' out, OInv r -> x_step r o = Some (r', out) -> OInv r'.
Proof.
  intros r o r' out HI H. destruct o as [q|id|proto port|proto port]; cbn [x_step] in H.
  - destruct (px_run r q) as [[r1 res]|] eqn:E; [|discriminate]. inversion H; subst. eapply oinv_run; eauto.
  - destruct (px_close r id) as [r1|] eqn:E; [|discriminate]. inversion H; subst. eapply oinv_close; eauto.
  - destruct ((1 <=? port) && rc_probe r proto port); inversion H; subst.
    eapply oinv_ext; [| | | |exact HI]; reflexivity.
  - inversion H; subst. eapply oinv_ext; [| | | |exact HI]; reflexivity.
Qed.

(* ---- progress of Close: an object the server may still close can be closed ---- *)
Theorem px_close_progress : forall r id o,
  OInv r -> aget id (rc_objs r) = Some o -> (po_kind o <> KUdp -> po_closed o = false) ->
  px_close r id <> None.
Proof.
  intros r id o HI Ho Hc. unfold px_close. rewrite Ho. destruct (po_kind o) eqn:EK.
  - rewrite Hc by discriminate. destruct (String.eqb_spec (po_group o) "") as [EG|NG]; [discriminate|].
    destruct (oi_member _ HI id o) as [tg [S [I T]]]; [repeat split; auto; apply Hc; discriminate|].
    unfold close_group_listener. rewrite S. apply zmem_In in I. rewrite I. simpl.
    destruct (zrem id (tg_lns tg)); discriminate.
  - destruct (po_closed o); discriminate.
  - rewrite Hc by discriminate. discriminate.
Qed.

(* ---- the reported address is a bound address, later group members included ---- *)
Theorem reported_addr_is_bound_addr_full : forall r q r' id real,
  OInv r -> px_run r q = Some (r', XOk id real) ->
  match xq_kind q with
  | KTcp => In (0, real) (rc_bound r')
  | KUdp => In (1, real) (rc_bound r')
  | KOther => True
  end.
Proof.
  intros r q r' id real HI H. pose proof (reported_addr_is_bound_addr _ _ _ _ _ H) as R.
  destruct (xq_kind q) eqn:EK; try assumption.
  destruct R as [R|[tg [S [L ->]]]]; [assumption|].
  (* a later member: the group's claim is bound, and joining changes no binding *)
  assert (Bd : In (0, tg_real tg) (rc_bound r)).
  { apply (oi_bound _ HI (inr (xq_group q))). exists tg. repeat split; assumption. }
  unfold px_run in H. rewrite EK in H.
  destruct (String.eqb_spec (xq_group q) "") as [EG|NG].
  - unfold tcp_run in H.
    repeat match type of H with
           | context [match ?c with _ => _ end] => destruct c
           end; inversion H; subst; rsimpl; right; assumption.
  - unfold group_listen in H. rewrite S in H. destruct (tg_lns tg) eqn:EL; [congruence|].
    repeat match type of H with
           | context [if ?c then _ else _] => destruct c
           end; inversion H; subst; rsimpl; assumption.
Qed.
