(* C16 (2): the translated allocation code of NewControl never asks for a negative channel size,
   and equals the reference model. *)
From Coq Require Import ZArith Lia Bool.
From FRP Require Import Model.Alloc gen.GenAlloc.
Open Scope Z_scope.

Lemma gen_pool_count_spec : forall login maxp, 0 <= maxp ->
  gen_pool_count login maxp = al_pool_count login maxp.
Proof.
  intros login maxp Hm. unfold gen_pool_count, al_pool_count.
  destruct (login >? maxp) eqn:E1.
  - destruct (maxp <? 0) eqn:E2; lia.
  - destruct (login <? 0) eqn:E2; lia.
Qed.

Lemma gen_chan_cap_spec : forall p, gen_chan_cap p = al_chan_cap p.
Proof. intros p. unfold gen_chan_cap, al_chan_cap, al_pool_slack. lia. Qed.

Lemma pool_count_bounds : forall login maxp, 0 <= maxp ->
  0 <= al_pool_count login maxp <= maxp /\ al_pool_count login maxp <= Z.max 0 login.
Proof. intros. unfold al_pool_count. lia. Qed.

Lemma chan_cap_nonneg : forall login maxp, 0 <= maxp ->
  al_makechan_ok (gen_chan_cap (gen_pool_count login maxp)) = true.
Proof.
  intros login maxp Hm. rewrite gen_chan_cap_spec, gen_pool_count_spec by exact Hm.
  unfold al_makechan_ok, al_chan_cap, al_pool_slack.
  pose proof (pool_count_bounds login maxp Hm). apply Z.leb_le. lia.
Qed.

(* non-vacuity / regression witness: without the lower clamp the size would be negative *)
Example unclamped_would_panic : al_makechan_ok (al_chan_cap (Z.min (-100) 5)) = false.
Proof. reflexivity. Qed.
