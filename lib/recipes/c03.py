import os
from vlib import Check, V

PID = "C03"

MANIFEST = dict(
    text="Machine-checked theorems (Coq 8.16.1) over an executable model of the UDP tunnel: base64 (encode/decode implemented in Coq, "
         "round trip for all byte lists, length 4*ceil(n/3)), the UDPPacket message through C17's object/frame codec with a concrete "
         "JSON renderer (payload, boundaries and addresses survive whenever 4*ceil(n/3)+overhead <= 10240; every payload <= 1500 fits), "
         "and a state machine of ForwardUserConn, the work-connection pumps and Forwarder (per-user socket map keyed by the printed "
         "address, 1024-slot queues with drop-when-full, work-connection replacement) for which, over all event histories: datagrams "
         "handed to the backend are a sub-multiset of those sent (never merged, split, duplicated, truncated), every loss is accounted "
         "to a full queue or a dying work connection, the socket map is injective, a reply is tagged with the address that created "
         "the socket and reaches that user only, closed sockets never speak again.  Tied to the code by a differential harness: real "
         "NewUDPPacket/GetContent/WriteMsg/ReadMsg vs the model byte for byte; real ForwardUserConn+Forwarder back to back vs the "
         "model's light-load schedule; in-process frps+frpc (udp, sudp+visitor; encryption/compression/tcpMux) with forced "
         "work-connection replacement under the property monitors.",
    note="Partial: kernel UDP delivery (loss under overload, ephemeral-port reuse by the OS for a later socket) is outside the model; "
         "the harness runs at light load and asserts arrival.  The claim is made for payloads whose base64 frame fits the 10 KiB "
         "message bound (stated in the theorems).  encoding/json's parser is an oracle constrained pointwise; the renderer is concrete "
         "and compared byte for byte.  Trusted: Coq kernel+VM, translator T1, harness transcription.",
    technique="Coq proof (induction over histories, counting invariants, reflection over the translated schema) + differential correspondence via vm_compute; translator unit c03udp (loop-exit statements of the reply goroutine, WriteMsg arguments on the work connection, client reader decoding)",
    design="4/C03")


def q(tier, quick, thorough):
    return quick if tier == "quick" else thorough


FINDING_KEY = "udp.Forwarder:write-after-idle-close"
TIMING_KEYS = (":lost", ":not-established", ":not-reestablished", ":setup", "mismatch:udp:code27")


def timing_only(f):
    return any(k in f.get("key", "") for k in TIMING_KEYS)


def recipe(c: Check):
    c.build(["Properties/C03.vo", "Corr/C03.vo"], harness=["c03"], units=["t1", "c03udp"])
    c.obligations("C03")
    n0 = len(c.failures)
    st = c.run_driver("udp", q(c.tier, 240, 3000), shards=q(c.tier, 8, 16), timeout=q(c.tier, 300, 1500))
    # arrival within a time limit is a runtime-residue observation (DESIGN section 3): if ONLY such observations
    # failed, the run is repeated on the same seed; it is reported only if it fails three times in a row
    for attempt in (2, 3):
        new = c.failures[n0:]
        if not (new and all(timing_only(f) for f in new)):
            break
        c.notes.append("attempt %d: only arrival-time observations failed (%s); re-running on the same seed" % (
            attempt - 1, ", ".join(sorted({f.get("key", "") for f in new}))))
        del c.failures[n0:]
        st = c.run_driver("udp", q(c.tier, 240, 3000), shards=q(c.tier, 8, 16), timeout=q(c.tier, 300, 1500))
    if st is not None:
        # the idle-boundary finding (C03_drop_only_when_full_or_replacing_refuted): the driver replays the model's
        # witness on the real udp.Forwarder through the gate udp.forwarder.before_write
        fb = st.get("finding_idle_boundary") or {}
        gate = False
        try:
            gate = "udp.forwarder.before_write" in open(os.path.join(os.environ.get("VERIF_REPO", "/repo"), "pkg/proto/udp/udp.go")).read()
        except OSError:
            pass
        if fb.get("reproduced"):
            # recorded in KNOWN_FINDINGS.txt under this key: vlib prints the KNOWN-FINDING line
            c.failures.append(dict(key=FINDING_KEY, driver="udp", what=fb.get("what"), case=fb.get("case")))
        elif gate and fb.get("gate_seen"):
            c.notes.append("finding %s did not reproduce on this run (the code at the gate no longer loses the datagram)" % FINDING_KEY)
        cnt = c.cov.get("coq_counters", {}).get("udp", {})
        if gate and cnt.get("NRACE", 0) < 1 and not c.broken:
            c.broken.append(dict(kind="coverage", name="the idle-boundary replay did not run although the gate is compiled in", detail=str(fb)))
        # sanity of the check itself: the branches the property names must have been reached
        need = dict(NPKT=50, NOVERSIZE=1, NDECERR=5, NFWD=3, NSYS=4, NIDLE=1, NSOCKETS=6, NFULL=1, NCAP=1, NREPLYLOOP=1, NREFUSED=2, NALPHABET=1, NCFGSIZE=4, NREPLACE=2)
        for k, v in need.items():
            if cnt.get(k, 0) < v and not c.broken:
                c.broken.append(dict(kind="coverage", name="counter %s=%s below %s: a branch the property names was not exercised" % (k, cnt.get(k, 0), v),
                                     detail=str(cnt)))
    return c.finish(
        rule="driver udp, part (i): real udp.NewUDPPacket + msg.WriteMsg/ReadMsg + udp.GetContent for payload sizes 0..39, random <= 1501, "
             "and around the 10240-byte frame bound (7.4-9 KB), arbitrary / uniform / alphabet-end bytes, nil / v4 / v4-in-16 / v6 / zoned / "
             "zero addresses, compared with Model.Udp (content, wire bytes = frame + concrete JSON text, accept/ErrMaxMsgLength) and "
             "udp.GetContent on valid and damaged base64 (foreign char, dropped char, CR/LF inserted, URL alphabet, no padding, trailing "
             "bytes, trailing bits, '=' inside) compared with Model.Base64.b64_decode. Part (ii) fwd: real udp.ForwardUserConn + udp.Forwarder "
             "back to back through real WriteMsg/ReadMsg, 2-5 loopback user sockets on 127.0.3.x (two behind one IP), xor echo backend, bursts; "
             "the model run on the light-load schedule must produce the observed backend log (socket <-> source port by first appearance) and "
             "per-user reply logs. Part full: nobody drains sendCh while 1032..1087 datagrams arrive at the real ForwardUserConn: exactly the "
             "first 1024 are kept and later delivered in order, the rest dropped (model: DSendFull); every make(chan, N) of the four "
             "proxy/visitor files has N = 1024 = the model's uqcap. Part idle: the Forwarder's 30 s read deadline elapses for real, late datagrams to the old ports, new sockets "
             "afterwards, compared with the model run containing ESockIdle. Part (iii) sys: in-process frps + real frpc, udp and sudp+visitor, "
             "encryption/compression/tcpMux variants, work connection replaced mid-stream (server-side accessor / relay kill), evaluated by the "
             "in every variant once under traffic and once silently (udp: datagrams sent a second after the server installed the new "
             "connection must all arrive; sudp: the visitor connection is cut after traffic and nothing sent earlier may show up again); the "
             "very first datagram of every tunnel is a recorded one. Evaluated by the "
             "monitors C03_holds in Coq and in Go (payload equality, no duplicate, one socket one user, reply to the originating user only, "
             "arrival at light load outside the replacement window, per-user order without replacement). "
             "Part replyloop: replies the OS refuses to send (port 0, nil address, broadcast) are pushed into readCh of the real "
             "ForwardUserConn between ordinary round trips; every later reply must still reach its user (model rl_run). Part alphabet: a "
             "scripted frpc sends Pings on a real udp work connection of frps while user datagrams arrive; everything frps writes there must be "
             "a UDPPacket. Part heartbeat: real frps+frpc udp tunnel observed across frpc's 30 s work-connection heartbeat (background): the "
             "backend receives only what users sent. Part race: the witness of C03_drop_only_when_full_or_replacing_refuted replayed on the real udp.Forwarder (loop held at the gate "
             "between mu.Unlock and Write while the socket's real 30 s deadline expires), compared with the lock-granularity model. "
             "distinct = distinct case text; non-trivial = non-empty payload/content",
        assumptions=["encoding/json parser is an oracle constrained pointwise in C03_datagram_roundtrip (it inverts the concrete renderer on the text at hand); the renderer is compared byte for byte on every run",
                     "kernel UDP: loss under overload and ephemeral port reuse are outside the model; the harness runs at light load"])
