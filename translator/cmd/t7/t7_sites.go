package main

// T7 (route construction sites): server/proxy/http.go, server/proxy/tcpmux.go, server/group/http.go,
// server/group/tcpmux.go -> GenRouteSites.v
//
//	http_route_sites, tcpmux_route_sites : list ha_site_stmt   one row per vhost.RouteConfig value reaching a registration
//	    call (HTTPReverseProxy.Register, HTTPGroupCtl.Register, TCPMuxHTTPConnectMuxer.Listen, TCPMuxGroupCtl.Listen), with
//	    the source expression held by Username / Password / RouteByHTTPUser / Domain at that point
//	http_group_compared, tcpmux_group_compared : list string   the RouteConfig fields a group compares before admitting a joiner
//
// The analysis is a small ordered abstract interpretation of the Run functions: RouteConfig literals, field assignments,
// copies, range variables, and calls of functions of the same file (parameters bound to the arguments, records included).
// A RouteConfig reaching a registration through anything else is an SUnknownSite.

import (
	"veriftranslator/tx"

	"bytes"
	"fmt"
	"go/ast"
	"go/parser"
	"go/token"
	"path/filepath"
	"strings"
)

type srec map[string]string

type senv struct {
	recs map[string]srec
	syms map[string]string
}

func newSenv() *senv { return &senv{recs: map[string]srec{}, syms: map[string]string{}} }

type sitesCtx struct {
	fset  *token.FileSet
	rel   string
	proxy string
	funcs map[string]*ast.FuncDecl
	stack map[string]bool
	rows  []string
}

func (c *sitesCtx) resolve(e ast.Expr, env *senv) string {
	switch x := e.(type) {
	case *ast.Ident:
		if v, ok := env.syms[x.Name]; ok {
			return v
		}
		return x.Name
	case *ast.SelectorExpr:
		if id, ok := x.X.(*ast.Ident); ok {
			if r, ok := env.recs[id.Name]; ok {
				return r[x.Sel.Name]
			}
		}
		if st, ok := x.X.(*ast.StarExpr); ok {
			if id, ok := st.X.(*ast.Ident); ok {
				if r, ok := env.recs[id.Name]; ok {
					return r[x.Sel.Name]
				}
			}
		}
		return c.resolve(x.X, env) + "." + x.Sel.Name
	case *ast.BinaryExpr:
		return c.resolve(x.X, env) + " " + x.Op.String() + " " + c.resolve(x.Y, env)
	case *ast.BasicLit:
		return x.Value
	case *ast.ParenExpr:
		return "(" + c.resolve(x.X, env) + ")"
	}
	return "?" + src(c.fset, e)
}

func isRouteConfigType(e ast.Expr) bool {
	switch x := e.(type) {
	case *ast.SelectorExpr:
		return x.Sel.Name == "RouteConfig"
	case *ast.Ident:
		return x.Name == "RouteConfig"
	}
	return false
}

func (c *sitesCtx) recordOf(e ast.Expr, env *senv) (srec, bool) {
	switch x := e.(type) {
	case *ast.Ident:
		if r, ok := env.recs[x.Name]; ok {
			cp := srec{}
			for k, v := range r {
				cp[k] = v
			}
			return cp, true
		}
	case *ast.UnaryExpr:
		if x.Op == token.AND {
			return c.recordOf(x.X, env)
		}
	case *ast.StarExpr:
		return c.recordOf(x.X, env)
	case *ast.ParenExpr:
		return c.recordOf(x.X, env)
	case *ast.CompositeLit:
		if isRouteConfigType(x.Type) {
			r := srec{}
			for _, el := range x.Elts {
				kv, ok := el.(*ast.KeyValueExpr)
				if !ok {
					r["?positional"] = src(c.fset, el)
					continue
				}
				if k, ok := kv.Key.(*ast.Ident); ok {
					r[k.Name] = c.resolve(kv.Value, env)
				}
			}
			return r, true
		}
	}
	return nil, false
}

func (c *sitesCtx) emitSite(callee string, r srec) {
	dom := r["Domain"]
	dk := "DUnknownDomain " + tx.CoqString(dom)
	switch {
	case strings.Contains(dom, "range pxy.cfg.CustomDomains") && !strings.Contains(dom, "SubDomain"):
		dk = "DCustom"
	case strings.Contains(dom, "pxy.cfg.SubDomain") && strings.Contains(dom, "SubDomainHost") && !strings.Contains(dom, "range "):
		dk = "DSubdomain"
	}
	if _, bad := r["?positional"]; bad {
		c.rows = append(c.rows, fmt.Sprintf("  SUnknownSite %s %s", tx.CoqString(c.rel), tx.CoqString("positional RouteConfig literal reaching "+callee)))
		return
	}
	c.rows = append(c.rows, fmt.Sprintf("  SSite {| rs_file := %s; rs_proxy := %s; rs_callee := %s; rs_grouped := %v; rs_domain := %s; rs_user := %s; rs_pass := %s; rs_byuser := %s |}",
		tx.CoqString(c.rel), tx.CoqString(c.proxy), tx.CoqString(callee), strings.Contains(callee, "GroupCtl"), dk,
		tx.CoqString(r["Username"]), tx.CoqString(r["Password"]), tx.CoqString(r["RouteByHTTPUser"])))
}

func (c *sitesCtx) handleCalls(n ast.Node, env *senv) {
	if n == nil {
		return
	}
	ast.Inspect(n, func(x ast.Node) bool {
		if _, ok := x.(*ast.FuncLit); ok {
			return false // closures registered for later (close functions) are not part of Run's registrations
		}
		call, ok := x.(*ast.CallExpr)
		if !ok {
			return true
		}
		sel, ok := call.Fun.(*ast.SelectorExpr)
		if !ok {
			return true
		}
		name, recv := sel.Sel.Name, srcFull(c.fset, sel.X)
		isReg := (name == "Register" && (strings.HasSuffix(recv, "HTTPReverseProxy") || strings.HasSuffix(recv, "HTTPGroupCtl"))) ||
			(name == "Listen" && (strings.HasSuffix(recv, "TCPMuxGroupCtl") || strings.HasSuffix(recv, "TCPMuxHTTPConnectMuxer")))
		if isReg {
			callee := recv[strings.LastIndex(recv, ".")+1:] + "." + name
			if len(call.Args) == 0 {
				c.rows = append(c.rows, fmt.Sprintf("  SUnknownSite %s %s", tx.CoqString(c.rel), tx.CoqString(callee+" without arguments")))
				return true
			}
			r, ok := c.recordOf(call.Args[len(call.Args)-1], env)
			if !ok {
				c.rows = append(c.rows, fmt.Sprintf("  SUnknownSite %s %s", tx.CoqString(c.rel),
					tx.CoqString(callee+" with a route config of unknown origin: "+src(c.fset, call.Args[len(call.Args)-1]))))
				return true
			}
			c.emitSite(callee, r)
			return true
		}
		if fd, ok := c.funcs[name]; ok && fd.Body != nil {
			if c.stack[name] {
				return true
			}
			inner := newSenv()
			i := 0
			for _, f := range fd.Type.Params.List {
				for _, pn := range f.Names {
					if i < len(call.Args) {
						if r, ok := c.recordOf(call.Args[i], env); ok {
							inner.recs[pn.Name] = r
						} else {
							inner.syms[pn.Name] = c.resolve(call.Args[i], env)
						}
					}
					i++
				}
			}
			c.stack[name] = true
			c.walk(fd.Body.List, inner, false)
			delete(c.stack, name)
			return true
		}
		// a RouteConfig handed to anything else escapes the analysis
		if name != "UnRegister" {
			for _, a := range call.Args {
				if _, ok := c.recordOf(a, env); ok {
					c.rows = append(c.rows, fmt.Sprintf("  SUnknownSite %s %s", tx.CoqString(c.rel),
						tx.CoqString("route config passed to "+recv+"."+name)))
				}
			}
		}
		return true
	})
}

var credFields = map[string]bool{"Username": true, "Password": true, "RouteByHTTPUser": true}

func (c *sitesCtx) walk(stmts []ast.Stmt, env *senv, conditional bool) {
	for _, s := range stmts {
		switch st := s.(type) {
		case *ast.AssignStmt:
			for _, r := range st.Rhs {
				c.handleCalls(r, env)
			}
			if len(st.Lhs) == 1 && len(st.Rhs) == 1 {
				if se, ok := st.Lhs[0].(*ast.SelectorExpr); ok {
					if id, ok := se.X.(*ast.Ident); ok {
						if r, ok := env.recs[id.Name]; ok {
							v := c.resolve(st.Rhs[0], env)
							if conditional && credFields[se.Sel.Name] {
								v = "?conditional " + v
							}
							r[se.Sel.Name] = v
						}
					}
					continue
				}
				if id, ok := st.Lhs[0].(*ast.Ident); ok {
					if r, ok := c.recordOf(st.Rhs[0], env); ok {
						env.recs[id.Name] = r
					} else if _, isCall := st.Rhs[0].(*ast.CallExpr); !isCall {
						delete(env.recs, id.Name)
						env.syms[id.Name] = c.resolve(st.Rhs[0], env)
					}
				}
			}
		case *ast.RangeStmt:
			if v, ok := st.Value.(*ast.Ident); ok {
				env.syms[v.Name] = "range " + c.resolve(st.X, env)
			}
			c.walk(st.Body.List, env, conditional)
		case *ast.ForStmt:
			c.walk(st.Body.List, env, conditional)
		case *ast.IfStmt:
			if st.Init != nil {
				c.walk([]ast.Stmt{st.Init}, env, conditional)
			}
			c.handleCalls(st.Cond, env)
			c.walk(st.Body.List, env, true)
			if st.Else != nil {
				c.walk([]ast.Stmt{st.Else}, env, true)
			}
		case *ast.BlockStmt:
			c.walk(st.List, env, conditional)
		case *ast.SwitchStmt:
			for _, cc := range st.Body.List {
				if cl, ok := cc.(*ast.CaseClause); ok {
					c.walk(cl.Body, env, true)
				}
			}
		case *ast.DeclStmt:
		default:
			c.handleCalls(s, env)
		}
	}
}

func analyseSites(rel, proxy, entry string) ([]string, error) {
	fset := token.NewFileSet()
	f, err := parser.ParseFile(fset, filepath.Join(tx.Repo, rel), nil, 0)
	if err != nil {
		return nil, err
	}
	c := &sitesCtx{fset: fset, rel: rel, proxy: proxy, funcs: map[string]*ast.FuncDecl{}, stack: map[string]bool{}}
	for _, d := range f.Decls {
		if fd, ok := d.(*ast.FuncDecl); ok {
			c.funcs[fd.Name.Name] = fd
		}
	}
	fd, ok := c.funcs[entry]
	if !ok || fd.Body == nil {
		return nil, fmt.Errorf("%s: function %s not found", rel, entry)
	}
	c.stack[entry] = true
	c.walk(fd.Body.List, newSenv(), false)
	// RouteConfig literals in functions the walk never reached
	reached := map[string]bool{}
	_ = reached
	return c.rows, nil
}

// groupCompared: the fields of routeConfig compared with the group's in every `if` that answers ErrGroupParamsInvalid
func groupCompared(rel, fn string) ([]string, error) {
	fset := token.NewFileSet()
	f, err := parser.ParseFile(fset, filepath.Join(tx.Repo, rel), nil, 0)
	if err != nil {
		return nil, err
	}
	var out []string
	found := false
	for _, d := range f.Decls {
		fd, ok := d.(*ast.FuncDecl)
		if !ok || fd.Name.Name != fn || fd.Body == nil {
			continue
		}
		if fn == "Register" && (fd.Recv == nil || !strings.Contains(srcFull(fset, fd.Recv.List[0].Type), "HTTPGroup") ||
			strings.Contains(srcFull(fset, fd.Recv.List[0].Type), "Controller")) {
			continue
		}
		found = true
		ast.Inspect(fd.Body, func(n ast.Node) bool {
			is, ok := n.(*ast.IfStmt)
			if !ok {
				return true
			}
			mentions := false
			ast.Inspect(is.Body, func(m ast.Node) bool {
				if id, ok := m.(*ast.Ident); ok && id.Name == "ErrGroupParamsInvalid" {
					mentions = true
				}
				return true
			})
			if !mentions {
				return true
			}
			var leaves func(e ast.Expr)
			leaves = func(e ast.Expr) {
				if p, ok := e.(*ast.ParenExpr); ok {
					leaves(p.X)
					return
				}
				be, ok := e.(*ast.BinaryExpr)
				if ok && be.Op == token.LOR {
					leaves(be.X)
					leaves(be.Y)
					return
				}
				if ok && be.Op == token.NEQ {
					for _, side := range []ast.Expr{be.X, be.Y} {
						if se, ok := side.(*ast.SelectorExpr); ok {
							if id, ok := se.X.(*ast.Ident); ok && id.Name == "routeConfig" {
								out = append(out, se.Sel.Name)
								return
							}
						}
						if id, ok := side.(*ast.Ident); ok && id.Name == "group" {
							out = append(out, "group")
							return
						}
					}
				}
				out = append(out, "?"+src(fset, e))
			}
			leaves(is.Cond)
			return true
		})
	}
	if !found {
		return nil, fmt.Errorf("%s: function %s not found", rel, fn)
	}
	return out, nil
}

func genRouteSites() ([]byte, error) {
	var b bytes.Buffer
	b.WriteString("(* generated by translator unit t7 from server/proxy/{http,tcpmux}.go and server/group/{http,tcpmux}.go — do not edit *)\n")
	b.WriteString("From FRP Require Import Model.HttpAuthSites.\nOpen Scope string_scope.\n\n")
	for _, u := range []struct{ def, rel, proxy, entry string }{
		{"http_route_sites", "server/proxy/http.go", "http", "Run"},
		{"tcpmux_route_sites", "server/proxy/tcpmux.go", "tcpmux", "Run"},
	} {
		rows, err := analyseSites(u.rel, u.proxy, u.entry)
		if err != nil {
			return nil, err
		}
		fmt.Fprintf(&b, "Definition %s : list ha_site_stmt := [\n%s\n].\n\n", u.def, strings.Join(rows, ";\n"))
	}
	for _, u := range []struct{ def, rel, fn string }{
		{"http_group_compared", "server/group/http.go", "Register"},
		{"tcpmux_group_compared", "server/group/tcpmux.go", "HTTPConnectListen"},
	} {
		fs, err := groupCompared(u.rel, u.fn)
		if err != nil {
			return nil, err
		}
		items := make([]string, len(fs))
		for i, s := range fs {
			items[i] = tx.CoqString(s)
		}
		fmt.Fprintf(&b, "Definition %s : ha_group_compared := [%s].\n", u.def, strings.Join(items, "; "))
	}
	facts, err := muxerHandleFacts()
	if err != nil {
		return nil, err
	}
	b.WriteString("\n(* pkg/util/vhost/vhost.go Muxer.handle: how often it looks a listener up, where it sends the connection, against which\n   listener it checks the credentials, and what it does when the hand-over fails *)\n")
	b.WriteString("Definition muxer_handle_facts : list (string * Z) := [\n")
	for i, f := range facts {
		sep := ";"
		if i == len(facts)-1 {
			sep = ""
		}
		fmt.Fprintf(&b, "  (%s, %d%%Z)%s\n", tx.CoqString(f.k), f.v, sep)
	}
	b.WriteString("].\n")
	return b.Bytes(), nil
}

type mfact struct {
	k string
	v int
}

func muxerHandleFacts() ([]mfact, error) {
	rel := "pkg/util/vhost/vhost.go"
	fset := token.NewFileSet()
	f, err := parser.ParseFile(fset, filepath.Join(tx.Repo, rel), nil, 0)
	if err != nil {
		return nil, err
	}
	var fd *ast.FuncDecl
	for _, d := range f.Decls {
		if x, ok := d.(*ast.FuncDecl); ok && x.Name.Name == "handle" && x.Recv != nil && strings.Contains(srcFull(fset, x.Recv.List[0].Type), "Muxer") {
			fd = x
		}
	}
	if fd == nil || fd.Body == nil {
		return nil, fmt.Errorf("%s: Muxer.handle not found", rel)
	}
	lookups, sends, sendsOnVar, otherSends, checks, checksOnVar, failureCloses := 0, 0, 0, 0, 0, 0, 0
	lookupVar := ""
	ast.Inspect(fd.Body, func(n ast.Node) bool {
		switch x := n.(type) {
		case *ast.AssignStmt:
			if len(x.Rhs) == 1 {
				if ce, ok := x.Rhs[0].(*ast.CallExpr); ok {
					if se, ok := ce.Fun.(*ast.SelectorExpr); ok && se.Sel.Name == "getListener" && len(x.Lhs) > 0 && lookupVar == "" {
						lookupVar = exprName(x.Lhs[0])
					}
				}
			}
		case *ast.CallExpr:
			if se, ok := x.Fun.(*ast.SelectorExpr); ok {
				switch se.Sel.Name {
				case "getListener":
					lookups++
				case "checkAuth":
					checks++
					args := ""
					for _, a := range x.Args {
						args += srcFull(fset, a) + ","
					}
					if lookupVar != "" && strings.Contains(args, lookupVar+".username,") && strings.Contains(args, lookupVar+".password,") {
						checksOnVar++
					}
				}
			}
		case *ast.SendStmt:
			ch := srcFull(fset, x.Chan)
			if strings.HasSuffix(ch, ".accept") {
				sends++
				if lookupVar != "" && ch == lookupVar+".accept" {
					sendsOnVar++
				}
			} else {
				otherSends++
			}
		}
		return true
	})
	// the statement right after the hand-over: `if err != nil { … c.Close() … }` without another lookup or send
	stmts := fd.Body.List
	for i, st := range stmts {
		as, ok := st.(*ast.AssignStmt)
		if !ok || len(as.Rhs) != 1 {
			continue
		}
		hasSend := false
		ast.Inspect(as.Rhs[0], func(n ast.Node) bool {
			if _, ok := n.(*ast.SendStmt); ok {
				hasSend = true
			}
			return true
		})
		if !hasSend || i+1 >= len(stmts) {
			continue
		}
		is, ok := stmts[i+1].(*ast.IfStmt)
		if !ok || srcFull(fset, is.Cond) != "err != nil" || is.Else != nil {
			continue
		}
		closes, bad := false, false
		ast.Inspect(is.Body, func(n ast.Node) bool {
			switch x := n.(type) {
			case *ast.SendStmt:
				bad = true
			case *ast.CallExpr:
				if se, ok := x.Fun.(*ast.SelectorExpr); ok {
					if se.Sel.Name == "getListener" {
						bad = true
					}
					if se.Sel.Name == "Close" && srcFull(fset, se.X) == "c" {
						closes = true
					}
				}
			}
			return true
		})
		if closes && !bad && i+2 == len(stmts) {
			failureCloses = 1
		}
	}
	return []mfact{{"lookups", lookups}, {"accept_sends", sends}, {"accept_sends_on_lookup_result", sendsOnVar}, {"other_sends", otherSends},
		{"credential_checks", checks}, {"credential_checks_on_lookup_result", checksOnVar}, {"handover_failure_closes_and_ends", failureCloses}}, nil
}
