(* C16 (2): the allocation code of NewControl, as translated today (gen/GenAlloc.v, unit T8a), never asks
   for a negative channel size and equals the reference model, for EVERY client value and EVERY server
   maximum (negative ones included).  The script is generic (unfold, case split on every condition, linear
   arithmetic): it goes through for any equivalent rewriting of the clamp and fails for any that computes
   something else. *)
From Coq Require Import ZArith Lia Bool.
From FRP Require Import Model.Alloc gen.GenAlloc.
Open Scope Z_scope.

Ltac alloc_cases :=
  cbv beta zeta delta [gen_pool_count gen_chan_cap gen_alloc_env];
  repeat match goal with
         | |- context [if ?b then _ else _] => destruct b eqn:?
         | H : context [if ?b then _ else _] |- _ => destruct b eqn:?
         end; lia.

Lemma gen_pool_count_spec : forall login maxp,
  gen_pool_count login maxp = al_pool_count login maxp.
Proof. intros login maxp. unfold al_pool_count. alloc_cases. Qed.

Lemma gen_chan_cap_spec : forall login maxp,
  gen_chan_cap login maxp = al_chan_cap (al_pool_count login maxp).
Proof. intros login maxp. unfold al_chan_cap, al_pool_slack, al_pool_count. alloc_cases. Qed.

Lemma pool_count_bounds : forall login maxp,
  0 <= al_pool_count login maxp /\ al_pool_count login maxp <= Z.max 0 maxp /\
  al_pool_count login maxp <= Z.max 0 login.
Proof. intros. unfold al_pool_count. lia. Qed.

Lemma chan_cap_nonneg : forall login maxp,
  al_makechan_ok (gen_chan_cap login maxp) = true.
Proof.
  intros login maxp. rewrite gen_chan_cap_spec.
  unfold al_makechan_ok, al_chan_cap, al_pool_slack.
  pose proof (pool_count_bounds login maxp). apply Z.leb_le. lia.
Qed.

(* non-vacuity / regression witness: without the lower clamp the size would be negative *)
Example unclamped_would_panic : al_makechan_ok (al_chan_cap (Z.min (-100) 5)) = false.
Proof. reflexivity. Qed.
