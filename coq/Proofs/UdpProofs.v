(* C03: proofs about Model/Udp.v, part 1 (packets, text, frame). *)
From FRP Require Import Model.Udp Proofs.FrameProofs Proofs.MsgObjProofs Proofs.Base64Proofs.
From Coq Require Import Lia ZifyBool ZifyNat.
Open Scope Z_scope.

Ltac Zify.zify_post_hook ::= Z.div_mod_to_equations.

(** * today's schema is the one the packet model is written against *)

Definition udp_addr_fields : list field :=
  [("IP", "IP", KStr, false); ("Port", "Port", KInt, false); ("Zone", "Zone", KStr, false)]%string.
Definition udp_fields_expected : list field :=
  [("Content", "c", KStr, true); ("LocalAddr", "l", KPtr udp_addr_fields, true);
   ("RemoteAddr", "r", KPtr udp_addr_fields, true)]%string.

(* reflective: breaks when pkg/msg/msg.go changes the UDPPacket struct or its json tags *)
Lemma udp_fields_eq : udp_fields = udp_fields_expected.
Proof. vm_compute. reflexivity. Qed.

Lemma udp_schema_wf : schema_wf udp_fields = true.
Proof. vm_compute. reflexivity. Qed.

Lemma upacket_vals_typed p : typed_fields_with typed udp_fields (upacket_vals p) = true.
Proof.
  rewrite udp_fields_eq. destruct p as [c [[lip lport lzone]|] [[rip rport rzone]|]]; reflexivity.
Qed.

Lemma upacket_of_vals_vals p : upacket_of_vals (upacket_vals p) = Some p.
Proof. destruct p as [c [[lip lport lzone]|] [[rip rport rzone]|]]; reflexivity. Qed.

Lemma udp_obj_roundtrip p :
  dec_obj udp_fields (enc_obj udp_fields (upacket_vals p)) = Some (upacket_vals p).
Proof. apply obj_roundtrip; [apply udp_schema_wf|apply upacket_vals_typed]. Qed.

(** * length of the JSON text *)

Lemma length_jquote s : length (jquote s) = S (S (length s)).
Proof. unfold jquote. cbn [length]. rewrite app_length. cbn. lia. Qed.

Lemma udp_text_len p :
  blen (udp_text p) <= blen (up_content p) + udp_overhead (up_laddr p) (up_raddr p).
Proof.
  unfold udp_text. rewrite udp_fields_eq. destruct p as [c l r].
  unfold upacket_vals, udp_overhead, uaddr_overhead, blen.
  destruct c as [|c0 cs]; destruct l as [[lip lport lzone]|]; destruct r as [[rip rport rzone]|];
    cbn [enc_obj enc_fields_with udp_fields_expected udp_addr_fields is_empty andb enc_val option_map uaddr_vals
         up_content up_laddr up_raddr ua_ip ua_port ua_zone jtext jjoin jquote bs list_byte_of_string];
    repeat (rewrite ?app_length, ?length_jquote; cbn [length]);
    repeat match goal with |- context [length (bs ?s)] =>
      let n := eval vm_compute in (length (bs s)) in change (length (bs s)) with n end;
    lia.
Qed.

(* the explicit size condition: base64 length plus the bytes around it *)
Lemma udp_fits_of_size d l r :
  b64_len (blen d) + udp_overhead l r <= max_len ->
  upacket_fits (new_udp_packet d l r) = true.
Proof.
  intros H. unfold upacket_fits.
  pose proof (udp_text_len (new_udp_packet d l r)) as Hl. cbn [new_udp_packet up_content up_laddr up_raddr] in Hl.
  rewrite b64_encode_length in Hl. lia.
Qed.

Lemma udp_dec_port_len z : 0 <= z <= 65535 -> 1 <= blen (udp_dec z) <= 5.
Proof.
  intros H. unfold udp_dec, blen. destruct (Z.ltb_spec z 0); [lia|].
  cbn [udp_dec_pos].
  repeat (first [ lia
                | match goal with |- context [if ?c <? 10 then _ else _] =>
                    destruct (Z.ltb_spec c 10) end; cbn [length] ]).
Qed.

(* an address as the kernel / net.UDPAddr can produce it: textual IP (v6 with an embedded v4
   is the longest: 45), interface name as zone *)
Definition uaddr_small (a : option uaddr) : Prop :=
  match a with
  | None => True
  | Some a => blen (ua_ip a) <= 45 /\ 0 <= ua_port a <= 65535 /\ blen (ua_zone a) <= 64
  end.

Lemma uaddr_small_overhead a : uaddr_small a -> 0 <= uaddr_overhead a <= 146.
Proof.
  destruct a as [[ip port zone]|]; unfold uaddr_small, uaddr_overhead; cbn [ua_ip ua_port ua_zone]; [|lia].
  intros (H1 & H2 & H3). pose proof (udp_dec_port_len port H2).
  pose proof (blen_nonneg ip). pose proof (blen_nonneg zone). lia.
Qed.

(* every payload up to the default udpPacketSize (1500) satisfies the size condition *)
Lemma udp_default_size_fits d l r :
  blen d <= 1500 -> uaddr_small l -> uaddr_small r ->
  b64_len (blen d) + udp_overhead l r <= max_len.
Proof.
  intros Hd Hl Hr. apply uaddr_small_overhead in Hl, Hr.
  unfold udp_overhead, b64_len, max_len. pose proof (blen_nonneg d). lia.
Qed.

(* ... and so does every payload up to 7500 bytes from an address of the same class when
   LocalAddr is nil (what the tunnel sends) *)
Lemma udp_size_fits_7500 d r :
  blen d <= 7500 -> uaddr_small r ->
  b64_len (blen d) + udp_overhead None r <= max_len.
Proof.
  intros Hd Hr. apply uaddr_small_overhead in Hr.
  unfold udp_overhead, b64_len, max_len. cbn [uaddr_overhead]. pose proof (blen_nonneg d). lia.
Qed.

(** * the message round trip *)

Section Msg.
  Variable reg : byte -> bool.
  Variable parse : bytes -> option (list (bytes * jv)).

  Theorem udp_msg_roundtrip p rest :
    reg udp_type_byte = true ->
    parse (udp_text p) = Some (enc_obj udp_fields (upacket_vals p)) ->
    upacket_fits p = true ->
    udp_decode_msg reg parse (udp_encode_msg p ++ rest) = UDOk p rest.
  Proof.
    intros Hreg Hparse Hfit. unfold udp_decode_msg, udp_encode_msg, upacket_fits in *.
    rewrite (frame_roundtrip reg udp_type_byte (udp_text p) rest Hreg) by lia.
    cbn [d_type d_body d_rest]. rewrite byte_eqb_refl. cbn [negb].
    rewrite Hparse, udp_obj_roundtrip, upacket_of_vals_vals. reflexivity.
  Qed.

  Theorem udp_datagram_roundtrip d l r rest :
    reg udp_type_byte = true ->
    parse (udp_text (new_udp_packet d l r)) =
      Some (enc_obj udp_fields (upacket_vals (new_udp_packet d l r))) ->
    b64_len (blen d) + udp_overhead l r <= max_len ->
    exists p, udp_decode_msg reg parse (udp_encode_msg (new_udp_packet d l r) ++ rest) = UDOk p rest /\
              get_content p = Some d /\ up_laddr p = l /\ up_raddr p = r.
  Proof.
    intros Hreg Hparse Hsize. exists (new_udp_packet d l r). split; [|split; [|split]]; try reflexivity.
    - apply udp_msg_roundtrip; try assumption. apply udp_fits_of_size. exact Hsize.
    - unfold get_content. cbn [new_udp_packet up_content]. apply b64_roundtrip.
  Qed.

  (* a frame that does not fit is refused by the receiving side, whatever the parser does *)
  Theorem udp_oversize_rejected p rest :
    reg udp_type_byte = true -> upacket_fits p = false -> blen (udp_text p) < 2 ^ 63 ->
    udp_decode_msg reg parse (udp_encode_msg p ++ rest) = UDFrameErr ErrMaxLen.
  Proof.
    intros Hreg Hfit Hbig. unfold udp_decode_msg, udp_encode_msg, encode_frame, upacket_fits in *.
    cbn [app]. rewrite <- app_assoc.
    destruct (oversize_rejected reg udp_type_byte (blen (udp_text p)) (udp_text p ++ rest) Hreg ltac:(lia)) as [c Hc].
    rewrite Hc. reflexivity.
  Qed.
End Msg.

Lemma get_content_new d l r : get_content (new_udp_packet d l r) = Some d.
Proof. unfold get_content. cbn. apply b64_roundtrip. Qed.

(** * the printed address identifies an IPv4 user *)

Definition udp_undec (l : bytes) : Z := fold_left (fun acc b => acc * 10 + (Z_of_byte b - 48)) l 0.

Lemma udp_digit_val d : 0 <= d < 10 -> Z_of_byte (udp_digit d) = 48 + d.
Proof. intros H. unfold udp_digit. rewrite Z_of_byte_of_Z. lia. Qed.

Lemma udp_undec_dec z : 0 <= z <= 65535 -> udp_undec (udp_dec z) = z.
Proof.
  intros H. unfold udp_dec. destruct (Z.ltb_spec z 0); [lia|].
  cbn [udp_dec_pos].
  repeat (first [ lia
                | match goal with |- context [if ?c <? 10 then _ else _] =>
                    destruct (Z.ltb_spec c 10) end ]);
    unfold udp_undec; cbn [fold_left]; rewrite ?udp_digit_val by lia; lia.
Qed.

Lemma udp_dec_inj z z' : 0 <= z <= 65535 -> 0 <= z' <= 65535 -> udp_dec z = udp_dec z' -> z = z'.
Proof. intros H H' E. rewrite <- (udp_undec_dec z H), <- (udp_undec_dec z' H'). now rewrite E. Qed.

Lemma split_at_colon (a a' x x' : bytes) :
  bytes_has ":"%byte a = false -> bytes_has ":"%byte a' = false ->
  a ++ ":"%byte :: x = a' ++ ":"%byte :: x' -> a = a' /\ x = x'.
Proof.
  revert a'. induction a as [|c a IH]; intros [|c' a']; cbn [app bytes_has]; intros Ha Ha' E.
  - inversion E. auto.
  - inversion E; subst. rewrite byte_eqb_refl in Ha'. discriminate.
  - inversion E; subst. rewrite byte_eqb_refl in Ha. discriminate.
  - inversion E; subst. apply orb_false_iff in Ha, Ha'. destruct (IH a') as [-> ->]; tauto.
Qed.

(* IPv4 form: no ':' in the IP text, no zone, port in range *)
Definition uaddr_v4 (a : uaddr) : Prop :=
  bytes_has ":"%byte (ua_ip a) = false /\ ua_zone a = [] /\ 0 <= ua_port a <= 65535.

Theorem uaddr_string_inj_v4 a b :
  uaddr_v4 a -> uaddr_v4 b -> uaddr_string (Some a) = uaddr_string (Some b) -> a = b.
Proof.
  destruct a as [ip port zone], b as [ip' port' zone']. unfold uaddr_v4. cbn [ua_ip ua_port ua_zone].
  intros (Hc & -> & Hp) (Hc' & -> & Hp'). cbn [uaddr_string ua_ip ua_port ua_zone]. rewrite Hc, Hc'.
  intros E. apply split_at_colon in E; try assumption. destruct E as [-> E].
  apply udp_dec_inj in E; try assumption. now subst.
Qed.

(** * the printed address identifies the user: IPv4, IPv6 and zoned addresses *)

Lemma split_at_byte (c : byte) (a a' x x' : bytes) :
  bytes_has c a = false -> bytes_has c a' = false ->
  a ++ c :: x = a' ++ c :: x' -> a = a' /\ x = x'.
Proof.
  revert a'. induction a as [|b a IH]; intros [|b' a']; cbn [app bytes_has]; intros Ha Ha' E.
  - inversion E. auto.
  - inversion E; subst. rewrite byte_eqb_refl in Ha'. discriminate.
  - inversion E; subst. rewrite byte_eqb_refl in Ha. discriminate.
  - inversion E; subst. apply orb_false_iff in Ha, Ha'. destruct (IH a') as [-> ->]; tauto.
Qed.

Lemma bytes_has_app c a b : bytes_has c (a ++ b) = bytes_has c a || bytes_has c b.
Proof. induction a as [|x a IH]; cbn [app bytes_has]; [reflexivity|]. now rewrite IH, orb_assoc. Qed.

(* what net.IP.String / MarshalText can print, and an interface name without ']' or '%' *)
Definition uip_char (b : byte) : bool :=
  let n := Z_of_byte b in
  ((48 <=? n) && (n <=? 57)) || ((97 <=? n) && (n <=? 102)) || ((65 <=? n) && (n <=? 70)) || (n =? 58) || (n =? 46).
Definition uaddr_wf (a : uaddr) : Prop :=
  forallb uip_char (ua_ip a) = true /\
  bytes_has "]"%byte (ua_zone a) = false /\ 0 <= ua_port a <= 65535.

Lemma uip_no (c : byte) ip : uip_char c = false -> forallb uip_char ip = true -> bytes_has c ip = false.
Proof.
  intros Hc. induction ip as [|b ip IH]; cbn [forallb bytes_has]; [reflexivity|].
  intros H. apply andb_true_iff in H. destruct H as [Hb H]. rewrite (IH H), orb_false_r.
  destruct (Byte.eqb b c) eqn:E; [|reflexivity]. apply Byte.byte_dec_bl in E. subst. congruence.
Qed.

Definition uhost (a : uaddr) : bytes :=
  match ua_zone a with [] => ua_ip a | z => ua_ip a ++ "%"%byte :: z end.

Lemma uaddr_string_host a :
  uaddr_string (Some a) =
  if bytes_has ":"%byte (uhost a)
  then "["%byte :: uhost a ++ "]"%byte :: ":"%byte :: udp_dec (ua_port a)
  else uhost a ++ ":"%byte :: udp_dec (ua_port a).
Proof. reflexivity. Qed.

Lemma uhost_inj a b :
  forallb uip_char (ua_ip a) = true -> forallb uip_char (ua_ip b) = true ->
  uhost a = uhost b -> ua_ip a = ua_ip b /\ ua_zone a = ua_zone b.
Proof.
  intros Ha Hb. pose proof (uip_no "%"%byte _ eq_refl Ha) as Pa. pose proof (uip_no "%"%byte _ eq_refl Hb) as Pb.
  unfold uhost. destruct (ua_zone a) as [|z zs], (ua_zone b) as [|z' zs']; intros E.
  - auto.
  - exfalso. rewrite E, bytes_has_app in Pa. cbn in Pa. rewrite orb_true_r in Pa. discriminate.
  - exfalso. rewrite <- E, bytes_has_app in Pb. cbn in Pb. rewrite orb_true_r in Pb. discriminate.
  - apply split_at_byte in E; assumption.
Qed.

Lemma uhost_no_bracket a : uaddr_wf a -> bytes_has "]"%byte (uhost a) = false.
Proof.
  intros (Hip & Hz & _). pose proof (uip_no "]"%byte _ eq_refl Hip) as P.
  unfold uhost. destruct (ua_zone a) as [|z zs] eqn:E; [exact P|].
  rewrite bytes_has_app, P. cbn [orb bytes_has]. exact Hz.
Qed.

Theorem uaddr_string_inj a b :
  uaddr_wf a -> uaddr_wf b -> uaddr_string (Some a) = uaddr_string (Some b) -> a = b.
Proof.
  intros Wa Wb. rewrite !uaddr_string_host.
  pose proof (uhost_no_bracket a Wa) as Ba. pose proof (uhost_no_bracket b Wb) as Bb.
  destruct Wa as (Ia & Za & Pa), Wb as (Ib & Zb & Pb).
  assert (Fin : uhost a = uhost b -> udp_dec (ua_port a) = udp_dec (ua_port b) -> a = b).
  { intros Eh Ed. apply uhost_inj in Eh; try assumption. destruct Eh as [E1 E2].
    apply udp_dec_inj in Ed; try assumption. destruct a, b; cbn in *; congruence. }
  destruct (bytes_has ":"%byte (uhost a)) eqn:Ca, (bytes_has ":"%byte (uhost b)) eqn:Cb; intros E.
  - inversion E as [E']. apply split_at_byte in E'; try assumption. destruct E' as [Eh Er].
    inversion Er. auto.
  - (* "[..." against a host without ':' : the first character differs *)
    exfalso. destruct (uhost b) as [|c hb] eqn:Hb0; cbn [app] in E; [inversion E|].
    inversion E as [[Ec Et]]. subst c.
    (* '[' is the first character of b's host: impossible *)
    unfold uhost in Hb0. destruct (ua_ip b) as [|i ib] eqn:Eib.
    + destruct (ua_zone b); cbn in Hb0; [discriminate|inversion Hb0].
    + cbn [forallb] in Ib. apply andb_true_iff in Ib. destruct Ib as [Ic _].
      destruct (ua_zone b); cbn [app] in Hb0; inversion Hb0; subst i; discriminate Ic.
  - exfalso. destruct (uhost a) as [|c ha] eqn:Ha0; cbn [app] in E; [inversion E|].
    inversion E as [[Ec Et]]. subst c.
    unfold uhost in Ha0. destruct (ua_ip a) as [|i ia] eqn:Eia.
    + destruct (ua_zone a); cbn in Ha0; [discriminate|inversion Ha0].
    + cbn [forallb] in Ia. apply andb_true_iff in Ia. destruct Ia as [Ic _].
      destruct (ua_zone a); cbn [app] in Ha0; inversion Ha0; subst i; discriminate Ic.
  - apply split_at_byte in E; try assumption. destruct E as [Eh Er]. auto.
Qed.
