(* C06 — the clauses of the property text, one lemma each, all over arbitrary histories of Add/Del;
   and the laws of CanonicalHost (letter case, port suffix, trailing dot). *)
From FRP Require Import Model.Router Model.RouteSpec Proofs.RouterProofs Proofs.RouteSpecProofs.
From Coq Require Import Lia.
Open Scope Z_scope.

Section Clauses.
  Context {P : Type}.
  Notation route := (route P).
  Notation rstate := (rstate P).
  Variable hist : list (rt_op P).
  Let s := rt_run hist.

  Lemma rc_best h p u r : rt_get_vhost s h p u = Some r -> rq_is_best (fun x => In x (rt_abs s)) r h p u.
  Proof. intro H. apply rq_is_best_abs; [apply rp_run_wf|]. apply rq_get_vhost_best; [apply rp_run_wf|exact H]. Qed.

  (* never a route that does not match; the route returned is a registered one *)
  Lemma rc_never_nonmatching h p u r : rt_get_vhost s h p u = Some r ->
    In r (rt_abs s) /\ rs_matches r h p u = true.
  Proof. intro H. destruct (rc_best _ _ _ _ H) as [A [B _]]. auto. Qed.

  (* refused exactly when nothing matches *)
  Lemma rc_unmatched_is_none h p u :
    rt_get_vhost s h p u = None <-> forall r, In r (rt_abs s) -> rs_matches r h p u = false.
  Proof.
    split.
    - intros H r Hr. apply (rq_get_vhost_none s h p u (rp_run_wf hist) H). apply rp_in_abs; [apply rp_run_wf|exact Hr].
    - intro H. destruct (rt_get_vhost s h p u) as [r|] eqn:G; [|reflexivity].
      destruct (rc_never_nonmatching _ _ _ _ G) as [A B]. rewrite (H _ A) in B. discriminate.
  Qed.

  Lemma rc_most_specific h p u r : rt_get_vhost s h p u = Some r ->
    forall r', In r' (rt_abs s) -> rs_matches r' h p u = true ->
               r' = r \/ rs_lt3 (rs_score r' h p u) (rs_score r h p u) = true.
  Proof. intro H. destruct (rc_best _ _ _ _ H) as [_ [_ C]]. exact C. Qed.

  Lemma rc_lt3_inv (a1 a2 a3 b1 b2 b3 : Z) : rs_lt3 (a1, a2, a3) (b1, b2, b3) = true ->
    a1 < b1 \/ (a1 = b1 /\ (a2 < b2 \/ (a2 = b2 /\ a3 < b3))).
  Proof.
    unfold rs_lt3. intro H.
    destruct (a1 <? b1) eqn:E1; [left; lia|]. right.
    destruct (a1 =? b1) eqn:E2; [|discriminate]. split; [lia|].
    destruct (a2 <? b2) eqn:E3; [left; lia|]. right.
    destruct (a2 =? b2) eqn:E4; [|discriminate]. split; [lia|].
    simpl in H. lia.
  Qed.

  Lemma rc_wild_len pat h : rs_wild_matches pat h = true -> 3 <= blen pat <= blen h + 1.
  Proof.
    unfold rs_wild_matches. destruct pat as [|st [|d S]]; try discriminate; [rewrite andb_false_r; discriminate|].
    intro H. apply andb_true_iff in H as [_ H]. apply andb_true_iff in H as [H H3]. apply andb_true_iff in H as [_ H4].
    apply rq_suffix_iff in H3 as [X ->]. apply rq_has_split in H4 as [A [B ->]].
    rewrite !rq_blen_cons, !rq_blen_app, !rq_blen_cons, rq_blen_app, rq_blen_cons.
    pose proof (rq_blen_nonneg A). pose proof (rq_blen_nonneg B). pose proof (rq_blen_nonneg X). lia.
  Qed.

  Lemma rc_dom_score_cases pat h : rs_dom_matches pat h = true ->
    (pat = h /\ rs_dom_score pat h = blen h + 2) \/
    (pat <> h /\ rs_dom_score pat h = blen pat /\ 1 <= blen pat <= blen h + 1 /\ (pat = rt_star \/ 3 <= blen pat)).
  Proof.
    intro H. unfold rs_dom_score. destruct (bytes_eqb pat h) eqn:E.
    - left. apply rp_eqb_eq in E. auto.
    - right. apply rp_eqb_neq in E. split; [exact E|]. split; [reflexivity|].
      unfold rs_dom_matches in H. apply orb_true_iff in H as [H|H]; [apply orb_true_iff in H as [H|H]|].
      + apply rp_eqb_eq in H. contradiction.
      + apply rp_eqb_eq in H. subst pat. pose proof (rq_blen_nonneg h). unfold rt_star, blen in *. simpl. split; [lia|]. left; reflexivity.
      + apply rc_wild_len in H. split; [lia|]. right; lia.
  Qed.

  (* exact host before wildcard: if some route registered for exactly this host matches, the chosen one is exact *)
  Lemma rc_exact_before_wildcard h p u r r' : rt_get_vhost s h p u = Some r ->
    In r' (rt_abs s) -> rs_matches r' h p u = true -> rt_dom r' = lower h -> rt_dom r = lower h.
  Proof.
    intros G Hin Hm E. destruct (rc_most_specific _ _ _ _ G _ Hin Hm) as [->|Hlt]; [exact E|].
    destruct (rc_never_nonmatching _ _ _ _ G) as [_ Hmr].
    apply rq_matches_parts in Hmr as [M1 _]. apply rq_matches_parts in Hm as [M1' _].
    unfold rs_score in Hlt. apply rc_lt3_inv in Hlt.
    destruct (rc_dom_score_cases _ _ M1) as [[A B]|[A [B [C _]]]]; [exact A|].
    destruct (rc_dom_score_cases _ _ M1') as [[A' B']|[A' _]]; [|contradiction]. lia.
  Qed.

  (* longer wildcard suffix before shorter, the catch-all last: among non-exact matches the chosen pattern is the longest *)
  Lemma rc_longer_wildcard_first h p u r r' : rt_get_vhost s h p u = Some r ->
    In r' (rt_abs s) -> rs_matches r' h p u = true -> rt_dom r <> lower h ->
    rt_dom r' <> lower h /\ blen (rt_dom r') <= blen (rt_dom r).
  Proof.
    intros G Hin Hm Hne. split.
    - intro E. apply Hne. eapply rc_exact_before_wildcard; eauto.
    - destruct (rc_most_specific _ _ _ _ G _ Hin Hm) as [->|Hlt]; [lia|].
      destruct (rc_never_nonmatching _ _ _ _ G) as [_ Hmr].
      apply rq_matches_parts in Hmr as [M1 _]. apply rq_matches_parts in Hm as [M1' _].
      unfold rs_score in Hlt. apply rc_lt3_inv in Hlt.
      destruct (rc_dom_score_cases _ _ M1) as [[A B]|[A [B [C _]]]]; [contradiction|].
      destruct (rc_dom_score_cases _ _ M1') as [[A' B']|[A' [B' _]]]; lia.
  Qed.

  Lemma rc_catch_all_last h p u r r' : rt_get_vhost s h p u = Some r -> rt_dom r = rt_star -> lower h <> rt_star ->
    In r' (rt_abs s) -> rs_matches r' h p u = true -> rt_dom r' = rt_star.
  Proof.
    intros G Hstar Hne Hin Hm.
    assert (Hne' : rt_dom r <> lower h) by congruence.
    destruct (rc_longer_wildcard_first _ _ _ _ _ G Hin Hm Hne') as [A B].
    apply rq_matches_parts in Hm as [M1' _].
    destruct (rc_dom_score_cases _ _ M1') as [[A' _]|[_ [_ [_ [C|C]]]]]; [contradiction|exact C|].
    rewrite Hstar in B. unfold rt_star, blen in B. simpl in B. unfold blen in C. lia.
  Qed.

  (* within a host: routes restricted to the request's user before unrestricted ones *)
  Lemma rc_user_specific_first h p u r r' : rt_get_vhost s h p u = Some r ->
    In r' (rt_abs s) -> rs_matches r' h p u = true -> rt_dom r' = rt_dom r -> rt_user r' = u -> rt_user r = u.
  Proof.
    intros G Hin Hm D U. destruct (rc_most_specific _ _ _ _ G _ Hin Hm) as [->|Hlt]; [exact U|].
    unfold rs_score in Hlt. apply rc_lt3_inv in Hlt. rewrite D in Hlt.
    unfold rs_user_score in Hlt. rewrite U, rp_eqb_refl in Hlt.
    destruct (bytes_eqb (rt_user r) u) eqn:E; [apply rp_eqb_eq; exact E|lia].
  Qed.

  (* within those: the longest location prefix *)
  Lemma rc_longest_location h p u r r' : rt_get_vhost s h p u = Some r ->
    In r' (rt_abs s) -> rs_matches r' h p u = true -> rt_dom r' = rt_dom r -> rt_user r' = rt_user r ->
    r' = r \/ blen (rt_loc r') < blen (rt_loc r).
  Proof.
    intros G Hin Hm D U. destruct (rc_most_specific _ _ _ _ G _ Hin Hm) as [->|Hlt]; [left; reflexivity|]. right.
    unfold rs_score in Hlt. apply rc_lt3_inv in Hlt. rewrite D, U in Hlt. lia.
  Qed.

  (* a wildcard needs two fixed labels: "*.tld" is only ever selected for the literal host "*.tld" *)
  Lemma rc_wildcard_needs_two_fixed_labels h p u r T : rt_get_vhost s h p u = Some r ->
    rt_dom r = "*"%byte :: rt_dot :: T -> rt_has rt_dot T = false -> lower h = rt_dom r.
  Proof.
    intros G D HT. destruct (rc_never_nonmatching _ _ _ _ G) as [_ Hm].
    apply rq_matches_parts in Hm as [M1 _]. unfold rs_dom_matches in M1.
    apply orb_true_iff in M1 as [M1|M1]; [apply orb_true_iff in M1 as [M1|M1]|].
    - apply rp_eqb_eq in M1. auto.
    - apply rp_eqb_eq in M1. rewrite D in M1. discriminate.
    - rewrite D in M1. unfold rs_wild_matches in M1. rewrite HT in M1. rewrite ?andb_false_r in M1. simpl in M1.
      rewrite ?andb_false_r in M1. discriminate.
  Qed.

  (* triples are unique in the table *)
  Lemma rc_triple_unique a b : In a (rt_abs s) -> In b (rt_abs s) ->
    rt_dom a = rt_dom b -> rt_loc a = rt_loc b -> rt_user a = rt_user b -> a = b.
  Proof.
    intros Ha Hb. apply (rp_triple_unique s); [apply rp_run_wf| |]; apply rp_in_abs; auto; apply rp_run_wf.
  Qed.

  Lemma rc_all_lowered r : In r (rt_abs s) -> lower (rt_dom r) = rt_dom r.
  Proof.
    intro H. apply (rp_in_abs s r (rp_run_wf hist)) in H. destruct H as [ut [vrs [L0 _]]].
    destruct (rp_run_wf hist) as [_ W]. destruct (W _ _ L0) as [_ [E _]]. exact E.
  Qed.

  Lemma rc_run_snoc o : rt_run (hist ++ [o]) = rt_step s o.
  Proof. unfold rt_run, s. rewrite fold_left_app. reflexivity. Qed.

  (* a duplicate (host, location, user) triple is refused and the table is unchanged *)
  Lemma rc_add_duplicate_refused_unchanged d l u pay :
    (exists r, In r (rt_abs s) /\ rt_dom r = lower d /\ rt_loc r = l /\ rt_user r = u) ->
    rt_add s d l u pay = None /\ rt_run (hist ++ [RAdd d l u pay]) = s.
  Proof.
    intros [r [Hin E]].
    assert (A : rt_add s d l u pay = None).
    { apply (rp_add_none s d l u pay (rp_run_wf hist)). exists r. split; [apply rp_in_abs; [apply rp_run_wf|exact Hin]|exact E]. }
    split; [exact A|]. rewrite rc_run_snoc. simpl. rewrite A. reflexivity.
  Qed.

  (* ... and only then: otherwise the route is added and nothing else changes *)
  Lemma rc_add_fresh_accepted d l u pay :
    (forall r, In r (rt_abs s) -> ~ (rt_dom r = lower d /\ rt_loc r = l /\ rt_user r = u)) ->
    exists s', rt_add s d l u pay = Some s' /\ rt_run (hist ++ [RAdd d l u pay]) = s' /\
      forall r, In r (rt_abs s') <-> (r = mkRoute (lower d) l u pay \/ In r (rt_abs s)).
  Proof.
    intro Hno. destruct (rt_add s d l u pay) as [s'|] eqn:A.
    - exists s'. split; [reflexivity|]. split; [rewrite rc_run_snoc; simpl; rewrite A; reflexivity|].
      destruct (rp_add_ok _ _ _ _ _ _ (rp_run_wf hist) A) as [Hwf' Hin'].
      intro r. rewrite (rp_in_abs s' r Hwf'), (rp_in_abs s r (rp_run_wf hist)). apply Hin'.
    - apply (rp_add_none s d l u pay (rp_run_wf hist)) in A as [r [Hin E]]. exfalso.
      apply (Hno r); [apply rp_in_abs; [apply rp_run_wf|exact Hin]|exact E].
  Qed.

  (* removing a route removes exactly that triple *)
  Lemma rc_del_removes_exactly_one_triple d l u r :
    In r (rt_abs (rt_run (hist ++ [RDel d l u]))) <->
    (In r (rt_abs s) /\ ~ (rt_dom r = lower d /\ rt_loc r = l /\ rt_user r = u)).
  Proof.
    rewrite rc_run_snoc. simpl.
    destruct (rp_del_ok s d l u (rp_run_wf hist)) as [Hwf' Hin'].
    rewrite (rp_in_abs _ r Hwf'), (rp_in_abs s r (rp_run_wf hist)). apply Hin'.
  Qed.
End Clauses.

Section Clauses2.
  Context {P : Type}.
  Notation route := (route P).

  (* removal takes effect from the next look-up on: the removed triple is never returned again *)
  Lemma rc_del_then_get_never_old (hist : list (rt_op P)) d l u h p u' r :
    rt_get_vhost (rt_run (hist ++ [RDel d l u])) h p u' = Some r ->
    ~ (rt_dom r = lower d /\ rt_loc r = l /\ rt_user r = u).
  Proof.
    intro G. destruct (rc_never_nonmatching _ _ _ _ _ G) as [Hin _].
    apply rc_del_removes_exactly_one_triple in Hin. tauto.
  Qed.

  (* after a route was removed and the same triple registered again, a look-up that selects
     this triple yields the new payload (the new owner), never the former one *)
  Lemma rc_readd_gets_new_owner (hist : list (rt_op P)) d l u p2 h p u' r :
    rt_get_vhost (rt_run ((hist ++ [RDel d l u]) ++ [RAdd d l u p2])) h p u' = Some r ->
    rt_dom r = lower d -> rt_loc r = l -> rt_user r = u -> rt_pay r = p2.
  Proof.
    intros G D L U. destruct (rc_never_nonmatching _ _ _ _ _ G) as [Hin _].
    destruct (rc_add_fresh_accepted (hist ++ [RDel d l u]) d l u p2) as [s' [A [R Hin']]].
    { intros r0 H0. apply rc_del_removes_exactly_one_triple in H0. tauto. }
    rewrite R in Hin. apply Hin' in Hin as [->|Hin]; [reflexivity|].
    apply rc_del_removes_exactly_one_triple in Hin. tauto.
  Qed.

  (* letter case of the request host is ignored *)
  Lemma rc_host_case_insensitive (s : rstate P) h1 h2 p u : lower h1 = lower h2 ->
    rt_get_vhost s h1 p u = rt_get_vhost s h2 p u.
  Proof. intro E. rewrite <- (rq_get_vhost_lower s h1), <- (rq_get_vhost_lower s h2), E. reflexivity. Qed.

  (* letter case of the registered domain is ignored *)
  Lemma rc_add_case_insensitive (s : rstate P) d1 d2 l u pay : lower d1 = lower d2 ->
    rt_add s d1 l u pay = rt_add s d2 l u pay.
  Proof. intro E. unfold rt_add. rewrite E. reflexivity. Qed.

  Lemma rc_del_case_insensitive (s : rstate P) d1 d2 l u : lower d1 = lower d2 ->
    rt_del s d1 l u = rt_del s d2 l u.
  Proof. intro E. unfold rt_del. rewrite E. reflexivity. Qed.
End Clauses2.

(* ---------- CanonicalHost ---------- *)
Lemma rc_lower_keeps (c : byte) : (forall x, Byte.eqb c (lower_byte x) = Byte.eqb c x) ->
  forall s, rt_has c (lower s) = rt_has c s.
Proof.
  intros H s. unfold rt_has, lower. induction s as [|x s IH]; [reflexivity|]. simpl. rewrite H, IH. reflexivity.
Qed.

Lemma rc_colon_lower x : Byte.eqb rt_colon (lower_byte x) = Byte.eqb rt_colon x.
Proof. destruct x; reflexivity. Qed.
Lemma rc_lbr_lower x : Byte.eqb rt_lbr (lower_byte x) = Byte.eqb rt_lbr x.
Proof. destruct x; reflexivity. Qed.
Lemma rc_rbr_lower x : Byte.eqb rt_rbr (lower_byte x) = Byte.eqb rt_rbr x.
Proof. destruct x; reflexivity. Qed.

Lemma rc_canonical_case h : rt_canonical_host (lower h) = rt_canonical_host h.
Proof. unfold rt_canonical_host. rewrite rp_lower_idem. reflexivity. Qed.

Lemma rc_count_zero c s : rt_has c s = false -> rt_count c s = 0.
Proof.
  unfold rt_has, rt_count. induction s as [|x s IH]; [reflexivity|]. simpl.
  destruct (Byte.eqb c x); [discriminate|]. simpl. exact IH.
Qed.

Lemma rc_count_app c a b : rt_count c (a ++ b) = rt_count c a + rt_count c b.
Proof. unfold rt_count. rewrite filter_app, app_length. lia. Qed.

Lemma rc_last_index_app c a b : rt_has c b = false -> rt_last_index c (a ++ c :: b) = Some (length a).
Proof.
  intro Hb.
  assert (Hn : rt_last_index c b = None).
  { unfold rt_has in Hb. induction b as [|x b IH]; [reflexivity|]. simpl in *.
    apply orb_false_iff in Hb as [H1 H2]. rewrite (IH H2), H1. reflexivity. }
  induction a as [|x a IH]; simpl.
  - rewrite Hn, rp_beqb_refl. reflexivity.
  - rewrite IH. reflexivity.
Qed.

Lemma rc_trim_dot_snoc s : rt_trim_dot (s ++ [rt_dot]) = s.
Proof.
  induction s as [|x s IH]; [reflexivity|].
  simpl. destruct (s ++ [rt_dot]) eqn:E; [destruct s; discriminate|]. rewrite IH. reflexivity.
Qed.

Lemma rc_trim_dot_id s : (forall t, s <> t ++ [rt_dot]) -> rt_trim_dot s = s.
Proof.
  induction s as [|x s IH]; intro H; [reflexivity|].
  simpl. destruct s as [|y s'].
  - destruct (Byte.eqb x rt_dot) eqn:E; [|reflexivity]. apply rp_beqb_eq in E; subst. exfalso. apply (H []). reflexivity.
  - f_equal. apply IH. intros t E. apply (H (x :: t)). rewrite E. reflexivity.
Qed.

(* no port: only lower-casing and one trailing dot *)
Lemma rc_canonical_plain h : rt_has rt_colon h = false ->
  rt_canonical_host h = Some (rt_trim_dot (lower h)).
Proof.
  intro H. unfold rt_canonical_host, rt_has_port.
  rewrite (rc_count_zero rt_colon (lower h)) by (rewrite (rc_lower_keeps _ rc_colon_lower); exact H).
  reflexivity.
Qed.

(* the port suffix is ignored (host names and IPv4 literals: no brackets) *)
Lemma rc_port_ignored h port :
  rt_has rt_colon h = false -> rt_has rt_lbr h = false -> rt_has rt_rbr h = false ->
  rt_has rt_colon port = false -> rt_has rt_lbr port = false -> rt_has rt_rbr port = false ->
  rt_canonical_host (h ++ rt_colon :: port) = rt_canonical_host h.
Proof.
  intros H1 H2 H3 P1 P2 P3. rewrite (rc_canonical_plain h H1).
  unfold rt_canonical_host. rewrite rq_lower_app. change (lower (rt_colon :: port)) with (rt_colon :: lower port).
  set (lh := lower h). set (lp := lower port).
  assert (L1 : rt_has rt_colon lh = false) by (unfold lh; rewrite (rc_lower_keeps _ rc_colon_lower); exact H1).
  assert (L2 : rt_has rt_lbr lh = false) by (unfold lh; rewrite (rc_lower_keeps _ rc_lbr_lower); exact H2).
  assert (L3 : rt_has rt_rbr lh = false) by (unfold lh; rewrite (rc_lower_keeps _ rc_rbr_lower); exact H3).
  assert (Q1 : rt_has rt_colon lp = false) by (unfold lp; rewrite (rc_lower_keeps _ rc_colon_lower); exact P1).
  assert (Q2 : rt_has rt_lbr lp = false) by (unfold lp; rewrite (rc_lower_keeps _ rc_lbr_lower); exact P2).
  assert (Q3 : rt_has rt_rbr lp = false) by (unfold lp; rewrite (rc_lower_keeps _ rc_rbr_lower); exact P3).
  assert (HP : rt_has_port (lh ++ rt_colon :: lp) = true).
  { unfold rt_has_port. rewrite rc_count_app.
    change (rt_colon :: lp) with ([rt_colon] ++ lp). rewrite rc_count_app.
    rewrite (rc_count_zero _ _ L1), (rc_count_zero _ _ Q1). reflexivity. }
  rewrite HP. unfold rt_split_host_port. rewrite (rc_last_index_app _ _ _ Q1).
  assert (HF : firstn (length lh) (lh ++ rt_colon :: lp) = lh).
  { rewrite firstn_app, Nat.sub_diag, firstn_all. simpl. apply app_nil_r. }
  assert (HL : rt_has rt_lbr (lh ++ rt_colon :: lp) = false).
  { rewrite rq_has_app, L2. simpl. exact Q2. }
  assert (HR : rt_has rt_rbr (lh ++ rt_colon :: lp) = false).
  { rewrite rq_has_app, L3. simpl. exact Q3. }
  destruct (lh ++ rt_colon :: lp) as [|c0 rest] eqn:E; [destruct lh; discriminate|].
  assert (C0 : Byte.eqb c0 rt_lbr = false).
  { simpl in HL. apply orb_false_iff in HL as [HL _]. rewrite rp_beqb_sym. exact HL. }
  rewrite C0, HF, L1, HL, HR. reflexivity.
Qed.

(* one trailing dot is ignored *)
Lemma rc_trailing_dot_ignored h : rt_has rt_colon h = false -> (forall t, h <> t ++ [rt_dot]) ->
  rt_canonical_host (h ++ [rt_dot]) = rt_canonical_host h /\ rt_canonical_host h = Some (lower h).
Proof.
  intros H1 H2.
  assert (Hd : rt_has rt_colon (h ++ [rt_dot]) = false) by (rewrite rq_has_app, H1; reflexivity).
  rewrite (rc_canonical_plain _ Hd), (rc_canonical_plain _ H1), rq_lower_app.
  change (lower [rt_dot]) with [rt_dot]. rewrite rc_trim_dot_snoc.
  rewrite rc_trim_dot_id; [split; reflexivity|].
  intros t E. unfold lower in E.
  assert (exists t', h = t' ++ [rt_dot]) as [t' Ht']; [|exact (H2 _ Ht')].
  clear - E. revert t E. induction h as [|x h IH]; intros t E.
  - destruct t; discriminate.
  - destruct t as [|y t]; simpl in E.
    + inversion E as [[E1 E2]]. destruct h; [|discriminate]. exists [].
      assert (Byte.eqb (lower_byte x) rt_dot = true) by (rewrite E1; reflexivity).
      rewrite rp_lower_byte_dot in H. apply rp_beqb_eq in H. subst; reflexivity.
    + inversion E as [[E1 E2]]. destruct (IH _ E2) as [t' ->]. exists (x :: t'). reflexivity.
Qed.

(* ---------- the table against the specification's plain route set, as state machines ---------- *)
Section Sim.
  Context {P : Type}.
  Notation route := (route P).

  Definition rc_sim (s : rstate P) (routes : list route) : Prop :=
    rp_wf s /\ forall r, rp_in r s <-> In r routes.

  Lemma rc_triple_is_iff d l u (r : route) :
    rs_triple_is d l u r = true <-> (rt_dom r = d /\ rt_loc r = l /\ rt_user r = u).
  Proof.
    unfold rs_triple_is. rewrite !andb_true_iff, !rp_eqb_eq. tauto.
  Qed.

  Lemma rc_sim_add_none s routes d l u pay : rc_sim s routes ->
    (rt_add s d l u pay = None <-> rs_add routes d l u pay = None).
  Proof.
    intros [Hwf Hs]. rewrite (rp_add_none s d l u pay Hwf). unfold rs_add.
    destruct (existsb (rs_triple_is (lower d) l u) routes) eqn:E.
    - split; [reflexivity|]. intros _. apply existsb_exists in E as [r [Hin Ht]].
      apply rc_triple_is_iff in Ht. exists r. split; [apply Hs; exact Hin|exact Ht].
    - split; [|discriminate]. intros [r [Hin Ht]]. exfalso.
      assert (existsb (rs_triple_is (lower d) l u) routes = true); [|congruence].
      apply existsb_exists. exists r. split; [apply Hs; exact Hin|apply rc_triple_is_iff; exact Ht].
  Qed.

  Lemma rc_sim_step s routes o : rc_sim s routes -> rc_sim (rt_step s o) (rs_step routes o).
  Proof.
    intros Hsim. pose proof Hsim as [Hwf Hs]. destruct o as [d l u pay|d l u]; simpl.
    - pose proof (rc_sim_add_none s routes d l u pay Hsim) as Hn.
      destruct (rt_add s d l u pay) as [s'|] eqn:A; destruct (rs_add routes d l u pay) as [routes'|] eqn:B.
      + destruct (rp_add_ok _ _ _ _ _ _ Hwf A) as [Hwf' Hin']. split; [exact Hwf'|].
        unfold rs_add in B. destruct (existsb _ routes); [discriminate|]. inversion B; subst routes'.
        intro r. rewrite Hin'. simpl. rewrite Hs. intuition.
      + exfalso. assert (Some s' = None) by (apply Hn; reflexivity). discriminate.
      + exfalso. assert (Some routes' = None) by (apply Hn; reflexivity). discriminate.
      + exact Hsim.
    - destruct (rp_del_ok s d l u Hwf) as [Hwf' Hin']. split; [exact Hwf'|].
      intro r. rewrite Hin'. unfold rs_del. rewrite filter_In, Hs, negb_true_iff.
      rewrite <- (rc_triple_is_iff (lower d) l u r).
      destruct (rs_triple_is (lower d) l u r); intuition congruence.
  Qed.

  Lemma rc_sim_fold hist : forall s routes, rc_sim s routes ->
    rc_sim (fold_left rt_step hist s) (fold_left rs_step hist routes).
  Proof. induction hist as [|o h IH]; simpl; intros; [assumption|]. apply IH, rc_sim_step; assumption. Qed.

  Lemma rc_sim_run (hist : list (rt_op P)) : rc_sim (rt_run hist) (rs_run hist).
  Proof.
    apply rc_sim_fold. split; [apply rp_wf_empty|]. intro r. split; [|intros []].
    intros [ut [vrs [L _]]]. discriminate.
  Qed.

  Lemma rc_sim_get_vhost s routes h p u : rc_sim s routes ->
    rt_get_vhost s h p u = rs_best_match routes h p u.
  Proof.
    intros [Hwf Hs]. destruct (rt_get_vhost s h p u) as [r|] eqn:G.
    - symmetry. apply rq_best_match_some. destruct (rq_get_vhost_best s h p u r Hwf G) as [A [B C]].
      split; [apply Hs; exact A|]. split; [exact B|]. intros r' Hr'. apply C. apply Hs; exact Hr'.
    - symmetry. apply rq_best_match_none. intros r' Hr'. apply (rq_get_vhost_none s h p u Hwf G). apply Hs; exact Hr'.
  Qed.

  Theorem rc_table_refines_route_set (hist : list (rt_op P)) :
    (forall r, In r (rt_abs (rt_run hist)) <-> In r (rs_run hist)) /\
    (forall d l u pay, (rt_add (rt_run hist) d l u pay = None <-> rs_add (rs_run hist) d l u pay = None)) /\
    (forall host path user, rt_get_vhost (rt_run hist) host path user = rs_best_match (rs_run hist) host path user).
  Proof.
    pose proof (rc_sim_run hist) as Hsim. pose proof Hsim as [Hwf Hs]. split; [|split].
    - intro r. rewrite (rp_in_abs _ r Hwf). apply Hs.
    - intros. apply rc_sim_add_none; exact Hsim.
    - intros. apply rc_sim_get_vhost; exact Hsim.
  Qed.

  (* the monitor of Corr/C06.v accepts every trace the model produces: observations computed by the
     model from any op list pass the specification-only check *)
End Sim.
