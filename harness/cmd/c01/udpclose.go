package main

// Driver "udpclose" (replay of the repaired finding F-C01a, run by every check):
// client/proxy/udp.go and sudp.go build the limiter wrapper with a close function that captures the
// parameter `conn`, which is REASSIGNED two statements later to the outer wrapper
// (conn = netpkg.WrapReadWriteCloserToConn(rwc, conn)).  Closing the proxy's work connection therefore
// re-enters the outer wrapper (whose once-flag is already set) and the underlying connection is never
// closed.  Translator unit t5 reports the shape as CtReassigned.  Here: the real client proxy code, a
// counting connection, with and without a client-side bandwidth limit.

import (
	"context"
	"fmt"
	"net"
	"sync/atomic"
	"time"

	"github.com/fatedier/frp/client/proxy"
	"github.com/fatedier/frp/pkg/config/types"
	v1 "github.com/fatedier/frp/pkg/config/v1"
	"github.com/fatedier/frp/pkg/msg"
	"verifharness/hx"
)

func init() { drivers["udpclose"] = runUDPClose }

type countConn struct {
	net.Conn
	closes int32
}

func (c *countConn) Close() error {
	atomic.AddInt32(&c.closes, 1)
	return c.Conn.Close()
}

func udpCloseOnce(kind string, limit bool) int32 {
	cc := &v1.ClientCommonConfig{}
	cc.Complete()
	var pc v1.ProxyConfigurer
	if kind == "udp" {
		c := &v1.UDPProxyConfig{}
		c.Name, c.Type, c.LocalIP, c.LocalPort = "u", "udp", "127.0.1.9", 9
		pc = c
	} else {
		c := &v1.SUDPProxyConfig{}
		c.Name, c.Type, c.LocalIP, c.LocalPort = "u", "sudp", "127.0.1.9", 9
		pc = c
	}
	if limit {
		q, _ := types.NewBandwidthQuantity("1MB")
		pc.GetBaseConfig().Transport.BandwidthLimit = q
	}
	pc.Complete("")
	pxy := proxy.NewProxy(context.Background(), pc, cc, nil, nil)
	if pxy == nil || pxy.Run() != nil {
		return -1
	}
	c1, c2 := net.Pipe()
	defer c2.Close()
	cnt := &countConn{Conn: c1}
	go pxy.InWorkConn(cnt, &msg.StartWorkConn{})
	time.Sleep(200 * time.Millisecond)
	pxy.Close()
	time.Sleep(200 * time.Millisecond)
	return atomic.LoadInt32(&cnt.closes)
}

func runUDPClose(cfg *hx.RunCfg) error {
	hx.Quiet()
	var fails []map[string]string
	for _, kind := range []string{"udp", "sudp"} {
		a, b := udpCloseOnce(kind, false), udpCloseOnce(kind, true)
		if a != 1 || b != 1 {
			fails = append(fails, map[string]string{"key": "udp-limiter-close:" + kind,
				"what": fmt.Sprintf("client %s proxy: the underlying work connection received %d Close() calls without and %d with a client-side bandwidth limit after proxy.Close() (expected 1 and 1)", kind, a, b),
				"case": "client/proxy." + kind + " InWorkConn over a counting connection, then Close()"})
		}
		fmt.Printf("%s proxy: Close() calls on the underlying work connection after proxy.Close(): without limit %d, with client-side bandwidth limit %d\n", kind, a, b)
		cfg.St[kind+"_closes_without_limit"] = a
		cfg.St[kind+"_closes_with_limit"] = b
	}
	cfg.St["cases"] = 4
	cfg.St["distinct_nontrivial"] = 4
	cfg.St["impl_failures"] = fails
	cfg.St["samples"] = []string{"udp/sudp client proxy x {no limit, client-side limit}: Close() calls on the underlying work connection"}
	return nil
}
