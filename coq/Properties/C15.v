(* C15 — server plugins gate every operation, fail closed, and see each other's edits.
   Only statements here; proofs live in Proofs/PluginChainProofs.v.  Every theorem is followed
   by Print Assumptions.  gen_ops, gen_fields, gen_register, gen_methods, gen_sites and
   gen_notify_sites are today's translator output (gen/GenPlugin.v, unit T6: the Op* constants,
   Manager's fields, Register, the six loops of pkg/plugin/server/manager.go, and every call of
   the manager under server/). *)
From FRP Require Import Model.PluginChain Proofs.PluginChainProofs gen.GenPlugin.
Import PC.
Open Scope Z_scope.

(** chain_spec: the operation proceeds with c' iff every plugin registered for it accepted, and
    c' is the content threaded through all modifications in order *)
Theorem C15_chain_spec : forall (os : list outcome) (c c' : content),
  fst (run_chain os c) = ROk c' <->
  forallb is_accept os = true /\ c' = fold_left apply_mod os c.
Proof. exact chain_ok_iff. Qed.
Print Assumptions C15_chain_spec.

(** ... otherwise the answer is the refusal of the first plugin that did not accept *)
Theorem C15_chain_result : forall (os : list outcome) (c : content),
  fst (run_chain os c) =
  match first_refusal os with
  | None => ROk (fold_left apply_mod os c)
  | Some o => refusal_of o
  end.
Proof. exact run_chain_result. Qed.
Print Assumptions C15_chain_result.

(** consulted = the prefix of the registered plugins up to and including the first non-accept,
    in registration order; the k-th consulted plugin is shown the content as rewritten by the
    k plugins before it *)
Theorem C15_chain_consulted : forall (os : list outcome) (c : content) (k : nat),
  nth_error (snd (run_chain os c)) k =
  if (k <? length (consulted_prefix os))%nat
  then Some (fold_left apply_mod (firstn k os) c) else None.
Proof. exact run_chain_seen. Qed.
Print Assumptions C15_chain_consulted.

Theorem C15_consulted_prefix_is_up_to_first_refusal : forall os : list outcome,
  exists rest, os = consulted_prefix os ++ rest /\
  forallb is_accept (removelast (consulted_prefix os)) = true /\
  (rest <> [] -> exists o, last (consulted_prefix os) AcceptUnchanged = o /\ is_accept o = false /\
                           consulted_prefix os <> []).
Proof. exact consulted_prefix_spec. Qed.
Print Assumptions C15_consulted_prefix_is_up_to_first_refusal.

(** fail_closed: one reject / transport error / non-200 / malformed reply anywhere among the
    registered plugins and the operation is not allowed *)
Theorem C15_fail_closed : forall (os : list outcome) (o : outcome) (c c' : content),
  In o os -> is_accept o = false -> fst (run_chain os c) <> ROk c'.
Proof. exact fail_closed. Qed.
Print Assumptions C15_fail_closed.

(** ... and the HTTP transport (http.go: Handle, do) maps every failure to a non-accepting outcome *)
Theorem C15_http_fail_closed : forall zero tr status b,
  tr = TFail \/ status <> 200 \/ b = BReadFail \/ b = BGarbage \/
  (exists rs un cf, b = BParsed true rs un cf) \/
  (exists rs, b = BParsed false rs false CFNull) ->
  is_accept (http_outcome zero tr status b) = false.
Proof. exact http_fail_closed. Qed.
Print Assumptions C15_http_fail_closed.

(** ... and never hands the manager a nil content, so no reply of an HTTP plugin can make the
    chain panic (repaired: a `"content": null` reply with unchange=false used to kill frps) *)
Theorem C15_http_never_nil_content : forall zero tr status b,
  http_outcome zero tr status b <> AcceptNilContent.
Proof. exact http_never_nil. Qed.
Print Assumptions C15_http_never_nil_content.

Theorem C15_chain_of_http_plugins_never_panics : forall (os : list outcome) (c : content),
  (forall o, In o os -> o <> AcceptNilContent) -> fst (run_chain os c) <> RCrash.
Proof. exact chain_no_crash. Qed.
Print Assumptions C15_chain_of_http_plugins_never_panics.

Theorem C15_http_accepts_only_200_parsed_not_rejected : forall zero tr status b,
  is_accept (http_outcome zero tr status b) = true ->
  tr = TOk /\ status = 200 /\ exists rs un cf, b = BParsed false rs un cf /\ (un = false -> cf <> CFNull).
Proof. exact http_accept_only_when. Qed.
Print Assumptions C15_http_accepts_only_200_parsed_not_rejected.

(** all_ops_use_the_chain: NewManager + Register + the method of each operation, as translated
    from today's manager.go, is the chain over exactly the plugins registered for that
    operation (CloseProxy: the notification loop) — for all plugin sets, replies and contents.
    Reflective: table_ok is computed on today's tables by the kernel. *)
Theorem C15_all_ops_use_the_chain : forall (o : op) (ps : list plugin) (script : Z -> hret) (c : content),
  ir_sem gen_ops gen_fields gen_register gen_methods o ps script c = spec_sem o ps script c.
Proof. exact (table_ok_sound gen_ops gen_fields gen_register gen_methods (eq_refl true)). Qed.
Print Assumptions C15_all_ops_use_the_chain.

(** unregistered_not_consulted: whoever is consulted for o supports o (and is told o), and the
    consulted plugins are a prefix of the registered ones *)
Theorem C15_unregistered_not_consulted : forall o ps script c i v c0,
  In (i, v, c0) (snd (ir_sem gen_ops gen_fields gen_register gen_methods o ps script c)) ->
  v = op_value o /\ exists p, In p ps /\ fst p = i /\ supports p (op_value o) = true.
Proof. exact (ir_consults_only_registered gen_ops gen_fields gen_register gen_methods (eq_refl true)). Qed.
Print Assumptions C15_unregistered_not_consulted.

Theorem C15_consulted_in_registration_order : forall o ps script c,
  exists k, map (fun x : consult => fst (fst x))
                (snd (ir_sem gen_ops gen_fields gen_register gen_methods o ps script c))
            = firstn k (registered_for o ps).
Proof. exact (ir_consulted_is_prefix gen_ops gen_fields gen_register gen_methods (eq_refl true)). Qed.
Print Assumptions C15_consulted_in_registration_order.

(** server_acts_on_rewritten_content: every call of a gating manager method under server/ binds
    the error, performs its gated action only when the chain said Ok and then on the returned
    content (NewUserConn: only the connection is gated), and refuses otherwise; the five
    handlers the property names are among the call sites. *)
Theorem C15_server_acts_on_rewritten_content :
  (forall s, In s gen_sites ->
     forall r act_ok,
       (forall c, r = ROk c ->
          if String.eqb (s_method s) "NewUserConn" then site_sem s r act_ok = Proceed
          else exists t, site_sem s r act_ok = ActOn c t) /\
       (is_refusal r = true ->
          exists t, site_sem s r act_ok = Refuse t /\ (effect_in_tail (s_method s) = true -> t = false))) /\
  (forall f fn mth, In (f, fn, mth) expected_sites ->
     exists s, In s gen_sites /\ s_file s = f /\ s_func s = fn /\ s_method s = mth).
Proof. exact (sites_checked gen_sites (eq_refl true)). Qed.
Print Assumptions C15_server_acts_on_rewritten_content.

(** close_notifications_cover_all_stops: over every history of registrations, explicit closes
    and a session end (any map iteration order), each started proxy that has stopped was
    notified once per start; one still running has exactly one notification outstanding *)
Theorem C15_close_notifications_cover_all_stops : forall (ops : list cop) (s : cstate),
  crun cs_init ops = Some s ->
  forall n, bcount n (cs_notes s) + pending n s = bcount n (cs_started s).
Proof. exact close_notifications. Qed.
Print Assumptions C15_close_notifications_cover_all_stops.

Theorem C15_session_end_notifies_all : forall ops order later s,
  crun cs_init (ops ++ CSessionEnd order :: later) = Some s ->
  forall n, bcount n (cs_notes s) = bcount n (cs_started s).
Proof. exact session_end_notifies_all. Qed.
Print Assumptions C15_session_end_notifies_all.

(** the two notification sites have the shape the model of section 7 assumes *)
Theorem C15_notify_sites_shape : nsites_ok gen_notify_sites = true.
Proof. exact (eq_refl true). Qed.
Print Assumptions C15_notify_sites_shape.

(** the Manager's notification loop consults every plugin registered for CloseProxy even when an
    earlier one fails *)
Theorem C15_close_proxy_consults_all : forall ps script c,
  map (fun x : consult => fst (fst x))
      (snd (ir_sem gen_ops gen_fields gen_register gen_methods OCloseProxy ps script c))
  = registered_for OCloseProxy ps.
Proof. exact (ir_close_consults_all gen_ops gen_fields gen_register gen_methods (eq_refl true)). Qed.
Print Assumptions C15_close_proxy_consults_all.

(** every_configured_entry_is_consulted: the chain is derived from the CONFIGURATION as the operator
    wrote it -- a list of httpPlugins entries (name, ops) with arbitrary names, duplicates and empty
    names included -- through every place that touches ServerConfig.HTTPPlugins between the decoded
    file and Manager.Register (gen_cfg_uses, T6: the registration loop of NewService, read-only loops,
    and nothing else outside the legacy-INI conversion).  The identity of an entry is its position. *)
Theorem C15_configuration_yields_the_chain : forall o (es : list cfg_entry) script c,
  cfg_sem gen_cfg_uses gen_ops gen_fields gen_register gen_methods o es script c
  = spec_sem o (number_from 1 es) script c.
Proof. exact (cfg_sem_spec gen_cfg_uses gen_ops gen_fields gen_register gen_methods (eq_refl true) (eq_refl true)). Qed.
Print Assumptions C15_configuration_yields_the_chain.

Theorem C15_every_configured_entry_is_consulted : forall o (es : list cfg_entry) script c,
  (is_gating o = false \/
   exists c', fst (cfg_sem gen_cfg_uses gen_ops gen_fields gen_register gen_methods o es script c) = ROk c') ->
  forall i e, nth_error es i = Some e ->
    existsb (String.eqb (op_value o)) (snd e) = true ->
    In (1 + Z.of_nat i)
       (map (fun x : consult => fst (fst x))
            (snd (cfg_sem gen_cfg_uses gen_ops gen_fields gen_register gen_methods o es script c))).
Proof. exact (cfg_every_entry_consulted gen_cfg_uses gen_ops gen_fields gen_register gen_methods (eq_refl true) (eq_refl true)). Qed.
Print Assumptions C15_every_configured_entry_is_consulted.

Theorem C15_configured_entries_consulted_in_order : forall o (es : list cfg_entry) script c,
  exists k, map (fun x : consult => fst (fst x))
                (snd (cfg_sem gen_cfg_uses gen_ops gen_fields gen_register gen_methods o es script c))
            = firstn k (registered_for o (number_from 1 es)).
Proof. exact (cfg_consulted_in_order gen_cfg_uses gen_ops gen_fields gen_register gen_methods (eq_refl true) (eq_refl true)). Qed.
Print Assumptions C15_configured_entries_consulted_in_order.

(** one configured entry that names the operation and does not accept -- whatever its name, wherever
    it stands -- and the operation is refused *)
Theorem C15_configuration_fails_closed : forall o (es : list cfg_entry) script c c' i e,
  is_gating o = true -> nth_error es i = Some e ->
  existsb (String.eqb (op_value o)) (snd e) = true ->
  is_accept (classify (script (1 + Z.of_nat i))) = false ->
  fst (cfg_sem gen_cfg_uses gen_ops gen_fields gen_register gen_methods o es script c) <> ROk c'.
Proof. exact (cfg_fail_closed gen_cfg_uses gen_ops gen_fields gen_register gen_methods (eq_refl true) (eq_refl true)). Qed.
Print Assumptions C15_configuration_fails_closed.

(** hypotheses are satisfiable / the statements are not vacuous *)
Example C15_ex_threading :
  run_chain [AcceptModified (hx "01"); AcceptUnchanged; AcceptModified (hx "02")] (hx "00")
  = (ROk (hx "02"), [hx "00"; hx "01"; hx "01"]).
Proof. reflexivity. Qed.

Example C15_ex_stop_at_first_refusal :
  run_chain [AcceptModified (hx "01"); Non200; AcceptModified (hx "02")] (hx "00")
  = (RError, [hx "00"; hx "01"]).
Proof. reflexivity. Qed.

(* a Go value implementing Plugin that returns a nil content with Unchange=false still panics the
   manager; the only plugin implementation frps registers (httpPlugin) cannot do that any more *)
Example C15_ex_nil_content_from_a_go_plugin_crashes :
  run_chain [AcceptNilContent] (hx "00") = (RCrash, [hx "00"]).
Proof. reflexivity. Qed.

Example C15_ex_http_null_content_refused :
  http_outcome (hx "00") TOk 200 (BParsed false [] false CFNull) = Malformed.
Proof. reflexivity. Qed.

Example C15_ex_ir :
  ir_sem gen_ops gen_fields gen_register gen_methods OPing
         [(1, ["Login"; "Ping"]%string); (2, ["NewProxy"]%string); (3, ["Ping"]%string)]
         (fun i => if i =? 1 then HRes {| h_reject := false; h_reason := []; h_unchange := false; h_content := Some (hx "aa") |}
                   else HErr ENon200) (hx "00")
  = (RError, [(1, "Ping"%string, hx "00"); (3, "Ping"%string, hx "aa")]).
Proof. reflexivity. Qed.

Example C15_ex_notifications :
  exists s, crun cs_init [CRegister (hx "61") true; CRegister (hx "62") true; CClose (hx "61");
                          CRegister (hx "61") true; CSessionEnd [hx "62"; hx "61"]] = Some s /\
            cs_notes s = [hx "61"; hx "62"; hx "61"].
Proof. eexists. split; reflexivity. Qed.

(* two unnamed entries, the second one rejects: both are consulted, the login is refused *)
Example C15_ex_two_unnamed_entries :
  cfg_sem gen_cfg_uses gen_ops gen_fields gen_register gen_methods OLogin
          [(""%string, ["Login"]%string); (""%string, ["Login"]%string)]
          (fun i => if i =? 1 then HRes {| h_reject := false; h_reason := []; h_unchange := true; h_content := None |}
                    else HRes {| h_reject := true; h_reason := hx "6e6f"; h_unchange := true; h_content := None |})
          (hx "00")
  = (RRejected (hx "6e6f"), [(1, "Login"%string, hx "00"); (2, "Login"%string, hx "00")]).
Proof. reflexivity. Qed.
