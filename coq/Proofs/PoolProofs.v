From FRP Require Import Model.Pool.
From Coq Require Import Lia.
Open Scope Z_scope.

Definition qof (s : pst) := ch_q (ps_ch s).

Record Inv (s : pst) : Prop := {
  i_pc : 0 <= ps_pc s;
  i_cap : ch_cap (ps_ch s) = ps_pc s + 10;
  i_len : Z.of_nat (length (qof s)) <= ch_cap (ps_ch s);
  i_nodup : NoDup (qof s);
  i_q : forall c, In c (qof s) <-> ps_fate s c = PInPool;
  i_held : forall t c, pl_holds t (ps_thr s t) c = true <-> ps_fate s c = PHeld t;
  i_bridged : forall u c, ps_user s u = UBridged c <-> ps_fate s c = PDelivered u;
  i_open : forall u p, ps_thr s u = TU p -> p <> UDone -> ps_user s u = UOpen;
  i_done : forall u, ps_thr s u = TU UDone -> ps_user s u = UClosed \/ exists c, ps_user s u = UBridged c;
  i_drained : forall t, ps_thr s t = TT TDel \/ (ps_thr s t = TT TFin /\ ps_crashed s = false) ->
                        ch_closed (ps_ch s) = true /\ qof s = []
}.

Lemma pool_count_nonneg a b : 0 <= pl_pool_count a b.
Proof. unfold pl_pool_count. destruct (a >? b); destruct (_ <? 0) eqn:E; lia. Qed.

Lemma init_inv cfg : Inv (pl_init cfg).
Proof.
  constructor; unfold qof; simpl.
  - apply pool_count_nonneg.
  - reflexivity.
  - pose proof (pool_count_nonneg (cf_client_pc cfg) (cf_server_max cfg)). unfold pl_cap, pl_slack. lia.
  - constructor.
  - intros c. split; [intros []|]. destruct (pl_req_of cfg c) as [[]|]; discriminate.
  - intros t c. unfold pl_init_thr.
    destruct (pl_req_of cfg t) as [[]|] eqn:E; simpl.
    + destruct (Nat.eqb_spec c t).
      * subst. rewrite E. split; auto.
      * split; [discriminate|]. destruct (pl_req_of cfg c) as [[]|]; try discriminate. intros H; inversion H; congruence.
    + split; [discriminate|]. destruct (pl_req_of cfg c) as [[]|] eqn:E2; try discriminate. intros H; inversion H; subst; congruence.
    + split; [discriminate|]. destruct (pl_req_of cfg c) as [[]|] eqn:E2; try discriminate. intros H; inversion H; subst; congruence.
    + split; [discriminate|]. destruct (pl_req_of cfg c) as [[]|] eqn:E2; try discriminate. intros H; inversion H; subst; congruence.
    + split; [discriminate|]. destruct (pl_req_of cfg c) as [[]|] eqn:E2; try discriminate. intros H; inversion H; subst; congruence.
    + split; [discriminate|]. destruct (pl_req_of cfg c) as [[]|] eqn:E2; try discriminate. intros H; inversion H; subst; congruence.
  - intros u c. split.
    + destruct (pl_req_of cfg u) as [[]|]; discriminate.
    + destruct (pl_req_of cfg c) as [[]|]; discriminate.
  - intros u p H _. unfold pl_init_thr in H. destruct (pl_req_of cfg u) as [[]|]; try discriminate; reflexivity.
  - intros u H. unfold pl_init_thr in H. destruct (pl_req_of cfg u) as [[]|]; discriminate.
  - intros t [H|[H _]]; unfold pl_init_thr in H; destruct (pl_req_of cfg t) as [[]|]; discriminate.
Qed.

Ltac eqs := repeat match goal with
  | |- context [Nat.eqb ?a ?b] => destruct (Nat.eqb_spec a b); subst
  | H : context [Nat.eqb ?a ?b] |- _ => destruct (Nat.eqb_spec a b); subst
  end.
Ltac dI I := destruct I as [Ipc Icap Ilen Ind Iq Ih Ib Io Id Idr]; unfold qof in *.

Lemma held_fate s t c : Inv s -> pl_holds t (ps_thr s t) c = true -> ps_fate s c = PHeld t.
Proof. intros I H. apply (i_held s I); exact H. Qed.

Lemma not_held_other s t t' c : Inv s -> ps_fate s c = PHeld t -> t' <> t -> pl_holds t' (ps_thr s t') c = false.
Proof.
  intros I H N. destruct (pl_holds t' (ps_thr s t') c) eqn:E; auto.
  apply (i_held s I) in E. congruence.
Qed.

Definition plain (ts : tstate) : Prop :=
  ts <> TU UDone /\ ts <> TT TDel /\ ts <> TT TFin.
(* a user-thread state may only be entered from a user-thread state *)
Definition user_ok (old new : tstate) : Prop :=
  forall p, new = TU p -> exists p0, old = TU p0 /\ p0 <> UDone.

(* fields the invariant does not mention *)
Lemma inv_set_disp s r : Inv s -> Inv (set_disp s r).
Proof. intros I; dI I; constructor; auto. Qed.
Lemma inv_set_mapped s b : Inv s -> Inv (set_mapped s b).
Proof. intros I; dI I; constructor; auto. Qed.
Lemma inv_set_ddone s b : Inv s -> Inv (set_ddone s b).
Proof. intros I; dI I; constructor; auto. Qed.

(* K1: only the program counter of t moves, the set of connections it references stays *)
Lemma inv_thr s t ts' : Inv s ->
  (forall c, pl_holds t ts' c = pl_holds t (ps_thr s t) c) -> plain ts' -> user_ok (ps_thr s t) ts' ->
  Inv (set_thr s t ts').
Proof.
  intros I Hh [P1 [P2 P3]] U. dI I. constructor; unfold qof; simpl; auto.
  - intros t0 c. unfold upd. eqs; [rewrite Hh|]; apply Ih.
  - intros u p. unfold upd. eqs; [|apply Io]. intros E N. destruct (U p E) as [p0 [E0 N0]]. eapply Io; eauto.
  - intros u. unfold upd. eqs; [intros E; congruence|apply Id].
  - intros t0. unfold upd. eqs; [intros [E|[E _]]; congruence|apply Idr].
Qed.

(* K2: thread t gives up the connection c it references: closes it *)
Lemma inv_release_closed s t c ts' : Inv s ->
  pl_holds t (ps_thr s t) c = true -> (forall c', pl_holds t ts' c' = false) ->
  (forall c', c' <> c -> pl_holds t (ps_thr s t) c' = false) ->
  plain ts' -> user_ok (ps_thr s t) ts' ->
  Inv (set_thr (set_fate s c PClosed) t ts').
Proof.
  intros I Hc Hn Ho [P1 [P2 P3]] U.
  pose proof (held_fate _ _ _ I Hc) as Hf.
  pose proof (fun t' => not_held_other s t t' c I Hf) as Hoth.
  dI I. constructor; unfold qof; simpl; auto.
  - intros c0. unfold upd. eqs; [|apply Iq]. rewrite Iq. split; congruence.
  - intros t0 c0. unfold upd. eqs.
    + rewrite Hn. split; discriminate.
    + rewrite Hn. rewrite <- Ih. rewrite Ho; auto. split; discriminate.
    + rewrite Hoth; auto. split; discriminate.
    + apply Ih.
  - intros u c0. unfold upd. eqs; [|apply Ib]. rewrite Ib. split; congruence.
  - intros u p. unfold upd. eqs; [|apply Io]. intros E N. destruct (U p E) as [p0 [E0 N0]]. eapply Io; eauto.
  - intros u. unfold upd. eqs; [intros E; congruence|apply Id].
  - intros t0. unfold upd. eqs; [intros [E|[E _]]; congruence|apply Idr].
Qed.

Lemma NoDup_app_single {A} (l : list A) (a : A) : NoDup l -> ~ In a l -> NoDup (l ++ [a]).
Proof.
  induction l as [|x l IH]; simpl; intros N H.
  - constructor; [intros []|constructor].
  - inversion N; subst. constructor.
    + rewrite in_app_iff. simpl. intros [H1|[H1|[]]]; [auto|subst; auto].
    + apply IH; auto.
Qed.

Lemma inv_add_log s e : Inv s -> Inv (add_log s e).
Proof. intros I; dI I; constructor; auto. Qed.

(* K2b: the arrival thread t puts its connection into the pool *)
Lemma inv_pooled s t : Inv s -> ps_thr s t = TW WSend ->
  ch_closed (ps_ch s) = false -> Z.of_nat (length (ch_q (ps_ch s))) < ch_cap (ps_ch s) ->
  Inv (set_thr (set_fate (set_ch s {| ch_cap := ch_cap (ps_ch s); ch_q := ch_q (ps_ch s) ++ [t]; ch_closed := false |}) t PInPool) t (TW WDone)).
Proof.
  intros I Et Hcl Hlen.
  assert (Hc : pl_holds t (ps_thr s t) t = true) by (rewrite Et; simpl; apply Nat.eqb_refl).
  pose proof (held_fate _ _ _ I Hc) as Hf.
  pose proof (fun t' => not_held_other s t t' t I Hf) as Hoth.
  dI I. constructor; unfold qof; simpl; auto.
  - rewrite app_length. simpl. lia.
  - apply NoDup_app_single. { exact Ind. } intros Hin. apply Iq in Hin. congruence.
  - intros c0. unfold upd. rewrite in_app_iff. simpl. eqs.
    + split; auto.
    + rewrite Iq. split; [intros [H|[H|[]]]; congruence | auto].
  - intros t0 c0. unfold upd. eqs; simpl.
    + split; discriminate.
    + split; [discriminate|]. intros H. apply Ih in H. rewrite Et in H. simpl in H. apply Nat.eqb_eq in H. congruence.
    + rewrite Hoth; auto. split; discriminate.
    + apply Ih.
  - intros u c0. unfold upd. eqs; [|apply Ib]. rewrite Ib. split; congruence.
  - intros u p. unfold upd. eqs; [discriminate|apply Io].
  - intros u. unfold upd. eqs; [discriminate|apply Id].
  - intros t0. unfold upd. eqs; [intros [E|[E _]]; discriminate|].
    intros H. apply Idr in H. destruct H; congruence.
Qed.

(* K2c: user thread t writes StartWorkConn on c successfully: c is delivered to t *)
Lemma inv_delivered s t i c : Inv s -> ps_thr s t = TU (UWrite i c) ->
  Inv (set_thr (set_user (set_fate s c (PDelivered t)) t (UBridged c)) t (TU UDone)).
Proof.
  intros I Et.
  assert (Hc : pl_holds t (ps_thr s t) c = true) by (rewrite Et; simpl; apply Nat.eqb_refl).
  pose proof (held_fate _ _ _ I Hc) as Hf.
  pose proof (fun t' => not_held_other s t t' c I Hf) as Hoth.
  assert (Hu : ps_user s t = UOpen) by (eapply (i_open s I); eauto; discriminate).
  dI I. constructor; unfold qof; simpl; auto.
  - intros c0. unfold upd. eqs; [|apply Iq]. rewrite Iq. split; congruence.
  - intros t0 c0. unfold upd. eqs; simpl.
    + split; [discriminate|]. intros H. inversion H.
    + split; [discriminate|]. intros H. apply Ih in H. rewrite Et in H. simpl in H. apply Nat.eqb_eq in H. congruence.
    + rewrite Hoth; auto. split; discriminate.
    + apply Ih.
  - intros u c0. unfold upd. eqs.
    + split; auto.
    + split; [intros H; inversion H; congruence|]. intros H. apply Ib in H. congruence.
    + split; [|intros H; inversion H; congruence]. intros H. apply Ib in H. congruence.
    + apply Ib.
  - intros u p. unfold upd. eqs; [intros E N; inversion E; congruence|]. apply Io.
  - intros u. unfold upd. eqs; [eauto|apply Id].
  - intros t0. unfold upd. eqs; [intros [E|[E _]]; discriminate|apply Idr].
Qed.

Definition tail_ch (ch : pchan) (r : list nat) : pchan := {| ch_cap := ch_cap ch; ch_q := r; ch_closed := ch_closed ch |}.

(* K3: user thread t (referencing nothing) takes the head of the pool *)
Lemma inv_take s t i c r p0 : Inv s -> ps_thr s t = TU p0 -> p0 <> UDone ->
  (forall c', pl_holds t (ps_thr s t) c' = false) -> ch_q (ps_ch s) = c :: r ->
  Inv (set_thr (set_fate (set_ch s (tail_ch (ps_ch s) r)) c (PHeld t)) t (TU (URepl i c))).
Proof.
  intros I Et Np Hn Hq.
  assert (Hf : ps_fate s c = PInPool) by (apply (i_q s I); unfold qof; rewrite Hq; left; auto).
  assert (Hu : ps_user s t = UOpen) by (eapply (i_open s I); eauto).
  dI I. rewrite Hq in *. inversion Ind as [|x l Hnin Hnd]; subst.
  constructor; unfold qof; simpl; auto.
  - simpl in Ilen. lia.
  - intros c0. unfold upd. eqs.
    + split; [tauto|discriminate].
    + rewrite <- Iq. simpl. split; [auto|intros [H|H]; congruence].
  - intros t0 c0. unfold upd. eqs; simpl.
    + rewrite Nat.eqb_refl. split; auto.
    + split; [intros H; apply Nat.eqb_eq in H; congruence|]. intros H. apply Ih in H. rewrite Hn in H. discriminate.
    + split; [|intros H; inversion H; congruence]. intros H. apply Ih in H. congruence.
    + apply Ih.
  - intros u c0. unfold upd. eqs; [|apply Ib]. rewrite Ib. split; congruence.
  - intros u p. unfold upd. eqs; [auto|apply Io].
  - intros u. unfold upd. eqs; [discriminate|apply Id].
  - intros t0. unfold upd. eqs; [intros [E|[E _]]; discriminate|].
    intros H. apply Idr in H. destruct H; discriminate.
Qed.

(* K3b: the teardown thread takes the head of the pool and closes it *)
Lemma inv_drain s c r : Inv s -> ch_q (ps_ch s) = c :: r ->
  Inv (set_fate (set_ch s (tail_ch (ps_ch s) r)) c PClosed).
Proof.
  intros I Hq.
  assert (Hf : ps_fate s c = PInPool) by (apply (i_q s I); unfold qof; rewrite Hq; left; auto).
  dI I. rewrite Hq in *. inversion Ind as [|x l Hnin Hnd]; subst.
  constructor; unfold qof; simpl; auto.
  - simpl in Ilen. lia.
  - intros c0. unfold upd. eqs.
    + split; [tauto|discriminate].
    + rewrite <- Iq. simpl. split; [auto|intros [H|H]; congruence].
  - intros t0 c0. unfold upd. eqs; [|apply Ih]. rewrite Ih. split; congruence.
  - intros u c0. unfold upd. eqs; [|apply Ib]. rewrite Ib. split; congruence.
  - intros t0 H. apply Idr in H. destruct H; discriminate.
Qed.

(* K4: a user thread that references no connection ends with its user connection closed *)
Lemma inv_user_close s t p0 : Inv s -> ps_thr s t = TU p0 -> p0 <> UDone ->
  (forall c', pl_holds t (ps_thr s t) c' = false) ->
  Inv (pl_user_close s t).
Proof.
  intros I Et Np Hn.
  assert (Hu : ps_user s t = UOpen) by (eapply (i_open s I); eauto).
  dI I. unfold pl_user_close. constructor; unfold qof; simpl; auto.
  - intros t0 c0. unfold upd. eqs; simpl; [|apply Ih]. rewrite <- Ih, Hn. tauto.
  - intros u c0. unfold upd. eqs; [|apply Ib]. rewrite <- Ib, Hu. split; discriminate.
  - intros u p. unfold upd. eqs; [intros E N; inversion E; congruence|apply Io].
  - intros u. unfold upd. eqs; [auto|apply Id].
  - intros t0. unfold upd. eqs; [intros [E|[E _]]; discriminate|apply Idr].
Qed.

(* K5: teardown *)
Lemma inv_close_ch s t : Inv s -> ps_thr s t = TT TCloseCh ->
  Inv (set_thr (set_ch s (ch_close (ps_ch s))) t (TT TDrain)).
Proof.
  intros I Et. dI I. constructor; unfold qof; simpl; auto.
  - intros t0 c0. unfold upd. eqs; simpl; [|apply Ih]. rewrite <- Ih, Et. simpl. tauto.
  - intros u p. unfold upd. eqs; [discriminate|apply Io].
  - intros u. unfold upd. eqs; [discriminate|apply Id].
  - intros t0. unfold upd. eqs; [intros [E|[E _]]; discriminate|].
    intros H. apply Idr in H. tauto.
Qed.

Lemma inv_tt s t p p' (crash : bool) : Inv s -> ps_thr s t = TT p ->
  (p' = TDel -> ch_closed (ps_ch s) = true /\ ch_q (ps_ch s) = []) ->
  (p' = TFin -> crash = true \/ (ch_closed (ps_ch s) = true /\ ch_q (ps_ch s) = [])) ->
  Inv (set_thr (set_crashed s (ps_crashed s || crash)) t (TT p')).
Proof.
  intros I Et H1 H2. dI I. constructor; unfold qof; simpl; auto.
  - intros t0 c0. unfold upd. eqs; simpl; [|apply Ih]. rewrite <- Ih, Et. simpl. tauto.
  - intros u p1. unfold upd. eqs; [discriminate|apply Io].
  - intros u. unfold upd. eqs; [discriminate|apply Id].
  - intros t0. unfold upd. eqs.
    + intros [E|[E C]]; inversion E; subst; auto.
      apply Bool.orb_false_iff in C. destruct C. subst. destruct H2 as [H2|H2]; auto; discriminate.
    + intros [E|[E C]]; apply (Idr t0); [left; auto|right; split; auto]. apply Bool.orb_false_iff in C. tauto.
Qed.

(* K2d: last retry failed: close the connection and the user connection *)
Lemma inv_exhausted s t i c : Inv s -> ps_thr s t = TU (UWrite i c) ->
  Inv (pl_user_close (set_fate s c PClosed) t).
Proof.
  intros I Et.
  assert (Hc : pl_holds t (ps_thr s t) c = true) by (rewrite Et; simpl; apply Nat.eqb_refl).
  pose proof (held_fate _ _ _ I Hc) as Hf.
  pose proof (fun t' => not_held_other s t t' c I Hf) as Hoth.
  assert (Hu : ps_user s t = UOpen) by (eapply (i_open s I); eauto; discriminate).
  dI I. unfold pl_user_close. constructor; unfold qof; simpl; auto.
  - intros c0. unfold upd. eqs; [|apply Iq]. rewrite Iq. split; congruence.
  - intros t0 c0. unfold upd. eqs; simpl.
    + split; discriminate.
    + split; [discriminate|]. intros H. apply Ih in H. rewrite Et in H. simpl in H. apply Nat.eqb_eq in H. congruence.
    + rewrite Hoth; auto. split; discriminate.
    + apply Ih.
  - intros u c0. unfold upd. eqs.
    + split; discriminate.
    + split; [discriminate|]. intros H. apply Ib in H. congruence.
    + split; [|discriminate]. intros H. apply Ib in H. congruence.
    + apply Ib.
  - intros u p. unfold upd. eqs; [intros E N; inversion E; congruence|]. apply Io.
  - intros u. unfold upd. eqs; [eauto|apply Id].
  - intros t0. unfold upd. eqs; [intros [E|[E _]]; discriminate|apply Idr].
Qed.

Lemma set_crashed_id s : set_crashed s (ps_crashed s || false) = s.
Proof. destruct s; unfold set_crashed; simpl. rewrite Bool.orb_false_r. reflexivity. Qed.

Lemma step_inv cfg s t : Inv s -> Inv (pl_step cfg s t).
Proof.
  intros I. unfold pl_step.
  destruct (ps_thr s t) as [|p|p|p| |p] eqn:Et; auto.
  - (* work thread *)
    destruct p; simpl; auto.
    + destruct (ps_mapped s); apply inv_thr; auto; try (rewrite Et; reflexivity);
        try (repeat split; discriminate); intros p E; discriminate.
    + unfold ch_try_send. destruct (ch_closed (ps_ch s)) eqn:Ec.
      * apply inv_thr; auto; try (rewrite Et; reflexivity); try (repeat split; discriminate); intros p E; discriminate.
      * destruct (Z.of_nat (length (ch_q (ps_ch s))) <? ch_cap (ps_ch s)) eqn:El.
        -- apply inv_pooled; auto. lia.
        -- apply inv_thr; auto; try (rewrite Et; reflexivity); try (repeat split; discriminate); intros p E; discriminate.
    + apply inv_release_closed; auto.
      * rewrite Et. simpl. apply Nat.eqb_refl.
      * intros c' N. rewrite Et. simpl. apply Nat.eqb_neq. auto.
      * repeat split; discriminate.
      * intros p E; discriminate.
  - (* user thread *)
    destruct (pl_req_of cfg t) as [[|proxy src sport eof|u| |]|]; auto.
    destruct p as [i|i|i|i c|i c|]; simpl; auto.
    + (* UTry *)
      unfold ch_try_recv. destruct (ch_q (ps_ch s)) as [|c r] eqn:Eq.
      * destruct (ch_closed (ps_ch s)).
        -- eapply inv_user_close; eauto; [discriminate|rewrite Et; reflexivity].
        -- apply inv_thr; auto; try (rewrite Et; reflexivity); try (repeat split; discriminate).
           intros p E. rewrite Et. eexists; split; eauto; discriminate.
      * eapply inv_take; eauto; [discriminate|rewrite Et; reflexivity].
    + (* UReq *)
      destruct (pl_send cfg s eof); auto.
      * apply (inv_thr (pl_enqueue s)); [apply inv_set_disp; auto|simpl; rewrite Et; reflexivity|repeat split; discriminate|].
        simpl. intros p E. rewrite Et. eexists; split; eauto; discriminate.
      * eapply inv_user_close; eauto; [discriminate|rewrite Et; reflexivity].
    + (* UWait *)
      unfold ch_try_recv. destruct (ch_q (ps_ch s)) as [|c r] eqn:Eq.
      * destruct (ch_closed (ps_ch s)); auto.
        eapply inv_user_close; eauto; [discriminate|rewrite Et; reflexivity].
      * eapply inv_take; eauto; [discriminate|rewrite Et; reflexivity].
    + (* URepl *)
      destruct (pl_send cfg s eof); auto.
      * apply (inv_thr (pl_enqueue s)); [apply inv_set_disp; auto|simpl; rewrite Et; reflexivity|repeat split; discriminate|].
        simpl. intros p E. rewrite Et. eexists; split; eauto; discriminate.
      * apply inv_thr; auto; [rewrite Et; reflexivity|repeat split; discriminate|].
        intros p E. rewrite Et. eexists; split; eauto; discriminate.
    + (* UWrite *)
      destruct (cf_dead cfg c).
      * destruct (i + 1 <? ps_pc s + 1).
        -- apply inv_release_closed; auto.
           ++ rewrite Et. simpl. apply Nat.eqb_refl.
           ++ intros c' N. rewrite Et. simpl. apply Nat.eqb_neq. auto.
           ++ repeat split; discriminate.
           ++ intros p E. rewrite Et. eexists; split; eauto; discriminate.
        -- eapply inv_exhausted; eauto.
      * apply (inv_delivered (add_log s _) t i c); auto using inv_add_log.
  - (* teardown *)
    destruct p; simpl; auto.
    + (* TStop *)
      apply (inv_thr (set_ddone s true)); [apply inv_set_ddone; auto|simpl; rewrite Et; reflexivity|repeat split; discriminate|].
      intros p E; discriminate.
    + (* TCloseCh *)
      destruct (ch_closed (ps_ch s)) eqn:Ec.
      * replace (set_crashed s true) with (set_crashed s (ps_crashed s || true)) by (rewrite Bool.orb_true_r; reflexivity).
        eapply inv_tt; eauto; discriminate.
      * apply inv_close_ch; auto.
    + (* TDrain *)
      unfold ch_try_recv. destruct (ch_q (ps_ch s)) as [|c r] eqn:Eq.
      * destruct (ch_closed (ps_ch s)) eqn:Ec; auto.
        rewrite <- (set_crashed_id s) at 1. eapply inv_tt; eauto; discriminate.
      * apply inv_drain; auto.
    + (* TDel *)
      destruct (i_drained s I t) as [Hc Hq]; auto.
      rewrite <- (set_crashed_id (set_mapped s false)). simpl.
      apply (inv_tt (set_mapped s false) t TDel TFin false); auto using inv_set_mapped; try discriminate.
  - (* timer *)
    destruct (pl_req_of cfg t) as [[|proxy src sport eof|u| |]|]; auto.
    unfold pl_step_timer. destruct (ps_thr s u) as [|p|p|p| |p] eqn:Eu; auto. destruct p; auto.
    eapply inv_user_close; eauto; [discriminate|rewrite Eu; reflexivity].
  - (* send loop *)
    assert (K : forall s', Inv s' -> ps_thr s' t = TS p -> Inv (set_thr s' t (TS SLEnd))).
    { intros s' I' E'. apply inv_thr; auto; [rewrite E'; reflexivity|repeat split; discriminate|intros q E; discriminate]. }
    destruct p; simpl; auto.
    destruct (ps_ddone s); [apply K; auto|].
    destruct (0 <? d_q (ps_disp s)); auto.
    destruct (cf_wfail cfg (d_deq (ps_disp s))); [|apply inv_set_disp; auto].
    destruct (cf_sl_survives cfg); [apply inv_set_disp; auto|].
    apply K; [apply inv_set_disp; auto|simpl; auto].
Qed.

Lemma run_inv cfg sched : forall s, Inv s -> Inv (pl_run cfg sched s).
Proof. induction sched as [|t r IH]; simpl; intros s I; auto. apply IH, step_inv, I. Qed.

Lemma exec_inv cfg sched : Inv (pl_exec cfg sched).
Proof. apply run_inv, init_inv. Qed.

(* ---------- consequences ---------- *)

Ltac brk := repeat (match goal with
  | |- context [match ?x with _ => _ end] => destruct x eqn:?
  | |- context [if ?x then _ else _] => destruct x eqn:?
  end; simpl); auto.

Lemma step_pc cfg s t : ps_pc (pl_step cfg s t) = ps_pc s.
Proof.
  unfold pl_step, pl_step_work, pl_step_user, pl_step_teardown, pl_step_timer, pl_step_sendloop, pl_send, pl_enqueue, pl_user_close, ch_try_send, ch_try_recv.
  brk.
Qed.

Lemma run_pc cfg sched : forall s, ps_pc (pl_run cfg sched s) = ps_pc s.
Proof. induction sched as [|t r IH]; simpl; intros s; auto. rewrite IH. apply step_pc. Qed.

Lemma send_n_spec n a : pl_send_n n a = a + Z.of_nat n.
Proof. revert a. induction n as [|n IH]; intros a; simpl pl_send_n; [lia|]. rewrite IH. lia. Qed.

Lemma pool_count_spec c m : pl_pool_count c m = Z.max 0 (Z.min c m).
Proof. unfold pl_pool_count. destruct (c >? m) eqn:E1; destruct (_ <? 0) eqn:E2; lia. Qed.

Lemma start_requests_spec c m : pl_start_requests (pl_pool_count c m) = Z.max 0 (Z.min c m).
Proof.
  unfold pl_start_requests. rewrite send_n_spec. pose proof (pool_count_nonneg c m).
  rewrite Z2Nat.id by lia. rewrite pool_count_spec. lia.
Qed.

Theorem pool_bounded cfg sched :
  let s := pl_exec cfg sched in
  let pc := pl_pool_count (cf_client_pc cfg) (cf_server_max cfg) in
  ps_pc s = pc /\ ch_cap (ps_ch s) = pc + 10 /\ 0 <= pl_pool_len s <= pc + 10.
Proof.
  intros s pc. pose proof (exec_inv cfg sched) as I. fold s in I.
  assert (E : ps_pc s = pc) by (unfold s, pl_exec; rewrite run_pc; reflexivity).
  destruct I. unfold qof, pl_pool_len in *. rewrite <- E. repeat split; auto; lia.
Qed.

Theorem advance_requests cfg :
  ps_req (pl_init cfg) = Z.max 0 (Z.min (cf_client_pc cfg) (cf_server_max cfg)).
Proof. simpl. apply start_requests_spec. Qed.

Theorem consumed_at_most_once cfg sched u1 u2 c :
  let s := pl_exec cfg sched in
  ps_user s u1 = UBridged c -> ps_user s u2 = UBridged c -> u1 = u2.
Proof.
  intros s H1 H2. pose proof (exec_inv cfg sched) as I. fold s in I.
  apply (i_bridged s I) in H1. apply (i_bridged s I) in H2. congruence.
Qed.

Theorem bridged_means_delivered cfg sched u c :
  let s := pl_exec cfg sched in
  ps_user s u = UBridged c <-> pl_view s c = VDelivered u.
Proof.
  intros s. pose proof (exec_inv cfg sched) as I. fold s in I. rewrite (i_bridged s I).
  unfold pl_view. destruct (ps_fate s c) eqn:E; split; intros H; try discriminate; try congruence.
  destruct (pl_holds t (ps_thr s t) c); discriminate.
Qed.

Theorem user_bridged_or_closed cfg sched u :
  let s := pl_exec cfg sched in
  ps_thr s u = TU UDone ->
  ps_user s u = UClosed \/ exists c, ps_user s u = UBridged c /\ pl_view s c = VDelivered u.
Proof.
  intros s H. pose proof (exec_inv cfg sched) as I. fold s in I.
  destruct (i_done s I u H) as [Hc|[c Hc]]; auto. right. exists c. split; auto.
  apply bridged_means_delivered. exact Hc.
Qed.

Theorem no_conn_lost cfg sched c : pl_view (pl_exec cfg sched) c <> VLost.
Proof.
  pose proof (exec_inv cfg sched) as I. set (s := pl_exec cfg sched) in *.
  unfold pl_view. destruct (ps_fate s c) eqn:E; try discriminate.
  apply (i_held s I) in E. rewrite E. discriminate.
Qed.

Theorem no_orphan_after_teardown cfg sched c :
  let s := pl_exec cfg sched in
  (forall t, pl_thread_finished (ps_thr s t) = true) ->
  (exists t, ps_thr s t = TT TFin) -> ps_crashed s = false ->
  pl_view s c = VNone \/ pl_view s c = VClosed \/ exists u, pl_view s c = VDelivered u /\ ps_user s u = UBridged c.
Proof.
  intros s Hfin [t0 Ht0] Hcr. pose proof (exec_inv cfg sched) as I. fold s in I.
  unfold pl_view. destruct (ps_fate s c) eqn:E; auto.
  - apply (i_held s I) in E. specialize (Hfin t). destruct (ps_thr s t) as [|[]|[]|[]| |[]]; simpl in *; discriminate.
  - apply (i_q s I) in E. destruct (i_drained s I t0) as [_ Hq]; auto. unfold qof in *. rewrite Hq in E. destruct E.
  - right. right. exists u. split; auto. apply (i_bridged s I). exact E.
Qed.

(* ====== stability lemmas; surplus and late offers ====== *)

Ltac unf := unfold pl_step, pl_step_work, pl_step_user, pl_step_teardown, pl_step_timer, pl_step_sendloop, pl_send, pl_enqueue, pl_user_close, ch_try_send, ch_try_recv.

Ltac hyp := repeat match goal with
  | H : (if ?x then _ else _) = _ |- _ => destruct x eqn:?
  | H : (match ?x with _ => _ end) = _ |- _ => destruct x eqn:?
  | H : (_, _) = (_, _) |- _ => inversion H; subst; clear H
  end.

Lemma closed_stable cfg s t : ch_closed (ps_ch s) = true -> ch_closed (ps_ch (pl_step cfg s t)) = true.
Proof. intros H. unf. brk; hyp; simpl in *; try congruence. Qed.

Lemma work_thr_other cfg s t t' p : ps_thr s t = TW p -> t' <> t -> ps_thr (pl_step cfg s t') t = TW p.
Proof.
  intros H N. unf. brk; hyp; simpl; unfold upd;
    repeat match goal with |- context [Nat.eqb ?a ?b] => destruct (Nat.eqb_spec a b); subst end; try congruence.
Qed.

Lemma closed_fate_final cfg s t c : Inv s -> ps_fate s c = PClosed -> ps_fate (pl_step cfg s t) c = PClosed.
Proof.
  intros I H.
  assert (Hq : forall r, ch_q (ps_ch s) = c :: r -> False).
  { intros r E. assert (In c (qof s)) as Hin by (unfold qof; rewrite E; left; auto). apply (i_q s I) in Hin. congruence. }
  assert (Hh : forall t0, pl_holds t0 (ps_thr s t0) c = true -> False).
  { intros t0 E. apply (i_held s I) in E. congruence. }
  unf. brk; hyp; simpl; unfold upd;
    repeat match goal with |- context [Nat.eqb ?a ?b] => destruct (Nat.eqb_spec a b); subst end; auto;
    try (exfalso; eapply Hq; eauto; fail); try discriminate;
    try (exfalso; apply (Hh t); match goal with E : ps_thr s t = _ |- _ => rewrite E end; simpl; apply Nat.eqb_refl).
Qed.

(* ---------- surplus and late offers ---------- *)

(* the three refusals of an offered connection: unknown run id, full pool, closed pool *)
Theorem offer_refused cfg s t :
  (ps_thr s t = TW WLookup /\ ps_mapped s = false) \/
  (ps_thr s t = TW WSend /\ (ch_closed (ps_ch s) = true \/ ch_cap (ps_ch s) <= pl_pool_len s)) ->
  let s1 := pl_step cfg s t in
  ps_thr s1 t = TW WCloseIt /\ ps_ch s1 = ps_ch s /\ ps_fate s1 = ps_fate s.
Proof.
  intros [[Ht Hm]|[Ht Hf]]; unfold pl_step; rewrite Ht; simpl.
  - rewrite Hm. simpl. unfold upd. rewrite Nat.eqb_refl. auto.
  - unfold ch_try_send. destruct (ch_closed (ps_ch s)) eqn:Ec.
    + simpl. unfold upd. rewrite Nat.eqb_refl. auto.
    + destruct Hf as [Hf|Hf]; [discriminate|]. unfold pl_pool_len in Hf.
      destruct (Z.of_nat (length (ch_q (ps_ch s))) <? ch_cap (ps_ch s)) eqn:El; [lia|].
      simpl. unfold upd. rewrite Nat.eqb_refl. auto.
Qed.

(* a refused connection is closed as soon as its goroutine runs, whatever else runs in between, and stays closed *)
Theorem refused_is_closed cfg sched1 sched2 t :
  let s1 := pl_exec cfg sched1 in
  ps_thr s1 t = TW WCloseIt -> In t sched2 ->
  let s2 := pl_run cfg sched2 s1 in
  ps_fate s2 t = PClosed /\ ps_thr s2 t = TW WDone.
Proof.
  intros s1 Ht Hin. pose proof (exec_inv cfg sched1) as I. fold s1 in I. clearbody s1.
  revert s1 Ht I Hin. induction sched2 as [|x r IH]; intros s1 Ht I Hin; [destruct Hin|].
  simpl. destruct (Nat.eq_dec x t) as [->|N].
  - (* t runs: closes *)
    assert (Hs : ps_fate (pl_step cfg s1 t) t = PClosed /\ ps_thr (pl_step cfg s1 t) t = TW WDone).
    { unfold pl_step. rewrite Ht. simpl. unfold upd. rewrite Nat.eqb_refl. auto. }
    destruct Hs as [Hf Hd]. pose proof (step_inv cfg s1 t I) as I1.
    clear Ht Hin IH. revert I1 Hf Hd. generalize (pl_step cfg s1 t). clear s1 I.
    induction r as [|y r IH]; intros s If Hf Hd; simpl; auto.
    apply IH; [apply step_inv; auto|apply closed_fate_final; auto|].
    destruct (Nat.eq_dec y t) as [->|N].
    + unfold pl_step. rewrite Hd. simpl. exact Hd.
    + eapply work_thr_other; eauto.
  - destruct Hin as [E|Hin]; [congruence|]. apply IH; auto.
    + eapply work_thr_other; eauto.
    + apply step_inv; auto.
Qed.

(* a connection that arrives once the pool has been closed (session ending or ended) is never parked in the
   pool: in every later state it is still with its own goroutine on the way to Close, or closed *)
Theorem late_workconn_not_parked cfg sched1 sched2 t :
  let s1 := pl_exec cfg sched1 in
  ch_closed (ps_ch s1) = true -> ps_thr s1 t = TW WLookup ->
  let s2 := pl_run cfg sched2 s1 in
  ~ In t (ch_q (ps_ch s2)) /\ (ps_thr s2 t = TW WDone -> ps_fate s2 t = PClosed).
Proof.
  intros s1 Hc Ht s2.
  assert (J : Inv s2 /\ ch_closed (ps_ch s2) = true /\
              (ps_thr s2 t = TW WLookup \/ ps_thr s2 t = TW WSend \/ ps_thr s2 t = TW WCloseIt \/
               (ps_thr s2 t = TW WDone /\ ps_fate s2 t = PClosed))).
  { unfold s2. pose proof (exec_inv cfg sched1) as I. fold s1 in I. clearbody s1. clear s2.
    revert s1 Hc Ht I. induction sched2 as [|x r IH]; intros s1 Hc Ht I; simpl; auto.
    assert (G : forall s, Inv s -> ch_closed (ps_ch s) = true ->
                (ps_thr s t = TW WLookup \/ ps_thr s t = TW WSend \/ ps_thr s t = TW WCloseIt \/
                 (ps_thr s t = TW WDone /\ ps_fate s t = PClosed)) ->
                Inv (pl_run cfg r s) /\ ch_closed (ps_ch (pl_run cfg r s)) = true /\
                (ps_thr (pl_run cfg r s) t = TW WLookup \/ ps_thr (pl_run cfg r s) t = TW WSend \/
                 ps_thr (pl_run cfg r s) t = TW WCloseIt \/
                 (ps_thr (pl_run cfg r s) t = TW WDone /\ ps_fate (pl_run cfg r s) t = PClosed))).
    { clear. induction r as [|y r IH]; intros s I Hc K; simpl; auto.
      apply IH; [apply step_inv; auto|apply closed_stable; auto|].
      destruct (Nat.eq_dec y t) as [->|N].
      - unfold pl_step. destruct K as [K|[K|[K|[K Kf]]]]; rewrite K; simpl.
        + destruct (ps_mapped s); simpl; unfold upd; rewrite Nat.eqb_refl; auto.
        + unfold ch_try_send. rewrite Hc. simpl. unfold upd; rewrite Nat.eqb_refl; auto.
        + unfold upd; rewrite !Nat.eqb_refl; auto.
        + rewrite K. auto.
      - destruct K as [K|[K|[K|[K Kf]]]].
        + left. eapply work_thr_other; eauto.
        + right; left. eapply work_thr_other; eauto.
        + right; right; left. eapply work_thr_other; eauto.
        + right; right; right. split; [eapply work_thr_other; eauto|apply closed_fate_final; auto]. }
    apply (G (pl_step cfg s1 x)); [apply step_inv; auto|apply closed_stable; auto|].
    destruct (Nat.eq_dec x t) as [->|N].
    - unfold pl_step. rewrite Ht. simpl. destruct (ps_mapped s1); simpl; unfold upd; rewrite Nat.eqb_refl; auto.
    - left. eapply work_thr_other; eauto. }
  destruct J as [I [Hc2 K]]. split.
  - intros Hin. apply (i_q s2 I) in Hin.
    destruct K as [K|[K|[K|[K Kf]]]]; try congruence;
      assert (E : pl_holds t (ps_thr s2 t) t = true) by (rewrite K; simpl; apply Nat.eqb_refl);
      apply (i_held s2 I) in E; congruence.
  - intros Hd. destruct K as [K|[K|[K|[K Kf]]]]; congruence.
Qed.

(* ====== StartWorkConn log ====== *)

Lemma step_user_log cfg s t : Inv s ->
  let s' := pl_step cfg s t in
  (ps_log s' = ps_log s /\ forall u, ps_user s' u = ps_user s u \/ (ps_user s u = UOpen /\ ps_user s' u = UClosed))
  \/ (exists i c proxy src sport eof, ps_thr s t = TU (UWrite i c) /\ pl_req_of cfg t = Some (RUser proxy src sport eof) /\
       ps_user s t = UOpen /\ ps_fate s c = PHeld t /\
       ps_log s' = {| st_conn := c; st_user := t; st_proxy := proxy; st_src := src; st_sport := sport |} :: ps_log s /\
       forall u, ps_user s' u = if Nat.eqb u t then UBridged c else ps_user s u).
Proof.
  intros I.
  assert (Ho : forall u p, ps_thr s u = TU p -> p <> UDone -> ps_user s u = UOpen) by apply (i_open s I).
  unf. brk; hyp; simpl;
  first
  [ solve [ left; split; auto; intro; unfold upd;
            repeat match goal with |- context [Nat.eqb ?a ?b] => destruct (Nat.eqb_spec a b); subst end; auto;
            right; split; auto; eapply Ho; eauto; discriminate ]
  | right; do 6 eexists; split; [reflexivity|]; split; [reflexivity|]; split;
    [ eapply Ho; eauto; discriminate |]; split;
    [ apply (i_held s I); match goal with E : ps_thr s t = _ |- _ => rewrite E end; simpl; apply Nat.eqb_refl |];
    split; [reflexivity|]; intro; unfold upd; reflexivity ].
Qed.

Record LInv (cfg : pcfg) (s : pst) : Prop := {
  l_sound : forall e, In e (ps_log s) ->
              ps_user s (st_user e) = UBridged (st_conn e) /\
              exists eof, pl_req_of cfg (st_user e) = Some (RUser (st_proxy e) (st_src e) (st_sport e) eof);
  l_complete : forall u c, ps_user s u = UBridged c -> exists e, In e (ps_log s) /\ st_conn e = c /\ st_user e = u;
  l_nodup : NoDup (map st_conn (ps_log s))
}.

Lemma linv_init cfg : LInv cfg (pl_init cfg).
Proof.
  constructor; simpl.
  - intros e [].
  - intros u c. destruct (pl_req_of cfg u) as [[]|]; discriminate.
  - constructor.
Qed.

Lemma linv_step cfg s t : Inv s -> LInv cfg s -> LInv cfg (pl_step cfg s t).
Proof.
  intros I [Ls Lc Ln]. destruct (step_user_log cfg s t I) as [[El Hu]|(i & c & proxy & src & sport & eof & Et & Er & Eu & Ef & El & Hu)].
  - constructor; rewrite El; auto.
    + intros e Hin. destruct (Ls e Hin) as [Hb Hr]. split; auto.
      destruct (Hu (st_user e)) as [H|[H _]]; congruence.
    + intros u c Hb. apply Lc. destruct (Hu u) as [H|[_ H]]; congruence.
  - constructor; rewrite El.
    + intros e [<-|Hin]; simpl.
      * rewrite Hu, Nat.eqb_refl. split; eauto.
      * destruct (Ls e Hin) as [Hb Hr]. split; auto. rewrite Hu.
        destruct (Nat.eqb_spec (st_user e) t) as [E|N]; auto. rewrite E in Hb. congruence.
    + intros u c0. rewrite Hu. destruct (Nat.eqb_spec u t) as [->|N].
      * intros H. inversion H; subst. eexists; split; [left; reflexivity|simpl; auto].
      * intros H. destruct (Lc u c0 H) as [e [Hin He]]. exists e. split; [right|]; auto.
    + simpl. constructor; auto. intros Hin. apply in_map_iff in Hin. destruct Hin as [e [Ec Hin]].
      destruct (Ls e Hin) as [Hb _]. rewrite Ec in Hb. apply (i_bridged s I) in Hb. congruence.
Qed.

Lemma linv_exec cfg sched : LInv cfg (pl_exec cfg sched).
Proof.
  unfold pl_exec. generalize (init_inv cfg) (linv_init cfg). generalize (pl_init cfg).
  induction sched as [|t r IH]; simpl; intros s I L; auto.
  apply IH; [apply step_inv|apply linv_step]; auto.
Qed.

(* the StartWorkConn written on the connection a user is bridged to names the proxy that accepted this user
   and the user's own address; and no connection is announced twice *)
Theorem start_msg_names_proxy_and_user cfg sched :
  let s := pl_exec cfg sched in
  (forall u c, ps_user s u = UBridged c ->
     exists e eof, In e (ps_log s) /\ st_conn e = c /\ st_user e = u /\
       pl_req_of cfg u = Some (RUser (st_proxy e) (st_src e) (st_sport e) eof)) /\
  (forall e, In e (ps_log s) -> ps_user s (st_user e) = UBridged (st_conn e) /\
       exists eof, pl_req_of cfg (st_user e) = Some (RUser (st_proxy e) (st_src e) (st_sport e) eof)) /\
  NoDup (map st_conn (ps_log s)).
Proof.
  intros s. destruct (linv_exec cfg sched) as [Ls Lc Ln]. fold s in Ls, Lc, Ln. repeat split; auto.
  - intros u c Hb. destruct (Lc u c Hb) as [e [Hin [Ec Eu]]]. destruct (Ls e Hin) as [_ [eof Hr]].
    exists e, eof. subst. auto.
  - apply Ls; auto.
  - apply Ls; auto.
Qed.

(* ====== hand-off ====== *)

(* ---------- hand-off channels ---------- *)

Definition h_fate_ok (cfg : hcfg) (thr : option hpc) (f : hfate) : Prop :=
  match thr with
  | Some HLookup => f = HNew
  | Some HSendStep => f = HChosen
  | Some HEnd => f = HAccepted \/ f = HClosedNoRoute \/ f = (if hc_close_on_fail cfg then HClosedOnFail else HLost)
  | _ => f = HNoConn
  end.

Definition HInv (cfg : hcfg) (s : hst) : Prop := forall u, h_fate_ok cfg (hs_thr s u) (hs_fate s u).

Lemma h_init_inv cfg : HInv cfg (h_init cfg).
Proof. intros u. simpl. destruct (nth_error (hc_reqs cfg) u) as [[]|]; simpl; auto. Qed.

Lemma h_step_inv cfg s t : HInv cfg s -> HInv cfg (h_step cfg s t).
Proof.
  intros I u. pose proof (I u) as Iu. pose proof (I t) as It. unfold h_step.
  destruct (hs_thr s t) as [[]|] eqn:Et; simpl in It; auto.
  - destruct (hs_routed s); simpl; unfold upd; destruct (Nat.eqb_spec u t); subst; simpl; auto.
  - destruct (hs_chclosed s); [|destruct (hs_receiving s)]; simpl; unfold upd; auto;
      destruct (Nat.eqb_spec u t); subst; simpl; auto.
  - simpl; unfold upd; destruct (Nat.eqb_spec u t); subst; simpl; auto.
  - destruct (hc_chan_first cfg); simpl; unfold upd; destruct (Nat.eqb_spec u t); subst; simpl; auto.
  - destruct (hc_chan_first cfg); simpl; unfold upd; destruct (Nat.eqb_spec u t); subst; simpl; auto.
Qed.

Lemma h_exec_inv cfg sched : HInv cfg (h_exec cfg sched).
Proof.
  unfold h_exec. generalize (h_init_inv cfg). generalize (h_init cfg).
  induction sched as [|t r IH]; simpl; intros s I; auto. apply IH, h_step_inv, I.
Qed.

(* with the repaired call sites no user connection is ever dropped unclosed, whatever the interleaving
   of dispatchers and the closing listener *)
Theorem handoff_never_lost cfg sched u :
  hc_close_on_fail cfg = true -> hs_fate (h_exec cfg sched) u <> HLost.
Proof.
  intros Hc. pose proof (h_exec_inv cfg sched u) as I. unfold h_fate_ok in I. rewrite Hc in I.
  destruct (hs_thr (h_exec cfg sched) u) as [[]|]; try congruence.
  destruct I as [I|[I|I]]; congruence.
Qed.

Theorem handoff_accepted_or_closed cfg sched u :
  hc_close_on_fail cfg = true -> hs_thr (h_exec cfg sched) u = Some HEnd ->
  let f := hs_fate (h_exec cfg sched) u in f = HAccepted \/ f = HClosedNoRoute \/ f = HClosedOnFail.
Proof.
  intros Hc Ht. pose proof (h_exec_inv cfg sched u) as I. unfold h_fate_ok in I. rewrite Hc, Ht in I. exact I.
Qed.

(* a dispatcher whose turn comes is never stuck for ever once the closer has finished: its send step ends *)
Theorem handoff_send_progress cfg s t :
  hs_thr s t = Some HSendStep -> (hs_chclosed s = true \/ hs_receiving s = true) ->
  hs_thr (h_step cfg s t) t = Some HEnd.
Proof.
  intros Ht H. unfold h_step. rewrite Ht.
  destruct (hs_chclosed s); [|destruct H as [H|H]; [discriminate|rewrite H]]; simpl; unfold upd; rewrite Nat.eqb_refl; auto.
Qed.

(* ====== visitor listener ====== *)

Record IInv (s : ist) : Prop := {
  ii_nodup : NoDup (ch_q (is_ch s));
  ii_q : forall c, In c (ch_q (is_ch s)) <-> is_fate s c = IQueued;
  ii_put : forall t, is_thr s t = Some IPSend \/ is_thr s t = Some IPCloseIt -> is_fate s t = IOffered;
  ii_end : forall t, is_thr s t = Some IPEnd -> is_fate s t = IQueued \/ is_fate s t = IHandled \/ is_fate s t = IClosed;
  ii_loop : forall t, is_thr s t = Some ILEnd -> ch_closed (is_ch s) = true /\ ch_q (is_ch s) = [];
  ii_flag : is_flag s = ch_closed (is_ch s)
}.

Lemma il_init_inv cfg : IInv (il_init cfg).
Proof.
  constructor; simpl; auto.
  - constructor.
  - intros c; split; [intros []|]. destruct (nth_error (ic_reqs cfg) c) as [[]|]; discriminate.
  - intros t. destruct (nth_error (ic_reqs cfg) t) as [[]|]; intros [H|H]; try discriminate; auto.
  - intros t. destruct (nth_error (ic_reqs cfg) t) as [[]|]; discriminate.
  - intros t. destruct (nth_error (ic_reqs cfg) t) as [[]|]; discriminate.
Qed.

Ltac thr3 := let t0 := fresh "t0" in let H := fresh "H" in
  intros t0; unfold upd; eqs; auto; try discriminate;
  try (intros [H|H]; try discriminate; auto; fail); try (intros _; auto; fail);
  try (intros H; match goal with L : forall _, _ -> _ /\ _ |- _ => apply L in H; destruct H; try discriminate; split; auto; congruence end; fail).

Lemma il_step_inv s t : IInv s -> IInv (il_step s t).
Proof.
  intros [Ind Iq Ip Ie Il If]. unfold il_step.
  destruct (is_thr s t) as [[]|] eqn:Et; try (constructor; auto; fail).
  - (* IPSend *)
    assert (Hf : is_fate s t = IOffered) by auto.
    unfold ch_try_send. destruct (ch_closed (is_ch s)) eqn:Ec; [|destruct (_ <? _) eqn:El].
    + constructor; simpl; auto; try congruence; thr3.
    + constructor; simpl; auto.
      * apply NoDup_app_single; auto. intros H. apply Iq in H. congruence.
      * intros c. rewrite in_app_iff. simpl. unfold upd. eqs; [tauto|]. rewrite Iq. split; [intros [H|[H|[]]]; congruence|auto].
      * thr3.
      * thr3.
      * intros t0. unfold upd. eqs; [discriminate|]. intros H. apply Il in H. destruct H; congruence.
    + constructor; simpl; auto; try congruence.
      * intros c. unfold upd. eqs; [|auto]. rewrite Iq. split; congruence.
      * thr3.
      * thr3.
      * thr3.
  - (* IPCloseIt *)
    assert (Hf : is_fate s t = IOffered) by auto.
    constructor; simpl; auto.
    + intros c. unfold upd. eqs; [|auto]. rewrite Iq. split; congruence.
    + thr3.
    + thr3.
    + thr3.
  - (* ICGo *)
    destruct (is_flag s) eqn:Ef.
    + constructor; simpl; auto; thr3.
    + constructor; simpl; auto; try thr3.
  - (* ILRun *)
    unfold ch_try_recv. case_eq (ch_q (is_ch s)); [intros Eq|intros c r Eq].
    + case_eq (ch_closed (is_ch s)); intros Ec; [|constructor; auto].
      constructor; simpl; auto; thr3.
    + assert (Hc : is_fate s c = IQueued) by (apply Iq; rewrite Eq; left; auto).
      assert (Hnd : ~ In c r /\ NoDup r) by (rewrite Eq in Ind; inversion Ind; auto). destruct Hnd as [Hnin Hnd].
      constructor; simpl; auto.
      * intros c0. unfold upd. eqs; [split; [tauto|discriminate]|]. rewrite <- Iq, Eq. simpl. split; [auto|intros [H|H]; congruence].
      * intros t0 H. unfold upd. eqs; [|auto]. apply Ip in H. congruence.
      * intros t0 H. unfold upd. eqs; auto.
      * intros t0 H. apply Il in H. rewrite Eq in H. destruct H; discriminate.
Qed.

Lemma il_exec_inv cfg sched : IInv (il_exec cfg sched).
Proof.
  unfold il_exec, il_run. generalize (il_init_inv cfg). generalize (il_init cfg).
  induction sched as [|t r IH]; simpl; intros s I; auto. apply IH, il_step_inv, I.
Qed.

(* for every order of PutConn / Close / Accept: a queued connection is still going to be received — no
   accept loop has stopped while something is queued *)
Theorem visitor_queued_will_be_received cfg sched c t :
  let s := il_exec cfg sched in is_fate s c = IQueued -> is_thr s t <> Some ILEnd.
Proof.
  intros s Hq Hl. pose proof (il_exec_inv cfg sched) as I. fold s in I.
  apply (ii_loop s I) in Hl. apply (ii_q s I) in Hq. destruct Hl as [_ Hl]. rewrite Hl in Hq. destruct Hq.
Qed.

(* ... so once the accept loop has stopped, every connection whose PutConn has returned was handed to the
   handler or closed *)
Theorem visitor_conn_handled_or_closed cfg sched c t :
  let s := il_exec cfg sched in
  is_thr s t = Some ILEnd -> is_thr s c = Some IPEnd -> is_fate s c = IHandled \/ is_fate s c = IClosed.
Proof.
  intros s Hl Hc. pose proof (il_exec_inv cfg sched) as I. fold s in I.
  destruct (ii_end s I c Hc) as [H|H]; auto.
  exfalso. eapply (visitor_queued_will_be_received cfg sched c t); eauto.
Qed.

(* the running loop takes the head of a non-empty queue at its next step, closed listener or not *)
Theorem visitor_loop_progress s t c r :
  is_thr s t = Some ILRun -> ch_q (is_ch s) = c :: r -> is_fate (il_step s t) c = IHandled.
Proof.
  intros Ht Hq. unfold il_step. rewrite Ht. unfold ch_try_recv. rewrite Hq. simpl. unfold upd. rewrite Nat.eqb_refl. auto.
Qed.

(* and the loop cannot be blocked for ever once the listener is closed *)
Theorem visitor_loop_ends_after_close s t :
  is_thr s t = Some ILRun -> ch_closed (is_ch s) = true -> ch_q (is_ch s) = [] -> is_thr (il_step s t) t = Some ILEnd.
Proof.
  intros Ht Hc Hq. unfold il_step. rewrite Ht. unfold ch_try_recv. rewrite Hq, Hc. simpl. unfold upd. rewrite Nat.eqb_refl. auto.
Qed.

(* ====== one worker per session: no double close ====== *)

Definition one_teardown (cfg : pcfg) : Prop :=
  forall t1 t2, pl_req_of cfg t1 = Some RTeardown -> pl_req_of cfg t2 = Some RTeardown -> t1 = t2.

Record TInv (cfg : pcfg) (s : pst) : Prop := {
  t_kind : forall t p, ps_thr s t = TT p -> pl_req_of cfg t = Some RTeardown;
  t_nc : ps_crashed s = false;
  t_cl : ch_closed (ps_ch s) = true -> forall t, ps_thr s t <> TT TStop /\ ps_thr s t <> TT TCloseCh
}.

Lemma tinv_init cfg : TInv cfg (pl_init cfg).
Proof.
  constructor; simpl; auto; try discriminate.
  intros t p. unfold pl_init_thr. destruct (pl_req_of cfg t) as [[]|]; try discriminate; auto.
Qed.

Lemma tinv_step cfg s t : one_teardown cfg -> TInv cfg s -> TInv cfg (pl_step cfg s t).
Proof.
  intros U [Tk Tn Tc].
  assert (Tc1 : ch_closed (ps_ch s) = true -> forall t0, ps_thr s t0 <> TT TStop) by (intros H t0; apply Tc; auto).
  assert (Tc2 : ch_closed (ps_ch s) = true -> forall t0, ps_thr s t0 <> TT TCloseCh) by (intros H t0; apply Tc; auto).
  unf. brk; hyp; simpl in *;
  try (exfalso; eapply Tc2; eauto; fail);
  (constructor; simpl; auto;
   first
   [ solve [ intro; intro; unfold upd; eqs; try discriminate; eauto ]
   | solve [ intros Hc ?; unfold upd; eqs; split; try discriminate; try (apply Tc; auto; fail);
          try (intros Hx; eapply Tc1; eauto; fail); try (intros Hx; eapply Tc2; eauto; fail);
          try congruence;
          intros Hx; apply Tk in Hx;
          match goal with E : ps_thr s t = TT _ |- _ => apply Tk in E; specialize (U _ _ Hx E); congruence end ]
   | idtac ]).
Qed.

Lemma tinv_exec cfg sched : one_teardown cfg -> TInv cfg (pl_exec cfg sched).
Proof.
  intros U. unfold pl_exec. generalize (tinv_init cfg). generalize (pl_init cfg).
  induction sched as [|t r IH]; simpl; intros s I; auto. apply IH, tinv_step; auto.
Qed.

(* a session has one worker goroutine: then no schedule closes the pool twice *)
Theorem single_teardown_never_crashes cfg sched :
  one_teardown cfg -> ps_crashed (pl_exec cfg sched) = false.
Proof. intros U. apply (t_nc _ _ (tinv_exec cfg sched U)). Qed.

Theorem no_orphan_after_teardown_single cfg sched c :
  one_teardown cfg ->
  let s := pl_exec cfg sched in
  (forall t, pl_thread_finished (ps_thr s t) = true) ->
  (exists t, ps_thr s t = TT TFin) ->
  pl_view s c = VNone \/ pl_view s c = VClosed \/ exists u, pl_view s c = VDelivered u /\ ps_user s u = UBridged c.
Proof.
  intros U s Hf Ht. apply no_orphan_after_teardown; auto. apply single_teardown_never_crashes; auto.
Qed.

(* ====== an open user connection is being served ====== *)

Definition UInv (s : pst) : Prop := forall u, ps_user s u <> UNone -> exists p, ps_thr s u = TU p.

Lemma uinv_init cfg : UInv (pl_init cfg).
Proof.
  intros u. simpl. unfold pl_init_thr. destruct (pl_req_of cfg u) as [[]|]; try congruence; eauto.
Qed.

Lemma uinv_step cfg s t : UInv s -> UInv (pl_step cfg s t).
Proof.
  intros UI. unf. brk; hyp; simpl in *; auto;
  intros ? Hu; simpl in *; unfold upd in *; eqs; eauto;
  try (match goal with E : ps_thr s ?x = _ |- exists _, _ = _ => destruct (UI x) as [? Hx]; [congruence|]; rewrite E in Hx; discriminate end).
Qed.

Lemma uinv_exec cfg sched : UInv (pl_exec cfg sched).
Proof.
  unfold pl_exec. generalize (uinv_init cfg). generalize (pl_init cfg).
  induction sched as [|t r IH]; simpl; intros s I; auto. apply IH, uinv_step; auto.
Qed.

(* a user connection that is still open (neither bridged nor closed) is still in the hands of its handler:
   its thread has not ended — it is never left open without somebody serving it *)
Theorem user_open_is_being_served cfg sched u :
  let s := pl_exec cfg sched in
  ps_user s u = UOpen -> exists p, ps_thr s u = TU p /\ p <> UDone.
Proof.
  intros s H. destruct (uinv_exec cfg sched u) as [p Hp]; [fold s; congruence|]. fold s in Hp.
  exists p. split; auto. intros ->.
  destruct (i_done s (exec_inv cfg sched) u Hp) as [Hc|[c Hc]]; congruence.
Qed.

From FRP Require Import gen.GenPoolClamp.

(* ====== the send path of GetWorkConn ====== *)

Record DInv (cfg : pcfg) (s : pst) : Prop := {
  d_bound : 0 <= d_q (ps_disp s) <= cf_qcap cfg;
  d_loop : forall t, pl_req_of cfg t = Some RSendLoop ->
             ps_thr s t = TS SLRun \/ (ps_thr s t = TS SLEnd /\ ps_ddone s = true);
  d_user : forall t p, ps_thr s t = TU p -> exists proxy src sport eof, pl_req_of cfg t = Some (RUser proxy src sport eof)
}.

Definition start_fits (cfg : pcfg) : Prop :=
  pl_pool_count (cf_client_pc cfg) (cf_server_max cfg) <= cf_qcap cfg.

Lemma dinv_init cfg : start_fits cfg -> DInv cfg (pl_init cfg).
Proof.
  intros F. unfold start_fits in F. constructor; simpl.
  - rewrite start_requests_spec. rewrite pool_count_spec in F. lia.
  - intros t H. unfold pl_init_thr. rewrite H. auto.
  - intros t p. unfold pl_init_thr. destruct (pl_req_of cfg t) as [[]|]; try discriminate. eauto.
Qed.

Lemma dinv_step cfg s t : cf_sl_survives cfg = true -> DInv cfg s -> DInv cfg (pl_step cfg s t).
Proof.
  intros Sv [Db Dl Du].
  unf. brk; hyp; simpl in *; try congruence;
  (constructor; simpl; auto; try lia;
   first
   [ solve [ intros ? Hr; unfold upd; eqs; auto;
             destruct (Dl _ Hr) as [Hx|[Hx Hy]]; try discriminate; try congruence; auto ]
   | solve [ intro; intro; unfold upd; eqs; eauto; try discriminate ]
   | idtac ]).
Qed.

Lemma dinv_exec cfg sched : cf_sl_survives cfg = true -> start_fits cfg -> DInv cfg (pl_exec cfg sched).
Proof.
  intros Sv F. unfold pl_exec. generalize (dinv_init cfg F). generalize (pl_init cfg).
  induction sched as [|t r IH]; simpl; intros s I; auto. apply IH, dinv_step; auto.
Qed.

(* the send loop of a live session never stops: it survives failed writes; it ends only with doneCh *)
Theorem sendloop_alive_until_done cfg sched k :
  cf_sl_survives cfg = true -> start_fits cfg -> pl_req_of cfg k = Some RSendLoop ->
  let s := pl_exec cfg sched in ps_thr s k = TS SLRun \/ ps_ddone s = true.
Proof.
  intros Sv F Hk s. destruct (d_loop _ _ (dinv_exec cfg sched Sv F) k Hk) as [H|[_ H]]; auto.
Qed.

Lemma send_not_blocked cfg s eof :
  ps_ddone s = true \/ d_q (ps_disp s) < cf_qcap cfg -> pl_send cfg s eof <> SendBlocked.
Proof.
  intros H. unfold pl_send. destruct (ps_ddone s) eqn:Ed.
  - destruct (_ <? _); [destruct eof|]; discriminate.
  - destruct H as [H|H]; [discriminate|]. destruct (d_q (ps_disp s) <? cf_qcap cfg) eqn:E; [discriminate|lia].
Qed.

(* Dispatcher.Send inside GetWorkConn returns after at most one turn of the send loop, in every reachable
   state and whatever writes have failed: a user standing in one of the two Sends (before the wait, where
   its timer does not exist yet, or the replacement request) has left it after "send loop, then user" *)
Theorem send_returns_after_sendloop_turn cfg sched u k :
  cf_sl_survives cfg = true -> start_fits cfg -> 0 < cf_qcap cfg -> pl_req_of cfg k = Some RSendLoop ->
  let s := pl_exec cfg sched in
  let s2 := pl_step cfg (pl_step cfg s k) u in
  (forall i, ps_thr s u = TU (UReq i) ->
     ps_thr s2 u = TU (UWait i) \/ (ps_thr s2 u = TU UDone /\ ps_user s2 u = UClosed)) /\
  (forall i c, ps_thr s u = TU (URepl i c) -> ps_thr s2 u = TU (UWrite i c)).
Proof.
  intros Sv F Hq Hk s s2. pose proof (dinv_exec cfg sched Sv F) as D. fold s in D.
  destruct D as [Db Dl Du].
  (* the send loop's turn: afterwards doneCh is closed or the queue has room; nothing of u changed *)
  assert (L : forall x, ps_thr s u = TU x ->
              ps_thr (pl_step cfg s k) u = TU x /\
              (ps_ddone (pl_step cfg s k) = true \/ d_q (ps_disp (pl_step cfg s k)) < cf_qcap cfg)).
  { intros x Hu. assert (Nk : u <> k).
    { intros ->. destruct (Dl k Hk) as [H|[H _]]; congruence. }
    unfold pl_step. destruct (Dl k Hk) as [H|[H Hd]]; rewrite H; simpl.
    - destruct (ps_ddone s) eqn:Ed.
      + simpl. unfold upd. destruct (Nat.eqb_spec u k); [congruence|]. auto.
      + destruct (0 <? d_q (ps_disp s)) eqn:E0.
        * destruct (cf_wfail cfg (d_deq (ps_disp s))); [rewrite Sv|]; simpl; split; auto; right; lia.
        * split; auto. right. lia.
    - split; auto. }
  split.
  - intros i Hu. destruct (L _ Hu) as [Hu1 Hr]. destruct (Du u _ Hu) as (proxy & src & sport & eof & Hreq).
    unfold s2. set (s1 := pl_step cfg s k) in *.
    assert (E : pl_step cfg s1 u = pl_step_user cfg s1 u (UReq i) proxy src sport eof)
      by (unfold pl_step; rewrite Hu1, Hreq; reflexivity).
    rewrite E. simpl. pose proof (send_not_blocked cfg s1 eof Hr) as Nb.
    destruct (pl_send cfg s1 eof); try congruence;
      first [ left; simpl; unfold upd; rewrite Nat.eqb_refl; reflexivity
            | right; unfold pl_user_close; simpl; unfold upd; rewrite Nat.eqb_refl; auto ].
  - intros i c Hu. destruct (L _ Hu) as [Hu1 Hr]. destruct (Du u _ Hu) as (proxy & src & sport & eof & Hreq).
    unfold s2. set (s1 := pl_step cfg s k) in *.
    assert (E : pl_step cfg s1 u = pl_step_user cfg s1 u (URepl i c) proxy src sport eof)
      by (unfold pl_step; rewrite Hu1, Hreq; reflexivity).
    rewrite E. simpl. pose proof (send_not_blocked cfg s1 eof Hr) as Nb.
    destruct (pl_send cfg s1 eof); try congruence; simpl; unfold upd; rewrite Nat.eqb_refl; auto.
Qed.

(* ====== NewControl's integer code as regenerated from today's source (translator unit T11send/clamp) ====== *)
From Coq Require Import ZifyBool.

(* for EVERY client value and EVERY server maximum, zero and negative included: the stored poolCount computed
   by the regenerated statements is the model's clamp, i.e. max 0 (min client server); the capacity of
   workConnCh is that + 10; Start's loop is bounded by the stored value; nothing was left untranslated.
   The script is generic (unfold, case split on every condition, linear arithmetic): it goes through for any
   equivalent rewriting of the clamp and fails for any that computes something else. *)
Theorem generated_pool_code_bounded :
  gen11_unknown = false /\ gen11_start_bound_is_stored = true /\
  forall c m, gen11_stored c m = pl_pool_count c m /\
              gen11_stored c m = Z.max 0 (Z.min c m) /\
              gen11_chan_cap c m = pl_cap (pl_pool_count c m) /\
              gen11_chan_cap c m = Z.max 0 (Z.min c m) + 10.
Proof.
  split; [reflexivity|]. split; [reflexivity|]. intros c m.
  unfold pl_cap, pl_slack, pl_pool_count.
  cbv beta zeta delta [gen11_stored gen11_chan_cap gen11_env].
  repeat match goal with
         | |- context [if ?b then _ else _] => destruct b eqn:?
         | H : context [if ?b then _ else _] |- _ => destruct b eqn:?
         end; lia.
Qed.


(* ====== load-balancing group: worker, hand-off, members' Accept ====== *)

Record GInv' (p : option nat) (f : nat -> gfate) (th : nat -> option gpc) : Prop := {
  gi_fate : forall u, f u <> GLost /\ (forall m, f u <> GTaken m);
  gi_got : forall t u, th t <> Some (GLGot u);
  gi_arr : forall t, th t = Some GArrive -> f t = GNew;
  gi_send : forall t, th t = Some GSending ->
              (p = Some t /\ f t = GPending) \/ (p <> Some t /\ exists m, f t = GHandled m);
  gi_end : forall t, th t = Some GConnEnd ->
              f t = GRefused \/ f t = GClosedOnFail \/ exists m, f t = GHandled m;
  gi_pend : forall u, p = Some u -> th u = Some GSending
}.
Definition GInv (s : gst) : Prop := GInv' (gs_pending s) (gs_fate s) (gs_thr s).

Definition side_pc (x : gpc) : Prop :=
  x = GLRun \/ x = GLEnd \/ x = GC1 \/ x = GC2 \/ x = GCEnd.

Ltac gfin :=
  repeat match goal with
  | |- context [Nat.eqb ?a ?b] => let E := fresh "E" in destruct (Nat.eqb_spec a b) as [E|E]; [try (rewrite E in *; clear E)|]
  | H : context [Nat.eqb ?a ?b] |- _ => let E := fresh "E" in destruct (Nat.eqb_spec a b) as [E|E]; [try (rewrite E in *; clear E)|]
  end.
Ltac side H := destruct H as [H|[H|[H|[H|H]]]]; subst.

(* a loop or closer thread moves: nothing about connections changes *)
Lemma ginv_side p f th t x v : GInv' p f th -> th t = Some x -> side_pc x -> side_pc v ->
  GInv' p f (upd th t (Some v)).
Proof.
  intros [If Ig Ia Is Ie Ip] Et Hx Hv. constructor; auto; unfold upd.
  - intros t0 u. gfin; [side Hv; discriminate|apply Ig].
  - intros t0. gfin; [side Hv; discriminate|apply Ia].
  - intros t0. gfin; [side Hv; discriminate|apply Is].
  - intros t0. gfin; [side Hv; discriminate|apply Ie].
  - intros u H. gfin; [|apply Ip; auto]. apply Ip in H. rewrite Et in H. side Hx; discriminate.
Qed.

(* S1: the socket is closed: refused *)
Lemma ginv_refused p f th t : GInv' p f th -> th t = Some GArrive ->
  GInv' p (upd f t GRefused) (upd th t (Some GConnEnd)).
Proof.
  intros [If Ig Ia Is Ie Ip] Et. constructor; unfold upd.
  - intros u. gfin; [split; [discriminate|intros; discriminate]|apply If].
  - intros t0 u. gfin; [discriminate|apply Ig].
  - intros t0. gfin; [discriminate|apply Ia].
  - intros t0. gfin; [discriminate|apply Is].
  - intros t0. gfin; [auto|apply Ie].
  - intros u H. gfin; [|apply Ip; auto]. apply Ip in H. congruence.
Qed.

(* S2: the worker accepts t and stands in the send *)
Lemma ginv_accept p f th t : GInv' p f th -> p = None -> th t = Some GArrive ->
  GInv' (Some t) (upd f t GPending) (upd th t (Some GSending)).
Proof.
  intros I Hp. subst p. destruct I as [If Ig Ia Is Ie Ip]. intros Et. constructor; unfold upd.
  - intros u. gfin; [split; [discriminate|intros; discriminate]|apply If].
  - intros t0 u. gfin; [discriminate|apply Ig].
  - intros t0. gfin; [discriminate|apply Ia].
  - intros t0. gfin; [auto|]. intros H. destruct (Is _ H) as [[H1 _]|[_ H2]]; [discriminate|]. right. split; auto. congruence.
  - intros t0. gfin; [discriminate|apply Ie].
  - intros u H. inversion H; subst. gfin; congruence.
Qed.

(* S3: the send meets the closed channel: the worker closes the connection *)
Lemma ginv_closed_on_fail p f th t : GInv' p f th -> p = Some t -> th t = Some GSending ->
  GInv' None (upd f t GClosedOnFail) (upd th t (Some GConnEnd)).
Proof.
  intros I Hp. subst p. destruct I as [If Ig Ia Is Ie Ip]. intros Et. constructor; unfold upd.
  - intros u. gfin; [split; [discriminate|intros; discriminate]|apply If].
  - intros t0 u. gfin; [discriminate|apply Ig].
  - intros t0. gfin; [discriminate|apply Ia].
  - intros t0. gfin; [discriminate|]. intros H. destruct (Is _ H) as [[H1 _]|[_ H2]]; [congruence|]. right. split; [discriminate|auto].
  - intros t0. gfin; [auto|apply Ie].
  - discriminate.
Qed.

(* S4: the send has been completed by a receiver *)
Lemma ginv_sent p f th t : GInv' p f th -> th t = Some GSending -> p <> Some t ->
  GInv' p f (upd th t (Some GConnEnd)).
Proof.
  intros [If Ig Ia Is Ie Ip] Et Np. constructor; auto; unfold upd.
  - intros t0 u. gfin; [discriminate|apply Ig].
  - intros t0. gfin; [discriminate|apply Ia].
  - intros t0. gfin; [discriminate|apply Is].
  - intros t0. gfin; [|apply Ie]. intros _. destruct (Is _ Et) as [[H1 _]|[_ H2]]; [congruence|auto].
  - intros u H. gfin; [congruence|apply Ip; auto].
Qed.

(* S5: member m's Accept receives the pending connection and returns it *)
Lemma ginv_received p f th u m : GInv' p f th -> p = Some u -> GInv' None (upd f u (GHandled m)) th.
Proof.
  intros I Hp. subst p. destruct I as [If Ig Ia Is Ie Ip]. pose proof (Ip u eq_refl) as Eu. constructor; auto; unfold upd.
  - intros u0. gfin; [split; [discriminate|intros; discriminate]|apply If].
  - intros t0 H. gfin; [congruence|apply Ia; auto].
  - intros t0 H. gfin; [right; split; [discriminate|eauto]|].
    destruct (Is _ H) as [[H1 _]|[_ H2]]; [congruence|]. right. split; [discriminate|auto].
  - intros t0 H. gfin; [congruence|apply Ie; auto].
  - discriminate.
Qed.

Lemma g_init_inv cfg : GInv (g_init cfg).
Proof.
  constructor; simpl; try discriminate.
  - intros u. destruct (nth_error (gc_reqs cfg) u) as [[]|]; split; try discriminate; intros; discriminate.
  - intros t u. destruct (nth_error (gc_reqs cfg) t) as [[]|]; discriminate.
  - intros t. destruct (nth_error (gc_reqs cfg) t) as [[]|]; try discriminate; auto.
  - intros t. destruct (nth_error (gc_reqs cfg) t) as [[]|]; discriminate.
  - intros t. destruct (nth_error (gc_reqs cfg) t) as [[]|]; discriminate.
Qed.

Lemma g_step_inv cfg s t : gc_close_on_fail cfg = true -> gc_recheck_drops cfg = false ->
  GInv s -> GInv (g_step cfg s t).
Proof.
  intros Cf Rc I. unfold GInv in *. unfold g_step, g_receive. rewrite Cf, Rc.
  assert (SD : forall x v, gs_thr s t = Some x -> side_pc x -> side_pc v ->
               GInv' (gs_pending s) (gs_fate s) (upd (gs_thr s) t (Some v)))
    by (intros; eapply ginv_side; eauto).
  case_eq (gs_thr s t); [intros x Et|intros Et; auto]. destruct x; auto.
  - (* GArrive *)
    destruct (negb (gs_sock_open s)); simpl; [apply ginv_refused; auto|].
    case_eq (gs_pending s); [intros u Ep|intros Ep]; simpl; auto. eapply ginv_accept; eauto.
  - (* GSending *)
    case_eq (gs_pending s); [intros u Ep|intros Ep]; simpl.
    + destruct (Nat.eqb_spec u t); subst.
      * destruct (gs_chclosed s); simpl; auto. eapply ginv_closed_on_fail; eauto.
      * simpl. apply ginv_sent; auto. congruence.
    + simpl. apply ginv_sent; auto. congruence.
  - (* GLRun *)
    destruct (nth_error (gc_reqs cfg) t) as [[|m|m]|]; auto.
    assert (E : forall v, side_pc v -> GInv' (gs_pending s) (gs_fate s) (upd (gs_thr s) t (Some v)))
      by (intros v Hv; eapply SD; eauto; left; auto).
    case_eq (gs_pending s); [intros u Ep|intros Ep]; simpl.
    + destruct (gs_chclosed s); simpl; [apply E; right; left; auto|].
      destruct (gs_closech s m); simpl.
      * destruct (gc_pick cfg (gs_tick s)); simpl; [eapply ginv_received; eauto|apply E; right; left; auto].
      * eapply ginv_received; eauto.
    + destruct (gs_closech s m || gs_chclosed s); simpl; auto. apply E; right; left; auto.
  - (* GLGot: unreachable *) exfalso. eapply (gi_got _ _ _ I); eauto.
  - (* GC1 *) destruct (nth_error (gc_reqs cfg) t) as [[|m|m]|]; auto. simpl.
    eapply SD; eauto; [right; right; left; auto|right; right; right; left; auto].
  - (* GC2 *) destruct (nth_error (gc_reqs cfg) t) as [[|m|m]|]; auto. simpl.
    eapply SD; eauto; [right; right; right; left; auto|right; right; right; right; auto].
Qed.

Lemma g_exec_inv cfg sched : gc_close_on_fail cfg = true -> gc_recheck_drops cfg = false -> GInv (g_exec cfg sched).
Proof.
  intros Cf Rc. unfold g_exec, g_run. generalize (g_init_inv cfg). generalize (g_init cfg).
  induction sched as [|t r IH]; simpl; intros s I; auto. apply IH, g_step_inv; auto.
Qed.

(* every schedule of arrivals, member closes and member Accepts, every resolution of the ambiguous selects:
   a connection accepted by the group is never dropped unclosed, and once the worker is through with it, it
   was refused by the closed socket, closed by the worker, or returned by exactly one member's Accept *)
Theorem group_conn_never_lost cfg sched u :
  gc_close_on_fail cfg = true -> gc_recheck_drops cfg = false ->
  gs_fate (g_exec cfg sched) u <> GLost /\ forall m, gs_fate (g_exec cfg sched) u <> GTaken m.
Proof. intros Cf Rc. apply (gi_fate _ _ _ (g_exec_inv cfg sched Cf Rc)). Qed.

Theorem group_conn_handled_by_one_or_closed cfg sched u :
  gc_close_on_fail cfg = true -> gc_recheck_drops cfg = false ->
  let s := g_exec cfg sched in
  gs_thr s u = Some GConnEnd ->
  gs_fate s u = GRefused \/ gs_fate s u = GClosedOnFail \/ exists m, gs_fate s u = GHandled m.
Proof. intros Cf Rc s. apply (gi_end _ _ _ (g_exec_inv cfg sched Cf Rc)). Qed.

(* a pending connection is resolved by whoever comes next: a member still open receives it; once the channel
   is closed (last member gone) the worker's own step closes it *)
Theorem group_pending_progress cfg s u :
  gc_close_on_fail cfg = true -> gc_recheck_drops cfg = false -> gs_pending s = Some u ->
  (forall t m, gs_thr s t = Some GLRun -> nth_error (gc_reqs cfg) t = Some (GLoop m) ->
     gs_chclosed s = false -> gs_closech s m = false -> gs_fate (g_step cfg s t) u = GHandled m) /\
  (gs_thr s u = Some GSending -> gs_chclosed s = true -> gs_fate (g_step cfg s u) u = GClosedOnFail).
Proof.
  intros Cf Rc Ep. split.
  - intros t m Et Er Hc Hm. unfold g_step, g_receive. rewrite Et, Er, Ep, Hc, Hm, Rc. simpl. unfold upd.
    rewrite Nat.eqb_refl. auto.
  - intros Et Hc. unfold g_step. rewrite Et, Ep, Nat.eqb_refl, Hc, Cf. simpl. unfold upd. rewrite Nat.eqb_refl. auto.
Qed.

(* ====== translator-derived tables (T11send/paths): reflective checkers ====== *)
From Coq Require Import String.


(* sound once and for all tables: if the checker says true, every listed call site keeps the pooled
   wrapper inside a function without results, recycles it only by a deferred call or after the Join, and
   does Join after the wrap — the wrapper cannot outlive the call that recycles it *)
Lemma compress_sites_sound l : forallb compress_site_ok l = true ->
  forall f fn r c j, In (f, fn, r, c, j) l -> r = false /\ c = true /\ j = true.
Proof.
  intros H f fn r c j Hin. rewrite forallb_forall in H. specialize (H _ Hin). simpl in H.
  destruct r, c, j; simpl in H; try discriminate; auto.
Qed.


(* ====== vhost muxer hand-off ====== *)

Definition vh_ok (cfg : vhcfg) (thr : option vhpc) (f : vhfate) : Prop :=
  match thr with
  | Some VhLookup => f = VhNew
  | Some VhSending => f = VhPending \/ f = VhHandled
  | Some VhEnd => f = VhHandled \/ f = VhClosedNoRoute \/ f = VhClosedOnFail
  | _ => f = VhNoConn
  end.
Definition VhInv (cfg : vhcfg) (s : vhst) : Prop := forall u, vh_ok cfg (vs_thr s u) (vs_fate s u).

Lemma vh_init_inv cfg : VhInv cfg (v_init cfg).
Proof. intros u. simpl. destruct (nth_error (vc_reqs cfg) u) as [[]|]; simpl; auto. Qed.

Lemma vh_step_inv cfg s t : VhInv cfg s -> VhInv cfg (v_step cfg s t).
Proof.
  intros I u. pose proof (I u) as Iu. pose proof (I t) as It. unfold v_step.
  destruct (vs_thr s t) as [[]|] eqn:Et; simpl in It; auto.
  - destruct (vs_routed s); simpl; unfold upd; destruct (Nat.eqb_spec u t); subst; simpl; auto.
  - destruct (vs_fate s t) eqn:Ef; try (destruct It; discriminate);
      try (destruct (vs_chclosed s && vc_close_releases cfg); simpl; unfold upd; auto;
           destruct (Nat.eqb_spec u t); subst; simpl; auto; fail).
  - destruct (vs_chclosed s); simpl.
    + unfold upd. destruct (Nat.eqb_spec u t); subst; simpl; auto.
    + pose proof (I (vc_pick cfg (vs_tick s))) as Ip.
      destruct (vs_fate s (vc_pick cfg (vs_tick s))) eqn:Ef; auto. simpl. unfold upd.
      destruct (Nat.eqb_spec u (vc_pick cfg (vs_tick s))); subst; auto.
      unfold vh_ok in *. destruct (vs_thr s (vc_pick cfg (vs_tick s))) as [[]|]; try congruence; auto;
        destruct Ip as [H|[H|H]]; congruence.
  - simpl. unfold upd. destruct (Nat.eqb_spec u t); subst; simpl; auto.
  - simpl. unfold upd. destruct (Nat.eqb_spec u t); subst; simpl; auto.
Qed.

Lemma vh_exec_inv cfg sched : VhInv cfg (v_exec cfg sched).
Proof.
  unfold v_exec, v_run. generalize (vh_init_inv cfg). generalize (v_init cfg).
  induction sched as [|t r IH]; simpl; intros s I; auto. apply IH, vh_step_inv, I.
Qed.

(* every schedule of handle goroutines, the accept loop and Close: a routed connection that is still in the
   hand-off has its handle goroutine standing in the send; a handle goroutine that has ended left the
   connection delivered to Accept, closed for want of a route, or closed after a failed hand-off *)
Theorem vhost_conn_delivered_or_closed cfg sched u :
  let s := v_exec cfg sched in
  (vs_fate s u = VhPending -> vs_thr s u = Some VhSending) /\
  (vs_thr s u = Some VhEnd ->
     vs_fate s u = VhHandled \/ vs_fate s u = VhClosedNoRoute \/ vs_fate s u = VhClosedOnFail).
Proof.
  intros s. pose proof (vh_exec_inv cfg sched u) as I. fold s in I. unfold vh_ok in I. split.
  - intros H. destruct (vs_thr s u) as [[]|]; rewrite H in I; try discriminate; auto;
      destruct I as [I|[I|I]]; discriminate.
  - intros H. rewrite H in I. exact I.
Qed.

(* ... and the send never stays blocked: Close releases it (the dispatcher then closes the connection), and a
   running accept loop takes the sender its receive picks *)
Theorem vhost_pending_progress cfg s u :
  vs_fate s u = VhPending -> vs_thr s u = Some VhSending ->
  (vc_close_releases cfg = true -> vs_chclosed s = true -> vs_fate (v_step cfg s u) u = VhClosedOnFail) /\
  (forall t, vs_thr s t = Some VhLRun -> vs_chclosed s = false -> vc_pick cfg (vs_tick s) = u ->
     vs_fate (v_step cfg s t) u = VhHandled).
Proof.
  intros Hf Ht. split.
  - intros Hr Hc. unfold v_step. rewrite Ht, Hf, Hc, Hr. simpl. unfold upd. rewrite Nat.eqb_refl. auto.
  - intros t Hl Hc Hp. unfold v_step. rewrite Hl, Hc, Hp, Hf. simpl. unfold upd. rewrite Nat.eqb_refl. auto.
Qed.
