(* C17: reflective check over the call sites of the frame decoder (gen/GenReadSites.v). *)
From FRP Require Import Model.Bytes.
Open Scope Z_scope.

Definition site_file (s : string * string * string * string * string) : string := let '(f, _, _, _, _) := s in f.
Definition site_fn (s : string * string * string * string * string) : string := let '(_, g, _, _, _) := s in g.
Definition site_origin (s : string * string * string * string * string) : string := let '(_, _, _, _, o) := s in o.

(* no call site hands the decoder a buffered reader (which would take bytes behind the frame out of the
   stream); the two sites the system-level model is about are present (so the table is not empty because
   the translator looked in the wrong place); no decode-into-caller-buffer call in the UDP / datagram codecs *)
Definition read_sites_ok (sites : list (string * string * string * string * string)) (dst : list (string * string)) : bool :=
  forallb (fun s => negb (String.eqb (site_origin s) "bufio")) sites &&
  existsb (fun s => String.eqb (site_file s) "server/service.go" && String.eqb (site_fn s) "handleConnection") sites &&
  existsb (fun s => String.eqb (site_file s) "pkg/msg/handler.go" && String.eqb (site_fn s) "readLoop") sites &&
  match dst with [] => true | _ => false end.

Lemma read_sites_ok_sound sites dst :
  read_sites_ok sites dst = true ->
  (forall s, In s sites -> site_origin s <> "bufio"%string) /\
  (exists s, In s sites /\ site_file s = "server/service.go"%string /\ site_fn s = "handleConnection"%string) /\
  (exists s, In s sites /\ site_file s = "pkg/msg/handler.go"%string /\ site_fn s = "readLoop"%string) /\
  dst = [].
Proof.
  unfold read_sites_ok. rewrite !andb_true_iff. intros [[[H1 H2] H3] H4]. repeat split.
  - intros s Hin E. rewrite forallb_forall in H1. specialize (H1 s Hin). rewrite E in H1. discriminate.
  - apply existsb_exists in H2. destruct H2 as [s [Hin H]]. apply andb_true_iff in H. destruct H as [Ha Hb].
    apply String.eqb_eq in Ha, Hb. eauto.
  - apply existsb_exists in H3. destruct H3 as [s [Hin H]]. apply andb_true_iff in H. destruct H as [Ha Hb].
    apply String.eqb_eq in Ha, Hb. eauto.
  - destruct dst; [reflexivity|discriminate].
Qed.
