(* C03: the server side of a udp proxy's work connection (server/proxy/udp.go Run) as a schedule model.
   Model only: no proofs here.

   One shared sendCh; per work connection one sender goroutine (workConnSenderFn: select on sendCh
   and ctx.Done) and one reader goroutine; the fetch loop waits on checkCloseCh, calls cancel() for
   the connection just given up, then fetches the next one.  Steps:
     PSend d      a user datagram is queued in sendCh (queue not bounded here: no overload)
     PBreak       the current work connection dies
     PNotice      its reader goroutine fails and reports through checkCloseCh; the loop wakes up
     PCancel      the loop calls cancel(): the sender of the connection given up stops
     PNewConn     the loop has fetched the next work connection: new sender and reader
     PSender g    the sender goroutine of connection g takes the head of sendCh and writes it: delivered
                  if g is alive, otherwise the write fails, the datagram is lost and the sender exits
   [cancels] = false models a loop in which the cancel of the connection given up does not happen
   (e.g. deferred to the end of the loop's function): PCancel then only moves the loop on. *)
From FRP Require Export Model.Bytes.

Inductive pmain := PMStart | PMWait (g : N) | PMNoticed (g : N) | PMFetch.

Inductive pev := PSend (d : bytes) | PBreak | PNotice | PCancel | PNewConn | PSender (g : N).

Inductive pout := PDelivered (g : N) (d : bytes) | PLost (g : N) (d : bytes).

Record pst := {
  p_q : list bytes;        (* sendCh *)
  p_alive : list N;        (* live work connections (at most the current one) *)
  p_senders : list N;      (* running sender goroutines, by connection *)
  p_main : pmain;
  p_next : N
}.

Definition pinit : pst := {| p_q := []; p_alive := []; p_senders := []; p_main := PMFetch; p_next := 0%N |}.

Definition premove (g : N) (l : list N) : list N := filter (fun x => negb (N.eqb g x)) l.
Definition pmem (g : N) (l : list N) : bool := existsb (N.eqb g) l.

Definition pstep (cancels : bool) (st : pst) (e : pev) : pst * list pout :=
  match e with
  | PSend d =>
      ({| p_q := p_q st ++ [d]; p_alive := p_alive st; p_senders := p_senders st; p_main := p_main st; p_next := p_next st |}, [])
  | PBreak =>
      match p_main st with
      | PMWait g => ({| p_q := p_q st; p_alive := premove g (p_alive st); p_senders := p_senders st; p_main := p_main st; p_next := p_next st |}, [])
      | _ => (st, [])
      end
  | PNotice =>
      match p_main st with
      | PMWait g => if pmem g (p_alive st) then (st, [])
                    else ({| p_q := p_q st; p_alive := p_alive st; p_senders := p_senders st; p_main := PMNoticed g; p_next := p_next st |}, [])
      | _ => (st, [])
      end
  | PCancel =>
      match p_main st with
      | PMNoticed g =>
          ({| p_q := p_q st; p_alive := p_alive st;
              p_senders := if cancels then premove g (p_senders st) else p_senders st;
              p_main := PMFetch; p_next := p_next st |}, [])
      | _ => (st, [])
      end
  | PNewConn =>
      match p_main st with
      | PMFetch =>
          let g := p_next st in
          ({| p_q := p_q st; p_alive := g :: p_alive st; p_senders := g :: p_senders st; p_main := PMWait g; p_next := N.succ g |}, [])
      | _ => (st, [])
      end
  | PSender g =>
      if pmem g (p_senders st) then
        match p_q st with
        | [] => (st, [])
        | d :: q =>
            if pmem g (p_alive st)
            then ({| p_q := q; p_alive := p_alive st; p_senders := p_senders st; p_main := p_main st; p_next := p_next st |}, [PDelivered g d])
            else ({| p_q := q; p_alive := p_alive st; p_senders := premove g (p_senders st); p_main := p_main st; p_next := p_next st |}, [PLost g d])
        end
      else (st, [])
  end.

(* runs a schedule; [established] marks, for every output, whether a live work connection existed
   when the step was taken *)
Fixpoint prun (cancels : bool) (st : pst) (h : list pev) : list (bool * pout) :=
  match h with
  | [] => []
  | e :: r =>
      let '(st1, o1) := pstep cancels st e in
      map (fun o => (negb (match p_alive st with [] => true | _ => false end), o)) o1 ++ prun cancels st1 r
  end.

Definition plost_while_established (x : bool * pout) : bool :=
  match x with (true, PLost _ _) => true | _ => false end.
