(* C18 — soundness of the reflective checker of the legacy ini conversion (Model/LegacyConvCheck.v) *)
From FRP Require Import Model.LegacyConvCheck Proofs.FlagsProofs.

Lemma lc_entry_eqb_eq a b : lc_entry_eqb a b = true -> a = b.
Proof.
  destruct a as [[[[a1 a2] a3] a4] a5], b as [[[[b1 b2] b3] b4] b5]. cbn. intros H.
  repeat (apply andb_true_iff in H; destruct H as [H ?]).
  repeat match goal with E : String.eqb _ _ = true |- _ => apply String.eqb_eq in E end. now subst.
Qed.

Lemma lc_incl es gs : forallb (fun e => existsb (lc_entry_eqb e) gs) es = true -> incl es gs.
Proof.
  intros H e He. rewrite forallb_forall in H. specialize (H e He).
  apply existsb_exists in H. destruct H as (g & Hg & E). apply lc_entry_eqb_eq in E. now subst.
Qed.

Theorem legacy_conv_sound tbl golden nc conv keys :
  lc_all_ok tbl golden nc conv keys = true ->
  exists es,
    (* every assignment of the two conversion functions was understood and resolves to a v1 file-format key, *)
    lc_entries tbl conv = Some es /\
    (* the assignments are exactly the pinned ones: same ini key, same v1 key, same form, same guard, *)
    incl es golden /\ incl golden es /\
    (* no ini key is read twice, no v1 setting is written twice, *)
    NoDup (map lc_sec_ini es) /\ NoDup (map lc_sec_target es) /\
    (* and every ini key the legacy structs declare is converted or on the pinned not-converted list *)
    forall sec ini lp, In (sec, ini, lp) keys -> lc_has_tag ini = true ->
      In (sec ++ "/" ++ ini)%string (map lc_sec_ini es) \/ In (sec, ini) nc.
Proof.
  unfold lc_all_ok. destruct (lc_entries tbl conv) as [es|]; [|discriminate]. intros H.
  repeat (apply andb_true_iff in H; destruct H as [H ?]).
  exists es. repeat split; auto using lc_incl, fc_nodup_NoDup.
  intros sec ini lp Hin Htag.
  match goal with Hk : forallb _ keys = true |- _ => rewrite forallb_forall in Hk; specialize (Hk _ Hin); cbn beta iota in Hk end.
  rewrite Htag in *.
  destruct (existsb (String.eqb (sec ++ "/" ++ ini)%string) (map lc_sec_ini es)) eqn:E1.
  - left. apply existsb_exists in E1. destruct E1 as (x & Hx & E). apply String.eqb_eq in E. now subst.
  - right. destruct (existsb (fun n : string * string => String.eqb (fst n) sec && String.eqb (snd n) ini) nc) eqn:E2;
      [|discriminate].
    apply existsb_exists in E2. destruct E2 as ([a b] & Hx & E). cbn in E. apply andb_true_iff in E. destruct E as [Ea Eb].
    apply String.eqb_eq in Ea, Eb. now subst.
Qed.
