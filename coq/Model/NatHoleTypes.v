(* Types of the data translator unit T2 emits (coq/gen/GenNatHole.v).  Model only: no proofs here. *)
From FRP Require Export Model.Bytes.
Open Scope Z_scope.

(* which NatFeature a guard of GetRecommandBehaviors inspects: the parameter [c] or [v] *)
Inductive nh_side := NhSideC | NhSideV.

(* the conditions of the three role swaps, as written in the source *)
Inductive nh_guard :=
| NhNatIs (s : nh_side) (const : string)      (* s.NatType == <const identifier> *)
| NhRegular (s : nh_side)                     (* s.RegularPortsChange *)
| NhNot (g : nh_guard)
| NhGuardUnknown (src : string).

(* one RecommandBehavior{...} literal; [role] is the identifier used in the source *)
Inductive nh_gbeh :=
| NhBeh (role : string) (ttl delay range random listen : Z)
| NhBehUnknown (src : string).

(* small integer expressions (getRangePorts clamps, the port test of ClassifyNATFeature) *)
Inductive nh_expr :=
| NhVar (name : string)
| NhInt (z : Z)
| NhAdd (a b : nh_expr)
| NhSub (a b : nh_expr)
| NhMax (l : list nh_expr)
| NhMin (l : list nh_expr)
| NhExprUnknown (src : string).

Inductive nh_bexpr :=
| NhLe (a b : nh_expr) | NhLt (a b : nh_expr) | NhGe (a b : nh_expr) | NhGt (a b : nh_expr)
| NhOr (a b : nh_bexpr) | NhAnd (a b : nh_bexpr)
| NhBUnknown (src : string)
| NhAbsent.                                    (* the statement the translator looks for is not there *)
