package main

// C10 ("everything a proxy or session held is released on every termination path"): correspondence
// drivers against Corr/C10.v.
//
//	release   one fresh in-process frps per scenario: proxy kind x termination path matrix, then random
//	cycles    one frps, the same names registered and torn down over and over
//	connwrap  close-propagation of the connection wrappers around a counting net.Conn
//
// This file: the shared "world" (an frps plus scripted sessions plus squatters) that records every
// operation as a model step (SrvRes.sop) together with the observation the model must reproduce.

import (
	"bufio"
	"crypto/tls"
	"fmt"
	"net"
	"net/http"
	"os"
	"sort"
	"strconv"
	"strings"
	"sync"
	"syscall"
	"time"

	"github.com/fatedier/frp/pkg/config/types"
	v1 "github.com/fatedier/frp/pkg/config/v1"
	"github.com/fatedier/frp/pkg/msg"
	netpkg "github.com/fatedier/frp/pkg/util/net"
	"github.com/fatedier/frp/pkg/util/util"
	"github.com/fatedier/frp/pkg/util/verifhook"
	"github.com/fatedier/frp/server/controller"

	"verifharness/hx"
)

var drivers = map[string]hx.DriverFn{}

func main() { hx.Main(drivers) }

const (
	coqImports = "From FRP Require Import Corr.C10.\nOpen Scope Z_scope.\nOpen Scope string_scope.\n"
	basePort   = 21000
	badAddr    = "192.0.2.1" // TEST-NET-1: never a local address, listening on it fails
	maxPool    = 5
	subHost    = "frp.test"
	notObs     = -1000
)

var branchNames = []string{"NB_OK", "NB_QUOTA", "NB_EXISTS", "NB_ACQERR", "NB_LISTENFAIL", "NB_CONFLICT_ROLLBACK",
	"NB_CONFLICT_FIRST", "NB_GROUP_REFUSED", "NB_ADDRACE", "NB_REPEATED", "NB_CLOSE", "NB_END_WITH_PROXIES",
	"NB_GROUP_JOIN", "NB_GROUP_LAST_LEAVE", "NB_END_WITH_POOL"}

func caseTail() string {
	var b strings.Builder
	b.WriteString("Definition M := Eval vm_compute in mismatches check_case cases.\nPrint M.\n")
	for i, n := range branchNames {
		fmt.Fprintf(&b, "Definition %s := Eval vm_compute in (count_branch %d cases : Z).\nPrint %s.\n", n, i+1, n)
	}
	return b.String()
}

// ---------- small helpers ----------

func zlist(xs []int) string {
	s := make([]string, len(xs))
	for i, x := range xs {
		s[i] = hx.Z(int64(x))
	}
	return hx.List(s)
}

func slist(xs []string) string {
	s := make([]string, len(xs))
	for i, x := range xs {
		s[i] = hx.Str(x)
	}
	return hx.List(s)
}

func sameInts(a, b []int) bool {
	if len(a) != len(b) {
		return false
	}
	for i := range a {
		if a[i] != b[i] {
			return false
		}
	}
	return true
}

func minus(a, b []int) []int {
	in := map[int]bool{}
	for _, x := range b {
		in[x] = true
	}
	r := []int{}
	for _, x := range a {
		if !in[x] {
			r = append(r, x)
		}
	}
	return r
}

func union(a, b []int) []int {
	in := map[int]bool{}
	r := []int{}
	for _, x := range append(append([]int{}, a...), b...) {
		if !in[x] {
			in[x] = true
			r = append(r, x)
		}
	}
	sort.Ints(r)
	return r
}

func truncate(s string, n int) string {
	if len(s) > n {
		return s[:n] + "..."
	}
	return s
}

// ---------- squatter: sockets bound from outside the code under test ----------

type squatter struct {
	proto string
	addr  string
	held  map[int]interface{ Close() error }
}

func newSquatter(proto, addr string) *squatter {
	return &squatter{proto: proto, addr: addr, held: map[int]interface{ Close() error }{}}
}

func bindPort(proto, addr string, port int) (interface{ Close() error }, error) {
	hp := net.JoinHostPort(addr, strconv.Itoa(port))
	if proto == "udp" {
		ua, err := net.ResolveUDPAddr("udp", hp)
		if err != nil {
			return nil, err
		}
		return net.ListenUDP("udp", ua)
	}
	return net.Listen("tcp", hp)
}

func (q *squatter) squat(port int) bool {
	if _, ok := q.held[port]; ok {
		return false
	}
	l, err := bindPort(q.proto, q.addr, port)
	if err != nil {
		return false
	}
	q.held[port] = l
	return true
}

func (q *squatter) unsquat(port int) {
	if l, ok := q.held[port]; ok {
		l.Close()
		delete(q.held, port)
	}
}

func (q *squatter) closeAll() {
	for p, l := range q.held {
		l.Close()
		delete(q.held, p)
	}
}

func (q *squatter) ports() []int {
	r := []int{}
	for p := range q.held {
		r = append(r, p)
	}
	sort.Ints(r)
	return r
}

// osBusy: which of the given ports cannot be bound right now (somebody holds them)
func osBusy(proto, addr string, ports []int) []int {
	r := []int{}
	for _, p := range ports {
		if p <= 0 || p > 65535 {
			continue
		}
		l, err := bindPort(proto, addr, p)
		if err != nil {
			r = append(r, p)
			continue
		}
		l.Close()
	}
	return r
}

func expandRanges(rs []types.PortsRange) []int {
	in := map[int]bool{}
	out := []int{}
	add := func(p int) {
		if p >= 1 && p <= 65535 && !in[p] {
			in[p] = true
			out = append(out, p)
		}
	}
	for _, r := range rs {
		if r.Single > 0 {
			add(r.Single)
			continue
		}
		for p := r.Start; p <= r.End; p++ {
			add(p)
		}
	}
	sort.Ints(out)
	return out
}

func coqRanges(rs []types.PortsRange) string {
	s := []string{}
	for _, r := range rs {
		s = append(s, fmt.Sprintf("(%d, %d, %d)", r.Start, r.End, r.Single))
	}
	return hx.List(s)
}

// ---------- requests ----------

// preq: one NewProxy as the harness thinks of it. kind is the wire type.
type preq struct {
	kind    string
	name    string
	port    int
	group   string
	gkey    string
	domains []string
	sub     string
	locs    []string
	user    string
	bw      bool // bandwidthLimit 1MB, mode server
}

func (q preq) toMsg() *msg.NewProxy {
	m := &msg.NewProxy{ProxyName: q.name, ProxyType: q.kind, RemotePort: q.port, Group: q.group, GroupKey: q.gkey,
		CustomDomains: q.domains, SubDomain: q.sub, Locations: q.locs, RouteByHTTPUser: q.user}
	switch q.kind {
	case "tcpmux":
		m.Multiplexer = "httpconnect"
	case "stcp", "sudp", "xtcp":
		m.Sk = "s3cret"
	}
	if q.bw {
		m.BandwidthLimit = "1MB"
		m.BandwidthLimitMode = "server"
	}
	return m
}

var coqType = map[string]string{"tcp": "TTcp", "udp": "TUdp", "http": "THttp", "https": "THttps", "tcpmux": "TTcpmux",
	"stcp": "TStcp", "sudp": "TSudp", "xtcp": "TXtcp"}

func (q preq) allDomains() []string {
	d := append([]string{}, q.domains...)
	if q.sub != "" {
		d = append(d, q.sub+"."+subHost)
	}
	return d
}

func (q preq) coq(choice string, lok, addok bool) string {
	return fmt.Sprintf("{| q_type := %s; q_name := %s; q_port := %s; q_group := %s; q_gkey := %s; q_domains := %s; q_locs := %s; q_user := %s; q_cred := \"\"; q_choice := %s; q_lok := %s; q_addok := %s |}",
		coqType[q.kind], hx.Str(q.name), hx.Z(int64(q.port)), hx.Str(q.group), hx.Str(q.gkey), slist(q.allDomains()), slist(q.locs),
		hx.Str(q.user), choice, hx.Bool(lok), hx.Bool(addok))
}

func (q preq) hasPort() bool { return q.kind == "tcp" || q.kind == "udp" }

func remotePort(remote string) int {
	i := strings.LastIndex(remote, ":")
	if i < 0 {
		return -1
	}
	p, err := strconv.Atoi(remote[i+1:])
	if err != nil {
		return -1
	}
	return p
}

// respCode: the result codes of Corr/C10.v rerr_code; -98 = a text the harness cannot classify
func respCode(q preq, r *msg.NewProxyResp) int {
	e := r.Error
	switch {
	case e == "":
		if q.hasPort() {
			return remotePort(r.RemoteAddr)
		}
		return 0
	case strings.Contains(e, "exceed the max_ports_per_client"):
		return -10
	case strings.Contains(e, "already exists"):
		return -11
	case strings.Contains(e, "proxy name [") && strings.Contains(e, "already in use"):
		return -12
	case strings.Contains(e, "port already used"):
		return -1
	case strings.Contains(e, "port not allowed"):
		return -2
	case strings.Contains(e, "port unavailable"):
		return -3
	case strings.Contains(e, "no available port"):
		return -4
	case strings.Contains(e, "group params invalid"):
		return -6
	case strings.Contains(e, "group should have same remote port"):
		return -7
	case strings.Contains(e, "group auth failed"):
		return -8
	case strings.Contains(e, "group proxy repeated"):
		return -9
	case strings.Contains(e, "router config conflict"):
		return -13
	case strings.Contains(e, "custom listener for [") && strings.Contains(e, "is repeated"):
		return -14
	case strings.Contains(e, "proxy [") && strings.Contains(e, "is repeated"):
		return -15
	case strings.Contains(e, "bind:"), strings.Contains(e, "listen "):
		return -5
	}
	return -98
}

// ---------- recorder: statistics shared by the cases of one run ----------

type recorder struct {
	mu       sync.Mutex
	dist     map[string]int
	failures []map[string]string
}

func newRecorder() *recorder {
	return &recorder{dist: map[string]int{}, failures: []map[string]string{}}
}

func (r *recorder) count(k string) {
	r.mu.Lock()
	r.dist[k]++
	r.mu.Unlock()
}

func (r *recorder) fail(key, what, cs string) {
	r.mu.Lock()
	r.failures = append(r.failures, map[string]string{"key": key, "what": what, "case": truncate(cs, 3000)})
	r.mu.Unlock()
}

// ---------- the world ----------

type sess struct {
	id     int
	p      *hx.Peer
	runID  string
	pooled []net.Conn // work connections offered while nobody needed one (SWorkConn steps)
	kept   []net.Conn // other connections of this session the harness must close at the end
}

type world struct {
	handoff      *gate // a user connection held at vhost.mux.before_handoff
	smallRcvNext bool // the next login uses a socket with a tiny receive buffer (see clog)
	addr                         string
	srv                          *hx.Server
	rc                           *controller.ResourceController
	ranges                       []types.PortsRange
	allow                        []int
	maxp                         int
	hbeat                        bool // server heartbeat timeout 1 s: live sessions are pinged before every operation
	httpPort, httpsPort, muxPort int
	tsq, usq                     *squatter
	steps                        []string
	same                         [][2]int
	peers                        map[int]*sess
	taken                        map[int]bool // ports that had a purpose in this case (never given a second one)
	silent                       map[int]bool
	nextSid                      int
	runTag                       string
	rec                          *recorder
	label                        string // "<kind>:<path>" for failure keys
	oks                          int
	codes                        []int
	broken                       bool // the harness lost track (a scripted step failed); the case is cut short
}

type worldOpts struct {
	addr   string
	ranges []types.PortsRange
	maxp   int
	hbeat  bool
	runTag string
	label  string
	rec    *recorder
}

func newWorld(o worldOpts) (*world, error) {
	w := &world{addr: o.addr, ranges: o.ranges, allow: expandRanges(o.ranges), maxp: o.maxp, hbeat: o.hbeat,
		tsq: newSquatter("tcp", o.addr), usq: newSquatter("udp", o.addr), peers: map[int]*sess{}, silent: map[int]bool{}, taken: map[int]bool{},
		nextSid: 1, runTag: o.runTag, rec: o.rec, label: o.label}
	var err error
	for try := 0; try < 4; try++ {
		w.httpPort, w.httpsPort, w.muxPort = hx.FreePort(o.addr), hx.FreePort(o.addr), hx.FreePort(o.addr)
		if w.httpPort == w.httpsPort || w.httpPort == w.muxPort || w.httpsPort == w.muxPort {
			continue
		}
		w.srv, err = hx.StartServer(o.addr, func(c *v1.ServerConfig) {
			c.AllowPorts = o.ranges
			c.MaxPortsPerClient = int64(o.maxp)
			c.Transport.MaxPoolCount = maxPool
			c.VhostHTTPPort = w.httpPort
			c.VhostHTTPSPort = w.httpsPort
			c.TCPMuxHTTPConnectPort = w.muxPort
			c.SubDomainHost = subHost
			t := true
			c.DetailedErrorsToClient = &t
			c.UserConnTimeout = 2
			c.Transport.HeartbeatTimeout = 90
			if o.hbeat {
				c.Transport.HeartbeatTimeout = 1
			}
		})
		if err == nil {
			break
		}
		if w.srv != nil {
			w.srv.Close()
			w.srv = nil
		}
	}
	if err != nil || w.srv == nil {
		return nil, fmt.Errorf("frps did not start on %s: %v", o.addr, err)
	}
	w.rc = w.srv.Svc.VerifResourceController()
	return w, nil
}

func (w *world) last() int { return len(w.steps) - 1 }

// pick: a port of the allowed range that had no purpose in this case yet (explicit ports are chosen
// right before their first use, so a server-chosen port of an earlier registration is never hit)
func (w *world) pick() int {
	// a registration that is still in flight (held at a gate) may have been given a port meanwhile
	for _, p := range append(usedPorts(w.rc.TCPPortManager), usedPorts(w.rc.UDPPortManager)...) {
		w.taken[p] = true
	}
	for _, p := range w.allow {
		if !w.taken[p] {
			w.taken[p] = true
			return p
		}
	}
	w.harnessFail("no unused port left in the allowed range")
	return 0
}

func (w *world) pair(i, j int) {
	if i >= 0 && j >= 0 && i != j {
		w.same = append(w.same, [2]int{i, j})
	}
}

func (w *world) fail(key, what string) {
	w.rec.fail(key, what, "["+w.label+"] "+strings.Join(w.steps, "; "))
}

// harnessFail: the scripted exchange itself broke (no reply, login refused...). Reported like an
// implementation failure (something is wrong and must be looked at) under a key of its own.
func (w *world) harnessFail(what string) {
	w.broken = true
	w.rec.fail("scripted-step-failed:"+w.label, what, "["+w.label+"] "+strings.Join(w.steps, "; "))
}

const noObs = "{| ob_sizes := []; ob_tcp := []; ob_udp := []; ob_names := []; ob_tbusy := []; ob_ubusy := []; ob_keys := [] |}"

func usedPorts(m interface {
	VerifSnapshot() ([]int, map[int]string, map[string]int)
}) []int {
	_, u, _ := m.VerifSnapshot()
	r := []int{}
	for p := range u {
		r = append(r, p)
	}
	sort.Ints(r)
	return r
}

func live(m map[string]int) int {
	n := 0
	for _, v := range m {
		if v > 0 {
			n++
		}
	}
	return n
}

// observe: the tables of the server through the verif accessors plus a bind scan of the allowed range
func (w *world) observe() string {
	tu := usedPorts(w.rc.TCPPortManager)
	uu := usedPorts(w.rc.UDPPortManager)
	tb := osBusy("tcp", w.addr, w.allow)
	ub := osBusy("udp", w.addr, w.allow)
	// a bind probe can be disturbed (somebody else scanning): look again once before believing it
	if !sameInts(tb, union(tu, w.tsq.ports())) || !sameInts(ub, union(uu, w.usq.ports())) {
		time.Sleep(30 * time.Millisecond)
		tu = usedPorts(w.rc.TCPPortManager)
		uu = usedPorts(w.rc.UDPPortManager)
		tb = osBusy("tcp", w.addr, w.allow)
		ub = osBusy("udp", w.addr, w.allow)
	}
	for _, p := range append(append(append(append([]int{}, tu...), uu...), w.tsq.ports()...), w.usq.ports()...) {
		w.taken[p] = true
	}
	names := w.srv.Svc.VerifC10Names()
	ss := w.srv.Svc.VerifC10Sessions()
	total := 0
	quota := 0
	for _, s := range ss {
		total += len(s.Proxies)
		quota += s.PortsUsed
	}
	sizes := []int{
		len(tu), len(uu),
		len(minus(tb, w.tsq.ports())), len(minus(ub, w.usq.ports())),
		len(w.rc.HTTPReverseProxy.VerifC10Routers().VerifC10Routes()),
		len(w.rc.VhostHTTPSMuxer.VerifC10Routers().VerifC10Routes()),
		len(w.rc.TCPMuxHTTPConnectMuxer.VerifC10Routers().VerifC10Routes()),
		len(w.rc.VisitorManager.VerifC10Names()),
		len(w.rc.NatHoleController.VerifClientNames()),
		live(w.rc.TCPGroupCtl.VerifC13Table()), live(w.rc.HTTPGroupCtl.VerifC13Table()), live(w.rc.TCPMuxGroupCtl.VerifC13Table()),
		len(names), len(ss), total, quota,
	}
	// the content of the keyed tables
	keys := []string{}
	for _, r := range w.rc.HTTPReverseProxy.VerifC10Routers().VerifC10Routes() {
		keys = append(keys, "H|"+r)
	}
	for _, r := range w.rc.VhostHTTPSMuxer.VerifC10Routers().VerifC10Routes() {
		keys = append(keys, "S|"+r)
	}
	for _, r := range w.rc.TCPMuxHTTPConnectMuxer.VerifC10Routers().VerifC10Routes() {
		keys = append(keys, "M|"+r)
	}
	for _, n := range w.rc.VisitorManager.VerifC10Names() {
		keys = append(keys, "V|"+n)
	}
	nat := w.rc.NatHoleController.VerifClientNames()
	sort.Strings(nat)
	for _, n := range nat {
		keys = append(keys, "N|"+n)
	}
	return fmt.Sprintf("{| ob_sizes := %s; ob_tcp := %s; ob_udp := %s; ob_names := %s; ob_tbusy := %s; ob_ubusy := %s; ob_keys := %s |}",
		zlist(sizes), zlist(tu), zlist(uu), slist(names), zlist(tb), zlist(ub), slist(keys))
}

func (w *world) emit(op string, out int, obs string) {
	w.steps = append(w.steps, fmt.Sprintf("{| st_op := %s; st_out := %s; st_obs := %s |}", op, hx.Z(int64(out)), obs))
}

func isPong(m msg.Message) bool    { _, ok := m.(*msg.Pong); return ok }
func isReqWork(m msg.Message) bool { _, ok := m.(*msg.ReqWorkConn); return ok }

// sync: handlers of one session run in order, so a Pong means everything sent before was handled
func (w *world) sync(s *sess) bool {
	if err := s.p.Ping(true); err != nil {
		return false
	}
	_, err := s.p.RecvUntil(3*time.Second, isPong)
	return err == nil
}

// keepalive: with heartbeatTimeout = 1 every session that is meant to live is pinged before each step
func (w *world) keepalive() {
	if !w.hbeat {
		return
	}
	for id, s := range w.peers {
		if !w.silent[id] {
			w.sync(s)
		}
	}
}

func (w *world) sessionInfo(runID string) (pool int, present bool) {
	for _, s := range w.srv.Svc.VerifC10Sessions() {
		if s.RunID == runID {
			return s.Pool, true
		}
	}
	return 0, false
}

// login: a new session number; the run id is unique in the run unless one is given (re-login)
func (w *world) login() int {
	w.keepalive()
	c := w.nextSid
	runID := fmt.Sprintf("c10-%s-%d", w.runTag, c)
	var p *hx.Peer
	var resp *msg.LoginResp
	var err error
	if w.smallRcvNext {
		w.smallRcvNext = false
		p, resp, err = loginSmallRcv(w.srv, runID)
	} else {
		p, resp, err = w.srv.Login(hx.LoginOpts{RunID: runID, PoolCount: 0})
	}
	if err != nil || p == nil {
		w.harnessFail(fmt.Sprint("scripted login failed: ", err, resp))
		return 0
	}
	w.nextSid++
	w.peers[c] = &sess{id: c, p: p, runID: runID}
	w.emit(fmt.Sprintf("(SLogin %d 0)", c), 0, w.observe())
	return c
}

type npOpts struct {
	listenFail bool // make net.Listen fail after the port was acquired
}

// newProxy: NewProxy + NewProxyResp, recorded with the observation after it. Returns the result code.
func (w *world) newProxy(c int, q preq, o npOpts) int {
	w.keepalive()
	s := w.peers[c]
	if s == nil {
		w.harnessFail("newProxy on a dead session")
		return -99
	}
	good := w.srv.Cfg.ProxyBindAddr
	if o.listenFail {
		// the port managers keep their own copy of the bind address: Acquire's probe succeeds, Listen fails
		w.srv.Cfg.ProxyBindAddr = badAddr
	}
	resp, err := s.p.NewProxy(q.toMsg())
	if o.listenFail {
		w.srv.Cfg.ProxyBindAddr = good
	}
	if err != nil {
		w.harnessFail(fmt.Sprint("no NewProxyResp for ", q.name, ": ", err))
		return -99
	}
	code := respCode(q, resp)
	w.recordNew(c, q, code, resp.Error, true, w.observe(), "")
	return code
}

// reservedPort: the port the manager remembers for a proxy name (Acquire records it before the listen)
func (w *world) reservedPort(q preq) (int, bool) {
	var r map[string]int
	if q.kind == "udp" {
		_, _, r = w.rc.UDPPortManager.VerifSnapshot()
	} else {
		_, _, r = w.rc.TCPPortManager.VerifSnapshot()
	}
	p, ok := r[q.name]
	return p, ok
}

// recordNew: emit the SNewProxy step.  choice = the oracle value if the caller knows it better ("" = derive it)
func (w *world) recordNew(c int, q preq, code int, errText string, addok bool, obs string, choiceIs string) {
	if code == -98 {
		w.rec.fail("unknown-error-text:"+w.label, "NewProxyResp.Error not classified: "+errText, strings.Join(w.steps, "; "))
	}
	choice := "None"
	if q.hasPort() && q.port == 0 {
		if code > 0 {
			choice = fmt.Sprintf("(Some %d)", code)
		} else if code == -5 {
			// the port the failed listen was attempted on
			if p, ok := w.reservedPort(q); ok {
				choice = fmt.Sprintf("(Some %d)", p)
			}
		}
	}
	if choiceIs != "" {
		choice = choiceIs
	}
	if code >= 0 {
		w.oks++
	}
	w.codes = append(w.codes, code)
	w.emit(fmt.Sprintf("(SNewProxy %d %s)", c, q.coq(choice, code != -5, addok)), code, obs)
}

func (w *world) closeProxy(c int, name string) {
	w.keepalive()
	s := w.peers[c]
	if s == nil {
		w.harnessFail("closeProxy on a dead session")
		return
	}
	if err := s.p.CloseProxy(name); err != nil || !w.sync(s) {
		w.harnessFail("CloseProxy / Ping round trip failed for " + name)
		return
	}
	w.emit(fmt.Sprintf("(SCloseProxy %d %s)", c, hx.Str(name)), 0, w.observe())
}

// offerPooled: a work connection nobody waits for; it stays in the session's pool
func (w *world) offerPooled(c int) {
	w.keepalive()
	s := w.peers[c]
	before, ok := w.sessionInfo(s.runID)
	if !ok {
		w.harnessFail("offerPooled: session not in the table")
		return
	}
	wc, err := s.p.WorkConn(true)
	if err != nil {
		w.harnessFail(fmt.Sprint("offering a work connection failed: ", err))
		return
	}
	s.pooled = append(s.pooled, wc)
	out := notObs
	for i := 0; i < 200; i++ {
		if now, _ := w.sessionInfo(s.runID); now == before+1 {
			out = 1
			break
		}
		time.Sleep(5 * time.Millisecond)
	}
	if out == notObs {
		// refused (pool full) shows as a closed connection
		if hx.ConnClosedWithin(wc, 200*time.Millisecond) {
			out = 0
		}
	}
	w.emit(fmt.Sprintf("(SWorkConn %d)", c), out, w.observe())
}

func (w *world) checkPooledClosed(s *sess, how string) {
	for _, wc := range s.pooled {
		if !hx.ConnClosedWithin(wc, 2*time.Second) {
			w.fail("pooled-workconn-not-closed:"+how, "a pooled work connection is still open 2 s after its session ended")
		}
		wc.Close()
	}
	s.pooled = nil
	for _, k := range s.kept {
		k.Close()
	}
	s.kept = nil
}

// waitGone: the teardown of the session has finished and its entry has left the session table
func (w *world) waitGone(runID string, done <-chan struct{}, limit time.Duration) bool {
	if done != nil {
		select {
		case <-done:
		case <-time.After(limit):
			return false
		}
	}
	deadline := time.Now().Add(3 * time.Second)
	for time.Now().Before(deadline) {
		if _, present := w.sessionInfo(runID); !present {
			return true
		}
		time.Sleep(2 * time.Millisecond)
	}
	return false
}

// end: the session's control connection goes away (cause "CDrop": the harness closes it; "CHeartbeat": the
// peer stays silent until the server gives up)
func (w *world) end(c int, cause string) {
	w.keepalive()
	s := w.peers[c]
	if s == nil {
		w.harnessFail("end of a dead session")
		return
	}
	done := w.srv.Svc.VerifC10Done(s.runID)
	pool, _ := w.sessionInfo(s.runID)
	out := notObs
	if pool == len(s.pooled) {
		out = pool
	}
	gone := false
	switch cause {
	case "CDrop":
		s.p.Close()
		gone = w.waitGone(s.runID, done, 3*time.Second)
	case "CHeartbeat":
		w.silent[c] = true
		deadline := time.Now().Add(5 * time.Second)
		for time.Now().Before(deadline) {
			if _, present := w.sessionInfo(s.runID); !present {
				break
			}
			w.keepalive()
			time.Sleep(100 * time.Millisecond)
		}
		gone = w.waitGone(s.runID, done, time.Second)
		if gone && !hx.ConnClosedWithin(s.p.Conn, 2*time.Second) {
			w.fail("heartbeat-conn-not-closed", "the control connection of a timed-out session is still open")
		}
		s.p.Close()
	}
	delete(w.peers, c)
	delete(w.silent, c)
	if !gone {
		w.fail("session-not-torn-down:"+w.label, "the session is still in the table after its connection ended ("+cause+")")
	}
	w.emit(fmt.Sprintf("(SEnd %d %s)", c, cause), out, w.observe())
	w.checkPooledClosed(s, w.label)
}

// dropEarly: NewProxy is sent and the connection closed at once, the reply is never read.  The
// registration ran completely or not at all before the teardown; only the SEnd step is recorded.
func (w *world) dropEarly(c int, q preq) {
	w.keepalive()
	s := w.peers[c]
	done := w.srv.Svc.VerifC10Done(s.runID)
	pool, _ := w.sessionInfo(s.runID)
	out := notObs
	if pool == len(s.pooled) {
		out = pool
	}
	_ = s.p.Send(q.toMsg())
	s.p.Close()
	gone := w.waitGone(s.runID, done, 3*time.Second)
	delete(w.peers, c)
	if !gone {
		w.fail("session-not-torn-down:"+w.label, "the session is still in the table after its connection was dropped")
	}
	w.emit(fmt.Sprintf("(SEnd %d CDrop)", c), out, w.observe())
	w.checkPooledClosed(s, w.label)
}

// replace: a second login with the same run id while the old connection is open.  RegisterControl
// waits for the old session's teardown before it answers, so the state between the two model steps
// (old session gone, new one not yet there) cannot be observed.
func (w *world) replace(c int) int {
	w.keepalive()
	s := w.peers[c]
	pool, _ := w.sessionInfo(s.runID)
	out := notObs
	if pool == len(s.pooled) {
		out = pool
	}
	p, resp, err := w.srv.Login(hx.LoginOpts{RunID: s.runID, PoolCount: 0})
	if err != nil || p == nil {
		w.harnessFail(fmt.Sprint("re-login failed: ", err, resp))
		return 0
	}
	nc := w.nextSid
	w.nextSid++
	delete(w.peers, c)
	w.peers[nc] = &sess{id: nc, p: p, runID: s.runID}
	w.emit(fmt.Sprintf("(SEnd %d CReplaced)", c), out, noObs)
	w.emit(fmt.Sprintf("(SLogin %d 0)", nc), 0, w.observe())
	if !hx.ConnClosedWithin(s.p.Conn, 2*time.Second) {
		w.fail("replaced-conn-not-closed", "the control connection of a replaced session is still open")
	}
	s.p.Close()
	w.checkPooledClosed(s, w.label)
	return nc
}

func (w *world) squat(proto string, port int) bool {
	sq, pn := w.tsq, 0
	if proto == "udp" {
		sq, pn = w.usq, 1
	}
	if !sq.squat(port) {
		w.harnessFail(fmt.Sprintf("cannot squat %s %d", proto, port))
		return false
	}
	w.emit(fmt.Sprintf("(SSquat %d %d)", pn, port), 0, w.observe())
	return true
}

func (w *world) unsquat(proto string, port int) {
	sq, pn := w.tsq, 0
	if proto == "udp" {
		sq, pn = w.usq, 1
	}
	sq.unsquat(port)
	w.emit(fmt.Sprintf("(SUnsquat %d %d)", pn, port), 0, w.observe())
}

// waitReq: the next ReqWorkConn on the session's control connection (or one skipped earlier).
// NOTE: a read timeout poisons the peer's cipher reader for good (golib's crypto.Reader keeps the
// error), so a timeout here is only affordable when the case is failing anyway.  With heartbeats on,
// the wait is a ping loop instead: a Pong always arrives and the ReqWorkConn is found among the
// messages skipped on the way.
func (w *world) waitReq(s *sess, d time.Duration) bool {
	for _, m := range s.p.Skipped() {
		if isReqWork(m) {
			return true
		}
	}
	if w.hbeat {
		deadline := time.Now().Add(d)
		for time.Now().Before(deadline) {
			w.keepalive()
			for _, m := range s.p.Skipped() {
				if isReqWork(m) {
					return true
				}
			}
			time.Sleep(50 * time.Millisecond)
		}
		return false
	}
	_, err := s.p.RecvUntil(d, isReqWork)
	s.p.Skipped()
	return err == nil
}

// serveWorkConn: offer a work connection and read the StartWorkConn the taker sends on it
func (w *world) serveWorkConn(s *sess, d time.Duration) (net.Conn, string, bool) {
	wc, err := s.p.WorkConn(true)
	if err != nil {
		return nil, "", false
	}
	_ = wc.SetReadDeadline(time.Now().Add(d))
	var sw msg.StartWorkConn
	err = msg.ReadMsgInto(wc, &sw)
	_ = wc.SetReadDeadline(time.Time{})
	if err != nil {
		return wc, "", false
	}
	return wc, sw.ProxyName, true
}

// checkTCPBystander: a user connection to the bystander's port still reaches the bystander
func (w *world) checkTCPBystander(c int, name string, port int) bool {
	w.keepalive()
	s := w.peers[c]
	if s == nil {
		return false
	}
	s.p.Skipped()
	uc, err := net.DialTimeout("tcp", net.JoinHostPort(w.addr, strconv.Itoa(port)), time.Second)
	if err != nil {
		return false
	}
	defer uc.Close()
	// another proxy of the session waiting for a work connection (udp) may take the offer: try again
	for try := 0; try < 3; try++ {
		if !w.waitReq(s, 1500*time.Millisecond) {
			return false
		}
		wc, got, ok := w.serveWorkConn(s, 1500*time.Millisecond)
		if wc != nil {
			s.kept = append(s.kept, wc)
		}
		if ok && got == name {
			wc.Close()
			w.drainReq(s)
			return true
		}
	}
	return false
}

// serveHTTP: one keep-alive request through the vhost http port answered over a fresh work connection,
// which then sits idle in the reverse proxy's connection pool.  Returns the harness end of it.
func (w *world) serveHTTP(c int, host, path, name string) (net.Conn, bool) {
	w.keepalive()
	s := w.peers[c]
	s.p.Skipped()
	uc, err := net.DialTimeout("tcp", net.JoinHostPort(w.addr, strconv.Itoa(w.httpPort)), time.Second)
	if err != nil {
		return nil, false
	}
	defer uc.Close()
	if path == "" {
		path = "/"
	}
	fmt.Fprintf(uc, "GET %s HTTP/1.1\r\nHost: %s\r\n\r\n", path, host)
	if !w.waitReq(s, 2*time.Second) {
		return nil, false
	}
	wc, got, ok := w.serveWorkConn(s, 2*time.Second)
	if !ok || got != name {
		if wc != nil {
			wc.Close()
		}
		return nil, false
	}
	_ = wc.SetReadDeadline(time.Now().Add(2 * time.Second))
	req, err := http.ReadRequest(bufio.NewReader(wc))
	_ = wc.SetReadDeadline(time.Time{})
	if err != nil {
		wc.Close()
		return nil, false
	}
	_ = req.Body.Close()
	if _, err := wc.Write([]byte("HTTP/1.1 200 OK\r\nContent-Length: 2\r\nContent-Type: text/plain\r\n\r\nok")); err != nil {
		wc.Close()
		return nil, false
	}
	_ = uc.SetReadDeadline(time.Now().Add(2 * time.Second))
	resp, err := http.ReadResponse(bufio.NewReader(uc), nil)
	if err != nil || resp.StatusCode != 200 {
		wc.Close()
		return nil, false
	}
	resp.Body.Close()
	w.drainReq(s)
	return wc, true
}

// drainReq: GetWorkConn asks for a replacement right after it took a connection; that request is not
// answered and must not be mistaken for the next taker's
func (w *world) drainReq(s *sess) {
	if w.sync(s) {
		s.p.Skipped()
	}
}

// serveUDP: the work connection a udp proxy asks for about 500 ms after its registration
func (w *world) serveUDP(c int, name string) (net.Conn, string) {
	s := w.peers[c]
	got := w.waitReq(s, 1500*time.Millisecond)
	if !got {
		return nil, "no ReqWorkConn within 1.5 s of the registration"
	}
	wc, who, ok := w.serveWorkConn(s, 2*time.Second)
	if !ok || who != name {
		if wc != nil {
			wc.Close()
		}
		return nil, fmt.Sprintf("no StartWorkConn for %s on the offered connection (read ok=%v, proxy %q)", name, ok, who)
	}
	// UDPProxy.Run stores the connection a moment after StartWorkConn went out; a Close in between
	// would not see it (driver udprace looks at that window on purpose)
	time.Sleep(150 * time.Millisecond)
	w.drainReq(s)
	return wc, ""
}

// shutdown: everything of the case goes away
func (w *world) shutdown() {
	for _, s := range w.peers {
		s.p.Close()
		for _, c := range append(s.pooled, s.kept...) {
			c.Close()
		}
	}
	w.tsq.closeAll()
	w.usq.closeAll()
	w.srv.Close()
}

func (w *world) caseText() string {
	same := []string{}
	for _, p := range w.same {
		same = append(same, fmt.Sprintf("(%d%%nat, %d%%nat)", p[0], p[1]))
	}
	return fmt.Sprintf("{| cs_ranges := %s; cs_maxp := %d; cs_maxpool := %d; cs_steps := %s; cs_same := %s |}",
		coqRanges(w.ranges), w.maxp, maxPool, hx.List(w.steps), hx.List(same))
}


// ---------- a private block of loopback addresses per process ----------
// Every socket of this property lives on 127.0.10.x.  Explicit ports (the allowed range the model
// enumerates) are fixed, so two runs on one host (a check and a mutcheck, two mutchecks) must not share
// an ADDRESS: each process claims one of sixteen blocks 127.0.10.(16k+1 .. 16k+14) by holding a
// listening socket on 127.0.10.(16k+15):21099 for its lifetime.
var (
	blockOnce sync.Once
	blockBase int
	blockLock net.Listener
)

func loop(i int) string {
	blockOnce.Do(func() {
		start := os.Getpid() % 16
		for round := 0; round < 200; round++ {
			for d := 0; d < 16; d++ {
				k := (start + d) % 16
				l, err := net.Listen("tcp", fmt.Sprintf("127.0.10.%d:%d", 16*k+15, basePort+99))
				if err == nil {
					blockLock, blockBase = l, 16*k
					return
				}
			}
			time.Sleep(500 * time.Millisecond)
		}
		fmt.Fprintln(os.Stderr, "c10 harness: no free address block on 127.0.10.x")
		os.Exit(3)
	})
	return fmt.Sprintf("127.0.10.%d", blockBase+i)
}


// visitorInFlight: session c asks for a hole-punching session with the xtcp proxy `name` (a valid, signed
// NatHoleVisitor).  The controller hands the session id to the proxy's goroutine, which then asks the owner
// for a work connection and waits (UserConnTimeout) because the scripted owner does not answer.
func (w *world) visitorInFlight(c int, name string) {
	s := w.peers[c]
	if s == nil {
		return
	}
	ts := time.Now().Unix()
	m := &msg.NatHoleVisitor{TransactionID: fmt.Sprintf("tx-%d", ts), ProxyName: name, Protocol: "quic",
		SignKey: util.GetAuthKey("s3cret", ts), Timestamp: ts, MappedAddrs: []string{"198.51.100.7:40000"}}
	if err := s.p.Send(m); err != nil {
		w.harnessFail("cannot send NatHoleVisitor")
		return
	}
	time.Sleep(150 * time.Millisecond)
	w.rec.count("visitor-in-flight")
}


// clog: session c sends valid Pings without ever reading the Pongs until its own writes stall, i.e. until the
// server's send queue is full and its read loop is blocked in Send.  Returns whether that state was reached.
func (w *world) clog(c int) bool {
	s := w.peers[c]
	if s == nil {
		return false
	}
	if tc, ok := s.p.Conn.(*net.TCPConn); ok {
		_ = tc.SetReadBuffer(2048)
	}
	deadline := time.Now().Add(4 * time.Second)
	sent := 0
	for time.Now().Before(deadline) {
		_ = s.p.Conn.SetWriteDeadline(time.Now().Add(600 * time.Millisecond))
		if err := s.p.Ping(true); err != nil {
			_ = s.p.Conn.SetWriteDeadline(time.Time{})
			w.rec.count("clogged")
			w.rec.count(fmt.Sprintf("clog-pings:%dk", sent/1000))
			return true
		}
		sent++
	}
	_ = s.p.Conn.SetWriteDeadline(time.Time{})
	return false
}


// loginSmallRcv: hx.Server.Login over a socket whose receive buffer is set to the minimum BEFORE the connection
// is established, so that the peer (frps) can have only a few kilobytes in flight towards a client that does not read.
func loginSmallRcv(srv *hx.Server, runID string) (*hx.Peer, *msg.LoginResp, error) {
	d := net.Dialer{Timeout: 2 * time.Second, Control: func(network, address string, c syscall.RawConn) error {
		return c.Control(func(fd uintptr) { _ = syscall.SetsockoptInt(int(fd), syscall.SOL_SOCKET, syscall.SO_RCVBUF, 2048) })
	}}
	conn, err := d.Dial("tcp", net.JoinHostPort(srv.Addr, fmt.Sprint(srv.Port)))
	if err != nil {
		return nil, nil, err
	}
	ts := time.Now().Unix()
	lm := &msg.Login{Version: "0.61.0", Hostname: "h", Os: "linux", Arch: "amd64", PrivilegeKey: util.GetAuthKey(hx.DefaultToken, ts),
		Timestamp: ts, RunID: runID, Metas: map[string]string{}}
	if err := msg.WriteMsg(conn, lm); err != nil {
		conn.Close()
		return nil, nil, err
	}
	_ = conn.SetReadDeadline(time.Now().Add(5 * time.Second))
	var resp msg.LoginResp
	if err := msg.ReadMsgInto(conn, &resp); err != nil {
		conn.Close()
		return nil, nil, err
	}
	_ = conn.SetReadDeadline(time.Time{})
	if resp.Error != "" {
		conn.Close()
		return nil, &resp, nil
	}
	rw, err := netpkg.NewCryptoReadWriter(conn, []byte(srv.Cfg.Auth.Token))
	if err != nil {
		conn.Close()
		return nil, &resp, err
	}
	return &hx.Peer{S: srv, Conn: conn, RW: rw, RunID: resp.RunID, Token: hx.DefaultToken}, &resp, nil
}


// userConnAtHandoff: a TLS client hello for `domain` is sent to the vhost https port; the muxer routes it and is
// held right before the hand-over to the proxy's listener.  Returns nil when the gate is not reached (a tree
// without the gate line: the scenario is skipped and counted).
func (w *world) userConnAtHandoff(domain string) net.Conn {
	g := installGate("vhost.mux.before_handoff", strings.ToLower(domain))
	conn, err := net.DialTimeout("tcp", net.JoinHostPort(w.addr, fmt.Sprint(w.srv.Cfg.VhostHTTPSPort)), time.Second)
	if err != nil {
		verifhook.Install(nil)
		return nil
	}
	go func() {
		// the handshake never completes (nobody answers); only the ClientHello matters
		tc := tls.Client(&passConn{Conn: conn}, &tls.Config{ServerName: domain, InsecureSkipVerify: true})
		_ = tc.Handshake()
	}()
	select {
	case <-g.reached:
		w.handoff = g
		w.rec.count("handoff-held")
		return conn
	case <-time.After(700 * time.Millisecond):
		verifhook.Install(nil)
		close(g.release)
		conn.Close()
		w.rec.count("handoff-gate-missing")
		return nil
	}
}

func (w *world) releaseHandoff() {
	if w.handoff != nil {
		close(w.handoff.release)
		w.handoff = nil
	}
}

// passConn: the tls client writes its hello through it; reads are left to the harness (ConnClosedWithin)
type passConn struct{ net.Conn }

func (p *passConn) Read(b []byte) (int, error) { select {} }


// helloBurst: n connections to the vhost https port, each sending a TLS ClientHello for `domain`, started at once
func (w *world) helloBurst(domain string, n int) []net.Conn {
	out := []net.Conn{}
	for i := 0; i < n; i++ {
		conn, err := net.DialTimeout("tcp", net.JoinHostPort(w.addr, fmt.Sprint(w.srv.Cfg.VhostHTTPSPort)), time.Second)
		if err != nil {
			continue
		}
		out = append(out, conn)
	}
	for _, conn := range out {
		go func(conn net.Conn) {
			tc := tls.Client(&passConn{Conn: conn}, &tls.Config{ServerName: domain, InsecureSkipVerify: true})
			_ = tc.Handshake()
		}(conn)
	}
	w.rec.count("hello-burst")
	return out
}
