(* ClientLogin — the client half of the re-login protocol (C12): client/service.go Service.login and
   the loop around it (loopLoginUntilSuccess / keepControllerWorking).
   State: the remembered run id (svr.runID; None = "") and whether a control session is up.
   Every login attempt PRESENTS svr.runID in its Login message; the answer is
     accepted (LoginResp.Error = "", carries a run id)  -> svr.runID := that run id, session up
     refused  (LoginResp.Error <> "": frps sends no run id with it) -> the error check returns BEFORE the
               assignment: svr.runID is untouched
     i/o error (connect / write / read failed)          -> nothing changes
   and the control connection can be lost at any time.  No proofs in this file. *)
From Coq Require Import List NArith Bool.
Import ListNotations.

Module CL.

Record client := mkC { c_runid : option N; c_up : bool }.
Definition c_init : client := mkC None false.

Inductive outcome :=
| OAccepted (given : option N)   (* LoginResp{RunID: given, Error: ""} *)
| ORefused (sent : option N)     (* LoginResp{RunID: sent, Error: e}; frps sends none *)
| OIoError.

Inductive cevent :=
| ELogin (o : outcome)
| EConnLost.

(* what the attempt presented as Login.RunID *)
Definition c_step (c : client) (e : cevent) : client * list (option N) :=
  match e with
  | ELogin o =>
      let presented := c_runid c in
      match o with
      | OAccepted given => (mkC given true, [presented])
      | ORefused _ => (mkC (c_runid c) false, [presented])
      | OIoError => (mkC (c_runid c) false, [presented])
      end
  | EConnLost => (mkC (c_runid c) false, [])
  end.

Fixpoint c_run (c : client) (l : list cevent) : client * list (option N) :=
  match l with
  | [] => (c, [])
  | e :: r =>
      let '(c1, o1) := c_step c e in
      let '(c2, o2) := c_run c1 r in
      (c2, o1 ++ o2)
  end.

(* specification: the run id given by the last accepted login *)
Fixpoint last_given (acc : option N) (l : list cevent) : option N :=
  match l with
  | [] => acc
  | ELogin (OAccepted g) :: r => last_given g r
  | _ :: r => last_given acc r
  end.

(* specification: what each attempt should present *)
Fixpoint should_present (acc : option N) (l : list cevent) : list (option N) :=
  match l with
  | [] => []
  | ELogin (OAccepted g) :: r => acc :: should_present g r
  | ELogin _ :: r => acc :: should_present acc r
  | EConnLost :: r => should_present acc r
  end.

End CL.
