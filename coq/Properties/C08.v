(* C08 — secret proxies (stcp, sudp, xtcp) admit only visitors holding the key and an allowed user.
   Only statements here; proofs live in Proofs/VisitorProofs.v; the model is Model/Visitor.v.
   [hash] is util.GetAuthKey (universally quantified); [sys_state hash h] is the server state after the
   history h (any list of logins, logouts, proxy registrations and closures, visitor connections, NAT-hole
   requests with or without pre-check, session ends, accepts); [spec_of h] is the specification's view of the
   same history: which registration (owner, kind, key, effective allowed users) is live under each name. *)
From FRP Require Import Model.Visitor Proofs.VisitorProofs Model.VisitorStacks Proofs.VisitorStacksCheck gen.GenVisitorStacks
  Model.VisitorPath Proofs.VisitorPathProofs Model.Frame.
Open Scope Z_scope.

(* the server's tables hold exactly the live registrations of the specification, after every history *)
Theorem C08_state_refines_spec : forall hash h,
  sys_inv (sys_state hash h) /\ sys_abs (sys_state hash h) (spec_of h).
Proof. exact state_refines_spec. Qed.
Print Assumptions C08_state_refines_spec.

(* a stream visitor connection reaches the owner's accept queue only if, at that moment, the name has a live
   stcp/sudp registration, the signature is the hash of that registration's key and the message's timestamp,
   and the visitor's user (login user of its run id, "" for an empty run id) is in the allowed list or the list has "*" *)
Theorem C08_bridged_implies_key_and_user : forall hash h rid name ts sign ue uc cid eok s',
  sys_step hash (sys_state hash h) (SVisitorConn rid name ts sign ue uc cid eok) = (s', OVis VOk) ->
  exists r user,
    sp_reg (spec_of h) name = Some r /\ is_hole (vr_kind r) = false /\
    spec_visitor_user (spec_of h) rid = Some user /\ key_and_user hash r ts sign user.
Proof. exact bridged_implies_key_and_user. Qed.
Print Assumptions C08_bridged_implies_key_and_user.

(* the same for the NAT-hole request proper: a session is opened and the owner receives a sid only for a
   non-pre-check request signed with the xtcp proxy's key by an allowed user (the repaired HandleVisitor) *)
Theorem C08_natole_session_implies_key_and_user : forall hash h rid name ts sign pre sid dl s' n sid',
  sys_step hash (sys_state hash h) (SNatHole rid name ts sign pre sid dl) = (s', ONh (NhNotified n sid')) ->
  pre = false /\ n = name /\ sid' = sid /\
  exists r user,
    sp_reg (spec_of h) name = Some r /\ is_hole (vr_kind r) = true /\
    sp_user (spec_of h) rid = Some user /\ key_and_user hash r ts sign user.
Proof. exact natole_session_implies_key_and_user. Qed.
Print Assumptions C08_natole_session_implies_key_and_user.

Theorem C08_precheck_never_bridges : forall hash h rid name ts sign sid dl,
  exists o, sys_step hash (sys_state hash h) (SNatHole rid name ts sign true sid dl) = (sys_state hash h, o) /\
            sys_events (SNatHole rid name ts sign true sid dl) o = [] /\
            (o = ONoSession \/ o = ONh NhPreOk \/ o = ONh NhErrNoServer \/ o = ONh NhErrUser).
Proof. exact precheck_never_bridges. Qed.
Print Assumptions C08_precheck_never_bridges.

Theorem C08_precheck_ok_implies_user : forall hash h rid name ts sign sid dl s',
  sys_step hash (sys_state hash h) (SNatHole rid name ts sign true sid dl) = (s', ONh NhPreOk) ->
  exists r user, sp_reg (spec_of h) name = Some r /\ is_hole (vr_kind r) = true /\
                 sp_user (spec_of h) rid = Some user /\ (In user (vr_allow r) \/ In vstar (vr_allow r)).
Proof. exact precheck_ok_implies_user. Qed.
Print Assumptions C08_precheck_ok_implies_user.

(* a NAT-hole request leaves a session behind and produces an event only when the owner was notified: refusals,
   pre-checks and hand-overs that nobody received within NatHoleTimeout (owner gone) return the state unchanged *)
Theorem C08_nathole_no_session_unless_notified : forall hash s rid name ts sign pre sid dl s' o,
  sys_step hash s (SNatHole rid name ts sign pre sid dl) = (s', o) ->
  (forall n x, o <> ONh (NhNotified n x)) ->
  s' = s /\ sys_events (SNatHole rid name ts sign pre sid dl) o = [].
Proof. exact nathole_no_session_unless_notified. Qed.
Print Assumptions C08_nathole_no_session_unless_notified.

(* any request answered with an error leaves the complete server state unchanged (from any state) *)
Theorem C08_refused_leaves_no_state : forall hash s op s' o,
  sys_step hash s op = (s', o) -> sout_refused o = true -> s' = s.
Proof. exact refused_leaves_no_state. Qed.
Print Assumptions C08_refused_leaves_no_state.

(* ... produces no event at the owner (queue put, sid) nor at the backend, and touches neither table *)
Theorem C08_refused_reaches_neither_owner_nor_backend : forall hash s op s' o,
  sys_step hash s op = (s', o) -> sout_refused o = true ->
  sys_events op o = [] /\ s_vm s' = s_vm s /\ s_nh s' = s_nh s.
Proof. exact refused_reaches_neither_owner_nor_backend. Qed.
Print Assumptions C08_refused_reaches_neither_owner_nor_backend.

(* conversely the owner and the backend see something only on an admission / on accepting an admitted connection *)
Theorem C08_owner_event_only_on_admission : forall op o e,
  In e (sys_events op o) ->
  match e with
  | EvQueued name cid => exists rid ts sign ue uc eok, op = SVisitorConn rid name ts sign ue uc cid eok /\ o = OVis VOk
  | EvSid name sid => exists rid n ts sign pre x dl, op = SNatHole rid n ts sign pre x dl /\ o = ONh (NhNotified name sid)
  | EvBackend name cid => exists c, op = SAccept name /\ o = OAccepted c /\ vc_id c = cid
  end.
Proof. exact owner_event_only_on_admission. Qed.
Print Assumptions C08_owner_event_only_on_admission.

(* backend contacts are backed by admissions: over every history, a connection handed to the owner's handler
   was queued by an admitted visitor request on the same name earlier in that history *)
Theorem C08_backend_only_after_admission : forall hash h name cid,
  In (EvBackend name cid) (sys_trace hash h) -> In (EvQueued name cid) (sys_trace hash h).
Proof. exact backend_only_after_admission. Qed.
Print Assumptions C08_backend_only_after_admission.

(* no live registration under the name => every visitor request on it is refused and changes nothing *)
Theorem C08_closed_proxy_admits_nobody : forall hash h name,
  sp_reg (spec_of h) name = None ->
  (forall rid ts sign ue uc cid eok,
      exists o, sys_step hash (sys_state hash h) (SVisitorConn rid name ts sign ue uc cid eok) = (sys_state hash h, o) /\
                (o = OVis VErrNoListener \/ o = OVisErrNoControl)) /\
  (forall rid ts sign pre sid dl,
      exists o, sys_step hash (sys_state hash h) (SNatHole rid name ts sign pre sid dl) = (sys_state hash h, o) /\
                (o = ONh NhErrNoServer \/ o = ONoSession)).
Proof. exact closed_proxy_admits_nobody. Qed.
Print Assumptions C08_closed_proxy_admits_nobody.

(* the owner's CloseProxy, or the end of the owner's session, removes the registration; it stays removed along
   every continuation that does not register the name again *)
Theorem C08_close_removes_until_reregistered : forall h rid name r h2,
  sp_reg (spec_of h) name = Some r -> vr_owner r = rid -> no_register name h2 ->
  sp_reg (spec_of (h ++ SClose rid name :: h2)) name = None /\
  sp_reg (spec_of (h ++ SLogout rid :: h2)) name = None.
Proof. exact close_removes_until_reregistered. Qed.
Print Assumptions C08_close_removes_until_reregistered.

Theorem C08_foreign_close_is_noop : forall h rid name r,
  sp_reg (spec_of h) name = Some r -> vr_owner r <> rid ->
  sp_reg (spec_of (h ++ [SClose rid name])) name = Some r.
Proof. exact foreign_close_is_noop. Qed.
Print Assumptions C08_foreign_close_is_noop.

Theorem C08_default_allow_is_owner_only : forall hash h rid k name sk u,
  sp_user (spec_of h) rid = Some u -> sp_reg (spec_of h) name = None ->
  sp_reg (spec_of (h ++ [SRegister rid k name sk []])) name =
    Some {| vr_owner := rid; vr_kind := k; vr_sk := sk; vr_allow := [u] |} /\
  forall ts sign user,
    key_and_user hash {| vr_owner := rid; vr_kind := k; vr_sk := sk; vr_allow := [u] |} ts sign user ->
    user = u \/ u = vstar.
Proof. exact default_allow_is_owner_only. Qed.
Print Assumptions C08_default_allow_is_owner_only.

Theorem C08_configured_allow_is_kept : forall h rid k name sk u a l,
  sp_user (spec_of h) rid = Some u -> sp_reg (spec_of h) name = None ->
  sp_reg (spec_of (h ++ [SRegister rid k name sk (a :: l)])) name =
    Some {| vr_owner := rid; vr_kind := k; vr_sk := sk; vr_allow := a :: l |}.
Proof. exact configured_allow_is_kept. Qed.
Print Assumptions C08_configured_allow_is_kept.

Theorem C08_star_admits_any_user_with_key_stream : forall hash t name b cid ts ue uc user,
  vget name t = Some b -> In vstar (vb_allow b) -> vb_closed b = false ->
  (length (vb_queue b) < vq_cap)%nat ->
  exists t', vm_new_conn hash t name cid ts (hash (vb_sk b) ts) ue uc user true = (t', VOk).
Proof. exact star_admits_any_user_with_key_stream. Qed.
Print Assumptions C08_star_admits_any_user_with_key_stream.

Theorem C08_star_admits_any_user_with_key_hole : forall hash s name cfg ts user sid,
  vget name (nh_cfgs s) = Some cfg -> In vstar (nc_allow cfg) ->
  (exists s', vnh_handle_visitor hash s name ts (hash (nc_sk cfg) ts) false user sid true = (s', NhNotified name sid)) /\
  (forall dl, vnh_handle_visitor hash s name ts (hash (nc_sk cfg) ts) true user sid dl = (s, NhPreOk)).
Proof. exact star_admits_any_user_with_key_hole. Qed.
Print Assumptions C08_star_admits_any_user_with_key_hole.

(* the admitted connection carries the wrapper stack the message declares, keyed by the proxy's secret key *)
Theorem C08_admitted_stack_is_declared : forall hash t name cid ts sign ue uc user eok t',
  vm_new_conn hash t name cid ts sign ue uc user eok = (t', VOk) ->
  exists b, vget name t = Some b /\
            vget name t' = Some {| vb_sk := vb_sk b; vb_allow := vb_allow b;
                                   vb_queue := vb_queue b ++ [{| vc_id := cid; vc_stack := vstack ue uc (vb_sk b) |}];
                                   vb_closed := false |}.
Proof. exact admitted_stack_is_declared. Qed.
Print Assumptions C08_admitted_stack_is_declared.

(* byte transparency for all 4 x 4 combinations of (encryption, compression) declared by the visitor and by the
   proxy, for every chunking of the writes and every re-chunking by the relay in between, in both directions;
   cipher and compressor are any codecs that read back what was written *)
Theorem C08_visitor_stream_transparent :
  forall (enc_wr : bytes -> list bytes -> list bytes) (enc_rd : bytes -> bytes -> bytes)
         (comp_wr : list bytes -> list bytes) (comp_rd : bytes -> bytes),
  (forall k cs, enc_rd k (List.concat (enc_wr k cs)) = List.concat cs) ->
  (forall cs, comp_rd (List.concat (comp_wr cs)) = List.concat cs) ->
  forall vue vuc pue puc sk token rechunk chunks,
  (forall s, List.concat (rechunk s) = s) ->
  tunnel_deliver enc_wr enc_rd comp_wr comp_rd
    (vstack vue vuc sk) (vstack vue vuc sk) (vstack pue puc token) (vstack pue puc token) rechunk chunks
    = List.concat chunks /\
  tunnel_deliver enc_wr enc_rd comp_wr comp_rd
    (vstack pue puc token) (vstack pue puc token) (vstack vue vuc sk) (vstack vue vuc sk) rechunk chunks
    = List.concat chunks.
Proof. exact visitor_stream_transparent. Qed.
Print Assumptions C08_visitor_stream_transparent.

(* Reflective, over today's translator output (unit t5v: server/visitor/visitor.go NewConn, client/visitor/stcp.go,
   sudp.go, xtcp.go, server/service.go RegisterVisitorConn): whatever flags the visitor configures and whatever the key,
   the stack the server puts on the visitor connection and the stack each visitor type puts on its end are both the
   model's [vstack] - encryption first, compression on top, each under its own flag, keyed by the secret key - hence
   mirror images to which C08_visitor_stream_transparent applies. *)
Theorem C08_stacks_mirror_today :
  forall (ue uc : bool) (sk : bytes) (genv : String.string -> bool) (kenv : String.string -> bytes),
    genv "useEncryption"%string = ue -> genv "sv.cfg.Transport.UseEncryption"%string = ue ->
    genv "useCompression"%string = uc -> genv "sv.cfg.Transport.UseCompression"%string = uc ->
    kenv "[]byte(l.sk)"%string = sk -> kenv "[]byte(sv.cfg.SecretKey)"%string = sk ->
    gsite_interp genv kenv gvs_server_newconn = Some (vstack ue uc sk) /\
    gsite_interp genv kenv gvs_client_stcp = Some (vstack ue uc sk) /\
    gsite_interp genv kenv gvs_client_sudp = Some (vstack ue uc sk) /\
    gsite_interp genv kenv gvs_client_xtcp = Some (vstack ue uc sk).
Proof.
  exact (visitor_stacks_sound gvs_server_newconn gvs_client_stcp gvs_client_sudp gvs_client_xtcp
           gvs_newconn_params gvs_register_args gvs_msg_stcp gvs_msg_sudp (eq_refl true)).
Qed.
Print Assumptions C08_stacks_mirror_today.

(* ---- round 5: before and after the admission decision ---- *)

(* the loser of a registration race (its Exist check said "free" before a concurrent registration of the same name
   completed) is refused in Run or in Add and changes nothing: the incumbent's registration stays live, so
   C08_bridged_implies_key_and_user / C08_key_and_user_admitted_stream keep speaking about the incumbent *)
Theorem C08_race_loser_leaves_incumbent : forall hash h rid k name sk allow r,
  sp_reg (spec_of h) name = Some r ->
  exists o, sys_step hash (sys_state hash h) (SRegisterLate rid k name sk allow) = (sys_state hash h, o) /\
            (o = ONoSession \/ o = OReg VLErrRepeated \/ o = ORegErrInUse) /\
            forall n, sp_reg (spec_of (h ++ [SRegisterLate rid k name sk allow])) n = sp_reg (spec_of h) n.
Proof. exact race_loser_leaves_incumbent. Qed.
Print Assumptions C08_race_loser_leaves_incumbent.

(* key + allowed user is also sufficient at a live listener whose accept queue is open and not full *)
Theorem C08_key_and_user_admitted_stream : forall hash t name b cid ts ue uc user,
  vget name t = Some b -> vallowed (vb_allow b) user = true -> vb_closed b = false ->
  (length (vb_queue b) < vq_cap)%nat ->
  exists t', vm_new_conn hash t name cid ts (hash (vb_sk b) ts) ue uc user true = (t', VOk).
Proof. exact key_and_user_admitted_stream. Qed.
Print Assumptions C08_key_and_user_admitted_stream.

(* ... and over histories: every listener in the table of a reachable state is open, and a live stcp/sudp
   registration admits every visitor that holds its key and whose user is allowed while the owner's accept queue is
   not full - whatever happened before, refused duplicate registrations of the same name included *)
Theorem C08_reachable_listeners_open : forall hash h n b,
  vget n (s_vm (sys_state hash h)) = Some b -> vb_closed b = false.
Proof. exact reachable_listeners_open. Qed.
Print Assumptions C08_reachable_listeners_open.

Theorem C08_key_and_user_admitted_live : forall hash h name r rid user ts ue uc cid,
  sp_reg (spec_of h) name = Some r -> is_hole (vr_kind r) = false ->
  spec_visitor_user (spec_of h) rid = Some user ->
  In user (vr_allow r) \/ In vstar (vr_allow r) ->
  (forall b, vget name (s_vm (sys_state hash h)) = Some b -> (length (vb_queue b) < vq_cap)%nat) ->
  exists s', sys_step hash (sys_state hash h) (SVisitorConn rid name ts (hash (vr_sk r) ts) ue uc cid true) = (s', OVis VOk).
Proof. exact key_and_user_admitted_live. Qed.
Print Assumptions C08_key_and_user_admitted_live.

(* the bytes that arrive together with the NewVisitorConnResp frame (a backend that speaks first, the IV of the
   cipher) are the beginning of the stream: decoding takes exactly the frame, the stack unwraps the rest *)
Theorem C08_response_then_stream :
  forall (enc_wr : bytes -> list bytes -> list bytes) (enc_rd : bytes -> bytes -> bytes)
         (comp_wr : list bytes -> list bytes) (comp_rd : bytes -> bytes),
  (forall k cs, enc_rd k (List.concat (enc_wr k cs)) = List.concat cs) ->
  (forall cs, comp_rd (List.concat (comp_wr cs)) = List.concat cs) ->
  forall reg t body st chunks,
  reg t = true -> blen body <= max_len ->
  visitor_after_resp enc_rd comp_rd reg st
    (encode_frame t body ++ List.concat (stack_wr enc_wr comp_wr st chunks))%list = Some (body, List.concat chunks).
Proof. exact response_then_stream. Qed.
Print Assumptions C08_response_then_stream.

(* xtcp has one leg, visitor frpc to owner frpc: transparent when both ends declare the same flags and hold the key.
   This is the part of "whatever encryption and compression the visitor and the proxy each declare" that holds ... *)
Theorem C08_xtcp_stream_transparent_partial :
  forall (enc_wr : bytes -> list bytes -> list bytes) (enc_rd : bytes -> bytes -> bytes)
         (comp_wr : list bytes -> list bytes) (comp_rd : bytes -> bytes),
  (forall k cs, enc_rd k (List.concat (enc_wr k cs)) = List.concat cs) ->
  (forall cs, comp_rd (List.concat (comp_wr cs)) = List.concat cs) ->
  forall ue uc sk chunks,
  xtcp_deliver enc_wr enc_rd comp_wr comp_rd (vstack ue uc sk) (vstack ue uc sk) chunks = List.concat chunks.
Proof. exact xtcp_transparent. Qed.
Print Assumptions C08_xtcp_stream_transparent_partial.

(* ... and this is the part that does not: different declarations at the two ends of that single leg *)
Theorem C08_xtcp_mismatched_flags_refuted :
  exists (enc_wr : bytes -> list bytes -> list bytes) (enc_rd : bytes -> bytes -> bytes)
         (comp_wr : list bytes -> list bytes) (comp_rd : bytes -> bytes),
    (forall k cs, enc_rd k (List.concat (enc_wr k cs)) = List.concat cs) /\
    (forall cs, comp_rd (List.concat (comp_wr cs)) = List.concat cs) /\
    exists sk chunks,
      xtcp_deliver enc_wr enc_rd comp_wr comp_rd (vstack true false sk) (vstack false false sk) chunks <> List.concat chunks.
Proof. exact xtcp_mismatched_flags_refuted. Qed.
Print Assumptions C08_xtcp_mismatched_flags_refuted.

(* Reflective, over today's translator output (t5v): on its way from the owner's configuration to the server - ini
   conversion, MarshalToMsg, UnmarshalFromMsg of the three secret proxy types - the allowed-users value is handed on
   unchanged, so that in every format an absent or empty list reaches the server as the empty list and becomes
   [owner's user], and an explicit list is taken as it is *)
Theorem C08_config_default_is_owner_only :
  exists stages, gplumb_interp gvs_allow_plumbing = Some stages /\
    forall f c owner,
      effective_allow stages f c owner =
      match c with CAbsent => [owner] | CList [] => [owner] | CList (a :: l) => a :: l end.
Proof. exact (allow_plumbing_sound gvs_allow_plumbing (eq_refl true)). Qed.
Print Assumptions C08_config_default_is_owner_only.

(* Reflective: the secret key is handed on as the plain field at each of the nine stages (ini conversion, MarshalToMsg,
   UnmarshalFromMsg of the three types): the key a visitor must hold is the key the owner configured, in every format *)
Theorem C08_sk_plumbing_today : gsk_plumbing_ok gvs_sk_plumbing = true.
Proof. reflexivity. Qed.
Print Assumptions C08_sk_plumbing_today.

(* Reflective: Run of STCPProxy, SUDPProxy and XTCPProxy on the server registers the configured key and
   vdefault_allow of the configured list, and defers nothing (a failing Run has nothing of its own to tear down) *)
Theorem C08_server_runs_today : forall r, In r gvs_server_runs ->
  forall l o k, grun_interp r l o k = Some (k, vdefault_allow l o).
Proof. exact (server_runs_sound gvs_server_runs (eq_refl true)). Qed.
Print Assumptions C08_server_runs_today.

Definition today_tables : gtables :=
  {| gt_newconn := gvs_server_newconn; gt_vstcp := gvs_client_stcp; gt_vsudp := gvs_client_sudp; gt_vxtcp := gvs_client_xtcp;
     gt_handle_params := gvs_handle_tcp_params; gt_handle := gvs_handle_tcp; gt_inwork := gvs_inworkconn_calls;
     gt_sudp_owner := gvs_sudp_owner; gt_server_work := gvs_server_work; gt_xtcp_streams := gvs_xtcp_owner_streams |}.

(* Reflective: the key each secret-proxy type uses for its stream wrapper, at both ends of every leg: the secret key
   on the visitor leg (stcp, sudp) and on the xtcp tunnel (both listen functions), the token on the work leg *)
Theorem C08_leg_keys_today : forall l, In l gall_legs ->
  gleg_ends today_tables l <> [] /\ forall e, In e (gleg_ends today_tables l) -> e = (leg_key l, leg_key l).
Proof. exact (leg_keys_sound today_tables (eq_refl true)). Qed.
Print Assumptions C08_leg_keys_today.

(* Reflective: the stcp and sudp visitors build their wrapper stack on the very reader they decoded the
   NewVisitorConnResp frame from (no buffered reader in between that could keep stream bytes) *)
Theorem C08_resp_reader_today :
  gresp_reader_ok gvs_visitor_resp_readers "STCPVisitor" = true /\
  gresp_reader_ok gvs_visitor_resp_readers "SUDPVisitor" = true.
Proof. split; reflexivity. Qed.
Print Assumptions C08_resp_reader_today.

(* ---- round 6: Login plugins and the handshake deadline ---- *)

(* "the visitor's authenticated user" is the user after the server's Login plugins have run: the session's user in the
   specification (the one C08_bridged_implies_key_and_user checks the allowed-users list against) is the outcome of the
   plugin chain, a rejected login leaves no session behind ... *)
Theorem C08_session_user_is_after_plugins : forall h rid claimed answers,
  sp_user (spec_of (h ++ [SLoginVia rid claimed answers])) rid =
  match plugin_login claimed answers with Some u => Some u | None => sp_user (spec_of h) rid end.
Proof. exact session_user_is_after_plugins. Qed.
Print Assumptions C08_session_user_is_after_plugins.

(* ... and once a plugin has rewritten the user, the user the client claimed plays no part: claiming "alice" buys nothing *)
Theorem C08_plugin_rewrite_forgets_claim : forall u pre post c1 c2,
  plugin_login c1 (pre ++ PRewrite u :: post) = plugin_login c2 (pre ++ PRewrite u :: post).
Proof. exact plugin_rewrite_forgets_claim. Qed.
Print Assumptions C08_plugin_rewrite_forgets_claim.

Theorem C08_plugin_rewrite_last_wins : forall answers c u,
  ~ In PReject answers -> plugin_login c (answers ++ [PRewrite u]) = Some u.
Proof. exact plugin_rewrite_last_wins. Qed.
Print Assumptions C08_plugin_rewrite_last_wins.

(* Reflective (t5v, pkg/plugin/server/manager.go Manager.Login): the content a plugin returns is ASSIGNED to the
   variable the function returns (a plain "=" under "!res.Unchange", no declaration that would shadow it), so today's
   chain is the model's plugin_login *)
Theorem C08_login_plugin_today :
  exists step, glogin_step gvs_login_assigns gvs_login_guards gvs_login_finals = Some step /\
    forall claimed answers, plugin_chain step claimed answers = plugin_login claimed answers.
Proof. exact (login_plugin_sound gvs_login_assigns gvs_login_guards gvs_login_finals (eq_refl true)). Qed.
Print Assumptions C08_login_plugin_today.

(* Reflective (t5v, client/visitor/stcp.go handleConn, sudp.go getNewVisitorConn whose connection is the stream from
   its return on): the 10 s deadline is armed while the response is awaited and cleared before the stream is joined,
   so no read of an admitted stream, however old, fails on it *)
Theorem C08_handshake_deadline_today :
  (exists es, ghs_events gvs_handshake_stcp = Some es /\
     hs_armed_at HReadResp false es = Some true /\ hs_armed_at HJoin false es = Some false /\
     forall d t, stream_read_ok false d t = true) /\
  (exists es, ghs_events (gvs_handshake_sudp ++ ["join"%string]) = Some es /\
     hs_armed_at HReadResp false es = Some true /\ hs_armed_at HJoin false es = Some false /\
     forall d t, stream_read_ok false d t = true).
Proof.
  exact (conj (handshake_sound gvs_handshake_stcp (eq_refl true))
              (handshake_sound (gvs_handshake_sudp ++ ["join"%string]) (eq_refl true))).
Qed.
Print Assumptions C08_handshake_deadline_today.

(* the order that would not do: a reset that is deferred runs after the join *)
Theorem C08_deferred_reset_refuted :
  hs_armed_at HJoin false [HArm; HDeferClear; HReadResp; HJoin] = Some true /\
  exists d t, stream_read_ok true d t = false.
Proof. exact deferred_reset_refuted. Qed.
Print Assumptions C08_deferred_reset_refuted.

(* ---- the hypotheses are satisfiable: concrete histories (toy hash: key ++ 8-byte timestamp) ---- *)
Definition ex_hash (sk : bytes) (ts : Z) : bytes := (sk ++ be 8 ts)%list.
Definition ex_r1 := hx "7231". Definition ex_r2 := hx "7232". Definition ex_r3 := hx "7233".
Definition ex_alice := hx "616c696365". Definition ex_mallory := hx "6d616c6c6f7279".
Definition ex_p := hx "70". Definition ex_x := hx "78". Definition ex_sk := hx "6b6579".
Definition ex_history : list sop :=
  [SLogin ex_r1 ex_alice; SLogin ex_r2 ex_alice; SLogin ex_r3 ex_mallory;
   SRegister ex_r1 KStcp ex_p ex_sk []; SRegister ex_r1 KXtcp ex_x ex_sk []].

Example C08_ex_admitted_and_refused :
  snd (sys_run ex_hash (ex_history ++
        [SVisitorConn ex_r2 ex_p 5 (ex_hash ex_sk 5) true true 1 true;      (* same user, right key *)
         SVisitorConn ex_r3 ex_p 5 (ex_hash ex_sk 5) false false 2 true;    (* right key, other user *)
         SVisitorConn ex_r2 ex_p 5 (ex_hash ex_sk 6) false false 3 true;    (* wrong timestamp *)
         SVisitorConn [] ex_p 5 (ex_hash ex_sk 5) false false 4 true;       (* no run id: user "" *)
         SVisitorConn (hx "7a") ex_p 5 (ex_hash ex_sk 5) false false 5 true;(* unknown run id *)
         SNatHole ex_r3 ex_x 5 (ex_hash ex_sk 5) false (hx "5331") true;    (* signed, user not allowed *)
         SNatHole ex_r2 ex_x 5 (ex_hash ex_sk 5) true (hx "5332") true;     (* pre-check *)
         SNatHole ex_r2 ex_x 5 (ex_hash ex_sk 5) false (hx "5334") false;   (* admitted, owner not receiving *)
         SNatHole ex_r2 ex_x 5 (ex_hash ex_sk 5) false (hx "5333") true;    (* admitted *)
         SAccept ex_p; SClose ex_r1 ex_p;
         SVisitorConn ex_r2 ex_p 5 (ex_hash ex_sk 5) true true 6 true]))
  = [ONone; ONone; ONone; OReg VLOk; OReg VLOk;
     OVis VOk; OVis VErrUser; OVis VErrAuth; OVis VErrUser; OVisErrNoControl;
     ONh NhErrUser; ONh NhPreOk; ONh NhUndelivered; ONh (NhNotified ex_x (hx "5333"));
     OAccepted {| vc_id := 1; vc_stack := [LEnc ex_sk; LComp] |}; ONone; OVis VErrNoListener].
Proof. vm_compute. reflexivity. Qed.

Example C08_ex_spec_live :
  option_map vr_allow (sp_reg (spec_of ex_history) ex_p) = Some [ex_alice] /\
  sp_reg (spec_of (ex_history ++ [SLogout ex_r1])) ex_p = None.
Proof. vm_compute. split; reflexivity. Qed.
