(* C18 — accepted server / client-common configurations have every range-checked port in 0..65535, and
   every port-typed field of today's structs is classified *)
From FRP Require Import Model.ValidateSections Proofs.ValidateProofs.
From Coq Require Import Lia.
Open Scope Z_scope.

Lemma vs_web_server_port w : vs_web_server_ok w = true -> 0 <= WebServerConfig_Port w <= 65535.
Proof.
  unfold vs_web_server_ok. destruct (WebServerConfig_TLS w) as [t|].
  - destruct (bytes_eqb (TLSConfig_CertFile t) []); [discriminate|].
    destruct (bytes_eqb (TLSConfig_KeyFile t) []); [discriminate|]. apply val_port_range.
  - apply val_port_range.
Qed.

Lemma vs_web_server_tls w t : vs_web_server_ok w = true -> WebServerConfig_TLS w = Some t ->
  TLSConfig_CertFile t <> [] /\ TLSConfig_KeyFile t <> [].
Proof.
  unfold vs_web_server_ok. intros H E. rewrite E in H.
  destruct (TLSConfig_CertFile t); [discriminate|]. destruct (TLSConfig_KeyFile t); [discriminate|].
  split; discriminate.
Qed.

Theorem server_validated_ports_in_range c :
  vs_server_ok c = true -> forall name p, In (name, p) (vs_server_ports c) -> 0 <= p <= 65535.
Proof.
  unfold vs_server_ok. intros H.
  repeat (apply andb_true_iff in H; destruct H as [H ?]).
  intros name p Hin. unfold vs_server_ports in Hin. cbn [In] in Hin.
  repeat (destruct Hin as [E|Hin]; [injection E as _ <-; first [apply vs_web_server_port; assumption | apply val_port_range; assumption]|]).
  contradiction.
Qed.

Theorem client_validated_ports_in_range c :
  vs_client_ok c = true -> forall name p, In (name, p) (vs_client_ports c) -> 0 <= p <= 65535.
Proof.
  unfold vs_client_ok. cbv zeta. intros H.
  repeat (apply andb_true_iff in H; destruct H as [H ?]).
  intros name p [E|[E|[]]]; injection E as _ <-; [apply vs_web_server_port|apply val_port_range]; assumption.
Qed.

Lemma vs_pair_eqb_eq a b : vs_pair_eqb a b = true -> a = b.
Proof.
  destruct a, b. unfold vs_pair_eqb. cbn. intros H. apply andb_true_iff in H. destruct H as [H1 H2].
  apply String.eqb_eq in H1, H2. now subst.
Qed.

Lemma vs_existsb_In l x : existsb (vs_pair_eqb x) l = true <-> In x l.
Proof.
  rewrite existsb_exists. split.
  - intros (y & Hy & E). apply vs_pair_eqb_eq in E. now subst.
  - intros H. exists x. split; [exact H|]. destruct x. unfold vs_pair_eqb. cbn. now rewrite !String.eqb_refl.
Qed.

(* every int leaf named *Port of every section struct is on exactly one of the two pinned lists, and the
   lists name existing fields only *)
Theorem ports_classified_sound :
  vs_ports_classified = true ->
  (forall l, In l vs_port_leaves ->
     (In l vs_checked_ports /\ ~ In l vs_unchecked_ports) \/ (In l vs_unchecked_ports /\ ~ In l vs_checked_ports)) /\
  (forall g, In g vs_checked_ports \/ In g vs_unchecked_ports -> In g vs_port_leaves).
Proof.
  unfold vs_ports_classified. intros H. apply andb_true_iff in H. destruct H as [H1 H2]. split.
  - intros l Hl. rewrite forallb_forall in H1. specialize (H1 l Hl).
    destruct (existsb (vs_pair_eqb l) vs_checked_ports) eqn:Ec, (existsb (vs_pair_eqb l) vs_unchecked_ports) eqn:Eu;
      cbn in H1; try discriminate.
    + left. split; [now apply vs_existsb_In|]. intros Hx. apply vs_existsb_In in Hx. congruence.
    + right. split; [now apply vs_existsb_In|]. intros Hx. apply vs_existsb_In in Hx. congruence.
  - intros g Hg. rewrite forallb_forall in H2. apply vs_existsb_In. apply H2. apply in_or_app. exact Hg.
Qed.
