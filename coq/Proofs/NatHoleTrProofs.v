(* C20: Send on a control's transporter never drops a message. *)
From FRP Require Import Model.NatHoleTr.
From Coq Require Import Lia.
Open Scope Z_scope.

(* a parked Send means: queue full and the dispatcher still there *)
Definition tr_inv (st : tr_state) : Prop :=
  match tparked st with Some _ => tr_full st = true /\ tdone st = false | None => True end.

Lemma tr_inv_init cap : tr_inv (tr_init cap).
Proof. exact I. Qed.

Lemma tr_step_inv st op o st' : tr_inv st -> tr_step st op o = Some st' -> tr_inv st'.
Proof.
  unfold tr_inv. intros Hi H. destruct op, o; cbn in H; try discriminate.
  - clear Hi. destruct (negb (tr_full st) && _); [|discriminate]. injection H as <-. exact I.
  - assert (st' = st) by (destruct (tdone st); [now injection H|discriminate]). subst st'. exact Hi.
  - clear Hi. destruct (tr_full st) eqn:F, (tdone st) eqn:Dn, (tparked st); cbn in H; try discriminate.
    injection H as <-. cbn. unfold tr_full in *. cbn. auto.
  - destruct (tq st) as [|h r]; [discriminate|]. destruct (h =? m); [|discriminate].
    clear Hi. destruct (tparked st), unparked; try discriminate; injection H as <-; exact I.
  - assert (st' = st) by (destruct (tq st); [now injection H|discriminate]). subst st'. exact Hi.
  - clear Hi. destruct (tparked st), released; try discriminate; injection H as <-; exact I.
Qed.

(* the three and only three outcomes of Send: in the queue / refused because the dispatcher has ended / still waiting
   because the queue is full and the dispatcher is there.  In particular there is no outcome "returned without
   enqueuing although the control is alive". *)
Lemma tr_send_outcomes st m o st' :
  tr_step st (TrSend m) o = Some st' ->
  (o = TrEnqueued /\ tq st' = tq st ++ [m] /\ tparked st' = None) \/
  (o = TrClosed /\ tdone st = true /\ st' = st) \/
  (o = TrParked /\ tr_full st = true /\ tdone st = false /\ tq st' = tq st /\ tparked st' = Some m).
Proof.
  destruct o; cbn; try discriminate.
  - destruct (negb (tr_full st) && _); [|discriminate]. intros [= <-]. left. cbn. auto.
  - destruct (tdone st) eqn:Dn; [|discriminate]. intros [= <-]. right. left. auto.
  - destruct (tr_full st) eqn:F, (tdone st) eqn:Dn, (tparked st); cbn; try discriminate.
    intros [= <-]. right. right. cbn. auto.
Qed.

(* a parked Send is released by the very next drain (its message goes in) or by the end of the dispatcher (error) *)
Lemma tr_parked_released st p :
  tr_inv st -> tparked st = Some p ->
  (forall m u st', tr_step st TrDrain (TrDrained m u) = Some st' -> u = true /\ In p (tq st') /\ tparked st' = None) /\
  (forall r st', tr_step st TrDone (TrDoneObs r) = Some st' -> r = true /\ tparked st' = None /\ tdone st' = true) /\
  (forall st', tr_step st TrDrain TrEmpty = Some st' -> tcap st = 0%nat).
Proof.
  intros Hi Hp. unfold tr_inv in Hi. rewrite Hp in Hi. destruct Hi as [F Dn]. split; [|split].
  - intros m u st' H. revert H. cbn. destruct (tq st) as [|h r]; [discriminate|]. destruct (h =? m); [|discriminate]. rewrite Hp.
    destruct u; [|discriminate]. intros [= <-]. cbn. split; [reflexivity|]. split; [|reflexivity].
    apply in_or_app. right. now left.
  - intros r st' H. revert H. cbn. rewrite Hp. destruct r; [|discriminate]. intros [= <-]. cbn. auto.
  - intros st' H. revert H. cbn. unfold tr_full in F. destruct (tq st); [|discriminate]. intros _. cbn in F. apply Nat.leb_le in F. lia.
Qed.

Lemma tr_run_inv l : forall st st', tr_inv st -> tr_run st l = Some st' -> tr_inv st'.
Proof.
  induction l as [|[op o] r IH]; intros st st' Hi H; cbn in H; [injection H as <-; exact Hi|].
  destruct (tr_step st op o) as [st1|] eqn:E; [|discriminate]. eapply IH; [|exact H]. eapply tr_step_inv; eassumption.
Qed.
