(* C03: proofs about Model/UdpLoops.v *)
From FRP Require Import Model.UdpLoops Proofs.FrameProofs Proofs.MsgObjProofs Proofs.Base64Proofs Proofs.UdpProofs Proofs.UdpFwdProofs.
From Coq Require Import Lia.
Open Scope Z_scope.

(* the loop that survives a failed write: every reply is attempted, each one's fate depends on its own
   destination only *)
Theorem rl_survives l :
  rl_run false true l = map (fun x : Z * bool => if snd x then RLDelivered (fst x) else RLFailed (fst x)) l.
Proof. induction l as [|[a ok] r IH]; cbn; [reflexivity|]. destruct ok; cbn; now rewrite IH. Qed.

Corollary rl_failed_reply_does_not_stop_others l a :
  In (a, true) l -> In (RLDelivered a) (rl_run false true l).
Proof. intros H. rewrite rl_survives. apply in_map_iff. exists (a, true). split; [reflexivity|exact H]. Qed.

(* a loop that returns on a write error: one refused destination and nobody gets a reply any more *)
Lemma rl_exits_witness :
  rl_run true true [(1, true); (2, false); (1, true); (3, true)] = [RLDelivered 1; RLFailed 2; RLStuck 1; RLStuck 3].
Proof. reflexivity. Qed.

(* the same at the level of the tunnel model: ESrvDeliver has no state of its own; whatever happened
   before, a reply at the head of readCh whose destination the OS accepts is written to its user *)
Lemma srv_deliver_total c st p q d a :
  s_readq st = p :: q -> get_content p = Some d -> up_raddr p = Some a ->
  snd (ustep c st (ESrvDeliver true)) = [OUser a d] /\ s_readq (fst (ustep c st (ESrvDeliver true))) = q /\
  s_readq (fst (ustep c st (ESrvDeliver false))) = q.
Proof.
  intros Hq Hg Ha. cbn [ustep]. rewrite Hq, Hg, Ha. cbn. auto.
Qed.

(* alphabet: if the server side writes packets only, the type-blind client reader hands the Forwarder
   exactly the packets that were written *)
Theorem blind_read_exact ms :
  forallb is_wpacket ms = true ->
  map cli_blind_read ms = flat_map (fun m => match m with WPacket p => [p] | _ => [] end) ms.
Proof.
  induction ms as [|m r IH]; cbn [forallb map flat_map]; [reflexivity|].
  intros H. apply andb_true_iff in H. destruct H as [Hm Hr]. destruct m; try discriminate. cbn. now rewrite IH.
Qed.

(* otherwise not: a Pong (or Ping) on the work connection becomes the zero packet, and the Forwarder hands the
   backend an empty datagram from a new socket for the "user" <nil> — a datagram nobody sent *)
Definition pong_state : ust :=
  {| s_sendq := []; s_readq := []; w_sc := []; w_cs := []; conn_up := true;
     c_readq := [cli_blind_read WPong]; c_sendq := []; c_map := []; c_readers := []; c_oldq := []; c_zombies := [];
     next_sock := 0%N |}.

Lemma pong_injects_datagram :
  snd (ustep {| uc_buf := 1500 |} pong_state (ECliPump true)) = [OSockNew 0 None; OBackend 0 None []].
Proof. vm_compute. reflexivity. Qed.

(* no user datagram has a nil address: [usent] entries are (Some a, _) *)
Lemma usent_has_address c h v : In v (usent c h) -> exists a d, v = (Some a, Some d).
Proof.
  unfold usent. rewrite in_flat_map. intros (e & _ & Hv). destruct e; cbn in Hv; try contradiction.
  destruct Hv as [<-|[]]. eauto.
Qed.
