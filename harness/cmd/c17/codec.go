package main

// Driver "codec" (C17): real pkg/msg WriteMsg/ReadMsg against Model/Frame + Model/MsgObj.

import (
	"bytes"
	"encoding/binary"
	"encoding/hex"
	"encoding/json"
	"errors"
	"fmt"
	"io"
	"math"
	"net"
	"os"
	"reflect"
	"sort"
	"strings"

	jsonMsg "github.com/fatedier/golib/msg/json"

	"github.com/fatedier/frp/pkg/msg"
)

func init() { drivers["codec"] = runCodec }

var msgProtos = []any{
	&msg.Login{}, &msg.LoginResp{}, &msg.NewProxy{}, &msg.NewProxyResp{}, &msg.CloseProxy{},
	&msg.NewWorkConn{}, &msg.ReqWorkConn{}, &msg.StartWorkConn{}, &msg.NewVisitorConn{},
	&msg.NewVisitorConnResp{}, &msg.Ping{}, &msg.Pong{}, &msg.UDPPacket{}, &msg.NatHoleVisitor{},
	&msg.NatHoleClient{}, &msg.NatHoleResp{}, &msg.NatHoleSid{}, &msg.NatHoleReport{},
}

var interestingStrings = []string{
	"", "a", "frp", "proxy-1", "with space", `q"uote`, `back\slash`, "tab\there", "nl\nline", "\x00nul", "\x7f",
	"<html>&amp;", "ünïcödé", "日本語", "😀 emoji", "a.b.c.example.com", "127.0.0.1:8080", "{\"json\":1}", "null", "0",
	strings.Repeat("x", 300), " sep", "é",
}

func (g *gen) str() string {
	if g.chance(0.25) {
		return ""
	}
	if g.chance(0.7) {
		return g.pick(interestingStrings)
	}
	// random printable + multi-byte valid UTF-8
	n := g.intn(12)
	var b strings.Builder
	for i := 0; i < n; i++ {
		switch g.intn(6) {
		case 0:
			b.WriteRune(rune(0x80 + g.intn(0x700)))
		case 1:
			b.WriteRune(rune(0x4e00 + g.intn(0x1000)))
		default:
			b.WriteByte(byte(32 + g.intn(95)))
		}
	}
	return b.String()
}

func (g *gen) int64v(t reflect.Kind) int64 {
	switch t {
	case reflect.Uint16:
		return []int64{0, 1, 80, 443, 65535, int64(g.intn(65536))}[g.intn(6)]
	case reflect.Int, reflect.Int64:
		return []int64{0, 0, 1, -1, 7000, 65535, 65536, math.MaxInt32, math.MinInt32, math.MaxInt64, math.MinInt64,
			int64(g.intn(100000)) - 50000, 1 << 53, -(1 << 53) - 1}[g.intn(14)]
	}
	return int64(g.intn(100))
}

var udpAddrType = reflect.TypeOf(&net.UDPAddr{})

func (g *gen) udpAddr() *net.UDPAddr {
	switch g.intn(8) {
	case 0:
		return nil
	case 1:
		return &net.UDPAddr{}
	case 2:
		return &net.UDPAddr{IP: net.IPv4(10, 0, byte(g.intn(256)), 1).To4(), Port: g.intn(65536)}
	case 3:
		return &net.UDPAddr{IP: net.IPv4(192, 168, 1, byte(g.intn(256))), Port: g.intn(65536)} // 16-byte v4-mapped form
	case 4:
		return &net.UDPAddr{IP: net.ParseIP("2001:db8::1"), Port: 53}
	case 5:
		return &net.UDPAddr{IP: net.ParseIP("fe80::1"), Port: 1, Zone: "eth0"}
	case 6:
		return &net.UDPAddr{IP: net.IPv6zero, Port: 0}
	default:
		return &net.UDPAddr{IP: net.IPv4zero.To4(), Port: 65535}
	}
}

// fill sets random values in every field of the struct v (addressable).
func (g *gen) fill(v reflect.Value, sparse bool) {
	for i := 0; i < v.NumField(); i++ {
		f := v.Field(i)
		if sparse && g.chance(0.6) {
			continue
		}
		switch f.Kind() {
		case reflect.String:
			f.SetString(g.str())
		case reflect.Int, reflect.Int64:
			f.SetInt(g.int64v(f.Kind()))
		case reflect.Uint16:
			f.SetUint(uint64(g.int64v(f.Kind())))
		case reflect.Bool:
			f.SetBool(g.chance(0.5))
		case reflect.Map:
			switch g.intn(4) {
			case 0: // nil
			case 1:
				f.Set(reflect.MakeMap(f.Type()))
			default:
				m := reflect.MakeMap(f.Type())
				for k := 0; k < 1+g.intn(3); k++ {
					m.SetMapIndex(reflect.ValueOf(g.str()), reflect.ValueOf(g.str()))
				}
				f.Set(m)
			}
		case reflect.Slice:
			switch g.intn(4) {
			case 0:
			case 1:
				f.Set(reflect.MakeSlice(f.Type(), 0, 0))
			default:
				n := 1 + g.intn(3)
				s := reflect.MakeSlice(f.Type(), n, n)
				for k := 0; k < n; k++ {
					e := s.Index(k)
					if e.Kind() == reflect.String {
						e.SetString(g.str())
					} else if e.Kind() == reflect.Struct {
						g.fill(e, false)
					}
				}
				f.Set(s)
			}
		case reflect.Struct:
			g.fill(f, sparse)
		case reflect.Ptr:
			if f.Type() == udpAddrType {
				if a := g.udpAddr(); a != nil {
					f.Set(reflect.ValueOf(a))
				}
			}
		}
	}
}

// gvOf renders a Go value as a Model/MsgObj.gv term, fields in declaration order.
func gvOf(v reflect.Value) string {
	switch v.Kind() {
	case reflect.String:
		return "VStr " + coqHxS(v.String())
	case reflect.Int, reflect.Int64, reflect.Int32:
		return "VInt " + coqZ(v.Int())
	case reflect.Uint16, reflect.Uint32, reflect.Uint64:
		return "VInt " + coqZ(int64(v.Uint()))
	case reflect.Bool:
		return "VBool " + coqBool(v.Bool())
	case reflect.Map:
		m := map[string]string{}
		it := v.MapRange()
		for it.Next() {
			m[it.Key().String()] = it.Value().String()
		}
		var items []string
		for _, k := range sortedKeys(m) {
			items = append(items, "("+coqHxS(k)+", "+coqHxS(m[k])+")")
		}
		return "VMap " + coqList(items)
	case reflect.Slice:
		var items []string
		if v.Type().Elem().Kind() == reflect.String {
			for i := 0; i < v.Len(); i++ {
				items = append(items, coqHxS(v.Index(i).String()))
			}
			return "VStrs " + coqList(items)
		}
		for i := 0; i < v.Len(); i++ {
			items = append(items, gvFields(v.Index(i)))
		}
		return "VStructs " + coqList(items)
	case reflect.Struct:
		return "VStruct " + gvFields(v)
	case reflect.Ptr:
		if v.IsNil() {
			return "VPtr None"
		}
		if v.Type() == udpAddrType {
			a := v.Interface().(*net.UDPAddr)
			ip := ""
			if len(a.IP) > 0 {
				ip = a.IP.String()
			}
			return "VPtr (Some [VStr " + coqHxS(ip) + "; VInt " + coqZ(int64(a.Port)) + "; VStr " + coqHxS(a.Zone) + "])"
		}
		return "VPtr (Some " + gvFields(v.Elem()) + ")"
	}
	return "VStr (hx \"ff\") (* unsupported " + v.Kind().String() + " *)"
}

func gvFields(v reflect.Value) string {
	var items []string
	for i := 0; i < v.NumField(); i++ {
		items = append(items, gvOf(v.Field(i)))
	}
	return coqList(items)
}

// jvOf parses JSON text, preserving object key order, into a Model/MsgObj.jv term.
func jvOf(body []byte) (string, error) {
	dec := json.NewDecoder(bytes.NewReader(body))
	dec.UseNumber()
	s, err := jvValue(dec)
	if err != nil {
		return "", err
	}
	if _, err := dec.Token(); err != io.EOF {
		return "", fmt.Errorf("trailing data")
	}
	return s, nil
}

func jvValue(dec *json.Decoder) (string, error) {
	tok, err := dec.Token()
	if err != nil {
		return "", err
	}
	switch t := tok.(type) {
	case json.Delim:
		switch t {
		case '{':
			var items []string
			for dec.More() {
				kt, err := dec.Token()
				if err != nil {
					return "", err
				}
				v, err := jvValue(dec)
				if err != nil {
					return "", err
				}
				items = append(items, "("+coqHxS(kt.(string))+", "+v+")")
			}
			if _, err := dec.Token(); err != nil {
				return "", err
			}
			return "JObj " + coqList(items), nil
		case '[':
			var items []string
			for dec.More() {
				v, err := jvValue(dec)
				if err != nil {
					return "", err
				}
				items = append(items, v)
			}
			if _, err := dec.Token(); err != nil {
				return "", err
			}
			return "JArr " + coqList(items), nil
		}
		return "", fmt.Errorf("unexpected delimiter")
	case string:
		return "JStr " + coqHxS(t), nil
	case json.Number:
		n, err := t.Int64()
		if err != nil {
			return "JNull", nil
		}
		return "JNum " + coqZ(n), nil
	case bool:
		return "JBool " + coqBool(t), nil
	case nil:
		return "JNull", nil
	}
	return "", fmt.Errorf("unexpected token")
}

type countingReader struct {
	r *bytes.Reader
	n int
}

func (c *countingReader) Read(p []byte) (int, error) {
	n, err := c.r.Read(p)
	c.n += n
	return n, err
}

// classify the error of msg.ReadMsg (see Corr/C17.v: 3 and 6 are merged on the model side too)
func readClass(input []byte) (cls int, consumed int, typ int, m msg.Message) {
	cr := &countingReader{r: bytes.NewReader(input)}
	m, err := msg.ReadMsg(cr)
	consumed = cr.n
	typ = -1
	if len(input) > 0 {
		typ = int(input[0])
	}
	switch {
	case err == nil:
		cls = 0
	case errors.Is(err, jsonMsg.ErrMsgType):
		cls = 2
	case errors.Is(err, jsonMsg.ErrMaxMsgLength):
		cls = 4
	case errors.Is(err, jsonMsg.ErrMsgLength):
		cls = 5
	case errors.Is(err, io.EOF) || errors.Is(err, io.ErrUnexpectedEOF):
		if consumed == 0 {
			cls = 1
		} else {
			cls = 3
		}
	default:
		cls = 7
	}
	return
}

func frame(t byte, length int64, body []byte) []byte {
	var b bytes.Buffer
	b.WriteByte(t)
	_ = binary.Write(&b, binary.BigEndian, length)
	b.Write(body)
	return b.Bytes()
}

func runCodec(cfg *runCfg) error {
	g := newGen(cfg.Seed)
	cf := &caseFile{
		Imports: "From FRP Require Import Corr.C17.\n",
		Typ:     "case",
		Tail: "Definition M := Eval vm_compute in mismatches check_case cases.\nPrint M.\n" +
			"Definition NMSG := Eval vm_compute in count_if is_msg cases.\nPrint NMSG.\n",
	}
	clsCount := map[string]int{}
	typeCount := map[string]int{}
	distinct := map[string]bool{}
	var samples []any
	nValid := cfg.N / 2
	nMal := cfg.N - nValid
	implFail := []string{}

	// (i) valid messages of all registered types through the real WriteMsg / ReadMsg
	for i := 0; i < nValid; i++ {
		proto := msgProtos[i%len(msgProtos)]
		pv := reflect.New(reflect.TypeOf(proto).Elem())
		g.fill(pv.Elem(), g.chance(0.3))
		var wire bytes.Buffer
		if err := msg.WriteMsg(&wire, pv.Interface()); err != nil {
			return fmt.Errorf("WriteMsg(%T): %v", proto, err)
		}
		w := wire.Bytes()
		name := pv.Elem().Type().Name()
		if len(w) < 9 {
			implFail = append(implFail, "short wire for "+name)
			continue
		}
		if len(w)-9 > 10240 {
			// too large for the declared bound: both sides must reject; goes to the frame stream
			cls, consumed, typ, _ := readClass(w)
			cf.Cases = append(cf.Cases, fmt.Sprintf("CFrame %s %d %d %s", coqHx(w), cls, consumed, coqZ(int64(typ))))
			clsCount[fmt.Sprintf("oversize-valid cls=%d", cls)]++
			continue
		}
		obj, err := jvOf(w[9:])
		if err != nil {
			implFail = append(implFail, "body of "+name+" is not JSON: "+err.Error())
			continue
		}
		back, err := msg.ReadMsg(bytes.NewReader(w))
		backEqual := false
		if err == nil {
			backEqual = reflect.TypeOf(back) == pv.Type() && gvFields(reflect.ValueOf(back).Elem()) == gvFields(pv.Elem())
		}
		if !strings.HasPrefix(obj, "JObj ") {
			implFail = append(implFail, "body of "+name+" is not an object")
			continue
		}
		c := fmt.Sprintf("CMsg %s %s %s %s %s", coqStr(name), gvFields(pv.Elem()), coqHx(w), obj[5:], coqBool(backEqual))
		cf.Cases = append(cf.Cases, c)
		typeCount[name]++
		if len(w) > 9+2 { // body other than "{}"
			distinct[c] = true
		}
		if len(samples) < 3 && len(w) < 200 {
			samples = append(samples, map[string]any{"kind": "message", "type": name, "wire_hex": hex.EncodeToString(w)})
		}
	}

	// (ii) malformed / adversarial byte strings through the real ReadMsg with a counting reader
	validBody := []byte(`{"version":"1","run_id":"abc"}`)
	addFrame := func(kind string, in []byte) {
		cls, consumed, typ, _ := readClass(in)
		cf.Cases = append(cf.Cases, fmt.Sprintf("CFrame %s %d %d %s", coqHx(in), cls, consumed, coqZ(int64(typ))))
		clsCount[fmt.Sprintf("%s cls=%d", kind, cls)]++
		key := fmt.Sprintf("F%x", in)
		if len(key) > 200 {
			key = key[:200] + fmt.Sprint(len(in))
		}
		if len(in) > 0 {
			distinct[key] = true
		}
		if len(samples) < 8 && len(in) < 40 && cls != 0 {
			samples = append(samples, map[string]any{"kind": kind, "input_hex": hex.EncodeToString(in), "class": cls, "consumed": consumed})
		}
	}
	// deterministic part: every type byte, boundary lengths
	for t := 0; t < 256; t++ {
		addFrame("typebyte-sweep", frame(byte(t), int64(len(validBody)), validBody))
	}
	for _, l := range []int64{0, 1, 2, 10239, 10240, 10241, 10242, 65536, math.MaxInt32, math.MaxInt64, -1, -2, math.MinInt64, 1 << 32, -(1 << 32)} {
		body := []byte{}
		if l >= 0 && l <= 10300 {
			body = bytes.Repeat([]byte{'a'}, int(l))
		}
		addFrame("boundary-length", frame('o', l, body))
		addFrame("boundary-length-short", frame('o', l, []byte("{}")))
	}
	addFrame("empty", []byte{})
	for i := 0; i < nMal; i++ {
		switch g.intn(6) {
		case 0:
			addFrame("random", g.bytes(g.intn(40)))
		case 1: // truncated valid frame
			f := frame("o1p2cwrsv3h4uinm56"[g.intn(18)], int64(len(validBody)), validBody)
			addFrame("truncated", f[:g.intn(len(f)+1)])
		case 2: // bit flip in a valid frame
			f := frame("o1p2cwrsv3h4uinm56"[g.intn(18)], int64(len(validBody)), validBody)
			k := g.intn(len(f))
			f[k] ^= 1 << uint(g.intn(8))
			addFrame("bitflip", f)
		case 3: // valid frame with trailing bytes: must not be consumed
			f := frame("o1p2cwrsv3h4uinm56"[g.intn(18)], int64(len(validBody)), validBody)
			addFrame("trailing", append(f, g.bytes(1+g.intn(30))...))
		case 4: // garbage JSON of random length under a registered type
			n := g.intn(60)
			addFrame("garbage-body", frame("o1p2cwrsv3h4uinm56"[g.intn(18)], int64(n), g.bytes(n)))
		case 5: // random declared length vs actual
			n := g.intn(30)
			addFrame("length-mismatch", frame("o1p2cwrsv3h4uinm56"[g.intn(18)], int64(g.intn(60))-10, g.bytes(n)))
		}
	}

	// (iii) pinned encodings: fixed messages must encode to the pinned bytes
	goldenMismatch := []string{}
	if cfg.Extra != "" {
		lines := goldenVectors()
		want, err := os.ReadFile(cfg.Extra)
		if err != nil {
			if os.Getenv("VERIF_WRITE_GOLDEN") == "1" {
				_ = os.WriteFile(cfg.Extra, []byte(strings.Join(lines, "\n")+"\n"), 0o644)
			} else {
				return err
			}
		} else {
			wl := strings.Split(strings.TrimSpace(string(want)), "\n")
			wm := map[string]string{}
			for _, l := range wl {
				p := strings.SplitN(l, " ", 2)
				if len(p) == 2 {
					wm[p[0]] = p[1]
				}
			}
			for _, l := range lines {
				p := strings.SplitN(l, " ", 2)
				if w, ok := wm[p[0]]; ok && w != p[1] {
					goldenMismatch = append(goldenMismatch, p[0])
				}
			}
			cfg.St["golden_vectors"] = len(wm)
		}
	}

	if err := cf.Write(cfg.Out); err != nil {
		return err
	}
	cfg.St["cases"] = len(cf.Cases)
	cfg.St["distinct_nontrivial"] = len(distinct)
	cfg.St["class_distribution"] = clsCount
	cfg.St["message_types"] = typeCount
	cfg.St["samples"] = samples
	cfg.St["impl_failures"] = implFail
	cfg.St["golden_mismatch"] = goldenMismatch
	return nil
}

// goldenVectors: one fixed, fully populated message per type -> "Name hex"
func goldenVectors() []string {
	g := newGen(424242)
	var out []string
	for _, proto := range msgProtos {
		pv := reflect.New(reflect.TypeOf(proto).Elem())
		g.fill(pv.Elem(), false)
		var wire bytes.Buffer
		_ = msg.WriteMsg(&wire, pv.Interface())
		out = append(out, pv.Elem().Type().Name()+" "+hex.EncodeToString(wire.Bytes()))
	}
	sort.Strings(out)
	return out
}
