(* C03: proofs about Model/UdpSrvLoop.v *)
From FRP Require Import Model.UdpSrvLoop.
From Coq Require Import Lia.
Open Scope Z_scope.

Lemma lrm_In g x l : In x (lrm g l) <-> In x l /\ x <> g.
Proof.
  unfold lrm. rewrite filter_In. split; intros [H1 H2]; split; auto.
  - intros E. rewrite E, N.eqb_refl in H2. discriminate.
  - destruct (N.eqb_spec g x); [congruence|reflexivity].
Qed.

Lemma lmem_In g l : lmem g l = true <-> In g l.
Proof.
  unfold lmem. rewrite existsb_exists. split.
  - intros (x & Hx & E). apply N.eqb_eq in E. now subst.
  - intros H. exists g. split; [exact H|apply N.eqb_refl].
Qed.

(* when only readers notify: the only reader still running is the one of the connection the loop waits on; a
   pending notification means that connection is dead and its reader has gone; there is never more than one *)
Definition linv (st : lst) : Prop :=
  (l_notes st <= 1)%N /\
  match l_main st with
  | LMWait g =>
      (forall r, In r (l_readers st) -> r = g) /\ (forall a, In a (l_alive st) -> a = g) /\
      (l_notes st = 1%N -> ~ In g (l_alive st) /\ ~ In g (l_readers st))
  | LMNoticed _ | LMFetch => l_notes st = 0%N /\ l_readers st = []
  end.

Lemma linv_step st e : linv st -> linv (fst (lstep false st e)).
Proof.
  intros [Hn Hm]. destruct st as [m al rd se nt nx]. cbn [l_main l_alive l_readers l_senders l_notes l_next] in *.
  destruct e as [| |g|g| |]; cbn [lstep l_main l_alive l_readers l_senders l_notes l_next].
  - (* new connection *)
    destruct m as [|g|g]; cbn [fst]; try (split; assumption).
    destruct Hm as [-> ->]. split; [cbn [l_notes]; lia|]. cbn [l_main l_alive l_readers l_notes].
    split; [|split].
    + intros r [<-|[]]. reflexivity.
    + intros a [<-|[]]. reflexivity.
    + intros E. discriminate.
  - destruct m as [|g|g]; cbn [fst]; try (split; assumption).
    destruct Hm as (Hr & Ha & H1). split; [exact Hn|]. cbn [l_main l_alive l_readers l_notes].
    split; [exact Hr|split].
    + intros a H. apply lrm_In in H. destruct H as [H _]. auto.
    + intros E. split.
      * intros H. apply lrm_In in H. destruct H as [_ H]. congruence.
      * apply (proj2 (H1 E)).
  - (* reader fails *)
    destruct (lmem g rd && negb (lmem g al)) eqn:E; cbn [fst]; [|split; assumption].
    apply andb_true_iff in E. destruct E as [Er Ea]. apply lmem_In in Er. apply negb_true_iff in Ea.
    destruct m as [|g0|g0].
    + destruct Hm as [_ ->]. contradiction.
    + destruct Hm as (Hr & Hal & H1). pose proof (Hr g Er) as ->.
      assert (nt = 0%N) as ->.
      { destruct (N.eq_dec nt 1) as [E1|]; [|lia]. exfalso. apply (proj2 (H1 E1)). exact Er. }
      split; [cbn [l_notes]; lia|]. cbn [l_main l_alive l_readers l_notes]. split; [|split].
      * intros r H. apply lrm_In in H. destruct H as [H _]. auto.
      * exact Hal.
      * intros _. split.
        -- intros H. apply lmem_In in H. congruence.
        -- intros H. apply lrm_In in H. destruct H as [_ H]. congruence.
    + destruct Hm as [_ ->]. contradiction.
  - (* sender fails: closes the connection, no notification *)
    destruct (lmem g se); cbn [fst]; [|split; assumption].
    split; [exact Hn|]. cbn [l_main l_alive l_readers l_notes].
    destruct m as [|g0|g0]; auto.
    destruct Hm as (Hr & Ha & H1). split; [exact Hr|split].
    + intros a H. apply lrm_In in H. destruct H as [H _]. auto.
    + intros E. split.
      * intros H. apply lrm_In in H. destruct H as [H _]. apply (proj1 (H1 E)). exact H.
      * apply (proj2 (H1 E)).
  - (* notice *)
    destruct m as [|g|g]; cbn [fst]; try (split; assumption).
    destruct (N.eqb_spec nt 0); cbn [fst]; [split; assumption|].
    destruct Hm as (Hr & Ha & H1). assert (nt = 1%N) as -> by lia.
    split; [cbn [l_notes]; lia|]. cbn [l_main l_readers l_notes]. split; [reflexivity|].
    destruct rd as [|r rd']; [reflexivity|]. exfalso.
    apply (proj2 (H1 eq_refl)). left. apply Hr. now left.
  - destruct m as [|g|g]; cbn [fst]; split; assumption.
Qed.

Lemma lno_alive_giveup_step st e :
  linv st -> forallb (fun o => negb (lout_alive o)) (snd (lstep false st e)) = true.
Proof.
  intros [Hn Hm]. destruct st as [m al rd se nt nx]. cbn [l_main l_alive l_readers l_senders l_notes l_next] in *.
  destruct e as [| |g|g| |]; cbn [lstep l_main l_alive l_readers l_senders l_notes l_next].
  - destruct m; reflexivity.
  - destruct m; reflexivity.
  - destruct (lmem g rd && negb (lmem g al)); reflexivity.
  - destruct (lmem g se); reflexivity.
  - destruct m as [|g|g]; try reflexivity. destruct (N.eqb_spec nt 0); [reflexivity|].
    destruct Hm as (_ & _ & H1). assert (nt = 1%N) as E by lia.
    destruct (lmem g al) eqn:Ea; [|reflexivity]. apply lmem_In in Ea. exfalso. apply (proj1 (H1 E)). exact Ea.
  - destruct m; reflexivity.
Qed.

(* one failure, one replacement: for every schedule the loop never gives up a healthy connection (every
   notification it consumes belongs to a connection that is dead), and at most one notification is pending *)
Theorem healthy_connection_never_given_up : forall h st,
  linv st ->
  forallb (fun o => negb (lout_alive o)) (snd (lrun false st h)) = true /\ (l_notes (fst (lrun false st h)) <= 1)%N.
Proof.
  induction h as [|e r IH]; intros st Hi; cbn [lrun]; [split; [reflexivity|exact (proj1 Hi)]|].
  pose proof (linv_step st e Hi) as Hi'. pose proof (lno_alive_giveup_step st e Hi) as Hs.
  destruct (lstep false st e) as [st1 o1]. cbn [fst snd] in *.
  destruct (IH st1 Hi') as [H1 H2]. destruct (lrun false st1 r) as [st2 o2]. cbn [fst snd] in *.
  split; [rewrite forallb_app; now rewrite Hs, H1|exact H2].
Qed.

Lemma linv_init : linv linit.
Proof. split; cbn; [lia|auto]. Qed.

(* if the sender notifies as well, one failure noticed by the sender yields two notifications; the second one is
   consumed when the replacement is already up and takes it down; closing it makes its reader notify, and so on *)
Definition double_notify_history : list lev :=
  [LNewConn; LSenderFail 0; LReaderFail 0; LNotice; LCancel; LNewConn; LNotice; LCancel; LNewConn; LReaderFail 1; LNotice].

Lemma double_notify_witness :
  snd (lrun true linit double_notify_history) = [LGaveUpDead 0; LGaveUpAlive 1; LGaveUpAlive 2] /\
  snd (lrun false linit double_notify_history) = [LGaveUpDead 0].
Proof. vm_compute. split; reflexivity. Qed.
