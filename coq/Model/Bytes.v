(* Byte strings, hex transcription, big-endian integers.  Model only: no proofs here. *)
From Coq Require Export List ZArith NArith Bool.
From Coq Require Export Strings.Byte Strings.String Strings.Ascii.
Export ListNotations.
Open Scope Z_scope.
(* String.length shadows List.length once Strings.String is imported *)
Notation length := List.length.

Definition bytes := list byte.

Definition byte_eqb (a b : byte) : bool := Byte.eqb a b.

Fixpoint bytes_eqb (a b : bytes) : bool :=
  match a, b with
  | [], [] => true
  | x :: a', y :: b' => Byte.eqb x y && bytes_eqb a' b'
  | _, _ => false
  end.

Definition Z_of_byte (b : byte) : Z := Z.of_N (Byte.to_N b).
Definition byte_of_Z (z : Z) : byte :=
  match Byte.of_N (Z.to_N (z mod 256)) with Some b => b | None => x00 end.

(* hex transcription used by the harness: hx "616263" = "abc" as bytes *)
Definition hexval (a : ascii) : option Z :=
  let n := Z.of_N (N_of_ascii a) in
  if (48 <=? n) && (n <=? 57) then Some (n - 48)
  else if (97 <=? n) && (n <=? 102) then Some (n - 87)
  else None.

Fixpoint hx (s : string) : bytes :=
  match s with
  | String a (String b r) =>
      match hexval a, hexval b with
      | Some x, Some y => byte_of_Z (16 * x + y) :: hx r
      | _, _ => []
      end
  | _ => []
  end.

(* [rep n b]: n copies of b, so that large regular bodies stay small in case files *)
Definition rep (n : Z) (b : byte) : bytes := repeat b (Z.to_nat n).

(* big-endian, fixed width *)
Fixpoint be (n : nat) (z : Z) : bytes :=
  match n with
  | O => []
  | S k => byte_of_Z (z / 256 ^ Z.of_nat k) :: be k z
  end.

Fixpoint rdu (l : bytes) (acc : Z) : Z :=
  match l with
  | [] => acc
  | b :: r => rdu r (acc * 256 + Z_of_byte b)
  end.

(* int64, two's complement, as binary.Read/Write(BigEndian, int64) *)
Definition be64 (z : Z) : bytes := be 8 (z mod 2 ^ 64).
Definition rd64 (l : bytes) : Z :=
  let u := rdu l 0 in if 2 ^ 63 <=? u then u - 2 ^ 64 else u.

Definition blen (l : bytes) : Z := Z.of_nat (length l).

(* ASCII lower-casing on bytes (Go's strings.ToLower restricted to ASCII) *)
Definition lower_byte (b : byte) : byte :=
  let n := Z_of_byte b in
  if (65 <=? n) && (n <=? 90) then byte_of_Z (n + 32) else b.
Definition lower (s : bytes) : bytes := map lower_byte s.

Fixpoint is_prefix (p s : bytes) : bool :=
  match p, s with
  | [], _ => true
  | x :: p', y :: s' => Byte.eqb x y && is_prefix p' s'
  | _ :: _, [] => false
  end.

(* lexicographic byte-wise order, as Go's string comparison *)
Fixpoint bytes_ltb (a b : bytes) : bool :=
  match a, b with
  | [], [] => false
  | [], _ :: _ => true
  | _ :: _, [] => false
  | x :: a', y :: b' =>
      if Z_of_byte x <? Z_of_byte y then true
      else if Z_of_byte y <? Z_of_byte x then false
      else bytes_ltb a' b'
  end.
