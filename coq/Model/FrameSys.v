(* C17, system level: what frps does with the FIRST bytes of a fresh connection and with the
   byte stream of an established control channel.  Builds on Model/Frame.v (decode_frame,
   dispatch_first); no proofs here.

   Mirrors, in this order:
     golib net/mux Mux.handleConn on the bind port (server/service.go NewService: mux.NewMux(ln))
        io.ReadFull of the first maxNeedBytesNum bytes (= len("GET /~!frp") = 10, the longest
        prefix a sub-listener asked for) under DefaultTimeout (10 s): error -> conn.Close();
        "GET /~!frp" -> websocket listener; first byte 0x17/0x16 -> tls listener; else default
        listener; all three are served by HandleListener
     server/service.go HandleListener goroutine
        netpkg.CheckAndEnableTLSServerConnWithTimeout : read ONE byte under connReadTimeout;
            error (EOF / deadline) -> close;  0x17 (FRPTLSHeadByte) or 0x16 -> tls.Server;
            otherwise plain unless transport.tls.force
        (transport.tcpMux is off in the harness; the yamux layer is not modelled)
     server/service.go handleConnection
        SetReadDeadline(connReadTimeout); msg.ReadMsg (golib readMsg + json.Unmarshal);
            any error -> conn.Close();  type switch Login / NewWorkConn / NewVisitorConn /
            default -> conn.Close()
     pkg/msg/handler.go Dispatcher.readLoop
        for { m, err := ReadMsg(rw); if err != nil { close(doneCh); return }; handler(m) }
     server/control.go worker: <-Done(); conn.Close(); ... ; the session is deleted.

   External behaviour is an oracle carried by the event: whether encoding/json accepts the body,
   what the TLS library makes of the handshake, and whether the handler behind an accepted first
   message (auth, session table, visitor manager: properties C04/C11/C08) accepts. *)
From FRP Require Export Model.Frame.

(** * Sessions as the harness can see them: run id and the names of its proxies, sorted by run id *)
Definition fs_session : Type := (bytes * list bytes)%type.
Definition fs_state : Type := list fs_session.

(* ControlManager.Add: a login under an existing run id replaces that session (the old one is
   closed, its proxies go away); otherwise a new, empty session appears. *)
Fixpoint fs_ins_session (rid : bytes) (st : fs_state) : fs_state :=
  match st with
  | [] => [(rid, [])]
  | (r, ps) :: rest =>
      if bytes_eqb rid r then (rid, []) :: rest
      else if bytes_ltb rid r then (rid, []) :: (r, ps) :: rest
      else (r, ps) :: fs_ins_session rid rest
  end.

Fixpoint fs_del_session (rid : bytes) (st : fs_state) : fs_state :=
  match st with
  | [] => []
  | (r, ps) :: rest => if bytes_eqb rid r then fs_del_session rid rest else (r, ps) :: fs_del_session rid rest
  end.

(** * First bytes of a connection *)

(* what encoding/json makes of a frame body (oracle): rejected; the JSON value null, which
   json.Unmarshal(buffer, &msg) turns into a nil message (no error); a message *)
Inductive fs_json := JBad | JNull | JMsg.

(* what the handler behind an accepted first message does (oracle) *)
Inductive fs_handler :=
| HRefuseSilent | HRefuseReply | HAccept (rid : bytes)
| HCrash.   (* the handler panics.  handleConnection runs in a goroutine without recover, so the process
               dies and every session with it.  Only NewControl behind an authenticated Login allocates
               from a peer-supplied integer (make(chan, poolCount+10)); Model/FrameSysLogin.v computes the
               oracle for it from the translated clamp and Properties/C17.v proves it is never HCrash. *)

Record fs_first_ev := {
  fe_conn : Z;                      (* identity of the connection the bytes arrive on *)
  fe_bytes : bytes;                 (* everything the peer sends on the raw socket *)
  fe_eof : bool;                    (* the peer half-closes after that (true) or stays silent (false) *)
  fe_inner : option bytes;          (* oracle, consulted only when the bytes select a wrapping transport (first
                                       byte 0x17/0x16: TLS; prefix "GET /~!frp": websocket): None = its handshake
                                       does not complete, Some s = it does and s is the stream it delivers *)
  fe_json : fs_json;                (* oracle: what encoding/json makes of the body of the first frame *)
  fe_handler : fs_handler           (* oracle: what Register{Control,WorkConn,VisitorConn} answers *)
}.

Inductive fs_close := KeepOpen | CloseNow | CloseAtTimeout | CloseTlsFail | ServerDown.
Inductive fs_reply :=
| RNone | RLoginOk | RLoginErr | RStartWorkConnErr | RVisitorOk | RVisitorErr
| RTlsAny.   (* whatever the TLS / websocket library writes while failing a handshake (an alert, a 400, nothing) *)

Record fs_first_out := {
  fo_close : fs_close;
  fo_reply : fs_reply;
  fo_act : first_action;
  fo_closed : list Z               (* connections the server closes because of this event *)
}.

Definition fs_tls_head (b : byte) : bool := Byte.eqb b x17 || Byte.eqb b x16.

(* errors of readMsg that only mean "the frame is not complete yet": the read blocks until
   the peer closes or the deadline set by handleConnection expires *)
Definition fs_needs_more (e : derr) : bool :=
  match e with ErrEOF | ErrShortLen | ErrShortBody => true | _ => false end.

Section FirstBytes.
  Variable reg : byte -> bool.
  Variables tLogin tWork tVisitor : byte.
  Variable force_tls : bool.
  Variable mux_need : Z.        (* golib mux: bytes needed before a connection is classified *)
  Variable ws_prefix : bytes.   (* "GET /~!frp" *)

  Definition fs_closed (ev : fs_first_ev) (how : fs_close) (rep : fs_reply) (a : first_action) : fs_first_out :=
    {| fo_close := how; fo_reply := rep; fo_act := a;
       fo_closed := match how with KeepOpen => [] | _ => [fe_conn ev] end |}.

  Definition fs_wait_more (ev : fs_first_ev) : fs_first_out :=
    fs_closed ev (if fe_eof ev then CloseNow else CloseAtTimeout) RNone ActClose.

  (* handleConnection on the (possibly decrypted) stream s; None = the oracle value is not one the
     code can produce for that message type *)
  Definition fs_handle_conn (st : fs_state) (ev : fs_first_ev) (s : bytes) : option (fs_state * fs_first_out) :=
    let o := decode_frame reg s in
    match o with
    | DErr e _ _ =>
        Some (st, if fs_needs_more e then fs_wait_more ev else fs_closed ev CloseNow RNone ActClose)
    | DOk _ _ _ =>
        match fe_json ev with
        | JBad => Some (st, fs_closed ev CloseNow RNone ActClose)      (* ReadMsg error *)
        | JNull => Some (st, fs_closed ev CloseNow RNone ActClose)     (* nil message: default branch of the switch *)
        | JMsg =>
          match dispatch_first tLogin tWork tVisitor o with
          | ActLogin =>
              match fe_handler ev with
              | HAccept rid => Some (fs_ins_session rid st, fs_closed ev KeepOpen RLoginOk ActLogin)
              | HRefuseReply => Some (st, fs_closed ev CloseNow RLoginErr ActLogin)
              | HRefuseSilent => None
              | HCrash => Some ([], fs_closed ev ServerDown RNone ActLogin)   (* every session is gone *)
              end
          | ActWorkConn =>
              match fe_handler ev with
              | HAccept _ => Some (st, fs_closed ev KeepOpen RNone ActWorkConn)
              | HRefuseReply => Some (st, fs_closed ev CloseNow RStartWorkConnErr ActWorkConn)
              | HRefuseSilent => Some (st, fs_closed ev CloseNow RNone ActWorkConn)
              | HCrash => None
              end
          | ActVisitor =>
              match fe_handler ev with
              | HAccept _ => Some (st, fs_closed ev KeepOpen RVisitorOk ActVisitor)
              | HRefuseReply => Some (st, fs_closed ev CloseNow RVisitorErr ActVisitor)
              | HRefuseSilent | HCrash => None
              end
          | ActClose => Some (st, fs_closed ev CloseNow RNone ActClose)
          end
        end
    end.

  Definition fs_wrapped (st : fs_state) (ev : fs_first_ev) : option (fs_state * fs_first_out) :=
    match fe_inner ev with
    | None => Some (st, fs_closed ev CloseTlsFail RTlsAny ActClose)
    | Some inner => fs_handle_conn st ev inner
    end.

  Definition fs_first_step (st : fs_state) (ev : fs_first_ev) : option (fs_state * fs_first_out) :=
    (* Mux.handleConn: fewer than mux_need bytes before EOF / DefaultTimeout -> closed there *)
    if blen (fe_bytes ev) <? mux_need then Some (st, fs_wait_more ev)
    else if is_prefix ws_prefix (fe_bytes ev) then fs_wrapped st ev
    else
      match fe_bytes ev with
      | [] => Some (st, fs_wait_more ev)       (* CheckAndEnableTLSServerConnWithTimeout: first-byte read fails *)
      | b :: _ =>
          if fs_tls_head b then fs_wrapped st ev
          else if force_tls then Some (st, fs_closed ev CloseNow RNone ActClose)
          else fs_handle_conn st ev (fe_bytes ev)
      end.
End FirstBytes.

(** * The read loop of an established control channel *)

Inductive fs_loop_end :=
| EndEOF                      (* the peer closed at a frame boundary: io.EOF is an error for readLoop too *)
| EndFrame (e : derr)         (* readMsg failed *)
| EndJson (t : byte)          (* frame fine, json.Unmarshal failed *)
| EndFuel.                    (* never returned by fs_read_loop (Proofs/FrameSysProofs.v: fs_read_loop_no_fuel_end) *)

Section ReadLoop.
  Variable reg : byte -> bool.
  Variable jok : byte -> bytes -> bool.   (* oracle: encoding/json accepts this body for this type *)
  Variable jnull : byte -> bytes -> bool. (* oracle: ... as the JSON value null: ReadMsg returns a nil message without
                                             error, reflect.TypeOf(nil) has no handler, the loop goes on *)

  Fixpoint fs_read_loop_fuel (fuel : nat) (s : bytes) : list (byte * bytes) * fs_loop_end :=
    match fuel with
    | O => ([], EndFuel)
    | S k =>
        match decode_frame reg s with
        | DErr ErrEOF _ _ => ([], EndEOF)
        | DErr e _ _ => ([], EndFrame e)
        | DOk r _ _ =>
            if jok (d_type r) (d_body r) then
              let '(ms, e) := fs_read_loop_fuel k (d_rest r) in ((d_type r, d_body r) :: ms, e)
            else ([], EndJson (d_type r))
        end
    end.

  (* every iteration consumes at least nine bytes, so |s|+1 iterations always suffice *)
  Definition fs_read_loop (s : bytes) : list (byte * bytes) * fs_loop_end :=
    fs_read_loop_fuel (S (length s)) s.

  (* The whole life of a session's control channel: [s] is everything its peer ever sends.
     The messages are dispatched to the handlers of THAT session; when the loop ends the worker
     closes the connection and the session is deleted. *)
  Record fs_stream_out := {
    so_read : list (byte * bytes);          (* frames ReadMsg returned without error *)
    so_dispatched : list (byte * bytes);    (* those of them that reached a handler lookup with a non-nil message *)
    so_end : fs_loop_end;
    so_closed : list Z
  }.

  Definition fs_stream_step (st : fs_state) (conn : Z) (rid : bytes) (s : bytes) : fs_state * fs_stream_out :=
    let '(ms, e) := fs_read_loop s in
    (fs_del_session rid st,
     {| so_read := ms; so_dispatched := filter (fun m => negb (jnull (fst m) (snd m))) ms;
        so_end := e; so_closed := [conn] |}).
End ReadLoop.

(* server/control.go registerMsgHandlers, synchronous handlers only: which reply a dispatched
   message produces on the control channel (the async NatHole handlers are not used by the driver) *)
Definition fs_reply_type (tPing tPong tNewProxy tNewProxyResp : byte) (t : byte) : option byte :=
  if Byte.eqb t tPing then Some tPong
  else if Byte.eqb t tNewProxy then Some tNewProxyResp
  else None.

(** * One server, many events *)
Inductive fs_event :=
| EvFirst (ev : fs_first_ev)                           (* first bytes of a fresh connection *)
| EvStream (conn : Z) (rid : bytes) (s : bytes).       (* the control channel of session rid, whole life *)

Section Server.
  Variable reg : byte -> bool.
  Variables tLogin tWork tVisitor : byte.
  Variable force_tls : bool.
  Variable mux_need : Z.
  Variable ws_prefix : bytes.
  Variable jok jnull : byte -> bytes -> bool.

  (* None: an oracle value the code cannot produce *)
  Definition fs_step (st : fs_state) (e : fs_event) : option (fs_state * list Z) :=
    match e with
    | EvFirst ev =>
        match fs_first_step reg tLogin tWork tVisitor force_tls mux_need ws_prefix st ev with
        | Some (st', out) => Some (st', fo_closed out)
        | None => None
        end
    | EvStream conn rid s =>
        let '(st', out) := fs_stream_step reg jok jnull st conn rid s in Some (st', so_closed out)
    end.

  Fixpoint fs_run (st : fs_state) (es : list fs_event) : option fs_state :=
    match es with
    | [] => Some st
    | e :: r => match fs_step st e with Some (st', _) => fs_run st' r | None => None end
    end.
End Server.
