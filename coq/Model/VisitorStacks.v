(* C08 / T5v: meaning of the wrapper-stack tables the translator extracts (gen/GenVisitorStacks.v).
   A site is the list, in source order, of (wrapper, guard text, key text) for every
   libio.WithEncryption / WithCompression[FromPool] call of the function. Model only. *)
From Coq Require Import String.
From FRP Require Export Model.Visitor.

Definition gsite := list (string * string * string).

(* the stack a site builds when its guards evaluate as [genv] says and its key expressions as [kenv] says;
   None if the site contains something that is not one of the two wrappers *)
Fixpoint gsite_interp (genv : string -> bool) (kenv : string -> bytes) (s : gsite) : option (list vlayer) :=
  match s with
  | [] => Some []
  | (w, g, k) :: r =>
      match gsite_interp genv kenv r with
      | None => None
      | Some rest =>
          if String.eqb w "enc" then Some ((if genv g then [LEnc (kenv k)] else []) ++ rest)
          else if String.eqb w "comp" then Some ((if genv g then [LComp] else []) ++ rest)
          else None
      end
  end.

Fixpoint gassoc (k : string) (l : list (string * string)) : option string :=
  match l with
  | [] => None
  | (k', v) :: r => if String.eqb k k' then Some v else gassoc k r
  end.

Fixpoint gindex (x : string) (l : list string) (i : nat) : option nat :=
  match l with
  | [] => None
  | y :: r => if String.eqb x y then Some i else gindex x r (S i)
  end.
