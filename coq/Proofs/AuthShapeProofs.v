(* C04 — today's translator output (gen/GenAuth.v) has the shape Model/Auth.v models.  Each lemma is closed by
   computation on the generated tables: it stops compiling when the source changes shape. *)
From FRP Require Import Model.Auth Model.AuthShape gen.GenAuth.
Open Scope Z_scope.

Lemma ga_token_verifiers_are_modelled : forall H c ts k,
  ga_run H c AuErrTokenLogin gen_token_verify_login ts k = Some (au_tok_verify_login H c ts k) /\
  ga_run H c AuErrTokenPing gen_token_verify_ping ts k = Some (au_tok_verify_ping H c ts k) /\
  ga_run H c AuErrTokenWork gen_token_verify_workconn ts k = Some (au_tok_verify_workconn H c ts k).
Proof.
  intros H c ts k. unfold au_tok_verify_login, au_tok_verify_ping, au_tok_verify_workconn.
  repeat split; cbn;
    repeat match goal with |- context [if negb ?b then _ else _] => destruct (negb b) end; reflexivity.
Qed.

Lemma ga_ct_eq_is_full_compare : ga_cteq_ok gen_ct_eq = true.
Proof. vm_compute. reflexivity. Qed.

Lemma ga_register_control_shape : ga_regctl_ok gen_register_control = true.
Proof. vm_compute. reflexivity. Qed.

Lemma ga_bypass_is_choose_verifier : forall internal sp,
  ga_bypass_selected gen_register_control internal (asp_always_pass sp) =
  au_verifier_eqb (au_choose_verifier internal sp) AuAlwaysPass.
Proof. intros [] sp; unfold au_choose_verifier; destruct (asp_always_pass sp); reflexivity. Qed.

Lemma ga_ssh_gateway_shape : ga_sshgw_ok gen_ssh_gateway = true.
Proof. vm_compute. reflexivity. Qed.

Lemma ga_new_auth_verifier_shape : ga_newverifier_ok gen_new_auth_verifier = true.
Proof. vm_compute. reflexivity. Qed.

Lemma ga_legacy_auth_shape : ga_legacy_auth_ok gen_legacy_server_auth = true.
Proof. vm_compute. reflexivity. Qed.

Lemma ga_login_hook_shape : ga_loginhook_ok gen_login_hook = true /\ ga_manager_login_adopt_ok gen_manager_login_adopt = true.
Proof. vm_compute. split; reflexivity. Qed.
