(* C18 — command-line flag bindings (gen/GenFlags.v, from pkg/config/flags.go) against the file-format
   keys (json names of today's struct declarations, gen/GenCfgMsg.v) and a pinned golden key table.
   Model only: no proofs here. *)
From FRP Require Export Model.CfgMsg.
From FRP Require Import gen.GenFlags.

Definition fc_binding : Type := string * string * string * string * list string * string * bool.
Definition fc_flag (b : fc_binding) : string := let '(f, _, _, _, _, _, _) := b in f.
Definition fc_short (b : fc_binding) : string := let '(_, s, _, _, _, _, _) := b in s.
Definition fc_kind (b : fc_binding) : string := let '(_, _, k, _, _, _, _) := b in k.
Definition fc_root (b : fc_binding) : string := let '(_, _, _, r, _, _, _) := b in r.
Definition fc_path (b : fc_binding) : list string := let '(_, _, _, _, p, _, _) := b in p.

(* an entry of the golden table: flag, short name, kind, dotted file-format key *)
Definition fc_entry : Type := string * string * string * string.
Definition fc_e_flag (e : fc_entry) : string := let '(f, _, _, _) := e in f.
Definition fc_e_short (e : fc_entry) : string := let '(_, s, _, _) := e in s.
Definition fc_e_key (e : fc_entry) : string := let '(_, _, _, k) := e in k.

Definition fc_entry_eqb (a b : fc_entry) : bool :=
  let '(a1, a2, a3, a4) := a in let '(b1, b2, b3, b4) := b in
  String.eqb a1 b1 && String.eqb a2 b2 && String.eqb a3 b3 && String.eqb a4 b4.

Definition fc_optstruct_code (code : string) : option string :=
  match code with
  | String "o" (String "p" (String "t" (String "s" (String "t" (String "r" (String "u" (String "c" (String "t" (String ":" n))))))))) => Some n
  | _ => None
  end.

Definition fc_next_struct (code : string) : option string :=
  match cm_is_struct_code code with Some n => Some n | None => fc_optstruct_code code end.

Definition fc_field_name (f : string * string * string * bool) : string := let '(n, _, _, _) := f in n.

(* the file-format key of a canonical Go field path: the json names along the path; an embedded
   struct without a json name is inlined by encoding/json and contributes no segment *)
Fixpoint fc_json_path (tbl : list (string * list (string * string * string * bool)))
         (sname : string) (path : list string) : option (list string) :=
  match path with
  | [] => Some []
  | f :: rest =>
      match cm_assoc sname tbl with
      | None => None
      | Some fs =>
          match find (fun x => String.eqb (fc_field_name x) f) fs with
          | None => None
          | Some (_, code, json, _) =>
              let seg := match json with EmptyString => [] | _ => [json] end in
              match rest with
              | [] => Some seg
              | _ =>
                  match fc_next_struct code with
                  | None => None
                  | Some n =>
                      match fc_json_path tbl n rest with
                      | Some r => Some (seg ++ r)
                      | None => None
                      end
                  end
              end
          end
      end
  end.

Definition fc_is_unknown (k : string) : bool := cm_str_prefix "Unknown:" k.

(* roots: a struct name, or "local:<var>:<Struct>" for a flag bound to a local variable of the
   register function (key = "@<var>." ++ key inside that struct) *)
Definition fc_key (tbl : list (string * list (string * string * string * bool))) (b : fc_binding) : option string :=
  let r := fc_root b in
  if cm_str_prefix "local:" r then
    let rest := String.substring 6 (String.length r - 6) r in
    match String.index 0 ":" rest with
    | None => None
    | Some i =>
        let var := String.substring 0 i rest in
        let sn := String.substring (S i) (String.length rest - S i) rest in
        match fc_json_path tbl sn (fc_path b) with
        | Some p => Some (String.concat "." (("@" ++ var)%string :: p))
        | None => None
        end
    end
  else
    match fc_json_path tbl r (fc_path b) with
    | Some p => Some (String.concat "." p)
    | None => None
    end.

Fixpoint fc_entries (tbl : list (string * list (string * string * string * bool))) (bs : list fc_binding) : option (list fc_entry) :=
  match bs with
  | [] => Some []
  | b :: r =>
      if fc_is_unknown (fc_kind b) then None
      else match fc_key tbl b, fc_entries tbl r with
           | Some k, Some es => Some ((fc_flag b, fc_short b, fc_kind b, k) :: es)
           | _, _ => None
           end
  end.

Fixpoint fc_nodup (l : list string) : bool :=
  match l with [] => true | x :: r => negb (existsb (String.eqb x) r) && fc_nodup r end.

Definition fc_nonempty (s : string) : bool := match s with EmptyString => false | _ => true end.

Definition fc_set_ok (tbl : list (string * list (string * string * string * bool)))
           (golden : list (string * list fc_entry)) (set : string * list fc_binding) : bool :=
  match fc_entries tbl (snd set), cm_assoc (fst set) golden with
  | Some es, Some gs =>
      forallb (fun e => existsb (fc_entry_eqb e) gs) es &&
      forallb (fun g => existsb (fc_entry_eqb g) es) gs &&
      fc_nodup (map fc_e_flag es) &&
      fc_nodup (map fc_e_key es) &&
      fc_nodup (filter fc_nonempty (map fc_e_short es))
  | _, _ => false
  end.

(* the flags that end up on one cobra command: the client's persistent flags plus one proxy set *)
Definition fc_union_ok (sets : list (string * list fc_binding)) : bool :=
  match cm_assoc "client" sets with
  | None => false
  | Some cl =>
      forallb (fun s : string * list fc_binding =>
                 if cm_str_prefix "proxy:" (fst s) then
                   fc_nodup (map fc_flag (cl ++ snd s)) &&
                   fc_nodup (filter fc_nonempty (map fc_short (cl ++ snd s)))
                 else true) sets
  end.

Definition fc_all_ok (tbl : list (string * list (string * string * string * bool)))
           (golden : list (string * list fc_entry)) (sets : list (string * list fc_binding)) : bool :=
  forallb (fc_set_ok tbl golden) sets &&
  forallb (fun g : string * list fc_entry => existsb (String.eqb (fst g)) (map fst sets)) golden &&
  fc_union_ok sets.

(* ---- config.BoolFuncFlag (the frps flag dashboard_tls_mode), repaired code ----
   Set(s):  v, err := strconv.ParseBool(s); if err != nil { return err }; f.v = v
            if !f.v { FalseFunc?(); return nil };  TrueFunc?(); return nil *)

(* strconv.ParseBool: exactly these spellings *)
Definition bff_trues : list bytes := [hx "31"; hx "74"; hx "54"; hx "54525545"; hx "74727565"; hx "54727565"].
Definition bff_falses : list bytes := [hx "30"; hx "66"; hx "46"; hx "46414c5345"; hx "66616c7365"; hx "46616c7365"].
Definition bff_parse_bool (s : bytes) : option bool :=
  if existsb (bytes_eqb s) bff_trues then Some true
  else if existsb (bytes_eqb s) bff_falses then Some false
  else None.

(* None = error returned to pflag (the command line is rejected); Some (new v, TrueFunc ran) *)
Definition bff_set (v : bool) (s : bytes) : option (bool * bool) :=
  match bff_parse_bool s with
  | None => None
  | Some v' => Some (v', v')
  end.

(* a freshly registered flag receiving the argument s: is webServer.tls set? *)
Definition bff_enables_tls (s : bytes) : option bool :=
  match bff_set false s with Some (_, ran) => Some ran | None => None end.

(* RegisterServerConfigFlags: dashboard_tls_cert_file / dashboard_tls_key_file write the local
   TLSConfig, TrueFunc of dashboard_tls_mode makes webServer.tls point at it.  Result: None = the
   command line is rejected; Some t = value of webServer.tls *)
Definition flags_web_tls (mode cert key : bytes) : option (option TLSConfig) :=
  let local := set_TLSConfig_KeyFile key (set_TLSConfig_CertFile cert zero_TLSConfig) in
  match bff_enables_tls mode with
  | None => None
  | Some true => Some (Some local)
  | Some false => Some None
  end.

(* the file form of the same setting: the table webServer.tls with certFile / keyFile, or no table *)
Definition file_web_tls (t : option (bytes * bytes)) : option TLSConfig :=
  match t with
  | Some (cert, key) => Some (set_TLSConfig_KeyFile key (set_TLSConfig_CertFile cert zero_TLSConfig))
  | None => None
  end.
