(* C20 correspondence: observations of the real pkg/nathole code against Model/NatHole (+ NatHoleCtl). *)
From FRP Require Export Corr.Common Model.NatHoleToday.
Open Scope Z_scope.

Definition D := nh_today.

(* compact constructors used by the harness *)
Definition ft (nat behav diff : Z) (reg pub : bool) : nh_feature :=
  {| nf_nat := if nat =? 0 then NhEasy else NhHard;
     nf_behav := if behav =? 0 then NhNoChange else if behav =? 1 then NhIPChanged else if behav =? 2 then NhPortChanged else NhBothChanged;
     nf_diff := diff; nf_regular := reg; nf_public := pub |}.

Definition role_code (r : nh_role) : Z := match r with NhNoRole => 0 | NhSender => 1 | NhReceiver => 2 end.
Definition nat_code (n : nh_nat) : Z := match n with NhEasy => 0 | NhHard => 1 end.
Definition behav_code (b : nh_behav) : Z := match b with NhNoChange => 0 | NhIPChanged => 1 | NhPortChanged => 2 | NhBothChanged => 3 end.

(* observed RecommandBehavior: role ttl delay range random listen *)
Inductive obeh := OB (role ttl delay range random listen : Z).
Definition obeh_eqb (o : obeh) (b : nh_beh) : bool :=
  let 'OB r t d g n l := o in
  (r =? role_code (nb_role b)) && (t =? nb_ttl b) && (d =? nb_delay b) && (g =? nb_range b) && (n =? nb_random b) && (l =? nb_listen b).
Definition obeh_role (o : obeh) : Z := let 'OB r _ _ _ _ _ := o in r.

(* observed result of GetRecommandBehaviors: mode index cBehavior vBehavior *)
Inductive orec := OR (mode index : Z) (c v : obeh).

Definition cerr_code (e : nh_cerr) : Z := match e with CeNotEnough => 1 | CeSplit => 2 | CeAtoi => 3 | CePort => 4 end.

Inductive case :=
| CAn (ops : list nh_aop) (obs : list orec)
| CCl (addrs locals : list bytes) (res nat behav diff : Z) (reg pub : bool)
| CRange (addrs : list bytes) (diff maxn : Z) (obs : list (Z * Z)).

Fixpoint zz_list_eqb (a b : list (Z * Z)) : bool :=
  match a, b with
  | [], [] => true
  | (x, y) :: a', (x', y') :: b' => (x =? x') && (y =? y') && zz_list_eqb a' b'
  | _, _ => false
  end.

(* the property itself on one observed recommendation: roles complementary *)
Definition orec_holds (o : orec) : bool :=
  let 'OR m i c v := o in
  ((obeh_role c =? 1) && (obeh_role v =? 2)) || ((obeh_role c =? 2) && (obeh_role v =? 1)).

Definition range_holds (l : list (Z * Z)) : bool :=
  forallb (fun p : Z * Z => (1 <=? fst p) && (fst p <=? snd p) && (snd p <=? 65535)) l.

Fixpoint orecs_match (obs : list orec) (ml : list nh_reco) : Z :=
  match obs, ml with
  | [], [] => 0
  | OR m i c v :: obs2, r :: ml2 =>
      if (m =? rc_mode r) && (i =? rc_index r) && obeh_eqb c (rc_cbeh r) && obeh_eqb v (rc_vbeh r)
      then orecs_match obs2 ml2 else 3
  | _, _ => 2
  end.

(* 0 agree | 1 model panics | 2 number of outputs differs | 3 an output differs | 10 classify result class differs
   11 classified feature differs | 20 range differs | 5x the property fails on the OBSERVED values *)
Definition check_case (c : case) : Z :=
  match c with
  | CAn ops obs =>
      if negb (forallb orec_holds obs) then 50
      else match nh_run_analyzer D [] ops with
           | None => 1
           | Some (_, outs) => orecs_match obs outs
           end
  | CCl addrs locals res nt bh diff reg pub =>
      match nh_classify addrs locals with
      | inr e => if res =? cerr_code e then 0 else 10
      | inl f =>
          if negb (res =? 0) then 10
          else if (nt =? nat_code (nf_nat f)) && (bh =? behav_code (nf_behav f)) && (diff =? nf_diff f) &&
                  Bool.eqb reg (nf_regular f) && Bool.eqb pub (nf_public f) then 0 else 11
      end
  | CRange addrs diff maxn obs =>
      if zz_list_eqb obs (nh_range_ports addrs diff maxn) then 0 else 20
  end.

(* counters for the evidence: which model branches the cases reached *)
Definition is_an (c : case) : bool := match c with CAn _ _ => true | _ => false end.
Definition cl_class (k : Z) (c : case) : bool := match c with CCl _ _ res _ _ _ _ _ => res =? k | _ => false end.
Definition cl_hard (c : case) : bool := match c with CCl _ _ 0 1 _ _ _ _ => true | _ => false end.
Definition cl_regular (c : case) : bool := match c with CCl _ _ 0 _ _ _ true _ => true | _ => false end.
Definition cl_public (c : case) : bool := match c with CCl _ _ 0 _ _ _ _ true => true | _ => false end.
Definition an_modes (c : case) : list Z := match c with CAn _ obs => map (fun o => let 'OR m _ _ _ := o in m) obs | _ => [] end.
Definition count_mode (m : Z) (l : list case) : Z := count_if (Z.eqb m) (flat_map an_modes l).
