package main

// Part (ii): the real udp.ForwardUserConn and udp.Forwarder wired back to back through the
// real message codec (no frps), plus the idle-timeout scenario (runIdle), plus the pieces the
// system part (sys.go) shares: payload format, echo backend, user sockets, observation
// printing and the Go-side property monitors.

import (
	"bytes"
	"encoding/binary"
	"errors"
	"fmt"
	"net"
	"sync"
	"time"

	"github.com/fatedier/frp/pkg/msg"
	"github.com/fatedier/frp/pkg/proto/udp"
	"verifharness/hx"
)

const (
	bufSize     = 1500
	arriveWait  = 6 * time.Second
	pollEvery   = 2 * time.Millisecond
	backendIP   = "127.0.3.2"
	backendIPSy = "127.0.3.3"
	pubIP       = "127.0.3.1"
)

// ---- failures (shared slice: runIdle runs concurrently with the other parts) ----

var failMu sync.Mutex

func addFail(fails *[]failure, f failure) {
	failMu.Lock()
	*fails = append(*fails, f)
	failMu.Unlock()
}

func clip(s string, n int) string {
	if len(s) > n {
		return s[:n] + "..."
	}
	return s
}

// ---- payloads ----

// header: 'C','3', user uint16 BE, send index uint32 BE; then filler
func mkPayload(g *hx.Gen, user, idx, size int) []byte {
	if size < 8 {
		size = 8
	}
	b := make([]byte, size)
	b[0], b[1] = 'C', '3'
	binary.BigEndian.PutUint16(b[2:], uint16(user))
	binary.BigEndian.PutUint32(b[4:], uint32(idx))
	copy(b[8:], g.Bytes(size-8))
	return b
}

// unrecorded probe: magic 'P','0'
func mkProbe(user, n int) []byte {
	b := make([]byte, 12)
	b[0], b[1] = 'P', '0'
	binary.BigEndian.PutUint16(b[2:], uint16(user))
	binary.BigEndian.PutUint32(b[4:], uint32(n))
	copy(b[8:], "prob")
	return b
}

func xf(b []byte) []byte {
	r := make([]byte, len(b))
	for i, x := range b {
		r[i] = x ^ 0x5a
	}
	return r
}

// hdr parses a payload header; idx = -1 if it is not a recorded datagram
func hdr(b []byte) (probe bool, user, idx int) {
	if len(b) < 8 {
		return false, -1, -1
	}
	if b[0] == 'P' && b[1] == '0' {
		return true, int(binary.BigEndian.Uint16(b[2:])), -1
	}
	if b[0] != 'C' || b[1] != '3' {
		return false, -1, -1
	}
	return false, int(binary.BigEndian.Uint16(b[2:])), int(binary.BigEndian.Uint32(b[4:]))
}

// sizer picks datagram sizes: all residues mod 3 among the tiny ones, mostly 12..200, a
// bounded number of large ones (1400..1500, half of them exactly 1500).
type sizer struct {
	g     *hx.Gen
	large int // large datagrams still allowed
	max   int // upper bound of the ordinary sizes
}

func (s *sizer) next() int {
	r := s.g.Intn(100)
	switch {
	case r < 25:
		return 8 + s.g.Intn(4)
	case r < 29 && s.large > 0 && s.max >= 200:
		s.large--
		if s.g.Chance(0.5) {
			return bufSize
		}
		return 1400 + s.g.Intn(101)
	case r < 78:
		return 12 + s.g.Intn(53)
	default:
		return 12 + s.g.Intn(s.max-11)
	}
}

// ---- the world around the tunnel: echo backend and users ----

type bkRec struct {
	addr *net.UDPAddr
	data []byte
}

type world struct {
	mu       sync.Mutex
	bk       []bkRec        // recorded datagrams at the backend, arrival order
	bkSeen   map[int]int    // send index -> times seen at the backend
	rpSeen   map[int]int    // send index -> times a reply was seen at its user
	urecv    [][][]byte     // per user: payloads received (recorded ones and junk), arrival order
	probeRp  int            // replies to unrecorded probes
	bkProbes []*net.UDPAddr // source addresses of unrecorded probes at the backend
	epochAt  int            // >= 0: backend records from this position on come from sockets created after an idle
	// timeout; an equal source port number is then an OS reuse, not the same socket

	backend *net.UDPConn
	users   []*net.UDPConn
	wg      sync.WaitGroup
}

func userIP(k int) string {
	if k <= 1 {
		return "127.0.3.10" // users 0 and 1 share the IP
	}
	return fmt.Sprintf("127.0.3.%d", 10+k)
}

func newWorld(bkIP string, nusers int) (*world, error) {
	w := &world{bkSeen: map[int]int{}, rpSeen: map[int]int{}, urecv: make([][][]byte, nusers), epochAt: -1}
	var err error
	w.backend, err = net.ListenUDP("udp", &net.UDPAddr{IP: net.ParseIP(bkIP)})
	if err != nil {
		return nil, err
	}
	w.wg.Add(1)
	go func() {
		defer w.wg.Done()
		buf := make([]byte, 65536)
		for {
			n, from, err := w.backend.ReadFromUDP(buf)
			if err != nil {
				if errors.Is(err, net.ErrClosed) {
					return
				}
				time.Sleep(time.Millisecond)
				continue
			}
			d := append([]byte(nil), buf[:n]...)
			probe, _, idx := hdr(d)
			w.mu.Lock()
			if probe {
				w.bkProbes = append(w.bkProbes, from)
			} else {
				w.bk = append(w.bk, bkRec{from, d})
				w.bkSeen[idx]++
			}
			w.mu.Unlock()
			_, _ = w.backend.WriteToUDP(xf(d), from)
		}
	}()
	for k := 0; k < nusers; k++ {
		c, err := net.ListenUDP("udp", &net.UDPAddr{IP: net.ParseIP(userIP(k))})
		if err != nil {
			w.close()
			return nil, err
		}
		w.users = append(w.users, c)
		w.wg.Add(1)
		go func(k int, c *net.UDPConn) {
			defer w.wg.Done()
			buf := make([]byte, 65536)
			for {
				n, _, err := c.ReadFromUDP(buf)
				if err != nil {
					if errors.Is(err, net.ErrClosed) {
						return
					}
					time.Sleep(time.Millisecond)
					continue
				}
				d := append([]byte(nil), buf[:n]...)
				probe, _, idx := hdr(xf(d[:min(n, 8)]))
				w.mu.Lock()
				if probe {
					w.probeRp++
				} else {
					w.urecv[k] = append(w.urecv[k], d)
					w.rpSeen[idx]++
				}
				w.mu.Unlock()
			}
		}(k, c)
	}
	return w, nil
}

func (w *world) close() {
	if w.backend != nil {
		w.backend.Close()
	}
	for _, c := range w.users {
		c.Close()
	}
	w.wg.Wait()
}

func (w *world) backendAddr() *net.UDPAddr { return w.backend.LocalAddr().(*net.UDPAddr) }

func (w *world) userAddrs() []string {
	out := []string{}
	for _, c := range w.users {
		a := c.LocalAddr().(*net.UDPAddr)
		ip, _ := a.IP.MarshalText()
		out = append(out, fmt.Sprintf("{| ua_ip := %s; ua_port := %s; ua_zone := [] |}", hx.HxS(string(ip)), hx.Z(int64(a.Port))))
	}
	return out
}

// waitUntil polls cond every 2 ms
func waitUntil(d time.Duration, cond func() bool) bool {
	deadline := time.Now().Add(d)
	for {
		if cond() {
			return true
		}
		if time.Now().After(deadline) {
			return false
		}
		time.Sleep(pollEvery)
	}
}

// allDone: every index of idxs reached the backend and was answered
func (w *world) allDone(idxs []int) bool {
	w.mu.Lock()
	defer w.mu.Unlock()
	for _, i := range idxs {
		if w.bkSeen[i] == 0 || w.rpSeen[i] == 0 {
			return false
		}
	}
	return true
}

func (w *world) probeReplies() int {
	w.mu.Lock()
	defer w.mu.Unlock()
	return w.probeRp
}

func (w *world) recvCounts() []int {
	w.mu.Lock()
	defer w.mu.Unlock()
	out := make([]int, len(w.urecv))
	for k := range w.urecv {
		out[k] = len(w.urecv[k])
	}
	return out
}

// ---- sends, observations, monitors ----

type send struct {
	user, phase int
	data        []byte
}

// sendBurst writes the datagrams back to back from this goroutine and returns their indices
func (w *world) sendBurst(sends []send, from int, to *net.UDPAddr) []int {
	idxs := []int{}
	for i := from; i < len(sends); i++ {
		_, _ = w.users[sends[i].user].WriteToUDP(sends[i].data, to)
		idxs = append(idxs, i)
	}
	return idxs
}

type obsView struct {
	backend, urecv string // Coq lists
	nports         int
}

// observe prints the logs as Coq uobs lists.  late[k] (may be nil) = positions in user k's log
// from which on (until lateEnd[k]) datagrams are "late" ones reported with index -1.
func (w *world) observe(lateFrom, lateTo []int) obsView {
	w.mu.Lock()
	defer w.mu.Unlock()
	ports := map[int]int{}
	bk := []string{}
	for i, r := range w.bk {
		key := w.sockKey(i, r.addr.Port)
		pi, ok := ports[key]
		if !ok {
			pi = len(ports)
			ports[key] = pi
		}
		_, _, idx := hdr(r.data)
		bk = append(bk, obsRec(pi, idx, r.data))
	}
	ur := []string{}
	for k := range w.urecv {
		for j, d := range w.urecv[k] {
			_, _, idx := hdr(xf(d[:min(len(d), 8)]))
			if lateFrom != nil && j >= lateFrom[k] && j < lateTo[k] {
				idx = -1
			}
			ur = append(ur, obsRec(k, idx, d))
		}
	}
	return obsView{hx.List(bk), hx.List(ur), len(ports)}
}

// sockKey: identity of the local socket a backend record came from (source port, qualified by the epoch)
func (w *world) sockKey(pos, port int) int {
	if w.epochAt >= 0 && pos >= w.epochAt {
		return port + 1000000
	}
	return port
}

func obsRec(where, idx int, d []byte) string {
	return fmt.Sprintf("{| o_where := %s; o_idx := %s; o_data := %s |}", hx.Z(int64(where)), hx.Z(int64(idx)), hx.Hx(d))
}

type finding struct{ key, what string }

// monitor evaluates the property on the logs (the same clauses as C03_holds in Corr/C03.v).
// ordered: also check the per-user order (only meaningful without a replacement).
func (w *world) monitor(prefix string, sends []send, ordered bool) []finding {
	w.mu.Lock()
	defer w.mu.Unlock()
	var out []finding
	add := func(k, s string) { out = append(out, finding{prefix + ":" + k, s}) }
	seen := map[int]int{}
	portUser := map[int]int{}
	lastIdx := map[int]int{}
	for pos, r := range w.bk {
		_, _, idx := hdr(r.data)
		sk := w.sockKey(pos, r.addr.Port)
		if idx < 0 || idx >= len(sends) || !bytes.Equal(sends[idx].data, r.data) {
			add("corrupt", fmt.Sprintf("the backend received a datagram (%d bytes, header index %d) that no user sent", len(r.data), idx))
			continue
		}
		seen[idx]++
		if seen[idx] == 2 {
			add("duplicate", fmt.Sprintf("datagram %d reached the backend twice", idx))
		}
		u := sends[idx].user
		if pu, ok := portUser[sk]; ok && pu != u {
			add("socket-shared", fmt.Sprintf("local socket with source port index of user %d also carried datagram %d of user %d", pu, idx, u))
		} else {
			portUser[sk] = u
		}
		if li, ok := lastIdx[u]; ok && ordered && li > idx {
			add("reorder", fmt.Sprintf("datagram %d of user %d reached the backend after datagram %d", idx, u, li))
		}
		lastIdx[u] = idx
	}
	rseen := map[int]int{}
	for k := range w.urecv {
		last := -1
		for _, d := range w.urecv[k] {
			_, _, idx := hdr(xf(d[:min(len(d), 8)]))
			if idx < 0 || idx >= len(sends) {
				add("reply-corrupt", fmt.Sprintf("user %d received %d bytes that answer no datagram", k, len(d)))
				continue
			}
			if sends[idx].user != k {
				add("reply-misrouted", fmt.Sprintf("user %d received the reply to datagram %d of user %d", k, idx, sends[idx].user))
				continue
			}
			if !bytes.Equal(xf(sends[idx].data), d) {
				add("reply-corrupt", fmt.Sprintf("user %d received a reply to datagram %d with a different payload (%d bytes, expected %d)", k, idx, len(d), len(sends[idx].data)))
				continue
			}
			rseen[idx]++
			if rseen[idx] == 2 {
				add("reply-duplicate", fmt.Sprintf("user %d received the reply to datagram %d twice", k, idx))
			}
			if seen[idx] == 0 {
				add("reply-unsolicited", fmt.Sprintf("user %d received a reply to datagram %d which never reached the backend", k, idx))
			}
			if ordered && last > idx {
				add("reorder", fmt.Sprintf("user %d received the reply to datagram %d after the reply to %d", k, idx, last))
			}
			last = idx
		}
	}
	for i, s := range sends {
		if s.phase == 1 {
			continue
		}
		if seen[i] == 0 {
			add("lost", fmt.Sprintf("datagram %d (user %d, phase %d, %d bytes) never reached the backend", i, s.user, s.phase, len(s.data)))
		} else if rseen[i] == 0 {
			add("lost", fmt.Sprintf("the reply to datagram %d (user %d, phase %d, %d bytes) never reached the user", i, s.user, s.phase, len(s.data)))
		}
	}
	return out
}

func dedupe(fs []finding) []finding {
	seen := map[string]bool{}
	var out []finding
	for _, f := range fs {
		if !seen[f.key] {
			seen[f.key] = true
			out = append(out, f)
		}
	}
	return out
}

func sizeBucket(n int) string {
	switch {
	case n <= 11:
		return "8..11"
	case n <= 64:
		return "12..64"
	case n <= 200:
		return "65..200"
	case n < bufSize:
		return "1400..1499"
	default:
		return "1500"
	}
}

func coqBursts(bursts [][]send) string {
	bl := []string{}
	for _, b := range bursts {
		items := []string{}
		for _, s := range b {
			items = append(items, fmt.Sprintf("(%d, %s)", s.user, hx.Hx(s.data)))
		}
		bl = append(bl, hx.List(items))
	}
	return hx.List(bl)
}

// ---- the back-to-back rig ----

type rig struct {
	pub        *net.UDPConn
	srvSendCh  chan *msg.UDPPacket
	srvReadCh  chan *msg.UDPPacket
	cliReadCh  chan *msg.UDPPacket
	cliSendCh  chan msg.Message
	l1r, l1w   net.Conn
	l2r, l2w   net.Conn
	fwdDone    chan struct{}
	aDone      chan struct{}
	bDone      chan struct{}
	cDone      chan struct{}
	dDone      chan struct{}
	closedOnce sync.Once
}

func newRig(backend *net.UDPAddr) (*rig, error) {
	pub, err := net.ListenUDP("udp", &net.UDPAddr{IP: net.ParseIP(pubIP)})
	if err != nil {
		return nil, err
	}
	r := &rig{pub: pub,
		srvSendCh: make(chan *msg.UDPPacket, 1024), srvReadCh: make(chan *msg.UDPPacket, 1024),
		cliReadCh: make(chan *msg.UDPPacket, 1024), cliSendCh: make(chan msg.Message, 1024),
		fwdDone: make(chan struct{}), aDone: make(chan struct{}), bDone: make(chan struct{}),
		cDone: make(chan struct{}), dDone: make(chan struct{})}
	r.l1r, r.l1w = net.Pipe()
	r.l2r, r.l2w = net.Pipe()
	go func() {
		defer close(r.fwdDone)
		udp.ForwardUserConn(pub, r.srvReadCh, r.srvSendCh, bufSize)
	}()
	udp.Forwarder(backend, r.cliReadCh, r.cliSendCh, bufSize)
	go func() { // A: server work connection sender
		defer close(r.aDone)
		for p := range r.srvSendCh {
			_ = msg.WriteMsg(r.l1w, p)
		}
	}()
	go func() { // B: client work connection reader
		defer close(r.bDone)
		for {
			m, err := msg.ReadMsg(r.l1r)
			if err != nil {
				return
			}
			if p, ok := m.(*msg.UDPPacket); ok {
				r.cliReadCh <- p
			}
		}
	}()
	go func() { // C: client work connection sender
		defer close(r.cDone)
		for m := range r.cliSendCh {
			_ = msg.WriteMsg(r.l2w, m)
		}
	}()
	go func() { // D: server work connection reader
		defer close(r.dDone)
		for {
			m, err := msg.ReadMsg(r.l2r)
			if err != nil {
				return
			}
			if p, ok := m.(*msg.UDPPacket); ok {
				r.srvReadCh <- p
			}
		}
	}()
	return r, nil
}

func (r *rig) pubAddr() *net.UDPAddr { return r.pub.LocalAddr().(*net.UDPAddr) }

func (r *rig) close() {
	r.closedOnce.Do(func() {
		r.pub.Close()
		<-r.fwdDone // ForwardUserConn returned: nobody writes srvSendCh any more
		r.l1r.Close()
		r.l1w.Close()
		r.l2r.Close()
		r.l2w.Close()
		<-r.bDone
		<-r.dDone
		close(r.srvSendCh)
		close(r.cliReadCh) // the Forwarder's pump ends; its sockets linger until their deadline
		close(r.srvReadCh) // ForwardUserConn's delivery goroutine ends
		close(r.cliSendCh) // like the real client: writers recover from the panic and close their socket
		<-r.aDone
		<-r.cDone
	})
}

// ---- part (ii) ----

func runFwd(cfg *hx.RunCfg, g *hx.Gen, dist map[string]int, fails *[]failure) []string {
	nscen := 6
	sz := &sizer{g: g, max: 200}
	if cfg.Tier == "thorough" {
		nscen = 30
	}
	var cases []string
	for sc := 0; sc < nscen; sc++ {
		c, fs := fwdScenario(g, sz, sc, dist)
		if c != "" {
			cases = append(cases, c)
		}
		for _, f := range dedupe(fs) {
			addFail(fails, fail(f.key, fmt.Sprintf("scenario %d: %s", sc, f.what), clip(c, 1500)))
		}
	}
	return cases
}

func fwdScenario(g *hx.Gen, sz *sizer, sc int, dist map[string]int) (string, []finding) {
	nusers := 2 + g.Intn(4)
	nbursts := 4 + g.Intn(5)
	perm := g.R.Perm(nusers)
	if sc%3 == 1 { // the large datagrams are spread over the scenarios (scenario 0 has a fixed long/short burst)
		sz.large = 1
	}
	w, err := newWorld(backendIP, nusers)
	if err != nil {
		return "", []finding{{"fwd:setup", err.Error()}}
	}
	defer w.close()
	r, err := newRig(w.backendAddr())
	if err != nil {
		return "", []finding{{"fwd:setup", err.Error()}}
	}
	defer r.close()

	var sends []send
	var bursts [][]send
	var fs []finding
	for b := 0; b < nbursts; b++ {
		active := min(nusers, 1+b) // new users keep appearing
		n := 1 + g.Intn(8)
		from := len(sends)
		var sizes []int
		if sc == 0 && b == 1 {
			sizes = []int{bufSize, 9, 1400 + g.Intn(100), 10, 8, 11} // long then short then long ...
		} else {
			for i := 0; i < n; i++ {
				sizes = append(sizes, sz.next())
			}
		}
		var burst []send
		for _, size := range sizes {
			u := perm[g.Intn(active)]
			s := send{u, 0, mkPayload(g, u, len(sends), size)}
			sends = append(sends, s)
			burst = append(burst, s)
			hx.CountBy(dist, "fwd datagram size "+sizeBucket(size))
		}
		bursts = append(bursts, burst)
		hx.CountBy(dist, fmt.Sprintf("fwd burst len=%d", len(burst)))
		idxs := w.sendBurst(sends, from, r.pubAddr())
		if !w.allDone(idxs) && !waitUntil(arriveWait, func() bool { return w.allDone(idxs) }) {
			// reported by the monitor below as "lost"
			break
		}
	}
	time.Sleep(20 * time.Millisecond) // let duplicates / strays show up
	ov := w.observe(nil, nil)
	fs = append(fs, w.monitor("fwd", sends, true)...)
	hx.CountBy(dist, fmt.Sprintf("fwd users=%d", nusers))
	hx.CountBy(dist, fmt.Sprintf("fwd sockets=%d", ov.nports))
	line := fmt.Sprintf("CFwd %d %s %s %s %s", bufSize, hx.List(w.userAddrs()), coqBursts(bursts), ov.backend, ov.urecv)
	return line, fs
}

// ---- idle timeout of the Forwarder's local sockets ----

func runIdle(cfg *hx.RunCfg, g *hx.Gen, dist map[string]int, fails *[]failure) []string {
	var local []failure
	line := idleScenario(g, dist, func(key, what, cse string) { local = append(local, fail(key, what, cse)) })
	for _, f := range local {
		addFail(fails, f)
	}
	if line == "" {
		return nil
	}
	return []string{line}
}

func idleScenario(g *hx.Gen, dist map[string]int, report func(key, what, cse string)) string {
	const nusers = 3
	sz := &sizer{g: g, max: 64}
	w, err := newWorld(backendIP, nusers)
	if err != nil {
		report("idle:setup", err.Error(), "")
		return ""
	}
	defer w.close()
	r, err := newRig(w.backendAddr())
	if err != nil {
		report("idle:setup", err.Error(), "")
		return ""
	}
	defer r.close()

	var sends []send
	var fs []finding
	mkBurst := func(users []int) []send {
		n := 1 + g.Intn(3)
		var b []send
		for i := 0; i < n || len(users) > 0; i++ {
			var u int
			if len(users) > 0 { // every listed user at least once
				u, users = users[0], users[1:]
			} else {
				u = b[g.Intn(len(b))].user
			}
			s := send{u, 0, mkPayload(g, u, len(sends), sz.next())}
			sends = append(sends, s)
			b = append(b, s)
		}
		return b
	}
	run := func(b []send) bool {
		idxs := w.sendBurst(sends, len(sends)-len(b), r.pubAddr())
		return waitUntil(arriveWait, func() bool { return w.allDone(idxs) })
	}

	// bursts1: users 0 and 1
	b1 := [][]send{}
	ok1 := true
	for _, us := range [][]int{{0}, {1, 0}} {
		b := mkBurst(us)
		b1 = append(b1, b)
		ok1 = run(b) && ok1
	}
	// the local sockets the backend saw, and the first datagram of their users
	type oldSock struct {
		addr *net.UDPAddr
		user int
	}
	var old []oldSock
	w.mu.Lock()
	for _, rec := range w.bk {
		known := false
		for _, o := range old {
			known = known || o.addr.Port == rec.addr.Port
		}
		if !known {
			_, u, _ := hdr(rec.data)
			old = append(old, oldSock{rec.addr, u})
		}
	}
	w.mu.Unlock()

	// the reader goroutines have a fixed 30 s read deadline after the last reply
	time.Sleep(31500 * time.Millisecond)

	w.mu.Lock()
	w.epochAt = len(w.bk) // sockets seen from here on were created after the idle timeout
	w.mu.Unlock()
	before := w.recvCounts()
	late := 0
	for _, o := range old {
		for _, s := range sends {
			if s.user == o.user {
				_, _ = w.backend.WriteToUDP(xf(s.data), o.addr)
				late++
				break
			}
		}
	}
	time.Sleep(300 * time.Millisecond)
	after := w.recvCounts()

	// bursts2: users 0 and 1 again, and a new one
	b2 := [][]send{}
	ok2 := true
	n1 := len(sends)
	for _, us := range [][]int{{1}, {0, 2}, {2, 1, 0}} {
		b := mkBurst(us)
		b2 = append(b2, b)
		ok2 = run(b) && ok2
	}
	time.Sleep(20 * time.Millisecond)

	ov := w.observe(before, after)
	line := fmt.Sprintf("CIdle %d %s %s %s %d %s %s", bufSize, hx.List(w.userAddrs()), coqBursts(b1), coqBursts(b2), late, ov.backend, ov.urecv)

	// new sockets for users 0 and 1?
	reused, notRecreated, sameUser := false, false, false
	w.mu.Lock()
	for _, rec := range w.bk {
		_, u, idx := hdr(rec.data)
		if idx >= n1 {
			for _, o := range old {
				if o.addr.Port == rec.addr.Port {
					reused = true
					sameUser = sameUser || o.user == u
				}
			}
		}
	}
	for i := n1; i < len(sends); i++ {
		if sends[i].user <= 1 && (w.bkSeen[i] == 0 || w.rpSeen[i] == 0) {
			notRecreated = true
		}
	}
	w.mu.Unlock()
	lateSeen := false
	for k := range before {
		lateSeen = lateSeen || after[k] > before[k]
	}
	osReuse := reused && !sameUser
	if osReuse {
		// the OS handed an old port number to a new socket (of another user): the late datagram
		// may then legitimately reach that socket
		hx.CountBy(dist, "idle os-port-reuse")
	} else if lateSeen {
		fs = append(fs, finding{"idle:late-reply-delivered", "a datagram the backend sent to a local socket that had been idle for more than 30 s was delivered to a user"})
	}
	if sameUser {
		fs = append(fs, finding{"idle:socket-not-closed", "after more than 30 s without traffic a user's datagrams still left from the local socket (same source port) that user had before"})
	}
	if notRecreated {
		fs = append(fs, finding{"idle:socket-not-recreated", "after the idle timeout the datagrams of a user who had a local socket before did not get through within 3 s"})
	}
	if !ok1 {
		fs = append(fs, finding{"idle:lost", "a datagram of the first group did not get through within 3 s"})
	}
	for _, f := range w.monitor("idle", sends, true) {
		if (f.key == "idle:reply-duplicate" || f.key == "idle:reorder") && lateSeen && !osReuse {
			continue // that is the late datagram, already reported
		}
		if f.key == "idle:lost" && notRecreated {
			continue
		}
		fs = append(fs, f)
	}
	for _, f := range dedupe(fs) {
		report(f.key, f.what, clip(line, 1500))
	}
	_ = ok2
	return line
}
