package main

// Driver "visitors" (C08): (i) real visitor.Manager, (ii) real nathole.Controller,
// (iii) in-process frps with scripted sessions, (iv) byte transparency through real frpc peers.

import (
	"path/filepath"
	"strings"
	"sync"

	"github.com/fatedier/frp/pkg/nathole"
	"verifharness/hx"
)

func init() { drivers["visitors"] = runVisitors }

func childMain() bool { return false }

func runVisitors(cfg *hx.RunCfg) error {
	hx.Quiet()
	g := &gen{hx.NewGen(cfg.Seed)}
	dist := map[string]int{}
	var cases []string
	fails := []map[string]string{}
	seen := map[string]bool{}
	nontrivial := 0
	add := func(c string, f []map[string]string) {
		cases = append(cases, c)
		fails = append(fails, f...)
		if !seen[c] {
			seen[c] = true
			// non-trivial: at least one visitor request in the history
			if strings.Contains(c, "VmNewConn") || strings.Contains(c, "NhVisitor") || strings.Contains(c, "SVisitorConn") ||
				strings.Contains(c, "SNatHole") || strings.HasPrefix(c, "CE2E") || strings.HasPrefix(c, "CCfg") ||
				strings.HasPrefix(c, "CXtcp") || strings.HasPrefix(c, "CFirst") || strings.HasPrefix(c, "CLong") {
				nontrivial++
			}
		}
	}
	if cfg.Out != "" {
		c08WorkDir = filepath.Dir(cfg.Out)
	}
	// (ix) runs for ten and a half seconds beside everything else
	waitLong := startLongLived(dist, add)
	nA := cfg.N * 45 / 100
	nB := cfg.N * 40 / 100
	for i := 0; i < nA; i++ {
		add(managerCase(g, dist))
	}
	// (ii): every admitted request keeps its HandleVisitor call alive for NatHoleTimeout seconds, so the histories
	// run side by side, each on its own controller and with its own generator derived from the seed
	nathole.NatHoleTimeout = nhTimeout
	type nhRes struct {
		c    string
		f    []map[string]string
		dist map[string]int
	}
	res := make([]nhRes, nB)
	var wg sync.WaitGroup
	for i := 0; i < nB; i++ {
		sub := &gen{hx.NewGen(g.R.Int63())}
		wg.Add(1)
		go func(i int, sub *gen) {
			defer wg.Done()
			d := map[string]int{}
			c, f := nhCase(sub, d)
			res[i] = nhRes{c, f, d}
		}(i, sub)
	}
	wg.Wait()
	for _, r := range res {
		for k, v := range r.dist {
			dist[k] += v
		}
		add(r.c, r.f)
	}
	nSys := cfg.N - nA - nB
	if err := systemCases(cfg, g, nSys, dist, add); err != nil {
		return err
	}
	if err := waitLong(); err != nil {
		return err
	}
	cf := &hx.CaseFile{Imports: caseImports, Typ: "case", Cases: cases, Tail: caseTail}
	if err := cf.Write(cfg.Out); err != nil {
		return err
	}
	cfg.St["cases"] = len(cases)
	cfg.St["distinct_nontrivial"] = nontrivial
	samples := []string{}
	for i := 0; i < len(cases) && len(samples) < 4; i += 1 + len(cases)/4 {
		s := cases[i]
		if len(s) > 600 {
			s = s[:600] + "..."
		}
		samples = append(samples, s)
	}
	cfg.St["samples"] = samples
	cfg.St["distribution"] = dist
	cfg.St["impl_failures"] = fails
	return nil
}
