import os
from vlib import Check, V

PID = "C16"

MANIFEST = dict(
    text="Partial by nature (crash-freedom of a whole Go process is not a theorem about a model of parts of it). Machine-checked "
         "(Coq 8.16.1) are the four mechanisms the property's anchors name: (1) the frame decoder is total, allocates <= 10240 bytes and "
         "never reads past its input on every byte string (C17's theorems over today's registry); (2) for EVERY Login.PoolCount and "
         "every server maximum the channel capacity computed by NewControl is non-negative and the advance-request count is "
         "min(client, max) clamped at 0 - proved over Gallina code that translator unit T8a regenerates from server/control.go on every "
         "run; (3) channel discipline of teardown/hand-off is proved in the schedule models of C11/C12/C13 (their never-crash theorems); "
         "(4) every access site of every shared table (25 tables: sessions, proxies, routes, visitor listeners, NAT-hole clients and "
         "sessions, transporter registry, groups, ports, OIDC subject list, client managers) holds the owner's mutex - reflective "
         "theorem over the lock table that translator unit T4 regenerates from the Go sources on every run. The search for a concrete "
         "crashing input is a barrage against a real frps running in a child process (field-level mutation of all 18 message types, "
         "authenticated and unauthenticated, with concurrent registration/closure/group/visitor/NAT-hole traffic and a tunnel watchdog).",
    note="Trusted: Coq kernel+VM; translator units T4 (syntactic, intra-procedural lock-state walk over go/ast with one level of "
         "callee-requires-lock) and T8a (straight-line integer code of NewControl); harness transcription. Not modelled: goroutine "
         "scheduling of the whole process, third-party libraries (yamux, quic, kcp, net/http), memory exhaustion, the client process "
         "(frpc) beyond its two manager tables. A data race outside the listed tables, or a panic in code outside the four mechanisms, "
         "can only be found by the barrage (a search, not a proof).",
    technique="Coq proof over translator-regenerated code and lock table (reflection) + child-process barrage search",
    design="4/C16")


def q(tier, quick, thorough):
    return quick if tier == "quick" else thorough


def recipe(c: Check):
    c.build(["Properties/C16.vo", "Corr/C16.vo"], harness=["c16"], units=["t1", "t4", "t8a"])
    c.obligations("C16")
    c.run_driver("alloc", 0, shards=1, timeout=300)
    c.run_driver("barrage", q(c.tier, 350, 6000), shards=q(c.tier, 2, 8), timeout=q(c.tier, 300, 3000))
    if c.tier == "thorough" and c.harness_ok:
        # the same barrage against a child built with the race detector; races on listed shared tables are violations
        from vlib import sh, WORK, GOENV
        rc, out, _ = sh("cd %s/harness && go build -race -modfile=%s/harness.mod -tags verif -o %s/h_c16_race ./cmd/c16" % (V, WORK, WORK), timeout=900)
        if rc == 0:
            st = c.run_driver("barrage", 1500, shards=4, timeout=3000, env=dict(VERIF_C16_CHILD=os.path.join(WORK, "h_c16_race")),
                              extra=os.path.join(V, "coq/gen/GenLocks.v"))
            if st:
                c.cov["race_reports"] = st.get("race_reports")
                c.cov["race_reports_outside_listed_tables"] = st.get("race_reports_outside_listed_tables")
        else:
            c.notes.append("race-detector build of the child failed: " + out[-300:])
    k = c.cov.get("coq_counters", {}).get("alloc", {})
    if c.harness_ok and (k.get("NCLAMPLOW", 0) == 0 or k.get("NCLAMPHIGH", 0) == 0):
        c.broken.append(dict(kind="sanity", name="alloc driver reached no negative / no above-maximum PoolCount case", detail=str(k)))
    return c.finish(
        rule="alloc: grid of 19 Login.PoolCount values (0..MaxInt64, -1..MinInt64, around -10) x 4 server maxima against a real frps in a "
             "child process; observed number of ReqWorkConn vs Model/Alloc.v. barrage: PRNG-driven field-level mutation (adversarial ints, "
             "empty/9000-byte/non-UTF-8 strings, maps, slices) of all 18 message types sent as first message, as Login with a valid key, and "
             "on authenticated sessions, interleaved with 4 background goroutines doing concurrent xtcp/stcp/grouped tcp/grouped http "
             "registration+closure and NAT-hole pre-checks; every 25 messages a watchdog (fresh login, tcp proxy, user connection bridged to a "
             "work connection, bytes pass). distinct = distinct (kind, type, field values); non-trivial = every case (each carries mutated fields)",
        assumptions=["goroutine interleavings of the real process are sampled by the barrage, not enumerated",
                     "translator T4's lock-state analysis is syntactic; cross-checked in the thorough tier by the race detector where available"])
