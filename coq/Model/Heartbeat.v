(* Model/Heartbeat.v — the application-level heartbeat watchdogs.
     server/control.go  NewControl (lastPing.Store(now)), heartbeatWorker, handlePing
     client/control.go  NewControl (lastPong.Store(now)), heartbeatWorker (check part), handlePong
     pkg/config/v1/{server,client}.go  Complete(): the tcpMux dependent defaults
   Time: Z milliseconds, supplied by the events (the clock is an oracle).  The configured
   timeout / interval are in seconds as in the configuration structs.
   The watchdog callback is run by wait.Until(..., time.Second, doneCh): one [Tick] per run of
   the callback; its schedule is Model/Backoff.until_ticks.  No proofs in this file. *)
From Coq Require Import ZArith List Bool.
Import ListNotations.
Open Scope Z_scope.

Definition hb_period : Z := 1000.   (* wait.Until(..., time.Second, ...) *)
Definition hb_sec : Z := 1000.      (* time.Second in model units *)

(* util.EmptyOr on int64 *)
Definition hb_empty_or (v fallback : Z) : Z := if v =? 0 then fallback else v.

(* ServerTransportConfig.Complete: HeartbeatTimeout *)
Definition hb_server_default (tcpmux : bool) (timeout : Z) : Z :=
  if tcpmux then hb_empty_or timeout (-1) else hb_empty_or timeout 90.

(* ClientTransportConfig.Complete: (HeartbeatInterval, HeartbeatTimeout) *)
Definition hb_client_default (tcpmux : bool) (interval timeout : Z) : Z * Z :=
  if tcpmux then (hb_empty_or interval (-1), hb_empty_or timeout (-1))
  else (hb_empty_or interval 30, hb_empty_or timeout 90).

(* ---------------- server ---------------- *)
Inductive hb_ev :=
| HTick (now : Z)          (* one run of the watchdog callback *)
| HValidPing (now : Z)     (* Ping accepted by the plugin chain and by authVerifier.VerifyPing *)
| HInvalidPing.            (* Ping rejected by either *)

Inductive hb_out := HONone | HOPong | HOPongErr | HOClose.

Record hb_srv := { hs_last : Z; hs_closed : bool }.

Definition hb_srv_init (now : Z) : hb_srv := {| hs_last := now; hs_closed := false |}.

(* [T] = serverCfg.Transport.HeartbeatTimeout.  After conn.Close() the dispatcher's read loop ends:
   no further message is handled, and a second Close is a no-op. *)
Definition hb_srv_step (T : Z) (s : hb_srv) (e : hb_ev) : hb_srv * hb_out :=
  if hs_closed s then (s, HONone)
  else match e with
       | HTick now =>
           if T <=? 0 then (s, HONone)                       (* heartbeatWorker returned at once *)
           else if now - hs_last s >? T * hb_sec
                then ({| hs_last := hs_last s; hs_closed := true |}, HOClose)
                else (s, HONone)
       | HValidPing now => ({| hs_last := now; hs_closed := false |}, HOPong)
       | HInvalidPing => (s, HOPongErr)                      (* return before lastPing.Store *)
       end.

Definition hb_srv_run (T : Z) (s : hb_srv) (evs : list hb_ev) : hb_srv :=
  fold_left (fun s e => fst (hb_srv_step T s e)) evs s.

Fixpoint hb_srv_outs (T : Z) (s : hb_srv) (evs : list hb_ev) : list hb_out :=
  match evs with
  | [] => []
  | e :: r => let '(s', o) := hb_srv_step T s e in o :: hb_srv_outs T s' r
  end.

(* ---------------- client ---------------- *)
Inductive hc_ev :=
| CTick (now : Z)          (* one run of the client's watchdog callback *)
| CPong (now : Z)          (* Pong with empty Error *)
| CPongErr.                (* Pong carrying an error *)

Inductive hc_out := CONone | COClose.

Record hb_cli := { hc_last : Z; hc_closed : bool }.

Definition hb_cli_init (now : Z) : hb_cli := {| hc_last := now; hc_closed := false |}.

(* [I], [T] = Transport.HeartbeatInterval / HeartbeatTimeout *)
Definition hb_cli_step (I T : Z) (s : hb_cli) (e : hc_ev) : hb_cli * hc_out :=
  if hc_closed s then (s, CONone)
  else match e with
       | CTick now =>
           if (I >? 0) && (T >? 0) then
             if now - hc_last s >? T * hb_sec
             then ({| hc_last := hc_last s; hc_closed := true |}, COClose)
             else (s, CONone)
           else (s, CONone)                                   (* the check goroutine is not started *)
       | CPong now => ({| hc_last := now; hc_closed := false |}, CONone)
       | CPongErr => ({| hc_last := hc_last s; hc_closed := true |}, COClose)   (* closeSession *)
       end.

Definition hb_cli_run (I T : Z) (s : hb_cli) (evs : list hc_ev) : hb_cli :=
  fold_left (fun s e => fst (hb_cli_step I T s e)) evs s.

(* ---------------- observation helpers (used by the correspondence) ---------------- *)
(* the time stamp of the first HOClose in a run, None if the session stays open *)
Fixpoint hb_srv_close_time (T : Z) (s : hb_srv) (evs : list hb_ev) : option Z :=
  match evs with
  | [] => None
  | e :: r =>
      let '(s', o) := hb_srv_step T s e in
      match o, e with
      | HOClose, HTick now => Some now
      | _, _ => hb_srv_close_time T s' r
      end
  end.

Fixpoint hb_cli_close_time (I T : Z) (s : hb_cli) (evs : list hc_ev) : option Z :=
  match evs with
  | [] => None
  | e :: r =>
      let '(s', o) := hb_cli_step I T s e in
      match o, e with
      | COClose, CTick now => Some now
      | _, _ => hb_cli_close_time I T s' r
      end
  end.
