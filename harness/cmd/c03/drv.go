package main

import (
	"fmt"
	"os"
	"sort"
	"strings"

	"verifharness/hx"
)

func init() { drivers["udp"] = runUDP }

const caseImports = "From FRP Require Import Corr.C03.\nOpen Scope Z_scope.\n"

const caseTail = "Definition M := Eval vm_compute in mismatches check_case cases.\nPrint M.\n" +
	"Definition NPKT := Eval vm_compute in (count_if is_pkt cases : Z).\nPrint NPKT.\n" +
	"Definition NOVERSIZE := Eval vm_compute in (count_if is_oversize cases : Z).\nPrint NOVERSIZE.\n" +
	"Definition NDECERR := Eval vm_compute in (count_if is_dec_err cases : Z).\nPrint NDECERR.\n" +
	"Definition NFWD := Eval vm_compute in (count_if is_fwd cases : Z).\nPrint NFWD.\n" +
	"Definition NIDLE := Eval vm_compute in (count_if is_idle cases : Z).\nPrint NIDLE.\n" +
	"Definition NFULL := Eval vm_compute in (count_if is_full cases : Z).\nPrint NFULL.\n" +
	"Definition NCAP := Eval vm_compute in (count_if is_cap cases : Z).\nPrint NCAP.\n" +
	"Definition NRACE := Eval vm_compute in (count_if is_race cases : Z).\nPrint NRACE.\n" +
	"Definition NRACELOST := Eval vm_compute in (count_if race_lost cases : Z).\nPrint NRACELOST.\n" +
	"Definition NREPLYLOOP := Eval vm_compute in (count_if is_replyloop cases : Z).\nPrint NREPLYLOOP.\n" +
	"Definition NREFUSED := Eval vm_compute in (sum_Z replyloop_failed_writes cases : Z).\nPrint NREFUSED.\n" +
	"Definition NALPHABET := Eval vm_compute in (count_if is_alphabet cases : Z).\nPrint NALPHABET.\n" +
	"Definition NCFGSIZE := Eval vm_compute in (count_if is_cfgsize cases : Z).\nPrint NCFGSIZE.\n" +
	"Definition NREPLACE := Eval vm_compute in (count_if is_replace_case cases : Z).\nPrint NREPLACE.\n" +
	"Definition NSYS := Eval vm_compute in (count_if is_sys cases : Z).\nPrint NSYS.\n" +
	"Definition NSOCKETS := Eval vm_compute in (sum_Z fwd_sockets cases : Z).\nPrint NSOCKETS.\n"

// runUDP: -extra selects parts ("pure,fwd,full,replyloop,alphabet,cfgsize,sys,idle,race,heartbeat,limit"; default all).  -n scales the pure part;
// the other parts have fixed scenario lists (longer in the thorough tier).
func runUDP(cfg *hx.RunCfg) error {
	hx.Quiet()
	parts := cfg.Extra
	if parts == "" {
		parts = "pure,fwd,full,replyloop,alphabet,cfgsize,sys,idle,race,heartbeat,limit"
	}
	has := func(p string) bool { return strings.Contains(","+parts+",", ","+p+",") }
	g := hx.NewGen(cfg.Seed)
	dist := map[string]int{}
	var fails []failure
	var cases []string

	// the idle-timeout scenario waits for the Forwarder's fixed 30 s read deadline; it runs
	// in the background while the other parts execute
	var idleDone chan []string
	if has("idle") {
		idleDone = make(chan []string, 1)
		go func() { idleDone <- runIdle(cfg, hx.NewGen(cfg.Seed+1000), dist0(), &fails) }()
	}

	type raceOut struct {
		cases []string
		res   raceResult
	}
	var raceDone chan raceOut
	if has("race") {
		raceDone = make(chan raceOut, 1)
		go func() { c, r := runRace(cfg, hx.NewGen(cfg.Seed+2000)); raceDone <- raceOut{c, r} }()
	}

	type hbOut struct {
		cases []string
		fs    []failure
	}
	var hbDone chan hbOut
	if has("heartbeat") {
		hbDone = make(chan hbOut, 1)
		go func() { c, f := runHeartbeat(cfg, hx.NewGen(cfg.Seed+3000)); hbDone <- hbOut{c, f} }()
	}

	var limDone chan hbOut
	if has("limit") {
		limDone = make(chan hbOut, 1)
		go func() { c, f := runLimit(cfg, cfg.Seed+4000); limDone <- hbOut{c, f} }()
	}

	if has("pure") {
		n := cfg.N
		for i := 0; i < n; i++ {
			if i%3 == 2 {
				cases = append(cases, pureDecodeCase(g, i, dist))
			} else {
				cases = append(cases, purePacketCase(g, i-i/3, dist, &fails))
			}
		}
	}
	if has("fwd") {
		cases = append(cases, runFwd(cfg, g, dist, &fails)...)
	}
	if has("full") {
		cases = append(cases, runFull(cfg, g, dist, &fails)...)
		cases = append(cases, capCase(dist, &fails)...)
	}
	if has("replyloop") {
		cases = append(cases, runReplyLoop(cfg, g, dist, &fails)...)
		cases = append(cases, runReplyBig(cfg, dist, &fails)...)
	}
	if has("alphabet") {
		cases = append(cases, runAlphabet(cfg, g, dist, &fails)...)
	}
	if has("cfgsize") {
		cases = append(cases, runCfgSize(cfg, g, dist, &fails)...)
	}
	if has("sys") {
		cases = append(cases, runSys(cfg, g, dist, &fails)...)
	}
	if idleDone != nil {
		cases = append(cases, <-idleDone...)
	}

	if hbDone != nil {
		ho := <-hbDone
		cases = append(cases, ho.cases...)
		for _, f := range ho.fs {
			addFail(&fails, f)
		}
	}
	if limDone != nil {
		lo := <-limDone
		cases = append(cases, lo.cases...)
		for _, f := range lo.fs {
			addFail(&fails, f)
		}
	}
	if raceDone != nil {
		ro := <-raceDone
		cases = append(cases, ro.cases...)
		cfg.St["finding_idle_boundary"] = map[string]any{"key": raceFindingKey, "reproduced": ro.res.Reproduced,
			"gate_seen": ro.res.GateSeen, "what": ro.res.What, "case": ro.res.Case}
		hx.CountBy(dist, fmt.Sprintf("race gate_seen=%v lost=%v", ro.res.GateSeen, ro.res.Reproduced))
	}

	distinct := map[string]bool{}
	nontrivial := 0
	for _, c := range cases {
		if !distinct[c] {
			distinct[c] = true
			if !strings.HasPrefix(c, "CPkt [] ") && !strings.HasPrefix(c, "CDec [] ") {
				nontrivial++
			}
		}
	}
	samples := []string{}
	for i, c := range cases {
		if i%(len(cases)/4+1) == 0 {
			if len(c) > 600 {
				c = c[:600] + "..."
			}
			samples = append(samples, c)
		}
	}
	cfg.St["cases"] = len(cases)
	cfg.St["distinct_nontrivial"] = nontrivial
	cfg.St["samples"] = samples
	cfg.St["distribution"] = dist
	cfg.St["impl_failures"] = fails
	cases = balance(cases)
	cf := &hx.CaseFile{Imports: caseImports, Typ: "case", Cases: cases, Tail: caseTail}
	if err := cf.Write(cfg.Out); err != nil {
		return err
	}
	fmt.Printf("c03 udp: %d cases, %d impl failures\n", len(cases), len(fails))
	return nil
}

func dist0() map[string]int { return map[string]int{} }

// balance reorders the cases so that the consecutive chunks CaseFile.Write cuts (VERIF_SHARDS of them) carry about the
// same amount of text: Coq's time per shard is dominated by parsing the hex literals.
func balance(cases []string) []string {
	shards := 1
	if v := os.Getenv("VERIF_SHARDS"); v != "" {
		fmt.Sscan(v, &shards)
	}
	if shards <= 1 || len(cases) <= shards {
		return cases
	}
	idx := make([]int, len(cases))
	for i := range idx {
		idx[i] = i
	}
	sort.SliceStable(idx, func(a, b int) bool { return len(cases[idx[a]]) > len(cases[idx[b]]) })
	per := (len(cases) + shards - 1) / shards
	bins := make([][]string, shards)
	weight := make([]int, shards)
	for _, i := range idx {
		best := -1
		for b := 0; b < shards; b++ {
			if len(bins[b]) < per && (best < 0 || weight[b] < weight[best]) {
				best = b
			}
		}
		bins[best] = append(bins[best], cases[i])
		weight[best] += len(cases[i])
	}
	// every bin but the last must be full, otherwise the chunks would not coincide with the bins
	var out []string
	for b := 0; b < shards; b++ {
		for len(bins[b]) < per && b+1 < shards {
			moved := false
			for c := shards - 1; c > b; c-- {
				if n := len(bins[c]); n > 0 {
					bins[b] = append(bins[b], bins[c][n-1])
					bins[c] = bins[c][:n-1]
					moved = true
					break
				}
			}
			if !moved {
				break
			}
		}
		out = append(out, bins[b]...)
	}
	return out
}
