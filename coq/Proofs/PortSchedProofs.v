(* C09 — all schedules of the schedule model (Model/PortSched.v): exclusivity and accounting. *)
From Coq Require Import Lia.
From FRP Require Import Model.Ports Model.PortSrv Model.PortSched Proofs.PortsProofs Proofs.PortSrvProofs.
Open Scope Z_scope.

Definition holds (f : spc -> option Z) (ths : list (Z * sthread)) (p : Z) : Prop :=
  exists t th, aget t ths = Some th /\ f (st_pc th) = Some p.

Record SI (A : list Z) (s : sstate) : Prop := {
  si_pinv : PInv A (ss_pm s);
  si_nodup : NoDup (ss_bound s);
  si_excl : forall t t' th th' p, aget t (ss_ths s) = Some th -> aget t' (ss_ths s) = Some th' ->
              pc_held (st_pc th) = Some p -> pc_held (st_pc th') = Some p -> t = t';
  si_used : forall p, used_by (ss_pm s) p <-> holds pc_held (ss_ths s) p;
  si_bound : forall p, In p (ss_bound s) <-> holds pc_bound (ss_ths s) p
}.

Lemma bound_held : forall pc p, pc_bound pc = Some p -> pc_held pc = Some p.
Proof. destruct pc; simpl; intros q H; congruence. Qed.

(* replacing thread t: who holds p afterwards *)
Lemma holds_aset : forall f ths t th th' p,
  aget t ths = Some th ->
  (holds f (aset t th' ths) p <->
   f (st_pc th') = Some p \/ exists t0 th0, t0 <> t /\ aget t0 ths = Some th0 /\ f (st_pc th0) = Some p).
Proof.
  intros f ths t th th' p Ht. unfold holds. split.
  - intros [t0 [th0 [H1 H2]]]. destruct (Z.eq_dec t0 t) as [->|N].
    + rewrite aget_aset_eq in H1. inversion H1; subst. auto.
    + rewrite aget_aset_neq in H1 by assumption. right. eauto.
  - intros [H|[t0 [th0 [N [H1 H2]]]]].
    + exists t, th'. rewrite aget_aset_eq. auto.
    + exists t0, th0. rewrite aget_aset_neq by assumption. auto.
Qed.

Lemma holds_split : forall f ths t th p,
  aget t ths = Some th ->
  (holds f ths p <->
   f (st_pc th) = Some p \/ exists t0 th0, t0 <> t /\ aget t0 ths = Some th0 /\ f (st_pc th0) = Some p).
Proof.
  intros f ths t th p Ht. unfold holds. split.
  - intros [t0 [th0 [H1 H2]]]. destruct (Z.eq_dec t0 t) as [->|N].
    + rewrite Ht in H1. inversion H1; subst. auto.
    + right. eauto.
  - intros [H|[t0 [th0 [N [H1 H2]]]]]; eauto.
Qed.

Lemma th_set_pc : forall th pc res, st_pc (th_set th pc res) = pc.
Proof. reflexivity. Qed.

(* exclusivity of held ports after replacing thread t by one holding h' *)
Lemma excl_aset : forall ths t th th',
  aget t ths = Some th ->
  (forall t1 t2 a b p, aget t1 ths = Some a -> aget t2 ths = Some b ->
      pc_held (st_pc a) = Some p -> pc_held (st_pc b) = Some p -> t1 = t2) ->
  (forall p, pc_held (st_pc th') = Some p ->
      pc_held (st_pc th) = Some p \/ ~ holds pc_held ths p) ->
  forall t1 t2 a b p, aget t1 (aset t th' ths) = Some a -> aget t2 (aset t th' ths) = Some b ->
      pc_held (st_pc a) = Some p -> pc_held (st_pc b) = Some p -> t1 = t2.
Proof.
  intros ths t th th' Ht EX New t1 t2 a b p H1 H2 P1 P2.
  destruct (Z.eq_dec t1 t) as [E1|N1]; destruct (Z.eq_dec t2 t) as [E2|N2]; try congruence.
  - subst t1. rewrite aget_aset_eq in H1. inversion H1; subst. rewrite aget_aset_neq in H2 by assumption.
    destruct (New p P1) as [X|X].
    + symmetry. eapply EX; eauto.
    + exfalso. apply X. exists t2, b. auto.
  - subst t2. rewrite aget_aset_eq in H2. inversion H2; subst. rewrite aget_aset_neq in H1 by assumption.
    destruct (New p P2) as [X|X].
    + eapply EX; eauto.
    + exfalso. apply X. exists t1, a. auto.
  - rewrite aget_aset_neq in H1 by assumption. rewrite aget_aset_neq in H2 by assumption. eapply EX; eauto.
Qed.

Ltac ssimpl := cbn [ss_pm ss_bound ss_squat ss_names ss_ths ss_with th_set st_pc st_name st_port st_choice st_close st_res].

(* (A) a step that changes neither what the thread holds nor what it has bound *)
Lemma si_same : forall A s t th th' names,
  SI A s -> aget t (ss_ths s) = Some th ->
  pc_held (st_pc th') = pc_held (st_pc th) -> pc_bound (st_pc th') = pc_bound (st_pc th) ->
  SI A (ss_with s (ss_pm s) (ss_bound s) names t th').
Proof.
  intros A s t th th' names [P N X U B] Ht Eh Eb. constructor; ssimpl; try assumption.
  - eapply excl_aset; eauto. intros p H. left. congruence.
  - intros p. rewrite (U p), (holds_aset _ _ _ _ _ _ Ht), (holds_split _ _ _ _ _ Ht), Eh. tauto.
  - intros p. rewrite (B p), (holds_aset _ _ _ _ _ _ Ht), (holds_split _ _ _ _ _ Ht), Eb. tauto.
Qed.

(* (B) Acquire succeeded: the thread now holds rp, which nobody held *)
Lemma si_acquire : forall A s t th th' m' rp,
  SI A s -> aget t (ss_ths s) = Some th ->
  pc_held (st_pc th) = None -> pc_bound (st_pc th) = None ->
  pc_held (st_pc th') = Some rp -> pc_bound (st_pc th') = None ->
  PInv A m' -> (forall q, used_by m' q <-> q = rp \/ used_by (ss_pm s) q) -> ~ used_by (ss_pm s) rp ->
  SI A (ss_with s m' (ss_bound s) (ss_names s) t th').
Proof.
  intros A s t th th' m' rp [P N X U B] Ht H0 B0 H1 B1 P' Um Nu. constructor; ssimpl; try assumption.
  - eapply excl_aset; eauto. intros p H. right. rewrite H1 in H. inversion H; subst. rewrite <- (U p). assumption.
  - intros p. rewrite (Um p), (U p), (holds_aset _ _ _ _ _ _ Ht), (holds_split _ _ _ _ _ Ht), H0, H1.
    split; [intros [->|[E|R]]; [auto|discriminate|auto]|intros [E|R]; [inversion E; auto|auto]].
  - intros p. rewrite (B p), (holds_aset _ _ _ _ _ _ Ht), (holds_split _ _ _ _ _ Ht), B0, B1. tauto.
Qed.

(* (C) Release of the port the thread holds (and has no listener on) *)
Lemma si_release : forall A s t th th' rp,
  SI A s -> aget t (ss_ths s) = Some th ->
  pc_held (st_pc th) = Some rp -> pc_bound (st_pc th) = None ->
  pc_held (st_pc th') = None -> pc_bound (st_pc th') = None ->
  SI A (ss_with s (pm_release (ss_pm s) rp) (ss_bound s) (ss_names s) t th').
Proof.
  intros A s t th th' rp [P N X U B] Ht H0 B0 H1 B1. constructor; ssimpl; try assumption.
  - apply pinv_release. assumption.
  - eapply excl_aset; eauto. intros p H. rewrite H1 in H. discriminate.
  - intros p. rewrite used_by_release, (U p), (holds_aset _ _ _ _ _ _ Ht), (holds_split _ _ _ _ _ Ht), H0, H1.
    split.
    + intros [[E|R] Np]; [inversion E; congruence|auto].
    + intros [E|[t0 [th0 [Nt [A0 Hp]]]]]; [discriminate|]. split; [right; eauto|].
      intros ->. apply Nt. eapply X; eauto.
  - intros p. rewrite (B p), (holds_aset _ _ _ _ _ _ Ht), (holds_split _ _ _ _ _ Ht), B0, B1. tauto.
Qed.

(* (D) listen succeeded on the held port *)
Lemma si_bind : forall A s t th th' rp names,
  SI A s -> aget t (ss_ths s) = Some th ->
  pc_held (st_pc th) = Some rp -> pc_bound (st_pc th) = None ->
  pc_held (st_pc th') = Some rp -> pc_bound (st_pc th') = Some rp ->
  ~ In rp (ss_bound s) ->
  SI A (ss_with s (ss_pm s) (rp :: ss_bound s) names t th').
Proof.
  intros A s t th th' rp names [P N X U B] Ht H0 B0 H1 B1 Nb. constructor; ssimpl; try assumption.
  - constructor; assumption.
  - eapply excl_aset; eauto. intros p H. left. congruence.
  - intros p. rewrite (U p), (holds_aset _ _ _ _ _ _ Ht), (holds_split _ _ _ _ _ Ht), H0, H1. tauto.
  - intros p. simpl. rewrite (B p), (holds_aset _ _ _ _ _ _ Ht), (holds_split _ _ _ _ _ Ht), B0, B1.
    split; [intros [->|[E|R]]; [auto|discriminate|auto]|intros [E|R]; [inversion E; auto|auto]].
Qed.

(* (E) the thread closes its listener *)
Lemma si_unbind : forall A s t th th' rp,
  SI A s -> aget t (ss_ths s) = Some th ->
  pc_held (st_pc th) = Some rp -> pc_bound (st_pc th) = Some rp ->
  pc_held (st_pc th') = Some rp -> pc_bound (st_pc th') = None ->
  SI A (ss_with s (ss_pm s) (zrem rp (ss_bound s)) (ss_names s) t th').
Proof.
  intros A s t th th' rp [P N X U B] Ht H0 B0 H1 B1. constructor; ssimpl; try assumption.
  - apply zrem_NoDup. assumption.
  - eapply excl_aset; eauto. intros p H. left. congruence.
  - intros p. rewrite (U p), (holds_aset _ _ _ _ _ _ Ht), (holds_split _ _ _ _ _ Ht), H0, H1. tauto.
  - intros p. rewrite zrem_In, (B p), (holds_aset _ _ _ _ _ _ Ht), (holds_split _ _ _ _ _ Ht), B0, B1.
    split.
    + intros [[E|R] Np]; [inversion E; congruence|auto].
    + intros [E|[t0 [th0 [Nt [A0 Hp]]]]]; [discriminate|]. split; [right; eauto|].
      intros ->. apply Nt. eapply X; eauto using bound_held.
Qed.

Section Sched.
Variable A : list Z.
Hypothesis no0 : ~ In 0 A.

Lemma si_th_step : forall s t s', SI A s -> th_step s t = Some s' -> SI A s'.
Proof.
  intros s t s' HI H. unfold th_step in H.
  destruct (aget t (ss_ths s)) as [th|] eqn:Ht; [|inversion H; subst; assumption].
  destruct (st_pc th) eqn:EP.
  - (* PExist *)
    destruct (nmem (st_name th) (ss_names s)); inversion H; subst;
      apply (si_same A s t th); try assumption; rewrite EP; reflexivity.
  - (* PAcquire *)
    destruct (pm_acquire (probe_of (ss_busy s)) (st_choice th) (ss_pm s) (st_name th) (st_port th)) as [[m' [rp|e]]|] eqn:E;
      [| |discriminate].
    + inversion H; subst.
      destruct (acquire_sound _ _ _ _ _ _ _ _ (si_pinv _ _ HI) E) as (_ & _ & Nu & _ & _ & Em & _).
      apply (si_acquire A s t th _ m' rp); try assumption; try (rewrite EP; reflexivity); try reflexivity.
      * eapply pinv_acquire; [apply (si_pinv _ _ HI)|exact E].
      * intros q. rewrite Em. apply used_by_take.
    + inversion H; subst.
      assert (m' = ss_pm s).
      { eapply acquire_error_unchanged_no0; [|exact E]. eapply pinv_no0; [apply (si_pinv _ _ HI)|].
        exact no0. }
      subst m'. apply (si_same A s t th); try assumption; rewrite EP; reflexivity.
  - (* PListen *)
    destruct (zmem p (ss_busy s)) eqn:EB; inversion H; subst.
    + apply (si_same A s t th); try assumption; rewrite EP; reflexivity.
    + apply (si_bind A s t th _ p); try assumption; try (rewrite EP; reflexivity); try reflexivity.
      apply zmem_false in EB. intros X. apply EB. apply in_or_app. left. assumption.
  - inversion H; subst. apply (si_release A s t th _ p); try assumption; try (rewrite EP; reflexivity); reflexivity.
  - destruct (nmem (st_name th) (ss_names s)); inversion H; subst;
      apply (si_same A s t th); try assumption; rewrite EP; reflexivity.
  - inversion H; subst. apply (si_unbind A s t th _ p); try assumption; try (rewrite EP; reflexivity); reflexivity.
  - inversion H; subst. apply (si_release A s t th _ p); try assumption; try (rewrite EP; reflexivity); reflexivity.
  - destruct (st_close th); inversion H; subst; [|assumption].
    apply (si_unbind A s t th _ p); try assumption; try (rewrite EP; reflexivity); reflexivity.
  - inversion H; subst. apply (si_release A s t th _ p); try assumption; try (rewrite EP; reflexivity); reflexivity.
  - inversion H; subst. apply (si_same A s t th); try assumption; rewrite EP; reflexivity.
  - inversion H; subst. assumption.
Qed.

Lemma si_step : forall s e s', SI A s -> ss_step s e = Some s' -> SI A s'.
Proof.
  intros s e s' HI H. destruct e as [t|p|p]; cbn [ss_step] in H.
  - eapply si_th_step; eauto.
  - destruct (zmem p (ss_busy s)); inversion H; subst; [assumption|].
    destruct HI as [P N X U B]. constructor; assumption.
  - inversion H; subst. destruct HI as [P N X U B]. constructor; assumption.
Qed.

Lemma si_run : forall sched s s', SI A s -> ss_run sched s = Some s' -> SI A s'.
Proof.
  induction sched as [|e r IH]; simpl; intros s s' HI H; [inversion H; subst; assumption|].
  destruct (ss_step s e) as [s1|] eqn:E; [|discriminate].
  eapply IH; [|eassumption]. eapply si_step; eauto.
Qed.
End Sched.

Definition fresh_threads (ths : list (Z * sthread)) : Prop :=
  forall t th, aget t ths = Some th -> st_pc th = PExist.

Lemma si_init : forall ranges ths, fresh_threads ths -> SI (pm_allowed ranges) (ss_init ranges ths).
Proof.
  intros ranges ths F. constructor; unfold ss_init; cbn [ss_pm ss_bound ss_ths].
  - apply pinv_new.
  - constructor.
  - intros t t' th th' p H1 H2 P1. rewrite (F _ _ H1) in P1. discriminate.
  - intros p. unfold used_by, holds. simpl. split; [congruence|].
    intros [t [th [H1 H2]]]. rewrite (F _ _ H1) in H2. discriminate.
  - intros p. unfold holds. simpl. split; [tauto|].
    intros [t [th [H1 H2]]]. rewrite (F _ _ H1) in H2. discriminate.
Qed.

Lemma aget_in : forall (ths : list (Z * sthread)) t th, aget t ths = Some th -> In (t, th) ths.
Proof.
  induction ths as [|[q v] r IH]; simpl; intros t th H; [discriminate|].
  destruct (Z.eqb_spec t q) as [->|N]; [inversion H; auto|auto].
Qed.

(* for every allowPorts, every set of registration/close threads, every schedule (thread steps and
   squatter activity in any order), every oracle value:
   - the manager's partition invariant holds,
   - no port is listened on twice, every port the server listens on is allowed and recorded as used
     (the accounting never says "free" while the server is bound),
   - no two threads hold the same port,
   - when no thread is between two steps of a registration or a close, the used table is exactly what is bound *)
Theorem sched_safe : forall ranges ths sched s,
  fresh_threads ths -> ss_run sched (ss_init ranges ths) = Some s ->
  PInv (pm_allowed ranges) (ss_pm s) /\
  NoDup (ss_bound s) /\
  (forall p, In p (ss_bound s) -> used_by (ss_pm s) p /\ In p (pm_allowed ranges)) /\
  (forall t t' th th' p, aget t (ss_ths s) = Some th -> aget t' (ss_ths s) = Some th' ->
      pc_held (st_pc th) = Some p -> pc_held (st_pc th') = Some p -> t = t') /\
  (ss_quiescent s = true -> forall p, used_by (ss_pm s) p <-> In p (ss_bound s)).
Proof.
  intros ranges ths sched s F H.
  pose proof (si_run _ (allowed_no0 ranges) _ _ _ (si_init ranges ths F) H) as [P N X U B].
  split; [assumption|]. split; [assumption|]. split; [|split; [assumption|]].
  - intros p Hp. assert (Up : used_by (ss_pm s) p).
    { apply U. apply B in Hp. destruct Hp as [t [th [H1 H2]]]. exists t, th. split; [assumption|].
      apply bound_held. assumption. }
    split; [assumption|]. apply (pi_cover _ _ P). right. assumption.
  - intros Q p. rewrite (U p), (B p). unfold ss_quiescent in Q. rewrite forallb_forall in Q.
    assert (S : forall t th, aget t (ss_ths s) = Some th -> pc_held (st_pc th) = pc_bound (st_pc th)).
    { intros t th Ht. specialize (Q _ (aget_in _ _ _ Ht)). simpl in Q. unfold pc_settled in Q.
      destruct (pc_held (st_pc th)) as [a|], (pc_bound (st_pc th)) as [b|]; try discriminate; [|reflexivity].
      apply Z.eqb_eq in Q. congruence. }
    unfold holds. split; intros [t [th [H1 H2]]]; exists t, th; (split; [assumption|]);
      [rewrite <- (S _ _ H1)|rewrite (S _ _ H1)]; assumption.
Qed.

(* the window Acquire -> Listen: while a thread holds p and has not bound it yet, nobody else is given p,
   whatever they ask for and whatever the OS probe says *)
Theorem held_port_not_granted : forall ranges ths sched s t th p t' th' s',
  fresh_threads ths -> ss_run sched (ss_init ranges ths) = Some s ->
  aget t (ss_ths s) = Some th -> pc_held (st_pc th) = Some p ->
  t' <> t -> aget t' (ss_ths s) = Some th' -> st_pc th' = PAcquire ->
  th_step s t' = Some s' ->
  forall th2, aget t' (ss_ths s') = Some th2 -> pc_held (st_pc th2) <> Some p.
Proof.
  intros ranges ths sched s t th p t' th' s' F HR Ht Hp Nt Ht' Hpc HS th2 H2 X.
  pose proof (si_run _ (allowed_no0 ranges) _ _ _ (si_init ranges ths F) HR) as HI.
  pose proof (si_th_step _ (allowed_no0 ranges) _ _ _ HI HS) as [P N EX U B].
  assert (Hk : aget t (ss_ths s') = Some th).
  { unfold th_step in HS. rewrite Ht', Hpc in HS.
    destruct (pm_acquire (probe_of (ss_busy s)) (st_choice th') (ss_pm s) (st_name th') (st_port th')) as [[m' [rp|e]]|];
      [| |discriminate]; inversion HS; subst; cbn [ss_ths ss_with]; rewrite aget_aset_neq by auto; assumption. }
  apply Nt. symmetry. eapply EX; eauto.
Qed.
