package main

// Driver "limit" (C01): the real pkg/util/limit Reader/Writer and the real x/time/rate Limiter
// against Model/Limit.v and Model/Bucket.v.
//   CLimW   Writer.Write through a recording sink: returned count and the exact sequence of inner writes
//   CLimR   Reader.Read over a scripted source: the exact slices returned, EOF
//   CBucket Limiter.ReserveN at scripted times: act times compared with the model (tolerance tol ns: float64)
//   CRate   real clock: (time, n) of every inner write / returned read, checked against bucket_bound with slack

import (
	"fmt"
	"io"
	"sort"
	"strings"
	"sync"
	"time"

	"golang.org/x/time/rate"

	"github.com/fatedier/frp/pkg/config/types"
	"github.com/fatedier/frp/pkg/util/limit"
	"verifharness/hx"
)

func init() { drivers["limit"] = runLimit }

type recSink struct {
	mu     sync.Mutex
	chunks [][]byte
	times  []time.Time
}

func (s *recSink) Write(p []byte) (int, error) {
	s.mu.Lock()
	defer s.mu.Unlock()
	s.chunks = append(s.chunks, append([]byte(nil), p...))
	s.times = append(s.times, time.Now())
	return len(p), nil
}

type scriptSrc struct {
	data   []byte
	offers []int
	i      int
}

func (s *scriptSrc) Read(p []byte) (int, error) {
	if len(p) == 0 {
		s.i++
		return 0, nil
	}
	if len(s.data) == 0 {
		return 0, io.EOF
	}
	off := 1
	if s.i < len(s.offers) {
		off = s.offers[s.i]
	}
	s.i++
	n := len(p)
	if off < n {
		n = off
	}
	if len(s.data) < n {
		n = len(s.data)
	}
	copy(p, s.data[:n])
	s.data = s.data[n:]
	return n, nil
}

func chunkList(cs [][]byte) string {
	var items []string
	for _, c := range cs {
		items = append(items, hx.Hx(c))
	}
	return hx.List(items)
}

func runLimit(cfg *hx.RunCfg) error {
	g := hx.NewGen(cfg.Seed)
	var cases []string
	dist := map[string]int{}
	distinct := map[string]bool{}
	var fails []map[string]string
	add := func(kind, c string, nontrivial bool) {
		cases = append(cases, c)
		dist[kind]++
		if nontrivial {
			distinct[c] = true
		}
	}
	nW := cfg.N * 4 / 10
	nR := cfg.N * 3 / 10
	nB := cfg.N - nW - nR
	for i := 0; i < nW; i++ {
		b := 1 + g.Intn(40)
		if g.Chance(0.15) {
			b = 1 + g.Intn(3)
		}
		n := g.Intn(200)
		switch g.Intn(8) {
		case 0:
			n = 0
		case 1:
			n = b
		case 2:
			n = b + 1
		case 3:
			n = 3*b - 1 + g.Intn(3)
		}
		p := g.Bytes(n)
		if g.Chance(0.2) {
			for j := range p {
				p[j] = 0
			}
		}
		sink := &recSink{}
		w := limit.NewWriter(sink, rate.NewLimiter(rate.Limit(1e12), b))
		got, err := w.Write(p)
		if err != nil {
			fails = append(fails, map[string]string{"key": "limit-write-error", "what": "limit.Writer.Write returned an error: " + err.Error(), "case": fmt.Sprintf("b=%d len=%d", b, n)})
		}
		add("write", fmt.Sprintf("CLimW %d %s %d %s", b, hx.Hx(p), got, chunkList(sink.chunks)), n > 0)
	}
	for i := 0; i < nR; i++ {
		b := 1 + g.Intn(30)
		s := g.Bytes(g.Intn(150))
		src := &scriptSrc{data: append([]byte(nil), s...)}
		r := limit.NewReader(src, rate.NewLimiter(rate.Limit(1e12), b))
		var reads []string
		var outs [][]byte
		eof := false
		k := 1 + g.Intn(12)
		for j := 0; j < k; j++ {
			plen := g.Intn(60)
			if g.Chance(0.1) {
				plen = 0
			}
			off := 1 + g.Intn(50)
			src.offers = append(src.offers, off)
			reads = append(reads, pairZ(int64(plen), int64(off)))
			buf := make([]byte, plen)
			n, err := r.Read(buf)
			if err == io.EOF {
				eof = true
				break
			}
			if err != nil {
				fails = append(fails, map[string]string{"key": "limit-read-error", "what": "limit.Reader.Read returned an error: " + err.Error(), "case": fmt.Sprintf("b=%d", b)})
				break
			}
			outs = append(outs, append([]byte(nil), buf[:n]...))
		}
		add("read", fmt.Sprintf("CLimR %d %s %s %s %s", b, hx.Hx(s), hx.List(reads), chunkList(outs), hx.Bool(eof)), len(s) > 0)
	}
	t0 := time.Unix(1_700_000_000, 0)
	for i := 0; i < nB; i++ {
		r := []int64{1000, 65536, 1000000, 12345, 262144, 7}[g.Intn(6)]
		b := r
		if g.Chance(0.4) {
			b = 1 + int64(g.Intn(int(r)))
		}
		lim := rate.NewLimiter(rate.Limit(float64(r)), int(b))
		var reqs, acts []string
		t := int64(0)
		k := 1 + g.Intn(14)
		for j := 0; j < k; j++ {
			switch g.Intn(4) {
			case 0: // same instant
			case 1:
				t += int64(g.Intn(1000))
			case 2:
				t += int64(g.Intn(200_000_000))
			default:
				t += int64(g.Intn(3_000_000_000))
			}
			n := int64(g.Intn(int(b) + 1))
			if g.Chance(0.3) {
				n = b
			}
			last := j == k-1
			if last && g.Chance(0.1) {
				n = b + 1 + int64(g.Intn(5))
			}
			at := t0.Add(time.Duration(t))
			res := lim.ReserveN(at, int(n))
			reqs = append(reqs, pairZ(t, n))
			if !res.OK() {
				acts = append(acts, hx.Z(-1))
			} else {
				acts = append(acts, hx.Z(t+int64(res.DelayFrom(at))))
			}
		}
		add("bucket", fmt.Sprintf("CBucket %d %d %s %s 2000", r, b, hx.List(reqs), hx.List(acts)), k > 1)
	}
	// the limit as configured: string -> BandwidthQuantity
	bwStrings := []string{"", " ", "1MB", "0.5MB", "0.9MB", "1.5KB", "0.5KB", "0.001MB", "0.0001KB", "512KB", " 256KB ", "2.MB", ".5MB", "10KB", "1kb", "MB", "1GB", "12", "0.125MB", "1.0MB", "100.25KB", "0KB", "0.0MB", "3.999KB"}
	for i := 0; i < len(bwStrings)+cfg.N/10; i++ {
		var str string
		if i < len(bwStrings) {
			str = bwStrings[i]
		} else {
			ip, fr := g.Intn(3000), ""
			if g.Chance(0.5) {
				ip = 0
			}
			if g.Chance(0.8) {
				fr = "."
				for k := 1 + g.Intn(3); k > 0; k-- {
					fr += fmt.Sprint(g.Intn(10))
				}
			}
			str = fmt.Sprint(ip) + fr + []string{"MB", "KB"}[g.Intn(2)]
		}
		q, err := types.NewBandwidthQuantity(str)
		add("bandwidth", fmt.Sprintf("CBw %s %s %d", hx.HxS(str), hx.Bool(err == nil), q.Bytes()), str != "")
	}
	// legacy ini vs toml through the real loader
	iniFails, iniDone := legacyIniCompare(g, 40)
	fails = append(fails, iniFails...)
	cfg.St["legacy_ini_configs_compared"] = iniDone
	if iniDone == 0 {
		fails = append(fails, map[string]string{"key": "legacy-ini:none", "what": "no legacy ini / toml pair could be loaded and compared", "case": ""})
	}
	// real clock
	nrate := 3
	if cfg.Tier == "thorough" {
		nrate = 12
	}
	for i := 0; i < nrate; i++ {
		for attempt := 0; ; attempt++ {
			r := int64(1<<20) * int64(1+g.Intn(3))
			b := int64(8192 * (1 + g.Intn(8)))
			total := int(b) + int(r)/8 + g.Intn(int(r)/16)
			lim := rate.NewLimiter(rate.Limit(float64(r)), int(b))
			sink := &recSink{}
			w := limit.NewWriter(sink, lim)
			type ev struct {
				t time.Time
				n int
			}
			var evs []ev
			var mu sync.Mutex
			var wg sync.WaitGroup
			start := time.Now()
			wg.Add(2)
			go func() { // writer direction
				defer wg.Done()
				p := g.Bytes(total / 2)
				for len(p) > 0 {
					c := 20000
					if c > len(p) {
						c = len(p)
					}
					_, _ = w.Write(p[:c])
					p = p[c:]
				}
			}()
			go func() { // reader direction shares the bucket
				defer wg.Done()
				src := &scriptSrc{data: make([]byte, total/2)}
				rd := limit.NewReader(src, lim)
				buf := make([]byte, 16384)
				for {
					src.offers = append(src.offers, 16384)
					n, err := rd.Read(buf)
					if err != nil {
						return
					}
					mu.Lock()
					evs = append(evs, ev{time.Now(), n})
					mu.Unlock()
				}
			}()
			wg.Wait()
			sink.mu.Lock()
			for j, c := range sink.chunks {
				evs = append(evs, ev{sink.times[j], len(c)})
			}
			sink.mu.Unlock()
			sort.Slice(evs, func(a, b int) bool { return evs[a].t.Before(evs[b].t) })
			var items []string
			for _, e := range evs {
				items = append(items, pairZ(int64(e.t.Sub(start)), int64(e.n)))
			}
			slack := r / 100 // 10 ms worth of bytes: scheduling delay between the act time and our timestamp
			// timestamps are taken after the act time; on a loaded machine a descheduled goroutine shifts them.  A trace
			// that misses the bound is measured again (runtime residue: reported only if it reproduces three times)
			pts := make([][2]int64, len(evs))
			for k, e := range evs {
				pts[k] = [2]int64{int64(e.t.Sub(start)), int64(e.n)}
			}
			if attempt < 2 && !rateBoundHolds(r, b, slack, pts) {
				dist["rate trace re-measured"]++
				continue
			}
			add("rate", fmt.Sprintf("CRate %d %d %s %d", r, b, hx.List(items), slack), true)
			break
		}
	}
	cf := &hx.CaseFile{Imports: imports, Typ: "case", Cases: cases,
		Tail: "Definition M := Eval vm_compute in mismatches check_case cases.\nPrint M.\n" +
			"Definition NSPLIT := Eval vm_compute in count_if is_split cases.\nPrint NSPLIT.\n" +
			"Definition NWAITING := Eval vm_compute in count_if is_waiting cases.\nPrint NWAITING.\n" +
			"Definition NFRACTION := Eval vm_compute in count_if is_fraction cases.\nPrint NFRACTION.\n"}
	if err := cf.Write(cfg.Out); err != nil {
		return err
	}
	cfg.St["cases"] = len(cases)
	cfg.St["distinct_nontrivial"] = len(distinct)
	cfg.St["distribution"] = dist
	var samples []string
	for i := 0; i < len(cases) && len(samples) < 3; i += len(cases)/3 + 1 {
		s := cases[i]
		if len(s) > 300 {
			s = s[:300] + "..."
		}
		samples = append(samples, strings.TrimSpace(s))
	}
	cfg.St["samples"] = samples
	cfg.St["impl_failures"] = fails
	return nil
}

// rateBoundHolds mirrors Corr.C01.bound_all: for every j <= i the bytes from event j to event i are at most
// burst + slack + rate * (t_i - t_j) (+ the nanosecond truncation term).
func rateBoundHolds(rate, burst, slack int64, evs [][2]int64) bool {
	const G = 1000000000
	for j := range evs {
		acc := int64(0)
		for i := j; i < len(evs); i++ {
			acc += evs[i][1]
			if G*acc > G*(burst+slack)+rate*(evs[i][0]-evs[j][0])+rate {
				return false
			}
		}
	}
	return true
}
