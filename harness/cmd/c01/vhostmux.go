package main

// Driver "vhostmux" (C01): the real vhost.NewHTTPSMuxer and tcpmux.NewHTTPConnectTCPMuxer, built through
// their public constructors with a SHORT sniffing timeout (frps passes the constant 30 s), a user that
// sends its ClientHello / CONNECT request in arbitrary segments, and a routed connection that is used
// before and AFTER the timeout has elapsed: every byte the user sent must come out of the routed
// connection in order (sniffed prefix replayed; CONNECT request dropped without passthrough), compared
// with Model.Bridge's SharedConn model, and writes towards the user must keep working however old the
// connection is (the sniffing deadline must be cleared in both directions).

import (
	"bytes"
	"context"
	"fmt"
	"io"
	"math/rand"
	"net"
	"sync"
	"time"

	"github.com/fatedier/frp/pkg/util/tcpmux"
	"github.com/fatedier/frp/pkg/util/vhost"
	"verifharness/hx"
)

func init() { drivers["vhostmux"] = runVhostMux }

const muxTimeout = 300 * time.Millisecond

// delayListener holds back the write that carries the CONNECT answer (the muxer goroutine being descheduled, or
// blocked in the kernel, right before its write); nothing else is touched.
type delayListener struct {
	net.Listener
	d time.Duration
}

type delayConn struct {
	net.Conn
	d time.Duration
}

func (l delayListener) Accept() (net.Conn, error) {
	c, err := l.Listener.Accept()
	if err != nil {
		return nil, err
	}
	return delayConn{c, l.d}, nil
}

func (c delayConn) Write(p []byte) (int, error) {
	if bytes.HasPrefix(p, []byte("HTTP/1.")) {
		time.Sleep(c.d)
	}
	return c.Conn.Write(p)
}

// runFirstCase: tcpmux without passthrough, backend speaks first.
func runFirstCase(addr string, delay time.Duration, down []byte, seed int64) (string, string) {
	ln, err := net.Listen("tcp", net.JoinHostPort(addr, "0"))
	if err != nil {
		return "", err.Error()
	}
	defer ln.Close()
	domain := fmt.Sprintf("f%d.example.test", seed%1000)
	m, err := tcpmux.NewHTTPConnectTCPMuxer(delayListener{ln, delay}, false, 2*time.Second)
	if err != nil {
		return "", err.Error()
	}
	l, err := m.Listen(context.Background(), &vhost.RouteConfig{Domain: domain})
	if err != nil {
		return "", err.Error()
	}
	go func() { // the proxy goroutine: owns the connection from the hand-off on and relays the backend's greeting
		c, err := l.Accept()
		if err != nil {
			return
		}
		_, _ = c.Write(down)
		time.Sleep(600 * time.Millisecond)
		c.Close()
	}()
	u, err := net.DialTimeout("tcp", ln.Addr().String(), 2*time.Second)
	if err != nil {
		return "", err.Error()
	}
	defer u.Close()
	if _, err := fmt.Fprintf(u, "CONNECT %s:80 HTTP/1.1\r\nHost: %s:80\r\n\r\n", domain, domain); err != nil {
		return "", err.Error()
	}
	_ = u.SetReadDeadline(time.Now().Add(3 * time.Second))
	got, _ := io.ReadAll(u)
	return fmt.Sprintf("CMuxFirst %d %s %s", delay.Milliseconds(), hx.Hx(down), hx.Hx(got)), ""
}

type muxCase struct {
	kind    int // 0 https, 1 tcpmux, 2 tcpmux passthrough
	ageMs   int
	payload []byte
	down    []byte
	seed    int64
}

func runMuxCase(addr string, mc muxCase) (string, string) {
	r := rand.New(rand.NewSource(mc.seed))
	ln, err := net.Listen("tcp", net.JoinHostPort(addr, "0"))
	if err != nil {
		return "", err.Error()
	}
	defer ln.Close()
	domain := fmt.Sprintf("m%d.example.test", mc.seed%1000)
	var l *vhost.Listener
	switch mc.kind {
	case 0:
		m, err := vhost.NewHTTPSMuxer(ln, muxTimeout)
		if err != nil {
			return "", err.Error()
		}
		l, err = m.Listen(context.Background(), &vhost.RouteConfig{Domain: domain})
		if err != nil {
			return "", err.Error()
		}
	default:
		m, err := tcpmux.NewHTTPConnectTCPMuxer(ln, mc.kind == 2, muxTimeout)
		if err != nil {
			return "", err.Error()
		}
		l, err = m.Listen(context.Background(), &vhost.RouteConfig{Domain: domain})
		if err != nil {
			return "", err.Error()
		}
	}
	var routed net.Conn
	var accErr error
	accepted := make(chan struct{})
	go func() {
		routed, accErr = l.Accept()
		close(accepted)
	}()
	u, err := net.DialTimeout("tcp", ln.Addr().String(), 2*time.Second)
	if err != nil {
		return "", err.Error()
	}
	defer u.Close()
	_ = u.SetDeadline(time.Now().Add(8 * time.Second))
	var head []byte
	shared := true
	if mc.kind == 0 {
		head = clientHello(domain)
	} else {
		head = []byte(fmt.Sprintf("CONNECT %s:80 HTTP/1.1\r\nHost: %s:80\r\n\r\n", domain, domain))
		shared = mc.kind == 2
	}
	// the head goes out in arbitrary segments
	for p := head; len(p) > 0; {
		n := 1 + r.Intn(len(p))
		if r.Intn(3) == 0 {
			n = 1 + r.Intn(7)
			if n > len(p) {
				n = len(p)
			}
		}
		if _, err := u.Write(p[:n]); err != nil {
			return "", "user write: " + err.Error()
		}
		p = p[n:]
		if r.Intn(3) == 0 {
			time.Sleep(time.Duration(r.Intn(4)) * time.Millisecond)
		}
	}
	if mc.kind == 1 { // wait for the muxer's 200 before sending payload
		var resp []byte
		one := make([]byte, 1)
		for !bytes.HasSuffix(resp, []byte("\r\n\r\n")) && len(resp) < 1024 {
			if _, err := u.Read(one); err != nil {
				return "", "connect response: " + err.Error()
			}
			resp = append(resp, one[0])
		}
	}
	select {
	case <-accepted:
	case <-time.After(3 * time.Second):
		return "", "connection was not routed"
	}
	if accErr != nil {
		return "", "accept: " + accErr.Error()
	}
	defer routed.Close()
	time.Sleep(time.Duration(mc.ageMs) * time.Millisecond)
	// both directions at once, after the connection has aged
	var wg sync.WaitGroup
	var got, downGot []byte
	writeOK := true
	wantUp := len(mc.payload)
	if shared {
		wantUp += len(head)
	}
	wg.Add(3)
	go func() { defer wg.Done(); _, _ = u.Write(mc.payload) }()
	go func() {
		defer wg.Done()
		_ = routed.SetReadDeadline(time.Now().Add(3 * time.Second))
		buf := make([]byte, 4096)
		for len(got) < wantUp {
			n, err := routed.Read(buf[:1+r.Intn(len(buf))])
			got = append(got, buf[:n]...)
			if err != nil {
				return
			}
		}
	}()
	go func() {
		defer wg.Done()
		if _, err := routed.Write(mc.down); err != nil {
			writeOK = false
		}
	}()
	downGot = make([]byte, len(mc.down))
	n, _ := io.ReadFull(u, downGot)
	downGot = downGot[:n]
	wg.Wait()
	sent := append(append([]byte(nil), head...), mc.payload...)
	return fmt.Sprintf("CMux %d %s %s %d %s %d %d %s %s", mc.kind, hx.Bool(shared), hx.Hx(sent), len(head), hx.Hx(got),
		mc.ageMs, muxTimeout.Milliseconds(), hx.Bool(writeOK), hx.Bool(bytes.Equal(downGot, mc.down))), ""
}

func runVhostMux(cfg *hx.RunCfg) error {
	hx.Quiet()
	g := hx.NewGen(cfg.Seed)
	n := cfg.N
	if n <= 0 {
		n = 12
	}
	var mcs []muxCase
	for i := 0; i < n; i++ {
		age := 0
		if i%2 == 0 {
			age = int(muxTimeout.Milliseconds()) + 120 + g.Intn(100)
		}
		mcs = append(mcs, muxCase{kind: i % 3, ageMs: age, payload: g.Bytes(g.Intn(3000)), down: g.Bytes(1 + g.Intn(3000)), seed: cfg.Seed*100 + int64(i)})
	}
	nfirst := 4
	cases := make([]string, len(mcs)+nfirst)
	errs := make([]string, len(mcs)+nfirst)
	var wg sync.WaitGroup
	for k := 0; k < nfirst; k++ {
		wg.Add(1)
		down := g.Bytes(1 + g.Intn(200))
		for i := range down { // a greeting without CR/LF so that it cannot be mistaken for a header end
			if down[i] == 13 || down[i] == 10 {
				down[i] = 'x'
			}
		}
		delay := time.Duration(k%2) * 120 * time.Millisecond
		go func(k int) {
			defer wg.Done()
			cases[len(mcs)+k], errs[len(mcs)+k] = runFirstCase("127.0.1.9", delay, down, cfg.Seed*100+int64(50+k))
		}(k)
	}
	for i := range mcs {
		wg.Add(1)
		go func(i int) {
			defer wg.Done()
			cases[i], errs[i] = runMuxCase("127.0.1.9", mcs[i])
		}(i)
	}
	wg.Wait()
	var out []string
	var fails []map[string]string
	dist := map[string]int{}
	for i, c := range cases {
		if i >= len(mcs) {
			if errs[i] != "" {
				fails = append(fails, map[string]string{"key": "vhostmux-setup:first", "what": "backend-speaks-first case failed before the comparison: " + errs[i], "case": "tcpmux backend speaks first"})
				continue
			}
			out = append(out, c)
			dist["tcpmux backend speaks first"]++
			continue
		}
		if errs[i] != "" {
			fails = append(fails, map[string]string{"key": fmt.Sprintf("vhostmux-setup:kind%d", mcs[i].kind), "what": "vhost muxer case failed before the comparison: " + errs[i],
				"case": fmt.Sprintf("kind=%d age=%d", mcs[i].kind, mcs[i].ageMs)})
			continue
		}
		out = append(out, c)
		dist[fmt.Sprintf("kind=%d aged=%v", mcs[i].kind, mcs[i].ageMs > 0)]++
	}
	cf := &hx.CaseFile{Imports: imports, Typ: "case", Cases: out,
		Tail: "Definition M := Eval vm_compute in mismatches check_case cases.\nPrint M.\n" +
			"Definition NAGED := Eval vm_compute in count_if is_aged_mux cases.\nPrint NAGED.\n" +
			"Definition NFIRST := Eval vm_compute in count_if is_first cases.\nPrint NFIRST.\n"}
	if err := cf.Write(cfg.Out); err != nil {
		return err
	}
	cfg.St["cases"] = len(out)
	cfg.St["distinct_nontrivial"] = len(out)
	cfg.St["distribution"] = dist
	if len(out) > 0 {
		s := out[0]
		if len(s) > 300 {
			s = s[:300] + "..."
		}
		cfg.St["samples"] = []string{s}
	}
	cfg.St["impl_failures"] = fails
	return nil
}
