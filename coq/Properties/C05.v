(* C05 — configured encryption protects the wire; TLS identity rules are enforced.
   Only statements here; proofs live in Proofs/.  [today] is built from today's translator output
   (gen/GenWire.v, unit t5w): which expression flows into which message field, under which guard a
   cipher layer is installed and with which key.  Residue (trusted, not proved): that AES-CFB / TLS
   ciphertext hides its plaintext, that md5 hides its input; what is proved is WHICH bytes are handed
   to WHICH cipher or hash, and the policy functions. *)
From FRP Require Import Model.Sniff Model.TlsPolicy Model.Wire
  Proofs.SniffProofs Proofs.TlsPolicyProofs Proofs.WireProofs gen.GenWire.
Open Scope Z_scope.
Import TlsPolicy Wire.

Definition today : tables :=
  {| tb_auth := auth_sets; tb_ctl := ctl_sites; tb_enc := enc_sites; tb_calls := call_keys;
     tb_lits := msg_lits; tb_writes := clear_writes; tb_flows := marshal_flows; tb_crw := crypto_rw_shape;
     tb_sniff := sniff_sites; tb_listeners := listener_calls;
     tb_tls_uses := tls_uses; tb_tls_origin := tls_origin_args; tb_tls_server_calls := sniff_tls_server_calls;
     tb_sniff_shape := GenWire.sniff_shape_today |}.

(* the sniff with today's translated head byte constant *)
Definition sniff_today := Sniff.sniff_with GenWire.frp_tls_head_byte.

(* ---- forced TLS: no first byte whatsoever reaches the plain protocol reader ---- *)
Theorem C05_forced_tls_never_plain : forall b, sniff_today true b <> Sniff.Plain.
Proof. exact (forced_never_plain_with GenWire.frp_tls_head_byte). Qed.
Print Assumptions C05_forced_tls_never_plain.

(* the same as an exhaustive sweep over the 256 bytes (reflective), with the translated constant equal to the model's *)
Theorem C05_forced_sweep :
  forallb (fun b => negb (out_eqb (sniff_today true b) Sniff.Plain) &&
                    out_eqb (sniff_today true b) (Sniff.sniff true b) &&
                    out_eqb (sniff_today false b) (Sniff.sniff false b)) Sniff.all_bytes = true.
Proof. vm_compute. reflexivity. Qed.
Print Assumptions C05_forced_sweep.

Theorem C05_forced_rejects_non_tls : forall b,
  Z_of_byte b <> Sniff.frp_tls_head_byte -> Z_of_byte b <> Sniff.tls_handshake_byte ->
  Sniff.sniff true b = Sniff.Reject /\ Sniff.sniff_stream true [b] = (Sniff.Reject, []).
Proof. intros b H1 H2. split; [exact (forced_rejects_non_tls b H1 H2)|exact (stream_forced_non_tls b [] H1 H2)]. Qed.
Print Assumptions C05_forced_rejects_non_tls.

(* TLS is attempted exactly on the two head bytes, whatever the force flag; forcing never hurts a TLS peer *)
Theorem C05_sniff_tls_iff : forall f b,
  Sniff.is_tls (Sniff.sniff f b) = true <->
  Z_of_byte b = Sniff.frp_tls_head_byte \/ Z_of_byte b = Sniff.tls_handshake_byte.
Proof. exact sniff_tls_iff. Qed.
Print Assumptions C05_sniff_tls_iff.

(* the client's head-byte hook and the server's sniff fit: the server's TLS layer is handed exactly the client's TLS stream *)
Theorem C05_client_server_fit : forall f disable h r,
  Z_of_byte h = Sniff.tls_handshake_byte ->
  Sniff.sniff_stream f (Sniff.client_head true disable ++ h :: r) =
  ((if disable then Sniff.TlsStd else Sniff.TlsCustom), h :: r).
Proof. exact client_server_fit. Qed.
Print Assumptions C05_client_server_fit.

(* ---- policy functions ---- *)
Theorem C05_ca_implies_force : forall c,
  tf_ca (st_tls c) <> ""%string -> st_force (server_complete c) = true.
Proof. exact ca_implies_force. Qed.
Print Assumptions C05_ca_implies_force.

Theorem C05_force_exact : forall c,
  st_force (server_complete c) = st_force c || nonempty (tf_ca (st_tls c)).
Proof. exact force_exact. Qed.
Print Assumptions C05_force_exact.

Theorem C05_server_requires_client_cert_iff_ca : forall pair_ok read_ok cert key ca p,
  new_server_tls pair_ok read_ok cert key ca = Some p ->
  (sp_client_auth p = RequireAndVerifyClientCert <-> ca <> ""%string) /\
  (ca <> ""%string -> sp_client_cas p = Some ca) /\
  (ca = ""%string -> sp_client_cas p = None /\ sp_client_auth p = NoClientCert).
Proof. exact server_requires_client_cert_iff_ca. Qed.
Print Assumptions C05_server_requires_client_cert_iff_ca.

Theorem C05_server_cert_source : forall pair_ok read_ok cert key ca p,
  new_server_tls pair_ok read_ok cert key ca = Some p ->
  (sp_cert p = SelfSigned <-> cert = ""%string \/ key = ""%string) /\
  (sp_cert p <> SelfSigned -> sp_cert p = FromFiles cert key /\ pair_ok cert key = true).
Proof. exact server_cert_source. Qed.
Print Assumptions C05_server_cert_source.

(* a configured CA that cannot be read makes construction fail on both sides: never silently dropped *)
Theorem C05_bad_ca_fails : forall pair_ok read_ok cert key ca sn,
  ca <> ""%string -> read_ok ca = false ->
  new_server_tls pair_ok read_ok cert key ca = None /\ new_client_tls pair_ok read_ok cert key ca sn = None.
Proof. intros. split; [now apply server_bad_ca_fails|now apply client_bad_ca_fails]. Qed.
Print Assumptions C05_bad_ca_fails.

Theorem C05_client_verifies_iff_ca : forall pair_ok read_ok cert key ca sn p,
  new_client_tls pair_ok read_ok cert key ca sn = Some p ->
  (cp_insecure_skip_verify p = false <-> ca <> ""%string) /\
  cp_server_name p = sn /\
  (ca <> ""%string -> cp_root_cas p = Some ca) /\
  (ca = ""%string -> cp_root_cas p = None).
Proof. exact client_verifies_iff_ca. Qed.
Print Assumptions C05_client_verifies_iff_ca.

(* the identity the dialling client insists on *)
Theorem C05_client_identity : forall pair_ok read_ok c addr p,
  plan_policy (real_connect pair_ok read_ok c addr) = Some p ->
  cp_server_name p = (if String.eqb (tf_server_name (ct_tls c)) "" then addr else tf_server_name (ct_tls c)) /\
  (cp_insecure_skip_verify p = false <-> tf_ca (ct_tls c) <> ""%string) /\
  (tf_ca (ct_tls c) <> ""%string -> cp_root_cas p = Some (tf_ca (ct_tls c))).
Proof. exact real_connect_identity. Qed.
Print Assumptions C05_client_identity.

Theorem C05_tls_default_on : forall c,
  ct_tls_enable c = None -> from_ptr (ct_tls_enable (client_complete c)) = true.
Proof. exact tls_default_on. Qed.
Print Assumptions C05_tls_default_on.

Theorem C05_wss_forces_tls : forall pair_ok read_ok c addr,
  ct_protocol c = "wss"%string ->
  real_connect pair_ok read_ok c addr = DialErr \/ plan_has_tls (real_connect pair_ok read_ok c addr) = true.
Proof. exact wss_forces_tls. Qed.
Print Assumptions C05_wss_forces_tls.

Theorem C05_plan_tls_iff : forall pair_ok read_ok c addr,
  real_connect pair_ok read_ok c addr <> DialErr ->
  (plan_has_tls (real_connect pair_ok read_ok c addr) = true <->
   from_ptr (ct_tls_enable c) = true \/ ct_protocol c = "wss"%string).
Proof. exact plan_tls_iff. Qed.
Print Assumptions C05_plan_tls_iff.

Theorem C05_head_byte_iff : forall pair_ok read_ok c addr,
  In LHeadByte (plan_layers (real_connect pair_ok read_ok c addr)) <->
  plan_has_tls (real_connect pair_ok read_ok c addr) = true /\
  from_ptr (ct_disable_custom_first_byte c) = false /\ ct_protocol c <> "wss"%string.
Proof. exact head_byte_iff. Qed.
Print Assumptions C05_head_byte_iff.

(* ---- the wire ---- *)
(* reflective side condition over today's tables (t5w) *)
Theorem C05_today_facts_ok : facts_ok today = true.
Proof. vm_compute. reflexivity. Qed.
Print Assumptions C05_today_facts_ok.

(* for every configuration (TLS on or off, any transport, any force flag), every history and every
   observer who holds no secret: no token, secret key or HTTP password is readable on the path *)
Theorem C05_secrets_never_clear : forall c knows h a,
  w_internal c = false -> (forall s, is_secret s = true -> knows s = false) ->
  In a (visible_all knows (wire today c h)) -> is_secret a = false.
Proof. intros c knows h a Hn Hk. exact (secrets_never_clear today c knows C05_today_facts_ok Hn Hk h a). Qed.
Print Assumptions C05_secrets_never_clear.

(* the control cipher layer exists for EVERY key value (reflective over the translated body of
   NewCryptoReadWriter: no early return that skips it) on both ends, under no condition on the token *)
Theorem C05_control_cipher_unconditional : forall c t,
  w_internal c = false -> c2s today c t = TCipher ATok t /\ s2c today c t = TCipher ATok t.
Proof.
  intros c t. exact (ctl_spec today c t (proj1 (proj2 (proj2 (proj2 (facts_parts today C05_today_facts_ok)))))).
Qed.
Print Assumptions C05_control_cipher_unconditional.

(* the observer who knows only what is public ([public c]: the token iff it is the empty string).
   PARTIAL: holds for every configuration with a non-empty token ... *)
Theorem C05_secrets_never_clear_public_partial : forall c h a,
  w_internal c = false -> w_token_empty c = false ->
  In a (visible_all (public c) (wire today c h)) -> is_secret a = false.
Proof.
  intros c h a Hn He. exact (secrets_never_clear today c (public c) C05_today_facts_ok Hn (public_no_secret c He) h a).
Qed.
Print Assumptions C05_secrets_never_clear_public_partial.

(* ... and is REFUTED for the excluded class: with auth.token = "" (oidc method, or no token) and TLS off,
   the control cipher is keyed by a value everybody knows, so the stcp secret key and the HTTP password
   of NewProxy are readable (finding F-C05a; replayed by the wire driver with a decrypting observer) *)
Theorem C05_secrets_empty_token_refuted : exists c h a b,
  w_internal c = false /\ w_token_empty c = true /\ conn_tls c = false /\
  a = ASk 3 /\ b = APwd 2 /\
  In a (visible_all (public c) (wire today c h)) /\ In b (visible_all (public c) (wire today c h)).
Proof.
  exists {| w_client := client_complete {| ct_protocol := ""; ct_tcp_mux := Some false; ct_tls_enable := Some false;
                                           ct_disable_custom_first_byte := None; ct_tls := mk_tls_files "" "" "" "" |};
            w_server_addr := "127.0.5.2"; w_force := false; w_internal := false; w_token_empty := true;
            w_scope_hb := false; w_scope_nwc := false; w_pair_ok := true; w_read_ok := true |},
         [ELogin 1; ENewProxy (mk_pcfg 2 PkHttp false false); ENewProxy (mk_pcfg 3 PkStcp false false)],
         (ASk 3), (APwd 2).
  vm_compute. intuition.
Qed.
Print Assumptions C05_secrets_empty_token_refuted.

(* the same for any tables passing the checker (what the reflective condition buys) *)
Theorem C05_secrets_never_clear_gen : forall T c knows h a,
  facts_ok T = true -> w_internal c = false -> (forall s, is_secret s = true -> knows s = false) ->
  In a (visible_all knows (wire T c h)) -> is_secret a = false.
Proof. intros T c knows h a Hf Hn Hk. exact (secrets_never_clear T c knows Hf Hn Hk h a). Qed.
Print Assumptions C05_secrets_never_clear_gen.

(* with TLS on nothing at all — payload, control-message content, secrets — is readable *)
Theorem C05_control_content_hidden_under_tls : forall T c knows h,
  conn_tls c = true -> visible_all knows (wire T c h) = [].
Proof. exact tls_hides_everything. Qed.
Print Assumptions C05_control_content_hidden_under_tls.

(* payload readable  =>  TLS off and carried by a proxy/visitor whose encryption flag is off *)
Theorem C05_payload_clear_only_if : forall c h x,
  In (APayload x) (visible_all nobody (wire today c h)) ->
  conn_tls c = false /\ exists e, In e h /\ carries_clear x e.
Proof. intros c. exact (payload_clear_only_if today c (facts_enc today C05_today_facts_ok)). Qed.
Print Assumptions C05_payload_clear_only_if.

(* ... and conversely (observer able to undo compression) *)
Theorem C05_payload_clear_if : forall c ts h x e,
  accepted c = true -> conn_tls c = false -> In e h -> carries_clear x e ->
  In (APayload x) (visible_all nobody (wire today c (ELogin ts :: h))).
Proof. intros c. exact (payload_clear_if today c (facts_enc today C05_today_facts_ok)). Qed.
Print Assumptions C05_payload_clear_if.

(* reflective over today's WithEncryption sites: UseEncryption guards a cipher layer at every site,
   keyed by the token resp. the secret key ... *)
Theorem C05_encryption_flag_implies_layer : forall s, In s (tb_enc today) ->
  es_guard s = GUseEnc /\
  (es_key s = XSecret KTok \/ es_key s = XSecret KSk \/
   (exists n, es_key s = XParam n) /\
   (exists c, In c (tb_calls today) /\ ck_callee c = es_func s) /\
   forall c, In c (tb_calls today) -> ck_callee c = es_func s -> ck_key c = XSecret KTok \/ ck_key c = XSecret KSk).
Proof. intros s. exact (enc_sites_sound today s (facts_enc today C05_today_facts_ok)). Qed.
Print Assumptions C05_encryption_flag_implies_layer.

(* ... the same key on both ends: what is written on a work connection / visitor connection *)
Theorem C05_layer_same_key_both_ends : forall p v d x,
  payload_term today p d x =
    (let inner := comp_layer (p_comp p) (TAtom (APayload x)) in if p_enc p then TCipher ATok inner else inner) /\
  vpayload_term today v d x =
    (let inner := comp_layer (v_comp v) (TAtom (APayload x)) in if v_enc v then TCipher (ASk (v_sk v)) inner else inner).
Proof.
  intros p v d x. split; [apply payload_term_spec|apply vpayload_term_spec];
    exact (facts_enc today C05_today_facts_ok).
Qed.
Print Assumptions C05_layer_same_key_both_ends.

(* forced TLS (or a trusted CA, by C05_ca_implies_force) against a peer that does not speak TLS:
   the sniff rejects and no session ever comes up, whatever the peer goes on to send *)
Theorem C05_forced_no_session_without_tls : forall T c h,
  w_force c = true -> conn_tls c = false -> ws_up (fst (run T c init h)) = false.
Proof. intros T c h Hf Ht. exact (rejected_no_session T c h (forced_plain_client_rejected c Hf Ht)). Qed.
Print Assumptions C05_forced_no_session_without_tls.

(* for EVERY listener kind that HandleListener serves on the network (tcp, tls-mux, kcp, websocket), with
   either value of the configured flag: the flag handed to the sniff is the configured one (reflective over
   t5w: the tlsOnly argument is svr.cfg.Transport.TLS.Force itself, under no condition on the listener) *)
Theorem C05_force_flag_same_on_every_listener : forall configured l,
  In l sniffing_kinds -> sniff_force today configured l = ForceIs configured.
Proof. intros configured l. exact (sniff_force_configured today configured l (facts_sniff today C05_today_facts_ok)). Qed.
Print Assumptions C05_force_flag_same_on_every_listener.

(* ... hence, on every such listener: configured force (or a trusted CA) and a peer without TLS => no session *)
Theorem C05_forced_no_session_without_tls_any_listener : forall c h l configured,
  In l sniffing_kinds -> sniff_force today configured l = ForceIs (w_force c) ->
  configured = true -> conn_tls c = false -> ws_up (fst (run today c init h)) = false.
Proof.
  intros c h l configured. exact (forced_no_session_any_listener today c h l configured (facts_sniff today C05_today_facts_ok)).
Qed.
Print Assumptions C05_forced_no_session_without_tls_any_listener.

(* a peer that stays silent past the sniff's wait, or closes, gets nothing interpreted, for either force value:
   the read error is the function's only exit before the switch (reflective over t5w's shape of the function:
   any other return before the switch, e.g. "on deadline expiry hand the connection on", gives SsUnknown) *)
Theorem C05_silent_peer_gets_nothing : forall f,
  tb_sniff_shape today = SsOk /\
  Sniff.sniff_stream f [] = (Sniff.ReadErr, []) /\ Sniff.is_err Sniff.ReadErr = true.
Proof. intros f. split; [vm_compute; reflexivity|exact (silent_peer_gets_nothing f)]. Qed.
Print Assumptions C05_silent_peer_gets_nothing.

(* the TLS identity rule on EVERY listener frps opens on the network (tcp, tls-mux, kcp, websocket — all served by
   HandleListener and its sniff — and quic): the tls.Config that terminates TLS there is the object built by
   NewServerTLSConfig from the configured cert/key/CA, or a clone that only sets harmless fields (reflective over
   t5w's table of TLS-terminating sites); hence with a trusted CA a client certificate of that CA is required there *)
Theorem C05_identity_rule_on_every_listener : forall l pair_ok read_ok cert key ca p,
  In l network_kinds -> new_server_tls pair_ok read_ok cert key ca = Some p ->
  listener_policy today p l = Some p /\
  (ca <> ""%string -> sp_client_auth p = RequireAndVerifyClientCert /\ sp_client_cas p = Some ca).
Proof.
  intros l pair_ok read_ok cert key ca p Hin Hp. split.
  - exact (listener_policy_configured today p l (facts_tlscfg today C05_today_facts_ok) Hin).
  - intros Hca. destruct (server_requires_client_cert_iff_ca pair_ok read_ok cert key ca p Hp) as [H1 [H2 _]].
    split; [now apply H1|now apply H2].
Qed.
Print Assumptions C05_identity_rule_on_every_listener.

(* quic (client Open(), server HandleQUICListener: no sniff): always under TLS, whatever tls.enable says *)
Theorem C05_quic_always_tls : forall c, is_quic c = true -> plan c = DialErr \/ conn_tls c = true.
Proof. exact quic_always_tls. Qed.
Print Assumptions C05_quic_always_tls.

(* ---- non-vacuity ---- *)
Definition ex_client (tls : bool) : client_transport :=
  client_complete {| ct_protocol := ""; ct_tcp_mux := Some false; ct_tls_enable := Some tls;
                     ct_disable_custom_first_byte := None; ct_tls := mk_tls_files "" "" "" "" |}.
Definition ex_cfg (tls force : bool) : wcfg :=
  {| w_client := ex_client tls; w_server_addr := "127.0.5.1"; w_force := force; w_internal := false; w_token_empty := false;
     w_scope_hb := true; w_scope_nwc := true; w_pair_ok := true; w_read_ok := true |}.
Definition ex_p : pcfg := {| p_id := 1; p_kind := PkHttp; p_enc := false; p_comp := false |}.
Definition ex_hist := [ELogin 1; ENewProxy ex_p; EWorkConn ex_p 2; EPayload ex_p Up 7; EPing 3].

Example C05_example_clear :
  visible_all nobody (wire today (ex_cfg false false) ex_hist) = [AUser; AProxyName 1; APayload 7] /\
  accepted (ex_cfg false false) = true /\ conn_tls (ex_cfg false false) = false /\
  (* the same history seen by someone who holds the token: the control channel opens up *)
  existsb (atom_eqb (APwd 1)) (visible_all (fun a => atom_eqb a ATok) (wire today (ex_cfg false false) ex_hist)) = true.
Proof. vm_compute. repeat split. Qed.

Example C05_example_tls_and_forced :
  visible_all (fun _ => true) (wire today (ex_cfg true true) ex_hist) = [] /\
  accepted (ex_cfg true true) = true /\
  accepted (ex_cfg false true) = false /\
  visible_all nobody (wire today (ex_cfg false true) ex_hist) = [AUser] /\
  Sniff.sniff true "o"%byte = Sniff.Reject /\ Sniff.sniff false "o"%byte = Sniff.Plain.
Proof. vm_compute. repeat split. Qed.
