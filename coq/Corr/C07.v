(* C07 correspondence: observations of the real frp code (driver httpauth, harness/cmd/c07) against Model/HttpAuth.v,
   and the property itself as a monitor on the observations ("a backend / handler saw the request => the credentials
   demanded by that backend's route were presented").  Reason codes: 0 agree; 5x property monitor; 9x outside the
   modelled fragment; others: model and implementation differ. *)
From FRP Require Export Corr.Common Model.HttpAuth Model.HttpAuthGroup Model.HttpAuthSites Model.HttpAuthMuxRace gen.GenRoutes gen.GenRouteSites.
Open Scope Z_scope.

Definition mk_hv (scheme : bytes) (space : bool) (dec : option bytes) : ha_hdr :=
  Some {| hv_scheme := scheme; hv_space := space; hv_decoded := dec |}.

Definition mk_rq (form : ha_form) (proto : ha_proto) (meth urlhost hdrhost path : bytes) (auth pauth : ha_hdr) (casing : Z) : ha_req :=
  {| rq_form := form; rq_proto := proto; rq_method := meth; rq_url_host := urlhost; rq_hdr_host := hdrhost;
     rq_path := path; rq_auth := auth; rq_pauth := pauth; rq_casing := casing |}.

Definition mk_rt (id : Z) (dom loc byu u p : bytes) (has : bool) : ha_route :=
  {| rt_id := id; rt_domain := dom; rt_location := loc; rt_by_user := byu; rt_user := u; rt_pass := p; rt_has_conn := has |}.

Definition mk_cfg (u p : bytes) : ha_cfg := {| cf_user := u; cf_pass := p |}.

Inductive case :=
(* vhost.HTTPReverseProxy behind a real http.Server: status seen by the requester, id of the backend that saw the request (-1 none) *)
| CServe (tbl : list ha_route) (rq : ha_req) (status backend : Z)
(* the same on stream 3 of an h2c connection opened by the upgrade request [up] *)
| CServeH2 (tbl : list ha_route) (up rq : ha_req) (status backend : Z)
(* tcpmux.HTTPConnectTCPMuxer: cls 0 closed without answer | 404 | 407 | 200 (handed over); ok200 = a 200 was seen first; listener reached (-1 none) *)
| CMux (tbl : list ha_route) (passthrough : bool) (rq : ha_req) (cls : Z) (ok200 : bool) (backend : Z)
(* group.TCPMuxGroupCtl over the real muxer: the joins / leaves with the observed results of Listen, then one CONNECT:
   cls / ok200 as for CMux, member = id of the member whose Accept received the connection (-1 none) *)
| CGrp (ops : list ha_gop) (results : list Z) (rq : ha_req) (cls : Z) (ok200 : bool) (member : Z)
(* a whole frps + frpc on loopback: the proxies as configured in frpc, the server's subDomainHost, one request on the
   tcpmux port (kind 1: cls / ok200 as for CMux) or on the vhost http port (kind 0: status); backend = px_id of the proxy
   whose local service saw it (-1 none) *)
| CSys (kind : Z) (pxs : list ha_pxcfg) (sdh : bytes) (rq : ha_req) (cls : Z) (ok200 : bool) (backend : Z)
(* group.HTTPGroupController over the routers of a real HTTPReverseProxy: the joins (Register) in order with their
   observed results, then one GET: status and the member whose CreateConnFn was called (-1 none) *)
| CHGrp (ms : list ha_gmember) (results : list Z) (rq : ha_req) (status : Z) (member : Z)
(* the real muxer with a scripted interleaving: the actions the driver performed (handle up to the blocked hand-over,
   then listener close / register / accept), then what the client saw and which listener's owner received the connection *)
| CMuxRace (tbl : list ha_route) (rq : ha_req) (sched : list ha_mact) (cls : Z) (ok200 : bool) (backend : Z)
(* HTTPAuthMiddleware around a marker handler *)
| CMw (c : ha_cfg) (rq : ha_req) (status : Z) (reached : bool)
(* http_proxy plugin: status, target reached.  how = 0: the request is the first of its connection, written in one piece;
   1: it follows an unauthenticated GET (answered 407) on the same connection; 2: first of its connection, but the first
   segment carries only 4 bytes of the request line *)
| CHp (how : Z) (c : ha_cfg) (rq : ha_req) (status : Z) (reached : bool)
(* socks5 plugin: cls 0 no acceptable method | 1 closed without answer | 2 auth failure | 3 granted method 0 | 4 granted method 2 *)
| CS5 (c : ha_cfg) (methods : list Z) (ver : Z) (u p : bytes) (cls : Z) (reached : bool)
(* static_file plugin *)
| CSf (prefix : string) (c : ha_cfg) (rq : ha_req) (status : Z) (served : bool)
(* dashboard (which = 0) / admin API (which = 1) on loopback, with the flags that are on *)
| CWeb (which : Z) (flags : list string) (c : ha_cfg) (rq : ha_req) (status : Z).

Definition opt_pair_eqb (a b : option (bytes * bytes)) : bool :=
  match a, b with
  | None, None => true
  | Some (u, p), Some (u', p') => bytes_eqb u u' && bytes_eqb p p'
  | _, _ => false
  end.

(* ---- the property on observations ---- *)
Definition route_by_id (tbl : list ha_route) (id : Z) : option ha_route := find (fun r => rt_id r =? id) tbl.

Definition creds_ok (demanded : option (bytes * bytes)) (presented : bytes * bytes) : bool :=
  match demanded with None => true | Some c => opt_pair_eqb (Some c) (Some presented) end.

(* whether today's HTTPGroup.Register compares Username and Password (translator unit t7) *)
Definition today_http_group_cmp : bool :=
  existsb (String.eqb "Username") http_group_compared && existsb (String.eqb "Password") http_group_compared.
(* first member that asked for this member's group: its credentials are the group's *)
Definition hgrp_first (ms : list ha_gmember) (m : ha_gmember) : option ha_gmember :=
  find (fun x => bytes_eqb (gm_group x) (gm_group m)) ms.

Definition C07_holds (c : case) : bool :=
  match c with
  | CServe tbl rq _ backend | CServeH2 tbl _ rq _ backend =>
      if backend <? 0 then true
      else match route_by_id tbl backend with
           | Some r => creds_ok (ha_creds r) (ha_presented rq)
           | None => false
           end
  | CMux tbl _ rq _ _ backend =>
      if backend <? 0 then true
      else match route_by_id tbl backend with
           | Some l => creds_ok (ha_mux_creds l) (ha_mux_presented rq)
           | None => false
           end
  | CSys kind pxs _ rq _ _ backend =>
      if backend <? 0 then true
      else match find (fun p => px_id p =? backend) pxs with
           | Some p =>
               if kind =? 1 then creds_ok (if ha_nonempty (px_user p) then Some (px_user p, px_pass p) else None) (ha_mux_presented rq)
               else creds_ok (if ha_nonempty (px_user p) || ha_nonempty (px_pass p) then Some (px_user p, px_pass p) else None) (ha_presented rq)
           | None => false
           end
  | CHGrp ms _ rq _ member =>
      if member <? 0 then true
      else match find (fun m => gm_id m =? member) ms with
           | Some m => creds_ok (ha_hmember_creds m) (ha_presented rq)
           | None => false
           end
  | CMuxRace tbl rq sched _ _ backend =>
      if backend <? 0 then true
      else match find (fun r => rt_id r =? backend)
                      (tbl ++ flat_map (fun a => match a with MARegister r => [r] | _ => [] end) sched) with
           | Some l => creds_ok (ha_mux_creds l) (ha_mux_presented rq)
           | None => false
           end
  | CGrp ops _ rq _ _ member =>
      if member <? 0 then true
      else match find (fun m => gm_id m =? member)
                      (flat_map (fun o => match o with GJoin m => [m] | GLeave _ => [] end) ops) with
           | Some m => creds_ok (ha_member_creds m) (ha_mux_presented rq)
           | None => false
           end
  | CMw c rq _ reached | CSf _ c rq _ reached =>
      if reached then match ha_cfg_creds c with None => true | Some x => opt_pair_eqb (Some x) (ha_parse_basic (rq_auth rq)) end
      else true
  | CHp _ c rq _ reached =>
      if reached then match ha_cfg_creds c with None => true | Some x => opt_pair_eqb (Some x) (ha_http_proxy_presented rq) end
      else true
  | CS5 c _ _ u p _ reached =>
      if reached then match ha_s5_creds c with None => true | Some x => opt_pair_eqb (Some x) (Some (u, p)) end
      else true
  | CWeb _ _ _ _ _ => true       (* judged through the model: which paths are public is part of the route table *)
  end.

(* ---- model vs observation ---- *)
Definition in_fragment (rq : ha_req) : bool :=
  match ha_canon_host (ha_req_host rq) with Some _ => true | None => false end.

Definition check_serve (tbl : list ha_route) (rq : ha_req) (status backend : Z) : Z :=
  if negb (in_fragment rq) then 90
  else match ha_serve_http (ha_tbl_get tbl) ha_canon_or_self rq with
       | OUnauthorized => if (status =? 401) && (backend =? -1) then 0 else 1
       | OForward r => if negb (backend =? rt_id r) then 2 else if status =? 200 then 0 else 3
       | ONotFound => if (status =? 404) && (backend =? -1) then 0 else 4
       | ONoHijack => if (status =? 500) && (backend =? -1) then 0 else 5
       end.

Definition flag_on (flags : list string) (f : string) : bool := existsb (String.eqb f) flags.

Definition web_table (which : Z) : list ha_wroute :=
  ha_routes_of ((if which =? 0 then dashboard_routes else admin_routes) ++ webserver_routes).

Definition check_case (c : case) : Z :=
  if negb (C07_holds c) then 50
  else match c with
  | CServe tbl rq status backend => check_serve tbl rq status backend
  | CServeH2 tbl up rq status backend =>
      (* the stream is the second request of the connection; the model decides it on its own *)
      match nth_error (ha_serve_conn (ha_tbl_get tbl) ha_canon_or_self [up; rq]) 1 with
      | Some o => if negb (in_fragment rq) then 90
                  else match o with
                       | OUnauthorized => if (status =? 401) && (backend =? -1) then 0 else 1
                       | OForward r => if negb (backend =? rt_id r) then 2 else if status =? 200 then 0 else 3
                       | ONotFound => if (status =? 404) && (backend =? -1) then 0 else 4
                       | ONoHijack => if (status =? 500) && (backend =? -1) then 0 else 5
                       end
      | None => 91
      end
  | CMux tbl pt rq cls ok200 backend =>
      if negb (in_fragment rq) then 90
      else match ha_mux_handle (ha_tbl_get tbl) ha_canon_or_self pt rq with
           | MClose => if (cls =? 0) && (backend =? -1) && negb ok200 then 0 else 11
           | MNotFound => if (cls =? 404) && (backend =? -1) && negb ok200 then 0 else 12
           | MAuthFailed s => if (cls =? 407) && (backend =? -1) && Bool.eqb ok200 s then 0 else 13
           | MForward l s => if negb (backend =? rt_id l) then 14 else if (cls =? 200) && Bool.eqb ok200 s then 0 else 15
           end
  | CSys kind pxs sdh rq cls ok200 backend =>
      let tbl := ha_sys_table sdh kind pxs in
      if kind =? 1 then
        if negb (in_fragment rq) then 90
        else match ha_mux_handle (ha_tbl_get tbl) ha_canon_or_self false rq with
             | MClose => if (cls =? 0) && (backend =? -1) && negb ok200 then 0 else 101
             | MNotFound => if (cls =? 404) && (backend =? -1) && negb ok200 then 0 else 102
             | MAuthFailed s => if (cls =? 407) && (backend =? -1) && Bool.eqb ok200 s then 0 else 103
             | MForward l s => if negb (backend =? rt_id l) then 104 else if (cls =? 200) && Bool.eqb ok200 s then 0 else 105
             end
      else
        let c := check_serve tbl rq cls backend in if c =? 0 then 0 else 110 + c
  | CHGrp ms results rq status member =>
      let '(st, rs) := ha_hgrp_run true [] ms in     (* the repaired code (fix 76cc372): credentials are compared *)
      if negb (forallb (fun p => fst p =? snd p) (combine rs results) && (Z.of_nat (length rs) =? Z.of_nat (length results))) then 121
      else match ha_serve_http (ha_tbl_get (ha_grp_table st)) ha_canon_or_self rq with
           | OUnauthorized => if (status =? 401) && (member =? -1) then 0 else 122
           | ONotFound => if (status =? 404) && (member =? -1) then 0 else 123
           | ONoHijack => 124
           | OForward _ =>
               if negb (status =? 200) then 125
               else match ha_hgrp_deliver ha_canon_or_self st rq member with Some _ => 0 | None => 126 end
           end
  | CMuxRace tbl rq sched cls ok200 backend =>
      if negb (in_fragment rq) then 90
      else match ms_conn (ha_mrace_run ha_canon_or_self false {| ms_tbl := tbl; ms_conn := MCNew rq |} sched) with
           | MCDelivered l => if (backend =? rt_id l) && (cls =? 200) && ok200 then 0 else 131
           | MCClosed => if (backend =? -1) && (cls =? -200) && ok200 then 0 else 132      (* 200 of the success hook, then closed *)
           | MCRefused (MAuthFailed _) => if (backend =? -1) && (cls =? 407) then 0 else 133
           | MCRefused MNotFound => if (backend =? -1) && (cls =? 404) then 0 else 134
           | _ => 135                                                                       (* the scripted schedules always end *)
           end
  | CGrp ops results rq cls ok200 member =>
      if negb (in_fragment rq) then 90
      else
        let '(st, rs) := ha_grp_run [] ops in
        if negb (forallb (fun p => fst p =? snd p) (combine rs results) && (Z.of_nat (length rs) =? Z.of_nat (length results))) then 81
        else match ha_mux_handle (ha_tbl_get (ha_grp_table st)) ha_canon_or_self false rq with
             | MClose => if (cls =? 0) && (member =? -1) && negb ok200 then 0 else 82
             | MNotFound => if (cls =? 404) && (member =? -1) && negb ok200 then 0 else 83
             | MAuthFailed s => if (cls =? 407) && (member =? -1) && Bool.eqb ok200 s then 0 else 84
             | MForward _ s =>
                 if negb ((cls =? 200) && Bool.eqb ok200 s) then 85
                 else match ha_grp_deliver ha_canon_or_self st false rq member with Some _ => 0 | None => 86 end
             end
  | CMw c rq status reached =>
      match ha_middleware c rq with
      | MwNext => if reached && (status =? 200) then 0 else 21
      | MwUnauthorized => if negb reached && (status =? 401) then 0 else 22
      end
  | CHp how c rq status reached =>
      (* the request under observation is the last of its connection *)
      let sniff := (how =? 0) && match rq_form rq with FConnect => true | _ => false end in
      let conn := if how =? 1 then [mk_rq FAbsolute PH11 [] (rq_url_host rq) (rq_hdr_host rq) (rq_path rq) None None 0; rq] else [rq] in
      match last (map Some (ha_http_proxy_conn sniff c conn)) None with
      | Some HpProxy => if reached && (status =? 200) then 0 else 31
      | Some (HpChallenge _) => if negb reached && (status =? 407) then 0 else 32
      | None => 33
      end
  | CS5 c methods ver u p cls reached =>
      match ha_socks5 c {| s5_methods := methods; s5_ver := ver; s5_user := u; s5_pass := p |} with
      | S5NoAcceptable => if (cls =? 0) && negb reached then 0 else 41
      | S5BadVersion => if (cls =? 1) && negb reached then 0 else 42
      | S5AuthFailed => if (cls =? 2) && negb reached then 0 else 43
      | S5Granted m => if (cls =? (if m =? 0 then 3 else 4)) && reached then 0 else 44
      end
  | CSf prefix c rq status served =>
      match ha_web_serve (fun _ => true) (ha_static_file_routes prefix) c rq with
      | WNoRoute => if (status =? 404) && negb served then 0 else 61
      | WMethodNotAllowed => if (status =? 405) && negb served then 0 else 62
      | WUnauthorized _ => if (status =? 401) && negb served then 0 else 63
      | WServed _ _ => if negb (status =? 401) && negb (status =? 405) && served then 0 else 64
      end
  | CWeb which flags c rq status =>
      match ha_web_serve (flag_on flags) (web_table which) c rq with
      | WNoRoute => if status =? 404 then 0 else 71
      | WMethodNotAllowed => if status =? 405 then 0 else 72
      | WUnauthorized _ => if status =? 401 then 0 else 73
      | WServed _ _ => if negb (status =? 401) && negb (status =? 405) then 0 else 74     (* a handler may itself answer 404 *)
      end
  end.

(* ---- branch counters for the evidence ---- *)
Definition serve_out (c : case) : option ha_out :=
  match c with
  | CServe tbl rq _ _ => Some (ha_serve_http (ha_tbl_get tbl) ha_canon_or_self rq)
  | CServeH2 tbl up rq _ _ => nth_error (ha_serve_conn (ha_tbl_get tbl) ha_canon_or_self [up; rq]) 1
  | _ => None
  end.
Definition is_unauth (c : case) : bool := match serve_out c with Some OUnauthorized => true | _ => false end.
Definition is_forward_protected (c : case) : bool :=
  match serve_out c with Some (OForward r) => match ha_creds r with Some _ => true | None => false end | _ => false end.
Definition is_forward_open (c : case) : bool :=
  match serve_out c with Some (OForward r) => match ha_creds r with Some _ => false | None => true end | _ => false end.
Definition is_notfound (c : case) : bool := match serve_out c with Some ONotFound => true | _ => false end.
(* absolute-form / CONNECT requests whose routing user comes from Proxy-Authorization and differs from the Authorization user *)
Definition is_split_user (c : case) : bool :=
  match c with
  | CServe _ rq _ _ | CServeH2 _ _ rq _ _ =>
      negb (bytes_eqb (ha_route_user_of rq) (ha_user_of (ha_parse_basic (rq_auth rq))))
  | _ => false
  end.
Definition is_h2 (c : case) : bool := match c with CServeH2 _ _ _ _ _ => true | _ => false end.
Definition is_mux_authfail (c : case) : bool :=
  match c with
  | CMux tbl pt rq _ _ _ => match ha_mux_handle (ha_tbl_get tbl) ha_canon_or_self pt rq with MAuthFailed _ => true | _ => false end
  | _ => false
  end.
Definition is_mux_forward_protected (c : case) : bool :=
  match c with
  | CMux tbl pt rq _ _ _ => match ha_mux_handle (ha_tbl_get tbl) ha_canon_or_self pt rq with
                            | MForward l _ => match ha_mux_creds l with Some _ => true | None => false end
                            | _ => false end
  | _ => false
  end.
Definition is_web_unauth (c : case) : bool :=
  match c with
  | CWeb which flags cf rq _ => match ha_web_serve (flag_on flags) (web_table which) cf rq with WUnauthorized _ => true | _ => false end
  | _ => false
  end.
Definition is_web_public (c : case) : bool :=
  match c with
  | CWeb which flags cf rq _ => match ha_web_serve (flag_on flags) (web_table which) cf rq with WServed _ false => true | _ => false end
  | _ => false
  end.

Definition mk_gm (id : Z) (grp key dom byu u p : bytes) : ha_gmember :=
  {| gm_id := id; gm_group := grp; gm_key := key; gm_domain := dom; gm_by_user := byu; gm_user := u; gm_pass := p |}.
Definition is_grp_refused_join (c : case) : bool :=
  match c with CGrp ops _ _ _ _ _ => existsb (fun r => r =? 1) (snd (ha_grp_run [] ops)) | _ => false end.
Definition is_grp_protected_delivery (c : case) : bool :=
  match c with
  | CGrp ops _ rq _ _ member =>
      match ha_grp_deliver ha_canon_or_self (fst (ha_grp_run [] ops)) false rq member with
      | Some m => match ha_member_creds m with Some _ => true | None => false end
      | None => false
      end
  | _ => false
  end.

Definition mk_px (id kind : Z) (doms : list bytes) (sub : bytes) (locs : list bytes) (grouped : bool) (byu u p : bytes) : ha_pxcfg :=
  {| px_id := id; px_kind := kind; px_domains := doms; px_subdomain := sub; px_locations := locs; px_grouped := grouped;
     px_by_user := byu; px_user := u; px_pass := p |}.
(* a request on a sub-domain host of a protected proxy that was refused / forwarded *)
Definition sys_host_is_subdomain (pxs : list ha_pxcfg) (sdh : bytes) (rq : ha_req) : bool :=
  existsb (fun p => ha_nonempty (px_subdomain p) &&
                    bytes_eqb (ha_canon_or_self (ha_req_host rq)) (lower ((px_subdomain p ++ ha_dot :: sdh)%list))) pxs.
Definition is_sys_subdomain_refused (c : case) : bool :=
  match c with
  | CSys kind pxs sdh rq _ _ _ =>
      sys_host_is_subdomain pxs sdh rq &&
      (if kind =? 1 then match ha_mux_handle (ha_tbl_get (ha_sys_table sdh kind pxs)) ha_canon_or_self false rq with MAuthFailed _ => true | _ => false end
       else match ha_serve_http (ha_tbl_get (ha_sys_table sdh kind pxs)) ha_canon_or_self rq with OUnauthorized => true | _ => false end)
  | _ => false
  end.
Definition is_sys_subdomain_forwarded (c : case) : bool :=
  match c with
  | CSys kind pxs sdh rq _ _ _ =>
      sys_host_is_subdomain pxs sdh rq &&
      (if kind =? 1 then match ha_mux_handle (ha_tbl_get (ha_sys_table sdh kind pxs)) ha_canon_or_self false rq with MForward _ _ => true | _ => false end
       else match ha_serve_http (ha_tbl_get (ha_sys_table sdh kind pxs)) ha_canon_or_self rq with OForward _ => true | _ => false end)
  | _ => false
  end.

Definition is_hgrp_case (c : case) : bool := match c with CHGrp _ _ _ _ _ => true | _ => false end.
(* joins refused because the joiner's credentials differ from the group's, and protected members that served *)
Definition is_hgrp_refused_join (c : case) : bool :=
  match c with CHGrp ms _ _ _ _ => existsb (fun r => r =? 1) (snd (ha_hgrp_run true [] ms)) | _ => false end.
Definition is_hgrp_protected_delivery (c : case) : bool :=
  match c with
  | CHGrp ms _ rq _ member =>
      match ha_hgrp_deliver ha_canon_or_self (fst (ha_hgrp_run true [] ms)) rq member with
      | Some m => match ha_hmember_creds m with Some _ => true | None => false end
      | None => false
      end
  | _ => false
  end.

Definition is_muxrace_closed (c : case) : bool :=
  match c with
  | CMuxRace tbl rq sched _ _ _ =>
      match ms_conn (ha_mrace_run ha_canon_or_self false {| ms_tbl := tbl; ms_conn := MCNew rq |} sched) with MCClosed => true | _ => false end
  | _ => false
  end.
Definition is_muxrace_delivered (c : case) : bool :=
  match c with
  | CMuxRace tbl rq sched _ _ _ =>
      match ms_conn (ha_mrace_run ha_canon_or_self false {| ms_tbl := tbl; ms_conn := MCNew rq |} sched) with MCDelivered _ => true | _ => false end
  | _ => false
  end.
