(* C04 — proofs about Model/Auth.v.  Statements are re-exported one by one in Properties/C04.v. *)
From FRP Require Import Model.Auth.
From Coq Require Import Lia.
Open Scope Z_scope.

(* ---- equality tests ---------------------------------------------------------------- *)

Lemma au_byte_eqb_refl b : Byte.eqb b b = true.
Proof. now apply Byte.byte_dec_lb. Qed.

Lemma au_beq_iff a : forall b, bytes_eqb a b = true <-> a = b.
Proof.
  induction a as [|x a IH]; intros [|y b]; cbn; split; try congruence; try discriminate.
  - intros E. apply andb_true_iff in E. destruct E as [E1 E2].
    apply Byte.byte_dec_bl in E1. apply IH in E2. congruence.
  - intros [= -> ->]. rewrite au_byte_eqb_refl. cbn. now apply IH.
Qed.

Lemma au_beq_refl a : bytes_eqb a a = true.
Proof. now apply au_beq_iff. Qed.

Lemma au_beq_false a b : bytes_eqb a b = false <-> a <> b.
Proof.
  split.
  - intros E ->. rewrite au_beq_refl in E. discriminate.
  - intros N. destruct (bytes_eqb a b) eqn:E; [|reflexivity]. apply au_beq_iff in E. contradiction.
Qed.

Lemma au_beq_sym a b : bytes_eqb a b = bytes_eqb b a.
Proof.
  destruct (bytes_eqb a b) eqn:E.
  - apply au_beq_iff in E. subst. now rewrite au_beq_refl.
  - apply au_beq_false in E. symmetry. apply au_beq_false. congruence.
Qed.

Lemma au_Z_of_byte_inj x y : Z_of_byte x = Z_of_byte y -> x = y.
Proof.
  unfold Z_of_byte. intros E. apply N2Z.inj in E.
  apply (f_equal Byte.of_N) in E. rewrite !Byte.of_to_N in E. now injection E.
Qed.

Lemma au_Z_of_byte_nonneg x : 0 <= Z_of_byte x.
Proof. unfold Z_of_byte. lia. Qed.

(* the accumulator of ConstantTimeCompare only ever gains bits *)
Lemma au_xor_acc_nonneg a : forall b v, 0 <= v -> 0 <= au_xor_acc a b v.
Proof.
  induction a as [|x a IH]; intros [|y b] v Hv; cbn; try assumption.
  apply IH. apply Z.lor_nonneg. split; [assumption|].
  apply Z.lxor_nonneg. split; intros _; apply au_Z_of_byte_nonneg.
Qed.

Lemma au_xor_acc_zero a : forall b v, 0 <= v -> length a = length b ->
  (au_xor_acc a b v = 0 <-> v = 0 /\ a = b).
Proof.
  induction a as [|x a IH]; intros [|y b] v Hv Hl; cbn in *; try discriminate.
  - split; [intros ->; now split | now intros [-> _]].
  - injection Hl as Hl.
    assert (0 <= Z.lxor (Z_of_byte x) (Z_of_byte y)) as Hx
      by (apply Z.lxor_nonneg; split; intros _; apply au_Z_of_byte_nonneg).
    rewrite IH; [| apply Z.lor_nonneg; now split | assumption].
    rewrite Z.lor_eq_0_iff, Z.lxor_eq_0_iff. split.
    + intros [[-> E] ->]. apply au_Z_of_byte_inj in E. now subst.
    + intros [-> [= -> ->]]. now repeat split.
Qed.

(* util.ConstantTimeEqString decides string equality *)
Lemma au_ct_eq_iff a b : au_ct_eq a b = true <-> a = b.
Proof.
  unfold au_ct_eq. destruct (Nat.eqb (length a) (length b)) eqn:E.
  - apply Nat.eqb_eq in E. rewrite Z.eqb_eq, au_xor_acc_zero by (try lia; assumption). tauto.
  - apply Nat.eqb_neq in E. split; [discriminate | intros ->; contradiction].
Qed.

Lemma au_ct_eq_beq a b : au_ct_eq a b = bytes_eqb b a.
Proof.
  destruct (au_ct_eq a b) eqn:E.
  - apply au_ct_eq_iff in E. subst. now rewrite au_beq_refl.
  - symmetry. apply au_beq_false. intros ->.
    assert (au_ct_eq a a = true) as T by now apply au_ct_eq_iff. congruence.
Qed.

Section AuthProofs.
  Variable H : bytes -> Z -> bytes.
  Variable oidc : bytes -> Z -> option bytes.
  Variable c : au_cfg.

  Notation step := (au_step H oidc c).
  Notation run := (au_run H oidc c).
  Notation cred_login := (au_login_cred_ok H oidc c).
  Notation cred_msg := (au_msg_cred_ok H oidc c).

  (* ---- verifier vs. credential ------------------------------------------------------ *)

  Lemma au_cred_login_rid now l g : cred_login now (au_login_with_rid l g) = cred_login now l.
  Proof. reflexivity. Qed.

  (* the configured verifier accepts a login exactly when the credential was presented (at that time) *)
  Lemma au_verify_login_configured subj now l :
    (exists subj', au_verify_login H oidc c AuConfigured subj now l = AuVOk subj') <-> cred_login now l = true.
  Proof.
    unfold au_verify_login, au_login_cred_ok, au_tok_verify_login, au_oidc_verify_login.
    destruct (ac_method c).
    - rewrite au_ct_eq_beq. destruct (bytes_eqb (al_key l) (au_key H (ac_token c) (al_ts l))); cbn;
        split; try eauto; try discriminate. intros [s E]. discriminate.
    - destruct (oidc (al_key l) now) as [sub|]; cbn.
      + split; [reflexivity|]. intros _. destruct (au_mem sub subj); cbn; eauto.
      + split; [intros [s E]; discriminate | discriminate].
  Qed.

  Lemma au_verify_login_bad subj now l :
    cred_login now l = false -> exists e, au_verify_login H oidc c AuConfigured subj now l = AuVErr e.
  Proof.
    intros B. destruct (au_verify_login H oidc c AuConfigured subj now l) as [s'|e] eqn:E; [|eauto].
    assert (cred_login now l = true) as T by (apply (au_verify_login_configured subj); eauto). congruence.
  Qed.

  Lemma au_verify_ping_bad subj now k ts :
    au_has_scope AuScHeartBeats (ac_scopes c) = true -> cred_msg subj now k ts = false ->
    exists e, au_verify_ping H oidc c AuConfigured subj now k ts = Some e.
  Proof.
    unfold au_verify_ping, au_msg_cred_ok, au_tok_verify_ping, au_oidc_verify_ping, au_oidc_post_login.
    intros S B. rewrite S. cbn. destruct (ac_method c).
    - rewrite au_ct_eq_beq, B. cbn. eauto.
    - destruct (oidc k now) as [sub|]; [rewrite B; cbn|]; eauto.
  Qed.

  Lemma au_verify_ping_ok subj now v k ts :
    au_verify_ping H oidc c v subj now k ts = None ->
    v = AuAlwaysPass \/ au_has_scope AuScHeartBeats (ac_scopes c) = false \/ cred_msg subj now k ts = true.
  Proof.
    unfold au_verify_ping, au_msg_cred_ok, au_tok_verify_ping, au_oidc_verify_ping, au_oidc_post_login.
    destruct v; [|now left]. right.
    destruct (au_has_scope AuScHeartBeats (ac_scopes c)); [right|now left]. cbn in *.
    destruct (ac_method c).
    - rewrite au_ct_eq_beq in *. destruct (bytes_eqb k (au_key H (ac_token c) ts)); cbn in *; congruence.
    - destruct (oidc k now) as [sub|]; [|discriminate]. destruct (au_mem sub subj); cbn in *; congruence.
  Qed.

  Lemma au_verify_workconn_bad subj now k ts :
    au_has_scope AuScNewWorkConns (ac_scopes c) = true -> cred_msg subj now k ts = false ->
    exists e, au_verify_workconn H oidc c AuConfigured subj now k ts = Some e.
  Proof.
    unfold au_verify_workconn, au_msg_cred_ok, au_tok_verify_workconn, au_oidc_verify_workconn, au_oidc_post_login.
    intros S B. rewrite S. cbn. destruct (ac_method c).
    - rewrite au_ct_eq_beq, B. cbn. eauto.
    - destruct (oidc k now) as [sub|]; [rewrite B; cbn|]; eauto.
  Qed.

  Lemma au_verify_workconn_ok subj now v k ts :
    au_verify_workconn H oidc c v subj now k ts = None ->
    v = AuAlwaysPass \/ au_has_scope AuScNewWorkConns (ac_scopes c) = false \/ cred_msg subj now k ts = true.
  Proof.
    unfold au_verify_workconn, au_msg_cred_ok, au_tok_verify_workconn, au_oidc_verify_workconn, au_oidc_post_login.
    destruct v; [|now left]. right.
    destruct (au_has_scope AuScNewWorkConns (ac_scopes c)); [right|now left]. cbn in *.
    destruct (ac_method c).
    - rewrite au_ct_eq_beq in *. destruct (bytes_eqb k (au_key H (ac_token c) ts)); cbn in *; congruence.
    - destruct (oidc k now) as [sub|]; [|discriminate]. destruct (au_mem sub subj); cbn in *; congruence.
  Qed.

  (* with a scope disabled the verifier accepts without looking at the key *)
  Lemma au_scope_off_ping subj now v k ts :
    au_has_scope AuScHeartBeats (ac_scopes c) = false -> au_verify_ping H oidc c v subj now k ts = None.
  Proof.
    intros S. unfold au_verify_ping, au_tok_verify_ping, au_oidc_verify_ping. rewrite S.
    destruct v, (ac_method c); reflexivity.
  Qed.

  Lemma au_scope_off_workconn subj now v k ts :
    au_has_scope AuScNewWorkConns (ac_scopes c) = false -> au_verify_workconn H oidc c v subj now k ts = None.
  Proof.
    intros S. unfold au_verify_workconn, au_tok_verify_workconn, au_oidc_verify_workconn. rewrite S.
    destruct v, (ac_method c); reflexivity.
  Qed.

  (* ---- network_cannot_claim_bypass ---------------------------------------------------- *)

  Lemma au_choose_network sp : au_choose_verifier false sp = AuConfigured.
  Proof. reflexivity. Qed.

  Lemma au_choose_pass_iff internal sp :
    au_choose_verifier internal sp = AuAlwaysPass <-> internal = true /\ asp_always_pass sp = true.
  Proof.
    unfold au_choose_verifier. destruct internal, (asp_always_pass sp); cbn; split; try tauto; try discriminate;
      intros [? ?]; discriminate.
  Qed.

  (* a login without the credential, from a peer that cannot use the internal bypass, is refused
     in EVERY state and leaves it untouched *)
  Lemma au_bad_login_refused s internal conn now gen l0 lplug l :
    au_lplug_apply lplug l0 = Some l ->
    cred_login now l = false -> internal && asp_always_pass (al_spec l) = false ->
    exists e, step s (AuEFirst internal conn now gen (AuFLogin l0 lplug)) = (s, AuORefused (AuRLogin e)).
  Proof.
    intros P B NB. cbn. rewrite P.
    set (l' := au_effective_login l gen).
    assert (al_spec l' = al_spec l) as Es by (unfold l', au_effective_login; destruct (al_rid l); reflexivity).
    assert (cred_login now l' = false) as B' by (unfold l', au_effective_login; destruct (al_rid l); apply B).
    rewrite Es. unfold au_choose_verifier. rewrite NB.
    destruct (au_verify_login_bad (at_subjects s) now l' B') as [e E]. rewrite E. eauto.
  Qed.

  Lemma au_network_login_refused s conn now gen l0 lplug l :
    au_lplug_apply lplug l0 = Some l -> cred_login now l = false ->
    exists e, step s (AuEFirst false conn now gen (AuFLogin l0 lplug)) = (s, AuORefused (AuRLogin e)).
  Proof. intros P B. now apply (au_bad_login_refused s false conn now gen l0 lplug l). Qed.

  (* a Login plugin chain that rejects (or fails) refuses the login on every listener, flag or not *)
  Lemma au_login_plugin_reject_refused s internal conn now gen l0 lplug :
    au_lplug_apply lplug l0 = None ->
    step s (AuEFirst internal conn now gen (AuFLogin l0 lplug)) = (s, AuORefused AuRLoginPlugin).
  Proof. intros P. cbn. now rewrite P. Qed.

  (* any first message that is not Login / NewWorkConn / NewVisitorConn: closed, nothing changes *)
  Lemma au_other_first_refused s internal conn now gen ty :
    step s (AuEFirst internal conn now gen (AuFOther ty)) = (s, AuORefused AuRFirstType).
  Proof. reflexivity. Qed.

  (* ---- refused_attempt_leaves_state_unchanged ------------------------------------------ *)

  Lemma au_refused_unchanged s e :
    au_is_refusal (snd (step s e)) = true -> fst (step s e) = s.
  Proof.
    destruct e as [internal conn now gen m | sid now m | sid | now]; cbn.
    - destruct m as [l lplug | rid key ts plug | rid vm_ok | ty]; cbn.
      + destruct (au_lplug_apply lplug l) as [l1|]; cbn; [|reflexivity].
        destruct (au_verify_login _ _ _ _ _ _ _); cbn; [discriminate | reflexivity].
      + destruct (au_find_rid rid (at_sessions s)) as [x|]; cbn; [|reflexivity].
        destruct (au_plug_apply plug key ts) as [[k' t']|]; cbn; [|reflexivity].
        destruct (au_verify_workconn _ _ _ _ _ _ _ _); cbn; [reflexivity|].
        destruct (_ <? _); cbn; [discriminate | reflexivity].
      + destruct rid as [|b r]; [|destruct (au_find_rid (b :: r) (at_sessions s))]; destruct vm_ok; reflexivity.
      + reflexivity.
    - destruct (au_find_sid sid (at_sessions s)) as [x|]; cbn; [|reflexivity].
      destruct m as [key ts | name cfg_ok run_ok | name | ty]; cbn.
      + destruct (au_verify_ping _ _ _ _ _ _ _ _); cbn; [reflexivity | discriminate].
      + destruct cfg_ok; cbn; [|reflexivity].
        destruct (au_pxy_exists name (at_pxys s)); cbn; [reflexivity|].
        destruct run_ok; cbn; [discriminate | reflexivity].
      + destruct (au_mem name (as_proxies x)); cbn; discriminate.
      + discriminate.
    - destruct (au_find_sid sid (at_sessions s)) as [x|]; cbn; [discriminate | reflexivity].
    - discriminate.
  Qed.

  Lemma au_refused_many evs : forall s,
    Forall (fun e => au_is_refusal (snd (step s e)) = true) evs -> run evs s = s.
  Proof.
    induction evs as [|e r IH]; intros s F; [reflexivity|].
    inversion F as [|? ? F1 F2]; subst. unfold au_run in *. cbn.
    rewrite (au_refused_unchanged s e F1). now apply IH.
  Qed.

  (* interleaved with anything else: a refused event can be deleted from a history *)
  Lemma au_refused_erasable pre e post s :
    au_is_refusal (snd (step (run pre s) e)) = true ->
    run (pre ++ e :: post) s = run (pre ++ post) s.
  Proof.
    intros R. unfold au_run in *. rewrite !fold_left_app. cbn.
    now rewrite (au_refused_unchanged _ e R).
  Qed.

  (* ---- direct forms for ping and work connection ----------------------------------------- *)

  Lemma au_bad_ping_no_refresh s sid now key ts x :
    au_has_scope AuScHeartBeats (ac_scopes c) = true ->
    au_find_sid sid (at_sessions s) = Some x -> as_verifier x = AuConfigured ->
    cred_msg (at_subjects s) now key ts = false ->
    exists e, step s (AuELater sid now (AuLPing key ts)) = (s, AuOPongErr e).
  Proof.
    intros S F V B. cbn. rewrite F. cbn. rewrite V.
    destruct (au_verify_ping_bad (at_subjects s) now key ts S B) as [e E]. rewrite E. eauto.
  Qed.

  Lemma au_workconn_unknown_refused s internal conn now gen rid key ts plug :
    au_find_rid rid (at_sessions s) = None ->
    step s (AuEFirst internal conn now gen (AuFWorkConn rid key ts plug)) = (s, AuORefused AuRWorkUnknownRun).
  Proof. intros F. cbn. now rewrite F. Qed.

  (* the plugin chain refusing (or failing) refuses the work connection *)
  Lemma au_workconn_plugin_reject_refused s internal conn now gen rid key ts plug x :
    au_find_rid rid (at_sessions s) = Some x -> au_plug_apply plug key ts = None ->
    step s (AuEFirst internal conn now gen (AuFWorkConn rid key ts plug)) = (s, AuORefused AuRWorkPlugin).
  Proof. intros F P. cbn. now rewrite F, P. Qed.

  (* verification applies to what the plugin chain returns: if THAT lacks the credential the
     connection is refused, whatever the peer originally sent *)
  Lemma au_bad_workconn_refused s internal conn now gen rid key ts plug key' ts' x :
    au_has_scope AuScNewWorkConns (ac_scopes c) = true ->
    au_find_rid rid (at_sessions s) = Some x -> as_verifier x = AuConfigured ->
    au_plug_apply plug key ts = Some (key', ts') ->
    cred_msg (at_subjects s) now key' ts' = false ->
    exists e, step s (AuEFirst internal conn now gen (AuFWorkConn rid key ts plug)) = (s, AuORefused (AuRWorkAuth e)).
  Proof.
    intros S F V P B. cbn. rewrite F, P, V.
    destruct (au_verify_workconn_bad (at_subjects s) now key' ts' S B) as [e E]. rewrite E. eauto.
  Qed.

  (* ---- where the sessions of the next state come from ------------------------------------ *)

  Notation sessions := at_sessions.

  Lemma au_in_set_session x' l y :
    In y (au_set_session x' l) -> In y l \/ (y = x' /\ exists z, In z l /\ as_sid z = as_sid x').
  Proof.
    unfold au_set_session. intros I. apply in_map_iff in I as [z [E I]].
    destruct (as_sid z =? as_sid x') eqn:S.
    - right. split; [congruence|]. exists z. split; [assumption | lia].
    - left. congruence.
  Qed.

  Lemma au_in_drop_sid sid l y : In y (au_drop_sid sid l) <-> In y l /\ as_sid y <> sid.
  Proof.
    unfold au_drop_sid. rewrite filter_In. split; intros [I N]; split; try assumption.
    - destruct (as_sid y =? sid) eqn:E; [discriminate | lia].
    - destruct (as_sid y =? sid) eqn:E; [lia | reflexivity].
  Qed.

  Lemma au_find_sid_some sid l x : au_find_sid sid l = Some x -> In x l /\ as_sid x = sid.
  Proof.
    induction l as [|z l IH]; cbn; [discriminate|]. destruct (as_sid z =? sid) eqn:E.
    - intros [= ->]. split; [now left | lia].
    - intros F. destruct (IH F). split; [now right | assumption].
  Qed.

  Lemma au_find_rid_some rid l x : au_find_rid rid l = Some x -> In x l /\ as_rid x = rid.
  Proof.
    induction l as [|z l IH]; cbn; [discriminate|]. destruct (bytes_eqb (as_rid z) rid) eqn:E.
    - intros [= ->]. apply au_beq_iff in E. split; [now left | assumption].
    - intros F. destruct (IH F). split; [now right | assumption].
  Qed.

  Lemma au_find_rid_none rid l : au_find_rid rid l = None -> forall x, In x l -> as_rid x <> rid.
  Proof.
    induction l as [|z l IH]; cbn; [tauto|]. destruct (bytes_eqb (as_rid z) rid) eqn:E; [discriminate|].
    intros F x [->|I]; [now apply au_beq_false | now apply IH].
  Qed.

  (* the heartbeat sweep only removes *)
  Lemma au_check_sessions now l : forall s y,
    In y (sessions (fold_left (fun s' x => if au_hb_expired c now x then au_teardown s' x else s') l s)) <->
    In y (sessions s) /\ (forall x, In x l -> au_hb_expired c now x = true -> as_sid x <> as_sid y).
  Proof.
    induction l as [|z l IH]; intros s y; cbn.
    - tauto.
    - rewrite IH. destruct (au_hb_expired c now z) eqn:E; cbn.
      + rewrite au_in_drop_sid. split.
        * intros [[I N] A]. split; [assumption|]. intros x [<-|Ix] Ex; [congruence | now apply A].
        * intros [I A]. split; [split; [assumption|] |].
          -- intros E'. apply (A z); [now left | assumption | congruence].
          -- intros x Ix. apply A. now right.
      + split.
        * intros [I A]. split; [assumption|]. intros x [<-|Ix] Ex; [congruence | now apply A].
        * intros [I A]. split; [assumption|]. intros x Ix. apply A. now right.
  Qed.

  (* every session of the next state is an old one, an old one with one field refreshed by an
     accepted message, or the product of an accepted login *)
  Inductive au_origin (s : au_state) (e : au_event) (y : au_session) : Prop :=
  | AuKept : In y (sessions s) -> au_origin s e y
  | AuPinged x sid now key ts :
      e = AuELater sid now (AuLPing key ts) -> au_find_sid sid (sessions s) = Some x ->
      au_verify_ping H oidc c (as_verifier x) (at_subjects s) now key ts = None ->
      y = au_upd_ping x now -> au_origin s e y
  | AuPooled x internal conn now gen rid key0 ts0 plug key ts :
      e = AuEFirst internal conn now gen (AuFWorkConn rid key0 ts0 plug) ->
      au_find_rid rid (sessions s) = Some x ->
      au_plug_apply plug key0 ts0 = Some (key, ts) ->
      au_verify_workconn H oidc c (as_verifier x) (at_subjects s) now key ts = None ->
      y = au_upd_pool x (as_pool x ++ [conn]) -> au_origin s e y
  | AuProxied x sid now m p :
      e = AuELater sid now m -> au_find_sid sid (sessions s) = Some x ->
      (forall key ts, m <> AuLPing key ts) ->
      y = au_upd_proxies x p -> au_origin s e y
  | AuLoggedIn internal conn now gen l00 lplug l0 subj :
      e = AuEFirst internal conn now gen (AuFLogin l00 lplug) ->
      au_lplug_apply lplug l00 = Some l0 ->
      au_verify_login H oidc c (au_choose_verifier internal (al_spec (au_effective_login l0 gen)))
                      (at_subjects s) now (au_effective_login l0 gen) = AuVOk subj ->
      y = {| as_sid := at_next s; as_rid := al_rid (au_effective_login l0 gen);
             as_login := au_effective_login l0 gen; as_internal := internal;
             as_verifier := au_choose_verifier internal (al_spec (au_effective_login l0 gen));
             as_last_ping := now; as_pool := [];
             as_pool_cap := au_pool_cap c (al_pool (au_effective_login l0 gen)); as_proxies := [] |} ->
      au_origin s e y.

  Lemma au_origin_step s e y : In y (sessions (fst (step s e))) -> au_origin s e y.
  Proof.
    destruct e as [internal conn now gen m | sid now m | sid | now]; cbn.
    - destruct m as [l00 lplug | rid key0 ts0 plug | rid vm_ok | ty]; cbn.
      + destruct (au_lplug_apply lplug l00) as [l0|] eqn:LP; cbn; [|now constructor].
        destruct (au_verify_login _ _ _ _ _ _ _) as [subj|err] eqn:V; cbn; [|now constructor].
        intros [<-|I].
        * eapply AuLoggedIn; [reflexivity | exact LP | exact V | reflexivity].
        * apply AuKept. destruct (au_find_rid _ (sessions s)) as [old|]; [|assumption].
          cbn in I. now apply au_in_drop_sid in I.
      + destruct (au_find_rid rid (sessions s)) as [x|] eqn:F; cbn; [|now constructor].
        destruct (au_plug_apply plug key0 ts0) as [[key ts]|] eqn:P; cbn; [|now constructor].
        destruct (au_verify_workconn _ _ _ _ _ _ _ _) eqn:V; cbn; [now constructor|].
        destruct (_ <? _); cbn; [|now constructor].
        intros I. apply au_in_set_session in I as [I|[-> _]]; [now constructor|].
        eapply AuPooled; [reflexivity | exact F | exact P | exact V | reflexivity].
      + destruct rid as [|b r]; [|destruct (au_find_rid (b :: r) (sessions s))]; destruct vm_ok; now constructor.
      + now constructor.
    - destruct (au_find_sid sid (sessions s)) as [x|] eqn:F; cbn; [|now constructor].
      destruct m as [key ts | name cfg_ok run_ok | name | ty]; cbn.
      + destruct (au_verify_ping _ _ _ _ _ _ _ _) eqn:V; cbn; [now constructor|].
        intros I. apply au_in_set_session in I as [I|[-> _]]; [now constructor|].
        eapply AuPinged; [reflexivity | exact F | exact V | reflexivity].
      + destruct cfg_ok; cbn; [|now constructor].
        destruct (au_pxy_exists name (at_pxys s)); cbn; [now constructor|].
        destruct run_ok; cbn; [|now constructor].
        intros I. apply au_in_set_session in I as [I|[-> _]]; [now constructor|].
        eapply AuProxied; [reflexivity | exact F | discriminate | reflexivity].
      + destruct (au_mem name (as_proxies x)); cbn; [|now constructor].
        intros I. apply au_in_set_session in I as [I|[-> _]]; [now constructor|].
        eapply AuProxied; [reflexivity | exact F | discriminate | reflexivity].
      + now constructor.
    - destruct (au_find_sid sid (sessions s)) as [x|]; cbn; [|now constructor].
      intros I. apply au_in_drop_sid in I. now constructor.
    - intros I. apply au_check_sessions in I. now constructor.
  Qed.

  (* ---- session_implies_verified --------------------------------------------------------- *)

  Notation verified := (au_session_verified H oidc c).

  Lemma au_verified_step s e :
    (forall x, In x (sessions s) -> verified x) ->
    forall y, In y (sessions (fst (step s e))) -> verified y.
  Proof.
    intros A y I. apply au_origin_step in I.
    destruct I as [I | x sid now key ts _ F _ -> | x internal conn now gen rid key0 ts0 plug key ts _ F _ _ ->
                   | x sid now m p _ F _ -> | internal conn now gen l00 lplug l0 subj _ LP V ->].
    - now apply A.
    - apply au_find_sid_some in F as [I _]. exact (A x I).
    - apply au_find_rid_some in F as [I _]. exact (A x I).
    - apply au_find_sid_some in F as [I _]. exact (A x I).
    - unfold au_session_verified. cbn. split; [reflexivity|]. split; [reflexivity|].
      destruct (au_choose_verifier internal (al_spec (au_effective_login l0 gen))) eqn:Cv.
      + left. split; [reflexivity|]. exists now. apply (au_verify_login_configured (at_subjects s)). eauto.
      + right. apply au_choose_pass_iff in Cv. tauto.
  Qed.

  Lemma au_run_snoc evs e s : run (evs ++ [e]) s = fst (step (run evs s) e).
  Proof. unfold au_run. now rewrite fold_left_app. Qed.

  Theorem au_session_implies_verified evs :
    forall x, In x (sessions (run evs (au_init))) -> verified x.
  Proof.
    induction evs as [|e evs IH] using rev_ind.
    - cbn. tauto.
    - rewrite au_run_snoc. now apply au_verified_step.
  Qed.
  (* ---- well-formedness of reachable states ---------------------------------------------------- *)

  Definition au_wf (s : au_state) : Prop :=
    NoDup (map as_sid (sessions s)) /\
    (forall x, In x (sessions s) -> as_sid x < at_next s) /\
    NoDup (map as_rid (sessions s)) /\
    (forall n sid, In (n, sid) (at_pxys s) ->
       exists x, In x (sessions s) /\ as_sid x = sid /\ In n (as_proxies x)).

  Lemma au_nodup_map_inj {A B} (f : A -> B) l a b :
    NoDup (map f l) -> In a l -> In b l -> f a = f b -> a = b.
  Proof.
    induction l as [|z l IH]; cbn; [tauto|]. intros N Ia Ib E. inversion N as [|? ? N1 N2]; subst.
    destruct Ia as [->|Ia], Ib as [->|Ib]; try reflexivity.
    - exfalso. apply N1. rewrite E. now apply in_map.
    - exfalso. apply N1. rewrite <- E. now apply in_map.
    - now apply IH.
  Qed.

  Lemma au_nodup_map_filter {A B} (f : A -> B) p l : NoDup (map f l) -> NoDup (map f (filter p l)).
  Proof.
    induction l as [|z l IH]; cbn; [tauto|]. intros N. inversion N as [|? ? N1 N2]; subst.
    destruct (p z); cbn; [constructor|]; try now apply IH.
    intros I. apply N1. apply in_map_iff in I as [y [E I]]. apply filter_In in I as [I _].
    rewrite <- E. now apply in_map.
  Qed.

  Lemma au_find_sid_in l x : NoDup (map as_sid l) -> In x l -> au_find_sid (as_sid x) l = Some x.
  Proof.
    induction l as [|z l IH]; cbn; [tauto|]. intros N I. inversion N as [|? ? N1 N2]; subst.
    destruct (as_sid z =? as_sid x) eqn:E.
    - destruct I as [->|I]; [reflexivity|]. exfalso. apply N1. apply Z.eqb_eq in E. rewrite E. now apply in_map.
    - destruct I as [->|I]; [lia|]. now apply IH.
  Qed.

  Lemma au_set_session_map {B} (f : au_session -> B) l x x' :
    NoDup (map as_sid l) -> In x l -> as_sid x' = as_sid x -> f x' = f x ->
    map f (au_set_session x' l) = map f l.
  Proof.
    intros N I Es Ef. unfold au_set_session. rewrite map_map. apply map_ext_in. intros z Iz.
    destruct (as_sid z =? as_sid x') eqn:E; [|reflexivity].
    assert (z = x) as -> by (apply (au_nodup_map_inj as_sid l); try assumption; lia). assumption.
  Qed.

  Lemma au_in_set_session_self l x x' : In x l -> as_sid x' = as_sid x -> In x' (au_set_session x' l).
  Proof.
    intros I E. unfold au_set_session. apply in_map_iff. exists x. split; [|assumption].
    rewrite <- E, Z.eqb_refl. reflexivity.
  Qed.

  Lemma au_in_set_session_other l x' z : In z l -> as_sid z <> as_sid x' -> In z (au_set_session x' l).
  Proof.
    intros I N. unfold au_set_session. apply in_map_iff. exists z. split; [|assumption].
    destruct (as_sid z =? as_sid x') eqn:E; [lia | reflexivity].
  Qed.

  Lemma au_wf_teardown s x : au_wf s -> au_wf (au_teardown s x).
  Proof.
    intros (N & B & R & P). unfold au_wf, au_teardown; cbn. repeat split.
    - now apply au_nodup_map_filter.
    - intros y I. apply au_in_drop_sid in I. now apply B.
    - now apply au_nodup_map_filter.
    - intros n sid I. unfold au_drop_owner in I. apply filter_In in I as [I Ne]. cbn in Ne.
      destruct (P n sid I) as (y & Iy & Es & In_). exists y. repeat split; try assumption.
      apply au_in_drop_sid. split; [assumption|]. destruct (sid =? as_sid x) eqn:E; [discriminate | lia].
  Qed.

  (* replacing one session by an update that keeps sid and rid and does not lose proxies *)
  Lemma au_wf_update s x x' pxys' :
    au_wf s -> In x (sessions s) -> as_sid x' = as_sid x -> as_rid x' = as_rid x ->
    (forall n sid, In (n, sid) pxys' ->
       (In (n, sid) (at_pxys s) /\ (sid = as_sid x -> In n (as_proxies x'))) \/ (sid = as_sid x /\ In n (as_proxies x'))) ->
    au_wf {| at_sessions := au_set_session x' (sessions s); at_pxys := pxys';
             at_subjects := at_subjects s; at_next := at_next s |}.
  Proof.
    intros (N & B & R & P) I Es Er Px. unfold au_wf; cbn. repeat split.
    - now rewrite (au_set_session_map as_sid _ x x').
    - intros y Iy. apply au_in_set_session in Iy as [Iy|[-> _]]; [now apply B|]. rewrite Es. now apply B.
    - now rewrite (au_set_session_map as_rid _ x x').
    - intros n sid In_. destruct (Px n sid In_) as [[Iold Keep]|[-> Inew]].
      + destruct (P n sid Iold) as (y & Iy & Ey & Ny).
        destruct (Z.eq_dec sid (as_sid x)) as [E|E].
        * exists x'. repeat split; [now apply (au_in_set_session_self _ x) | lia | now apply Keep].
        * exists y. repeat split; try assumption. apply au_in_set_session_other; [assumption | lia].
      + exists x'. repeat split; [now apply (au_in_set_session_self _ x) | assumption | assumption].
  Qed.

  Lemma au_wf_check now l : forall s, au_wf s ->
    au_wf (fold_left (fun s' x => if au_hb_expired c now x then au_teardown s' x else s') l s).
  Proof.
    induction l as [|z l IH]; intros s W; cbn; [assumption|]. apply IH.
    destruct (au_hb_expired c now z); [now apply au_wf_teardown | assumption].
  Qed.

  Lemma au_wf_step s e : au_wf s -> au_wf (fst (step s e)).
  Proof.
    intros W. destruct e as [internal conn now gen m | sid now m | sid | now]; cbn.
    - destruct m as [l00 lplug | rid key ts plug | rid vm_ok | ty]; cbn.
      + destruct (au_lplug_apply lplug l00) as [l0|]; cbn; [|assumption].
        destruct (au_verify_login _ _ _ _ _ _ _) as [subj|err] eqn:V; cbn; [|assumption].
        set (l := au_effective_login l0 gen).
        assert (exists s1, s1 = match au_find_rid (al_rid l) (sessions s) with Some old => au_teardown s old | None => s end
                           /\ au_wf s1 /\ at_next s1 = at_next s /\
                           (forall y, In y (sessions s1) -> In y (sessions s) /\ as_rid y <> al_rid l)) as (s1 & -> & W1 & En & Sub).
        { eexists. split; [reflexivity|]. destruct (au_find_rid (al_rid l) (sessions s)) as [old|] eqn:F.
          - split; [now apply au_wf_teardown|]. split; [reflexivity|]. intros y Iy. cbn in Iy.
            apply au_in_drop_sid in Iy as [Iy Ny]. split; [assumption|]. intros Er.
            apply au_find_rid_some in F as [Io Ero]. destruct W as (Nd & _ & R & _).
            apply Ny. f_equal. apply (au_nodup_map_inj as_rid (sessions s)); try assumption. congruence.
          - split; [assumption|]. split; [reflexivity|]. intros y Iy. split; [assumption|].
            now apply (au_find_rid_none _ _ F). }
        destruct W1 as (N1 & B1 & R1 & P1). destruct W as (N & B & R & P).
        unfold au_wf; cbn. repeat split.
        * constructor; [|assumption]. intros I. apply in_map_iff in I as [y [E Iy]].
          apply Sub in Iy as [Iy _]. apply B in Iy. lia.
        * intros y [<-|Iy]; cbn; [lia|]. apply Sub in Iy as [Iy _]. apply B in Iy. lia.
        * constructor; [|assumption]. intros I. apply in_map_iff in I as [y [E Iy]].
          apply Sub in Iy as [_ Ny]. now apply Ny.
        * intros n sid I. destruct (P1 n sid I) as (y & Iy & Ey & Ny). exists y. repeat split; try assumption. now right.
      + destruct (au_find_rid rid (sessions s)) as [x|] eqn:F; cbn; [|assumption].
        destruct (au_plug_apply plug key ts) as [[key' ts']|]; cbn; [|assumption].
        destruct (au_verify_workconn _ _ _ _ _ _ _ _); cbn; [assumption|].
        destruct (_ <? _); cbn; [|assumption].
        apply au_find_rid_some in F as [I _].
        apply (au_wf_update s x); try assumption; try reflexivity.
        intros n sid In_. left. split; [assumption|]. intros ->. cbn.
        destruct W as (Nd & _ & _ & P). destruct (P n _ In_) as (y & Iy & Ey & Ny).
        now rewrite <- (au_nodup_map_inj as_sid (sessions s) y x Nd Iy I Ey).
      + destruct rid as [|b r]; [|destruct (au_find_rid (b :: r) (sessions s))]; destruct vm_ok; assumption.
      + assumption.
    - destruct (au_find_sid sid (sessions s)) as [x|] eqn:F; cbn; [|assumption].
      apply au_find_sid_some in F as [I Es].
      assert (forall n, In (n, as_sid x) (at_pxys s) -> In n (as_proxies x)) as Own.
      { intros n In_. destruct W as (Nd & _ & _ & P). destruct (P n _ In_) as (y & Iy & Ey & Ny).
        now rewrite <- (au_nodup_map_inj as_sid (sessions s) y x Nd Iy I Ey). }
      destruct m as [key ts | name cfg_ok run_ok | name | ty]; cbn.
      + destruct (au_verify_ping _ _ _ _ _ _ _ _); cbn; [assumption|].
        apply (au_wf_update s x); try assumption; try reflexivity.
        intros n sid' In_. left. split; [assumption|]. intros ->. cbn. now apply Own.
      + destruct cfg_ok; cbn; [|assumption].
        destruct (au_pxy_exists name (at_pxys s)); cbn; [assumption|].
        destruct run_ok; cbn; [|assumption].
        apply (au_wf_update s x); try assumption; try reflexivity.
        intros n sid' In_. apply in_app_iff in In_ as [In_|[[= <- <-]|[]]].
        * left. split; [assumption|]. intros ->. cbn. apply in_app_iff. left. now apply Own.
        * right. split; [reflexivity|]. cbn. apply in_app_iff. right. now left.
      + destruct (au_mem name (as_proxies x)); cbn; [|assumption].
        apply (au_wf_update s x); try assumption; try reflexivity.
        intros n sid' In_. apply filter_In in In_ as [In_ Ne]. cbn in Ne. left. split; [assumption|].
        intros ->. cbn. apply filter_In. split; [now apply Own | assumption].
      + assumption.
    - destruct (au_find_sid sid (sessions s)) as [x|]; cbn; [|assumption]. now apply au_wf_teardown.
    - now apply au_wf_check.
  Qed.

  Lemma au_wf_init : au_wf au_init.
  Proof. unfold au_wf; cbn. repeat split; try constructor; tauto. Qed.

  Lemma au_wf_run evs : au_wf (run evs au_init).
  Proof.
    induction evs as [|e evs IH] using rev_ind; [apply au_wf_init|].
    rewrite au_run_snoc. now apply au_wf_step.
  Qed.

  Lemma au_wf_run_from evs : forall s, au_wf s -> au_wf (run evs s).
  Proof.
    induction evs as [|e evs IH]; intros s W; [assumption|]. unfold au_run in *. cbn. apply IH. now apply au_wf_step.
  Qed.

  (* ---- proxy_registered_only_on_session --------------------------------------------------------- *)

  Theorem au_proxy_only_on_session evs n sid :
    In (n, sid) (at_pxys (run evs au_init)) ->
    exists x, In x (sessions (run evs au_init)) /\ as_sid x = sid /\ In n (as_proxies x) /\ verified x.
  Proof.
    intros I. destruct (au_wf_run evs) as (_ & _ & _ & P). destruct (P n sid I) as (x & Ix & Es & Nx).
    exists x. split; [assumption|]. split; [assumption|]. split; [assumption|].
    now apply (au_session_implies_verified evs).
  Qed.

  (* the session table is keyed by run id, Control identities are unique *)
  Theorem au_table_keyed evs x y :
    In x (sessions (run evs au_init)) -> In y (sessions (run evs au_init)) ->
    as_rid x = as_rid y \/ as_sid x = as_sid y -> x = y.
  Proof.
    intros Ix Iy. destruct (au_wf_run evs) as (N & _ & R & _). intros [E|E].
    - now apply (au_nodup_map_inj as_rid _ x y R).
    - now apply (au_nodup_map_inj as_sid _ x y N).
  Qed.

  (* ---- existing_sessions_undisturbed ----------------------------------------------------------------- *)

  Lemma au_undisturbed_wf s e x :
    au_wf s -> In x (sessions s) -> au_addresses c e x = false -> In x (sessions (fst (step s e))).
  Proof.
    intros W I A. pose proof W as (N & B & R & P).
    destruct e as [internal conn now gen m | sid now m | sid | now]; cbn in *.
    - destruct m as [l00 lplug | rid key ts plug | rid vm_ok | ty]; cbn.
      + destruct (au_lplug_apply lplug l00) as [l0|] eqn:LP; cbn; [|assumption].
        destruct (au_verify_login _ _ _ _ _ _ _) as [subj|err]; cbn; [|assumption]. right.
        destruct (au_find_rid _ (sessions s)) as [old|] eqn:F; [|assumption]. cbn.
        apply au_in_drop_sid. split; [assumption|]. intros Es.
        apply au_find_rid_some in F as [Io Er].
        assert (x = old) as -> by now apply (au_nodup_map_inj as_sid (sessions s)).
        apply au_beq_false in A. congruence.
      + destruct (au_find_rid rid (sessions s)) as [x0|] eqn:F; cbn; [|assumption].
        destruct (au_plug_apply plug key ts) as [[key' ts']|]; cbn; [|assumption].
        destruct (au_verify_workconn _ _ _ _ _ _ _ _); cbn; [assumption|].
        destruct (_ <? _); cbn; [|assumption].
        apply au_in_set_session_other; [assumption|]. cbn. intros Es.
        apply au_find_rid_some in F as [Io Er].
        assert (x = x0) as -> by now apply (au_nodup_map_inj as_sid (sessions s)).
        apply au_beq_false in A. congruence.
      + destruct rid as [|b r]; [|destruct (au_find_rid (b :: r) (sessions s))]; destruct vm_ok; assumption.
      + assumption.
    - destruct (au_find_sid sid (sessions s)) as [x0|] eqn:F; cbn; [|assumption].
      apply au_find_sid_some in F as [Io Es].
      assert (as_sid x <> as_sid x0) as Ne by lia.
      destruct m as [key ts | name cfg_ok run_ok | name | ty]; cbn.
      + destruct (au_verify_ping _ _ _ _ _ _ _ _); cbn; [assumption|]. now apply au_in_set_session_other.
      + destruct cfg_ok; cbn; [|assumption].
        destruct (au_pxy_exists name (at_pxys s)); cbn; [assumption|].
        destruct run_ok; cbn; [|assumption]. now apply au_in_set_session_other.
      + destruct (au_mem name (as_proxies x0)); cbn; [|assumption]. now apply au_in_set_session_other.
      + assumption.
    - destruct (au_find_sid sid (sessions s)) as [x0|] eqn:F; cbn; [|assumption].
      apply au_find_sid_some in F as [Io Es]. apply au_in_drop_sid. split; [assumption | lia].
    - apply au_check_sessions. split; [assumption|]. intros z Iz Ez Es.
      assert (z = x) as -> by now apply (au_nodup_map_inj as_sid (sessions s)). congruence.
  Qed.

  Theorem au_existing_sessions_undisturbed evs e x :
    In x (sessions (run evs au_init)) ->
    au_addresses c e x = false \/ au_is_refusal (snd (step (run evs au_init) e)) = true ->
    In x (sessions (run (evs ++ [e]) au_init)).
  Proof.
    intros I [A|Rf]; rewrite au_run_snoc.
    - apply au_undisturbed_wf; [apply au_wf_run | assumption | assumption].
    - now rewrite (au_refused_unchanged _ _ Rf).
  Qed.

  (* ---- converses: what a change of lastPing / of a pool implies ------------------------------------------ *)

  Lemma au_ping_converse_wf s e x x' :
    au_wf s -> In x (sessions s) -> In x' (sessions (fst (step s e))) -> as_sid x' = as_sid x ->
    as_last_ping x' <> as_last_ping x ->
    exists now key ts, e = AuELater (as_sid x) now (AuLPing key ts) /\ as_last_ping x' = now /\
      (as_verifier x = AuAlwaysPass \/ au_has_scope AuScHeartBeats (ac_scopes c) = false \/
       cred_msg (at_subjects s) now key ts = true).
  Proof.
    intros (N & B & R & P) I I' Es Nl. apply au_origin_step in I'.
    destruct I' as [Ik | x0 sid now key ts -> F V -> | x0 internal conn now gen rid key0 ts0 plug key ts _ F _ _ ->
                   | x0 sid now m p _ F _ -> | internal conn now gen l00 lplug l0 subj _ LP V ->].
    - exfalso. apply Nl. f_equal. now apply (au_nodup_map_inj as_sid (sessions s)).
    - apply au_find_sid_some in F as [I0 E0]. cbn in *.
      assert (x0 = x) as -> by now apply (au_nodup_map_inj as_sid (sessions s)).
      exists now, key, ts. repeat split; [congruence | now apply au_verify_ping_ok].
    - exfalso. apply au_find_rid_some in F as [I0 _]. cbn in *.
      assert (x0 = x) as -> by now apply (au_nodup_map_inj as_sid (sessions s)). now apply Nl.
    - exfalso. apply au_find_sid_some in F as [I0 _]. cbn in *.
      assert (x0 = x) as -> by now apply (au_nodup_map_inj as_sid (sessions s)). now apply Nl.
    - exfalso. cbn in Es. apply B in I. lia.
  Qed.

  Theorem au_ping_refresh_implies_valid evs e x x' :
    In x (sessions (run evs au_init)) -> In x' (sessions (run (evs ++ [e]) au_init)) ->
    as_sid x' = as_sid x -> as_last_ping x' <> as_last_ping x ->
    exists now key ts, e = AuELater (as_sid x) now (AuLPing key ts) /\ as_last_ping x' = now /\
      (as_verifier x = AuAlwaysPass \/ au_has_scope AuScHeartBeats (ac_scopes c) = false \/
       cred_msg (at_subjects (run evs au_init)) now key ts = true).
  Proof. rewrite au_run_snoc. apply au_ping_converse_wf. apply au_wf_run. Qed.

  Lemma au_pool_converse_wf s e x x' cn :
    au_wf s -> In x (sessions s) -> In x' (sessions (fst (step s e))) -> as_sid x' = as_sid x ->
    In cn (as_pool x') -> ~ In cn (as_pool x) ->
    exists internal now gen key0 ts0 plug key ts,
      e = AuEFirst internal cn now gen (AuFWorkConn (as_rid x) key0 ts0 plug) /\
      au_plug_apply plug key0 ts0 = Some (key, ts) /\
      (as_verifier x = AuAlwaysPass \/ au_has_scope AuScNewWorkConns (ac_scopes c) = false \/
       cred_msg (at_subjects s) now key ts = true).
  Proof.
    intros (N & B & R & P) I I' Es Ic Nc. apply au_origin_step in I'.
    destruct I' as [Ik | x0 sid now key ts _ F _ -> | x0 internal conn now gen rid key0 ts0 plug key ts -> F Pl V ->
                   | x0 sid now m p _ F _ -> | internal conn now gen l00 lplug l0 subj _ LP V ->].
    - exfalso. apply Nc. now rewrite <- (au_nodup_map_inj as_sid (sessions s) x' x N Ik I Es).
    - exfalso. apply au_find_sid_some in F as [I0 _]. cbn in *.
      assert (x0 = x) as -> by now apply (au_nodup_map_inj as_sid (sessions s)). now apply Nc.
    - apply au_find_rid_some in F as [I0 Er]. cbn in *.
      assert (x0 = x) as -> by now apply (au_nodup_map_inj as_sid (sessions s)).
      apply in_app_iff in Ic as [Ic|[<-|[]]]; [contradiction|].
      exists internal, now, gen, key0, ts0, plug, key, ts. split; [congruence|]. split; [exact Pl|]. now apply au_verify_workconn_ok.
    - exfalso. apply au_find_sid_some in F as [I0 _]. cbn in *.
      assert (x0 = x) as -> by now apply (au_nodup_map_inj as_sid (sessions s)). now apply Nc.
    - cbn in Ic. contradiction.
  Qed.

  Theorem au_workconn_pooled_implies_known_and_valid evs e x x' cn :
    In x (sessions (run evs au_init)) -> In x' (sessions (run (evs ++ [e]) au_init)) ->
    as_sid x' = as_sid x -> In cn (as_pool x') -> ~ In cn (as_pool x) ->
    exists internal now gen key0 ts0 plug key ts,
      e = AuEFirst internal cn now gen (AuFWorkConn (as_rid x) key0 ts0 plug) /\
      au_plug_apply plug key0 ts0 = Some (key, ts) /\
      (as_verifier x = AuAlwaysPass \/ au_has_scope AuScNewWorkConns (ac_scopes c) = false \/
       cred_msg (at_subjects (run evs au_init)) now key ts = true).
  Proof. rewrite au_run_snoc. apply au_pool_converse_wf. apply au_wf_run. Qed.

  (* a brand-new session has an empty pool and no proxies: nothing is pooled or registered "in advance" *)
  Lemma au_new_session_empty s e y :
    au_wf s -> In y (sessions (fst (step s e))) -> (forall x, In x (sessions s) -> as_sid x <> as_sid y) ->
    as_pool y = [] /\ as_proxies y = [] /\
    exists internal conn now gen l00 lplug, e = AuEFirst internal conn now gen (AuFLogin l00 lplug).
  Proof.
    intros W I' Fresh. apply au_origin_step in I'.
    destruct I' as [Ik | x0 sid now key ts _ F _ -> | x0 internal conn now gen rid key0 ts0 plug key ts _ F _ _ ->
                   | x0 sid now m p _ F _ -> | internal conn now gen l00 lplug l0 subj -> LP V ->].
    - exfalso. now apply (Fresh y).
    - exfalso. apply au_find_sid_some in F as [I0 _]. now apply (Fresh x0).
    - exfalso. apply au_find_rid_some in F as [I0 _]. now apply (Fresh x0).
    - exfalso. apply au_find_sid_some in F as [I0 _]. now apply (Fresh x0).
    - cbn. repeat split. eauto 10.
  Qed.

  (* ---- history form of session_implies_verified ----------------------------------------------------------- *)

  Theorem au_session_has_login_event evs x :
    In x (sessions (run evs au_init)) ->
    exists internal conn now gen l00 lplug l0,
      In (AuEFirst internal conn now gen (AuFLogin l00 lplug)) evs /\ au_lplug_apply lplug l00 = Some l0 /\
      as_login x = au_effective_login l0 gen /\ as_internal x = internal /\
      (cred_login now l0 = true \/ (internal = true /\ asp_always_pass (al_spec l0) = true)).
  Proof.
    revert x. induction evs as [|e evs IH] using rev_ind; [cbn; tauto|].
    intros y I.
    rewrite au_run_snoc in I. apply au_origin_step in I.
    assert (forall x0, In x0 (sessions (run evs au_init)) -> as_login y = as_login x0 -> as_internal y = as_internal x0 ->
            exists internal conn now gen l00 lplug l0,
              In (AuEFirst internal conn now gen (AuFLogin l00 lplug)) (evs ++ [e]) /\ au_lplug_apply lplug l00 = Some l0 /\
              as_login y = au_effective_login l0 gen /\ as_internal y = internal /\
              (cred_login now l0 = true \/ (internal = true /\ asp_always_pass (al_spec l0) = true))) as Old.
    { intros x0 I0 El Ei. destruct (IH x0 I0) as (i & cn & nw & g & l00 & lp & l0 & Ie & Ep & E1 & E2 & Cr).
      exists i, cn, nw, g, l00, lp, l0. repeat split; try congruence. apply in_app_iff. now left. }
    destruct I as [Ik | x0 sid now key ts _ F _ -> | x0 internal conn now gen rid key0 ts0 plug key ts _ F _ _ ->
                   | x0 sid now m p _ F _ -> | internal conn now gen l00 lplug l0 subj -> LP V ->].
    - now apply (Old y).
    - apply au_find_sid_some in F as [I0 _]. now apply (Old x0).
    - apply au_find_rid_some in F as [I0 _]. now apply (Old x0).
    - apply au_find_sid_some in F as [I0 _]. now apply (Old x0).
    - exists internal, conn, now, gen, l00, lplug, l0. cbn. repeat split; [apply in_app_iff; right; now left | exact LP |].
      destruct (au_choose_verifier internal (al_spec (au_effective_login l0 gen))) eqn:Cv.
      + left. assert (cred_login now (au_effective_login l0 gen) = true) as Cr
          by (apply (au_verify_login_configured (at_subjects (run evs au_init))); eauto).
        unfold au_effective_login in Cr. destruct (al_rid l0); exact Cr.
      + right. apply au_choose_pass_iff in Cv as [Ei Ep]. split; [assumption|].
        unfold au_effective_login in Ep. destruct (al_rid l0); exact Ep.
  Qed.

  (* ---- heartbeats without the credential do not keep a session alive ------------------------------------------ *)

  Theorem au_invalid_pings_do_not_keep_alive s x pings now :
    au_has_scope AuScHeartBeats (ac_scopes c) = true ->
    au_find_sid (as_sid x) (sessions s) = Some x -> as_verifier x = AuConfigured ->
    Forall (fun e => exists now' k ts, e = AuELater (as_sid x) now' (AuLPing k ts) /\
                                       cred_msg (at_subjects s) now' k ts = false) pings ->
    au_hb_expired c now x = true ->
    forall y, In y (sessions (run (pings ++ [AuECheck now]) s)) -> as_sid y <> as_sid x.
  Proof.
    intros S F V Bad Ex y I.
    assert (run pings s = s) as Same.
    { apply au_refused_many. eapply Forall_impl; [|exact Bad]. cbn beta.
      intros e (now' & k & ts & -> & B).
      destruct (au_bad_ping_no_refresh s (as_sid x) now' k ts x S F V B) as [err E]. now rewrite E. }
    unfold au_run in I. rewrite fold_left_app in I. fold (run pings s) in I. rewrite Same in I. cbn in I.
    apply au_check_sessions in I as [_ A]. apply au_find_sid_some in F as [Ix _].
    intros E. now apply (A x Ix Ex).
  Qed.
End AuthProofs.

(* ---- OIDC under a configured policy ---------------------------------------------------------------------- *)

Lemma au_policy_unacceptable_none p t now :
  au_token_unacceptable p t now = true -> au_oidc_policy_verify p t now = None.
Proof.
  unfold au_token_unacceptable, au_oidc_policy_verify. rewrite (Z.ltb_antisym (atf_valid_until t) now).
  destruct (aop_audience p) as [|a0 ar].
  - destruct (atf_sig_ok t), (aop_skip_issuer p), (atf_iss_ok t), (aop_skip_expiry p), (atf_valid_until t <=? now);
      cbn; intros U; try reflexivity; discriminate.
  - remember (bytes_eqb (a0 :: ar) (atf_aud t)) as q. clear Heqq.
    destruct q, (atf_sig_ok t), (aop_skip_issuer p), (atf_iss_ok t), (aop_skip_expiry p), (atf_valid_until t <=? now);
      cbn; intros U; try reflexivity; discriminate.
Qed.

(* expired / wrong-issuer / wrong-audience / foreign-key tokens are refused at login whenever the configured policy
   does not waive that check, in every state, from every network listener *)
Theorem au_policy_login_refused H c p tab s conn now gen l0 lplug l t :
  ac_method c = AuOidc ->
  au_lplug_apply lplug l0 = Some l -> tab (al_key l) = Some t -> au_token_unacceptable p t now = true ->
  exists e, au_step H (au_oidc_of_policy p tab) c s (AuEFirst false conn now gen (AuFLogin l0 lplug)) = (s, AuORefused (AuRLogin e)).
Proof.
  intros M P T U. apply (au_network_login_refused H (au_oidc_of_policy p tab) c s conn now gen l0 lplug l P).
  unfold au_login_cred_ok, au_oidc_of_policy. rewrite M, T, (au_policy_unacceptable_none p t now U). reflexivity.
Qed.
