import json
import os
import re
import shutil
import subprocess
import time
from vlib import Check, V, COQ, WORK, GOENV, sh

PID = "C17"

MANIFEST = dict(
    text="Machine-checked theorems (Coq 8.16.1) over an executable model of the frame codec (golib readMsg/Pack), the "
         "schema-driven JSON object codec, the server's handling of the first bytes of a connection (listener mux, TLS sniff, "
         "handleConnection's first-message switch) and the control channel's read loop: round trip at frame, object and message level "
         "(one theorem per registered message type over records regenerated from pkg/msg/msg.go), decoder accepts exactly the encoder's "
         "image, allocation <= 10240 and no over-read on every input, registry bijective and wire schema stable (reflective over tables "
         "regenerated on every run), every unexpected or malformed first message leaves the session table unchanged and closes only its "
         "connection, the read loop dispatches exactly the maximal prefix of well-formed frames and a decode error ends that session only. "
         "The model is tied to the code by the translator (T1) and by differential runs: real msg.WriteMsg/ReadMsg against the model on "
         "generated and adversarial inputs (also 200 000 cases through the extracted OCaml model in the thorough tier), and an in-process "
         "frps fed first bytes / control-channel streams while a bystander session keeps exchanging heartbeats and carrying bytes.",
    note="Trusted: Coq kernel+VM; OCaml extraction (ExtrOcamlBasic only) for the volume runs; translator T1 (go/ast); harness transcription; "
         "encoding/json text layer is an oracle with the law parse(render o)=Some o; golib framing and listener mux live in the module cache "
         "and are modelled by hand (Model/Frame.v, Model/FrameSys.v), compared on every run; TLS/websocket/yamux are libraries (a failing "
         "handshake is 'closed, any bytes'); handlers behind accepted first messages are oracles; timing is observed in three classes. "
         "Round trips hold for encodings within the 10 KiB bound; C17_oversize_message_rejected covers the rest.",
    technique="Coq proof (induction/reflection) + translator-regenerated tables and records + differential correspondence via vm_compute and extraction",
    design="4/C17")


def q(tier, quick, thorough):
    return quick if tier == "quick" else thorough


def need_counters(c, driver, names):
    """The recipe's own sanity check: every model branch the property names must have been reached."""
    got = c.cov.get("coq_counters", {}).get(driver, {})
    for n in names:
        if got.get(n, 0) <= 0:
            c.broken.append(dict(kind="coverage", name="driver %s never reached model branch %s" % (driver, n),
                                 detail="counters: %r" % got))


def start_driver(c, name, n, shards):
    """The system drivers spend most of their time WAITING (the server's own 10 s read timeout, observation
    windows): their binaries are started up front and run while the codec cases are evaluated in Coq.  Only the
    process runs in the background; all bookkeeping happens in finish_driver on the main thread and is the same
    as vlib.run_driver's."""
    if not c.harness_ok:
        return None
    out = os.path.join(c.wd, "cases_%s.v" % name)
    stats = os.path.join(c.wd, "stats_%s.json" % name)
    cmd = [os.path.join(WORK, "h_" + c.harness_bins[0]), name, "-seed", str(c.seed), "-n", str(n), "-out", out,
           "-stats", stats, "-tier", c.tier]
    p = subprocess.Popen(cmd, cwd=V, env=dict(GOENV, VERIF_SHARDS=str(shards)), stdout=subprocess.PIPE, stderr=subprocess.STDOUT)
    h = dict(name=name, proc=p, stats=stats, t0=time.time(), out=b"", t1=None)

    def waiter():
        h["out"] = p.communicate()[0] or b""
        h["t1"] = time.time()
    import threading
    h["thread"] = threading.Thread(target=waiter, daemon=True)
    h["thread"].start()
    return h


def finish_driver(c, h, coq=True, timeout=900):
    if h is None:
        return None
    name, p = h["name"], h["proc"]
    h["thread"].join(timeout)
    if h["thread"].is_alive():
        p.kill()
        h["thread"].join(10)
        o, rc = h["out"].decode("utf-8", "replace") + "\n[timeout]", 124
    else:
        o, rc = h["out"].decode("utf-8", "replace"), p.returncode
    dt = (h["t1"] or time.time()) - h["t0"]
    c.log.write(o)
    if rc != 0:
        c.broken.append(dict(kind="driver", name="harness %s" % name, detail=o[-1500:]))
        c.say("[%s] driver %s failed rc=%d" % (c.pid, name, rc))
        if "panic:" in o or "fatal error:" in o:
            c.failures.append(dict(key="driver-crash:%s" % name, what="implementation crashed under driver %s" % name,
                                   case=o[-1200:], driver=name))
        return None
    st = json.load(open(h["stats"]))
    c.cov["evaluations"] += int(st.get("cases", 0))
    c.cov["distinct_nontrivial"] += int(st.get("distinct_nontrivial", 0))
    c.cov["traces_validated_against_impl"] += int(st.get("cases", 0))
    for s_ in st.get("samples", [])[:4]:
        c.cov["samples"].append(s_)
    c.cov["distribution"][name] = st.get("distribution") or st.get("class_distribution") or {}
    c.cov["drivers"].append(dict(driver=name, cases=st.get("cases", 0), seconds=round(dt, 1),
                                 extra={k: v for k, v in st.items() if k not in ("samples", "impl_failures", "distribution", "class_distribution")}))
    for f in st.get("impl_failures", []) or []:
        if isinstance(f, str):
            f = dict(key="impl:" + f[:60], what=f, case=f)
        f.setdefault("driver", name)
        c.failures.append(f)
    if coq:
        c.eval_shards(name)
    return st


def ocaml_volume(c, n):
    """Volume through extraction: the frame + object codec and check_case extracted with ExtrOcamlBasic only
    (ocaml/c17/extract.v), a line-oriented OCaml runner (ocaml/c17/driver.ml) built offline with ocamlfind,
    the Go driver codecx writing n cases with the implementation's observations as lines."""
    od = os.path.join(c.wd, "ocaml")
    os.makedirs(od, exist_ok=True)
    rc, out, _ = sh(["coqc", "-Q", COQ, "FRP", os.path.join(V, "ocaml/c17/extract.v")], cwd=od, timeout=600)
    c.log.write(out)
    for junk in ("extract.vo", "extract.vok", "extract.vos", "extract.glob", ".extract.aux"):
        try:
            os.remove(os.path.join(V, "ocaml/c17", junk))
        except OSError:
            pass
    if rc != 0 or not os.path.exists(os.path.join(od, "c17model.ml")):
        c.broken.append(dict(kind="extraction", name="ocaml/c17/extract.v", detail=out[-1200:]))
        return
    shutil.copy(os.path.join(V, "ocaml/c17/driver.ml"), od)
    rc, out, _ = sh("ocamlfind ocamlopt -w -a c17model.mli c17model.ml driver.ml -o c17run", cwd=od, timeout=600)
    c.log.write(out)
    if rc != 0:
        c.broken.append(dict(kind="ocaml-build", name="ocaml/c17/driver.ml", detail=out[-1200:]))
        return
    st = c.run_driver("codecx", n, coq=False, timeout=1800)
    if not st:
        return
    lines_file = st.get("lines_file")
    rc, out, dt = sh([os.path.join(od, "c17run"), lines_file], cwd=od, timeout=3000)
    m = re.search(r"^DONE (\d+) (\d+) (\d+)$", out, re.M)
    if rc != 0 or not m or int(m.group(1)) != int(st.get("cases", -1)):
        c.broken.append(dict(kind="ocaml-run", name="extracted model runner", detail=out[-1200:]))
        return
    c.cov.setdefault("coq_counters", {})["codecx"] = dict(NMSG=int(m.group(3)), NLINES=int(m.group(1)))
    c.cov["drivers"][-1]["extra"]["ocaml_runner_seconds"] = round(dt, 1)
    bad = re.findall(r"^MISMATCH (\d+) (\d+)(.*)$", out, re.M)
    if bad:
        want = {int(i) for i, _, _ in bad[:50]}
        text = {}
        with open(lines_file) as f:
            for k, l in enumerate(f, 1):
                if k in want:
                    text[k] = l.strip()
                if k > max(want):
                    break
        for i, code, _ in bad[:50]:
            c.failures.append(dict(key="mismatch:codecx:code%s" % code, code=int(code), driver="codecx",
                                   what="extracted model and implementation disagree (driver codecx, reason code %s)" % code,
                                   case=text.get(int(i), "")[:4000]))
    try:
        os.remove(lines_file)   # hundreds of MB in the thorough tier
    except OSError:
        pass


def recipe(c: Check):
    c.build(["Properties/C17.vo", "Corr/C17.vo", "Corr/C17Sys.vo", "Corr/C17Dgram.vo"], harness=["c17"], units=["t1", "t8a", "t5v"])
    # the waiting drivers start now (distinct loopback addresses 127.0.17.1/.2/.4/.6), results are collected below
    h_first = start_driver(c, "firstbytes", q(c.tier, 300, 3000), q(c.tier, 4, 8))
    h_loop = start_driver(c, "readloop", q(c.tier, 60, 1500), q(c.tier, 2, 8))
    h_login = start_driver(c, "loginx", q(c.tier, 2, 150), 1)
    h_tun = start_driver(c, "tunnels", q(c.tier, 50, 1000), 1)
    t = time.time()
    c.obligations("C17")
    c.say("[C17] obligations pass %.1fs" % (time.time() - t))
    t = time.time()
    st = c.run_driver("codec", q(c.tier, 1000, 24000), shards=q(c.tier, 8, 16),
                      extra=os.path.join(V, "golden/msg_vectors.txt"))
    if st:
        for name in st.get("golden_mismatch", []):
            c.failures.append(dict(key="golden-vector:%s" % name, driver="codec",
                                   what="encoding of the pinned %s message differs from the released bytes" % name,
                                   case="golden/msg_vectors.txt entry %s" % name))
    c.say("[C17] codec %.1fs" % (time.time() - t))
    t = time.time()
    # the NAT-hole datagram decoder (second decoder of the frame format, unauthenticated input)
    if c.run_driver("dgram", q(c.tier, 200, 6000), shards=q(c.tier, 2, 8)):
        need_counters(c, "dgram", ["NDGSHORT", "NDGFRAMEERR", "NDGJSONERR", "NDGOK"])
    c.say("[C17] dgram %.1fs" % (time.time() - t))
    t = time.time()
    ocaml_volume(c, q(c.tier, 8000, 200000))
    c.say("[C17] ocaml %.1fs" % (time.time() - t))
    t = time.time()
    # system level: first bytes of fresh connections; byte streams on an established control channel;
    # authenticated Logins with extreme integers against a frps in a child process; real tunnels
    if finish_driver(c, h_first):
        need_counters(c, "firstbytes", ["NCLOSENOW", "NCLOSETIMEOUT", "NKEEPOPEN", "NTLSFAIL", "NTLSINNER", "NDISPATCHED"])
    if finish_driver(c, h_loop):
        need_counters(c, "readloop", ["NENDFRAME", "NENDJSON", "NENDSHORT", "NREAD"])
    if finish_driver(c, h_login):
        need_counters(c, "loginx", ["NLOGINX", "NBELOWSLACK"])
    finish_driver(c, h_tun, coq=False)
    c.say("[C17] system drivers collected %.1fs" % (time.time() - t))
    return c.finish(
        rule="codec driver: half valid messages (all 18 types, reflection-filled: empty/long/unicode strings, nil vs empty maps and "
             "slices, extreme integers, nil/zero/v4/v4-mapped/v6/zoned UDP addresses) through real msg.WriteMsg+ReadMsg, compared with "
             "Model.MsgObj.enc_obj/dec_obj over today's translated schema; half adversarial byte strings (all 256 type bytes, boundary "
             "lengths 0/10240/10241/2^63-1/-1/-2^63, truncations, bit flips, trailing bytes, garbage bodies) through real msg.ReadMsg "
             "with a counting reader, compared with Model.Frame.decode_frame (result class, bytes consumed, type). "
             "firstbytes driver: in-process frps with an established scripted session A (heartbeat + tcp proxy carrying bytes); as first "
             "bytes of fresh raw or TLS connections: valid frames of all 18 types, all 256 type bytes, truncated frames (peer half-closes / "
             "stays silent until the server's own 10 s timeout, those in parallel), oversize/negative lengths, garbage / wrongly typed / null "
             "JSON, frame+garbage, silence, mux boundary lengths, websocket prefix, accepted Login / NewWorkConn; observed: closed promptly / at "
             "timeout / kept, reply kind, session table before/after, A's heartbeat and tunnel; compared with Model.FrameSys.fs_first_step. "
             "readloop driver: a second session B receives through the token cipher valid messages followed by a malformed frame and more "
             "valid messages (batch / paced); observed replies, closure, session table, A unaffected; compared with fs_stream_step. "
             "dgram driver: real nathole.DecodeMessageInto under recover on every datagram length 0..64 (random), every plaintext length "
             "0..24 of a valid frame, EncodeMessage outputs (must come back equal), other registered / unknown type bytes, negative / "
             "oversized / overlong lengths, truncated ciphertext, trailing bytes, bad JSON, wrong key, bodies at the bound; compared with "
             "Model.Datagram.dg_decode (cipher and JSON layer as oracles); plus 5 000 EncodeMessage->DecodeMessageInto round trips monitored on "
             "the Go side and UDPPacket contents of 0..20000 bytes through the real udp.ForwardUserConn in a child process. "
             "tunnels driver (Go-side monitors): two users sending overlapping datagram streams through ONE udp proxy of a real frpc "
             "(each must get back only its own payloads, none twice); sudp and stcp tunnels between a real owner frpc and a real visitor "
             "frpc for all four useEncryption x useCompression combinations; control-channel interop matrix transport.protocol tcp/websocket/kcp x "
             "tls off/on and quic (a tcp proxy must reach running and echo). dgram also: EncodeMessage/DecodeMessageInto under every key "
             "length 0..33. "
             "loginx driver: authenticated Login first messages with pool_count in {-1,-10,-11,-1000,MinInt32,MinInt64,MaxInt64,...} and "
             "timestamp extremes (key computed for them) against a frps in a CHILD process; observed: reply, child alive, A's heartbeat "
             "and tunnel; the handler oracle of the model is computed from the NewControl clamp translated today (T8a). "
             "codecx driver: the codec generators again, as lines, evaluated by the OCaml runner built from the extracted model "
             "(ExtrOcamlBasic only; 4 000 cases quick, 200 000 thorough; counted, not deduplicated). "
             "distinct = distinct case text; non-trivial = non-empty input / body other than {}",
        assumptions=["encoding/json text layer is an oracle (Section variable) in C17_message_roundtrip; exercised by the driver and by pinned golden vectors",
                     "golib msg/json framing is third-party code in the module cache; modelled by Model/Frame.v and compared on every run"])
