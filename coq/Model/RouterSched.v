(* C06 — schedule model of concurrent registrations on pkg/util/vhost/router.go:Routers.
   A goroutine calling Routers.Add / Routers.Del is a small program of ATOMIC sections at lock
   granularity (what happens between acquiring and releasing r.mutex).  The sections of Add are read
   from the source on every run (translator unit c06route: lock tokens of the method bodies); the
   model below gives them an executable semantics under arbitrary schedules.  Model only: no proofs. *)
From FRP Require Export Model.Router.
Open Scope Z_scope.

Inductive ra_act :=
| RaCheck      (* r.exist(domain, location, httpUser): conflict -> return ErrRouterConfigConflict *)
| RaInsert     (* append, re-sort, store back *)
| RaDel.       (* filter by location, store back *)

Definition ra_act_eqb (a b : ra_act) : bool :=
  match a, b with RaCheck, RaCheck => true | RaInsert, RaInsert => true | RaDel, RaDel => true | _, _ => false end.

(* a program: the lock sections in program order *)
Definition ra_prog := list (list ra_act).

(* ---------- from the translator's tokens to sections ---------- *)
Inductive ra_held := HeldNone | HeldW | HeldR | HeldWDefer | HeldRDefer.

Fixpoint ra_dedup (l : list ra_act) : list ra_act :=
  match l with
  | a :: ((b :: _) as r) => if ra_act_eqb a b then ra_dedup r else a :: ra_dedup r
  | _ => l
  end.

(* None: an access outside any lock section, a store under the read lock, nested or leaked locks, or
   a token the translator could not classify *)
Fixpoint ra_sections_from (held : ra_held) (cur : list ra_act) (toks : list string) : option ra_prog :=
  match toks with
  | [] =>
      match held with
      | HeldNone => Some []
      | HeldWDefer | HeldRDefer => Some [ra_dedup (rev cur)]
      | _ => None
      end
  | t :: r =>
      if String.eqb t "Lock" then
        match held with HeldNone => ra_sections_from HeldW [] r | _ => None end
      else if String.eqb t "RLock" then
        match held with HeldNone => ra_sections_from HeldR [] r | _ => None end
      else if String.eqb t "Unlock" then
        match held with
        | HeldW => option_map (cons (ra_dedup (rev cur))) (ra_sections_from HeldNone [] r)
        | _ => None
        end
      else if String.eqb t "RUnlock" then
        match held with
        | HeldR => option_map (cons (ra_dedup (rev cur))) (ra_sections_from HeldNone [] r)
        | _ => None
        end
      else if String.eqb t "DeferUnlock" then
        match held with HeldW => ra_sections_from HeldWDefer cur r | _ => None end
      else if String.eqb t "DeferRUnlock" then
        match held with HeldR => ra_sections_from HeldRDefer cur r | _ => None end
      else if String.eqb t "Check" then
        match held with HeldNone => None | _ => ra_sections_from held (RaCheck :: cur) r end
      else if String.eqb t "Insert" then
        match held with HeldW | HeldWDefer => ra_sections_from held (RaInsert :: cur) r | _ => None end
      else if String.eqb t "Filter" then
        match held with HeldW | HeldWDefer => ra_sections_from held (RaDel :: cur) r | _ => None end
      else if String.eqb t "Other" then ra_sections_from held cur r
      else None
  end.
Definition ra_sections (toks : list string) : option ra_prog := ra_sections_from HeldNone [] toks.

Fixpoint ra_sec_eqb (a b : list ra_act) : bool :=
  match a, b with
  | [], [] => true
  | x :: a', y :: b' => ra_act_eqb x y && ra_sec_eqb a' b'
  | _, _ => false
  end.

(* Add: existence check and insertion inside ONE write-lock section; Del: one write-lock section *)
Definition ra_add_atomic (p : ra_prog) : bool :=
  match p with [sec] => ra_sec_eqb sec [RaCheck; RaInsert] | _ => false end.
Definition ra_del_atomic (p : ra_prog) : bool :=
  match p with [sec] => ra_sec_eqb sec [RaDel] | _ => false end.
Definition ra_add_prog_std : ra_prog := [[RaCheck; RaInsert]].
Definition ra_del_prog_std : ra_prog := [[RaDel]].

(* ---------- executable semantics under schedules ---------- *)
Section Sched.
  Context {P : Type}.

  (* the insertion part of Routers.Add alone (no conflict test) *)
  Definition ra_insert_raw (s : rstate P) (dom0 loc user : bytes) (pay : P) : rstate P :=
    let dom := lower dom0 in
    let ut := match rt_alookup dom s with Some ut => ut | None => [] end in
    let vrs := match rt_alookup user ut with Some v => v | None => [] end in
    let vrs' := rt_sort_desc (vrs ++ [mkRoute dom loc user pay]) in
    rt_aset dom (rt_aset user vrs' ut) s.

  Record ra_thread := mkTh {
    th_op : rt_op P;              (* the call: Add(d,l,u,payload) or Del(d,l,u) *)
    th_todo : ra_prog;            (* sections still to run *)
    th_res : option bool          (* finished: Some true = nil / done, Some false = ErrRouterConfigConflict *)
  }.

  (* one event per finished call, in the order the calls finished *)
  Record ra_event := mkEv { ev_tid : nat; ev_op : rt_op P; ev_ok : bool }.

  Record ra_cfg := mkCfg { cf_tab : rstate P; cf_ths : list ra_thread; cf_log : list ra_event }.

  (* run the actions of one section atomically; Some b = the call returns inside this section *)
  Fixpoint ra_exec (s : rstate P) (op : rt_op P) (acts : list ra_act) : rstate P * option bool :=
    match acts with
    | [] => (s, None)
    | a :: r =>
        match a, op with
        | RaCheck, RAdd d l u _ => if rt_exist s (lower d) l u then (s, Some false) else ra_exec s op r
        | RaInsert, RAdd d l u p => ra_exec (ra_insert_raw s d l u p) op r
        | RaDel, RDel d l u => ra_exec (rt_del s d l u) op r
        | _, _ => ra_exec s op r
        end
    end.

  Fixpoint ra_set_nth (n : nat) (t : ra_thread) (l : list ra_thread) : list ra_thread :=
    match n, l with
    | O, _ :: r => t :: r
    | S k, x :: r => x :: ra_set_nth k t r
    | _, [] => []
    end.

  (* the scheduler lets thread [tid] run its next section (no-op if it has finished or does not exist) *)
  Definition ra_step (c : ra_cfg) (tid : nat) : ra_cfg :=
    match nth_error (cf_ths c) tid with
    | None => c
    | Some t =>
        match th_res t, th_todo t with
        | None, sec :: rest =>
            match ra_exec (cf_tab c) (th_op t) sec with
            | (s', Some b) =>
                mkCfg s' (ra_set_nth tid (mkTh (th_op t) [] (Some b)) (cf_ths c)) (cf_log c ++ [mkEv tid (th_op t) b])
            | (s', None) =>
                match rest with
                | [] => mkCfg s' (ra_set_nth tid (mkTh (th_op t) [] (Some true)) (cf_ths c))
                              (cf_log c ++ [mkEv tid (th_op t) true])
                | _ :: _ => mkCfg s' (ra_set_nth tid (mkTh (th_op t) rest None) (cf_ths c)) (cf_log c)
                end
            end
        | _, _ => c
        end
    end.

  Definition ra_run (sched : list nat) (c : ra_cfg) : ra_cfg := fold_left ra_step sched c.

  Definition ra_thread_of (addp delp : ra_prog) (o : rt_op P) : ra_thread :=
    match o with
    | RAdd _ _ _ _ => mkTh o addp None
    | RDel _ _ _ => mkTh o delp None
    end.
  Definition ra_init (addp delp : ra_prog) (s : rstate P) (ops : list (rt_op P)) : ra_cfg :=
    mkCfg s (map (ra_thread_of addp delp) ops) [].

  (* sequential replay of a log: every logged call, one after the other, must give the logged answer *)
  Fixpoint ra_replay (s : rstate P) (log : list ra_event) : option (rstate P) :=
    match log with
    | [] => Some s
    | e :: r =>
        match ev_op e with
        | RAdd d l u p =>
            match rt_add s d l u p with
            | Some s' => if ev_ok e then ra_replay s' r else None
            | None => if ev_ok e then None else ra_replay s r
            end
        | RDel d l u => if ev_ok e then ra_replay (rt_del s d l u) r else None
        end
    end.
End Sched.
Arguments ra_thread : clear implicits.
Arguments ra_event : clear implicits.
Arguments ra_cfg : clear implicits.

(* ---------- Muxer.handle: look-up, then hand-over ---------- *)
(* [s]: the table when the connection is routed, [s']: the table at the hand-over.  [same] compares
   listeners (payloads).  [relookup]: the source looks the route up AGAIN when the hand-over fails
   because the routed listener was closed (it must not: the credentials were checked against the
   routed listener, and the route chosen is the one the connection belongs to) *)
Definition mx_deliver {P} (same : P -> P -> bool) (relookup : bool) (s s' : rstate P) (h p u : bytes) : option P :=
  match rt_get_vhost s h p u with
  | None => None
  | Some r =>
      if existsb (fun r' : route P => same (rt_pay r) (rt_pay r')) (rt_abs s') then Some (rt_pay r)
      else if relookup then option_map rt_pay (rt_get_vhost s' h p u) else None
  end.

(* tokens of Muxer.handle in source order: "GetListener" per call of getListener, "Handoff" per send on
   a listener's accept channel.  The modelled shape: one look-up, then one hand-over. *)
Definition mx_relookup (toks : list string) : bool :=
  negb (rt_strs_eqb toks ["GetListener"; "Handoff"]%string).

(* ---------- HTTPSProxy.Run: one Listen per custom domain; on a refusal the deferred Close releases the
   listeners the proxy tracks ---------- *)
(* [track_first]: the source appends the listener to pxy.listeners BEFORE it looks at the error of
   Listen (then the refused listener -- whose triple belongs to ANOTHER proxy -- is closed too) *)
Fixpoint px_run {P} (track_first : bool) (s : rstate P) (doms : list bytes) (pay : P) (tracked : list bytes)
  : rstate P * bool :=
  match doms with
  | [] => (s, true)
  | d :: r =>
      match rt_add s d [] [] pay with
      | Some s' => px_run track_first s' r pay (d :: tracked)
      | None => (fold_left (fun (t : rstate P) x => rt_del t x [] []) (if track_first then d :: tracked else tracked) s, false)
      end
  end.

(* tokens per Listen site of Run: "Listen", then "Track" (append to pxy.listeners) and "ErrReturn" in
   source order.  Modelled shape: the error is looked at first. *)
Definition px_track_first (toks : list string) : bool :=
  negb (rt_strs_eqb toks ["Listen"; "ErrReturn"; "Track"; "Listen"; "ErrReturn"; "Track"]%string).
