(* C10 — the helpers Model/SrvRes.v mirrors, as their effect digests were when the model was written
   (format: Model/RelTypes.v; produced by translator unit t10rel).  Properties/C10.v proves, reflectively on
   every run, that TODAY's digests (gen/GenRelease.v, regenerated from the Go sources) are these.  A changed
   table write, call, defer or guard in one of them breaks that obligation: the model function named beside
   it has to be looked at again, and this pin updated only together with the model.

     Routers.Add / Del                      res_add / res_rm on SRoute keys: Add refuses an existing (domain, location, user)
                                            and stores; Del rewrites ONLY the slice of (domain, user) without the location,
                                            no entry of another user or domain is written or deleted
     Muxer.Listen / Listener.Close          res_add / res_rm of https and tcpmux routes (routes_run, route_release)
     HTTPReverseProxy.Register / UnRegister res_add / res_rm of http routes
     visitor.Manager.Listen / CloseListener res_add / res_rm (SVis name): delete by name, called only by the owner
     nathole ListenClient / CloseClient     res_add / res_rm (SNat name)
     BaseProxy.Close, XxxProxy.Close        px_close: which helper calls a Close consists of, in order, synchronously
     STCPProxy.Run / SUDPProxy.Run          px_run: no clean-up on the error path (the only error is "the name is held by
                                            somebody else": a Close there would delete the incumbent's entry by name)
     proxy.Manager.Add / Del                nm_set after a presence test / nm_del
     wrapQuicStream.Close                   the control connection of a QUIC client: Close ends BOTH directions (CancelRead, then
                                            Stream.Close), so that the dispatcher's read fails and the teardown (y_end) runs
     CloseNotifyConn.Close, StatsConn.Close CwOnce of Model/ConnWrap.v
     HTTPGroupController / TCPGroupCtl / TCPMuxGroupCtl Register / Listen, the groups' Register / Listen /
       UnRegister / CloseListener           grp_join / grp_leave: lookup-or-create AND join under the controller's lock (deferred unlock),
                                            so that a join cannot overlap the last leave; the leave takes the same lock
     HTTPProxy.Run                          routes_run: a closeFn is appended only AFTER its registration succeeded
     UDPProxy.Close                         Model/UdpLoop.v AClose1 / AClose2: isClosed, close(checkCloseCh) BEFORE workConn.Close()
     TunnelServer.Run (ssh gateway)         a virtual client is a session like any other (y_end): every exit of Run after the
                                            virtual client was started closes it
     Dispatcher.sendLoop / readLoop / Send, Control.registerMsgHandlers
                                            one control message = one step: NewProxy / CloseProxy / Ping handlers run inside the
                                            read loop (not wrapped in AsyncHandler), doneCh is closed only by the read loop after
                                            the handler in flight has returned, the send loop never closes it and keeps draining
     ProxyBaseConfig.UnmarshalFromMsg       the configured name IS the wire name: the four names RegisterProxy, CloseProxy and
                                            the teardown use (wire name for Exist / Add / the ctl.proxies lookup, pxy.GetName()
                                            for the ctl.proxies insert and Del) are one string in the model *)
From FRP Require Import Model.RelTypes.
Open Scope string_scope.

Definition rel_pinned : list (string * list ef) := [
  ("pkg/util/vhost/router.go:Routers.Add", [
     Ef "local" ["$0"; "="; "strings.ToLower($0)"];
     Ef "call" ["$recv.mutex.Lock"];
     Ef "defer" [];
     Ef "call" ["$recv.mutex.Unlock"];
     Ef "end" [];
     Ef "local" ["$l0"; ":="; "$recv.exist($0, $1, $2)#1"];
     Ef "if" ["$l0"];
     Ef "ret" ["ErrRouterConfigConflict"];
     Ef "end" [];
     Ef "local" ["$l1"; ":="; "$recv.indexByDomain[$0]#0"];
     Ef "local" ["$l2"; ":="; "$recv.indexByDomain[$0]#1"];
     Ef "if" ["!$l2"];
     Ef "local" ["$l1"; "="; "make(map[string][]*Router)"];
     Ef "end" [];
     Ef "local" ["$l3"; ":="; "$l1[$2]#0"];
     Ef "local" ["$l2"; ":="; "$l1[$2]#1"];
     Ef "if" ["!$l2"];
     Ef "local" ["$l3"; "="; "make([]*Router, 0, 1)"];
     Ef "end" [];
     Ef "local" ["$l4"; ":="; "&Router{$0: $0, $1: $1, $2: $2, $3: $3}"];
     Ef "local" ["$l3"; "="; "append($l3, $l4)"];
     Ef "call" ["slices.SortFunc"; "$l3"; "func"];
     Ef "func" [];
     Ef "ret" ["-cmp.Compare(a.location, b.location)"];
     Ef "end" [];
     Ef "store" ["$l1"; "$2"; "$l3"];
     Ef "store" ["$recv.indexByDomain"; "$0"; "$l1"];
     Ef "ret" ["nil"]
  ]);
  ("pkg/util/vhost/router.go:Routers.Del", [
     Ef "local" ["$0"; "="; "strings.ToLower($0)"];
     Ef "call" ["$recv.mutex.Lock"];
     Ef "defer" [];
     Ef "call" ["$recv.mutex.Unlock"];
     Ef "end" [];
     Ef "local" ["$l0"; ":="; "$recv.indexByDomain[$0]#0"];
     Ef "local" ["$l1"; ":="; "$recv.indexByDomain[$0]#1"];
     Ef "if" ["!$l1"];
     Ef "ret" [];
     Ef "end" [];
     Ef "local" ["$l2"; ":="; "$l0[$2]#0"];
     Ef "local" ["$l1"; ":="; "$l0[$2]#1"];
     Ef "if" ["!$l1"];
     Ef "ret" [];
     Ef "end" [];
     Ef "local" ["$l3"; ":="; "make([]*Router, 0)"];
     Ef "loop" ["range"; "$l2"; "_"; "$l4"];
     Ef "if" ["$l4.location != $1"];
     Ef "local" ["$l3"; "="; "append($l3, $l4)"];
     Ef "end" [];
     Ef "end" [];
     Ef "store" ["$l0"; "$2"; "$l3"]
  ]);
  ("pkg/util/vhost/vhost.go:Muxer.Listen", [
     Ef "local" ["$r0"; "="; "&Listener{name: $1.Domain, location: $1.Location, routeByHTTPUser: $1.RouteByHTTPUser, rewriteHost: $1.RewriteHost, username: $1.Username, password: $1.Password, mux: $recv, accept: make(chan net.Conn), $0: $0}"];
     Ef "local" ["$r1"; "="; "$recv.registryRouter.Add($1.Domain, $1.Location, $1.RouteByHTTPUser, $r0)"];
     Ef "if" ["$r1 != nil"];
     Ef "ret" [];
     Ef "end" [];
     Ef "ret" ["$r0"; "nil"]
  ]);
  ("pkg/util/vhost/vhost.go:Listener.Close", [
     Ef "call" ["$recv.mux.registryRouter.Del"; "$recv.name"; "$recv.location"; "$recv.routeByHTTPUser"];
     Ef "call" ["close"; "$recv.accept"];
     Ef "ret" ["nil"]
  ]);
  ("pkg/util/vhost/http.go:HTTPReverseProxy.Register", [
     Ef "assign" ["$0.id"; "="; "atomic.AddUint64(&$recv.registerSeq, 1)"];
     Ef "local" ["$l0"; ":="; "$recv.vhostRouter.Add($0.Domain, $0.Location, $0.RouteByHTTPUser, &$0)"];
     Ef "if" ["$l0 != nil"];
     Ef "ret" ["$l0"];
     Ef "end" [];
     Ef "ret" ["nil"]
  ]);
  ("pkg/util/vhost/http.go:HTTPReverseProxy.UnRegister", [
     Ef "call" ["$recv.vhostRouter.Del"; "$0.Domain"; "$0.Location"; "$0.RouteByHTTPUser"];
     Ef "call" ["$recv.transport.CloseIdleConnections"]
  ]);
  ("server/visitor/visitor.go:Manager.Listen", [
     Ef "call" ["$recv.mu.Lock"];
     Ef "defer" [];
     Ef "call" ["$recv.mu.Unlock"];
     Ef "end" [];
     Ef "local" ["$l0"; ":="; "$recv.listeners[$0]#1"];
     Ef "if" ["$l0"];
     Ef "ret" ["nil"; "fmt.Errorf(""custom listener for [%s] is repeated"", $0)"];
     Ef "end" [];
     Ef "local" ["$l1"; ":="; "netpkg.NewInternalListener()"];
     Ef "store" ["$recv.listeners"; "$0"; "&listenerBundle{$l1: $l1, $1: $1, $2: $2}"];
     Ef "ret" ["$l1"; "nil"]
  ]);
  ("server/visitor/visitor.go:Manager.CloseListener", [
     Ef "call" ["$recv.mu.Lock"];
     Ef "defer" [];
     Ef "call" ["$recv.mu.Unlock"];
     Ef "end" [];
     Ef "delete" ["$recv.listeners"; "$0"]
  ]);
  ("pkg/nathole/controller.go:Controller.ListenClient", [
     Ef "local" ["$l0"; ":="; "&ClientCfg{$0: $0, $1: $1, $2: $2, sidCh: make(chan string)}"];
     Ef "call" ["$recv.mu.Lock"];
     Ef "defer" [];
     Ef "call" ["$recv.mu.Unlock"];
     Ef "end" [];
     Ef "local" ["$l1"; ":="; "$recv.clientCfgs[$0]#1"];
     Ef "if" ["$l1"];
     Ef "ret" ["nil"; "fmt.Errorf(""proxy [%s] is repeated"", $0)"];
     Ef "end" [];
     Ef "store" ["$recv.clientCfgs"; "$0"; "$l0"];
     Ef "ret" ["$l0.sidCh"; "nil"]
  ]);
  ("pkg/nathole/controller.go:Controller.CloseClient", [
     Ef "call" ["$recv.mu.Lock"];
     Ef "defer" [];
     Ef "call" ["$recv.mu.Unlock"];
     Ef "end" [];
     Ef "delete" ["$recv.clientCfgs"; "$0"]
  ]);
  ("server/proxy/proxy.go:BaseProxy.Close", [
     Ef "local" ["$l0"; ":="; "xlog.FromContextSafe($recv.ctx)"];
     Ef "loop" ["range"; "$recv.listeners"; "_"; "$l1"];
     Ef "call" ["$l1.Close"];
     Ef "end" []
  ]);
  ("server/proxy/stcp.go:STCPProxy.Run", [
     Ef "local" ["$l0"; ":="; "$recv.xl"];
     Ef "local" ["$l1"; ":="; "$recv.cfg.AllowUsers"];
     Ef "if" ["len($l1) == 0"];
     Ef "local" ["$l1"; "="; "[]string{$recv.GetUserInfo().User}"];
     Ef "end" [];
     Ef "local" ["$l2"; ":="; "$recv.rc.VisitorManager.Listen($recv.GetName(), $recv.cfg.Secretkey, $l1)#0"];
     Ef "local" ["$l3"; ":="; "$recv.rc.VisitorManager.Listen($recv.GetName(), $recv.cfg.Secretkey, $l1)#1"];
     Ef "if" ["$l3 != nil"];
     Ef "local" ["$r1"; "="; "$l3"];
     Ef "ret" [];
     Ef "end" [];
     Ef "assign" ["$recv.listeners"; "="; "append($recv.listeners, $l2)"];
     Ef "call" ["$recv.startCommonTCPListenersHandler"];
     Ef "ret" []
  ]);
  ("server/proxy/stcp.go:STCPProxy.Close", [
     Ef "call" ["$recv.BaseProxy.Close"];
     Ef "call" ["$recv.rc.VisitorManager.CloseListener"; "$recv.GetName()"]
  ]);
  ("server/proxy/sudp.go:SUDPProxy.Run", [
     Ef "local" ["$l0"; ":="; "$recv.xl"];
     Ef "local" ["$l1"; ":="; "$recv.cfg.AllowUsers"];
     Ef "if" ["len($l1) == 0"];
     Ef "local" ["$l1"; "="; "[]string{$recv.GetUserInfo().User}"];
     Ef "end" [];
     Ef "local" ["$l2"; ":="; "$recv.rc.VisitorManager.Listen($recv.GetName(), $recv.cfg.Secretkey, $l1)#0"];
     Ef "local" ["$l3"; ":="; "$recv.rc.VisitorManager.Listen($recv.GetName(), $recv.cfg.Secretkey, $l1)#1"];
     Ef "if" ["$l3 != nil"];
     Ef "local" ["$r1"; "="; "$l3"];
     Ef "ret" [];
     Ef "end" [];
     Ef "assign" ["$recv.listeners"; "="; "append($recv.listeners, $l2)"];
     Ef "call" ["$recv.startCommonTCPListenersHandler"];
     Ef "ret" []
  ]);
  ("server/proxy/sudp.go:SUDPProxy.Close", [
     Ef "call" ["$recv.BaseProxy.Close"];
     Ef "call" ["$recv.rc.VisitorManager.CloseListener"; "$recv.GetName()"]
  ]);
  ("server/proxy/xtcp.go:XTCPProxy.Close", [
     Ef "call" ["$recv.closeOnce.Do"; "func"];
     Ef "func" [];
     Ef "call" ["$recv.BaseProxy.Close"];
     Ef "call" ["$recv.rc.NatHoleController.CloseClient"; "$recv.GetName()"];
     Ef "call" ["close"; "$recv.closeCh"];
     Ef "end" []
  ]);
  ("server/proxy/https.go:HTTPSProxy.Close", [
     Ef "call" ["$recv.BaseProxy.Close"]
  ]);
  ("server/proxy/tcpmux.go:TCPMuxProxy.Close", [
     Ef "call" ["$recv.BaseProxy.Close"]
  ]);
  ("server/proxy/http.go:HTTPProxy.Close", [
     Ef "call" ["$recv.BaseProxy.Close"];
     Ef "loop" ["range"; "$recv.closeFuncs"; "_"; "$l0"];
     Ef "call" ["$l0"];
     Ef "end" []
  ]);
  ("server/proxy/tcp.go:TCPProxy.Close", [
     Ef "call" ["$recv.BaseProxy.Close"];
     Ef "if" ["$recv.cfg.LoadBalancer.Group == """""];
     Ef "call" ["$recv.rc.TCPPortManager.Release"; "$recv.realBindPort"];
     Ef "end" []
  ]);
  ("server/proxy/proxy.go:Manager.Add", [
     Ef "call" ["$recv.mu.Lock"];
     Ef "defer" [];
     Ef "call" ["$recv.mu.Unlock"];
     Ef "end" [];
     Ef "local" ["$l0"; ":="; "$recv.pxys[$0]#1"];
     Ef "if" ["$l0"];
     Ef "ret" ["fmt.Errorf(""proxy name [%s] is already in use"", $0)"];
     Ef "end" [];
     Ef "store" ["$recv.pxys"; "$0"; "$1"];
     Ef "ret" ["nil"]
  ]);
  ("server/proxy/proxy.go:Manager.Del", [
     Ef "call" ["$recv.mu.Lock"];
     Ef "defer" [];
     Ef "call" ["$recv.mu.Unlock"];
     Ef "end" [];
     Ef "delete" ["$recv.pxys"; "$0"]
  ]);
  ("pkg/config/v1/proxy.go:ProxyBaseConfig.UnmarshalFromMsg", [
     Ef "assign" ["$recv.Name"; "="; "$0.ProxyName"];
     Ef "assign" ["$recv.Type"; "="; "$0.ProxyType"];
     Ef "assign" ["$recv.Transport.UseEncryption"; "="; "$0.UseEncryption"];
     Ef "assign" ["$recv.Transport.UseCompression"; "="; "$0.UseCompression"];
     Ef "if" ["$0.BandwidthLimit != """""];
     Ef "assign" ["$recv.Transport.BandwidthLimit"; "="; "types.NewBandwidthQuantity($0.BandwidthLimit)#0"];
     Ef "end" [];
     Ef "if" ["$0.BandwidthLimitMode != """""];
     Ef "assign" ["$recv.Transport.BandwidthLimitMode"; "="; "$0.BandwidthLimitMode"];
     Ef "end" [];
     Ef "assign" ["$recv.LoadBalancer.Group"; "="; "$0.Group"];
     Ef "assign" ["$recv.LoadBalancer.GroupKey"; "="; "$0.GroupKey"];
     Ef "assign" ["$recv.Metadatas"; "="; "$0.Metas"];
     Ef "assign" ["$recv.Annotations"; "="; "$0.Annotations"]
  ]);
  ("pkg/util/net/conn.go:wrapQuicStream.Close", [
     Ef "call" ["$recv.Stream.CancelRead"; "0"];
     Ef "ret" ["$recv.Stream.Close()"]
  ]);
  ("server/group/http.go:HTTPGroupController.Register", [
     Ef "local" ["$l0"; ":="; "$1"];
     Ef "call" ["$recv.mu.Lock"];
     Ef "defer" [];
     Ef "call" ["$recv.mu.Unlock"];
     Ef "end" [];
     Ef "local" ["$l1"; ":="; "$recv.groups[$l0]#0"];
     Ef "local" ["$l2"; ":="; "$recv.groups[$l0]#1"];
     Ef "if" ["!$l2"];
     Ef "local" ["$l1"; "="; "NewHTTPGroup($recv)"];
     Ef "store" ["$recv.groups"; "$l0"; "$l1"];
     Ef "end" [];
     Ef "ret" ["$l1.Register($0, $1, $2, $3)"]
  ]);
  ("server/group/http.go:HTTPGroupController.UnRegister", [
     Ef "local" ["$l0"; ":="; "$1"];
     Ef "call" ["$recv.mu.Lock"];
     Ef "defer" [];
     Ef "call" ["$recv.mu.Unlock"];
     Ef "end" [];
     Ef "local" ["$l1"; ":="; "$recv.groups[$l0]#0"];
     Ef "local" ["$l2"; ":="; "$recv.groups[$l0]#1"];
     Ef "if" ["!$l2"];
     Ef "ret" [];
     Ef "end" [];
     Ef "local" ["$l3"; ":="; "$l1.UnRegister($0)"];
     Ef "if" ["$l3"];
     Ef "delete" ["$recv.groups"; "$l0"];
     Ef "end" []
  ]);
  ("server/group/http.go:HTTPGroup.Register", [
     Ef "call" ["$recv.mu.Lock"];
     Ef "defer" [];
     Ef "call" ["$recv.mu.Unlock"];
     Ef "end" [];
     Ef "if" ["len($recv.createFuncs) == 0"];
     Ef "local" ["$l0"; ":="; "$3"];
     Ef "assign" ["$l0.CreateConnFn"; "="; "$recv.createConn"];
     Ef "assign" ["$l0.ChooseEndpointFn"; "="; "$recv.chooseEndpoint"];
     Ef "assign" ["$l0.CreateConnByEndpointFn"; "="; "$recv.createConnByEndpoint"];
     Ef "local" ["$r0"; "="; "$recv.ctl.vhostRouter.Add($3.Domain, $3.Location, $3.RouteByHTTPUser, &$l0)"];
     Ef "if" ["$r0 != nil"];
     Ef "ret" [];
     Ef "end" [];
     Ef "assign" ["$recv.group"; "="; "$1"];
     Ef "assign" ["$recv.groupKey"; "="; "$2"];
     Ef "assign" ["$recv.domain"; "="; "$3.Domain"];
     Ef "assign" ["$recv.location"; "="; "$3.Location"];
     Ef "assign" ["$recv.routeByHTTPUser"; "="; "$3.RouteByHTTPUser"];
     Ef "assign" ["$recv.username"; "="; "$3.Username"];
     Ef "assign" ["$recv.password"; "="; "$3.Password"];
     Ef "else" [];
     Ef "if" ["$recv.group != $1 || $recv.domain != $3.Domain || $recv.location != $3.Location || $recv.routeByHTTPUser != $3.RouteByHTTPUser || $recv.username != $3.Username || $recv.password != $3.Password"];
     Ef "local" ["$r0"; "="; "ErrGroupParamsInvalid"];
     Ef "ret" [];
     Ef "end" [];
     Ef "if" ["$recv.groupKey != $2"];
     Ef "local" ["$r0"; "="; "ErrGroupAuthFailed"];
     Ef "ret" [];
     Ef "end" [];
     Ef "end" [];
     Ef "local" ["$l1"; ":="; "$recv.createFuncs[$0]#1"];
     Ef "if" ["$l1"];
     Ef "local" ["$r0"; "="; "ErrProxyRepeated"];
     Ef "ret" [];
     Ef "end" [];
     Ef "store" ["$recv.createFuncs"; "$0"; "$3.CreateConnFn"];
     Ef "store" ["$recv.endpoints"; "$0"; "$0 + ""#"" + strconv.FormatUint(atomic.AddUint64(&httpGroupJoinSeq, 1), 10)"];
     Ef "assign" ["$recv.pxyNames"; "="; "append($recv.pxyNames, $0)"];
     Ef "ret" ["nil"]
  ]);
  ("server/group/http.go:HTTPGroup.UnRegister", [
     Ef "call" ["$recv.mu.Lock"];
     Ef "defer" [];
     Ef "call" ["$recv.mu.Unlock"];
     Ef "end" [];
     Ef "delete" ["$recv.createFuncs"; "$0"];
     Ef "delete" ["$recv.endpoints"; "$0"];
     Ef "loop" ["range"; "$recv.pxyNames"; "$l0"; "$l1"];
     Ef "if" ["$l1 == $0"];
     Ef "assign" ["$recv.pxyNames"; "="; "append($recv.pxyNames[:$l0], $recv.pxyNames[$l0 + 1:])"];
     Ef "branch" ["break"];
     Ef "end" [];
     Ef "end" [];
     Ef "if" ["len($recv.createFuncs) == 0"];
     Ef "local" ["$r0"; "="; "true"];
     Ef "call" ["$recv.ctl.vhostRouter.Del"; "$recv.domain"; "$recv.location"; "$recv.routeByHTTPUser"];
     Ef "end" [];
     Ef "ret" []
  ]);
  ("server/group/tcp.go:TCPGroupCtl.Listen", [
     Ef "call" ["$recv.mu.Lock"];
     Ef "defer" [];
     Ef "call" ["$recv.mu.Unlock"];
     Ef "end" [];
     Ef "local" ["$l0"; ":="; "$recv.groups[$1]#0"];
     Ef "local" ["$l1"; ":="; "$recv.groups[$1]#1"];
     Ef "if" ["!$l1"];
     Ef "local" ["$l0"; "="; "NewTCPGroup($recv)"];
     Ef "store" ["$recv.groups"; "$1"; "$l0"];
     Ef "end" [];
     Ef "ret" ["$l0.Listen($0, $1, $2, $3, $4)"]
  ]);
  ("server/group/tcp.go:TCPGroup.Listen", [
     Ef "call" ["$recv.mu.Lock"];
     Ef "defer" [];
     Ef "call" ["$recv.mu.Unlock"];
     Ef "end" [];
     Ef "if" ["len($recv.lns) == 0"];
     Ef "local" ["$r1"; "="; "$recv.ctl.portManager.Acquire($0, $4)#0"];
     Ef "local" ["$r2"; "="; "$recv.ctl.portManager.Acquire($0, $4)#1"];
     Ef "if" ["$r2 != nil"];
     Ef "ret" [];
     Ef "end" [];
     Ef "local" ["$l0"; ":="; "net.Listen(""tcp"", net.JoinHostPort($3, strconv.Itoa($r1)))#0"];
     Ef "local" ["$l1"; ":="; "net.Listen(""tcp"", net.JoinHostPort($3, strconv.Itoa($r1)))#1"];
     Ef "if" ["$l1 != nil"];
     Ef "call" ["$recv.ctl.portManager.Release"; "$r1"];
     Ef "local" ["$r2"; "="; "$l1"];
     Ef "ret" [];
     Ef "end" [];
     Ef "local" ["$r0"; "="; "newTCPGroupListener($1, $recv, $l0.Addr())"];
     Ef "assign" ["$recv.group"; "="; "$1"];
     Ef "assign" ["$recv.groupKey"; "="; "$2"];
     Ef "assign" ["$recv.addr"; "="; "$3"];
     Ef "assign" ["$recv.port"; "="; "$4"];
     Ef "assign" ["$recv.realPort"; "="; "$r1"];
     Ef "assign" ["$recv.tcpLn"; "="; "$l0"];
     Ef "assign" ["$recv.lns"; "="; "append($recv.lns, $r0)"];
     Ef "if" ["$recv.acceptCh == nil"];
     Ef "assign" ["$recv.acceptCh"; "="; "make(chan net.Conn)"];
     Ef "end" [];
     Ef "go" [];
     Ef "call" ["$recv.worker"];
     Ef "end" [];
     Ef "else" [];
     Ef "if" ["$recv.group != $1 || $recv.addr != $3"];
     Ef "local" ["$r2"; "="; "ErrGroupParamsInvalid"];
     Ef "ret" [];
     Ef "end" [];
     Ef "if" ["$recv.port != $4"];
     Ef "local" ["$r2"; "="; "ErrGroupDifferentPort"];
     Ef "ret" [];
     Ef "end" [];
     Ef "if" ["$recv.groupKey != $2"];
     Ef "local" ["$r2"; "="; "ErrGroupAuthFailed"];
     Ef "ret" [];
     Ef "end" [];
     Ef "local" ["$r0"; "="; "newTCPGroupListener($1, $recv, $recv.lns[0].Addr())"];
     Ef "local" ["$r1"; "="; "$recv.realPort"];
     Ef "assign" ["$recv.lns"; "="; "append($recv.lns, $r0)"];
     Ef "end" [];
     Ef "ret" []
  ]);
  ("server/group/tcp.go:TCPGroup.CloseListener", [
     Ef "call" ["$recv.ctl.mu.Lock"];
     Ef "defer" [];
     Ef "call" ["$recv.ctl.mu.Unlock"];
     Ef "end" [];
     Ef "call" ["$recv.mu.Lock"];
     Ef "defer" [];
     Ef "call" ["$recv.mu.Unlock"];
     Ef "end" [];
     Ef "loop" ["range"; "$recv.lns"; "$l0"; "$l1"];
     Ef "if" ["$l1 == $0"];
     Ef "assign" ["$recv.lns"; "="; "append($recv.lns[:$l0], $recv.lns[$l0 + 1:])"];
     Ef "branch" ["break"];
     Ef "end" [];
     Ef "end" [];
     Ef "if" ["len($recv.lns) == 0"];
     Ef "call" ["close"; "$recv.acceptCh"];
     Ef "call" ["$recv.tcpLn.Close"];
     Ef "call" ["$recv.ctl.portManager.Release"; "$recv.realPort"];
     Ef "delete" ["$recv.ctl.groups"; "$recv.group"];
     Ef "end" []
  ]);
  ("server/group/tcpmux.go:TCPMuxGroupCtl.Listen", [
     Ef "call" ["$recv.mu.Lock"];
     Ef "defer" [];
     Ef "call" ["$recv.mu.Unlock"];
     Ef "end" [];
     Ef "local" ["$l0"; ":="; "$recv.groups[$2]#0"];
     Ef "local" ["$l1"; ":="; "$recv.groups[$2]#1"];
     Ef "if" ["!$l1"];
     Ef "local" ["$l0"; "="; "NewTCPMuxGroup($recv)"];
     Ef "store" ["$recv.groups"; "$2"; "$l0"];
     Ef "end" [];
     Ef "switch" ["v1.TCPMultiplexerType($1)"];
     Ef "case" ["v1.TCPMultiplexerHTTPConnect"];
     Ef "ret" ["$l0.HTTPConnectListen($0, $2, $3, $4)"];
     Ef "case" [];
     Ef "local" ["$r1"; "="; "fmt.Errorf(""unknown multiplexer [%s]"", $1)"];
     Ef "ret" [];
     Ef "end" []
  ]);
  ("server/group/tcpmux.go:TCPMuxGroup.HTTPConnectListen", [
     Ef "call" ["$recv.mu.Lock"];
     Ef "defer" [];
     Ef "call" ["$recv.mu.Unlock"];
     Ef "end" [];
     Ef "if" ["len($recv.lns) == 0"];
     Ef "local" ["$l0"; ":="; "$recv.ctl.tcpMuxHTTPConnectMuxer.Listen($0, &$3)#0"];
     Ef "local" ["$l1"; ":="; "$recv.ctl.tcpMuxHTTPConnectMuxer.Listen($0, &$3)#1"];
     Ef "if" ["$l1 != nil"];
     Ef "ret" ["nil"; "$l1"];
     Ef "end" [];
     Ef "local" ["$r0"; "="; "newTCPMuxGroupListener($1, $recv, $l0.Addr())"];
     Ef "assign" ["$recv.group"; "="; "$1"];
     Ef "assign" ["$recv.groupKey"; "="; "$2"];
     Ef "assign" ["$recv.domain"; "="; "$3.Domain"];
     Ef "assign" ["$recv.routeByHTTPUser"; "="; "$3.RouteByHTTPUser"];
     Ef "assign" ["$recv.username"; "="; "$3.Username"];
     Ef "assign" ["$recv.password"; "="; "$3.Password"];
     Ef "assign" ["$recv.tcpMuxLn"; "="; "$l0"];
     Ef "assign" ["$recv.lns"; "="; "append($recv.lns, $r0)"];
     Ef "if" ["$recv.acceptCh == nil"];
     Ef "assign" ["$recv.acceptCh"; "="; "make(chan net.Conn)"];
     Ef "end" [];
     Ef "go" [];
     Ef "call" ["$recv.worker"];
     Ef "end" [];
     Ef "else" [];
     Ef "if" ["$recv.group != $1 || $recv.domain != $3.Domain || $recv.routeByHTTPUser != $3.RouteByHTTPUser || $recv.username != $3.Username || $recv.password != $3.Password"];
     Ef "ret" ["nil"; "ErrGroupParamsInvalid"];
     Ef "end" [];
     Ef "if" ["$recv.groupKey != $2"];
     Ef "ret" ["nil"; "ErrGroupAuthFailed"];
     Ef "end" [];
     Ef "local" ["$r0"; "="; "newTCPMuxGroupListener($1, $recv, $recv.lns[0].Addr())"];
     Ef "assign" ["$recv.lns"; "="; "append($recv.lns, $r0)"];
     Ef "end" [];
     Ef "ret" []
  ]);
  ("server/group/tcpmux.go:TCPMuxGroup.CloseListener", [
     Ef "call" ["$recv.ctl.mu.Lock"];
     Ef "defer" [];
     Ef "call" ["$recv.ctl.mu.Unlock"];
     Ef "end" [];
     Ef "call" ["$recv.mu.Lock"];
     Ef "defer" [];
     Ef "call" ["$recv.mu.Unlock"];
     Ef "end" [];
     Ef "loop" ["range"; "$recv.lns"; "$l0"; "$l1"];
     Ef "if" ["$l1 == $0"];
     Ef "assign" ["$recv.lns"; "="; "append($recv.lns[:$l0], $recv.lns[$l0 + 1:])"];
     Ef "branch" ["break"];
     Ef "end" [];
     Ef "end" [];
     Ef "if" ["len($recv.lns) == 0"];
     Ef "call" ["close"; "$recv.acceptCh"];
     Ef "call" ["$recv.tcpMuxLn.Close"];
     Ef "delete" ["$recv.ctl.groups"; "$recv.group"];
     Ef "end" []
  ]);
  ("server/proxy/http.go:HTTPProxy.Run", [
     Ef "local" ["$l0"; ":="; "$recv.xl"];
     Ef "local" ["$l1"; ":="; "vhost.RouteConfig{RewriteHost: $recv.cfg.HostHeaderRewrite, RouteByHTTPUser: $recv.cfg.RouteByHTTPUser, Headers: $recv.cfg.RequestHeaders.Set, ResponseHeaders: $recv.cfg.ResponseHeaders.Set, Username: $recv.cfg.HTTPUser, Password: $recv.cfg.HTTPPassword, CreateConnFn: $recv.GetRealConn}"];
     Ef "local" ["$l2"; ":="; "$recv.cfg.Locations"];
     Ef "if" ["len($l2) == 0"];
     Ef "local" ["$l2"; "="; "[]string{""""}"];
     Ef "end" [];
     Ef "defer" [];
     Ef "if" ["$r1 != nil"];
     Ef "call" ["$recv.Close"];
     Ef "end" [];
     Ef "end" [];
     Ef "local" ["$l3"; ":="; "make([]string, 0)"];
     Ef "loop" ["range"; "$recv.cfg.CustomDomains"; "_"; "$l4"];
     Ef "if" ["$l4 == """""];
     Ef "branch" ["continue"];
     Ef "end" [];
     Ef "assign" ["$l1.Domain"; "="; "$l4"];
     Ef "loop" ["range"; "$l2"; "_"; "$l5"];
     Ef "assign" ["$l1.Location"; "="; "$l5"];
     Ef "local" ["$l6"; ":="; "$l1"];
     Ef "if" ["$recv.cfg.LoadBalancer.Group != """""];
     Ef "local" ["$r1"; "="; "$recv.rc.HTTPGroupCtl.Register($recv.name, $recv.cfg.LoadBalancer.Group, $recv.cfg.LoadBalancer.GroupKey, $l1)"];
     Ef "if" ["$r1 != nil"];
     Ef "ret" [];
     Ef "end" [];
     Ef "assign" ["$recv.closeFuncs"; "="; "append($recv.closeFuncs, func)"];
     Ef "else" [];
     Ef "local" ["$r1"; "="; "$recv.rc.HTTPReverseProxy.Register($l1)"];
     Ef "if" ["$r1 != nil"];
     Ef "ret" [];
     Ef "end" [];
     Ef "assign" ["$recv.closeFuncs"; "="; "append($recv.closeFuncs, func)"];
     Ef "end" [];
     Ef "local" ["$l3"; "="; "append($l3, util.CanonicalAddr($l1.Domain, $recv.serverCfg.VhostHTTPPort))"];
     Ef "end" [];
     Ef "end" [];
     Ef "if" ["$recv.cfg.SubDomain != """""];
     Ef "assign" ["$l1.Domain"; "="; "$recv.cfg.SubDomain + ""."" + $recv.serverCfg.SubDomainHost"];
     Ef "loop" ["range"; "$l2"; "_"; "$l5"];
     Ef "assign" ["$l1.Location"; "="; "$l5"];
     Ef "local" ["$l6"; ":="; "$l1"];
     Ef "if" ["$recv.cfg.LoadBalancer.Group != """""];
     Ef "local" ["$r1"; "="; "$recv.rc.HTTPGroupCtl.Register($recv.name, $recv.cfg.LoadBalancer.Group, $recv.cfg.LoadBalancer.GroupKey, $l1)"];
     Ef "if" ["$r1 != nil"];
     Ef "ret" [];
     Ef "end" [];
     Ef "assign" ["$recv.closeFuncs"; "="; "append($recv.closeFuncs, func)"];
     Ef "else" [];
     Ef "local" ["$r1"; "="; "$recv.rc.HTTPReverseProxy.Register($l1)"];
     Ef "if" ["$r1 != nil"];
     Ef "ret" [];
     Ef "end" [];
     Ef "assign" ["$recv.closeFuncs"; "="; "append($recv.closeFuncs, func)"];
     Ef "end" [];
     Ef "local" ["$l3"; "="; "append($l3, util.CanonicalAddr($l6.Domain, $recv.serverCfg.VhostHTTPPort))"];
     Ef "end" [];
     Ef "end" [];
     Ef "local" ["$r0"; "="; "strings.Join($l3, "","")"];
     Ef "ret" []
  ]);
  ("pkg/ssh/server.go:TunnelServer.Run", [
     Ef "local" ["$l0"; ":="; "ssh.NewServerConn($recv.underlyingConn, $recv.sc)#0"];
     Ef "local" ["$l1"; ":="; "ssh.NewServerConn($recv.underlyingConn, $recv.sc)#1"];
     Ef "local" ["$l2"; ":="; "ssh.NewServerConn($recv.underlyingConn, $recv.sc)#2"];
     Ef "local" ["$l3"; ":="; "ssh.NewServerConn($recv.underlyingConn, $recv.sc)#3"];
     Ef "if" ["$l3 != nil"];
     Ef "ret" ["$l3"];
     Ef "end" [];
     Ef "assign" ["$recv.sshConn"; "="; "$l0"];
     Ef "local" ["$l4"; ":="; "$recv.waitForwardAddrAndExtraPayload($l1, $l2, 3 * time.Second)#0"];
     Ef "local" ["$l5"; ":="; "$recv.waitForwardAddrAndExtraPayload($l1, $l2, 3 * time.Second)#1"];
     Ef "local" ["$l3"; ":="; "$recv.waitForwardAddrAndExtraPayload($l1, $l2, 3 * time.Second)#2"];
     Ef "if" ["$l3 != nil"];
     Ef "ret" ["$l3"];
     Ef "end" [];
     Ef "local" ["$l6"; ":="; "$recv.parseClientAndProxyConfigurer($l4, $l5)#0"];
     Ef "local" ["$l7"; ":="; "$recv.parseClientAndProxyConfigurer($l4, $l5)#1"];
     Ef "local" ["$l8"; ":="; "$recv.parseClientAndProxyConfigurer($l4, $l5)#2"];
     Ef "local" ["$l3"; ":="; "$recv.parseClientAndProxyConfigurer($l4, $l5)#3"];
     Ef "if" ["$l3 != nil"];
     Ef "if" ["errors.Is($l3, flag.ErrHelp)"];
     Ef "call" ["$recv.writeToClient"; "$l8"];
     Ef "ret" ["nil"];
     Ef "end" [];
     Ef "call" ["$recv.writeToClient"; "$l3.Error()"];
     Ef "ret" ["fmt.Errorf(""parse flags from ssh client error: %v"", $l3)"];
     Ef "end" [];
     Ef "call" ["$l6.Complete"];
     Ef "if" ["$l0.Permissions != nil"];
     Ef "assign" ["$l6.User"; "="; "util.EmptyOr($l0.Permissions.Extensions[""user""], $l6.User)"];
     Ef "end" [];
     Ef "call" ["$l7.Complete"; "$l6.User"];
     Ef "local" ["$l9"; ":="; "virtual.NewClient(virtual.ClientOptions{Common: $l6, Spec: &msg.ClientSpec{Type: ""ssh-tunnel"", AlwaysAuthPass: !$recv.sc.NoClientAuth}, HandleWorkConnCb: func})#0"];
     Ef "local" ["$l3"; ":="; "virtual.NewClient(virtual.ClientOptions{Common: $l6, Spec: &msg.ClientSpec{Type: ""ssh-tunnel"", AlwaysAuthPass: !$recv.sc.NoClientAuth}, HandleWorkConnCb: func})#1"];
     Ef "if" ["$l3 != nil"];
     Ef "ret" ["$l3"];
     Ef "end" [];
     Ef "assign" ["$recv.vc"; "="; "$l9"];
     Ef "go" [];
     Ef "local" ["$l10"; ":="; "$recv.vc.PeerListener()"];
     Ef "loop" [""];
     Ef "local" ["$l11"; ":="; "$l10.Accept()#0"];
     Ef "local" ["$l3"; ":="; "$l10.Accept()#1"];
     Ef "if" ["$l3 != nil"];
     Ef "ret" [];
     Ef "end" [];
     Ef "end" [];
     Ef "end" [];
     Ef "local" ["$l12"; ":="; "xlog.New().AddPrefix(xlog.LogPrefix{Name: ""sshVirtualClient"", Value: ""sshVirtualClient"", Priority: 100})"];
     Ef "local" ["$l13"; ":="; "xlog.NewContext(context.Background(), $l12)"];
     Ef "go" [];
     Ef "local" ["$l14"; ":="; "$recv.vc.Run($l13)"];
     Ef "if" ["$l14 != nil"];
     Ef "call" ["$recv.writeToClient"; "$l14.Error()"];
     Ef "end" [];
     Ef "call" ["$recv.closeDoneChOnce.Do"; "func"];
     Ef "func" [];
     Ef "call" ["close"; "$recv.doneCh"];
     Ef "end" [];
     Ef "end" [];
     Ef "call" ["$recv.vc.UpdateProxyConfigurer"; "[]v1.ProxyConfigurer{$l7}"];
     Ef "local" ["$l15"; ":="; "$recv.waitProxyStatusReady($l7.GetBaseConfig().Name, time.Second)#0"];
     Ef "local" ["$l3"; ":="; "$recv.waitProxyStatusReady($l7.GetBaseConfig().Name, time.Second)#1"];
     Ef "if" ["$l3 != nil"];
     Ef "call" ["$recv.writeToClient"; "$l3.Error()"];
     Ef "else" [];
     Ef "call" ["$recv.writeToClient"; "createSuccessInfo($l6.User, $l7, $l15)"];
     Ef "end" [];
     Ef "call" ["$recv.vc.Close"];
     Ef "call" ["$recv.closeDoneChOnce.Do"; "func"];
     Ef "func" [];
     Ef "call" ["close"; "$recv.doneCh"];
     Ef "end" [];
     Ef "ret" ["nil"]
  ]);
  ("server/proxy/udp.go:UDPProxy.Close", [
     Ef "call" ["$recv.mu.Lock"];
     Ef "defer" [];
     Ef "call" ["$recv.mu.Unlock"];
     Ef "end" [];
     Ef "if" ["!$recv.isClosed"];
     Ef "assign" ["$recv.isClosed"; "="; "true"];
     Ef "call" ["$recv.BaseProxy.Close"];
     Ef "call" ["close"; "$recv.checkCloseCh"];
     Ef "if" ["$recv.workConn != nil"];
     Ef "call" ["$recv.workConn.Close"];
     Ef "end" [];
     Ef "call" ["$recv.udpConn.Close"];
     Ef "call" ["close"; "$recv.readCh"];
     Ef "call" ["close"; "$recv.sendCh"];
     Ef "call" ["$recv.rc.UDPPortManager.Release"; "$recv.realBindPort"];
     Ef "end" []
  ]);
  ("pkg/msg/handler.go:Dispatcher.sendLoop", [
     Ef "loop" [""];
     Ef "select" [];
     Ef "case" [];
     Ef "expr" ["<-$recv.doneCh"];
     Ef "ret" [];
     Ef "case" [];
     Ef "local" ["$l0"; ":="; "<-$recv.sendCh"];
     Ef "end" [];
     Ef "end" []
  ]);
  ("pkg/msg/handler.go:Dispatcher.readLoop", [
     Ef "loop" [""];
     Ef "local" ["$l0"; ":="; "ReadMsg($recv.rw)#0"];
     Ef "local" ["$l1"; ":="; "ReadMsg($recv.rw)#1"];
     Ef "if" ["$l1 != nil"];
     Ef "call" ["close"; "$recv.doneCh"];
     Ef "ret" [];
     Ef "end" [];
     Ef "local" ["$l2"; ":="; "$recv.msgHandlers[reflect.TypeOf($l0)]#0"];
     Ef "local" ["$l3"; ":="; "$recv.msgHandlers[reflect.TypeOf($l0)]#1"];
     Ef "if" ["$l3"];
     Ef "call" ["$l2"; "$l0"];
     Ef "else" [];
     Ef "if" ["$recv.defaultHandler != nil"];
     Ef "call" ["$recv.defaultHandler"; "$l0"];
     Ef "end" [];
     Ef "end" [];
     Ef "end" []
  ]);
  ("pkg/msg/handler.go:Dispatcher.Send", [
     Ef "select" [];
     Ef "case" [];
     Ef "expr" ["<-$recv.doneCh"];
     Ef "ret" ["io.EOF"];
     Ef "case" [];
     Ef "send" ["$recv.sendCh"; "$0"];
     Ef "ret" ["nil"];
     Ef "end" []
  ]);
  ("server/control.go:Control.registerMsgHandlers", [
     Ef "call" ["$recv.msgDispatcher.RegisterHandler"; "&msg.NewProxy{}"; "$recv.handleNewProxy"];
     Ef "call" ["$recv.msgDispatcher.RegisterHandler"; "&msg.Ping{}"; "$recv.handlePing"];
     Ef "call" ["$recv.msgDispatcher.RegisterHandler"; "&msg.NatHoleVisitor{}"; "msg.AsyncHandler($recv.handleNatHoleVisitor)"];
     Ef "call" ["$recv.msgDispatcher.RegisterHandler"; "&msg.NatHoleClient{}"; "msg.AsyncHandler($recv.handleNatHoleClient)"];
     Ef "call" ["$recv.msgDispatcher.RegisterHandler"; "&msg.NatHoleReport{}"; "msg.AsyncHandler($recv.handleNatHoleReport)"];
     Ef "call" ["$recv.msgDispatcher.RegisterHandler"; "&msg.CloseProxy{}"; "$recv.handleCloseProxy"]
  ]);
  ("pkg/util/net/conn.go:CloseNotifyConn.Close", [
     Ef "local" ["$l0"; ":="; "atomic.SwapInt32(&$recv.closeFlag, 1)"];
     Ef "if" ["$l0 == 0"];
     Ef "local" ["$r0"; "="; "$recv.Conn.Close()"];
     Ef "if" ["$recv.closeFn != nil"];
     Ef "call" ["$recv.closeFn"];
     Ef "end" [];
     Ef "end" [];
     Ef "ret" []
  ]);
  ("pkg/util/net/conn.go:StatsConn.Close", [
     Ef "local" ["$l0"; ":="; "atomic.SwapInt64(&$recv.closed, 1)"];
     Ef "if" ["$l0 != 1"];
     Ef "local" ["$r0"; "="; "$recv.Conn.Close()"];
     Ef "if" ["$recv.statsFunc != nil"];
     Ef "call" ["$recv.statsFunc"; "$recv.totalRead"; "$recv.totalWrite"];
     Ef "end" [];
     Ef "end" [];
     Ef "ret" []
  ])
].
