(* C02 — HTTP proxying preserves requests and responses apart from declared rewrites.
   Statements only; proofs live in Proofs/HttpRewriteProofs.v, the model in Model/HttpRewrite.v.

   The claim is PARTIAL: what net/http/httputil.ReverseProxy and net/http.Transport do themselves
   (hop-by-hop removal, query sanitising, framing, Accept-Encoding, Date / Content-Type added by the
   server) is written down in the model (hr_std_pre, hr_remove_hop, hr_wire_hdrs) only to predict
   what the harness observes; the theorems below that mention it are statements about that
   description, tied to the library by observation, not by proof. *)
From FRP Require Import Model.HttpRewrite Proofs.HttpRewriteProofs Model.HttpAdmit Proofs.HttpAdmitProofs
  gen.GenVhostTransport gen.GenRecycle gen.GenMuxDeadline gen.GenGroupGlue.
From Coq Require Import Permutation.
Open Scope Z_scope.

(* The Rewrite closure, for every route config, inbound request and outbound clone:
   method, path, query, body untouched; every header outside the declared set and the X-Forwarded
   family keeps its values (multiplicity and order); a declared header has exactly the configured
   value; Host is rewritten iff RewriteHost is set; X-Forwarded-For = inbound values joined with ", "
   followed by the user's address; scheme http and the synthetic pool key. *)
Theorem C02_request_preserved_modulo_declared : forall rc inr out,
  let r := hr_rewrite (Some rc) inr out in
  hq_method r = hq_method out /\ hq_path r = hq_path out /\ hq_hasq r = hq_hasq out /\
  hq_query r = hq_query out /\ hq_body r = hq_body out /\
  (forall k, hr_mem k hr_xf3 = false -> hr_last_for k (hc_headers rc) = None ->
             hr_get k (hq_hdrs r) = hr_get k (hq_hdrs out)) /\
  (forall k v, hr_last_for k (hc_headers rc) = Some v -> hr_get k (hq_hdrs r) = [v]) /\
  hq_host r = hr_host_rule (hc_rewrite_host rc) (hq_host out) /\
  (hr_last_for hr_XFF (hc_headers rc) = None ->
     hr_get hr_XFF (hq_hdrs r) =
     match hq_client_ip inr with
     | Some ip => [hr_xff_value (hr_get hr_XFF (hq_hdrs inr)) ip]
     | None => []
     end) /\
  (hr_last_for hr_XFH (hc_headers rc) = None -> hr_get hr_XFH (hq_hdrs r) = [hq_host inr]) /\
  (hr_last_for hr_XFP (hc_headers rc) = None -> hr_get hr_XFP (hq_hdrs r) = [hr_proto inr]) /\
  hq_scheme r = hr_b "http" /\ hq_urlhost r = hr_pool_key rc.
Proof. exact hr_request_preserved. Qed.
Print Assumptions C02_request_preserved_modulo_declared.

(* From the user's request to the backend's, with the library's preprocessing (as described by
   hr_std_pre) in front: end-to-end headers are those not deleted as hop-by-hop.  The query clause
   holds for queries the library leaves alone; otherwise the backend gets the library's re-encoding. *)
Theorem C02_backend_view_preserved_partial : forall rc reenc inr,
  let r := hr_backend_view (Some rc) reenc inr in
  hq_method r = hq_method inr /\ hq_path r = hq_path inr /\ hq_body r = hq_body inr /\
  (hr_query_clean (hq_query inr) = true -> hq_query r = hq_query inr /\ hq_hasq r = hq_hasq inr) /\
  (hr_query_clean (hq_query inr) = false -> hq_query r = reenc) /\
  (forall k, hr_mem k (hr_hop_keys (hq_hdrs inr)) = false -> hr_mem k hr_forwarding_family = false ->
             hr_last_for k (hc_headers rc) = None ->
             hr_get k (hq_hdrs r) = hr_get k (hq_hdrs inr)) /\
  (forall k v, hr_last_for k (hc_headers rc) = Some v -> hr_get k (hq_hdrs r) = [v]) /\
  hq_host r = hr_host_rule (hc_rewrite_host rc) (hq_host inr) /\
  (hr_last_for hr_XFF (hc_headers rc) = None ->
     hr_get hr_XFF (hq_hdrs r) =
     match hq_client_ip inr with
     | Some ip => [hr_xff_value (hr_get hr_XFF (hq_hdrs inr)) ip]
     | None => []
     end).
Proof. exact hr_backend_view_preserved. Qed.
Print Assumptions C02_backend_view_preserved_partial.

Theorem C02_request_without_route_untouched : forall inr out,
  let r := hr_rewrite None inr out in
  hq_method r = hq_method out /\ hq_path r = hq_path out /\ hq_query r = hq_query out /\
  hq_body r = hq_body out /\ hq_host r = hq_host out /\ hq_urlhost r = hq_host out /\
  (forall k, hr_mem k hr_xf3 = false -> hr_get k (hq_hdrs r) = hr_get k (hq_hdrs out)).
Proof. exact hr_request_no_route. Qed.
Print Assumptions C02_request_without_route_untouched.

(* status and body untouched; end-to-end headers untouched except the configured ones, which take
   exactly the configured value *)
Theorem C02_response_preserved_modulo_declared : forall rc resp,
  let r := hr_std_resp (Some rc) resp in
  hs_status r = hs_status resp /\ hs_body r = hs_body resp /\
  (forall k, hr_mem k (hr_hop_keys (hs_hdrs resp)) = false -> hr_last_for k (hc_resp_headers rc) = None ->
             hr_get k (hs_hdrs r) = hr_get k (hs_hdrs resp)) /\
  (forall k v, hr_last_for k (hc_resp_headers rc) = Some v -> hr_get k (hs_hdrs r) = [v]).
Proof. exact hr_response_preserved. Qed.
Print Assumptions C02_response_preserved_modulo_declared.

Theorem C02_modify_response_spec : forall rc resp k,
  hs_status (hr_modify_response rc resp) = hs_status resp /\
  hs_body (hr_modify_response rc resp) = hs_body resp /\
  hr_get k (hs_hdrs (hr_modify_response rc resp)) =
  match rc with
  | Some c => match hr_last_for k (hc_resp_headers c) with Some v => [v] | None => hr_get k (hs_hdrs resp) end
  | None => hr_get k (hs_hdrs resp)
  end.
Proof. exact hr_modify_response_spec. Qed.
Print Assumptions C02_modify_response_spec.

(* the `for k, v := range m { h.Set(k, v) }` loop: replaces all values of the canonical key, the
   last visited entry of a key wins, other keys are untouched; running it twice changes nothing;
   and when no two configured keys share a canonical form the (unspecified) visiting order of the
   Go map is irrelevant *)
Theorem C02_set_headers_idempotent_and_last_wins : forall cfg h k,
  hr_get k (hr_set_all cfg h) = match hr_last_for k cfg with Some v => [v] | None => hr_get k h end /\
  hr_get k (hr_set_all cfg (hr_set_all cfg h)) = hr_get k (hr_set_all cfg h).
Proof. intros. split. apply hr_get_set_all. apply hr_set_all_idempotent. Qed.
Print Assumptions C02_set_headers_idempotent_and_last_wins.

Theorem C02_set_headers_order_irrelevant : forall cfg cfg' h k,
  NoDup (hr_ckeys cfg) -> Permutation cfg cfg' ->
  hr_get k (hr_set_all cfg h) = hr_get k (hr_set_all cfg' h).
Proof. exact hr_set_all_order_irrelevant. Qed.
Print Assumptions C02_set_headers_order_irrelevant.

(* every class of transport error is answered: a timeout by 504 with an empty body, anything else by
   404 with the not-found page; and whatever the transport reports, serveRouted's exchange ends with
   the backend's (status, body) or with one of these two pages *)
Theorem C02_error_mapping_total : forall page e,
  (hr_error_map page e = (504, []) \/ hr_error_map page e = (404, page)) /\
  (fst (hr_error_map page e) = 504 <-> e = HrErrNetTimeout).
Proof. intros. split. apply hr_error_mapping_total. apply hr_error_504_iff_timeout. Qed.
Print Assumptions C02_error_mapping_total.

Theorem C02_handler_always_answers : forall page rc rt,
  (exists r, rt = HrRtResp r /\ hr_serve page rc rt = HrForwarded (hr_std_resp rc r) /\
             hs_status (hr_std_resp rc r) = hs_status r /\ hs_body (hr_std_resp rc r) = hs_body r) \/
  (exists e, rt = HrRtErr e /\
             (hr_serve page rc rt = HrErrorPage 504 [] /\ e = HrErrNetTimeout \/
              hr_serve page rc rt = HrErrorPage 404 page /\ e <> HrErrNetTimeout)).
Proof. exact hr_serve_answers. Qed.
Print Assumptions C02_handler_always_answers.

(* connectHandler: three outcomes; a tunnel only when hijack and connection succeeded, and then the
   backend first receives the serialised request followed by the bytes the client had already sent
   behind the CONNECT head (nothing is lost; repair eea1e0f) *)
Theorem C02_connect_handler_total : forall hj ok conn rb early,
  hr_connect hj ok conn rb early = HrConn500 \/ hr_connect hj ok conn rb early = HrConnNotFound \/
  (hj = true /\ ok = true /\ conn = true /\ hr_connect hj ok conn rb early = HrConnTunnel (rb ++ early)).
Proof. exact hr_connect_total. Qed.
Print Assumptions C02_connect_handler_total.

(* "all sequences of requests on keep-alive connections", for a connection served by a client plugin.
   REFUTED with useCompression (recorded finding C02:plugin+compression:keepalive-second-request): the
   second request on the connection gets no answer. *)
Theorem C02_plugin_keepalive_with_compression_refuted :
  exists pendings, hk_serve (hk_fresh true) pendings <> map (fun _ => true) pendings /\
                   hk_serve (hk_fresh true) pendings = [true; false].
Proof. exact hk_keepalive_refuted. Qed.
Print Assumptions C02_plugin_keepalive_with_compression_refuted.

(* PARTIAL: excluded is exactly (client plugin, useCompression, a later request on the same connection):
   without compression every request of every sequence is answered; with compression the first one is. *)
Theorem C02_plugin_keepalive_partial : forall compressed pendings,
  (compressed = false -> hk_serve (hk_fresh compressed) pendings = map (fun _ => true) pendings) /\
  (forall p r, pendings = p :: r -> exists rest, hk_serve (hk_fresh compressed) pendings = true :: rest).
Proof. exact hk_keepalive_partial. Qed.
Print Assumptions C02_plugin_keepalive_partial.

(* and with compression nothing is answered after the first request whose background read was interrupted *)
Theorem C02_plugin_keepalive_compressed_exact : forall p r,
  hk_serve (hk_fresh true) (p :: r) = true :: (if p then map (fun _ => false) r else hk_serve (hk_fresh true) r).
Proof. exact hk_keepalive_compressed_exact. Qed.
Print Assumptions C02_plugin_keepalive_compressed_exact.

(* the rewrite of a request uses only the config of its own route: any other route of the table may
   be replaced (other headers, other Host rewrite) without effect *)
Theorem C02_rewrite_does_not_depend_on_other_routes : forall a b other other' id inr out,
  hc_id other <> id -> hc_id other' <> id ->
  hr_rewrite_in (a ++ other :: b) (Some id) inr out = hr_rewrite_in (a ++ other' :: b) (Some id) inr out.
Proof. exact hr_rewrite_other_route_irrelevant. Qed.
Print Assumptions C02_rewrite_does_not_depend_on_other_routes.

(* the four client plugins: scheme, target address, Host rule, configured headers, everything else
   untouched, and what each does with the X-Forwarded family *)
Theorem C02_plugin_rewrites_spec : forall p o inr out,
  let r := hr_plugin_rewrite p o inr out in
  hq_method r = hq_method out /\ hq_path r = hq_path out /\ hq_hasq r = hq_hasq out /\
  hq_query r = hq_query out /\ hq_body r = hq_body out /\
  hq_scheme r = hr_plugin_scheme p /\ hq_urlhost r = hp_local_addr o /\
  hq_host r = hr_host_rule (hp_rewrite_host o) (hq_host out) /\
  (forall k v, hr_last_for k (hp_headers o) = Some v -> hr_get k (hq_hdrs r) = [v]) /\
  (forall k, hr_mem k hr_xf3 = false -> hr_last_for k (hp_headers o) = None ->
             hr_get k (hq_hdrs r) = hr_get k (hq_hdrs out)) /\
  ((forall k, hr_mem k hr_xf3 = true -> hr_last_for k (hp_headers o) = None) ->
   hr_plugin_forwarding p inr out r).
Proof. exact hr_plugin_spec. Qed.
Print Assumptions C02_plugin_rewrites_spec.

(* behind http2http and http2https the backend receives the X-Forwarded-For the plugin received, i.e.
   the one frps extended by the user's address (http2http: since the repair a4afe3b; before it the
   header was dropped, which this check reported) *)
Theorem C02_plugin_http2http_keeps_forwarded_for : forall p o reenc inr,
  p = HrH2H \/ p = HrH2HS -> hr_last_for hr_XFF (hp_headers o) = None ->
  hr_get hr_XFF (hq_hdrs (hr_plugin_backend_view p o reenc inr)) = hr_get hr_XFF (hq_hdrs inr).
Proof. exact hr_plugin_h2h_keeps_forwarded. Qed.
Print Assumptions C02_plugin_http2http_keeps_forwarded_for.

(* "other requests are unaffected": a request is never queued behind other exchanges of its route.
   Reflective over the http.Transport literal of NewHTTPReverseProxy as regenerated from
   pkg/util/vhost/http.go on this run: exactly one literal, only reviewed fields, no later assignment, hence
   MaxConnsPerHost = 0 (no cap per pool key) and, for every history of requests and finished exchanges over
   any number of routes, no request waits inside the transport.  A per-host cap field in the literal makes
   [eq_refl] fail to type-check. *)
Theorem C02_request_never_queued_behind_its_route :
  ht_max_conns gen_vhost_transport_fields = Some 0 /\
  forall ops st, ~ In HtQueued (ht_run 0 st ops).
Proof.
  exact (ht_literal_ok_sound gen_vhost_transport_literals gen_vhost_transport_fields gen_vhost_transport_assigned
           (eq_refl true)).
Qed.
Print Assumptions C02_request_never_queued_behind_its_route.

(* the hypothesis is not vacuous: with a cap of 5 connections per key the sixth concurrent exchange of a
   route waits (while another route is still served) *)
Theorem C02_cap_per_route_would_queue : forall k k', k <> k' ->
  ht_run 5 [] (ht_six k ++ [HtRequest k']) = [HtDial; HtDial; HtDial; HtDial; HtDial; HtQueued; HtDial].
Proof. exact ht_cap5_queues. Qed.
Print Assumptions C02_cap_per_route_would_queue.

(* "other requests are unaffected", tunnel option compression: the pooled snappy reader/writer of a work
   connection are given back only after the stream they serve has ended, on every path of every function
   that takes them from the pool (client/proxy/proxy.go HandleTCPWorkConnection incl. its plugin branch,
   server/proxy/proxy.go handleUserTCPConnection, the stcp/xtcp visitors).  Reflective over the statement
   shapes regenerated by translator unit t9rc on this run: a `defer recycle()` in a function that also hands
   the stream to a plugin (which returns at once) makes [eq_refl] fail. *)
Theorem C02_compression_resources_recycled_after_stream_end :
  gen_recycle_sites <> [] /\
  forall file fn evs p, In (file, fn, evs) gen_recycle_sites -> In p (rc_paths evs) ->
                        rc_path_safe p false false = true.
Proof. exact (rc_sites_safe_sound gen_recycle_sites (eq_refl true)). Qed.
Print Assumptions C02_compression_resources_recycled_after_stream_end.

(* non-vacuity: the shape "acquire; defer recycle; ... plugin.Handle; return" is refused, with the offending path *)
Theorem C02_deferred_recycle_with_plugin_handoff_refused :
  rc_site_safe [RcIf [RcAcquire; RcDefer] false; RcIf [RcAsync] true; RcIf [RcClose] true; RcJoin] = false /\
  In [RcAcquire; RcDefer; RcAsync] (rc_paths [RcIf [RcAcquire; RcDefer] false; RcIf [RcAsync] true; RcIf [RcClose] true; RcJoin]).
Proof. exact rc_defer_with_async_unsafe. Qed.
Print Assumptions C02_deferred_recycle_with_plugin_handoff_refused.

(* https / tcpmux proxies: vhost.Muxer.handle arms a deadline (30 s in frps) while it sniffs the routing
   information.  Reflective over the function's deadline statements regenerated by translator unit t9dl on
   this run: at the hand-over to the proxy BOTH the read and the write deadline are cleared. *)
Theorem C02_routed_connection_handed_over_without_deadline :
  mx_handoff_clean gen_mux_handle_ops = true.
Proof. vm_compute. reflexivity. Qed.
Print Assumptions C02_routed_connection_handed_over_without_deadline.

(* hence (this theorem uses the previous one): whatever the sniffing timeout, a response of any duration
   streamed towards the user over the routed connection arrives complete, and requests sent at any age of the
   connection (keep-alive) are all read *)
Theorem C02_long_lived_response_not_cut :
  (forall timeout chunks, mx_deliver_after gen_mux_handle_ops timeout chunks = Some (List.concat (map snd chunks))) /\
  (forall timeout ages, mx_reads_after gen_mux_handle_ops timeout ages = Some (Z.of_nat (length ages))).
Proof. exact (mx_clean_transparent gen_mux_handle_ops C02_routed_connection_handed_over_without_deadline). Qed.
Print Assumptions C02_long_lived_response_not_cut.

(* non-vacuity: clearing only the read deadline is refused; a chunk written after the timeout would be lost *)
Theorem C02_read_only_clear_would_cut :
  mx_handoff_clean [MxArm MxBoth; MxClear MxRead; MxHandoff] = false /\
  mx_deliver_after [MxArm MxBoth; MxClear MxRead; MxHandoff] 30000 [(10, [x61]); (31000, [x62])] = Some [x61].
Proof. exact mx_read_only_clear_cuts. Qed.
Print Assumptions C02_read_only_clear_would_cut.

(* "header sets (multi-valued, mixed case, large)": the http.Server that serves vhostHTTPPort carries only
   reviewed fields (Addr, Handler, ReadHeaderTimeout) — reflective over the literal in server/service.go as
   regenerated on this run — hence no MaxHeaderBytes, and every request head up to net/http's default
   (1 MiB + 4096 bytes) is read and handed to the reverse proxy instead of being answered 431 by frps *)
Theorem C02_large_request_heads_admitted :
  forall head_bytes, head_bytes <= 1048576 + 4096 ->
  hsv_head_admitted gen_vhost_server_fields head_bytes = Some true.
Proof. exact (hsv_literal_ok_sound gen_vhost_server_literals gen_vhost_server_fields (eq_refl true)). Qed.
Print Assumptions C02_large_request_heads_admitted.

(* ---- http load-balancing groups behind a route of the vhost http port ---- *)

(* Reflective over today's Rewrite closure and connectHandler (translator unit t9gr): the endpoint chosen for a
   request is the one its pool key (and RequestRouteInfo.Endpoint, by which the connection is dialled) names,
   whatever was chosen; and a CONNECT obtains its connection through CreateConnection(info, false), i.e. from the
   group's round robin over its members *)
Theorem C02_group_request_dialled_and_pooled_by_chosen_member :
  (forall chosen, hg_key_endpoint gen_group_glue chosen = chosen) /\
  (forall ms index, hg_connect_conn gen_group_glue ms index = hg_create_conn ms index).
Proof. exact (hg_glue_ok_sound gen_group_glue (eq_refl true)). Qed.
Print Assumptions C02_group_request_dialled_and_pooled_by_chosen_member.

(* hence a CONNECT to a group with at least one member gets a connection to a member (never the 404 of
   "no connection"), for every value of the group's counter *)
Theorem C02_connect_to_live_group_gets_a_member : forall ms index,
  ms <> [] -> exists b, hg_connect_conn gen_group_glue ms index = Some b.
Proof.
  intros ms index H. rewrite (proj2 C02_group_request_dialled_and_pooled_by_chosen_member).
  exact (hg_create_conn_live ms index H).
Qed.
Print Assumptions C02_connect_to_live_group_gets_a_member.

(* non-vacuity: with a shadowed endpoint variable (`endpoint, err := ...`) the key names no member; with a dial by
   endpoint in connectHandler a CONNECT finds nobody *)
Theorem C02_group_glue_variants_refused :
  let shadow := {| hgl_choose_tok := ":="; hgl_choose_target := "endpoint"; hgl_urlhost_reads_endpoint := true;
                   hgl_info_endpoint_from := "endpoint"; hgl_connect_callee := "rp.CreateConnection";
                   hgl_connect_by_endpoint := "false" |} in
  let dialctx := {| hgl_choose_tok := "="; hgl_choose_target := "endpoint"; hgl_urlhost_reads_endpoint := true;
                    hgl_info_endpoint_from := "endpoint"; hgl_connect_callee := "rp.transport.DialContext";
                    hgl_connect_by_endpoint := "req.Host" |} in
  hg_glue_ok shadow = false /\ hg_key_endpoint shadow (hr_b "alpha") = [] /\
  hg_glue_ok dialctx = false /\ hg_connect_conn dialctx [(hr_b "alpha", 1); (hr_b "beta", 2)] 7 = None.
Proof. vm_compute. repeat split. Qed.
Print Assumptions C02_group_glue_variants_refused.

(* Every join of a group member gets an endpoint id of its own (repair e71b6d4; before it this check proved and
   replayed the opposite: a member joining under a former member's name inherited the idle connections to the
   former backend, finding F-C02f).  Reflective over HTTPGroup.Register / chooseEndpoint (unit t9gr): the id is
   name # join-number and it is the id that chooseEndpoint hands to the Rewrite closure; and two joins of one name
   have different ids (hence, by theorem C02_group_request_dialled_and_pooled_by_chosen_member, different
   endpoint components of the pool key). *)
Theorem C02_group_member_endpoint_id_per_join :
  hg_endpoint_shape_ok gen_group_endpoint_id_expr gen_group_choose_returns = true /\
  forall name j1 j2, hr_dec j1 <> hr_dec j2 -> hg_endpoint_id hr_dec name j1 <> hg_endpoint_id hr_dec name j2.
Proof. split; [vm_compute; reflexivity|exact (hg_endpoint_id_distinct hr_dec)]. Qed.
Print Assumptions C02_group_member_endpoint_id_per_join.

(* Reflective over today's createConn / createConnByEndpoint (unit t9gr): the group's read lock is released before
   a member's connection is created ... *)
Theorem C02_group_dial_made_without_the_group_lock :
  forall (name : string) (evs : list lk_ev), In (name, evs) gen_group_dial_shapes -> lk_held_at_dial evs false false = Some false.
Proof. exact (lk_dial_shapes_ok_sound gen_group_dial_shapes (eq_refl true)). Qed.
Print Assumptions C02_group_dial_made_without_the_group_lock.

(* ... and with that shape, for ALL interleavings of a request whose member dial never returns (D), a
   membership change (W: write lock) and another request (R): afterwards W and R run to completion
   (lk_completes).  With the dial made under the read lock one interleaving blocks both for ever (Go's RWMutex:
   a waiting writer blocks new readers). *)
Theorem C02_stalled_member_dial_blocks_nobody : forall sched, lk_completes false (lk_run false sched) = true.
Proof. exact lk_unlocked_dial_blocks_nobody. Qed.
Print Assumptions C02_stalled_member_dial_blocks_nobody.

Theorem C02_dial_under_group_lock_would_hang : forall rest,
  lk_run true [LkD; LkW] = lk_stuck_state /\
  let e := fold_left (lk_step true) rest (lk_run true [LkD; LkW]) in ls_w e = 1 /\ ls_r e = 0.
Proof. exact lk_locked_dial_hangs_the_group. Qed.
Print Assumptions C02_dial_under_group_lock_would_hang.

(* ---- quic as transport: a stream is closed gracefully ---- *)
(* Reflective over wrapQuicStream.Close (unit t9gr): it calls Stream.Close and not CancelWrite, so everything
   written before the close reaches the peer, whatever had been delivered at that moment *)
Theorem C02_quic_stream_close_delivers_written_bytes : forall written delivered_so_far,
  qs_received gen_quic_close_calls written delivered_so_far = written.
Proof. intros. apply qs_graceful_delivers. vm_compute. reflexivity. Qed.
Print Assumptions C02_quic_stream_close_delivers_written_bytes.

(* hypotheses are satisfiable / the functions compute *)
Example C02_ex_route : hr_route :=
  {| hc_domain := hr_b "a.example"; hc_location := hr_b "/"; hc_user := []; hc_rewrite_host := hr_b "inner.local";
     hc_headers := [(hr_b "x-from-where", hr_b "frp")]; hc_resp_headers := [(hr_b "x-served-by", hr_b "frps")];
     hc_endpoint := None; hc_id := 7 |}.
Example C02_ex_req : hr_req :=
  {| hq_method := hr_b "POST"; hq_path := hr_b "/a%2Fb"; hq_hasq := true; hq_query := hr_b "x=1&y=%20";
     hq_host := hr_b "a.example";
     hq_hdrs := [(hr_XFF, hr_b "10.0.0.1"); (hr_b "Accept", hr_b "a"); (hr_XFF, hr_b "10.0.0.2");
                 (hr_b "Accept", hr_b "b"); (hr_b "Connection", hr_b "x-hop"); (hr_b "X-Hop", hr_b "1");
                 (hr_b "X-From-Where", hr_b "user")];
     hq_body := hr_b "body"; hq_client_ip := Some (hr_b "127.0.2.9"); hq_tls := false; hq_scheme := []; hq_urlhost := [] |}.
Example C02_ex_eval :
  let r := hr_backend_view (Some C02_ex_route) [] C02_ex_req in
  hr_get hr_XFF (hq_hdrs r) = [hr_b "10.0.0.1, 10.0.0.2, 127.0.2.9"] /\
  hr_get (hr_b "Accept") (hq_hdrs r) = [hr_b "a"; hr_b "b"] /\
  hr_get (hr_b "X-Hop") (hq_hdrs r) = [] /\
  hr_get (hr_b "X-From-Where") (hq_hdrs r) = [hr_b "frp"] /\
  hq_host r = hr_b "inner.local" /\ hq_query r = hr_b "x=1&y=%20" /\
  hq_urlhost r = hr_b "a.example.Lw==...7".
Proof. vm_compute. repeat split. Qed.
