package hx

// SysHarness: an in-process frps on a loopback address plus scripted peers that speak the
// real control protocol through pkg/msg, and helpers for real in-process frpc services,
// stub backends and OS probes.  Used by the system-level drivers.

import (
	"context"
	"fmt"
	"io"
	"net"
	"sync"
	"time"

	"github.com/fatedier/frp/client"
	v1 "github.com/fatedier/frp/pkg/config/v1"
	"github.com/fatedier/frp/pkg/msg"
	netpkg "github.com/fatedier/frp/pkg/util/net"
	"github.com/fatedier/frp/pkg/util/log"
	"github.com/fatedier/frp/pkg/util/util"
	"github.com/fatedier/frp/server"
	golog "github.com/fatedier/golib/log"
)

// Quiet silences frp's logger (drivers' output ends up in check logs).  It must not go through
// log.InitLogger with a path: that installs a daily-rotating file writer, and on "/dev/null" the
// rotation renames the device node and leaves a regular file in its place.
func Quiet() {
	log.Logger = log.Logger.WithOptions(golog.WithOutput(io.Discard), golog.WithLevel(golog.ErrorLevel))
}

// FreePort asks the OS for a free TCP port on addr.
func FreePort(addr string) int {
	l, err := net.Listen("tcp", net.JoinHostPort(addr, "0"))
	if err != nil {
		return 0
	}
	defer l.Close()
	return l.Addr().(*net.TCPAddr).Port
}

// FreeUDPPort asks the OS for a free UDP port on addr.
func FreeUDPPort(addr string) int {
	c, err := net.ListenUDP("udp", &net.UDPAddr{IP: net.ParseIP(addr)})
	if err != nil {
		return 0
	}
	defer c.Close()
	return c.LocalAddr().(*net.UDPAddr).Port
}

// TCPBound reports whether something accepts TCP connections on addr:port.
func TCPBound(addr string, port int) bool {
	c, err := net.DialTimeout("tcp", net.JoinHostPort(addr, fmt.Sprint(port)), 300*time.Millisecond)
	if err != nil {
		return false
	}
	c.Close()
	return true
}

// TCPBindable reports whether addr:port can be bound right now (i.e. nobody listens on it).
func TCPBindable(addr string, port int) bool {
	l, err := net.Listen("tcp", net.JoinHostPort(addr, fmt.Sprint(port)))
	if err != nil {
		return false
	}
	l.Close()
	return true
}

// UDPBindable reports whether the UDP port can be bound right now.
func UDPBindable(addr string, port int) bool {
	c, err := net.ListenUDP("udp", &net.UDPAddr{IP: net.ParseIP(addr), Port: port})
	if err != nil {
		return false
	}
	c.Close()
	return true
}

const DefaultToken = "verif-token-7f3a"

// Server is an in-process frps.
type Server struct {
	Svc    *server.Service
	Cfg    *v1.ServerConfig
	Addr   string
	Port   int
	cancel context.CancelFunc
}

// StartServer starts frps on addr (a 127.0.N.x address) with an OS-chosen bind port,
// token auth (DefaultToken) and Transport.TCPMux = false unless mutate changes it.
// mutate runs after the defaults are set and before Complete.
func StartServer(addr string, mutate func(*v1.ServerConfig)) (*Server, error) {
	cfg := &v1.ServerConfig{}
	cfg.BindAddr = addr
	cfg.ProxyBindAddr = addr
	cfg.BindPort = FreePort(addr)
	cfg.Auth.Method = v1.AuthMethodToken
	cfg.Auth.Token = DefaultToken
	f := false
	cfg.Transport.TCPMux = &f
	if mutate != nil {
		mutate(cfg)
	}
	cfg.Complete()
	svc, err := server.NewService(cfg)
	if err != nil {
		return nil, err
	}
	ctx, cancel := context.WithCancel(context.Background())
	go svc.Run(ctx)
	s := &Server{Svc: svc, Cfg: cfg, Addr: addr, Port: cfg.BindPort, cancel: cancel}
	// wait until the listener answers
	for i := 0; i < 100; i++ {
		if TCPBound(addr, cfg.BindPort) {
			return s, nil
		}
		time.Sleep(10 * time.Millisecond)
	}
	return s, fmt.Errorf("frps did not come up on %s:%d", addr, cfg.BindPort)
}

func (s *Server) Close() {
	s.cancel()
	_ = s.Svc.Close()
}

// Dial opens a raw TCP connection to the server's bind port.
func (s *Server) Dial() (net.Conn, error) {
	return net.DialTimeout("tcp", net.JoinHostPort(s.Addr, fmt.Sprint(s.Port)), 2*time.Second)
}

// Peer is a scripted client session: a control connection after a successful login.
type Peer struct {
	S     *Server
	Conn  net.Conn      // raw control connection
	RW    io.ReadWriter // control channel after login (token-keyed cipher)
	RunID string
	Token string
	User  string

	mu    sync.Mutex
	inbox []msg.Message
}

// LoginOpts are the variable parts of a scripted login.
type LoginOpts struct {
	Token     string // token used to compute the key ("" = DefaultToken); set WrongKey to send a bad key
	WrongKey  bool
	RunID     string
	User      string
	PoolCount int
	Timestamp int64 // 0 = now
	Mutate    func(*msg.Login)
}

// Login dials, sends Login and reads LoginResp.  On refusal the returned Peer is nil and
// resp.Error is non-empty (err is nil unless the connection failed).
func (s *Server) Login(o LoginOpts) (*Peer, *msg.LoginResp, error) {
	conn, err := s.Dial()
	if err != nil {
		return nil, nil, err
	}
	tok := o.Token
	if tok == "" {
		tok = DefaultToken
	}
	ts := o.Timestamp
	if ts == 0 {
		ts = time.Now().Unix()
	}
	key := util.GetAuthKey(tok, ts)
	if o.WrongKey {
		key = util.GetAuthKey(tok+"-wrong", ts)
	}
	lm := &msg.Login{Version: "0.61.0", Hostname: "h", Os: "linux", Arch: "amd64", User: o.User,
		PrivilegeKey: key, Timestamp: ts, RunID: o.RunID, PoolCount: o.PoolCount, Metas: map[string]string{}}
	if o.Mutate != nil {
		o.Mutate(lm)
	}
	if err := msg.WriteMsg(conn, lm); err != nil {
		conn.Close()
		return nil, nil, err
	}
	_ = conn.SetReadDeadline(time.Now().Add(5 * time.Second))
	var resp msg.LoginResp
	if err := msg.ReadMsgInto(conn, &resp); err != nil {
		conn.Close()
		return nil, nil, err
	}
	_ = conn.SetReadDeadline(time.Time{})
	if resp.Error != "" {
		conn.Close()
		return nil, &resp, nil
	}
	rw, err := netpkg.NewCryptoReadWriter(conn, []byte(s.Cfg.Auth.Token))
	if err != nil {
		conn.Close()
		return nil, &resp, err
	}
	return &Peer{S: s, Conn: conn, RW: rw, RunID: resp.RunID, Token: tok, User: o.User}, &resp, nil
}

// Send writes one control message on the (encrypted) control channel.
func (p *Peer) Send(m msg.Message) error { return msg.WriteMsg(p.RW, m) }

// Recv reads the next control message (any type) or returns an error after the timeout.
func (p *Peer) Recv(timeout time.Duration) (msg.Message, error) {
	_ = p.Conn.SetReadDeadline(time.Now().Add(timeout))
	defer p.Conn.SetReadDeadline(time.Time{})
	return msg.ReadMsg(p.RW)
}

// RecvUntil reads messages until pred accepts one; the skipped ones are kept in Inbox order.
// NOTE: after a read timeout the cipher stream may be desynchronised if a frame was cut;
// timeouts are meant for "nothing arrives" situations.
func (p *Peer) RecvUntil(timeout time.Duration, pred func(msg.Message) bool) (msg.Message, error) {
	deadline := time.Now().Add(timeout)
	for {
		left := time.Until(deadline)
		if left <= 0 {
			return nil, fmt.Errorf("timeout")
		}
		m, err := p.Recv(left)
		if err != nil {
			return nil, err
		}
		if pred(m) {
			return m, nil
		}
		p.mu.Lock()
		p.inbox = append(p.inbox, m)
		p.mu.Unlock()
	}
}

// Skipped returns (and clears) the messages RecvUntil skipped.
func (p *Peer) Skipped() []msg.Message {
	p.mu.Lock()
	defer p.mu.Unlock()
	r := p.inbox
	p.inbox = nil
	return r
}

// NewProxy sends a NewProxy and waits for its NewProxyResp.
func (p *Peer) NewProxy(np *msg.NewProxy) (*msg.NewProxyResp, error) {
	if err := p.Send(np); err != nil {
		return nil, err
	}
	m, err := p.RecvUntil(5*time.Second, func(m msg.Message) bool {
		r, ok := m.(*msg.NewProxyResp)
		return ok && r.ProxyName == np.ProxyName
	})
	if err != nil {
		return nil, err
	}
	return m.(*msg.NewProxyResp), nil
}

func (p *Peer) CloseProxy(name string) error { return p.Send(&msg.CloseProxy{ProxyName: name}) }

// Ping sends a heartbeat with a valid (or deliberately wrong) key.
func (p *Peer) Ping(valid bool) error {
	ts := time.Now().Unix()
	tok := p.Token
	if !valid {
		tok += "-wrong"
	}
	return p.Send(&msg.Ping{PrivilegeKey: util.GetAuthKey(tok, ts), Timestamp: ts})
}

// WorkConn dials a new connection and offers it as a work connection of this session.
// The caller then reads the StartWorkConn (msg.ReadMsgInto(conn, &msg.StartWorkConn{})).
func (p *Peer) WorkConn(valid bool) (net.Conn, error) {
	return p.S.OfferWorkConn(p.RunID, p.Token, valid)
}

// OfferWorkConn offers a work connection for an arbitrary run id.
func (s *Server) OfferWorkConn(runID, token string, validKey bool) (net.Conn, error) {
	conn, err := s.Dial()
	if err != nil {
		return nil, err
	}
	ts := time.Now().Unix()
	tok := token
	if !validKey {
		tok += "-wrong"
	}
	m := &msg.NewWorkConn{RunID: runID, PrivilegeKey: util.GetAuthKey(tok, ts), Timestamp: ts}
	if err := msg.WriteMsg(conn, m); err != nil {
		conn.Close()
		return nil, err
	}
	return conn, nil
}

func (p *Peer) Close() { p.Conn.Close() }

// ConnClosedWithin reports whether the peer end of conn observes EOF/reset within d
// (bytes that arrive meanwhile are discarded).
func ConnClosedWithin(conn net.Conn, d time.Duration) bool {
	_ = conn.SetReadDeadline(time.Now().Add(d))
	defer conn.SetReadDeadline(time.Time{})
	buf := make([]byte, 4096)
	for {
		_, err := conn.Read(buf)
		if err != nil {
			if ne, ok := err.(net.Error); ok && ne.Timeout() {
				return false
			}
			return true
		}
	}
}

// ---- real in-process frpc ----

// Client is a real client.Service running in-process.
type Client struct {
	Svc    *client.Service
	cancel context.CancelFunc
	Done   chan error
}

// StartClient runs a real frpc against s.  mutate may change the common config before
// Complete (TCPMux is set to the server's value, token to the server's token).
func (s *Server) StartClient(proxies []v1.ProxyConfigurer, visitors []v1.VisitorConfigurer, mutate func(*v1.ClientCommonConfig)) (*Client, error) {
	cc := &v1.ClientCommonConfig{}
	cc.ServerAddr = s.Addr
	cc.ServerPort = s.Port
	cc.Auth.Method = v1.AuthMethodToken
	cc.Auth.Token = s.Cfg.Auth.Token
	mux := *s.Cfg.Transport.TCPMux
	cc.Transport.TCPMux = &mux
	f := false
	cc.LoginFailExit = &f
	tlsOff := false
	cc.Transport.TLS.Enable = &tlsOff
	if mutate != nil {
		mutate(cc)
	}
	cc.Complete()
	for _, p := range proxies {
		p.Complete(cc.User)
	}
	for _, v := range visitors {
		v.Complete(cc)
	}
	svc, err := client.NewService(client.ServiceOptions{Common: cc, ProxyCfgs: proxies, VisitorCfgs: visitors})
	if err != nil {
		return nil, err
	}
	ctx, cancel := context.WithCancel(context.Background())
	c := &Client{Svc: svc, cancel: cancel, Done: make(chan error, 1)}
	go func() { c.Done <- svc.Run(ctx) }()
	return c, nil
}

func (c *Client) Close() {
	c.cancel()
	c.Svc.Close()
}

// WaitProxyRunning waits until the named proxy reports phase "running".
func (c *Client) WaitProxyRunning(name string, d time.Duration) bool {
	deadline := time.Now().Add(d)
	for time.Now().Before(deadline) {
		if st, ok := c.Svc.StatusExporter().GetProxyStatus(name); ok && st.Phase == "running" {
			return true
		}
		time.Sleep(10 * time.Millisecond)
	}
	return false
}

// ---- stub backends ----

// EchoServer is a TCP backend that echoes, prefixed once by its label if Label != "".
type EchoServer struct {
	L     net.Listener
	Label string
	mu    sync.Mutex
	Conns int
}

func StartEcho(addr, label string) (*EchoServer, error) {
	l, err := net.Listen("tcp", net.JoinHostPort(addr, "0"))
	if err != nil {
		return nil, err
	}
	e := &EchoServer{L: l, Label: label}
	go func() {
		for {
			c, err := l.Accept()
			if err != nil {
				return
			}
			e.mu.Lock()
			e.Conns++
			e.mu.Unlock()
			go func() {
				defer c.Close()
				if label != "" {
					_, _ = io.WriteString(c, label)
				}
				_, _ = io.Copy(c, c)
			}()
		}
	}()
	return e, nil
}

func (e *EchoServer) Port() int { return e.L.Addr().(*net.TCPAddr).Port }
func (e *EchoServer) Count() int {
	e.mu.Lock()
	defer e.mu.Unlock()
	return e.Conns
}
func (e *EchoServer) Close() { e.L.Close() }
