package main

// Driver "shared_port" (C06): an in-process frps whose vhost HTTP and HTTPS ports are the bind port
// itself (first-bytes dispatch in server/service.go), a real in-process frpc with http / https /
// tcpmux proxies (server/proxy/http.go, https.go, tcpmux.go register the routes) and labelled local
// backends.  Requests, ClientHellos and CONNECTs go to the shared port while the control session
// is alive on it; observed: which proxy's backend was reached.  Compared with Model/Router.v and the
// specification through the same CRouter cases as driver "router".

import (
	"bufio"
	"crypto/tls"
	"encoding/base64"
	"fmt"
	"io"
	"net"
	"net/http"
	"strconv"
	"strings"
	"sync"
	"time"

	"verifharness/hx"

	v1 "github.com/fatedier/frp/pkg/config/v1"
)

func init() { drivers["shared_port"] = runSharedPort }

type hitBackend struct {
	ln    net.Listener
	label int64
	hits  chan int64
}

// startHTTPBackend: answers every request with its label
func startHTTPBackend(addr string, label int64) (net.Listener, *http.Server, error) {
	ln, err := net.Listen("tcp", addr+":0")
	if err != nil {
		return nil, nil, err
	}
	srv := &http.Server{Handler: http.HandlerFunc(func(rw http.ResponseWriter, r *http.Request) {
		rw.Header().Set("X-Backend", strconv.FormatInt(label, 10))
		_, _ = io.WriteString(rw, "ok")
	})}
	go func() { _ = srv.Serve(ln) }()
	return ln, srv, nil
}

// startHitBackend: a TCP backend that reports its label for every accepted connection, writes
// "L<label>\n" and closes
func startHitBackend(addr string, label int64, hits chan int64) (net.Listener, error) {
	ln, err := net.Listen("tcp", addr+":0")
	if err != nil {
		return nil, err
	}
	go func() {
		for {
			c, err := ln.Accept()
			if err != nil {
				return
			}
			hits <- label
			_, _ = c.Write([]byte("L" + strconv.FormatInt(label, 10) + "\n"))
			_ = c.Close()
		}
	}()
	return ln, nil
}

func portOf(l net.Listener) int { return l.Addr().(*net.TCPAddr).Port }

type sysRoute struct {
	t     triple
	owner int64
}

func pickDistinct(g *hx.Gen, n int, gen func() triple) []triple {
	seen := map[string]bool{}
	var out []triple
	for tries := 0; len(out) < n && tries < 100; tries++ {
		t := gen()
		k := strings.ToLower(t.d) + "\x00" + t.l + "\x00" + t.u
		if seen[k] {
			continue
		}
		seen[k] = true
		out = append(out, t)
	}
	return out
}

var sysDomains = []string{"a.example.com", "B.Example.com", "*.example.com", "*.a.example.com", "x.a.example.com", "*", "c.example.org", "*.example.org"}

func sharedPortWorld(g *hx.Gen, dist map[string]int, nreq int) ([]string, error) {
	const addr = "127.0.6.10"
	const baddr = "127.0.6.11"
	srv, err := hx.StartServer(addr, func(c *v1.ServerConfig) {
		c.VhostHTTPPort = c.BindPort
		c.VhostHTTPSPort = c.BindPort
		c.TCPMuxHTTPConnectPort = hx.FreePort(addr)
	})
	if err != nil {
		return nil, err
	}
	defer srv.Close()
	var closers []io.Closer
	defer func() {
		for _, c := range closers {
			_ = c.Close()
		}
	}()
	hits := make(chan int64, 64)
	var proxies []v1.ProxyConfigurer
	var names []string
	var httpRoutes, httpsRoutes, muxRoutes []sysRoute
	owner := int64(0)
	// http proxies: each one custom domain, one or two locations, maybe a user restriction
	httpTriples := pickDistinct(g, 3+g.Intn(4), func() triple {
		return triple{g.Pick(sysDomains), g.Pick([]string{"", "", "/a", "/a/b", "/ab"}), g.Pick([]string{"", "", "u1"})}
	})
	for _, t := range httpTriples {
		owner++
		ln, hs, err := startHTTPBackend(baddr, owner)
		if err != nil {
			return nil, err
		}
		closers = append(closers, hs)
		p := &v1.HTTPProxyConfig{}
		p.Name = fmt.Sprintf("http%d", owner)
		p.Type = "http"
		p.LocalIP = baddr
		p.LocalPort = portOf(ln)
		p.CustomDomains = []string{t.d}
		if t.l != "" {
			p.Locations = []string{t.l}
		}
		p.RouteByHTTPUser = t.u
		proxies = append(proxies, p)
		names = append(names, p.Name)
		httpRoutes = append(httpRoutes, sysRoute{t, owner})
	}
	httpsTriples := pickDistinct(g, 2+g.Intn(3), func() triple { return triple{g.Pick(sysDomains), "", ""} })
	for _, t := range httpsTriples {
		owner++
		ln, err := startHitBackend(baddr, owner, hits)
		if err != nil {
			return nil, err
		}
		closers = append(closers, ln)
		p := &v1.HTTPSProxyConfig{}
		p.Name = fmt.Sprintf("https%d", owner)
		p.Type = "https"
		p.LocalIP = baddr
		p.LocalPort = portOf(ln)
		p.CustomDomains = []string{t.d}
		proxies = append(proxies, p)
		names = append(names, p.Name)
		httpsRoutes = append(httpsRoutes, sysRoute{t, owner})
	}
	muxTriples := pickDistinct(g, 2+g.Intn(3), func() triple { return triple{g.Pick(sysDomains), "", g.Pick([]string{"", "", "u1"})} })
	for _, t := range muxTriples {
		owner++
		ln, err := startHitBackend(baddr, owner, hits)
		if err != nil {
			return nil, err
		}
		closers = append(closers, ln)
		p := &v1.TCPMuxProxyConfig{}
		p.Name = fmt.Sprintf("mux%d", owner)
		p.Type = "tcpmux"
		p.Multiplexer = "httpconnect"
		p.LocalIP = baddr
		p.LocalPort = portOf(ln)
		p.CustomDomains = []string{t.d}
		p.RouteByHTTPUser = t.u
		proxies = append(proxies, p)
		names = append(names, p.Name)
		muxRoutes = append(muxRoutes, sysRoute{t, owner})
	}
	cl, err := srv.StartClient(proxies, nil, nil)
	if err != nil {
		return nil, err
	}
	defer cl.Close()
	// a proxy that does not come up had its route refused by the server (observed as Add refused)
	refused := map[int64]bool{}
	for i, n := range names {
		if !cl.WaitProxyRunning(n, 3*time.Second) {
			refused[int64(i+1)] = true
			dist["proxy not running"]++
		}
	}
	var cases []string
	front := net.JoinHostPort(addr, strconv.Itoa(srv.Port))
	liveOf := func(rs []sysRoute) []triple {
		var l []triple
		for _, r := range rs {
			l = append(l, r.t)
		}
		return l
	}
	addOps := func(rs []sysRoute) []string {
		var ops []string
		for _, r := range rs {
			ops = append(ops, fmt.Sprintf("OAdd %s %s %s %d %s", hx.HxS(r.t.d), hx.HxS(r.t.l), hx.HxS(r.t.u), r.owner, hx.Bool(!refused[r.owner])))
		}
		return ops
	}
	// --- HTTP over the shared port, keep-alive client connections ---
	{
		ops := addOps(httpRoutes)
		tr := &http.Transport{MaxIdleConnsPerHost: 2}
		client := &http.Client{Transport: tr, Timeout: 10 * time.Second}
		for i := 0; i < nreq; i++ {
			h, p, u := reqFor(g, liveOf(httpRoutes), reqHosts)
			if h == "" || strings.Contains(h, "*") || strings.HasPrefix(h, ".") || strings.Contains(h, "..") {
				h = "a.example.com"
			}
			if p == "" || p[0] != '/' {
				p = "/" + p
			}
			h += g.Pick([]string{"", "", ":80", ".", ".:8080"})
			req, _ := http.NewRequest("GET", "http://"+front+p, nil)
			req.Host = h
			if u != "" {
				req.SetBasicAuth(u, "x")
			}
			resp, err := client.Do(req)
			if err != nil {
				return nil, fmt.Errorf("http request %s %s: %v", h, p, err)
			}
			_, _ = io.Copy(io.Discard, resp.Body)
			_ = resp.Body.Close()
			var lbl int64
			ok := false
			switch resp.StatusCode {
			case 200:
				lbl, _ = strconv.ParseInt(resp.Header.Get("X-Backend"), 10, 64)
				ok = true
			case 404:
			default:
				return nil, fmt.Errorf("http request %s %s: status %d", h, p, resp.StatusCode)
			}
			dist["shared-port http"]++
			ops = append(ops, fmt.Sprintf("OVhost true %s %s %s %s", hx.HxS(h), hx.HxS(p), hx.HxS(u), optZ(lbl, ok)))
		}
		tr.CloseIdleConnections()
		cases = append(cases, "CRouter 1 "+hx.List(ops))
	}
	drain := func() {
		for {
			select {
			case <-hits:
			default:
				return
			}
		}
	}
	waitHit := func() (int64, bool) {
		select {
		case l := <-hits:
			return l, true
		case <-time.After(300 * time.Millisecond):
			return 0, false
		}
	}
	// --- TLS ClientHellos on the shared port ---
	{
		ops := addOps(httpsRoutes)
		for i := 0; i < nreq/2; i++ {
			h, _, _ := reqFor(g, liveOf(httpsRoutes), reqHosts)
			for h == "" || strings.HasPrefix(h, ".") || strings.Contains(h, "..") || strings.Contains(h, "*") || h[0] >= '0' && h[0] <= '9' {
				h = g.Pick(reqHosts)
			}
			if g.Chance(0.2) {
				h = strings.ToUpper(h)
			}
			drain()
			c, err := net.DialTimeout("tcp", front, 2*time.Second)
			if err != nil {
				return nil, err
			}
			_ = c.SetDeadline(time.Now().Add(3 * time.Second))
			herr := tls.Client(c, &tls.Config{ServerName: h, InsecureSkipVerify: true}).Handshake()
			_ = c.Close()
			lbl, ok := int64(0), false
			if herr != nil && strings.Contains(herr.Error(), "first record does not look like a TLS handshake") {
				// the labelled backend answered in clear text: it was reached
				lbl, ok = waitHit()
			} else {
				select {
				case lbl = <-hits:
					ok = true
				default:
				}
			}
			dist["shared-port clienthello"]++
			ops = append(ops, fmt.Sprintf("OVhost false %s [] [] %s", hx.HxS(h), optZ(lbl, ok)))
		}
		cases = append(cases, "CRouter 2 "+hx.List(ops))
	}
	// --- CONNECT on the tcpmux port ---
	{
		ops := addOps(muxRoutes)
		maddr := net.JoinHostPort(addr, strconv.Itoa(srv.Cfg.TCPMuxHTTPConnectPort))
		for i := 0; i < nreq/2; i++ {
			h, _, u := reqFor(g, liveOf(muxRoutes), reqHosts)
			if h == "" || strings.Contains(h, "*") || strings.HasPrefix(h, ".") || strings.Contains(h, "..") {
				h = "a.example.com"
			}
			h += g.Pick([]string{":443", ".:443", "", ":80"})
			drain()
			c, err := net.DialTimeout("tcp", maddr, 2*time.Second)
			if err != nil {
				return nil, err
			}
			_ = c.SetDeadline(time.Now().Add(3 * time.Second))
			req := "CONNECT " + h + " HTTP/1.1\r\nHost: " + h + "\r\n"
			if u != "" {
				req += "Proxy-Authorization: Basic " + base64.StdEncoding.EncodeToString([]byte(u+":pw")) + "\r\n"
			}
			_, _ = c.Write([]byte(req + "\r\n"))
			br := bufio.NewReader(c)
			status, err := br.ReadString('\n')
			lbl, ok := int64(0), false
			if err == nil && strings.Contains(status, " 200 ") {
				for {
					line, err := br.ReadString('\n')
					if err != nil {
						break
					}
					if strings.HasPrefix(line, "L") {
						lbl, _ = strconv.ParseInt(strings.TrimSpace(line[1:]), 10, 64)
						ok = true
						break
					}
				}
				if !ok {
					_ = c.Close()
					return nil, fmt.Errorf("CONNECT %s: 200 but no backend label", h)
				}
			} else if err != nil || !strings.Contains(status, " 404 ") {
				_ = c.Close()
				return nil, fmt.Errorf("CONNECT %s: unexpected answer %q %v", h, status, err)
			}
			_ = c.Close()
			dist["shared-port connect"]++
			ops = append(ops, fmt.Sprintf("OVhost true %s [] %s %s", hx.HxS(h), hx.HxS(u), optZ(lbl, ok)))
		}
		cases = append(cases, "CRouter 3 "+hx.List(ops))
	}
	return cases, nil
}

var sysMu sync.Mutex

func runSharedPort(cfg *hx.RunCfg) error {
	hx.Quiet()
	g := hx.NewGen(cfg.Seed)
	cf := &hx.CaseFile{
		Imports: "From FRP Require Import Corr.C06.\n",
		Typ:     "case",
		Tail: "Definition M := Eval vm_compute in mismatches check_case cases.\nPrint M.\n" +
			"Definition NSYSREFUSED := Eval vm_compute in sum_cases (router_counter 1) cases.\nPrint NSYSREFUSED.\n" +
			"Definition NSYSEXACT := Eval vm_compute in sum_cases (router_counter 2) cases.\nPrint NSYSEXACT.\n" +
			"Definition NSYSWILDCARD := Eval vm_compute in sum_cases (router_counter 3) cases.\nPrint NSYSWILDCARD.\n" +
			"Definition NSYSVIOL := Eval vm_compute in count_if (fun c => negb (C06_holds c)) cases.\nPrint NSYSVIOL.\n",
	}
	dist := map[string]int{}
	var samples []any
	for i := 0; i < cfg.N; i++ {
		cs, err := sharedPortWorld(g, dist, 16)
		if err != nil {
			return fmt.Errorf("world %d: %v", i, err)
		}
		cf.Cases = append(cf.Cases, cs...)
		if i == 0 {
			samples = append(samples, cs[0])
		}
	}
	cfg.St["cases"] = len(cf.Cases)
	cfg.St["distinct_nontrivial"] = len(cf.Cases)
	cfg.St["samples"] = samples
	cfg.St["distribution"] = dist
	cfg.St["impl_failures"] = []any{}
	return cf.Write(cfg.Out)
}
