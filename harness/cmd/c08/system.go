package main

import "verifharness/hx"

func systemCases(cfg *hx.RunCfg, g *gen, n int, dist map[string]int, add func(string, []map[string]string)) error {
	return nil
}
