package main

// Driver "visitors", parts (viii) and (ix):
//  (viii) an in-process frps with two http server plugins for the Login operation (scripted: reject / leave
//         unchanged / rewrite the user); sessions claim one user and are authenticated as another; then correctly
//         signed visitor requests from every session to stcp / sudp / xtcp proxies;
//  (ix)   an admitted stcp / sudp visitor stream that is older than the visitor's 10 s handshake deadline when the
//         server side sends again (real wait, started when the driver starts and collected when it ends).

import (
	"bytes"
	"context"
	"encoding/json"
	"fmt"
	"io"
	"net"
	"net/http"
	"net/http/httptest"
	"strings"
	"time"

	"github.com/fatedier/frp/client/visitor"
	v1 "github.com/fatedier/frp/pkg/config/v1"
	"github.com/fatedier/frp/pkg/msg"
	"github.com/fatedier/frp/pkg/proto/udp"
	"github.com/fatedier/frp/pkg/util/util"
	"verifharness/hx"
)

const (
	pluginAddr = "127.0.8.6"
	longAddr   = "127.0.8.7"
)

// ---------- (viii) Login plugins ----------

// pluginAns: "rj" reject, "un" unchanged, "rw:<user>" rewrite
func pluginAnsCoq(a string) string {
	switch {
	case a == "rj":
		return "PReject"
	case a == "un":
		return "PUnchanged"
	}
	return "(PRewrite " + hx.HxS(strings.TrimPrefix(a, "rw:")) + ")"
}

// startLoginPlugin: an http server plugin that answers a Login as metas[key] of the login says.
func startLoginPlugin(key string) (*httptest.Server, error) {
	l, err := net.Listen("tcp", net.JoinHostPort(pluginAddr, "0"))
	if err != nil {
		return nil, err
	}
	ts := httptest.NewUnstartedServer(http.HandlerFunc(func(w http.ResponseWriter, r *http.Request) {
		var req struct {
			Op      string         `json:"op"`
			Content map[string]any `json:"content"`
		}
		body, _ := io.ReadAll(r.Body)
		_ = json.Unmarshal(body, &req)
		ans := "un"
		if metas, ok := req.Content["metas"].(map[string]any); ok {
			if a, ok := metas[key].(string); ok {
				ans = a
			}
		}
		resp := map[string]any{"reject": false, "unchange": true}
		switch {
		case ans == "rj":
			resp = map[string]any{"reject": true, "reject_reason": "plugin " + key + " says no"}
		case strings.HasPrefix(ans, "rw:"):
			req.Content["user"] = strings.TrimPrefix(ans, "rw:")
			resp = map[string]any{"reject": false, "unchange": false, "content": req.Content}
		}
		w.Header().Set("Content-Type", "application/json")
		_ = json.NewEncoder(w).Encode(resp)
	}))
	ts.Listener.Close()
	ts.Listener = l
	ts.Start()
	return ts, nil
}

func pluginCase(g *gen, dist map[string]int) (string, []map[string]string, error) {
	pa, err := startLoginPlugin("a")
	if err != nil {
		return "", nil, err
	}
	defer pa.Close()
	pb, err := startLoginPlugin("b")
	if err != nil {
		return "", nil, err
	}
	defer pb.Close()
	srv, err := hx.StartServer(pluginAddr, func(c *v1.ServerConfig) {
		c.HTTPPlugins = []v1.HTTPPluginOptions{
			{Name: "ident-a", Addr: pa.Listener.Addr().String(), Path: "/handler", Ops: []string{"Login"}},
			{Name: "ident-b", Addr: pb.Listener.Addr().String(), Path: "/handler", Ops: []string{"Login"}},
		}
	})
	if err != nil {
		return "", nil, err
	}
	defer srv.Close()
	startedC := make(chan started, 256)
	ht := newHTable()
	for _, s := range skPool {
		ht.addSk(s)
	}
	var ops, obs []string
	var fails []map[string]string
	type plogin struct {
		claimed string
		ans     [2]string
	}
	other := g.Pick([]string{"bob", "carol", "mallory"})
	logins := []plogin{
		{"own", [2]string{g.Pick([]string{"un", "rw:own"}), "un"}}, // the owner
		{"own", [2]string{"rw:mallory", "un"}},                    // claims the owner's user, is somebody else
		{g.Pick([]string{"x", "", "mallory"}), [2]string{"un", "rw:own"}}, // claims anything, is the owner's user
		{"own", [2]string{"un", "rw:" + other}},
		{"own", [2]string{"rw:alice", "rj"}}, // rewritten, then rejected
		{other, [2]string{"un", "un"}},
		{"own", [2]string{"rw:" + other, "rw:own"}}, // the last rewrite wins
	}
	var sessions []*sess
	var users []string // authenticated user per live session, by the plugin answers
	defer func() {
		for _, s := range sessions {
			s.p.Close()
		}
	}()
	for _, lg := range logins {
		lg := lg
		p, resp, err := srv.Login(hx.LoginOpts{User: lg.claimed, Mutate: func(l *msg.Login) {
			l.Metas = map[string]string{"a": lg.ans[0], "b": lg.ans[1]}
		}})
		if err != nil {
			return "", nil, err
		}
		answers := hx.List([]string{pluginAnsCoq(lg.ans[0]), pluginAnsCoq(lg.ans[1])})
		if p == nil {
			z := int64(99)
			if strings.Contains(resp.Error, "says no") {
				z = 6
			}
			// a refused login has no run id; the model needs none either
			ops = append(ops, fmt.Sprintf("SLoginVia %s %s %s", hx.HxS("refused"), hx.HxS(lg.claimed), answers))
			obs = append(obs, obsZ(z))
			dist["plugin-login:refused"]++
			continue
		}
		s := newSess(p, len(sessions), lg.claimed, startedC)
		sessions = append(sessions, s)
		// what the plugins made of it (for the driver's own monitor only)
		u := lg.claimed
		for _, a := range lg.ans {
			if strings.HasPrefix(a, "rw:") {
				u = strings.TrimPrefix(a, "rw:")
			}
		}
		users = append(users, u)
		ops = append(ops, fmt.Sprintf("SLoginVia %s %s %s", hx.HxS(p.RunID), hx.HxS(lg.claimed), answers))
		obs = append(obs, obsZ(0))
		dist["plugin-login:accepted"]++
	}
	owner := sessions[0]
	type preg struct {
		name, kind, sk string
		allow          []string
	}
	regs := []preg{
		{"ps", "stcp", g.sk(), nil},
		{"pu", "sudp", g.sk(), nil},
		{"px", "xtcp", g.sk(), nil},
		{"pb", g.Pick([]string{"stcp", "xtcp"}), g.sk(), []string{other}},
	}
	for _, r := range regs {
		if err := owner.p.Send(&msg.NewProxy{ProxyName: r.name, ProxyType: r.kind, Sk: r.sk, AllowUsers: r.allow}); err != nil {
			return "", nil, err
		}
		select {
		case resp := <-owner.proxyRes:
			if resp.Error != "" {
				return "", nil, fmt.Errorf("plugin case: NewProxy refused: %s", resp.Error)
			}
		case <-time.After(respWait):
			return "", nil, fmt.Errorf("plugin case: no NewProxyResp")
		}
		ops = append(ops, fmt.Sprintf("SRegister %s %s %s %s %s", hx.HxS(owner.p.RunID), kindCoq(r.kind), hx.HxS(r.name), hx.HxS(r.sk), coqStrs(r.allow)))
		obs = append(obs, obsZ(0))
	}
	var cid int64
	for _, r := range regs {
		allow := r.allow
		if len(allow) == 0 {
			allow = []string{users[0]}
		}
		for si, vs := range sessions {
			ts := g.ts()
			ht.addTs(ts)
			sign := util.GetAuthKey(r.sk, ts)
			allowed := contains(allow, users[si]) || contains(allow, "*")
			if r.kind == "xtcp" {
				if err := vs.p.Send(&msg.NatHoleVisitor{TransactionID: "tx", ProxyName: r.name, Protocol: "quic", SignKey: sign, Timestamp: ts}); err != nil {
					return "", nil, err
				}
				resp := int64(9)
				notified, sid := false, ""
				select {
				case rr := <-vs.nhResp:
					resp = nhErrClass(rr.Error)
				case st := <-startedC:
					var sm msg.NatHoleSid
					_ = st.conn.SetReadDeadline(time.Now().Add(respWait))
					e := msg.ReadMsgInto(st.conn, &sm)
					st.conn.Close()
					notified = e == nil && st.s == owner && st.m.ProxyName == r.name
					sid = sm.Sid
				case <-time.After(posWait):
				}
				opText := fmt.Sprintf("SNatHole %s %s %s %s false %s true", hx.HxS(vs.p.RunID), hx.HxS(r.name), hx.Z(ts), hx.HxS(sign), hx.HxS(sid))
				ops = append(ops, opText)
				obs = append(obs, obsNh(resp, notified, r.name, sid, 0, -1, -1))
				if notified {
					ops = append(ops, fmt.Sprintf("SSessionEnd %s", hx.HxS(sid)))
					obs = append(obs, obsZ(0))
				}
				if notified && !allowed {
					fails = append(fails, map[string]string{"key": "plugin:claimed-user-admitted",
						"what": "a session whose user a Login plugin rewrote was judged by the user it CLAIMED: its correctly signed NAT-hole request reached the owner although the authenticated user is outside allowUsers",
						"case": fmt.Sprintf("%s claimed=%q authenticated=%q allowUsers=%q", opText, vs.user, users[si], allow)})
				}
				dist[fmt.Sprintf("plugin-nathole:allowed=%v:notified=%v", allowed, notified)]++
				continue
			}
			cid++
			vc, err := srv.Dial()
			if err != nil {
				return "", nil, err
			}
			_ = msg.WriteMsg(vc, &msg.NewVisitorConn{RunID: vs.p.RunID, ProxyName: r.name, SignKey: sign, Timestamp: ts})
			var resp msg.NewVisitorConnResp
			_ = vc.SetReadDeadline(time.Now().Add(respWait))
			if err := msg.ReadMsgInto(vc, &resp); err != nil {
				vc.Close()
				return "", nil, fmt.Errorf("plugin case: no NewVisitorConnResp: %v", err)
			}
			z := vmErrTextClass(resp.Error)
			opText := fmt.Sprintf("SVisitorConn %s %s %s %s false false %s true", hx.HxS(vs.p.RunID), hx.HxS(r.name), hx.Z(ts), hx.HxS(sign), hx.Z(cid))
			ops = append(ops, opText)
			obs = append(obs, obsZ(z))
			acc := obsAccept(-1, false, false, "", true)
			if z == 0 {
				select {
				case st := <-startedC:
					if st.s == owner && st.m.ProxyName == r.name {
						acc = obsAccept(cid, false, false, r.sk, true)
					} else {
						acc = obsAccept(-2, false, false, "", false)
					}
					st.conn.Close()
				case <-time.After(posWait):
				}
			}
			vc.Close()
			ops = append(ops, fmt.Sprintf("SAccept %s", hx.HxS(r.name)))
			obs = append(obs, acc)
			if z == 0 && !allowed {
				fails = append(fails, map[string]string{"key": "plugin:claimed-user-admitted",
					"what": "a session whose user a Login plugin rewrote was judged by the user it CLAIMED: its correctly signed visitor connection was admitted although the authenticated user is outside allowUsers",
					"case": fmt.Sprintf("%s claimed=%q authenticated=%q allowUsers=%q", opText, vs.user, users[si], allow)})
			}
			dist[fmt.Sprintf("plugin-visitor:allowed=%v:resp=%d", allowed, z)]++
		}
	}
	return fmt.Sprintf("CSys %s %s %s", ht.coq(), hx.List(ops), hx.List(obs)), fails, nil
}

// ---------- (ix) streams older than the handshake deadline ----------

const (
	earlyBytes = "early bytes right behind the handshake\n"
	lateBytes  = "late bytes, the stream is older than ten seconds\n"
	lateAfter  = 10500 * time.Millisecond
)

type longRes struct {
	kind        int
	age         time.Duration
	early, late bool
	err         error
}

// fakeFrpsLate answers one NewVisitorConn, sends early(nv) at once and late(nv) when the stream is lateAfter old.
func fakeFrpsLate(addr string, wrap func(nv *msg.NewVisitorConn, plain []byte) ([]byte, error), early, late func(nv *msg.NewVisitorConn) []byte) (net.Listener, chan error, error) {
	ln, err := net.Listen("tcp", net.JoinHostPort(addr, "0"))
	if err != nil {
		return nil, nil, err
	}
	done := make(chan error, 1)
	go func() {
		c, err := ln.Accept()
		if err != nil {
			done <- err
			return
		}
		defer c.Close()
		m, err := msg.ReadMsg(c)
		if err != nil {
			done <- err
			return
		}
		nv, ok := m.(*msg.NewVisitorConn)
		if !ok {
			done <- fmt.Errorf("first message is not NewVisitorConn")
			return
		}
		t0 := time.Now()
		if err := msg.WriteMsg(c, &msg.NewVisitorConnResp{ProxyName: nv.ProxyName}); err != nil {
			done <- err
			return
		}
		w, err := wrap(nv, early(nv))
		if err == nil {
			_, err = c.Write(w)
		}
		if err != nil {
			done <- err
			return
		}
		go func() { _, _ = io.Copy(io.Discard, c) }()
		time.Sleep(time.Until(t0.Add(lateAfter)))
		w, err = wrap(nv, late(nv))
		if err == nil {
			_, err = c.Write(w)
		}
		done <- err
		time.Sleep(2 * time.Second)
	}()
	return ln, done, nil
}

func longSTCP() longRes {
	const sk = "long-sk"
	r := longRes{kind: 0}
	plain := func(nv *msg.NewVisitorConn, p []byte) ([]byte, error) { return p, nil }
	ln, done, err := fakeFrpsLate(longAddr, plain,
		func(*msg.NewVisitorConn) []byte { return []byte(earlyBytes) }, func(*msg.NewVisitorConn) []byte { return []byte(lateBytes) })
	if err != nil {
		r.err = err
		return r
	}
	defer ln.Close()
	ctx, cancel := context.WithCancel(context.Background())
	defer cancel()
	cc := &v1.ClientCommonConfig{}
	cc.Complete()
	vc := &v1.STCPVisitorConfig{}
	vc.Name, vc.Type, vc.ServerName, vc.SecretKey, vc.BindPort = "long-v", "stcp", "long-secret", sk, -1
	vc.Complete(cc)
	v, err := visitor.NewVisitor(ctx, vc, cc, &c08Helper{addr: ln.Addr().String()})
	if err == nil {
		err = v.Run()
	}
	if err != nil {
		r.err = err
		return r
	}
	defer v.Close()
	userSide, visSide := net.Pipe()
	defer userSide.Close()
	if err := v.AcceptConn(visSide); err != nil {
		r.err = err
		return r
	}
	t0 := time.Now()
	got := make([]byte, len(earlyBytes))
	_ = userSide.SetReadDeadline(time.Now().Add(respWait))
	_, e := io.ReadFull(userSide, got)
	r.early = e == nil && string(got) == earlyBytes
	// the user stays idle; the visitor is waiting for bytes from the server when the stream turns ten seconds old
	got = make([]byte, len(lateBytes))
	_ = userSide.SetReadDeadline(time.Now().Add(lateAfter + 4*time.Second))
	_, e = io.ReadFull(userSide, got)
	r.late = e == nil && string(got) == lateBytes
	r.age = time.Since(t0)
	select {
	case err := <-done:
		if err != nil && r.late {
			r.err = fmt.Errorf("fake frps: %v", err)
		}
	case <-time.After(respWait):
	}
	return r
}

func longSUDP() longRes {
	const sk = "long-sk"
	r := longRes{kind: 1}
	user, err := net.ListenUDP("udp", &net.UDPAddr{IP: net.ParseIP(longAddr)})
	if err != nil {
		r.err = err
		return r
	}
	defer user.Close()
	userAddr := user.LocalAddr().(*net.UDPAddr)
	pkt := func(s string) []byte {
		var b bytes.Buffer
		_ = msg.WriteMsg(&b, udp.NewUDPPacket([]byte(s), nil, userAddr))
		return b.Bytes()
	}
	plain := func(nv *msg.NewVisitorConn, p []byte) ([]byte, error) { return p, nil }
	ln, done, err := fakeFrpsLate(longAddr, plain,
		func(*msg.NewVisitorConn) []byte { return pkt(earlyBytes) }, func(*msg.NewVisitorConn) []byte { return pkt(lateBytes) })
	if err != nil {
		r.err = err
		return r
	}
	defer ln.Close()
	ctx, cancel := context.WithCancel(context.Background())
	defer cancel()
	cc := &v1.ClientCommonConfig{}
	cc.Complete()
	vc := &v1.SUDPVisitorConfig{}
	vc.Name, vc.Type, vc.ServerName, vc.SecretKey = "long-vu", "sudp", "long-secret", sk
	vc.BindAddr, vc.BindPort = longAddr, hx.FreeUDPPort(longAddr)
	vc.Complete(cc)
	v, err := visitor.NewVisitor(ctx, vc, cc, &c08Helper{addr: ln.Addr().String()})
	if err == nil {
		err = v.Run()
	}
	if err != nil {
		r.err = err
		return r
	}
	defer v.Close()
	if _, err := user.WriteToUDP([]byte("hello"), &net.UDPAddr{IP: net.ParseIP(longAddr), Port: vc.BindPort}); err != nil {
		r.err = err
		return r
	}
	t0 := time.Now()
	buf := make([]byte, 2048)
	_ = user.SetReadDeadline(time.Now().Add(respWait))
	n, _, e := user.ReadFromUDP(buf)
	r.early = e == nil && string(buf[:n]) == earlyBytes
	_ = user.SetReadDeadline(time.Now().Add(lateAfter + 4*time.Second))
	n, _, e = user.ReadFromUDP(buf)
	r.late = e == nil && string(buf[:n]) == lateBytes
	r.age = time.Since(t0)
	select {
	case err := <-done:
		if err != nil && r.late {
			r.err = fmt.Errorf("fake frps: %v", err)
		}
	case <-time.After(respWait):
	}
	return r
}

// startLongLived starts both long-lived streams; the returned function waits for them and adds their cases.
func startLongLived(dist map[string]int, add func(string, []map[string]string)) func() error {
	ch := make(chan longRes, 2)
	go func() { ch <- longSTCP() }()
	go func() { ch <- longSUDP() }()
	return func() error {
		res := []longRes{<-ch, <-ch}
		if res[0].kind > res[1].kind {
			res[0], res[1] = res[1], res[0]
		}
		for _, r := range res {
			if r.err != nil {
				return fmt.Errorf("long-lived stream (kind %d): %v", r.kind, r.err)
			}
			// the age is a measured duration: only its class (beyond the deadline) goes into the case
			cs := fmt.Sprintf("CLong %d %d %s %s", r.kind, lateAfter.Milliseconds(), hx.Bool(r.early), hx.Bool(r.late))
			var fails []map[string]string
			if !r.early || !r.late {
				fails = []map[string]string{{"key": "visitor:stream-cut-at-handshake-deadline",
					"what": "an admitted " + []string{"stcp", "sudp"}[r.kind] + " visitor stream that was idle when it turned 10 s old did not deliver the bytes the server side sent afterwards (the handshake read deadline is still armed)",
					"case": fmt.Sprintf("%s waited=%s", cs, r.age.Round(100*time.Millisecond))}}
			}
			dist[fmt.Sprintf("long:%s:early=%v:late=%v", []string{"stcp", "sudp"}[r.kind], r.early, r.late)]++
			add(cs, fails)
		}
		return nil
	}
}
