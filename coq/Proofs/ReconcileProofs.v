(* C19 — proofs about Model/Reconcile.v (UpdateAll of the proxy manager with its wrappers) *)
From Coq Require Import List ZArith Bool Lia.
From FRP Require Import Model.Wrapper Model.Reconcile Proofs.WrapperProofs.
Import ListNotations.
Open Scope Z_scope.

(* ---- maps ---- *)
Section MapFacts.
  Context {V : Type}.
  Implicit Types m : rc_map V.

  Lemma rc_get_set_same : forall m k v, rc_get (rc_set m k v) k = Some v.
  Proof.
    induction m as [|[k' v'] r IH]; intros k v; simpl.
    - rewrite Z.eqb_refl. reflexivity.
    - destruct (k' =? k) eqn:E; simpl.
      + rewrite Z.eqb_refl. reflexivity.
      + rewrite E. apply IH.
  Qed.

  Lemma rc_get_set_other : forall m k v k', k <> k' -> rc_get (rc_set m k v) k' = rc_get m k'.
  Proof.
    induction m as [|[k0 v0] r IH]; intros k v k' Hne; simpl.
    - destruct (k =? k') eqn:E; auto. apply Z.eqb_eq in E. congruence.
    - destruct (k0 =? k) eqn:E; simpl.
      + apply Z.eqb_eq in E. subst k0. destruct (k =? k') eqn:E2; auto. apply Z.eqb_eq in E2. congruence.
      + destruct (k0 =? k'); auto.
  Qed.

  Lemma rc_get_notin : forall m k, ~ In k (rc_keys m) -> rc_get m k = None.
  Proof.
    induction m as [|[k0 v0] r IH]; intros k Hn; simpl; auto.
    destruct (k0 =? k) eqn:E.
    - apply Z.eqb_eq in E. subst. exfalso. apply Hn. left. reflexivity.
    - apply IH. intros Hin. apply Hn. right. exact Hin.
  Qed.

  Lemma rc_get_in : forall m k v, rc_get m k = Some v -> In (k, v) m.
  Proof.
    induction m as [|[k0 v0] r IH]; intros k v H; simpl in *; try discriminate.
    destruct (k0 =? k) eqn:E.
    - apply Z.eqb_eq in E. inversion H; subst. left. reflexivity.
    - right. apply IH. exact H.
  Qed.

  Lemma rc_in_get : forall m k v, NoDup (rc_keys m) -> In (k, v) m -> rc_get m k = Some v.
  Proof.
    induction m as [|[k0 v0] r IH]; intros k v Hnd Hin; simpl in *; [destruct Hin|].
    inversion Hnd as [|? ? Hn Hnd']; subst.
    destruct Hin as [Heq|Hin].
    - inversion Heq; subst. rewrite Z.eqb_refl. reflexivity.
    - destruct (k0 =? k) eqn:E.
      + apply Z.eqb_eq in E. subst. exfalso. apply Hn. apply in_map_iff. exists (k, v). auto.
      + apply IH; auto.
  Qed.

  Lemma rc_keys_set_absent : forall m k v, rc_get m k = None -> rc_keys (rc_set m k v) = rc_keys m ++ [k].
  Proof.
    induction m as [|[k0 v0] r IH]; intros k v H; simpl in *; auto.
    destruct (k0 =? k) eqn:E; try discriminate. simpl. f_equal. apply IH. exact H.
  Qed.

  Lemma rc_get_some_in_keys : forall m k v, rc_get m k = Some v -> In k (rc_keys m).
  Proof. intros m k v H. apply rc_get_in in H. apply in_map_iff. exists (k, v). auto. Qed.

  Lemma rc_get_filter : forall (p : Z * V -> bool) m k, NoDup (rc_keys m) ->
    rc_get (filter p m) k =
    match rc_get m k with Some v => if p (k, v) then Some v else None | None => None end.
  Proof.
    intros p. induction m as [|[k0 v0] r IH]; intros k Hnd; simpl; auto.
    inversion Hnd as [|? ? Hn Hnd']; subst.
    destruct (k0 =? k) eqn:E.
    - apply Z.eqb_eq in E. subst k0. destruct (p (k, v0)) eqn:Hp; simpl.
      + rewrite Z.eqb_refl. reflexivity.
      + rewrite IH; auto. rewrite (rc_get_notin r k Hn). reflexivity.
    - destruct (p (k0, v0)); simpl; [rewrite E|]; apply IH; auto.
  Qed.
End MapFacts.

Lemma rc_cfg_eqb_eq : forall a b, rc_cfg_eqb a b = true <-> a = b.
Proof.
  intros [n1 v1 h1] [n2 v2 h2]. unfold rc_cfg_eqb. simpl. split.
  - intros H. apply andb_true_iff in H. destruct H as [H H3]. apply andb_true_iff in H. destruct H as [H1 H2].
    apply Z.eqb_eq in H1. apply Z.eqb_eq in H2. apply Bool.eqb_prop in H3. subst. reflexivity.
  - intros H. inversion H; subst. rewrite !Z.eqb_refl. simpl. apply Bool.eqb_reflx.
Qed.

(* the map consulted by both loops holds, for every name, the FIRST entry of the slice *)
Lemma rc_keyby_rev_cons : forall c r, rc_cfgs_map (c :: r) = rc_set (rc_cfgs_map r) (rc_name c) c.
Proof.
  intros c r. unfold rc_cfgs_map, rc_keyby. simpl. rewrite fold_left_app. reflexivity.
Qed.

Lemma rc_cfgs_map_first : forall cfgs n, rc_get (rc_cfgs_map cfgs) n = rc_first cfgs n.
Proof.
  induction cfgs as [|c r IH]; intros n.
  - reflexivity.
  - rewrite rc_keyby_rev_cons. simpl. destruct (rc_name c =? n) eqn:E.
    + apply Z.eqb_eq in E. subst n. apply rc_get_set_same.
    + rewrite rc_get_set_other; [apply IH|]. intros H. subst. rewrite Z.eqb_refl in E. discriminate.
Qed.

Lemma rc_keep_spec : forall cfgs n old,
  rc_keep (rc_cfgs_map cfgs) n old = true <-> rc_first cfgs n = Some old.
Proof.
  intros cfgs n old. unfold rc_keep. rewrite rc_cfgs_map_first. destruct (rc_first cfgs n) as [c|].
  - rewrite rc_cfg_eqb_eq. split; intros H; [subst|inversion H]; reflexivity.
  - split; discriminate.
Qed.

Lemma rc_first_name : forall cfgs n c, rc_first cfgs n = Some c -> rc_name c = n /\ In c cfgs.
Proof.
  induction cfgs as [|x r IH]; intros n c H; simpl in H; try discriminate.
  destruct (rc_name x =? n) eqn:E.
  - inversion H; subst. apply Z.eqb_eq in E. split; auto. left; reflexivity.
  - destruct (IH n c H). split; auto. right; assumption.
Qed.

Lemma rc_first_in : forall cfgs c, In c cfgs -> rc_first cfgs (rc_name c) <> None.
Proof.
  induction cfgs as [|x r IH]; intros c Hin; simpl in *; [destruct Hin|].
  destruct (rc_name x =? rc_name c) eqn:E; [discriminate|].
  destruct Hin as [Heq|Hin]; [subst; rewrite Z.eqb_refl in E; discriminate|]. apply IH; auto.
Qed.

(* ---- well-formed manager states ---- *)
Definition pm_entry_ok (next : Z) (ne : Z * pm_entry) : Prop :=
  rc_name (pe_cfg (snd ne)) = fst ne /\ pw_ph (pe_w (snd ne)) <> PWClosed /\ pe_id (snd ne) < next.

Definition pm_map_ok (next : Z) (m : rc_map pm_entry) : Prop :=
  NoDup (rc_keys m) /\ Forall (pm_entry_ok next) m.

Definition pm_wf (s : pm_state) : Prop :=
  pm_map_ok (pm_next s) (pm_map s) /\
  Forall (fun e => pw_ph (pe_w e) = PWClosed /\ pe_id e < pm_next s) (pm_dead s).

Lemma pm_wf_init : pm_wf pm_init.
Proof. repeat split; simpl; constructor. Qed.

Definition pm_del_pred (cm : rc_map rc_cfg) (ne : Z * pm_entry) : bool := rc_keep cm (fst ne) (pe_cfg (snd ne)).

Definition pm_stopped (e : pm_entry) : pm_entry :=
  {| pe_id := pe_id e; pe_cfg := pe_cfg e; pe_w := pw_set_phase (pe_w e) PWClosed |}.

Lemma pm_wstep_stop : forall t n e next, pm_entry_ok next (n, e) ->
  pm_wstep t e PWStop = (pm_stopped e, [PMCloseProxy n]).
Proof.
  intros t n e next (Hn & Hc & _). simpl in *. unfold pm_wstep. simpl.
  destruct (pw_ph (pe_w e)) eqn:Hp; try congruence; simpl; unfold pm_stopped; subst n; reflexivity.
Qed.

Lemma pm_del_loop_spec : forall t cm next m, Forall (pm_entry_ok next) m ->
  pm_del_loop t cm m =
  (filter (pm_del_pred cm) m,
   map (fun ne => pm_stopped (snd ne)) (filter (fun ne => negb (pm_del_pred cm ne)) m),
   map (fun ne => PMCloseProxy (fst ne)) (filter (fun ne => negb (pm_del_pred cm ne)) m),
   map (fun ne => PMStop (pe_id (snd ne)) (fst ne)) (filter (fun ne => negb (pm_del_pred cm ne)) m)).
Proof.
  intros t cm next m. induction m as [|[n e] r IH]; intros Hall; simpl; auto.
  inversion Hall as [|? ? He Hr]; subst. rewrite (IH Hr).
  assert (Hp : pm_del_pred cm (n, e) = rc_keep cm n (pe_cfg e)) by reflexivity.
  rewrite Hp. destruct (rc_keep cm n (pe_cfg e)) eqn:K; simpl.
  - reflexivity.
  - rewrite (pm_wstep_stop t n e next He). reflexivity.
Qed.

(* ---- add loop ---- *)
Lemma NoDup_app_snoc_c19 : forall (l : list Z) k, NoDup l -> ~ In k l -> NoDup (l ++ [k]).
Proof.
  induction l as [|x r IH]; intros k Hnd Hn; simpl.
  - constructor; auto.
  - inversion Hnd as [|? ? Hx Hr]; subst. constructor.
    + intros Hin. apply in_app_or in Hin. destruct Hin as [Hin|[Heq|[]]]; auto. subst. apply Hn. left; reflexivity.
    + apply IH; auto. intros Hin. apply Hn. right; assumption.
Qed.

Lemma rc_get_notin_conv : forall (V : Type) (m : rc_map V) k, In k (rc_keys m) -> rc_get m k <> None.
Proof.
  intros V m. induction m as [|[k0 v0] r IH]; intros k Hin; simpl in *; [destruct Hin|].
  destruct (k0 =? k) eqn:E; [discriminate|]. destruct Hin as [Heq|Hin].
  - subst. rewrite Z.eqb_refl in E. discriminate.
  - apply IH; auto.
Qed.

Lemma pm_set_absent_forall : forall (V : Type) (P : Z * V -> Prop) (m : rc_map V) k v,
  Forall P m -> P (k, v) -> Forall P (rc_set m k v).
Proof.
  intros V P m. induction m as [|[k0 v0] r IH]; intros k v Hall Hp; simpl.
  - constructor; auto.
  - inversion Hall; subst. destruct (k0 =? k); constructor; auto.
Qed.

Lemma pm_add_loop_spec : forall cfgs m next,
  pm_map_ok next m ->
  let '(m', n', evs) := pm_add_loop cfgs m next in
  next <= n' /\ pm_map_ok n' m' /\
  (forall k e, rc_get m k = Some e -> rc_get m' k = Some e) /\
  (forall k, rc_get m k = None -> rc_first cfgs k = None -> rc_get m' k = None) /\
  (forall k c, rc_get m k = None -> rc_first cfgs k = Some c ->
     exists id, next <= id < n' /\ rc_get m' k = Some {| pe_id := id; pe_cfg := c; pe_w := pw_init (rc_hc c) |}) /\
  (forall id k, In (PMStart id k) evs -> next <= id < n' /\ rc_get m k = None) /\
  ((forall c, In c cfgs -> rc_get m (rc_name c) <> None) -> m' = m /\ n' = next /\ evs = []).
Proof.
  induction cfgs as [|c r IH]; intros m next Hok; simpl.
  - split; [lia|]. split; [assumption|]. split; [auto|]. split; [auto|].
    split; [intros; discriminate|]. split; [intros ? ? []|]. auto.
  - destruct (rc_get m (rc_name c)) as [e0|] eqn:Hg.
    + specialize (IH m next Hok). destruct (pm_add_loop r m next) as [[m' n'] evs].
      destruct IH as (I1 & I2 & I3 & I4 & I5 & I6 & I7).
      split; [exact I1|]. split; [exact I2|]. split; [exact I3|].
      split.
      { intros k Hk Hf. apply I4; auto. destruct (rc_name c =? k) eqn:E; auto.
        apply Z.eqb_eq in E. subst. congruence. }
      split.
      { intros k c' Hk Hf. apply I5; auto. destruct (rc_name c =? k) eqn:E; auto.
        apply Z.eqb_eq in E. subst. congruence. }
      split; [exact I6|].
      intros H. apply I7. intros c' Hin. apply H. right; assumption.
    + set (e := {| pe_id := next; pe_cfg := c; pe_w := pw_init (rc_hc c) |}).
      assert (Hok' : pm_map_ok (next + 1) (rc_set m (rc_name c) e)).
      { destruct Hok as [Hnd Hall]. split.
        - rewrite rc_keys_set_absent; auto. apply NoDup_app_snoc_c19; auto.
          intros Hin. apply rc_get_notin_conv in Hin. congruence.
        - apply pm_set_absent_forall.
          + eapply Forall_impl; [|exact Hall]. intros [k x] (A & B & C). repeat split; auto. simpl in *. lia.
          + repeat split; simpl; auto; try lia. destruct (rc_hc c); discriminate. }
      specialize (IH (rc_set m (rc_name c) e) (next + 1) Hok').
      destruct (pm_add_loop r (rc_set m (rc_name c) e) (next + 1)) as [[m' n'] evs].
      destruct IH as (I1 & I2 & I3 & I4 & I5 & I6 & I7).
      split; [lia|]. split; [exact I2|].
      split.
      { intros k e1 Hk. apply I3. rewrite rc_get_set_other; auto. intros Heq. subst. congruence. }
      split.
      { intros k Hk Hf. destruct (rc_name c =? k) eqn:E; [discriminate|].
        apply I4; auto. rewrite rc_get_set_other; auto. intros Heq. subst. rewrite Z.eqb_refl in E. discriminate. }
      split.
      { intros k c' Hk Hf. destruct (rc_name c =? k) eqn:E.
        - apply Z.eqb_eq in E. subst k. inversion Hf; subst c'. exists next. split; [lia|].
          apply I3. apply rc_get_set_same.
        - destruct (I5 k c') as (id & Hid & Hget); auto.
          { rewrite rc_get_set_other; auto. intros Heq. subst. rewrite Z.eqb_refl in E. discriminate. }
          exists id. split; auto. lia. }
      split.
      { intros id k [Heq|Hin].
        - inversion Heq; subst. split; [lia|auto].
        - destruct (I6 _ _ Hin) as [Hid Hn]. split; [lia|].
          destruct (rc_name c =? k) eqn:E; [apply Z.eqb_eq in E; subst; auto|].
          rewrite rc_get_set_other in Hn; auto. intros Heq. subst. rewrite Z.eqb_refl in E. discriminate. }
      intros H. exfalso. apply (H c); [left; reflexivity|assumption].
Qed.

Lemma pm_add_loop_only_starts : forall cfgs m next id n,
  ~ In (PMStop id n) (snd (pm_add_loop cfgs m next)).
Proof.
  induction cfgs as [|c r IH]; intros m next id n; simpl; auto.
  destruct (rc_get m (rc_name c)); [apply IH|].
  specialize (IH (rc_set m (rc_name c) {| pe_id := next; pe_cfg := c; pe_w := pw_init (rc_hc c) |}) (next + 1) id n).
  destruct (pm_add_loop r _ (next + 1)) as [[m' n'] evs]. simpl in *.
  intros [H|H]; [discriminate|auto].
Qed.

(* ---- UpdateAll as a whole ---- *)
Lemma c19_filter_all : forall (A : Type) (p : A -> bool) l, (forall x, In x l -> p x = true) -> filter p l = l.
Proof.
  intros A p l. induction l as [|x r IH]; intros H; simpl; auto.
  rewrite (H x (or_introl eq_refl)). f_equal. apply IH. intros y Hy. apply H. right; assumption.
Qed.

Lemma c19_filter_none : forall (A : Type) (p : A -> bool) l, (forall x, In x l -> p x = false) -> filter p l = [].
Proof.
  intros A p l. induction l as [|x r IH]; intros H; simpl; auto.
  rewrite (H x (or_introl eq_refl)). apply IH. intros y Hy. apply H. right; assumption.
Qed.

Lemma rc_keys_filter_nodup : forall (V : Type) (p : Z * V -> bool) (m : rc_map V),
  NoDup (rc_keys m) -> NoDup (rc_keys (filter p m)).
Proof.
  intros V p m. induction m as [|[k v] r IH]; intros Hnd; simpl; auto.
  inversion Hnd as [|? ? Hn Hr]; subst. destruct (p (k, v)); simpl; auto.
  constructor; auto. intros Hin. apply Hn. unfold rc_keys in *. apply in_map_iff in Hin.
  destruct Hin as ([k' v'] & Hk & Hin). simpl in Hk. subst k'. apply filter_In in Hin. destruct Hin as [Hin _].
  apply in_map_iff. exists (k, v'). auto.
Qed.

Lemma pm_kept_ok : forall next p m, pm_map_ok next m -> pm_map_ok next (filter p m).
Proof.
  intros next p m [Hnd Hall]. split.
  - apply rc_keys_filter_nodup; auto.
  - apply Forall_forall. intros x Hx. apply filter_In in Hx. destruct Hx as [Hx _].
    rewrite Forall_forall in Hall. auto.
Qed.

Theorem pm_update_converges : forall t s cfgs, pm_wf s ->
  let '(s', outs, evs) := pm_update t s cfgs in
  pm_wf s' /\
  (forall n, rc_get (pm_map s') n = None <-> rc_first cfgs n = None) /\
  (forall n e', rc_get (pm_map s') n = Some e' -> rc_first cfgs n = Some (pe_cfg e')) /\
  (forall n e, rc_get (pm_map s) n = Some e -> rc_first cfgs n = Some (pe_cfg e) ->
     rc_get (pm_map s') n = Some e /\ ~ In (PMCloseProxy n) outs /\
     (forall id, ~ In (PMStop id n) evs) /\ (forall id, ~ In (PMStart id n) evs)) /\
  (forall n e, rc_get (pm_map s) n = Some e -> rc_first cfgs n <> Some (pe_cfg e) ->
     In (PMCloseProxy n) outs /\ In (PMStop (pe_id e) n) evs /\ In (pm_stopped e) (pm_dead s') /\
     (forall e', rc_get (pm_map s') n = Some e' ->
        pm_next s <= pe_id e' /\ pe_w e' = pw_init (rc_hc (pe_cfg e')))) /\
  (forall o, In o outs -> exists n, o = PMCloseProxy n).
Proof.
  intros t s cfgs [[Hnd Hall] Hdead]. unfold pm_update.
  rewrite (pm_del_loop_spec t (rc_cfgs_map cfgs) (pm_next s) (pm_map s) Hall).
  set (cm := rc_cfgs_map cfgs).
  set (kept := filter (pm_del_pred cm) (pm_map s)).
  set (gone := filter (fun ne => negb (pm_del_pred cm ne)) (pm_map s)).
  assert (Hkept : pm_map_ok (pm_next s) kept) by (apply pm_kept_ok; split; auto).
  pose proof (pm_add_loop_spec cfgs kept (pm_next s) Hkept) as Hadd.
  pose proof (fun id n => pm_add_loop_only_starts cfgs kept (pm_next s) id n) as Hstarts.
  destruct (pm_add_loop cfgs kept (pm_next s)) as [[m' n'] ev2]. cbn [snd] in Hstarts.
  destruct Hadd as (A1 & A2 & A3 & A4 & A5 & A6 & A7).
  assert (Hgetkept : forall n, rc_get kept n =
            match rc_get (pm_map s) n with
            | Some e => if rc_keep cm n (pe_cfg e) then Some e else None
            | None => None end).
  { intros n. unfold kept. rewrite rc_get_filter; auto. }
  assert (Hname : forall n e, rc_get (pm_map s) n = Some e -> rc_name (pe_cfg e) = n).
  { intros n e Hg. apply rc_get_in in Hg. rewrite Forall_forall in Hall. destruct (Hall _ Hg) as (H1 & _). exact H1. }
  assert (Hgone : forall n e, In (n, e) gone <-> rc_get (pm_map s) n = Some e /\ rc_first cfgs n <> Some (pe_cfg e)).
  { intros n e. unfold gone. rewrite filter_In. unfold pm_del_pred. simpl. split.
    - intros [Hin Hk]. split; [apply rc_in_get; auto|]. intros Hf. apply rc_keep_spec in Hf. fold cm in Hf. rewrite Hf in Hk. discriminate.
    - intros [Hg Hf]. split; [apply rc_get_in; auto|]. destruct (rc_keep cm n (pe_cfg e)) eqn:K; auto.
      exfalso. apply Hf. apply rc_keep_spec. exact K. }
  cbn [pm_map pm_dead pm_next].
  split.
  { (* wf *)
    split; [exact A2|]. apply Forall_app. split.
    - apply Forall_forall. intros x Hx. apply in_map_iff in Hx. destruct Hx as ([n e] & Hx & Hin). subst x. simpl.
      split; [reflexivity|]. unfold gone in Hin. apply filter_In in Hin. destruct Hin as [Hin _].
      rewrite Forall_forall in Hall. destruct (Hall _ Hin) as (_ & _ & H3). simpl in *. lia.
    - eapply Forall_impl; [|exact Hdead]. intros e [H1 H2]. split; auto. simpl in *. lia. }
  split.
  { intros n. specialize (Hgetkept n). split.
    - intros Hnone. destruct (rc_first cfgs n) as [c|] eqn:Hf; auto. exfalso.
      destruct (rc_get kept n) as [e|] eqn:Hk.
      + rewrite (A3 _ _ Hk) in Hnone. discriminate.
      + destruct (A5 n c Hk Hf) as (id & _ & Hg). rewrite Hg in Hnone. discriminate.
    - intros Hf. apply A4; auto. rewrite Hgetkept. destruct (rc_get (pm_map s) n) as [e|]; auto.
      destruct (rc_keep cm n (pe_cfg e)) eqn:K; auto. apply rc_keep_spec in K. congruence. }
  split.
  { intros n e' Hg. specialize (Hgetkept n). destruct (rc_get kept n) as [e|] eqn:Hk.
    - rewrite (A3 _ _ Hk) in Hg. inversion Hg; subst e'.
      destruct (rc_get (pm_map s) n) as [e0|]; try discriminate.
      destruct (rc_keep cm n (pe_cfg e0)) eqn:K; try discriminate. inversion Hgetkept; subst e0.
      apply rc_keep_spec. exact K.
    - destruct (rc_first cfgs n) as [c|] eqn:Hf.
      + destruct (A5 n c Hk Hf) as (id & _ & Hg'). rewrite Hg' in Hg. inversion Hg; subst. reflexivity.
      + rewrite (A4 n Hk Hf) in Hg. discriminate. }
  split.
  { intros n e Hg Hf. assert (Hk : rc_get kept n = Some e).
    { rewrite Hgetkept, Hg. apply rc_keep_spec in Hf. fold cm in Hf. rewrite Hf. reflexivity. }
    split; [apply A3; exact Hk|]. split.
    - intros Hin. apply in_map_iff in Hin. destruct Hin as ([n0 e0] & Heq & Hin). simpl in Heq. inversion Heq; subst n0.
      apply Hgone in Hin. destruct Hin as [Hg0 Hf0]. rewrite Hg in Hg0. inversion Hg0; subst. contradiction.
    - split.
      + intros id Hin. apply in_app_or in Hin. destruct Hin as [Hin|Hin].
        * apply in_map_iff in Hin. destruct Hin as ([n0 e0] & Heq & Hin). simpl in Heq. inversion Heq; subst n0.
          apply Hgone in Hin. destruct Hin as [Hg0 Hf0]. rewrite Hg in Hg0. inversion Hg0; subst. contradiction.
        * exact (Hstarts _ _ Hin).
      + intros id Hin. apply in_app_or in Hin. destruct Hin as [Hin|Hin].
        * apply in_map_iff in Hin. destruct Hin as ([n0 e0] & Heq & _). discriminate.
        * destruct (A6 _ _ Hin) as [_ Hn]. congruence. }
  split.
  { intros n e Hg Hf. assert (Hin : In (n, e) gone) by (apply Hgone; auto).
    split; [apply in_map_iff; exists (n, e); auto|].
    split; [apply in_or_app; left; apply in_map_iff; exists (n, e); auto|].
    split; [apply in_or_app; left; apply in_map_iff; exists (n, e); auto|].
    intros e' Hg'. assert (Hk : rc_get kept n = None).
    { rewrite Hgetkept, Hg. destruct (rc_keep cm n (pe_cfg e)) eqn:K; auto. apply rc_keep_spec in K. contradiction. }
    destruct (rc_first cfgs n) as [c|] eqn:Hfc.
    - destruct (A5 n c Hk Hfc) as (id & Hid & Hget). rewrite Hget in Hg'. inversion Hg'; subst. simpl. split; [lia|reflexivity].
    - rewrite (A4 n Hk Hfc) in Hg'. discriminate. }
  intros o Hin. apply in_map_iff in Hin. destruct Hin as ([n e] & Heq & _). exists n. auto.
Qed.

(* reloading the set that is already loaded — duplicates or not — changes nothing, sends nothing *)
Theorem pm_update_identical : forall t s cfgs, pm_wf s ->
  let '(s1, _, _) := pm_update t s cfgs in
  pm_update t s1 cfgs = (s1, [], []).
Proof.
  intros t s cfgs Hwf. pose proof (pm_update_converges t s cfgs Hwf) as H.
  destruct (pm_update t s cfgs) as [[s1 outs] evs].
  destruct H as (Hwf1 & Hnames & Hcfg & _).
  destruct Hwf1 as [[Hnd Hall] Hdead].
  unfold pm_update. rewrite (pm_del_loop_spec t (rc_cfgs_map cfgs) (pm_next s1) (pm_map s1) Hall).
  assert (Hkeep : forall x, In x (pm_map s1) -> pm_del_pred (rc_cfgs_map cfgs) x = true).
  { intros [n e] Hin. unfold pm_del_pred. simpl. apply rc_keep_spec. apply Hcfg. apply rc_in_get; auto. }
  rewrite (c19_filter_all _ _ _ Hkeep).
  rewrite (c19_filter_none _ (fun ne => negb (pm_del_pred (rc_cfgs_map cfgs) ne)) (pm_map s1));
    [|intros x Hx; rewrite (Hkeep x Hx); reflexivity].
  pose proof (pm_add_loop_spec cfgs (pm_map s1) (pm_next s1) (conj Hnd Hall)) as Hadd.
  destruct (pm_add_loop cfgs (pm_map s1) (pm_next s1)) as [[m' n'] ev2].
  destruct Hadd as (_ & _ & _ & _ & _ & _ & A7).
  destruct A7 as (E1 & E2 & E3).
  { intros c Hin Hnone. apply Hnames in Hnone. apply (rc_first_in cfgs c Hin). exact Hnone. }
  subst. simpl. destruct s1; reflexivity.
Qed.
