package main

// Driver "legacyini": frps configured from a LEGACY INI file (loaded through the real config.LoadServerConfig +
// validation, as cmd/frps does) with max_pool_count set; a client whose pool_count exceeds it logs in; the
// advance ReqWorkConn are counted and the capacity of the pool is read.  The bound the model uses is the value
// written in the file.  The same values written as toml go through the same loader for comparison.

import (
	"context"
	"fmt"
	"os"
	"path/filepath"
	"sync/atomic"
	"time"

	"github.com/fatedier/frp/pkg/config"
	"github.com/fatedier/frp/pkg/config/v1/validation"
	"github.com/fatedier/frp/pkg/msg"
	"github.com/fatedier/frp/server"
	"verifharness/hx"
)

func init() { drivers["legacyini"] = runLegacyIni }

func legacyIniCase(dir string, idx int, maxPool, maxPorts, clientPC int) (string, []map[string]any, error) {
	addr := fmt.Sprintf("127.0.11.%d", 240+idx%8)
	port := hx.FreePort(addr)
	ini := fmt.Sprintf("[common]\nbind_addr = %s\nbind_port = %d\nproxy_bind_addr = %s\ntoken = %s\ntcp_mux = false\nuser_conn_timeout = 1\nmax_pool_count = %d\n",
		addr, port, addr, hx.DefaultToken, maxPool)
	if maxPorts > 0 {
		ini += fmt.Sprintf("max_ports_per_client = %d\n", maxPorts)
	}
	iniPath := filepath.Join(dir, fmt.Sprintf("frps_%d.ini", idx))
	if err := os.WriteFile(iniPath, []byte(ini), 0o644); err != nil {
		return "", nil, err
	}
	cfg, isLegacy, err := config.LoadServerConfig(iniPath, false)
	if err != nil {
		return "", nil, err
	}
	if _, err := validation.ValidateServerConfig(cfg); err != nil {
		return "", nil, err
	}
	var fails []map[string]any
	fail := func(key, what string) {
		fails = append(fails, map[string]any{"key": key, "what": what,
			"case": fmt.Sprintf("legacy ini: max_pool_count = %d, max_ports_per_client = %d, client pool_count %d", maxPool, maxPorts, clientPC)})
	}
	if !isLegacy {
		fail("legacy-ini-not-detected", "the ini file was not loaded as a legacy configuration")
	}
	if cfg.UserConnTimeout != 1 {
		fail("legacy-ini-user-conn-timeout", fmt.Sprintf("user_conn_timeout = 1 arrives as userConnTimeout %d", cfg.UserConnTimeout))
	}
	// the same setting as toml through the same loader
	tomlPath := filepath.Join(dir, fmt.Sprintf("frps_%d.toml", idx))
	_ = os.WriteFile(tomlPath, []byte(fmt.Sprintf("bindAddr = %q\nbindPort = %d\ntransport.maxPoolCount = %d\n", addr, port, maxPool)), 0o644)
	if tcfg, _, err := config.LoadServerConfig(tomlPath, false); err == nil {
		if tcfg.Transport.MaxPoolCount != cfg.Transport.MaxPoolCount {
			fail("legacy-ini-maxpool-differs-from-toml", fmt.Sprintf("max_pool_count = %d arrives as transport.maxPoolCount %d from the ini but %d from the toml", maxPool, cfg.Transport.MaxPoolCount, tcfg.Transport.MaxPoolCount))
		}
	}
	svc, err := server.NewService(cfg)
	if err != nil {
		return "", nil, err
	}
	ctx, cancel := context.WithCancel(context.Background())
	go svc.Run(ctx)
	defer func() {
		cancel()
		_ = svc.Close()
	}()
	if !waitFor(2*time.Second, func() bool { return hx.TCPBound(addr, port) }) {
		return "", nil, fmt.Errorf("frps from ini did not come up")
	}
	s := &hx.Server{Svc: svc, Cfg: cfg, Addr: addr, Port: port}
	p, resp, err := s.Login(hx.LoginOpts{PoolCount: clientPC})
	if err != nil || p == nil {
		return "", nil, fmt.Errorf("login: %v %v", err, resp)
	}
	defer p.Close()
	var reqCnt atomic.Int64
	go func() {
		for {
			m, err := p.Recv(time.Hour)
			if err != nil {
				return
			}
			if _, ok := m.(*msg.ReqWorkConn); ok {
				reqCnt.Add(1)
			}
		}
	}()
	ctl := svc.VerifC11Control(p.RunID)
	if ctl == nil {
		return "", nil, fmt.Errorf("no control")
	}
	var r int64 = -2
	stable := 0
	for i := 0; i < 24 && stable < 2; i++ {
		time.Sleep(settleStep)
		if r2 := reqCnt.Load(); r2 == r {
			stable++
		} else {
			stable, r = 0, r2
		}
	}
	want := clientPC
	if maxPool < want {
		want = maxPool
	}
	if want < 0 {
		want = 0
	}
	if int(r) > want {
		fail("advance-requests-exceed-configured-max", fmt.Sprintf("the server asked for %d work connections in advance, more than min(client poolCount %d, configured max_pool_count %d)", r, clientPC, maxPool))
	}
	if c := ctl.VerifC11PoolCap(); c != want+10 {
		fail("pool-capacity-not-configured-bound", fmt.Sprintf("cap(workConnCh) = %d, the bounded capacity for max_pool_count %d and client poolCount %d is %d", c, maxPool, clientPC, want+10))
	}
	// the server maximum of the case is the value WRITTEN IN THE FILE
	text := fmt.Sprintf("CPool %d %d [RSendLoop] [] (-1) [(%s, %d, 0)] false [] [] [] []", clientPC, maxPool, steps(), r)
	return text, fails, nil
}

func runLegacyIni(cfg *hx.RunCfg) error {
	quiet()
	g := hx.NewGen(cfg.Seed)
	dir, err := os.MkdirTemp("", "c11ini")
	if err != nil {
		return err
	}
	defer os.RemoveAll(dir)
	var cases []string
	var fails []map[string]any
	for i := 0; i < cfg.N; i++ {
		maxPool := []int{2, 7, 1, 3}[i%4]
		maxPorts := []int{0, 50, 4, 0}[i%4]
		clientPC := maxPool + 1 + g.Intn(6)
		text, f, err := legacyIniCase(dir, i, maxPool, maxPorts, clientPC)
		if err != nil {
			fails = append(fails, map[string]any{"key": "legacyini-setup", "what": err.Error(), "case": fmt.Sprint(i)})
			continue
		}
		cases = append(cases, text)
		fails = append(fails, f...)
	}
	cf := &hx.CaseFile{
		Imports: "From FRP Require Import Corr.C11.\n",
		Typ:     "case",
		Cases:   cases,
		Tail: "Definition M := Eval vm_compute in mismatches check_case cases.\nPrint M.\n" +
			"Definition LMON := Eval vm_compute in (Z.of_nat (length (mismatches C11_holds cases)) : Z).\nPrint LMON.\n",
	}
	if err := cf.Write(cfg.Out); err != nil {
		return err
	}
	cfg.St["cases"] = len(cases)
	cfg.St["distinct_nontrivial"] = len(cases)
	cfg.St["samples"] = cases[:min(1, len(cases))]
	cfg.St["distribution"] = map[string]int{"legacy-ini-login": len(cases)}
	cfg.St["impl_failures"] = fails
	return nil
}
