"""Properties not claimed (each with a one-line reason).  Kept current by hand: a property whose
check is not (yet) built is listed here so that MANIFEST.json never claims more than bin/check can decide."""
import json, os
_V = os.path.dirname(os.path.dirname(os.path.abspath(__file__)))
_built = {l.strip() for l in open(os.path.join(_V, "lib", "claimed.txt")) if l.strip() and not l.startswith("#")}
_all = [json.loads(l)["id"] for l in open(os.path.join(_V, "properties.jsonl"))]
NOT_APPLICABLE = [dict(property_id=i, reason="check not built yet in this round (the technique applies; see DESIGN.md section 4/%s for the plan)" % i)
                  for i in _all if i not in _built]
