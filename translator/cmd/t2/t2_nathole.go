package main

// T2: pkg/nathole -> GenNatHole.v
//   nh_int_consts / nh_str_consts : DetectMode*, DetectRole*, EasyNAT/HardNAT
//   nh_tables                     : mode0Behaviors .. mode4Behaviors (every RecommandBehavior literal)
//   nh_mode_switch / default      : getBehaviorByMode
//   nh_swaps, nh_recommend_shape_ok : the role swaps of Analyzer.GetRecommandBehaviors
//   nh_range_guard/from/to        : getRangePorts (controller.go)
//   nh_port_reject                : the port test of ClassifyNATFeature (classify.go)
// Anything not recognised becomes an explicit *Unknown node.

import (
	"veriftranslator/tx"

	"bytes"
	"fmt"
	"go/ast"
	"go/parser"
	"go/printer"
	"go/token"
	"path/filepath"
	"sort"
	"strconv"
	"strings"
)

func main() { tx.Main(tx.Unit{Name: "T2", File: "GenNatHole.v", Fn: genNatHole}) }

var fset = token.NewFileSet()

func src(n ast.Node) string {
	var b bytes.Buffer
	_ = printer.Fprint(&b, fset, n)
	s := strings.Join(strings.Fields(b.String()), " ")
	if len(s) > 160 {
		s = s[:160]
	}
	return s
}

func parse(rel string) (*ast.File, error) {
	return parser.ParseFile(fset, filepath.Join(tx.Repo, rel), nil, 0)
}

func funcDecl(f *ast.File, name string) *ast.FuncDecl {
	for _, d := range f.Decls {
		if fd, ok := d.(*ast.FuncDecl); ok && fd.Name.Name == name {
			return fd
		}
	}
	return nil
}

func intLit(e ast.Expr) (int64, bool) {
	neg := false
	if u, ok := e.(*ast.UnaryExpr); ok && u.Op == token.SUB {
		neg = true
		e = u.X
	}
	bl, ok := e.(*ast.BasicLit)
	if !ok || bl.Kind != token.INT {
		return 0, false
	}
	v, err := strconv.ParseInt(bl.Value, 0, 64)
	if err != nil {
		return 0, false
	}
	if neg {
		v = -v
	}
	return v, true
}

func z(v int64) string {
	if v < 0 {
		return fmt.Sprintf("(%d)", v)
	}
	return fmt.Sprintf("%d", v)
}

// ---- RecommandBehavior literals ----

func behLit(e ast.Expr) string {
	cl, ok := e.(*ast.CompositeLit)
	if !ok || src(cl.Type) != "RecommandBehavior" {
		return "(NhBehUnknown " + tx.CoqString(src(e)) + ")"
	}
	role := ""
	vals := map[string]int64{}
	for _, el := range cl.Elts {
		kv, ok := el.(*ast.KeyValueExpr)
		if !ok {
			return "(NhBehUnknown " + tx.CoqString(src(e)) + ")"
		}
		k, ok := kv.Key.(*ast.Ident)
		if !ok {
			return "(NhBehUnknown " + tx.CoqString(src(e)) + ")"
		}
		switch k.Name {
		case "Role":
			switch v := kv.Value.(type) {
			case *ast.Ident:
				role = v.Name
			case *ast.BasicLit:
				if v.Kind != token.STRING {
					return "(NhBehUnknown " + tx.CoqString(src(e)) + ")"
				}
				s, _ := strconv.Unquote(v.Value)
				role = "lit:" + s
			default:
				return "(NhBehUnknown " + tx.CoqString(src(e)) + ")"
			}
		case "TTL", "SendDelayMs", "PortsRangeNumber", "PortsRandomNumber", "ListenRandomPorts":
			v, ok := intLit(kv.Value)
			if !ok {
				return "(NhBehUnknown " + tx.CoqString(src(e)) + ")"
			}
			vals[k.Name] = v
		default:
			return "(NhBehUnknown " + tx.CoqString(src(e)) + ")"
		}
	}
	return fmt.Sprintf("(NhBeh %s %s %s %s %s %s)", tx.CoqString(role), z(vals["TTL"]), z(vals["SendDelayMs"]),
		z(vals["PortsRangeNumber"]), z(vals["PortsRandomNumber"]), z(vals["ListenRandomPorts"]))
}

func tableLit(e ast.Expr) []string {
	cl, ok := e.(*ast.CompositeLit)
	if !ok {
		return []string{"(NhBehUnknown " + tx.CoqString(src(e)) + ", NhBehUnknown \"\")"}
	}
	var rows []string
	for _, el := range cl.Elts {
		call, ok := el.(*ast.CallExpr)
		if !ok || src(call.Fun) != "lo.T2" || len(call.Args) != 2 {
			rows = append(rows, "(NhBehUnknown "+tx.CoqString(src(el))+", NhBehUnknown \"\")")
			continue
		}
		rows = append(rows, "("+behLit(call.Args[0])+", "+behLit(call.Args[1])+")")
	}
	return rows
}

// ---- guards of the swaps ----

func guardOf(e ast.Expr, sides map[string]string) string {
	unk := func() string { return "(NhGuardUnknown " + tx.CoqString(src(e)) + ")" }
	sideOf := func(x ast.Expr, field string) (string, bool) {
		sel, ok := x.(*ast.SelectorExpr)
		if !ok || sel.Sel.Name != field {
			return "", false
		}
		id, ok := sel.X.(*ast.Ident)
		if !ok {
			return "", false
		}
		s, ok := sides[id.Name]
		return s, ok
	}
	switch x := e.(type) {
	case *ast.ParenExpr:
		return guardOf(x.X, sides)
	case *ast.UnaryExpr:
		if x.Op == token.NOT {
			return "(NhNot " + guardOf(x.X, sides) + ")"
		}
	case *ast.SelectorExpr:
		if s, ok := sideOf(x, "RegularPortsChange"); ok {
			return "(NhRegular " + s + ")"
		}
	case *ast.BinaryExpr:
		if s, ok := sideOf(x.X, "NatType"); ok {
			if id, ok := x.Y.(*ast.Ident); ok {
				switch x.Op {
				case token.EQL:
					return "(NhNatIs " + s + " " + tx.CoqString(id.Name) + ")"
				case token.NEQ:
					return "(NhNot (NhNatIs " + s + " " + tx.CoqString(id.Name) + "))"
				}
			}
		}
	}
	return unk()
}

func isSwap(st ast.Stmt) bool {
	as, ok := st.(*ast.AssignStmt)
	return ok && as.Tok == token.ASSIGN && src(as) == "cBehavior, vBehavior = vBehavior, cBehavior"
}

// ---- integer expressions ----

// canonical names for locals whose identity is fixed by how they are defined (result of strconv.Atoi, n-th parameter)
var rename = map[string]string{}

func exprOf(e ast.Expr) string {
	switch x := e.(type) {
	case *ast.ParenExpr:
		return exprOf(x.X)
	case *ast.Ident:
		if c, ok := rename[x.Name]; ok {
			return "(NhVar " + tx.CoqString(c) + ")"
		}
		return "(NhVar " + tx.CoqString(x.Name) + ")"
	case *ast.SelectorExpr:
		if id, ok := x.X.(*ast.Ident); ok {
			return "(NhVar " + tx.CoqString(id.Name+"."+x.Sel.Name) + ")"
		}
	case *ast.BasicLit, *ast.UnaryExpr:
		if v, ok := intLit(e); ok {
			return "(NhInt " + z(v) + ")"
		}
	case *ast.BinaryExpr:
		switch x.Op {
		case token.ADD:
			return "(NhAdd " + exprOf(x.X) + " " + exprOf(x.Y) + ")"
		case token.SUB:
			return "(NhSub " + exprOf(x.X) + " " + exprOf(x.Y) + ")"
		}
	case *ast.CallExpr:
		if id, ok := x.Fun.(*ast.Ident); ok && (id.Name == "max" || id.Name == "min") {
			var as []string
			for _, a := range x.Args {
				as = append(as, exprOf(a))
			}
			c := "NhMax"
			if id.Name == "min" {
				c = "NhMin"
			}
			return "(" + c + " [" + strings.Join(as, "; ") + "])"
		}
	}
	return "(NhExprUnknown " + tx.CoqString(src(e)) + ")"
}

func bexprOf(e ast.Expr) string {
	switch x := e.(type) {
	case *ast.ParenExpr:
		return bexprOf(x.X)
	case *ast.BinaryExpr:
		switch x.Op {
		case token.LOR:
			return "(NhOr " + bexprOf(x.X) + " " + bexprOf(x.Y) + ")"
		case token.LAND:
			return "(NhAnd " + bexprOf(x.X) + " " + bexprOf(x.Y) + ")"
		case token.LEQ:
			return "(NhLe " + exprOf(x.X) + " " + exprOf(x.Y) + ")"
		case token.LSS:
			return "(NhLt " + exprOf(x.X) + " " + exprOf(x.Y) + ")"
		case token.GEQ:
			return "(NhGe " + exprOf(x.X) + " " + exprOf(x.Y) + ")"
		case token.GTR:
			return "(NhGt " + exprOf(x.X) + " " + exprOf(x.Y) + ")"
		}
	}
	return "(NhBUnknown " + tx.CoqString(src(e)) + ")"
}

func mentions(e ast.Expr, name string) bool {
	found := false
	ast.Inspect(e, func(x ast.Node) bool {
		if id, ok := x.(*ast.Ident); ok && id.Name == name {
			found = true
		}
		return true
	})
	return found
}

// returnsErrorOnly: the body of the if is a single `return nil, <something that is not nil>`
func returnsError(b *ast.BlockStmt) bool {
	if len(b.List) != 1 {
		return false
	}
	r, ok := b.List[0].(*ast.ReturnStmt)
	if !ok || len(r.Results) != 2 {
		return false
	}
	return src(r.Results[0]) == "nil" && src(r.Results[1]) != "nil"
}

// atoiVar returns the name of the variable defined as `<name>, err := strconv.Atoi(...)` inside n
func atoiVar(n ast.Node) string {
	name := ""
	ast.Inspect(n, func(x ast.Node) bool {
		as, ok := x.(*ast.AssignStmt)
		if !ok || len(as.Lhs) != 2 || len(as.Rhs) != 1 {
			return true
		}
		call, ok := as.Rhs[0].(*ast.CallExpr)
		if !ok || src(call.Fun) != "strconv.Atoi" {
			return true
		}
		if id, ok := as.Lhs[0].(*ast.Ident); ok && name == "" {
			name = id.Name
		}
		return true
	})
	return name
}

func genNatHole() ([]byte, error) {
	fa, err := parse("pkg/nathole/analysis.go")
	if err != nil {
		return nil, err
	}
	fn, err := parse("pkg/nathole/nathole.go")
	if err != nil {
		return nil, err
	}
	fc, err := parse("pkg/nathole/classify.go")
	if err != nil {
		return nil, err
	}
	fk, err := parse("pkg/nathole/controller.go")
	if err != nil {
		return nil, err
	}

	intConsts := map[string]string{}
	strConsts := map[string]string{}
	tables := map[string][]string{}
	var tableOrder []string
	collect := func(f *ast.File) {
		for _, d := range f.Decls {
			gd, ok := d.(*ast.GenDecl)
			if !ok || (gd.Tok != token.VAR && gd.Tok != token.CONST) {
				continue
			}
			for _, s := range gd.Specs {
				vs := s.(*ast.ValueSpec)
				for i, n := range vs.Names {
					if i >= len(vs.Values) {
						continue
					}
					name := n.Name
					switch {
					case strings.HasPrefix(name, "DetectMode"):
						if v, ok := intLit(vs.Values[i]); ok {
							intConsts[name] = z(v)
						} else {
							intConsts[name] = "(-1)"
						}
					case strings.HasPrefix(name, "DetectRole"), name == "EasyNAT", name == "HardNAT":
						if bl, ok := vs.Values[i].(*ast.BasicLit); ok && bl.Kind == token.STRING {
							s, _ := strconv.Unquote(bl.Value)
							strConsts[name] = s
						} else {
							strConsts[name] = "?" + src(vs.Values[i])
						}
					case strings.HasPrefix(name, "mode") && strings.HasSuffix(name, "Behaviors"):
						tables[name] = tableLit(vs.Values[i])
						tableOrder = append(tableOrder, name)
					}
				}
			}
		}
	}
	collect(fa)
	collect(fn)
	collect(fc)

	// getBehaviorByMode
	var modeSwitch []string
	modeDefault := "?"
	if fd := funcDecl(fa, "getBehaviorByMode"); fd != nil && fd.Body != nil {
		for _, st := range fd.Body.List {
			switch x := st.(type) {
			case *ast.SwitchStmt:
				if src(x.Tag) != "mode" {
					modeSwitch = append(modeSwitch, "((-1), "+tx.CoqString("?tag "+src(x.Tag))+")")
				}
				for _, c := range x.Body.List {
					cc := c.(*ast.CaseClause)
					target := "?" + src(cc)
					if len(cc.Body) == 1 {
						if r, ok := cc.Body[0].(*ast.ReturnStmt); ok && len(r.Results) == 1 {
							if id, ok := r.Results[0].(*ast.Ident); ok {
								target = id.Name
							}
						}
					}
					if cc.List == nil {
						modeSwitch = append(modeSwitch, "((-1), "+tx.CoqString("?default-in-switch "+target)+")")
						continue
					}
					for _, e := range cc.List {
						if v, ok := intLit(e); ok {
							modeSwitch = append(modeSwitch, "("+z(v)+", "+tx.CoqString(target)+")")
						} else if id, ok := e.(*ast.Ident); ok && intConsts[id.Name] != "" {
							modeSwitch = append(modeSwitch, "("+intConsts[id.Name]+", "+tx.CoqString(target)+")")
						} else {
							modeSwitch = append(modeSwitch, "((-1), "+tx.CoqString("?case "+src(e))+")")
						}
					}
				}
			case *ast.ReturnStmt:
				if len(x.Results) == 1 {
					if id, ok := x.Results[0].(*ast.Ident); ok {
						modeDefault = id.Name
					}
				}
			default:
				modeSwitch = append(modeSwitch, "((-1), "+tx.CoqString("?stmt "+src(st))+")")
			}
		}
	} else {
		return nil, fmt.Errorf("getBehaviorByMode not found")
	}

	// GetRecommandBehaviors
	var swaps []string
	shapeOK := false
	if fd := funcDecl(fa, "GetRecommandBehaviors"); fd != nil && fd.Body != nil {
		sides := map[string]string{}
		var pnames []string
		for _, p := range fd.Type.Params.List {
			for _, n := range p.Names {
				pnames = append(pnames, n.Name)
			}
		}
		if len(pnames) == 3 {
			sides[pnames[1]] = "NhSideC"
			sides[pnames[2]] = "NhSideV"
		}
		body := fd.Body.List
		n := len(body)
		if n >= 4 {
			rec := src(body[n-4]) == "mode, index = records.Recommand()"
			get := src(body[n-3]) == "cBehavior, vBehavior := getBehaviorByModeAndIndex(mode, index)"
			ret := src(body[n-1]) == "return mode, index, cBehavior, vBehavior"
			sw, isSw := body[n-2].(*ast.SwitchStmt)
			shapeOK = rec && get && ret && isSw && len(pnames) == 3 && sw.Init == nil && src(sw.Tag) == "mode"
			if isSw {
				for _, c := range sw.Body.List {
					cc := c.(*ast.CaseClause)
					label := "?default"
					if len(cc.List) == 1 {
						if id, ok := cc.List[0].(*ast.Ident); ok {
							label = id.Name
						} else {
							label = "?" + src(cc.List[0])
						}
					} else if len(cc.List) > 1 {
						label = "?multi"
					}
					if len(cc.Body) == 0 {
						continue
					}
					g := "(NhGuardUnknown " + tx.CoqString(src(cc)) + ")"
					if len(cc.Body) == 1 {
						if is, ok := cc.Body[0].(*ast.IfStmt); ok && is.Init == nil && is.Else == nil &&
							len(is.Body.List) == 1 && isSwap(is.Body.List[0]) {
							g = guardOf(is.Cond, sides)
						}
					}
					swaps = append(swaps, "("+tx.CoqString(label)+", "+g+")")
				}
			}
		}
	} else {
		return nil, fmt.Errorf("GetRecommandBehaviors not found")
	}

	// getRangePorts
	rangeGuard, rangeFrom, rangeTo := "NhAbsent", `(NhExprUnknown "absent")`, `(NhExprUnknown "absent")`
	if fd := funcDecl(fk, "getRangePorts"); fd != nil && fd.Body != nil {
		rename = map[string]string{}
		var pn []string
		for _, p := range fd.Type.Params.List {
			for _, n := range p.Names {
				pn = append(pn, n.Name)
			}
		}
		if len(pn) == 3 {
			rename[pn[1]], rename[pn[2]] = "difference", "maxNumber"
		}
		if v := atoiVar(fd.Body); v != "" {
			rename[v] = "port"
		}
		if len(fd.Body.List) > 0 {
			if is, ok := fd.Body.List[0].(*ast.IfStmt); ok && is.Init == nil && is.Else == nil && len(is.Body.List) == 1 &&
				src(is.Body.List[0]) == "return nil" {
				rangeGuard = bexprOf(is.Cond)
			}
		}
		count := 0
		ast.Inspect(fd.Body, func(n ast.Node) bool {
			cl, ok := n.(*ast.CompositeLit)
			if !ok || src(cl.Type) != "msg.PortsRange" {
				return true
			}
			count++
			for _, el := range cl.Elts {
				kv, ok := el.(*ast.KeyValueExpr)
				if !ok {
					rangeFrom = "(NhExprUnknown " + tx.CoqString(src(el)) + ")"
					continue
				}
				switch src(kv.Key) {
				case "From":
					rangeFrom = exprOf(kv.Value)
				case "To":
					rangeTo = exprOf(kv.Value)
				default:
					rangeFrom = "(NhExprUnknown " + tx.CoqString(src(el)) + ")"
				}
			}
			return true
		})
		if count != 1 {
			rangeFrom = `(NhExprUnknown "number of PortsRange literals in getRangePorts is not 1")`
		}
	} else {
		return nil, fmt.Errorf("getRangePorts not found")
	}

	// ClassifyNATFeature: `if <cond on portNum> { return nil, <error> }` directly inside the loop over addresses
	portReject := "NhAbsent"
	if fd := funcDecl(fc, "ClassifyNATFeature"); fd != nil && fd.Body != nil {
		rename = map[string]string{}
		pv := atoiVar(fd.Body)
		if pv != "" {
			rename[pv] = "portNum"
		}
		for _, st := range fd.Body.List {
			rs, ok := st.(*ast.RangeStmt)
			if !ok {
				continue
			}
			for _, s2 := range rs.Body.List {
				is, ok := s2.(*ast.IfStmt)
				if !ok || is.Init != nil || is.Else != nil {
					continue
				}
				if pv != "" && mentions(is.Cond, pv) && returnsError(is.Body) {
					if portReject == "NhAbsent" {
						portReject = bexprOf(is.Cond)
					} else {
						portReject = `(NhBUnknown "more than one port test")`
					}
				}
				// stop at the first statement that records the base address: the test must precede any use
				if strings.Contains(src(is.Cond), "baseIP ==") {
					break
				}
			}
		}
	} else {
		return nil, fmt.Errorf("ClassifyNATFeature not found")
	}

	// Controller.analysis: timeoutMs and the two ReadTimeoutMs; HandleVisitor: the stagger before the sender's response
	rename = map[string]string{}
	tInit, tGuard, tAdd := `(NhExprUnknown "absent")`, "NhAbsent", `(NhExprUnknown "absent")`
	vRead, cRead := `(NhExprUnknown "absent")`, `(NhExprUnknown "absent")`
	if fd := funcDecl(fk, "analysis"); fd != nil && fd.Body != nil {
		nInit, nAdd := 0, 0
		for _, st := range fd.Body.List {
			switch x := st.(type) {
			case *ast.AssignStmt:
				if len(x.Lhs) == 1 && len(x.Rhs) == 1 && src(x.Lhs[0]) == "timeoutMs" {
					if x.Tok == token.DEFINE {
						tInit = exprOf(x.Rhs[0])
						nInit++
					} else {
						tInit = "(NhExprUnknown " + tx.CoqString(src(x)) + ")"
					}
				}
				// vResp := &msg.NatHoleResp{... DetectBehavior: msg.NatHoleDetectBehavior{ReadTimeoutMs: e}}
				if x.Tok == token.DEFINE && len(x.Lhs) == 1 && (src(x.Lhs[0]) == "vResp" || src(x.Lhs[0]) == "cResp") {
					found := `(NhExprUnknown "no ReadTimeoutMs")`
					ast.Inspect(x.Rhs[0], func(n ast.Node) bool {
						kv, ok := n.(*ast.KeyValueExpr)
						if ok && src(kv.Key) == "ReadTimeoutMs" {
							found = exprOf(kv.Value)
						}
						return true
					})
					if src(x.Lhs[0]) == "vResp" {
						vRead = found
					} else {
						cRead = found
					}
				}
			case *ast.IfStmt:
				if len(x.Body.List) == 1 {
					if as, ok := x.Body.List[0].(*ast.AssignStmt); ok && len(as.Lhs) == 1 && src(as.Lhs[0]) == "timeoutMs" {
						nAdd++
						if as.Tok == token.ADD_ASSIGN && x.Else == nil && x.Init == nil {
							tGuard, tAdd = bexprOf(x.Cond), exprOf(as.Rhs[0])
						} else {
							tGuard = "(NhBUnknown " + tx.CoqString(src(x)) + ")"
						}
					}
				}
			}
		}
		if nInit != 1 || nAdd != 1 {
			tGuard = `(NhBUnknown "timeoutMs is not assigned exactly once and raised exactly once")`
		}
	} else {
		return nil, fmt.Errorf("Controller.analysis not found")
	}
	var staggers []string
	if fd := funcDecl(fk, "HandleVisitor"); fd != nil && fd.Body != nil {
		ast.Inspect(fd.Body, func(n ast.Node) bool {
			is, ok := n.(*ast.IfStmt)
			if !ok || !strings.Contains(src(is.Cond), "DetectBehavior.Role ==") {
				return true
			}
			who := "?"
			switch src(is.Cond) {
			case `vResp.DetectBehavior.Role == "sender"`:
				who = "v"
			case `cResp.DetectBehavior.Role == "sender"`:
				who = "c"
			}
			ms := int64(-1)
			if len(is.Body.List) == 1 && is.Else == nil {
				switch src(is.Body.List[0]) {
				case "time.Sleep(1 * time.Second)", "time.Sleep(time.Second)":
					ms = 1000
				default:
					if es, ok := is.Body.List[0].(*ast.ExprStmt); ok {
						if call, ok := es.X.(*ast.CallExpr); ok && src(call.Fun) == "time.Sleep" && len(call.Args) == 1 {
							if be, ok := call.Args[0].(*ast.BinaryExpr); ok && be.Op == token.MUL {
								if v, ok := intLit(be.X); ok {
									switch src(be.Y) {
									case "time.Second":
										ms = v * 1000
									case "time.Millisecond":
										ms = v
									}
								}
							}
						}
					}
				}
			}
			staggers = append(staggers, fmt.Sprintf("(%s, %s)", tx.CoqString(who), z(ms)))
			return true
		})
	}

	// server/proxy/xtcp.go: where the registration with the nat hole controller is made and removed.
	//   nh_xtcp_close : the statements of XTCPProxy.Close (inside closeOnce.Do(func(){...}) if present), classified
	//   nh_xtcp_run   : the statements of XTCPProxy.Run up to and including the `go` statement, classified
	//   nh_xtcp_loop_calls : controller methods called (also via defer) inside the goroutine started by Run
	classify := func(st ast.Stmt) string {
		callName := func(e ast.Expr) string {
			call, ok := e.(*ast.CallExpr)
			if !ok {
				return "?" + src(e)
			}
			switch f := call.Fun.(type) {
			case *ast.SelectorExpr:
				if strings.Contains(src(f.X), "NatHoleController") {
					return "controller." + f.Sel.Name
				}
				return f.Sel.Name
			case *ast.Ident:
				if f.Name == "close" && len(call.Args) == 1 {
					if sel, ok := call.Args[0].(*ast.SelectorExpr); ok {
						return "close:" + sel.Sel.Name
					}
				}
				return f.Name
			}
			return "?" + src(call.Fun)
		}
		switch x := st.(type) {
		case *ast.ExprStmt:
			return "call:" + callName(x.X)
		case *ast.GoStmt:
			return "go"
		case *ast.DeferStmt:
			return "defer:" + callName(x.Call)
		case *ast.AssignStmt:
			if len(x.Rhs) == 1 {
				if _, ok := x.Rhs[0].(*ast.CallExpr); ok {
					return "assign-call:" + callName(x.Rhs[0])
				}
			}
			return "assign"
		case *ast.IfStmt:
			return "if"
		case *ast.ReturnStmt:
			return "return"
		}
		return "other:" + src(st)
	}
	var xClose, xRun, xLoop []string
	if fx, err := parse("server/proxy/xtcp.go"); err == nil {
		for _, d := range fx.Decls {
			fd, ok := d.(*ast.FuncDecl)
			if !ok || fd.Recv == nil || fd.Body == nil || !strings.Contains(src(fd.Recv.List[0].Type), "XTCPProxy") {
				continue
			}
			switch fd.Name.Name {
			case "Close":
				body := fd.Body.List
				if len(body) == 1 {
					if es, ok := body[0].(*ast.ExprStmt); ok {
						if call, ok := es.X.(*ast.CallExpr); ok && strings.HasSuffix(src(call.Fun), "closeOnce.Do") && len(call.Args) == 1 {
							if fl, ok := call.Args[0].(*ast.FuncLit); ok {
								body = fl.Body.List
							}
						}
					}
				}
				for _, st := range body {
					xClose = append(xClose, classify(st))
				}
			case "Run":
				for _, st := range fd.Body.List {
					xRun = append(xRun, classify(st))
					if gs, ok := st.(*ast.GoStmt); ok {
						ast.Inspect(gs.Call, func(n ast.Node) bool {
							if call, ok := n.(*ast.CallExpr); ok {
								if sel, ok := call.Fun.(*ast.SelectorExpr); ok && strings.Contains(src(sel.X), "NatHoleController") {
									xLoop = append(xLoop, sel.Sel.Name)
								}
							}
							return true
						})
						break
					}
				}
			}
		}
	} else {
		xClose = []string{"?parse error"}
	}
	// pkg/transport/message.go: the shape of transporterImpl.Send: the cases of its select (or a plain channel send)
	var trSend []string
	if ft, err := parse("pkg/transport/message.go"); err == nil {
		for _, d := range ft.Decls {
			fd, ok := d.(*ast.FuncDecl)
			if !ok || fd.Recv == nil || fd.Body == nil || fd.Name.Name != "Send" || !strings.Contains(src(fd.Recv.List[0].Type), "transporterImpl") {
				continue
			}
			chanName := func(e ast.Expr) string {
				if sel, ok := e.(*ast.SelectorExpr); ok {
					return sel.Sel.Name
				}
				return "?" + src(e)
			}
			inSelect := map[ast.Stmt]bool{}
			ast.Inspect(fd.Body, func(n ast.Node) bool {
				switch x := n.(type) {
				case *ast.SelectStmt:
					for _, c := range x.Body.List {
						cc := c.(*ast.CommClause)
						switch cm := cc.Comm.(type) {
						case nil:
							trSend = append(trSend, "default")
						case *ast.SendStmt:
							inSelect[cm] = true
							trSend = append(trSend, "send:"+chanName(cm.Chan))
						case *ast.ExprStmt:
							if u, ok := cm.X.(*ast.UnaryExpr); ok && u.Op == token.ARROW {
								trSend = append(trSend, "recv:"+chanName(u.X))
							} else {
								trSend = append(trSend, "?"+src(cm))
							}
						case *ast.AssignStmt:
							trSend = append(trSend, "recv-assign:"+src(cm))
						default:
							trSend = append(trSend, "?"+src(cc.Comm))
						}
					}
				case *ast.SendStmt:
					if !inSelect[x] {
						trSend = append(trSend, "plain-send:"+chanName(x.Chan))
					}
				}
				return true
			})
		}
	} else {
		trSend = []string{"?parse error"}
	}
	// server/control.go + pkg/msg/handler.go: a registration (NewProxy) runs inside the control's read loop, the teardown
	// starts only after that loop has ended
	var ctlHandlers, ctlWorker, dispRead, dispCloseDone []string
	if fctl, err := parse("server/control.go"); err == nil {
		if fd := funcDecl(fctl, "registerMsgHandlers"); fd != nil && fd.Body != nil {
			for _, st := range fd.Body.List {
				es, ok := st.(*ast.ExprStmt)
				if !ok {
					ctlHandlers = append(ctlHandlers, "?"+src(st))
					continue
				}
				call, ok := es.X.(*ast.CallExpr)
				if !ok || !strings.HasSuffix(src(call.Fun), "RegisterHandler") || len(call.Args) != 2 {
					ctlHandlers = append(ctlHandlers, "?"+src(st))
					continue
				}
				typ := strings.TrimSuffix(strings.TrimPrefix(src(call.Args[0]), "&msg."), "{}")
				mode := "sync"
				if c2, ok := call.Args[1].(*ast.CallExpr); ok {
					if strings.HasSuffix(src(c2.Fun), "AsyncHandler") {
						mode = "async"
					} else {
						mode = "?" + src(c2.Fun)
					}
				} else if _, ok := call.Args[1].(*ast.SelectorExpr); !ok {
					mode = "?" + src(call.Args[1])
				}
				ctlHandlers = append(ctlHandlers, typ+":"+mode)
			}
		}
		if fd := funcDecl(fctl, "worker"); fd != nil && fd.Body != nil {
			for _, st := range fd.Body.List {
				switch x := st.(type) {
				case *ast.GoStmt:
					ctlWorker = append(ctlWorker, "go")
				case *ast.ExprStmt:
					if u, ok := x.X.(*ast.UnaryExpr); ok && u.Op == token.ARROW && strings.HasSuffix(src(u.X), "msgDispatcher.Done()") {
						ctlWorker = append(ctlWorker, "wait:dispatcher.Done")
					} else {
						ctlWorker = append(ctlWorker, "stmt")
					}
				case *ast.RangeStmt:
					if strings.HasSuffix(src(x.X), ".proxies") {
						ctlWorker = append(ctlWorker, "range:proxies")
					} else {
						ctlWorker = append(ctlWorker, "range")
					}
				default:
					ctlWorker = append(ctlWorker, "stmt")
				}
			}
		}
	}
	if fh, err := parse("pkg/msg/handler.go"); err == nil {
		for _, d := range fh.Decls {
			fd, ok := d.(*ast.FuncDecl)
			if !ok || fd.Body == nil {
				continue
			}
			ast.Inspect(fd.Body, func(n ast.Node) bool {
				switch x := n.(type) {
				case *ast.CallExpr:
					if id, ok := x.Fun.(*ast.Ident); ok && id.Name == "close" && len(x.Args) == 1 && strings.HasSuffix(src(x.Args[0]), "doneCh") {
						dispCloseDone = append(dispCloseDone, fd.Name.Name)
					}
				}
				return true
			})
			if fd.Name.Name == "readLoop" {
				ast.Inspect(fd.Body, func(n ast.Node) bool {
					switch x := n.(type) {
					case *ast.GoStmt:
						dispRead = append(dispRead, "go:"+src(x.Call.Fun))
					case *ast.ExprStmt:
						if call, ok := x.X.(*ast.CallExpr); ok {
							if id, ok := call.Fun.(*ast.Ident); ok && id.Name == "handler" {
								dispRead = append(dispRead, "call:handler")
							}
						}
					}
					return true
				})
			}
		}
	}
	// pkg/nathole/utils.go: the datagram codec of the sid messages: which calls, and any branch on the key
	sidCodec := func(name string) []string {
		var out []string
		fu, err := parse("pkg/nathole/utils.go")
		if err != nil {
			return []string{"?parse error"}
		}
		fd := funcDecl(fu, name)
		if fd == nil || fd.Body == nil {
			return []string{"?absent"}
		}
		ast.Inspect(fd.Body, func(n ast.Node) bool {
			switch x := n.(type) {
			case *ast.IfStmt:
				if mentions(x.Cond, "key") {
					out = append(out, "branch-on-key:"+src(x.Cond))
				}
			case *ast.CallExpr:
				f := src(x.Fun)
				switch f {
				case "msg.WriteMsg", "msg.ReadMsgInto", "msg.ReadMsg":
					out = append(out, "call:"+f)
				case "crypto.Encode", "crypto.Decode":
					arg := ""
					if len(x.Args) == 2 {
						arg = src(x.Args[1])
					}
					out = append(out, "call:"+f+":"+arg)
				default:
					if strings.HasPrefix(f, "json.") || strings.HasPrefix(f, "crypto.") {
						out = append(out, "call:"+f)
					}
				}
			}
			return true
		})
		return out
	}
	sidEnc, sidDec := sidCodec("EncodeMessage"), sidCodec("DecodeMessageInto")
	coqStrList := func(l []string) string {
		var q []string
		for _, x := range l {
			q = append(q, tx.CoqString(x))
		}
		return "[" + strings.Join(q, "; ") + "]"
	}

	var b bytes.Buffer
	b.WriteString("(* GENERATED by translator unit T2 from pkg/nathole/{analysis,nathole,classify,controller}.go and server/proxy/xtcp.go -- do not edit *)\n")
	b.WriteString("From FRP Require Import Model.NatHoleTypes.\nLocal Open Scope string_scope.\n")
	b.WriteString("Definition T2_translated : bool := true.\n")
	keys := func(m map[string]string) []string {
		var ks []string
		for k := range m {
			ks = append(ks, k)
		}
		sort.Strings(ks)
		return ks
	}
	b.WriteString("Definition nh_int_consts : list (string * Z) := [")
	for i, k := range keys(intConsts) {
		if i > 0 {
			b.WriteString("; ")
		}
		fmt.Fprintf(&b, "(%s, %s%%Z)", tx.CoqString(k), intConsts[k])
	}
	b.WriteString("].\n")
	b.WriteString("Definition nh_str_consts : list (string * string) := [")
	for i, k := range keys(strConsts) {
		if i > 0 {
			b.WriteString("; ")
		}
		fmt.Fprintf(&b, "(%s, %s)", tx.CoqString(k), tx.CoqString(strConsts[k]))
	}
	b.WriteString("].\n")
	b.WriteString("Definition nh_tables : list (string * list (nh_gbeh * nh_gbeh)) := [\n")
	for i, n := range tableOrder {
		fmt.Fprintf(&b, "  (%s, [\n    %s\n  ])", tx.CoqString(n), strings.Join(tables[n], ";\n    "))
		if i != len(tableOrder)-1 {
			b.WriteString(";")
		}
		b.WriteString("\n")
	}
	b.WriteString("]%Z.\n")
	fmt.Fprintf(&b, "Definition nh_mode_switch : list (Z * string) := [%s]%%Z.\n", strings.Join(modeSwitch, "; "))
	fmt.Fprintf(&b, "Definition nh_mode_default : string := %s.\n", tx.CoqString(modeDefault))
	fmt.Fprintf(&b, "Definition nh_swaps : list (string * nh_guard) := [%s].\n", strings.Join(swaps, "; "))
	fmt.Fprintf(&b, "Definition nh_recommend_shape_ok : bool := %v.\n", shapeOK)
	fmt.Fprintf(&b, "Definition nh_range_guard : nh_bexpr := %s%%Z.\n", rangeGuard)
	fmt.Fprintf(&b, "Definition nh_range_from : nh_expr := %s%%Z.\n", rangeFrom)
	fmt.Fprintf(&b, "Definition nh_range_to : nh_expr := %s%%Z.\n", rangeTo)
	fmt.Fprintf(&b, "Definition nh_port_reject : nh_bexpr := %s%%Z.\n", portReject)
	fmt.Fprintf(&b, "Definition nh_timeout_init : nh_expr := %s%%Z.\n", tInit)
	fmt.Fprintf(&b, "Definition nh_timeout_listen_guard : nh_bexpr := %s%%Z.\n", tGuard)
	fmt.Fprintf(&b, "Definition nh_timeout_listen_add : nh_expr := %s%%Z.\n", tAdd)
	fmt.Fprintf(&b, "Definition nh_vread_timeout : nh_expr := %s%%Z.\n", vRead)
	fmt.Fprintf(&b, "Definition nh_cread_timeout : nh_expr := %s%%Z.\n", cRead)
	fmt.Fprintf(&b, "Definition nh_staggers : list (string * Z) := [%s]%%Z.\n", strings.Join(staggers, "; "))
	fmt.Fprintf(&b, "Definition nh_tr_send : list string := %s.\n", coqStrList(trSend))
	fmt.Fprintf(&b, "Definition nh_ctl_handlers : list string := %s.\n", coqStrList(ctlHandlers))
	fmt.Fprintf(&b, "Definition nh_ctl_worker : list string := %s.\n", coqStrList(ctlWorker))
	fmt.Fprintf(&b, "Definition nh_disp_readloop : list string := %s.\n", coqStrList(dispRead))
	fmt.Fprintf(&b, "Definition nh_disp_close_done_in : list string := %s.\n", coqStrList(dispCloseDone))
	fmt.Fprintf(&b, "Definition nh_sid_encode : list string := %s.\n", coqStrList(sidEnc))
	fmt.Fprintf(&b, "Definition nh_sid_decode : list string := %s.\n", coqStrList(sidDec))
	fmt.Fprintf(&b, "Definition nh_xtcp_close : list string := %s.\n", coqStrList(xClose))
	fmt.Fprintf(&b, "Definition nh_xtcp_run : list string := %s.\n", coqStrList(xRun))
	fmt.Fprintf(&b, "Definition nh_xtcp_loop_calls : list string := %s.\n", coqStrList(xLoop))
	return b.Bytes(), nil
}
