// C03 harness: UDP tunnels.  Driver "udp" runs three parts (pure codec, ForwardUserConn and
// Forwarder back to back, whole system with frps + frpc) and writes one case file.
package main

import (
	"fmt"
	"net"

	"verifharness/hx"
)

var drivers = map[string]hx.DriverFn{}

func main() { hx.Main(drivers) }

// coqAddr prints a *net.UDPAddr as an `option uaddr` (IP in MarshalText form).
func coqAddr(a *net.UDPAddr) string {
	if a == nil {
		return "None"
	}
	ip := ""
	if len(a.IP) > 0 {
		b, _ := a.IP.MarshalText()
		ip = string(b)
	}
	return fmt.Sprintf("(Some {| ua_ip := %s; ua_port := %s; ua_zone := %s |})", hx.HxS(ip), hx.Z(int64(a.Port)), hx.HxS(a.Zone))
}

type failure = map[string]any

func fail(key, what, cse string) failure { return failure{"key": key, "what": what, "case": cse} }
