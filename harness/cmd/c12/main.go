// C12 harness: sessions own their proxies; names are unique; re-login replaces cleanly.
// Driver "sessions": an in-process frps and scripted peers; sequential histories (no gate held)
// and gate-driven schedules; every case is written as a list of Corr.C12 items.
// Driver "runids": the fresh-run-id test (a test, not a theorem).
package main

import (
	"context"
	"crypto/tls"
	"encoding/json"
	"fmt"
	"net"
	"net/http"
	"net/http/httptest"
	"sort"
	"strings"
	"sync"
	"sync/atomic"
	"time"

	v1 "github.com/fatedier/frp/pkg/config/v1"
	"github.com/fatedier/frp/pkg/msg"
	netpkg "github.com/fatedier/frp/pkg/util/net"
	"github.com/fatedier/frp/pkg/util/util"
	"github.com/fatedier/frp/server/proxy"
	quic "github.com/quic-go/quic-go"
	"verifharness/hx"
)

var drivers = map[string]hx.DriverFn{
	"sessions": runSessions,
	"runids":   runRunIDs,
}

func main() { hx.Main(drivers) }

const bindAddr = "127.0.12.1"

// ---- one case = one fresh server ----

type world struct {
	s        *hx.Server
	peers    []*hx.Peer  // index = model session id; nil when the login got no LoginResp
	peerRid  []int       // model run id index of the session
	ridNames []string    // model run id index -> string
	stored   map[int]int // driver's own book-keeping: run id index -> session it believes stored
	alive    []bool      // session believed to have an open control connection
	ports    []int       // attempt -> remote port (0: not probed)
	allPorts []int       // every port handed out in this case
	stcpName []int       // attempt -> name index for stcp attempts (-1: tcp)
	stcpCur  map[int]int // name -> the stcp attempt that last succeeded under it
	maxPorts int         // serverCfg.MaxPortsPerClient of this case (0 = unlimited)
	quic     bool        // the peers of this case speak QUIC (control connection = a quic stream)
	quicPort int
	plugin   *httptest.Server // Login plugin of this case (nil: none)
	grpAtt   map[int]bool     // attempts that are http group proxies (probed through the group table)
	items    []string
	outs     []outRec
	fails    []map[string]any
	kinds    map[string]int
	caseName string
}

type outRec struct {
	sid  int
	text string
}

func newWorld(name string, maxPorts int) (*world, error) {
	return newWorldT(name, maxPorts, false, false, false)
}

var pluginCalls atomic.Int64

const groupName, groupHost = "c12g", "c12.example.com"

// loginPlugin: a server plugin for the Login operation that CHANGES the content (stamps a meta value and
// answers unchange=false), the way a real plugin that enriches logins does; the run id comes back as it was sent
func loginPlugin() *httptest.Server {
	return httptest.NewServer(http.HandlerFunc(func(rw http.ResponseWriter, r *http.Request) {
		pluginCalls.Add(1)
		var req struct {
			Version string         `json:"version"`
			Op      string         `json:"op"`
			Content map[string]any `json:"content"`
		}
		_ = json.NewDecoder(r.Body).Decode(&req)
		metas, _ := req.Content["metas"].(map[string]any)
		if metas == nil {
			metas = map[string]any{}
		}
		metas["c12-plugin"] = "stamped"
		req.Content["metas"] = metas
		_ = json.NewEncoder(rw).Encode(map[string]any{"reject": false, "reject_reason": "", "unchange": false, "content": req.Content})
	}))
}

func newWorldT(name string, maxPorts int, useQUIC, usePlugin, useVhost bool) (*world, error) {
	qp := 0
	if useQUIC {
		qp = hx.FreeUDPPort(bindAddr)
	}
	var plg *httptest.Server
	if usePlugin {
		plg = loginPlugin()
	}
	s, err := hx.StartServer(bindAddr, func(c *v1.ServerConfig) {
		c.MaxPortsPerClient = int64(maxPorts)
		c.QUICBindPort = qp
		if plg != nil {
			c.HTTPPlugins = []v1.HTTPPluginOptions{{Name: "c12-login", Addr: strings.TrimPrefix(plg.URL, "http://"), Path: "/handler", Ops: []string{"Login"}}}
		}
		if useVhost {
			c.VhostHTTPPort = hx.FreePort(bindAddr)
		}
	})
	if err != nil {
		if plg != nil {
			plg.Close()
		}
		return nil, err
	}
	return &world{s: s, stored: map[int]int{}, kinds: map[string]int{}, caseName: name, maxPorts: maxPorts, stcpCur: map[int]int{},
		quic: useQUIC, quicPort: qp, plugin: plg, grpAtt: map[int]bool{}}, nil
}

// groupMember: does the http load-balancing group still have a member (memberships are keyed by proxy NAME)?
func (w *world) groupMember() bool {
	return w.s.Svc.VerifResourceController().HTTPGroupCtl.VerifC13Table()[groupName] > 0
}

// quicLogin: the scripted login of hx.Server.Login over a QUIC stream (what frpc does with transport.protocol = "quic")
func (w *world) quicLogin(rid, tag string) (*hx.Peer, *msg.LoginResp, error) {
	tc := &tls.Config{InsecureSkipVerify: true, NextProtos: []string{"frp"}}
	ctx, cancel := context.WithTimeout(context.Background(), 5*time.Second)
	defer cancel()
	qc, err := quic.DialAddr(ctx, net.JoinHostPort(bindAddr, fmt.Sprint(w.quicPort)), tc, &quic.Config{MaxIdleTimeout: 30 * time.Second, KeepAlivePeriod: 5 * time.Second})
	if err != nil {
		return nil, nil, err
	}
	st, err := qc.OpenStreamSync(ctx)
	if err != nil {
		return nil, nil, err
	}
	conn := netpkg.QuicStreamToNetConn(st, qc)
	ts := time.Now().Unix()
	lm := &msg.Login{Version: "0.61.0", Hostname: tag, Os: "linux", Arch: "amd64", PrivilegeKey: util.GetAuthKey(hx.DefaultToken, ts),
		Timestamp: ts, RunID: rid, Metas: map[string]string{}}
	if err := msg.WriteMsg(conn, lm); err != nil {
		conn.Close()
		return nil, nil, err
	}
	_ = conn.SetReadDeadline(time.Now().Add(5 * time.Second))
	var resp msg.LoginResp
	if err := msg.ReadMsgInto(conn, &resp); err != nil {
		conn.Close()
		_ = qc.CloseWithError(0, "")
		return nil, nil, err
	}
	_ = conn.SetReadDeadline(time.Time{})
	if resp.Error != "" {
		conn.Close()
		return nil, &resp, nil
	}
	rw, err := netpkg.NewCryptoReadWriter(conn, []byte(hx.DefaultToken))
	if err != nil {
		conn.Close()
		return nil, &resp, err
	}
	return &hx.Peer{S: w.s, Conn: conn, RW: rw, RunID: resp.RunID, Token: hx.DefaultToken}, &resp, nil
}

const stcpKey = "c12-secret"

// stcpListening: is a visitor connection for the stcp proxy name accepted (its listener exists)?
func (w *world) stcpListening(name int) bool {
	rid := ""
	for i, a := range w.alive {
		if a {
			rid = w.ridNames[w.peerRid[i]]
		}
	}
	if rid == "" {
		return false
	}
	c, err := w.s.Dial()
	if err != nil {
		return false
	}
	defer c.Close()
	ts := time.Now().Unix()
	if err := msg.WriteMsg(c, &msg.NewVisitorConn{RunID: rid, ProxyName: pname(name), SignKey: util.GetAuthKey(stcpKey, ts), Timestamp: ts}); err != nil {
		return false
	}
	_ = c.SetReadDeadline(time.Now().Add(2 * time.Second))
	var r msg.NewVisitorConnResp
	if err := msg.ReadMsgInto(c, &r); err != nil {
		return false
	}
	return r.Error == ""
}

func (w *world) close() {
	for _, p := range w.peers {
		if p != nil {
			p.Close()
		}
	}
	w.s.Close()
	if w.plugin != nil {
		w.plugin.Close()
	}
}

func (w *world) item(s string) { w.items = append(w.items, s) }
func (w *world) kind(k string) { w.kinds[k]++ }
func (w *world) fail(key, what string) {
	w.fails = append(w.fails, map[string]any{"key": key, "what": what, "case": w.caseName + ": " + strings.Join(w.items, "; ")})
}

func (w *world) ridIndex(id string) int {
	for i, s := range w.ridNames {
		if s == id {
			return i
		}
	}
	w.ridNames = append(w.ridNames, id)
	return len(w.ridNames) - 1
}

// proxy names are arbitrary byte strings: the first few indices are deliberately awkward (blanks that
// TrimSpace would remove and that collide with another index after trimming, upper case, non-ASCII,
// control characters); the server must treat every spelling as a name of its own
var oddNames = []string{"c12p", "c12p ", " C12P", "c12-\u00fc\u540d\t", "c12p\n"}

func pname(k int) string {
	if k >= 0 && k < len(oddNames) {
		return oddNames[k]
	}
	return fmt.Sprintf("c12p%d", k)
}
func tagOf(sid int) string { return fmt.Sprintf("s%d", sid) }
func sidOfTag(t string) int {
	var n int
	if _, err := fmt.Sscanf(t, "s%d", &n); err != nil {
		return 4000000
	}
	return n
}
func nameIndex(n string) int {
	for k, o := range oddNames {
		if o == n {
			return k
		}
	}
	var k int
	if _, err := fmt.Sscanf(n, "c12p%d", &k); err != nil || pname(k) != n {
		return 4000000
	}
	return k
}

func optRid(i int, some bool) string {
	if !some {
		return "None"
	}
	return fmt.Sprintf("(Some %d)", i)
}

// ---- observation ----

func (w *world) observe() {
	type pr struct{ a, b int }
	var cs []pr
	for _, e := range w.s.Svc.VerifC12Sessions() {
		cs = append(cs, pr{w.ridIndex(e.RunID), sidOfTag(e.Tag)})
	}
	sort.Slice(cs, func(i, j int) bool { return cs[i].a < cs[j].a })
	var ns []pr
	for n, tag := range w.s.Svc.VerifC12Names() {
		ns = append(ns, pr{nameIndex(n), sidOfTag(tag)})
	}
	sort.Slice(ns, func(i, j int) bool { return ns[i].a < ns[j].a })
	var bound []string
	for att, port := range w.ports {
		if n := w.stcpName[att]; n >= 0 {
			// visitor listeners are keyed by name: only the newest successful attempt under a name is probed
			if cur, ok := w.stcpCur[n]; ok && cur == att && ((w.grpAtt[att] && w.groupMember()) || (!w.grpAtt[att] && w.stcpListening(n))) {
				bound = append(bound, fmt.Sprint(att))
			}
			continue
		}
		if port > 0 && !hx.TCPBindable(bindAddr, port) {
			bound = append(bound, fmt.Sprint(att))
		}
	}
	f := func(l []pr) string {
		var xs []string
		for _, p := range l {
			xs = append(xs, fmt.Sprintf("(%d,%d)", p.a, p.b))
		}
		return hx.List(xs)
	}
	sort.SliceStable(w.outs, func(i, j int) bool { return w.outs[i].sid < w.outs[j].sid })
	var os []string
	for _, o := range w.outs {
		os = append(os, o.text)
	}
	w.outs = nil
	w.item(fmt.Sprintf("IObs %s %s %s %s", f(cs), f(ns), hx.List(bound), hx.List(os)))

	// property monitors evaluated on the implementation directly
	for _, n := range ns {
		owner := n.b
		if owner < len(w.peerRid) {
			r := w.peerRid[owner]
			if cur, ok := w.stored[r]; ok && cur != owner && cur < len(w.peers) && w.peers[cur] != nil && w.alive[cur] && cur > owner {
				w.fail("monitor:old-session-name-survives-ack",
					fmt.Sprintf("name %d is still registered by session %d although session %d (same run id) has been acknowledged", n.a, owner, cur))
			}
		}
	}
}

// ---- sequential operations (no gate held) ----

func errClass(e string) int {
	switch {
	case e == "":
		return 0
	case strings.Contains(e, "exceed the max_ports_per_client"):
		return 5
	case strings.Contains(e, "already exists"):
		return 2
	case strings.Contains(e, "proxy name [") && strings.Contains(e, "already in use"):
		return 4
	case strings.Contains(e, "unknown proxy type") || strings.Contains(e, "proxy type not support"):
		return 1
	default:
		return 3
	}
}

// loginAsync dials and sends the Login; the LoginResp is read by finishLogin.
type pendingLogin struct {
	sid  int
	rid  string
	conn net.Conn
	resp chan loginRes
}
type loginRes struct {
	peer *hx.Peer
	resp *msg.LoginResp
	err  error
}

func (w *world) startLogin(rid string) *pendingLogin {
	sid := len(w.peers)
	w.peers = append(w.peers, nil)
	w.alive = append(w.alive, false)
	w.peerRid = append(w.peerRid, -1)
	pl := &pendingLogin{sid: sid, rid: rid, resp: make(chan loginRes, 1)}
	go func() {
		var p *hx.Peer
		var r *msg.LoginResp
		var err error
		if w.quic {
			p, r, err = w.quicLogin(rid, tagOf(sid))
		} else {
			p, r, err = w.s.Login(hx.LoginOpts{RunID: rid, Mutate: func(l *msg.Login) { l.Hostname = tagOf(sid) }})
		}
		pl.resp <- loginRes{p, r, err}
	}()
	return pl
}

// loginItem writes the ALogin action once the run id is known.
func (w *world) loginItem(pl *pendingLogin, ridIdx int) {
	w.peerRid[pl.sid] = ridIdx
	if pl.rid == "" {
		w.item(fmt.Sprintf("IAct (ALogin None %d)", ridIdx))
	} else {
		w.item(fmt.Sprintf("IAct (ALogin (Some %d) 0)", ridIdx))
	}
}

// seqLogin: login and wait for the LoginResp; nothing is held.
func (w *world) seqLogin(rid string) int {
	pl := w.startLogin(rid)
	res := <-pl.resp
	if res.err != nil || res.peer == nil {
		w.fail("seq-login-failed", fmt.Sprintf("login with run id %q failed: %v %v", rid, res.err, res.resp))
		return -1
	}
	if rid != "" && res.resp.RunID != rid {
		w.fail("monitor:relogin-runid-changed", fmt.Sprintf("re-login with run id %q was answered with run id %q", rid, res.resp.RunID))
	}
	ri := w.ridIndex(res.resp.RunID)
	w.loginItem(pl, ri)
	w.peers[pl.sid] = res.peer
	w.alive[pl.sid] = true
	if old, ok := w.stored[ri]; ok {
		w.alive[old] = false
	}
	w.stored[ri] = pl.sid
	w.outs = append(w.outs, outRec{pl.sid, fmt.Sprintf("OLoginResp %d (Some %d) true", pl.sid, ri)})
	w.item("ISettle")
	w.waitLateDels()
	w.observe()
	return pl.sid
}

// waitLateDels: sessions the driver believes dead must have left the table (their late Del ran)
// unless a newer session sits under the run id.
func (w *world) waitLateDels() {
	deadline := time.Now().Add(2 * time.Second)
	for time.Now().Before(deadline) {
		ok := true
		for _, e := range w.s.Svc.VerifC12Sessions() {
			sid := sidOfTag(e.Tag)
			if sid < len(w.alive) && !w.alive[sid] && w.peers[sid] != nil {
				ok = false
			}
		}
		if ok {
			return
		}
		time.Sleep(time.Millisecond)
	}
}

func (w *world) newPort(reuseAtt int) (att, port int, runok bool) {
	att = len(w.ports)
	if reuseAtt >= 0 && reuseAtt < len(w.ports) && w.ports[reuseAtt] > 0 && !hx.TCPBindable(bindAddr, w.ports[reuseAtt]) {
		// a port some running proxy holds: pxy.Run() must fail
		w.ports = append(w.ports, 0)
		w.stcpName = append(w.stcpName, -1)
		return att, w.ports[reuseAtt], false
	}
	// a port never used by an earlier attempt of this case (the OS may hand a freed port out again,
	// which would make the old attempt look bound)
	for try := 0; try < 50; try++ {
		port = hx.FreePort(bindAddr)
		dup := false
		for _, q := range w.allPorts {
			if q == port {
				dup = true
			}
		}
		if !dup && port != 0 {
			break
		}
	}
	w.allPorts = append(w.allPorts, port)
	w.ports = append(w.ports, port)
	w.stcpName = append(w.stcpName, -1)
	return att, port, true
}

func (w *world) sendNewProxy(sid, name, port int, cfgok bool) error {
	typ := "tcp"
	if !cfgok {
		typ = "c12-bogus-type"
	}
	return w.peers[sid].Send(&msg.NewProxy{ProxyName: pname(name), ProxyType: typ, RemotePort: port})
}

func (w *world) recvNewProxyResp(sid, name int) (int, error) {
	m, err := w.peers[sid].RecvUntil(5*time.Second, func(m msg.Message) bool {
		r, ok := m.(*msg.NewProxyResp)
		return ok && r.ProxyName == pname(name)
	})
	if err != nil {
		return -1, err
	}
	return errClass(m.(*msg.NewProxyResp).Error), nil
}

// seqRegisterStcp: an stcp proxy (no port; GetUsedPortsNum = 0; its listener lives in the visitor manager)
func (w *world) seqRegisterStcp(sid, name int) int {
	att := len(w.ports)
	w.ports = append(w.ports, 0)
	w.stcpName = append(w.stcpName, name)
	if err := w.peers[sid].Send(&msg.NewProxy{ProxyName: pname(name), ProxyType: "stcp", Sk: stcpKey}); err != nil {
		w.fail("seq-send-failed", fmt.Sprintf("NewProxy(stcp) on session %d: %v", sid, err))
		return -1
	}
	cls, err := w.recvNewProxyResp(sid, name)
	if err != nil {
		w.fail("seq-no-newproxyresp", fmt.Sprintf("no NewProxyResp on session %d: %v", sid, err))
		return -1
	}
	if cls == 0 {
		w.stcpCur[name] = att
	}
	w.item(fmt.Sprintf("IAct (AReq %d (RNew %d %d stcpT true %s))", sid, name, att, hx.Bool(cls != 3)))
	w.item("ISettle")
	w.outs = append(w.outs, outRec{sid, fmt.Sprintf("ONewProxyResp %d %d %d %d true", sid, name, att, cls)})
	w.kind(fmt.Sprintf("newproxy-stcp-class-%d", cls))
	w.observe()
	return cls
}

func (w *world) seqRegister(sid, name, reuseAtt int, cfgok bool) int {
	att, port, runok := w.newPort(reuseAtt)
	if !cfgok {
		w.ports[att] = 0
	}
	if err := w.sendNewProxy(sid, name, port, cfgok); err != nil {
		w.fail("seq-send-failed", fmt.Sprintf("NewProxy on session %d: %v", sid, err))
		return -1
	}
	cls, err := w.recvNewProxyResp(sid, name)
	if err != nil {
		w.fail("seq-no-newproxyresp", fmt.Sprintf("no NewProxyResp on session %d: %v", sid, err))
		return -1
	}
	if cls == 3 && runok {
		// the OS refused a port we believed free: pass the observed outcome as the oracle
		runok = false
		w.ports[att] = 0
		w.kind("unexpected-run-failure")
	}
	w.item(fmt.Sprintf("IAct (AReq %d (RNew %d %d tcpT %s %s))", sid, name, att, hx.Bool(cfgok), hx.Bool(runok)))
	w.item("ISettle")
	w.outs = append(w.outs, outRec{sid, fmt.Sprintf("ONewProxyResp %d %d %d %d true", sid, name, att, cls)})
	w.kind(fmt.Sprintf("newproxy-class-%d", cls))
	w.observe()
	return cls
}

// sync: handlers run in the session's read loop, so a Pong proves everything sent before was handled
func (w *world) sync(sid int) error {
	if err := w.peers[sid].Ping(true); err != nil {
		return err
	}
	_, err := w.peers[sid].RecvUntil(5*time.Second, func(m msg.Message) bool { _, ok := m.(*msg.Pong); return ok })
	return err
}

func (w *world) seqClose(sid, name int) {
	if err := w.peers[sid].CloseProxy(pname(name)); err != nil {
		w.fail("seq-send-failed", fmt.Sprintf("CloseProxy on session %d: %v", sid, err))
		return
	}
	if err := w.sync(sid); err != nil {
		w.fail("seq-no-pong", fmt.Sprintf("no Pong on session %d: %v", sid, err))
		return
	}
	w.item(fmt.Sprintf("IAct (AReq %d (RClose %d))", sid, name))
	w.item("ISettle")
	w.kind("close")
	w.observe()
}

func (w *world) seqDisconnect(sid int) {
	w.peers[sid].Close()
	w.alive[sid] = false
	if w.stored[w.peerRid[sid]] == sid {
		delete(w.stored, w.peerRid[sid])
	}
	w.item(fmt.Sprintf("IAct (AEof %d)", sid))
	w.item("ISettle")
	w.waitLateDels()
	w.kind("disconnect")
	w.observe()
}

// carries: does the proxy on port still move a byte end to end through session sid?
func (w *world) carries(sid, port int) bool {
	u, err := net.DialTimeout("tcp", fmt.Sprintf("%s:%d", bindAddr, port), time.Second)
	if err != nil {
		return false
	}
	defer u.Close()
	wc, err := w.peers[sid].WorkConn(true)
	if err != nil {
		return false
	}
	defer wc.Close()
	var sw msg.StartWorkConn
	_ = wc.SetReadDeadline(time.Now().Add(2 * time.Second))
	if err := msg.ReadMsgInto(wc, &sw); err != nil || sw.Error != "" {
		return false
	}
	if _, err := u.Write([]byte{0x5a}); err != nil {
		return false
	}
	b := make([]byte, 1)
	if _, err := wc.Read(b); err != nil || b[0] != 0x5a {
		return false
	}
	return true
}

// ---- random sequential histories ----

func (w *world) livePeers() []int {
	var l []int
	for i, a := range w.alive {
		if a {
			l = append(l, i)
		}
	}
	return l
}

func seqHistory(g *hx.Gen, w *world) {
	nops := 6 + g.Intn(12)
	w.seqLogin("")
	for i := 0; i < nops; i++ {
		live := w.livePeers()
		r := g.Intn(100)
		switch {
		case len(live) == 0 || r < 10:
			if len(w.peers) < 9 {
				w.seqLogin("")
				w.kind("login-fresh")
			}
		case r < 28:
			// re-login with a run id the server gave out (its session alive or gone), rarely a made-up one
			var rid string
			if g.Intn(8) == 0 {
				rid = "c12madeup0000001"
				w.kind("login-madeup-runid")
			} else {
				rid = w.ridNames[g.Intn(len(w.ridNames))]
				w.kind("relogin")
			}
			if len(w.peers) < 9 {
				w.seqLogin(rid)
			}
		case r < 33:
			// a login that does not know the token but presents an issued run id: refused, and nobody is disturbed
			rid := w.ridNames[g.Intn(len(w.ridNames))]
			p, resp, err := w.s.Login(hx.LoginOpts{RunID: rid, WrongKey: true})
			if p != nil || (err == nil && (resp == nil || resp.Error == "")) {
				w.fail("monitor:unauthenticated-login-accepted", "a login with a wrong key was accepted")
			}
			time.Sleep(20 * time.Millisecond)
			w.kind("login-wrong-key-with-issued-runid")
			w.observe()
		case r < 70:
			sid := live[g.Intn(len(live))]
			name := g.Intn(3)
			reuse := -1
			if g.Intn(7) == 0 && len(w.ports) > 0 {
				reuse = g.Intn(len(w.ports))
			}
			cfgok := g.Intn(12) != 0
			w.seqRegister(sid, name, reuse, cfgok)
		case r < 88:
			sid := live[g.Intn(len(live))]
			w.seqClose(sid, g.Intn(3))
		default:
			sid := live[g.Intn(len(live))]
			w.seqDisconnect(sid)
		}
		if len(w.fails) > 0 {
			return
		}
	}
}

// ---- directed cross-session histories: the former owner of a name acts again ----
// S registers p and closes it; T registers p; then S (variant 0) repeats the close, (1) disconnects,
// (2) is replaced by a re-login.  T must keep the name and keep working; U's registration of p must be
// refused.  Run under both quota settings and for tcp and stcp proxies.
type directed struct {
	variant, quota int
	stcp           bool
	quic           bool
	plugin         bool
}

var directedCases = func() []directed {
	var l []directed
	for v := 0; v < 3; v++ {
		for _, q := range []int{0, 3} {
			for _, st := range []bool{false, true} {
				l = append(l, directed{v, q, st, false, false})
			}
		}
	}
	// the same over QUIC control connections: the former owner disconnects / is replaced
	l = append(l, directed{1, 0, false, true, false}, directed{2, 0, false, true, false})
	// behind a Login plugin that rewrites the content (unchange=false): a re-login with the run id must still replace
	l = append(l, directed{2, 0, false, false, true}, directed{2, 3, true, false, true})
	return l
}()

func (w *world) reg(sid, name int, stcp bool) int {
	if stcp {
		return w.seqRegisterStcp(sid, name)
	}
	return w.seqRegister(sid, name, -1, true)
}

func (w *world) incumbentWorks(sid, name int, stcp bool, what string) {
	att := -1
	for a := len(w.ports) - 1; a >= 0; a-- { // newest attempt of that session under that name that listens
		if stcp && w.stcpName[a] == name && w.stcpCur[name] == a {
			att = a
			break
		}
		if !stcp && w.ports[a] > 0 && !hx.TCPBindable(bindAddr, w.ports[a]) {
			att = a
			break
		}
	}
	ok := att >= 0
	if ok && stcp {
		ok = w.stcpListening(name)
	} else if ok {
		ok = w.carries(sid, w.ports[att])
	}
	w.kind("incumbent-check")
	if !ok {
		w.fail("monitor:"+what, fmt.Sprintf("%s: the proxy %d of session %d no longer works", what, name, sid))
	}
	if tag := w.s.Svc.VerifC12Names()[pname(name)]; tag != tagOf(sid) {
		w.fail("monitor:"+what+"-name-table", fmt.Sprintf("%s: the name table says %q for name %d, expected %s", what, tag, name, tagOf(sid)))
	}
}

func directedHistory(g *hx.Gen, w *world, d directed) {
	S := w.seqLogin("")
	T := w.seqLogin("")
	U := w.seqLogin("")
	if S < 0 || T < 0 || U < 0 {
		return
	}
	p := g.Intn(3)
	if w.reg(S, p, d.stcp) != 0 {
		w.fail("directed-setup", "S could not register the name")
		return
	}
	if g.Intn(2) == 0 {
		w.reg(S, (p+1)%3, d.stcp) // a second proxy S keeps
	}
	w.seqClose(S, p)
	if w.reg(T, p, d.stcp) != 0 {
		w.fail("monitor:name-not-free-after-close", "T could not register a name its former owner had closed")
		return
	}
	switch d.variant {
	case 0:
		w.seqClose(S, p) // S no longer owns anything of that name
		w.kind("former-owner-repeats-close")
	case 1:
		w.seqDisconnect(S)
		w.kind("former-owner-disconnects")
	case 2:
		w.seqLogin(w.ridNames[w.peerRid[S]])
		w.kind("former-owner-replaced")
	}
	if len(w.fails) > 0 {
		return
	}
	w.incumbentWorks(T, p, d.stcp, "incumbent-after-former-owner-acts")
	if cls := w.reg(U, p, d.stcp); cls != 2 {
		w.fail("monitor:duplicate-accepted-after-former-owner-acts", fmt.Sprintf("U's registration of the live name %d got class %d, expected 2 (already exists)", p, cls))
	}
	w.incumbentWorks(T, p, d.stcp, "incumbent-after-refused-duplicate")
	// the quota is given back exactly once per close
	if d.quota > 0 && !d.stcp && d.variant == 0 {
		for k := 0; k < d.quota+1; k++ {
			w.seqRegister(S, 10+k, -1, true)
		}
		w.seqClose(S, 10)
		w.seqRegister(S, 20, -1, true)
		w.seqRegister(S, 21, -1, true)
	}
}

func managerAddStress(rounds int) (twoWinners, done int) {
	pm := proxy.NewManager()
	const n = 4
	var start atomic.Int32
	var wins atomic.Int32
	var ready, fin sync.WaitGroup
	for r := 0; r < rounds; r++ {
		start.Store(0)
		wins.Store(0)
		ready.Add(n)
		fin.Add(n)
		for i := 0; i < n; i++ {
			go func() {
				ready.Done()
				for start.Load() == 0 {
				}
				if pm.Add("p", nil) == nil {
					wins.Add(1)
				}
				fin.Done()
			}()
		}
		ready.Wait()
		start.Store(1)
		fin.Wait()
		if wins.Load() != 1 {
			twoWinners++
		}
		pm.Del("p")
		done++
	}
	return
}

// ---- driver ----

func runSessions(cfg *hx.RunCfg) error {
	hx.Quiet()
	g := hx.NewGen(cfg.Seed)
	var cases []string
	var fails []map[string]any
	kinds := map[string]int{}
	distinct := map[string]bool{}
	var samples []string
	nSched := 3 * len(schedules)
	if cfg.Tier != "quick" {
		nSched = 20 * len(schedules)
	}
	total := cfg.N
	for i := 0; i < total; i++ {
		name := fmt.Sprintf("seq-%d", i)
		gated := i < nSched
		if gated {
			name = "sched-" + schedules[i%len(schedules)].name
		}
		quota := 0
		di := i - nSched
		isDirected := !gated && di < len(directedCases)
		if isDirected {
			name = fmt.Sprintf("directed-%d", di)
			quota = directedCases[di].quota
		} else if !gated && g.Intn(5) < 2 {
			quota = 1 + g.Intn(3)
		}
		w, err := newWorldT(name, quota, isDirected && directedCases[di].quic, isDirected && directedCases[di].plugin, gated)
		if err != nil {
			return err
		}
		if gated {
			runSchedule(g, w, schedules[i%len(schedules)])
			kinds["schedule:"+schedules[i%len(schedules)].name]++
		} else if isDirected {
			directedHistory(g, w, directedCases[di])
			kinds["directed"]++
		} else {
			seqHistory(g, w)
		}
		w.close()
		text := fmt.Sprintf("(%d%%Z, %s)", w.maxPorts, hx.List(w.items))
		cases = append(cases, text)
		if len(w.items) > 3 {
			distinct[text] = true
		}
		for k, v := range w.kinds {
			kinds[k] += v
		}
		fails = append(fails, w.fails...)
		if len(samples) < 3 && i%7 == 0 {
			samples = append(samples, text)
		}
	}
	// direct stress of proxy.Manager.Add: four goroutines behind a spin barrier ask for one name; exactly one may win
	if two, rounds := managerAddStress(3000); two > 0 {
		fails = append(fails, map[string]any{"key": "stress:manager-add-two-winners",
			"what": fmt.Sprintf("proxy.Manager.Add accepted one name for more than one caller in %d of %d rounds (4 goroutines behind a spin barrier)", two, rounds),
			"case": "managerAddStress: pm.Add(\"p\", nil) x4 concurrently; pm.Del(\"p\"); repeat"})
	}
	kinds["manager-add-stress-rounds"] = 3000
	kinds["login-plugin-calls"] = int(pluginCalls.Load())
	if pluginCalls.Load() == 0 && total > nSched+len(directedCases)-1 {
		fails = append(fails, map[string]any{"key": "coverage:login-plugin-never-called", "what": "the Login plugin of the plugin cases was never consulted", "case": "directed plugin cases"})
	}
	cf := &hx.CaseFile{
		Imports: "From FRP Require Import Corr.C12.\nOpen Scope N_scope.\n",
		Typ:     "case",
		Cases:   cases,
		Tail: "Open Scope Z_scope.\nDefinition M := Eval vm_compute in mismatches check_case cases.\nPrint M.\n" +
			"Definition NVIOL := Eval vm_compute in (count_if (fun c => negb (C12_holds c)) cases : Z).\nPrint NVIOL.\n" +
			"Definition NRELOGIN := Eval vm_compute in (count_if (has_item is_relogin) cases : Z).\nPrint NRELOGIN.\n" +
			"Definition NGATED := Eval vm_compute in (count_if (has_item is_gated) cases : Z).\nPrint NGATED.\n" +
			"Definition NBLOCKED := Eval vm_compute in (count_if (has_item is_blocked) cases : Z).\nPrint NBLOCKED.\n" +
			"Definition NEXISTS := Eval vm_compute in (count_if (has_item (has_err 2)) cases : Z).\nPrint NEXISTS.\n" +
			"Definition NINUSE := Eval vm_compute in (count_if (has_item (has_err 4)) cases : Z).\nPrint NINUSE.\n" +
			"Definition NQUOTA := Eval vm_compute in (count_if (has_item (has_err 5)) cases : Z).\nPrint NQUOTA.\n" +
			"Definition NQUOTACASES := Eval vm_compute in (count_if has_quota cases : Z).\nPrint NQUOTACASES.\n" +
			"Definition NRUNFAIL := Eval vm_compute in (count_if (has_item (has_err 3)) cases : Z).\nPrint NRUNFAIL.\n",
	}
	if err := cf.Write(cfg.Out); err != nil {
		return err
	}
	cfg.St["cases"] = len(cases)
	cfg.St["distinct_nontrivial"] = len(distinct)
	cfg.St["samples"] = samples
	cfg.St["distribution"] = kinds
	cfg.St["impl_failures"] = fails
	return nil
}
