package main

// level 3 of driver "plugins": an in-process frps started from a configuration file (cfgsrv.go: loader,
// Complete, validation, NewService) whose httpPlugins entries -- names arbitrary, duplicates and empty
// names included -- point at the stub servers, and a scripted peer that performs ONE gated
// operation and reports what it observes:
//
//   Login        LoginResp: "ok:<RunID>" / "fail"           (a plugin may rewrite RunID and the key)
//   NewProxy     NewProxyResp: "ok:<ProxyName><RemoteAddr>" / "fail"
//   Ping         Pong (HeartBeats scope on): "ok" / "fail"   (a plugin may break or repair the key)
//   NewWorkConn  (NewWorkConns scope on) nothing written = "ok", StartWorkConn{Error}/EOF = "fail"
//   NewUserConn  user dials the tcp proxy: ReqWorkConn on the control channel = "ok", user conn closed = "fail"
//
// plus sessions of register / close / re-register / session end (connection drop or replacement
// by a login with the same run id) whose CloseProxy notifications are collected at the stubs.

import (
	"fmt"
	"net"
	"sort"
	"time"

	"github.com/fatedier/frp/pkg/msg"
	plugin "github.com/fatedier/frp/pkg/plugin/server"
	netpkg "github.com/fatedier/frp/pkg/util/net"
	"github.com/fatedier/frp/pkg/util/util"
	"verifharness/hx"
)

const sysAddr = "127.0.15.1"

func nextPort() int { return hx.FreePort(sysAddr) }

type sysPeer struct {
	conn net.Conn
	rw   interface {
		Read([]byte) (int, error)
		Write([]byte) (int, error)
	}
	runID string
}

func sysLogin(s *sysServer, lm *msg.Login) (p *sysPeer, resp *msg.LoginResp, local string, err error) {
	conn, err := s.Dial()
	if err != nil {
		return nil, nil, "", err
	}
	local = conn.LocalAddr().String()
	if err = msg.WriteMsg(conn, lm); err != nil {
		conn.Close()
		return nil, nil, local, err
	}
	_ = conn.SetReadDeadline(time.Now().Add(5 * time.Second))
	resp = &msg.LoginResp{}
	if err = msg.ReadMsgInto(conn, resp); err != nil {
		conn.Close()
		return nil, nil, local, err
	}
	_ = conn.SetReadDeadline(time.Time{})
	if resp.Error != "" {
		conn.Close()
		return nil, resp, local, nil
	}
	rw, err := netpkg.NewCryptoReadWriter(conn, []byte(s.Cfg.Auth.Token))
	if err != nil {
		conn.Close()
		return nil, resp, local, err
	}
	return &sysPeer{conn: conn, rw: rw, runID: resp.RunID}, resp, local, nil
}

func (p *sysPeer) send(m msg.Message) error { return msg.WriteMsg(p.rw, m) }
func (p *sysPeer) recv(d time.Duration) (msg.Message, error) {
	_ = p.conn.SetReadDeadline(time.Now().Add(d))
	defer p.conn.SetReadDeadline(time.Time{})
	return msg.ReadMsg(p.rw)
}

func validKey(key string, ts int64) bool { return util.GetAuthKey(hx.DefaultToken, ts) == key }

func (g *gen) key(ts int64, valid bool) string {
	if valid {
		return util.GetAuthKey(hx.DefaultToken, ts)
	}
	return util.GetAuthKey("someone-else", ts)
}

func baseLogin(g *gen, n int, valid bool) *msg.Login {
	ts := int64(1700000000 + g.intn(1000))
	return &msg.Login{Version: "0.61.0", Hostname: "h15", Os: "linux", Arch: "amd64", User: "u15",
		PrivilegeKey: g.key(ts, valid), Timestamp: ts, RunID: fmt.Sprintf("orig%d", n)}
}

func runSys(cfg *runCfg, g *gen, n int) (cases []string, dist map[string]int, fails []map[string]string, err error) {
	dist = map[string]int{}
	if n <= 0 {
		return nil, dist, nil, nil
	}
	rec := &recorder{}
	var stubs []*httpStub
	for i := 1; i <= 3; i++ {
		st, e := newHTTPStubAt(i, 20+i, rec)
		if e != nil {
			return nil, nil, nil, e
		}
		stubs = append(stubs, st)
	}
	defer func() {
		for _, st := range stubs {
			st.srv.Close()
		}
	}()
	// one notification chain with a plugin that is alive but slow (5.5 s), in the background of the other
	// cases: the plugin behind it must still get the notification once the slow one has answered
	slowDone := make(chan sysResult, 1)
	go func() { slowDone <- slowNotifyChain() }()
	fail := func(key, what, c string) {
		fails = append(fails, map[string]string{"key": key, "what": what, "case": c})
	}
	quirk := 0
	gating := []string{"Login", "NewProxy", "Ping", "NewWorkConn", "NewUserConn"}
	nNotify := n / 4
	for k := 0; k < n-nNotify; k++ {
		op := gating[k%len(gating)]
		opi := 0
		for i, o := range allOps {
			if o == op {
				opi = i
			}
		}
		np := g.intn(4)
		// two NewUserConn cases per run have a plugin that answers after userConnTimeout
		slowCase := op == "NewUserConn" && (k/len(gating))%12 == 1
		useINI := g.chance(0.2)
		if slowCase && np == 0 {
			np = 1
		}
		ids := make([]int, np)
		opsets := make([][]string, np)
		scripts := make([]*script, np)
		effects := map[string]string{} // cid(json) -> effect
		var effOrder []string
		addEffect := func(c any, e string) {
			id := string(cid(mustJSON(c)))
			if _, ok := effects[id]; !ok {
				effOrder = append(effOrder, id)
			}
			effects[id] = e
		}
		// the message the peer will send, and the candidate rewrites
		lm := baseLogin(g, k, op != "Login" || g.chance(0.75))
		var mk func() any
		var npMsg *msg.NewProxy
		var pingMsg *msg.Ping
		var wcMsg *msg.NewWorkConn
		uinfo := func(runID string) plugin.UserInfo {
			return plugin.UserInfo{User: lm.User, Metas: lm.Metas, RunID: runID}
		}
		switch op {
		case "Login":
			mk = func() any {
				l2 := *lm
				l2.RunID = fmt.Sprintf("rw%d-%d", k, g.intn(1000))
				l2.User = g.pick([]string{"u15", "other"})
				l2.PrivilegeKey = g.key(l2.Timestamp, g.chance(0.7))
				c := &plugin.LoginContent{Login: l2, ClientAddress: "1.2.3.4:5"}
				if validKey(l2.PrivilegeKey, l2.Timestamp) {
					addEffect(c, "ok:"+l2.RunID)
				} else {
					addEffect(c, "fail")
				}
				return c
			}
		case "NewProxy":
			npMsg = &msg.NewProxy{ProxyName: fmt.Sprintf("px%d", k), ProxyType: "tcp", RemotePort: nextPort()}
			mk = func() any {
				m2 := msg.NewProxy{ProxyName: fmt.Sprintf("rw%d-%d", k, g.intn(1000)), ProxyType: g.pick([]string{"tcp", "tcp", "tcp", "bogus"}), RemotePort: nextPort()}
				c := &plugin.NewProxyContent{User: uinfo(g.pick([]string{lm.RunID, "x"})), NewProxy: m2}
				if m2.ProxyType == "tcp" {
					addEffect(c, fmt.Sprintf("ok:%s:%d", m2.ProxyName, m2.RemotePort))
				} else {
					addEffect(c, "fail")
				}
				return c
			}
		case "Ping":
			ts := int64(1700000000 + g.intn(1000))
			pingMsg = &msg.Ping{PrivilegeKey: g.key(ts, g.chance(0.7)), Timestamp: ts}
			mk = func() any {
				t2 := int64(1700000000 + g.intn(100000))
				c := &plugin.PingContent{User: uinfo(lm.RunID), Ping: msg.Ping{PrivilegeKey: g.key(t2, g.chance(0.6)), Timestamp: t2}}
				if validKey(c.PrivilegeKey, c.Timestamp) {
					addEffect(c, "ok")
				} else {
					addEffect(c, "fail")
				}
				return c
			}
		case "NewWorkConn":
			ts := int64(1700000000 + g.intn(1000))
			wcMsg = &msg.NewWorkConn{RunID: lm.RunID, PrivilegeKey: g.key(ts, g.chance(0.7)), Timestamp: ts}
			mk = func() any {
				t2 := int64(1700000000 + g.intn(100000))
				c := &plugin.NewWorkConnContent{User: uinfo(lm.RunID), NewWorkConn: msg.NewWorkConn{RunID: g.pick([]string{lm.RunID, "zz"}),
					PrivilegeKey: g.key(t2, g.chance(0.6)), Timestamp: t2}}
				if validKey(c.PrivilegeKey, c.Timestamp) {
					addEffect(c, "ok")
				} else {
					addEffect(c, "fail")
				}
				return c
			}
		case "NewUserConn":
			npMsg = &msg.NewProxy{ProxyName: fmt.Sprintf("uc%d", k), ProxyType: "tcp", RemotePort: nextPort()}
			mk = func() any {
				c := &plugin.NewUserConnContent{User: uinfo("x"), ProxyName: g.pick(tagStrings), ProxyType: "stcp", RemoteAddr: fmt.Sprintf("9.9.9.%d:1", g.intn(250))}
				addEffect(c, "ok") // the returned content is not used by the server: only the connection is gated
				return c
			}
		}
		var scCoq []string
		var entries []cfgEntry
		var esCoq []string
		for i := 0; i < np; i++ {
			ids[i] = i + 1
			// the file goes through validation: only documented operation strings
			var valid []string
			for _, o := range g.opSubset(op) {
				for _, a := range allOps {
					if o == a {
						valid = append(valid, o)
					}
				}
			}
			opsets[i] = valid
			scripts[i] = g.scriptWith(true, mk, false)
			if op == "NewUserConn" && slowCase && i == 0 {
				// an answer that comes later than userConnTimeout (1 s) -- and refuses: the handler has to wait for it
				scripts[i] = &script{http: true, status: 200, reject: true, reason: "slow no", body: `{"reject":true,"reject_reason":"slow no"}`,
					bodyCoq: "BParsed true " + coqHxS("slow no") + " false CFAbsent", slowMs: 1500}
				if g.chance(0.5) {
					scripts[i] = &script{http: true, status: 503, isErr: true, errKind: "ENon200", body: `{"reject":false,"unchange":true}`,
						bodyCoq: "BParsed false [] true CFAbsent", slowMs: 1500}
				}
				valid = append(valid, "NewUserConn")
				opsets[i] = valid
			}
			stubs[i].mu.Lock()
			stubs[i].sc, stubs[i].onlyOp, stubs[i].notes, stubs[i].token = scripts[i], op, nil, fmt.Sprintf("s%d", k)
			stubs[i].mu.Unlock()
			name, omit := g.cfgName()
			if useINI {
				name, omit = fmt.Sprintf("p%c", 'a'+i), false // section names are keys in the legacy format
			}
			entries = append(entries, cfgEntry{name: name, omitName: omit, addr: "http://" + stubs[i].addr, path: fmt.Sprintf("/handler/s%d", k), ops: valid})
		}
		sysUserConnTimeout = 10
		if slowCase {
			sysUserConnTimeout = 1
		}
		sysINI = useINI
		srv, e := startFromConfigFile(sysAddr, entries, true, g.chance(0.35))
		sysUserConnTimeout, sysINI = 10, false
		if e != nil {
			return nil, nil, nil, e
		}
		// the configuration as loaded: with the legacy INI format the plugins come out of a Go map, so the
		// order of registration is the loader's (an oracle); stub j stands behind the entry with its address
		pos := make([]int, np) // stub index -> position (1-based) in the loaded configuration
		order := make([]int, 0, np)
		for k2, lp := range srv.Cfg.HTTPPlugins {
			for j := 0; j < np; j++ {
				if lp.Addr == entries[j].addr && pos[j] == 0 {
					pos[j] = k2 + 1
					order = append(order, j)
					break
				}
			}
		}
		if len(order) != np {
			// an entry did not survive the loader: keep the file's order, the comparison will show it
			order = order[:0]
			for j := 0; j < np; j++ {
				pos[j] = j + 1
				order = append(order, j)
			}
			dist["sys-config-entries-lost-before-start"]++
		}
		for _, j := range order {
			var os []string
			for _, o := range entries[j].ops {
				os = append(os, coqStr(o))
			}
			esCoq = append(esCoq, fmt.Sprintf("(%s, %s)", coqStr(entries[j].name), coqList(os)))
			scCoq = append(scCoq, fmt.Sprintf("(%d, %s)", pos[j], scripts[j].coq()))
		}
		if useINI {
			dist["sys-legacy-ini-config"]++
		}
		rec.take()
		observed := "fail"
		var c0 any
		func() {
			defer srv.Close()
			peer, resp, local, e := sysLogin(srv, lm)
			if e != nil {
				err = fmt.Errorf("sys login: %v", e)
				return
			}
			if op == "Login" {
				c0 = &plugin.LoginContent{Login: *lm, ClientAddress: local}
				if validKey(lm.PrivilegeKey, lm.Timestamp) {
					addEffect(c0, "ok:"+lm.RunID)
				} else {
					addEffect(c0, "fail")
				}
				if peer != nil {
					// a reject with an empty reason reaches the client as LoginResp{Error: ""}: ask the server
					if resp.RunID != "" && srv.Svc.VerifC15HasSession(resp.RunID) {
						observed = "ok:" + resp.RunID
					} else {
						quirk++
					}
					peer.conn.Close()
				}
				return
			}
			if peer == nil {
				err = fmt.Errorf("sys: setup login refused: %s", resp.Error)
				return
			}
			defer peer.conn.Close()
			ui := plugin.UserInfo{User: lm.User, Metas: lm.Metas, RunID: peer.runID}
			switch op {
			case "NewProxy":
				c0 = &plugin.NewProxyContent{User: ui, NewProxy: *npMsg}
				addEffect(c0, fmt.Sprintf("ok:%s:%d", npMsg.ProxyName, npMsg.RemotePort))
				_ = peer.send(npMsg)
				for {
					m, e := peer.recv(3 * time.Second)
					if e != nil {
						observed = "noresp"
						break
					}
					if r, ok := m.(*msg.NewProxyResp); ok {
						if r.Error == "" && r.RemoteAddr != "" {
							observed = "ok:" + r.ProxyName + r.RemoteAddr
						} else if r.Error == "" {
							quirk++
						}
						break
					}
				}
			case "Ping":
				c0 = &plugin.PingContent{User: ui, Ping: *pingMsg}
				if validKey(pingMsg.PrivilegeKey, pingMsg.Timestamp) {
					addEffect(c0, "ok")
				} else {
					addEffect(c0, "fail")
				}
				before := srv.Svc.VerifC15LastPing(peer.runID)
				_ = peer.send(pingMsg)
				for {
					m, e := peer.recv(3 * time.Second)
					if e != nil {
						observed = "noresp"
						break
					}
					if r, ok := m.(*msg.Pong); ok {
						// the heartbeat counts iff lastPing moved (Pong.Error is empty for a reject with an empty reason)
						if srv.Svc.VerifC15LastPing(peer.runID).After(before) {
							observed = "ok"
							if r.Error != "" {
								observed = "ok-but-error"
							}
						} else if r.Error == "" {
							quirk++
						}
						break
					}
				}
			case "NewWorkConn":
				c0 = &plugin.NewWorkConnContent{User: ui, NewWorkConn: *wcMsg}
				if validKey(wcMsg.PrivilegeKey, wcMsg.Timestamp) {
					addEffect(c0, "ok")
				} else {
					addEffect(c0, "fail")
				}
				wc, e := srv.Dial()
				if e != nil {
					err = e
					return
				}
				defer wc.Close()
				_ = msg.WriteMsg(wc, wcMsg)
				// accepted: the connection sits in the session's pool and nothing is written until a user
				// arrives; refused: StartWorkConn{Error} and/or EOF.  Both are positive signals.
				refused := make(chan struct{})
				go func() {
					var sw msg.StartWorkConn
					_ = wc.SetReadDeadline(time.Now().Add(5 * time.Second))
					if e := msg.ReadMsgInto(wc, &sw); e != nil {
						if ne, ok := e.(net.Error); ok && ne.Timeout() {
							return
						}
					}
					close(refused)
				}()
				dl := time.Now().Add(5 * time.Second)
			poll:
				for time.Now().Before(dl) {
					select {
					case <-refused:
						break poll
					default:
					}
					if srv.Svc.VerifC15PoolLen(peer.runID) >= 1 {
						observed = "ok"
						break
					}
					time.Sleep(time.Millisecond)
				}
			case "NewUserConn":
				_ = peer.send(npMsg)
				okProxy := false
				for {
					m, e := peer.recv(3 * time.Second)
					if e != nil {
						break
					}
					if r, ok := m.(*msg.NewProxyResp); ok {
						okProxy = r.Error == ""
						break
					}
				}
				if !okProxy {
					err = fmt.Errorf("sys: setup proxy refused")
					return
				}
				uc, e := net.DialTimeout("tcp", fmt.Sprintf("%s:%d", sysAddr, npMsg.RemotePort), 2*time.Second)
				if e != nil {
					err = e
					return
				}
				defer uc.Close()
				c0 = &plugin.NewUserConnContent{User: ui, ProxyName: npMsg.ProxyName, ProxyType: "tcp", RemoteAddr: uc.LocalAddr().String()}
				addEffect(c0, "ok")
				res := make(chan string, 2)
				go func() {
					for {
						m, e := peer.recv(8 * time.Second)
						if e != nil {
							res <- "noresp"
							return
						}
						if _, ok := m.(*msg.ReqWorkConn); ok {
							res <- "ok"
							return
						}
					}
				}()
				go func() {
					if hx.ConnClosedWithin(uc, 8*time.Second) {
						res <- "fail"
					}
				}()
				observed = <-res
			}
		}()
		if err != nil {
			return nil, nil, nil, err
		}
		// let in-flight plugin requests of this case finish (they are synchronous with the reply we waited for)
		seen := rec.take()
		for i := range seen {
			if seen[i].id >= 1 && seen[i].id <= np {
				seen[i].id = pos[seen[i].id-1]
			}
		}
		for i := 0; i < np; i++ {
			stubs[i].mu.Lock()
			stubs[i].sc, stubs[i].onlyOp, stubs[i].token = nil, "", ""
			stubs[i].mu.Unlock()
		}
		var eff []string
		for _, id := range effOrder {
			eff = append(eff, fmt.Sprintf("(%s, %s)", coqHx([]byte(id)), coqHxS(effects[id])))
		}
		txt := fmt.Sprintf("CSys %d %s %s %s %s %s %s %s", opi, coqList(esCoq), coqList(scCoq),
			coqHx(cid(mustJSON(zeroContent(op)))), coqHx(cid(mustJSON(c0))), coqList(eff), coqHxS(observed), coqSeen(seen))
		cases = append(cases, txt)
		dist["sys:"+op]++
		if slowCase {
			dist["sys-slow-plugin-answer"]++
		}
		dist["sys-observed:"+observed[:2]]++
		dist[fmt.Sprintf("sys-consulted:%d", len(seen))]++
	}

	// ---- close notifications
	for k := 0; k < nNotify; k++ {
		for i := 0; i < 2; i++ {
			stubs[i].mu.Lock()
			stubs[i].sc, stubs[i].onlyOp, stubs[i].notes, stubs[i].token = nil, "none", nil, fmt.Sprintf("n%d", k)
			// in two thirds of the sessions some notifications are answered with a failure: a close
			// notification is not a gate, the others must still be delivered, to every plugin
			stubs[i].noteFail = 0
			if g.chance(0.66) {
				stubs[i].noteFail = uint64(g.intn(1 << 10))
				if g.chance(0.3) {
					stubs[i].noteFail = ^uint64(0)
				}
			}
			stubs[i].mu.Unlock()
		}
		// plugin 1 is registered for CloseProxy; plugin 2 too in half of the cases, placed FIRST and
		// failing (the stub answers 599 when unscripted... it answers accept here); plugin 3 is not registered
		two := g.chance(0.5)
		// all entries carry the SAME name (empty, omitted or "dup"): the name is not a key
		nm, om := "", false
		switch g.intn(3) {
		case 0:
			om = true
		case 1:
			nm = "dup"
		}
		var entries []cfgEntry
		if two {
			entries = append(entries, cfgEntry{name: nm, omitName: om, addr: "http://" + stubs[1].addr, path: fmt.Sprintf("/handler/n%d", k), ops: []string{"CloseProxy", "Ping"}})
		}
		entries = append(entries, cfgEntry{name: nm, omitName: om, addr: "http://" + stubs[0].addr, path: fmt.Sprintf("/handler/n%d", k), ops: []string{"NewProxy", "CloseProxy"}})
		entries = append(entries, cfgEntry{name: nm, omitName: om, addr: "http://" + stubs[2].addr, path: fmt.Sprintf("/handler/n%d", k), ops: []string{"Login"}})
		stubs[2].mu.Lock()
		stubs[2].sc, stubs[2].onlyOp, stubs[2].notes, stubs[2].token = nil, "none", nil, fmt.Sprintf("n%d", k)
		stubs[2].mu.Unlock()
		srv, e := startFromConfigFile(sysAddr, entries, false, g.chance(0.35))
		if e != nil {
			return nil, nil, nil, e
		}
		lm := baseLogin(g, 100000+k, true)
		peer, resp, _, e := sysLogin(srv, lm)
		if e != nil || peer == nil {
			srv.Close()
			return nil, nil, nil, fmt.Errorf("notify login failed: %v %v", e, resp)
		}
		names := []string{"na", "nb", "nc", "nd"}
		live := map[string]bool{}
		var ops []string
		expected := 0
		notesLen := func() int {
			stubs[0].mu.Lock()
			defer stubs[0].mu.Unlock()
			return len(stubs[0].notes)
		}
		waitNotes := func(n int, d time.Duration) {
			dl := time.Now().Add(d)
			for notesLen() < n && time.Now().Before(dl) {
				time.Sleep(2 * time.Millisecond)
			}
		}
		steps := 3 + g.intn(7)
		for s := 0; s < steps; s++ {
			name := fmt.Sprintf("%s%d", names[g.intn(len(names))], k)
			if g.chance(0.6) {
				_ = peer.send(&msg.NewProxy{ProxyName: name, ProxyType: "tcp", RemotePort: nextPort()})
				ok := false
				for {
					m, e := peer.recv(3 * time.Second)
					if e != nil {
						break
					}
					if r, isR := m.(*msg.NewProxyResp); isR {
						ok = r.Error == ""
						break
					}
				}
				if ok {
					live[name] = true
				}
				ops = append(ops, fmt.Sprintf("CRegister %s %s", coqHxS(name), coqBool(ok)))
			} else {
				_ = peer.send(&msg.CloseProxy{ProxyName: name})
				if live[name] {
					expected++
					delete(live, name)
					waitNotes(expected, 5*time.Second)
				} else {
					// the dispatcher handles messages in order: a following ping round-trips after the close was handled
					time.Sleep(3 * time.Millisecond)
				}
				ops = append(ops, fmt.Sprintf("CClose %s", coqHxS(name)))
			}
		}
		before := notesLen()
		how := "drop"
		if g.chance(0.4) {
			how = "replace"
			l2 := *lm
			l2.RunID = peer.runID
			p2, _, _, _ := sysLogin(srv, &l2)
			if p2 != nil {
				defer p2.conn.Close()
			}
		} else if g.chance(0.3) {
			how = "server-close"
			_ = srv.Svc.Close()
		} else {
			peer.conn.Close()
		}
		expected += len(live)
		waitNotes(expected, 5*time.Second)
		time.Sleep(30 * time.Millisecond) // surplus notifications, if any
		peer.conn.Close()
		srv.Close()
		for pi := 0; pi < 2; pi++ {
			if pi == 1 && !two {
				continue
			}
			stubs[pi].mu.Lock()
			notes := append([]string(nil), stubs[pi].notes...)
			stubs[pi].mu.Unlock()
			if pi == 1 {
				// the second plugin sees the same notifications; give it the same grace
				dl := time.Now().Add(5 * time.Second)
				for len(notes) < expected && time.Now().Before(dl) {
					time.Sleep(2 * time.Millisecond)
					stubs[pi].mu.Lock()
					notes = append([]string(nil), stubs[pi].notes...)
					stubs[pi].mu.Unlock()
				}
			}
			var order []string
			if pi == 0 && before <= len(notes) {
				for _, x := range notes[before:] {
					order = append(order, coqHxS(x))
				}
			} else {
				// for the second plugin only the multiset is known: take the model's own keys (sorted live set)
				var ks []string
				for n := range live {
					ks = append(ks, n)
				}
				sort.Strings(ks)
				for _, x := range ks {
					order = append(order, coqHxS(x))
				}
			}
			var ns []string
			for _, x := range notes {
				ns = append(ns, coqHxS(x))
			}
			all := append(append([]string(nil), ops...), "CSessionEnd "+coqList(order))
			txt := fmt.Sprintf("CNotify %s %s", coqList(all), coqList(ns))
			cases = append(cases, txt)
			dist["notify:"+how]++
			stubs[pi].mu.Lock()
			if stubs[pi].noteFail != 0 {
				dist["notify-with-failing-replies"]++
			}
			stubs[pi].mu.Unlock()
			dist[fmt.Sprintf("notify-notes:%d", len(notes))]++
			if len(notes) != expected {
				fail("impl:close-notification-count", fmt.Sprintf("plugin %d received %d CloseProxy notifications for %d stopped proxies (%s)", pi+1, len(notes), expected, how), txt)
			}
		}
		stubs[2].mu.Lock()
		n3 := len(stubs[2].notes)
		stubs[2].mu.Unlock()
		if n3 != 0 {
			fail("impl:unregistered-consulted", "a plugin not registered for CloseProxy received a notification", fmt.Sprint(ops))
		}
	}
	for i := range stubs {
		stubs[i].mu.Lock()
		stubs[i].sc, stubs[i].onlyOp, stubs[i].token = nil, "", ""
		stubs[i].mu.Unlock()
	}
	dist["sys-quirk:refusal-with-empty-reason-shown-as-success-to-client"] = quirk
	defer func() { dist["late-requests-booked-to-their-own-earlier-case"] = int(foreignRequests.Load()) }()

	sr := <-slowDone
	cases = append(cases, sr.Cases...)
	for k, v := range sr.Dist {
		dist[k] += v
	}
	fails = append(fails, sr.Fails...)

	// ---- sessions through the ssh tunnel gateway
	nGw := 12
	if cfg.Tier != "quick" {
		nGw = 60
	}
	gwCases, gwDist, gwFails, e := runGateway(g, nGw, stubs, rec)
	if e != nil {
		return nil, nil, nil, e
	}
	cases = append(cases, gwCases...)
	for k, v := range gwDist {
		dist[k] += v
	}
	fails = append(fails, gwFails...)
	return cases, dist, fails, nil
}

// slowNotifyChain: frps with two CloseProxy plugins; the first answers every notification after 5.5 s
// (200, accept), the second at once.  One proxy is registered and closed explicitly.
func slowNotifyChain() (res sysResult) {
	res.Dist = map[string]int{}
	rec := &recorder{}
	slow, e1 := newHTTPStubAt(1, 27, rec)
	fast, e2 := newHTTPStubAt(2, 28, rec)
	if e1 != nil || e2 != nil {
		res.Fails = append(res.Fails, map[string]string{"key": "harness:slow-notify-setup", "what": fmt.Sprint(e1, e2), "case": ""})
		return
	}
	defer slow.srv.Close()
	defer fast.srv.Close()
	slow.mu.Lock()
	slow.onlyOp, slow.noteDelay, slow.token = "none", 5500*time.Millisecond, "slow"
	slow.mu.Unlock()
	fast.mu.Lock()
	fast.onlyOp, fast.token = "none", "slow"
	fast.mu.Unlock()
	srv, e := startFromConfigFileWith(sysAddr, []cfgEntry{
		{name: "slow", addr: "http://" + slow.addr, path: "/handler/slow", ops: []string{"CloseProxy"}},
		{name: "fast", addr: "http://" + fast.addr, path: "/handler/slow", ops: []string{"CloseProxy"}}}, false, false, 10, nil, false)
	if e != nil {
		res.Fails = append(res.Fails, map[string]string{"key": "harness:slow-notify-setup", "what": e.Error(), "case": ""})
		return
	}
	defer srv.Close()
	g := newGen(99)
	peer, _, _, e := sysLogin(srv, baseLogin(g, 777777, true))
	if e != nil || peer == nil {
		res.Fails = append(res.Fails, map[string]string{"key": "harness:slow-notify-setup", "what": "login failed", "case": ""})
		return
	}
	defer peer.conn.Close()
	name := "slowchain"
	_ = peer.send(&msg.NewProxy{ProxyName: name, ProxyType: "tcp", RemotePort: nextPort()})
	ok := false
	for {
		m, e := peer.recv(5 * time.Second)
		if e != nil {
			break
		}
		if r, isR := m.(*msg.NewProxyResp); isR {
			ok = r.Error == ""
			break
		}
	}
	_ = peer.send(&msg.CloseProxy{ProxyName: name})
	dl := time.Now().Add(14 * time.Second)
	var notes []string
	for time.Now().Before(dl) {
		fast.mu.Lock()
		notes = append([]string(nil), fast.notes...)
		fast.mu.Unlock()
		if len(notes) >= 1 {
			break
		}
		time.Sleep(10 * time.Millisecond)
	}
	var ns []string
	for _, x := range notes {
		ns = append(ns, coqHxS(x))
	}
	txt := fmt.Sprintf("CNotify [CRegister %s %s; CClose %s; CSessionEnd []] %s", coqHxS(name), coqBool(ok), coqHxS(name), coqList(ns))
	res.Cases = append(res.Cases, txt)
	res.Dist["notify-behind-slow-plugin"]++
	if ok && len(notes) != 1 {
		res.Fails = append(res.Fails, map[string]string{"key": "impl:close-notification-count",
			"what": fmt.Sprintf("the CloseProxy plugin behind a slow (5.5 s) but healthy plugin received %d notifications for 1 stopped proxy", len(notes)), "case": txt})
	}
	return
}
