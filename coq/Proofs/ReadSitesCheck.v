(* C17: reflective check over the call sites of the frame decoder (gen/GenReadSites.v). *)
From FRP Require Import Model.Bytes.
Open Scope Z_scope.

Definition site_file (s : string * string * string * string * string) : string := let '(f, _, _, _, _) := s in f.
Definition site_fn (s : string * string * string * string * string) : string := let '(_, g, _, _, _) := s in g.
Definition site_origin (s : string * string * string * string * string) : string := let '(_, _, _, _, o) := s in o.

(* no call site hands the decoder a buffered reader (which would take bytes behind the frame out of the
   stream); the two sites the system-level model is about are present (so the table is not empty because
   the translator looked in the wrong place); no decode-into-caller-buffer call in the UDP / datagram codecs *)
Definition read_sites_ok (sites : list (string * string * string * string * string)) (dst : list (string * string)) : bool :=
  forallb (fun s => negb (String.eqb (site_origin s) "bufio")) sites &&
  existsb (fun s => String.eqb (site_file s) "server/service.go" && String.eqb (site_fn s) "handleConnection") sites &&
  existsb (fun s => String.eqb (site_file s) "pkg/msg/handler.go" && String.eqb (site_fn s) "readLoop") sites &&
  match dst with [] => true | _ => false end.

Lemma read_sites_ok_sound sites dst :
  read_sites_ok sites dst = true ->
  (forall s, In s sites -> site_origin s <> "bufio"%string) /\
  (exists s, In s sites /\ site_file s = "server/service.go"%string /\ site_fn s = "handleConnection"%string) /\
  (exists s, In s sites /\ site_file s = "pkg/msg/handler.go"%string /\ site_fn s = "readLoop"%string) /\
  dst = [].
Proof.
  unfold read_sites_ok. rewrite !andb_true_iff. intros [[[H1 H2] H3] H4]. repeat split.
  - intros s Hin E. rewrite forallb_forall in H1. specialize (H1 s Hin). rewrite E in H1. discriminate.
  - apply existsb_exists in H2. destruct H2 as [s [Hin H]]. apply andb_true_iff in H. destruct H as [Ha Hb].
    apply String.eqb_eq in Ha, Hb. eauto.
  - apply existsb_exists in H3. destruct H3 as [s [Hin H]]. apply andb_true_iff in H. destruct H as [Ha Hb].
    apply String.eqb_eq in Ha, Hb. eauto.
  - destruct dst; [reflexivity|discriminate].
Qed.

(** decode targets of loops, and the dispatcher facts the read-loop model rests on *)
Definition target_kind (t : string * string * string) : string := let '(_, _, k) := t in k.

Definition read_targets_ok (ts : list (string * string * string)) : bool :=
  forallb (fun t => let k := target_kind t in
                    String.eqb k "none" || String.eqb k "noloop" || String.eqb k "fresh") ts &&
  existsb (fun t => String.eqb (target_kind t) "fresh") ts.

Lemma read_targets_ok_sound ts :
  read_targets_ok ts = true ->
  forall f g k, In (f, g, k) ts -> k <> "shared"%string /\ k <> "unknown"%string.
Proof.
  unfold read_targets_ok. rewrite andb_true_iff. intros [H _] f g k Hin.
  rewrite forallb_forall in H. specialize (H _ Hin). cbn in H.
  split; intros ->; discriminate.
Qed.

Fixpoint assoc_s (n : string) (l : list (string * string)) : option string :=
  match l with [] => None | (k, v) :: r => if String.eqb n k then Some v else assoc_s n r end.

(* doneCh is closed by readLoop only (so only after the handler in flight has returned); readLoop calls the
   handler directly (no go statement, no closure); NewProxy, CloseProxy and Ping are registered synchronously *)
Definition dispatch_ok (closers : list string) (shape : Z * Z * Z) (hs : list (string * string)) : bool :=
  match closers with [c] => String.eqb c "readLoop" | _ => false end &&
  (let '(g, d, df) := shape in (g =? 0) && (d =? 1) && (df =? 1)) &&
  match assoc_s "&msg.NewProxy{}" hs, assoc_s "&msg.CloseProxy{}" hs, assoc_s "&msg.Ping{}" hs with
  | Some a, Some b, Some c => String.eqb a "sync" && String.eqb b "sync" && String.eqb c "sync"
  | _, _, _ => false
  end.

Lemma dispatch_ok_sound closers shape hs :
  dispatch_ok closers shape hs = true ->
  closers = ["readLoop"%string] /\ shape = (0, 1, 1) /\
  assoc_s "&msg.NewProxy{}" hs = Some "sync"%string /\ assoc_s "&msg.CloseProxy{}" hs = Some "sync"%string /\
  assoc_s "&msg.Ping{}" hs = Some "sync"%string.
Proof.
  unfold dispatch_ok. rewrite !andb_true_iff. intros [[H1 H2] H3].
  destruct closers as [|c [|]]; try discriminate. apply String.eqb_eq in H1. subst c.
  destruct shape as [[g d] df]. rewrite !andb_true_iff in H2. destruct H2 as [[Hg Hd] Hdf].
  apply Z.eqb_eq in Hg, Hd, Hdf. subst.
  destruct (assoc_s "&msg.NewProxy{}" hs) as [a|]; [|discriminate].
  destruct (assoc_s "&msg.CloseProxy{}" hs) as [b|]; [|discriminate].
  destruct (assoc_s "&msg.Ping{}" hs) as [c|]; [|discriminate].
  rewrite !andb_true_iff in H3. destruct H3 as [[Ha Hb] Hc].
  apply String.eqb_eq in Ha, Hb, Hc. subst. auto.
Qed.

(** layering order of the stream wrappers (gen/GenVisitorStacks.v, unit t5v) against the pinned order *)
Definition stack_kinds (st : list (string * string * string)) : list string := map (fun x => fst (fst x)) st.
Fixpoint strs_eqb (a b : list string) : bool :=
  match a, b with
  | [], [] => true
  | x :: a', y :: b' => String.eqb x y && strs_eqb a' b'
  | _, _ => false
  end.
Definition stacks_order_ok (pinned : list string) (stacks : list (list (string * string * string))) : bool :=
  forallb (fun st => strs_eqb (stack_kinds st) pinned) stacks.
Lemma stacks_order_ok_sound pinned stacks :
  stacks_order_ok pinned stacks = true -> forall st, In st stacks -> stack_kinds st = pinned.
Proof.
  unfold stacks_order_ok. rewrite forallb_forall. intros H st Hin. specialize (H st Hin).
  revert H. generalize (stack_kinds st) as a. intros a. revert pinned.
  induction a as [|x a IH]; intros [|y b]; cbn; try discriminate; [reflexivity|].
  rewrite andb_true_iff. intros [E H]. apply String.eqb_eq in E. subst. f_equal. now apply IH.
Qed.

(** the control-channel cipher is installed under the released condition on both ends: always, except for
    internal ssh-tunnel sessions (client: connEncrypted := true, set false only for clientSpec.Type ==
    "ssh-tunnel"; server: NewControl(..., !internal, ...)).  Any further condition on one end (a transport,
    a TLS flag) makes builds of the same protocol version unable to talk in that combination. *)
Fixpoint pairs_eqb (a b : list (string * string)) : bool :=
  match a, b with
  | [], [] => true
  | (x, y) :: a', (x', y') :: b' => String.eqb x x' && String.eqb y y' && pairs_eqb a' b'
  | _, _ => false
  end.
Definition conn_enc_released_client : list (string * string) :=
  [("", "true"); ("svr.clientSpec != nil && svr.clientSpec.Type == ""ssh-tunnel""", "false")]%string.
Definition conn_enc_ok (cl : list (string * string)) (sv : list string) : bool :=
  pairs_eqb cl conn_enc_released_client && strs_eqb sv ["!internal"%string].
Lemma pairs_eqb_eq a : forall b, pairs_eqb a b = true -> a = b.
Proof.
  induction a as [|[x y] a IH]; intros [|[x' y'] b]; cbn; try discriminate; [reflexivity|].
  rewrite !andb_true_iff. intros [[E1 E2] H]. apply String.eqb_eq in E1, E2. subst. f_equal. now apply IH.
Qed.
Lemma strs_eqb_eq a : forall b, strs_eqb a b = true -> a = b.
Proof.
  induction a as [|x a IH]; intros [|y b]; cbn; try discriminate; [reflexivity|].
  rewrite andb_true_iff. intros [E H]. apply String.eqb_eq in E. subst. f_equal. now apply IH.
Qed.
Lemma conn_enc_ok_sound cl sv :
  conn_enc_ok cl sv = true -> cl = conn_enc_released_client /\ sv = ["!internal"%string].
Proof.
  unfold conn_enc_ok. rewrite andb_true_iff. intros [H1 H2].
  split; [now apply pairs_eqb_eq|now apply strs_eqb_eq].
Qed.
