(* C01: the tunnel wrapper stacks of both ends, built from the translator's table (gen/GenStacks.v)
   and the option flags.  Model only: no proofs here.

   Each site of the table lists its wrappers in wrapping order (head next to the wire).  [build_site]
   turns a site plus a valuation of its guards (encryption, compression, limiter present) into a
   list of layer kinds; it answers [None] for anything it does not positively recognise (unknown
   construct, wrapper that does not wrap the current top, guard or key expression outside the
   white-lists below), so that the reflective checker fails rather than skips.

   Server  (server/proxy/proxy.go handleUserTCPConnection):  wire - enc - comp - limiter - [io.Copy]
   Client  (client/proxy/proxy.go HandleTCPWorkConnection):  wire - limiter - enc - comp - [io.Copy]
   The limiter sits at different depths; it only re-chunks, so the stacks mirror each other modulo it. *)
From FRP Require Export Model.Limit Model.StackTypes.
Open Scope string_scope.
Open Scope list_scope.
Open Scope Z_scope.

Inductive keyclass := KToken | KSecret.      (* auth.token of the session | secretKey of the stcp/xtcp/sudp proxy *)
Inductive lk := LkEnc (k : keyclass) | LkComp | LkLimit.

Definition keyclass_eqb (a b : keyclass) : bool :=
  match a, b with KToken, KToken | KSecret, KSecret => true | _, _ => false end.
Definition lk_eqb (a b : lk) : bool :=
  match a, b with
  | LkEnc x, LkEnc y => keyclass_eqb x y
  | LkComp, LkComp | LkLimit, LkLimit => true
  | _, _ => false
  end.
Fixpoint lks_eqb (a b : list lk) : bool :=
  match a, b with
  | [], [] => true
  | x :: a', y :: b' => lk_eqb x y && lks_eqb a' b'
  | _, _ => false
  end.

Definition ends_with (suf s : string) : bool :=
  let n := String.length s in
  let m := String.length suf in
  (m <=? n)%nat && String.eqb (substring (n - m) m s) suf.

(* white-lists over canonical expressions (see Model/StackTypes.v) *)
Definition key_class (k : string) : option keyclass :=
  if ends_with ".Auth.Token" k then Some KToken
  else if ends_with ".SecretKey" k || ends_with ".Secretkey" k || ends_with "#0.sk" k then Some KSecret
  else None.
Definition is_enc_guard (g : string) : bool := ends_with ".Transport.UseEncryption" g || ends_with " && $4" g.
Definition is_comp_guard (g : string) : bool := ends_with ".Transport.UseCompression" g || ends_with " && $5" g.
Definition is_lim_guard (g : string) : bool := ends_with ".limiter != nil" g || ends_with ".GetLimiter() != nil" g.

(* the key may be a parameter of the site ("$2" of HandleTCPWorkConnection): then the class comes
   from the call sites (enc_key_args) *)
Definition resolve_key (kparam : option keyclass) (k : string) : option keyclass :=
  if String.eqb k "$2" then kparam else key_class k.

Definition build_layer (fe fc fl : bool) (kparam : option keyclass) (l : sk_layer) : option (list lk) :=
  match l with
  | SkEnc g k true =>
      if is_enc_guard g then
        match resolve_key kparam k with
        | Some kc => Some (if fe then [LkEnc kc] else [])
        | None => None
        end
      else None
  | SkComp g _ true => if is_comp_guard g then Some (if fc then [LkComp] else []) else None
  | SkLimit g true true _ => if is_lim_guard g then Some (if fl then [LkLimit] else []) else None
  | SkToConn true => Some []
  | SkStats true => Some []
  | _ => None
  end.

Fixpoint build_layers (fe fc fl : bool) (kparam : option keyclass) (ls : list sk_layer) : option (list lk) :=
  match ls with
  | [] => Some []
  | l :: r =>
      match build_layer fe fc fl kparam l, build_layers fe fc fl kparam r with
      | Some x, Some y => Some (x ++ y)
      | _, _ => None
      end
  end.

Definition build_site (fe fc fl : bool) (kparam : option keyclass) (s : sk_site) : option (list lk) :=
  build_layers fe fc fl kparam (sk_layers s).

Fixpoint erase_lim (l : list lk) : list lk :=
  match l with
  | [] => []
  | LkLimit :: r => erase_lim r
  | x :: r => x :: erase_lim r
  end.

Fixpoint find_site (file fn : string) (sites : list sk_site) : option sk_site :=
  match sites with
  | [] => None
  | s :: r => if String.eqb (sk_file s) file && String.eqb (sk_func s) fn then Some s else find_site file fn r
  end.

(* every caller of HandleTCPWorkConnection in [file] passes a key of one class *)
Fixpoint callers_class (file : string) (args : list (string * string * string)) : option (option keyclass) :=
  match args with
  | [] => Some None
  | (f, _, k) :: r =>
      match callers_class file r with
      | None => None
      | Some rest =>
          if String.eqb f file then
            match key_class k, rest with
            | Some c, None => Some (Some c)
            | Some c, Some c' => if keyclass_eqb c c' then Some (Some c) else None
            | None, _ => None
            end
          else Some rest
      end
  end.

(* the three pairs of ends that carry TCP-class tunnels:
   (writer/reader site A, key parameter of A, site B, key parameter of B) *)
Record stack_pair := { sp_a : string * string; sp_ka : option keyclass; sp_b : string * string; sp_kb : option keyclass;
                       sp_class : keyclass }.

Definition flat_opt (o : option (option keyclass)) : option keyclass := match o with Some (Some c) => Some c | _ => None end.

Definition c01_pairs (keyargs : list (string * string * string)) : list stack_pair :=
  [ (* tcp, https, tcpmux, and the proxy leg of stcp: frps <-> frpc over the work connection, keyed by the token *)
    {| sp_a := ("server/proxy/proxy.go", "handleUserTCPConnection"); sp_ka := None;
       sp_b := ("client/proxy/proxy.go", "HandleTCPWorkConnection");
       sp_kb := flat_opt (callers_class "client/proxy/proxy.go" keyargs); sp_class := KToken |};
    (* stcp visitor leg: visitor frpc <-> frps visitor manager, keyed by the secret key *)
    {| sp_a := ("client/visitor/stcp.go", "handleConn"); sp_ka := None;
       sp_b := ("server/visitor/visitor.go", "NewConn"); sp_kb := None; sp_class := KSecret |};
    (* xtcp: visitor frpc <-> owner frpc over the hole-punched tunnel, keyed by the secret key *)
    {| sp_a := ("client/visitor/xtcp.go", "handleConn"); sp_ka := None;
       sp_b := ("client/proxy/proxy.go", "HandleTCPWorkConnection");
       sp_kb := flat_opt (callers_class "client/proxy/xtcp.go" keyargs); sp_class := KSecret |};
    (* the remaining sites of the table that share these ends (http, udp, sudp: C02, C03, C05 rely on the same
       mirror): http proxy leg frps <-> frpc *)
    {| sp_a := ("server/proxy/http.go", "GetRealConn"); sp_ka := None;
       sp_b := ("client/proxy/proxy.go", "HandleTCPWorkConnection");
       sp_kb := flat_opt (callers_class "client/proxy/proxy.go" keyargs); sp_class := KToken |};
    (* udp proxy leg *)
    {| sp_a := ("server/proxy/udp.go", "Run"); sp_ka := None;
       sp_b := ("client/proxy/udp.go", "InWorkConn"); sp_kb := None; sp_class := KToken |};
    (* sudp: proxy leg (frps side is the common tcp handler) and visitor leg *)
    {| sp_a := ("server/proxy/proxy.go", "handleUserTCPConnection"); sp_ka := None;
       sp_b := ("client/proxy/sudp.go", "InWorkConn"); sp_kb := None; sp_class := KToken |};
    {| sp_a := ("client/visitor/sudp.go", "getNewVisitorConn"); sp_ka := None;
       sp_b := ("server/visitor/visitor.go", "NewConn"); sp_kb := None; sp_class := KSecret |} ].

Definition bools := [true; false].

Definition enc_class_ok (c : keyclass) (l : list lk) : bool :=
  forallb (fun x => match x with LkEnc k => keyclass_eqb k c | _ => true end) l.

Definition pair_ok (sites : list sk_site) (p : stack_pair) : bool :=
  match find_site (fst (sp_a p)) (snd (sp_a p)) sites, find_site (fst (sp_b p)) (snd (sp_b p)) sites with
  | Some sa, Some sb =>
      forallb (fun fe => forallb (fun fc => forallb (fun la => forallb (fun lb =>
        match build_site fe fc la (sp_ka p) sa, build_site fe fc lb (sp_kb p) sb with
        | Some x, Some y => lks_eqb (erase_lim x) (erase_lim y) && enc_class_ok (sp_class p) x
                            && (* both flags set => both layers present, encryption below compression *)
                               (if fe && fc then lks_eqb (erase_lim x) [LkEnc (sp_class p); LkComp] else true)
        | _, _ => false
        end) bools) bools) bools) bools
  | _, _ => false
  end.

(* the stcp visitor announces its own flags and the server applies them in the same positions *)
Fixpoint assoc_str (k : string) (l : list (string * string)) : option string :=
  match l with [] => None | (a, b) :: r => if String.eqb a k then Some b else assoc_str k r end.

Definition visitor_flags_ok (vfields : list (string * string)) (ncargs : list string) : bool :=
  match assoc_str "UseEncryption" vfields, assoc_str "UseCompression" vfields with
  | Some e, Some c =>
      ends_with ".Transport.UseEncryption" e && ends_with ".Transport.UseCompression" c &&
      match nth_error ncargs 4, nth_error ncargs 5 with
      | Some a4, Some a5 => ends_with ".UseEncryption" a4 && ends_with ".UseCompression" a5
      | _, _ => false
      end
  | _, _ => false
  end.

Definition stacks_mirror_ok (translated : bool) (sites : list sk_site) (keyargs : list (string * string * string))
    (vfields : list (string * string)) (ncargs : list string) : bool :=
  translated && forallb (pair_ok sites) (c01_pairs keyargs) && visitor_flags_ok vfields ncargs.

(* semantics of a layer kind: the cipher is keyed by the value both ends hold for that key class *)
Definition sem (cipher : keyclass -> codec) (comp : codec) (burst : Z) (l : lk) : st_layer :=
  match l with
  | LkEnc k => codec_layer (cipher k)
  | LkComp => codec_layer comp
  | LkLimit => limit_layer burst
  end.
