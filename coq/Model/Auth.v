(* C04 — executable model of frps' credential checks and of the connection handler around them.
   Model only: no proofs here (Proofs/AuthProofs.v).  All top-level names carry the tag au_.

   Code mirrored (function by function; see design/C04.md):
     pkg/util/util/util.go   GetAuthKey (the hash itself is the Section variable H), ConstantTimeEqString
     pkg/auth/token.go       TokenAuthSetterVerifier.VerifyLogin / VerifyPing / VerifyNewWorkConn
     pkg/auth/oidc.go        OidcAuthConsumer.VerifyLogin / verifyPostLoginToken / VerifyPing / VerifyNewWorkConn
     pkg/auth/pass.go        alwaysPass
     server/service.go       handleConnection, RegisterControl, RegisterWorkConn, RegisterVisitorConn
     server/control.go       ControlManager.Add/Del/GetByID, NewControl (pool clamp), RegisterWorkConn (pool),
                             handlePing, handleNewProxy/RegisterProxy, handleCloseProxy, worker (teardown),
                             heartbeatWorker
   The NewWorkConn plugin chain is an oracle argument of the event (verification runs on ITS output, as in the
   code); the Login chain likewise (oracle au_lplug; RegisterControl acts on its output); the Ping / NewProxy hooks are the
   identity here (C15 owns the chain). *)
From FRP Require Export Model.Bytes.
Open Scope Z_scope.

(* ---- configuration ---------------------------------------------------------------- *)

Inductive au_scope := AuScHeartBeats | AuScNewWorkConns.

Definition au_scope_eqb (a b : au_scope) : bool :=
  match a, b with
  | AuScHeartBeats, AuScHeartBeats => true
  | AuScNewWorkConns, AuScNewWorkConns => true
  | _, _ => false
  end.

(* slices.Contains(auth.additionalAuthScopes, x) *)
Fixpoint au_has_scope (x : au_scope) (l : list au_scope) : bool :=
  match l with
  | [] => false
  | y :: r => if au_scope_eqb y x then true else au_has_scope x r
  end.

Inductive au_method := AuToken | AuOidc.

Record au_cfg := {
  ac_method : au_method;          (* auth.method *)
  ac_token : bytes;               (* auth.token *)
  ac_scopes : list au_scope;      (* auth.additionalScopes, as a list (duplicates allowed) *)
  ac_max_pool : Z;                (* transport.maxPoolCount *)
  ac_hb_timeout : Z               (* transport.heartbeatTimeout, in the unit of the event clock *)
}.

(* ---- messages ---------------------------------------------------------------------- *)

Record au_spec := { asp_type : bytes; asp_always_pass : bool }.     (* msg.ClientSpec *)

Record au_login := {                                                (* msg.Login, fields acted on *)
  al_rid : bytes; al_key : bytes; al_ts : Z; al_user : bytes; al_pool : Z; al_spec : au_spec
}.

Definition au_login_with_rid (l : au_login) (rid : bytes) : au_login :=
  {| al_rid := rid; al_key := al_key l; al_ts := al_ts l; al_user := al_user l;
     al_pool := al_pool l; al_spec := al_spec l |}.

(* ---- util.ConstantTimeEqString = subtle.ConstantTimeCompare(a, b) == 1 -------------- *)

Fixpoint au_xor_acc (a b : bytes) (v : Z) : Z :=
  match a, b with
  | x :: a', y :: b' => au_xor_acc a' b' (Z.lor v (Z.lxor (Z_of_byte x) (Z_of_byte y)))
  | _, _ => v
  end.

Definition au_ct_eq (a b : bytes) : bool :=
  if Nat.eqb (length a) (length b) then au_xor_acc a b 0 =? 0 else false.

Fixpoint au_mem (x : bytes) (l : list bytes) : bool :=           (* slices.Contains on strings *)
  match l with
  | [] => false
  | y :: r => if bytes_eqb y x then true else au_mem x r
  end.

(* verification errors, one per error text of the code *)
Inductive au_verr :=
| AuErrTokenLogin      (* "token in login doesn't match token from configuration" *)
| AuErrTokenPing       (* "token in heartbeat doesn't match token from configuration" *)
| AuErrTokenWork       (* "token in NewWorkConn doesn't match token from configuration" *)
| AuErrOidcLogin       (* "invalid OIDC token in login" *)
| AuErrOidcInvalid     (* "invalid OIDC token in ping" (also used for work connections) *)
| AuErrOidcSubject.    (* "received different OIDC subject in login and ping" *)

(* result of a login verification: the OIDC consumer may extend subjectsFromLogin *)
Inductive au_vres := AuVOk (subjects : list bytes) | AuVErr (e : au_verr).

(* auth.Verifier implementations in play: the configured one (token or oidc) or pass.go *)
Inductive au_verifier := AuConfigured | AuAlwaysPass.

Definition au_verifier_eqb (a b : au_verifier) : bool :=
  match a, b with AuConfigured, AuConfigured => true | AuAlwaysPass, AuAlwaysPass => true | _, _ => false end.

Section Auth.
  (* GetAuthKey(token, ts) = hex(md5(token ++ decimal ts)): the hash is external *)
  Variable H : bytes -> Z -> bytes.
  (* TokenVerifier.Verify: bearer token, at the time of the call -> subject, or an error (expiry, key
     rotation and revocation make the answer time-dependent; the verifier is consulted on EVERY message) *)
  Variable oidc : bytes -> Z -> option bytes.

  Definition au_key (token : bytes) (ts : Z) : bytes := H token ts.

  (* -- token.go -- *)
  Definition au_tok_verify_login (c : au_cfg) (ts : Z) (k : bytes) : option au_verr :=
    if negb (au_ct_eq (au_key (ac_token c) ts) k) then Some AuErrTokenLogin else None.

  Definition au_tok_verify_ping (c : au_cfg) (ts : Z) (k : bytes) : option au_verr :=
    if negb (au_has_scope AuScHeartBeats (ac_scopes c)) then None
    else if negb (au_ct_eq (au_key (ac_token c) ts) k) then Some AuErrTokenPing else None.

  Definition au_tok_verify_workconn (c : au_cfg) (ts : Z) (k : bytes) : option au_verr :=
    if negb (au_has_scope AuScNewWorkConns (ac_scopes c)) then None
    else if negb (au_ct_eq (au_key (ac_token c) ts) k) then Some AuErrTokenWork else None.

  (* -- oidc.go; [subjects] is OidcAuthConsumer.subjectsFromLogin, ONE list per server -- *)
  Definition au_oidc_verify_login (subjects : list bytes) (now : Z) (k : bytes) : au_vres :=
    match oidc k now with
    | None => AuVErr AuErrOidcLogin
    | Some sub => if negb (au_mem sub subjects) then AuVOk (subjects ++ [sub]) else AuVOk subjects
    end.

  Definition au_oidc_post_login (subjects : list bytes) (now : Z) (k : bytes) : option au_verr :=
    match oidc k now with
    | None => Some AuErrOidcInvalid
    | Some sub => if negb (au_mem sub subjects) then Some AuErrOidcSubject else None
    end.

  Definition au_oidc_verify_ping (c : au_cfg) (subjects : list bytes) (now : Z) (k : bytes) : option au_verr :=
    if negb (au_has_scope AuScHeartBeats (ac_scopes c)) then None else au_oidc_post_login subjects now k.

  Definition au_oidc_verify_workconn (c : au_cfg) (subjects : list bytes) (now : Z) (k : bytes) : option au_verr :=
    if negb (au_has_scope AuScNewWorkConns (ac_scopes c)) then None else au_oidc_post_login subjects now k.

  (* -- the auth.Verifier interface: dynamic dispatch on the verifier a session holds -- *)
  Definition au_verify_login (c : au_cfg) (v : au_verifier) (subjects : list bytes) (now : Z) (l : au_login) : au_vres :=
    match v with
    | AuAlwaysPass => AuVOk subjects
    | AuConfigured =>
        match ac_method c with
        | AuToken => match au_tok_verify_login c (al_ts l) (al_key l) with
                     | Some e => AuVErr e | None => AuVOk subjects end
        | AuOidc => au_oidc_verify_login subjects now (al_key l)
        end
    end.

  Definition au_verify_ping (c : au_cfg) (v : au_verifier) (subjects : list bytes) (now : Z) (k : bytes) (ts : Z)
    : option au_verr :=
    match v with
    | AuAlwaysPass => None
    | AuConfigured =>
        match ac_method c with
        | AuToken => au_tok_verify_ping c ts k
        | AuOidc => au_oidc_verify_ping c subjects now k
        end
    end.

  Definition au_verify_workconn (c : au_cfg) (v : au_verifier) (subjects : list bytes) (now : Z) (k : bytes) (ts : Z)
    : option au_verr :=
    match v with
    | AuAlwaysPass => None
    | AuConfigured =>
        match ac_method c with
        | AuToken => au_tok_verify_workconn c ts k
        | AuOidc => au_oidc_verify_workconn c subjects now k
        end
    end.

  (* RegisterControl: `if internal && loginMsg.ClientSpec.AlwaysAuthPass { authVerifier = AlwaysPassVerifier }` *)
  Definition au_choose_verifier (internal : bool) (sp : au_spec) : au_verifier :=
    if internal && asp_always_pass sp then AuAlwaysPass else AuConfigured.

  (* ---- server state ---------------------------------------------------------------- *)

  Record au_session := {          (* server.Control *)
    as_sid : Z;                   (* identity of the Control object (pointer) *)
    as_rid : bytes;               (* key in ControlManager.ctlsByRunID *)
    as_login : au_login;          (* ctl.loginMsg *)
    as_internal : bool;           (* ctlConnEncrypted = !internal *)
    as_verifier : au_verifier;    (* ctl.authVerifier *)
    as_last_ping : Z;             (* ctl.lastPing *)
    as_pool : list Z;             (* ctl.workConnCh contents (connection ids), oldest first *)
    as_pool_cap : Z;              (* cap(ctl.workConnCh) = poolCount + 10 *)
    as_proxies : list bytes       (* ctl.proxies (names) *)
  }.

  Record au_state := {
    at_sessions : list au_session;      (* ControlManager.ctlsByRunID (at most one entry per run id) *)
    at_pxys : list (bytes * Z);         (* proxy.Manager.pxys: name -> owning Control *)
    at_subjects : list bytes;           (* OidcAuthConsumer.subjectsFromLogin *)
    at_next : Z                         (* next fresh Control identity *)
  }.

  Definition au_init : au_state :=
    {| at_sessions := []; at_pxys := []; at_subjects := []; at_next := 0 |}.

  Fixpoint au_find_rid (rid : bytes) (l : list au_session) : option au_session :=
    match l with
    | [] => None
    | x :: r => if bytes_eqb (as_rid x) rid then Some x else au_find_rid rid r
    end.

  Fixpoint au_find_sid (sid : Z) (l : list au_session) : option au_session :=
    match l with
    | [] => None
    | x :: r => if as_sid x =? sid then Some x else au_find_sid sid r
    end.

  Definition au_drop_sid (sid : Z) (l : list au_session) : list au_session :=
    filter (fun x => negb (as_sid x =? sid)) l.

  Definition au_drop_owner (sid : Z) (p : list (bytes * Z)) : list (bytes * Z) :=
    filter (fun e => negb (snd e =? sid)) p.

  Fixpoint au_pxy_exists (name : bytes) (p : list (bytes * Z)) : bool :=
    match p with
    | [] => false
    | (n, _) :: r => if bytes_eqb n name then true else au_pxy_exists name r
    end.

  Definition au_set_session (x' : au_session) (l : list au_session) : list au_session :=
    map (fun x => if as_sid x =? as_sid x' then x' else x) l.

  Definition au_upd_ping (x : au_session) (now : Z) : au_session :=
    {| as_sid := as_sid x; as_rid := as_rid x; as_login := as_login x; as_internal := as_internal x;
       as_verifier := as_verifier x; as_last_ping := now; as_pool := as_pool x;
       as_pool_cap := as_pool_cap x; as_proxies := as_proxies x |}.

  Definition au_upd_pool (x : au_session) (p : list Z) : au_session :=
    {| as_sid := as_sid x; as_rid := as_rid x; as_login := as_login x; as_internal := as_internal x;
       as_verifier := as_verifier x; as_last_ping := as_last_ping x; as_pool := p;
       as_pool_cap := as_pool_cap x; as_proxies := as_proxies x |}.

  Definition au_upd_proxies (x : au_session) (p : list bytes) : au_session :=
    {| as_sid := as_sid x; as_rid := as_rid x; as_login := as_login x; as_internal := as_internal x;
       as_verifier := as_verifier x; as_last_ping := as_last_ping x; as_pool := as_pool x;
       as_pool_cap := as_pool_cap x; as_proxies := p |}.

  (* NewControl: poolCount clamped to [0, maxPoolCount]; channel capacity poolCount + 10 *)
  Definition au_pool_cap (c : au_cfg) (want : Z) : Z :=
    let p := if want >? ac_max_pool c then ac_max_pool c else want in
    let p := if p <? 0 then 0 else p in
    p + 10.

  (* ---- events ------------------------------------------------------------------------ *)

  (* outcome of the server plugin chain pluginManager.NewWorkConn on a NewWorkConn content (C15 owns the chain;
     here it is an oracle): unchanged, content rewritten (the credential fields), or rejected / unreachable *)
  Inductive au_plug := AuPlugSame | AuPlugRewrite (key : bytes) (ts : Z) | AuPlugReject.

  Definition au_plug_apply (p : au_plug) (key : bytes) (ts : Z) : option (bytes * Z) :=
    match p with
    | AuPlugSame => Some (key, ts)
    | AuPlugRewrite k' ts' => Some (k', ts')
    | AuPlugReject => None
    end.

  (* outcome of pluginManager.Login on a Login content (handleConnection calls it for EVERY Login, on every listener,
     before RegisterControl): unchanged, content replaced (any field: user, run id, key, client_spec ...), or rejected *)
  Inductive au_lplug := AuLPlugSame | AuLPlugRewrite (l : au_login) | AuLPlugReject.

  Definition au_lplug_apply (p : au_lplug) (l : au_login) : option au_login :=
    match p with
    | AuLPlugSame => Some l
    | AuLPlugRewrite l' => Some l'
    | AuLPlugReject => None
    end.

  (* first message on a fresh connection (handleConnection's type switch) *)
  Inductive au_first :=
  | AuFLogin (l : au_login) (plug : au_lplug)
  | AuFWorkConn (rid key : bytes) (ts : Z) (plug : au_plug)
  | AuFVisitor (rid : bytes) (vm_ok : bool)   (* vm_ok: VisitorManager.NewConn's verdict (C08's subject), an oracle here *)
  | AuFOther (ty : Z).                        (* any other registered message type (its type byte) *)

  (* later message on the control channel of an established session (Dispatcher handlers) *)
  Inductive au_later :=
  | AuLPing (key : bytes) (ts : Z)
  | AuLNewProxy (name : bytes) (cfg_ok run_ok : bool)  (* oracles: config accepted; proxy.Run succeeded *)
  | AuLCloseProxy (name : bytes)
  | AuLOther (ty : Z).                                  (* no handler registered: dropped *)

  Inductive au_event :=
  | AuEFirst (internal : bool) (conn : Z) (now : Z) (gen : bytes) (m : au_first)
        (* gen: what util.RandID returns if it is called *)
  | AuELater (sid : Z) (now : Z) (m : au_later)
  | AuEClose (sid : Z)                        (* the control connection of that session ended *)
  | AuECheck (now : Z).                       (* one heartbeatWorker tick (all sessions) *)

  Inductive au_refusal :=
  | AuRLogin (e : au_verr)          (* LoginResp{Error}, connection closed *)
  | AuRLoginPlugin                  (* LoginResp{Error} (Login plugin chain refused), connection closed *)
  | AuRWorkUnknownRun               (* connection closed, nothing sent *)
  | AuRWorkAuth (e : au_verr)       (* StartWorkConn{Error}, connection closed *)
  | AuRWorkPlugin                   (* StartWorkConn{Error} (plugin chain refused), connection closed *)
  | AuRWorkPoolFull                 (* connection closed, nothing sent *)
  | AuRVisitorUnknownRun            (* NewVisitorConnResp{Error}, closed *)
  | AuRVisitorRefused               (* NewVisitorConnResp{Error}, closed *)
  | AuRFirstType.                   (* connection closed, nothing sent *)

  Inductive au_out :=
  | AuOLoginOk (rid : bytes) (sid : Z)
  | AuOWorkPooled
  | AuOVisitorOk
  | AuORefused (r : au_refusal)
  | AuOPong
  | AuOPongErr (e : au_verr)
  | AuOProxyOk
  | AuOProxyErrCfg | AuOProxyErrExists | AuOProxyErrRun
  | AuONone                         (* no reply (CloseProxy, unhandled message types) *)
  | AuONoSession                    (* event addressed to a Control that does not exist *)
  | AuOClosed
  | AuOChecked.

  Variable c : au_cfg.

  (* worker(): close(workConnCh) and drain, close own proxies and pxyManager.Del them; then
     ControlManager.Del(runID, ctl).  One atomic step here; property C11/C13 look inside. *)
  Definition au_teardown (s : au_state) (x : au_session) : au_state :=
    {| at_sessions := au_drop_sid (as_sid x) (at_sessions s);
       at_pxys := au_drop_owner (as_sid x) (at_pxys s);
       at_subjects := at_subjects s; at_next := at_next s |}.

  Definition au_hb_expired (now : Z) (x : au_session) : bool :=
    (ac_hb_timeout c >? 0) && (now - as_last_ping x >? ac_hb_timeout c).

  (* the login message as RegisterControl sees it after `if loginMsg.RunID == "" { RunID = RandID() }` *)
  Definition au_effective_login (l0 : au_login) (gen : bytes) : au_login :=
    match al_rid l0 with [] => au_login_with_rid l0 gen | _ => l0 end.

  Definition au_step_first (s : au_state) (internal : bool) (conn now : Z) (gen : bytes) (m : au_first)
    : au_state * au_out :=
    match m with
    | AuFLogin l00 lplug =>
        (* handleConnection: Login plugin chain first; RegisterControl acts on what the chain returned *)
        match au_lplug_apply lplug l00 with
        | None => (s, AuORefused AuRLoginPlugin)
        | Some l0 =>
            let l := au_effective_login l0 gen in
            let v := au_choose_verifier internal (al_spec l) in
            match au_verify_login c v (at_subjects s) now l with
            | AuVErr e => (s, AuORefused (AuRLogin e))
            | AuVOk subj =>
                let x := {| as_sid := at_next s; as_rid := al_rid l; as_login := l; as_internal := internal;
                            as_verifier := v; as_last_ping := now; as_pool := [];
                            as_pool_cap := au_pool_cap c (al_pool l); as_proxies := [] |} in
                (* ctlManager.Add: an old Control under the same run id is Replaced (closed) and
                   RegisterControl waits for its teardown before the new one starts *)
                let s1 := match au_find_rid (al_rid l) (at_sessions s) with
                          | Some old => au_teardown s old
                          | None => s
                          end in
                ({| at_sessions := x :: at_sessions s1; at_pxys := at_pxys s1;
                    at_subjects := subj; at_next := at_next s + 1 |},
                 AuOLoginOk (al_rid l) (at_next s))
            end
        end
    | AuFWorkConn rid key0 ts0 plug =>
        (* Service.RegisterWorkConn: run id lookup, plugin chain, verification of what the CHAIN returned,
           then Control.RegisterWorkConn *)
        match au_find_rid rid (at_sessions s) with
        | None => (s, AuORefused AuRWorkUnknownRun)
        | Some x =>
            match au_plug_apply plug key0 ts0 with
            | None => (s, AuORefused AuRWorkPlugin)
            | Some (key, ts) =>
                match au_verify_workconn c (as_verifier x) (at_subjects s) now key ts with
                | Some e => (s, AuORefused (AuRWorkAuth e))
                | None =>
                    if Z.of_nat (length (as_pool x)) <? as_pool_cap x then
                      ({| at_sessions := au_set_session (au_upd_pool x (as_pool x ++ [conn])) (at_sessions s);
                          at_pxys := at_pxys s; at_subjects := at_subjects s; at_next := at_next s |},
                       AuOWorkPooled)
                    else (s, AuORefused AuRWorkPoolFull)
                end
            end
        end
    | AuFVisitor rid vm_ok =>
        (* RegisterVisitorConn: run id looked up only if present; no credential of the session is checked *)
        match rid, au_find_rid rid (at_sessions s) with
        | _ :: _, None => (s, AuORefused AuRVisitorUnknownRun)
        | _, _ => if vm_ok then (s, AuOVisitorOk) else (s, AuORefused AuRVisitorRefused)
        end
    | AuFOther _ => (s, AuORefused AuRFirstType)
    end.

  Definition au_step_later (s : au_state) (x : au_session) (now : Z) (m : au_later) : au_state * au_out :=
    match m with
    | AuLPing key ts =>
        match au_verify_ping c (as_verifier x) (at_subjects s) now key ts with
        | Some e => (s, AuOPongErr e)
        | None =>
            ({| at_sessions := au_set_session (au_upd_ping x now) (at_sessions s);
                at_pxys := at_pxys s; at_subjects := at_subjects s; at_next := at_next s |}, AuOPong)
        end
    | AuLNewProxy name cfg_ok run_ok =>
        (* RegisterProxy: config from message, Exist, Run, pxyManager.Add, ctl.proxies *)
        if negb cfg_ok then (s, AuOProxyErrCfg)
        else if au_pxy_exists name (at_pxys s) then (s, AuOProxyErrExists)
        else if negb run_ok then (s, AuOProxyErrRun)
        else
          ({| at_sessions := au_set_session (au_upd_proxies x (as_proxies x ++ [name])) (at_sessions s);
              at_pxys := at_pxys s ++ [(name, as_sid x)];
              at_subjects := at_subjects s; at_next := at_next s |}, AuOProxyOk)
    | AuLCloseProxy name =>
        if au_mem name (as_proxies x) then
          ({| at_sessions := au_set_session
                               (au_upd_proxies x (filter (fun n => negb (bytes_eqb n name)) (as_proxies x)))
                               (at_sessions s);
              at_pxys := filter (fun e => negb (bytes_eqb (fst e) name)) (at_pxys s);
              at_subjects := at_subjects s; at_next := at_next s |}, AuONone)
        else (s, AuONone)
    | AuLOther _ => (s, AuONone)
    end.

  Definition au_step (s : au_state) (e : au_event) : au_state * au_out :=
    match e with
    | AuEFirst internal conn now gen m => au_step_first s internal conn now gen m
    | AuELater sid now m =>
        match au_find_sid sid (at_sessions s) with
        | None => (s, AuONoSession)
        | Some x => au_step_later s x now m
        end
    | AuEClose sid =>
        match au_find_sid sid (at_sessions s) with
        | None => (s, AuONoSession)
        | Some x => (au_teardown s x, AuOClosed)
        end
    | AuECheck now =>
        (* heartbeatWorker of every session: expired sessions close their connection -> teardown *)
        (fold_left (fun s' x => if au_hb_expired now x then au_teardown s' x else s') (at_sessions s) s,
         AuOChecked)
    end.

  Definition au_run (evs : list au_event) (s : au_state) : au_state :=
    fold_left (fun s e => fst (au_step s e)) evs s.

  (* all outputs, in order *)
  Fixpoint au_trace (evs : list au_event) (s : au_state) : list au_out :=
    match evs with
    | [] => []
    | e :: r => let '(s', o) := au_step s e in o :: au_trace r s'
    end.

  (* ---- the property's vocabulary (simple specification side) ---------------------------- *)

  (* "the peer presented the configured credential" for a login: independent of server state *)
  Definition au_login_cred_ok (now : Z) (l : au_login) : bool :=
    match ac_method c with
    | AuToken => bytes_eqb (al_key l) (au_key (ac_token c) (al_ts l))
    | AuOidc => match oidc (al_key l) now with Some _ => true | None => false end
    end.

  (* credential of a per-message scope (ping / work connection): key of the token, or an OIDC token of a subject
     that logged in *)
  Definition au_msg_cred_ok (subjects : list bytes) (now : Z) (k : bytes) (ts : Z) : bool :=
    match ac_method c with
    | AuToken => bytes_eqb k (au_key (ac_token c) ts)
    | AuOidc => match oidc k now with Some sub => au_mem sub subjects | None => false end
    end.

  (* what "this session was admitted on a verified login" means: its verifier is the one RegisterControl
     chooses, and either the configured verifier was used and the login carried the credential, or the
     always-pass verifier was used, which requires the internal listener and the flag *)
  Definition au_session_verified (x : au_session) : Prop :=
    as_verifier x = au_choose_verifier (as_internal x) (al_spec (as_login x)) /\
    as_rid x = al_rid (as_login x) /\
    ((as_verifier x = AuConfigured /\ exists t, au_login_cred_ok t (as_login x) = true) \/
     (as_verifier x = AuAlwaysPass /\ as_internal x = true /\ asp_always_pass (al_spec (as_login x)) = true)).

  (* does the event address session x (its run id for first messages, its Control for later ones)? *)
  Definition au_addresses (e : au_event) (x : au_session) : bool :=
    match e with
    | AuEFirst _ _ _ gen (AuFLogin l00 lplug) =>
        match au_lplug_apply lplug l00 with
        | Some l0 => bytes_eqb (al_rid (au_effective_login l0 gen)) (as_rid x)
        | None => false
        end
    | AuEFirst _ _ _ _ (AuFWorkConn rid _ _ _) => bytes_eqb rid (as_rid x)
    | AuEFirst _ _ _ _ _ => false
    | AuELater sid _ _ => sid =? as_sid x
    | AuEClose sid => sid =? as_sid x
    | AuECheck now => au_hb_expired now x
    end.

  Definition au_is_refusal (o : au_out) : bool :=
    match o with
    | AuORefused _ | AuOPongErr _ | AuOProxyErrCfg | AuOProxyErrExists | AuOProxyErrRun | AuONoSession => true
    | _ => false
    end.
End Auth.

(* ---- what go-oidc's verifier checks under a configured policy (the auth.oidc block), as far as frp configures it ----------
   NewTokenVerifier: oidc.Config{ClientID: audience, SkipClientIDCheck: audience == "", SkipExpiryCheck, SkipIssuerCheck}.
   A token is described by facts the harness knows by construction; the signature is always checked. *)
Record au_oidc_policy := { aop_audience : bytes; aop_skip_expiry : bool; aop_skip_issuer : bool }.
Record au_token_facts := {
  atf_sig_ok : bool;        (* signed by a key of the configured issuer's JWKS *)
  atf_sub : bytes;
  atf_iss_ok : bool;        (* iss claim equals the configured issuer *)
  atf_aud : bytes;          (* aud claim (single audience) *)
  atf_valid_until : Z       (* first time at which exp has passed *)
}.

Definition au_oidc_policy_verify (p : au_oidc_policy) (t : au_token_facts) (now : Z) : option bytes :=
  if negb (atf_sig_ok t) then None
  else if negb (aop_skip_issuer p || atf_iss_ok t) then None
  else if negb (match aop_audience p with [] => true | a => bytes_eqb a (atf_aud t) end) then None
  else if negb (aop_skip_expiry p || (now <? atf_valid_until t)) then None
  else Some (atf_sub t).

(* the oracle induced by a policy and a description of the tokens in play *)
Definition au_oidc_of_policy (p : au_oidc_policy) (tab : bytes -> option au_token_facts) (k : bytes) (now : Z) : option bytes :=
  match tab k with Some t => au_oidc_policy_verify p t now | None => None end.

(* a token the policy must reject at time now *)
Definition au_token_unacceptable (p : au_oidc_policy) (t : au_token_facts) (now : Z) : bool :=
  negb (atf_sig_ok t) ||
  (negb (aop_skip_issuer p) && negb (atf_iss_ok t)) ||
  (match aop_audience p with [] => false | a => negb (bytes_eqb a (atf_aud t)) end) ||
  (negb (aop_skip_expiry p) && (atf_valid_until t <=? now)).
