(* C19 — client/health/health.go: Monitor.checkWorker as a fold over probe outcomes.
   Model only, no proofs.  All top-level names carry the prefix hm_ / HM.

   Go                                   model
   -----------------------------------  ------------------------------------------
   NewMonitor: MaxFailed <= 0 -> 1       hm_norm_max
   NewMonitor: statusOK: false           hm_init
   doCheck / doTCPCheck / doHTTPCheck    hm_probe_err (kind, backend behaviour)
   checkWorker loop body (one probe)     hm_step
   statusNormalFn() / statusFailedFn()   emitted events HMNormal / HMFailed
   failedTimes (uint64), statusOK        hm_failed (Z, unbounded), hm_ok

   The probe outcome (what the backend does with this probe) is an operation argument.
   failedTimes is a uint64 in Go; the model counter is an unbounded Z (2^63 consecutive
   failed probes are out of reach of any run; stated in design/C19.md). *)
From Coq Require Import List ZArith Bool.
Import ListNotations.
Open Scope Z_scope.

(* what the backend does with one probe *)
Inductive hm_probe :=
| HPAccept               (* the connection is accepted; an http backend does not matter for tcp *)
| HPRefuse               (* connection refused *)
| HPTimeout              (* nothing completes before the per-probe deadline *)
| HPStatus (code : Z).   (* connection accepted and an http answer with this status code *)

Inductive hm_kind := HKTcp | HKHttp | HKOther.

(* doCheck(ctx) returns a non-nil error *)
Definition hm_probe_err (k : hm_kind) (p : hm_probe) : bool :=
  match k with
  | HKTcp =>                       (* doTCPCheck: DialContext error, else close and nil *)
      match p with
      | HPAccept | HPStatus _ => false
      | HPRefuse | HPTimeout => true
      end
  | HKHttp =>                      (* doHTTPCheck: Do() error, or StatusCode/100 != 2 *)
      match p with
      | HPStatus c => negb (c / 100 =? 2)
      | HPAccept => true           (* accepted, closed without an answer: Do() fails *)
      | HPRefuse | HPTimeout => true
      end
  | HKOther => true                (* ErrHealthCheckType *)
  end.

Record hm_cfg := { hm_max : Z; hm_hasN : bool; hm_hasF : bool }.

(* NewMonitor *)
Definition hm_norm_max (m : Z) : Z := if m <=? 0 then 1 else m.

Record hm_state := { hm_failed : Z; hm_ok : bool }.

Definition hm_init : hm_state := {| hm_failed := 0; hm_ok := false |}.

Inductive hm_event := HMNormal | HMFailed.

(* one iteration of checkWorker after doCheck returned [err] *)
Definition hm_step_err (c : hm_cfg) (s : hm_state) (err : bool) : hm_state * list hm_event :=
  if negb err then
    let s1 := {| hm_failed := 0; hm_ok := hm_ok s |} in
    if negb (hm_ok s1) && hm_hasN c
    then ({| hm_failed := 0; hm_ok := true |}, [HMNormal])
    else (s1, [])
  else
    let s1 := {| hm_failed := hm_failed s + 1; hm_ok := hm_ok s |} in
    if hm_ok s1 && (hm_failed s1 >=? hm_max c) && hm_hasF c
    then ({| hm_failed := hm_failed s1; hm_ok := false |}, [HMFailed])
    else (s1, []).

Definition hm_step (k : hm_kind) (c : hm_cfg) (s : hm_state) (p : hm_probe) :=
  hm_step_err c s (hm_probe_err k p).

(* the whole history: final state and, per probe, the events it fired *)
Fixpoint hm_run_err (c : hm_cfg) (s : hm_state) (h : list bool) : hm_state * list (list hm_event) :=
  match h with
  | [] => (s, [])
  | e :: r =>
      let '(s1, ev) := hm_step_err c s e in
      let '(s2, evs) := hm_run_err c s1 r in
      (s2, ev :: evs)
  end.

Definition hm_run (k : hm_kind) (c : hm_cfg) (h : list hm_probe) :=
  hm_run_err c hm_init (map (hm_probe_err k) h).

(* ---- the specification the theorems compare with (not used by the model) ---- *)

(* number of failed probes at the end of the history (h is oldest first) *)
Fixpoint hm_trailing_from (acc : Z) (h : list bool) : Z :=
  match h with
  | [] => acc
  | true :: r => hm_trailing_from (acc + 1) r
  | false :: r => hm_trailing_from 0 r
  end.
Definition hm_trailing (h : list bool) : Z := hm_trailing_from 0 h.

Definition hm_has_success (h : list bool) : bool := existsb negb h.

(* healthy verdict wanted by the property: there was a success, and fewer than max failed
   probes since the last one *)
Definition hm_spec_ok (max : Z) (h : list bool) : bool :=
  hm_has_success h && (hm_trailing h <? max).
