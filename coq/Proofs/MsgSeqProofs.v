From FRP Require Import Model.MsgSeq Proofs.MsgObjProofs.
From Coq Require Import Lia.

(* every frame of a sequence decoded into a fresh value: the consumer gets exactly the messages that were
   encoded, in order *)
Theorem seq_fresh_roundtrip fs vss :
  schema_wf fs = true -> Forall (fun vs => typed_fields_with typed fs vs = true) vss ->
  seq_decode_fresh fs (map (enc_obj fs) vss) = Some vss.
Proof.
  intros Hwf H. induction H as [|vs r Ht _ IH]; [reflexivity|].
  cbn [map seq_decode_fresh]. rewrite (obj_roundtrip fs vs Hwf Ht), IH. reflexivity.
Qed.
