package main

// Part "race": replay of the idle-boundary witness of Proofs/UdpSchedProofs.v (race_witness) on the
// real udp.Forwarder.  The only gate is verifhook.At("udp.forwarder.before_write", udpMsg.Content)
// between mu.Unlock() and udpConn.Write(buf) in pkg/proto/udp/udp.go.

import (
	"bytes"
	"fmt"
	"net"
	"sync"
	"time"

	"github.com/fatedier/frp/pkg/msg"
	"github.com/fatedier/frp/pkg/proto/udp"
	"github.com/fatedier/frp/pkg/util/verifhook"
	"verifharness/hx"
)

const raceFindingKey = "udp.Forwarder:write-after-idle-close"

type raceResult struct {
	Reproduced bool   `json:"reproduced"`
	GateSeen   bool   `json:"gate_seen"`
	What       string `json:"what"`
	Case       string `json:"case"`
}

// runRace returns the case line (nil if the gate is not compiled into this build) and the result.
func runRace(cfg *hx.RunCfg, g *hx.Gen) ([]string, raceResult) {
	res := raceResult{}
	w, err := newWorld(backendIP, 1)
	if err != nil {
		res.What = "setup: " + err.Error()
		return nil, res
	}
	defer w.close()
	user := w.users[0].LocalAddr().(*net.UDPAddr)
	d1 := mkPayload(g, 0, 0, 8+g.Intn(40))
	d2 := mkPayload(g, 0, 1, 8+g.Intn(40))
	d3 := mkPayload(g, 0, 2, 8+g.Intn(40))
	p2 := udp.NewUDPPacket(d2, nil, user)

	held := make(chan struct{})
	release := make(chan struct{})
	var once sync.Once
	verifhook.Install(func(point, key string) {
		if point == "udp.forwarder.before_write" && key == p2.Content {
			once.Do(func() { close(held) })
			<-release
		}
	})
	defer verifhook.Install(nil)

	readCh := make(chan *msg.UDPPacket, 1024)
	sendCh := make(chan msg.Message, 1024)
	var mu sync.Mutex
	replies := 0
	go func() {
		for range sendCh {
			mu.Lock()
			replies++
			mu.Unlock()
		}
	}()
	udp.Forwarder(w.backendAddr(), readCh, sendCh, bufSize)
	nReplies := func() int { mu.Lock(); defer mu.Unlock(); return replies }
	atBackend := func(d []byte) int {
		w.mu.Lock()
		defer w.mu.Unlock()
		n := 0
		for _, r := range w.bk {
			if bytes.Equal(r.data, d) {
				n++
			}
		}
		return n
	}

	readCh <- udp.NewUDPPacket(d1, nil, user)
	if !waitUntil(arriveWait, func() bool { return atBackend(d1) == 1 && nReplies() == 1 }) {
		res.What = "setup: the first datagram was not delivered and answered"
		close(release)
		return nil, res
	}
	readCh <- p2
	select {
	case <-held:
		res.GateSeen = true
	case <-time.After(2 * time.Second):
		// this build has no gate (e.g. a scratch tree of HEAD): nothing to replay
		close(release)
		return nil, res
	}
	// the reader's deadline was armed when it went back to ReadFromUDP after the reply (<= now)
	time.Sleep(30500 * time.Millisecond)
	w.mu.Lock()
	posRelease := len(w.bk) // what arrives from now on comes from the held Write or from a socket created later
	w.mu.Unlock()
	close(release)
	time.Sleep(300 * time.Millisecond)
	lost := atBackend(d2) == 0
	readCh <- udp.NewUDPPacket(d3, nil, user)
	waitUntil(arriveWait, func() bool { return atBackend(d3) == 1 })
	time.Sleep(50 * time.Millisecond)

	ports := map[int]int{}
	var obs []string
	w.mu.Lock()
	for pos, r := range w.bk {
		key := r.addr.Port
		if lost && pos >= posRelease {
			key += 1000000 // the old socket is closed: an equal port number would be an OS reuse
		}
		pi, ok := ports[key]
		if !ok {
			pi = len(ports)
			ports[key] = pi
		}
		obs = append(obs, fmt.Sprintf("(%d, %s)", pi, hx.Hx(r.data)))
	}
	w.mu.Unlock()
	close(readCh)
	line := fmt.Sprintf("CRace %d %s %s %s %s %s", bufSize, w.userAddrs()[0], hx.Hx(d1), hx.Hx(d2), hx.Hx(d3), hx.List(obs))
	res.Reproduced = lost
	res.Case = clip(line, 600)
	if lost {
		res.What = "udp.Forwarder at light load, no work-connection replacement: the datagram whose Write follows the idle " +
			"expiry of its user's local socket (reader deleted the map entry and closed the socket between the loop's mu.Unlock " +
			"and udpConn.Write) is written to the closed socket and lost; the backend never receives it"
	}
	return []string{line}, res
}
