(* C19 — client/proxy/proxy_wrapper.go: the phase machine of one Wrapper.
   Model only, no proofs.  Prefix pw_ / PW.

   Go                                          model
   ------------------------------------------  --------------------------------------------
   NewWrapper (Phase new, health 1 iff         pw_init
     HealthCheck.Type != "" && LocalPort > 0)
   checkWorker: one loop iteration at `now`    PWTick now        (time in ms, from the op list)
   statusNormalCallback/statusFailedCallback   PWHealth 0 / PWHealth 1   (atomic store; the
                                                 notification only wakes checkWorker = a later PWTick)
   SetRunningStatus(remoteAddr, respErr)       PWResp now resp_err run_ok  (pxy.Run() result = oracle)
   Stop                                        PWStop
   InWorkConn                                  PWWork
   handler(StartProxyPayload)                  output PWONew       (NewProxy message)
   handler(CloseProxyPayload) (pw.close)       output PWOClose     (CloseProxy message)
   statusCheckInterval                         not a model constant: it only decides when the next
                                               PWTick happens; theorems quantify over all op lists
   waitResponseTimeout, startErrTimeout        pw_wait, pw_errto of the timing record

   Stop on an already stopped wrapper closes a closed channel in Go (panic): the model emits
   PWOPanic there; Proofs show the manager never produces that. *)
From Coq Require Import List ZArith Bool.
Import ListNotations.
Open Scope Z_scope.

Inductive pw_phase := PWNew | PWWait | PWStartErr | PWRunning | PWCheckFailed | PWClosed.

Definition pw_phase_eqb (a b : pw_phase) : bool :=
  match a, b with
  | PWNew, PWNew | PWWait, PWWait | PWStartErr, PWStartErr | PWRunning, PWRunning
  | PWCheckFailed, PWCheckFailed | PWClosed, PWClosed => true
  | _, _ => false
  end.

(* the strings of the status API, as small numbers for the correspondence *)
Definition pw_phase_code (p : pw_phase) : Z :=
  match p with
  | PWNew => 0 | PWWait => 1 | PWStartErr => 2 | PWRunning => 3 | PWCheckFailed => 4 | PWClosed => 5
  end.

Record pw_timing := { pw_wait : Z; pw_errto : Z }.

Record pw_state := {
  pw_ph : pw_phase;
  pw_health : Z;          (* uint32: 0 healthy, otherwise failed *)
  pw_lastSend : Z;        (* lastSendStartMsg *)
  pw_lastErr : Z;         (* lastStartErr *)
  pw_haserr : bool;       (* Err != "" *)
  pw_mon : bool           (* monitor != nil *)
}.

Definition pw_init (has_monitor : bool) : pw_state :=
  {| pw_ph := PWNew; pw_health := if has_monitor then 1 else 0;
     pw_lastSend := 0; pw_lastErr := 0; pw_haserr := false; pw_mon := has_monitor |}.

Inductive pw_op :=
| PWTick (now : Z)
| PWHealth (h : Z)
| PWResp (now : Z) (resp_err : bool) (run_ok : bool)
| PWStop
| PWWork.

Inductive pw_out :=
| PWONew          (* NewProxy sent *)
| PWOClose        (* CloseProxy sent *)
| PWOAccept       (* work connection handed to the proxy *)
| PWOReject       (* work connection closed *)
| PWORespOk       (* SetRunningStatus returned nil *)
| PWORespErr      (* SetRunningStatus returned the server's / Run's error *)
| PWOIgnored      (* "status not wait start, ignore start message" *)
| PWOPanic.       (* close of closed channel *)

Definition pw_set_phase (s : pw_state) (p : pw_phase) : pw_state :=
  {| pw_ph := p; pw_health := pw_health s; pw_lastSend := pw_lastSend s; pw_lastErr := pw_lastErr s;
     pw_haserr := pw_haserr s; pw_mon := pw_mon s |}.

(* the condition of the first branch of checkWorker, in the order of the code *)
Definition pw_should_send (t : pw_timing) (s : pw_state) (now : Z) : bool :=
  match pw_ph s with
  | PWNew => true
  | PWCheckFailed => true
  | PWWait => now >? pw_lastSend s + pw_wait t        (* now.After(lastSendStartMsg.Add(waitResponseTimeout)) *)
  | PWStartErr => now >? pw_lastErr s + pw_errto t    (* now.After(lastStartErr.Add(startErrTimeout)) *)
  | PWRunning | PWClosed => false
  end.

Definition pw_step (t : pw_timing) (s : pw_state) (o : pw_op) : pw_state * list pw_out :=
  match o with
  | PWTick now =>
      if pw_health s =? 0 then
        if pw_should_send t s now then
          ({| pw_ph := PWWait; pw_health := pw_health s; pw_lastSend := now; pw_lastErr := pw_lastErr s;
              pw_haserr := pw_haserr s; pw_mon := pw_mon s |}, [PWONew])
        else (s, [])
      else
        match pw_ph s with
        | PWRunning | PWWait => (pw_set_phase s PWCheckFailed, [PWOClose])
        | _ => (s, [])
        end
  | PWHealth h =>
      ({| pw_ph := pw_ph s; pw_health := h; pw_lastSend := pw_lastSend s; pw_lastErr := pw_lastErr s;
          pw_haserr := pw_haserr s; pw_mon := pw_mon s |}, [])
  | PWResp now resp_err run_ok =>
      match pw_ph s with
      | PWWait =>
          if resp_err then
            ({| pw_ph := PWStartErr; pw_health := pw_health s; pw_lastSend := pw_lastSend s; pw_lastErr := now;
                pw_haserr := true; pw_mon := pw_mon s |}, [PWORespErr])
          else if negb run_ok then
            ({| pw_ph := PWStartErr; pw_health := pw_health s; pw_lastSend := pw_lastSend s; pw_lastErr := now;
                pw_haserr := true; pw_mon := pw_mon s |}, [PWOClose; PWORespErr])
          else
            ({| pw_ph := PWRunning; pw_health := pw_health s; pw_lastSend := pw_lastSend s; pw_lastErr := pw_lastErr s;
                pw_haserr := false; pw_mon := pw_mon s |}, [PWORespOk])
      | _ => (s, [PWOIgnored])
      end
  | PWStop =>
      match pw_ph s with
      | PWClosed => (s, [PWOPanic])
      | _ => (pw_set_phase s PWClosed, [PWOClose])
      end
  | PWWork =>
      match pw_ph s with
      | PWRunning => (s, [PWOAccept])
      | _ => (s, [PWOReject])
      end
  end.

(* a whole history: final state and the per-step record (phase before, op, outputs, phase after) *)
Record pw_rec := { pr_before : pw_phase; pr_op : pw_op; pr_out : list pw_out; pr_after : pw_phase }.

Fixpoint pw_run (t : pw_timing) (s : pw_state) (ops : list pw_op) : pw_state * list pw_rec :=
  match ops with
  | [] => (s, [])
  | o :: r =>
      let '(s1, out) := pw_step t s o in
      let '(s2, tr) := pw_run t s1 r in
      (s2, {| pr_before := pw_ph s; pr_op := o; pr_out := out; pr_after := pw_ph s1 |} :: tr)
  end.

Definition pw_out_eqb (a b : pw_out) : bool :=
  match a, b with
  | PWONew, PWONew | PWOClose, PWOClose | PWOAccept, PWOAccept | PWOReject, PWOReject
  | PWORespOk, PWORespOk | PWORespErr, PWORespErr | PWOIgnored, PWOIgnored | PWOPanic, PWOPanic => true
  | _, _ => false
  end.
Definition pw_emits (x : pw_out) (l : list pw_out) : bool := existsb (pw_out_eqb x) l.

(* ---- specification side: the transitions the status API may show (property text) ---- *)
Definition pw_legal (a b : pw_phase) : bool :=
  match a, b with
  | PWNew, PWWait => true
  | PWCheckFailed, PWWait => true
  | PWWait, PWWait => true            (* re-sent after waitResponseTimeout *)
  | PWStartErr, PWWait => true        (* retried after startErrTimeout *)
  | PWWait, PWRunning => true
  | PWWait, PWStartErr => true
  | PWRunning, PWCheckFailed => true
  | PWWait, PWCheckFailed => true
  | PWClosed, PWClosed => true
  | PWClosed, _ => false
  | _, PWClosed => true
  | _, _ => false
  end.
