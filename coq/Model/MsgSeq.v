(* C17: decoding a SEQUENCE of frames into the consumer.  msg.ReadMsgInto is json.Unmarshal INTO the
   caller's value: a key that is absent from the JSON object leaves the field as it was, a struct field and
   the pointee of a non-nil pointer are merged into, a map keeps its old entries (slices and scalars are
   replaced).  Readers in a loop (client/proxy/udp.go, sudp.go workConnReaderFn) therefore have to decode
   every frame into a FRESH value; gen/GenReadSites.v read_targets states where the target is declared.
   No proofs here. *)
From FRP Require Export Model.MsgObj.

Definition map_merge (old new : list (bytes * bytes)) : list (bytes * bytes) :=
  new ++ filter (fun kv => negb (existsb (fun kv' => bytes_eqb (fst kv) (fst kv')) new)) old.

Section IntoFields.
  Variable dec_into : kind -> gv -> jv -> option gv.
  Fixpoint dec_fields_into_with (fs : list field) (olds : list gv) (o : list (bytes * jv)) : option (list gv) :=
    match fs, olds with
    | [], [] => Some []
    | (_, j, k, _) :: fs', old :: olds' =>
        match (match jlookup (bs j) o with
               | None => Some old                     (* absent key: the field keeps its value *)
               | Some x => dec_into k old x end),
              dec_fields_into_with fs' olds' o with
        | Some v, Some r => Some (v :: r)
        | _, _ => None
        end
    | _, _ => None
    end.
End IntoFields.

Fixpoint dec_val_into (k : kind) (old : gv) (j : jv) : option gv :=
  match k, old, j with
  | KMapSS, VMap m, JObj _ =>
      match dec_val KMapSS j with Some (VMap n) => Some (VMap (map_merge m n)) | _ => None end
  | KStruct fs, VStruct olds, JObj o => option_map VStruct (dec_fields_into_with dec_val_into fs olds o)
  | KPtr fs, VPtr (Some olds), JObj o =>
      option_map (fun vs => VPtr (Some vs)) (dec_fields_into_with dec_val_into fs olds o)
  | _, _, _ => dec_val k j     (* scalars, slices, a nil pointer: replaced / decoded into a zero value *)
  end.

Definition dec_obj_into (fs : list field) (olds : list gv) (o : list (bytes * jv)) : option (list gv) :=
  dec_fields_into_with dec_val_into fs olds o.

(* a reader loop over the objects of consecutive frames *)
Fixpoint seq_decode_fresh (fs : list field) (objs : list (list (bytes * jv))) : option (list (list gv)) :=
  match objs with
  | [] => Some []
  | o :: r => match dec_obj fs o, seq_decode_fresh fs r with
              | Some v, Some vs => Some (v :: vs) | _, _ => None end
  end.

(* the same loop with ONE target for the whole connection: what each iteration hands to the consumer *)
Fixpoint seq_decode_shared (fs : list field) (target : list gv) (objs : list (list (bytes * jv))) : option (list (list gv)) :=
  match objs with
  | [] => Some []
  | o :: r => match dec_obj_into fs target o with
              | Some v => match seq_decode_shared fs v r with Some vs => Some (v :: vs) | None => None end
              | None => None end
  end.
